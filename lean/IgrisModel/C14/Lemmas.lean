/-
  C14 — helper lemmas.  Every loop of the model gets a *pointwise* closed form
  (`∀ p, s'[p]? = …`), the member functions are then shown to map the
  abstraction `Abs N v es` (storage = the objects of `es`, then raw slots up to
  N) to the abstraction of the reference operation.
-/
import IgrisModel.C14.Model

namespace Igris.C14

/-- number of constructor / destructor events of a trace -/
def nC (tr : Tr) : Nat := (tr.filter fun e => e.k = .ctor).length
def nD (tr : Tr) : Nat := (tr.filter fun e => e.k = .dtor).length

@[simp] theorem nC_nil : nC [] = 0 := rfl
@[simp] theorem nD_nil : nD [] = 0 := rfl
@[simp] theorem nC_append (a b : Tr) : nC (a ++ b) = nC a + nC b := by simp [nC]
@[simp] theorem nD_append (a b : Tr) : nD (a ++ b) = nD a + nD b := by simp [nD]
@[simp] theorem nC_cons (e : Ev) (t : Tr) : nC (e :: t) = (if e.k = .ctor then 1 else 0) + nC t := by
  simp [nC, List.filter_cons]; split <;> simp <;> omega
@[simp] theorem nD_cons (e : Ev) (t : Tr) : nD (e :: t) = (if e.k = .dtor then 1 else 0) + nD t := by
  simp [nD, List.filter_cons]; split <;> simp <;> omega
@[simp] theorem nC_flip (t : Tr) : nC (t.map Ev.flip) = nC t := by
  induction t with
  | nil => rfl
  | cons e t ih => simp [Ev.flip, ih]
@[simp] theorem nD_flip (t : Tr) : nD (t.map Ev.flip) = nD t := by
  induction t with
  | nil => rfl
  | cons e t ih => simp [Ev.flip, ih]

/-! ### one-step facts -/

theorem construct_ok {s : Slots} {i : Nat} (e : Elem) (h : s[i]? = some .raw) :
    construct s i e = .ok (s.set i (.obj e)) := by simp [construct, h]

theorem destroy_ok {s : Slots} {i : Nat} {e : Elem} (h : s[i]? = some (.obj e)) :
    destroy s i = .ok (s.set i .raw) := by simp [destroy, h]

theorem readObj_ok {s : Slots} {i : Nat} {e : Elem} (h : s[i]? = some (.obj e)) :
    readObj s i = .ok e := by simp [readObj, h]

theorem assign_ok {s : Slots} {i : Nat} {e0 : Elem} (e : Elem) (h : s[i]? = some (.obj e0)) :
    assign s i e = .ok (s.set i (.obj e)) := by simp [assign, h]

theorem moveOut_ok (trk : Bool) {s : Slots} {i : Nat} {e : Elem} (h : s[i]? = some (.obj e)) :
    moveOut trk s i = .ok (e, if trk then s.set i (.obj none) else s) := by simp [moveOut, h]

theorem lt_of_getElem?_some {α} {l : List α} {i : Nat} {a : α} (h : l[i]? = some a) : i < l.length := by
  have := List.getElem?_eq_none_iff (l := l) (i := i)
  grind

/-! ### loops -/

theorem destroyLoop_spec : ∀ (k pos : Nat) (s : Slots),
    (∀ p, pos ≤ p → p < pos + k → ∃ e, s[p]? = some (.obj e)) →
    ∃ s' tr, destroyLoop k pos s = .ok (s', tr) ∧ nC tr = 0 ∧ nD tr = k ∧ s'.length = s.length ∧
      ∀ p, s'[p]? = if pos ≤ p ∧ p < pos + k then some .raw else s[p]? := by
  intro k
  induction k with
  | zero => intro pos s _; exact ⟨s, [], rfl, rfl, rfl, rfl, by intro p; simp; omega⟩
  | succ k ih =>
    intro pos s h
    obtain ⟨e, he⟩ := h pos (by omega) (by omega)
    have hlt := lt_of_getElem?_some he
    obtain ⟨s', tr, h1, h2, h3, h4, h5⟩ := ih (pos + 1) (s.set pos .raw) (by
      intro p hp1 hp2
      obtain ⟨e', he'⟩ := h p (by omega) (by omega)
      exact ⟨e', by rw [List.getElem?_set_ne (by omega)]; exact he'⟩)
    refine ⟨s', ⟨false, .dtor, pos⟩ :: tr, by simp [destroyLoop, destroy_ok he, h1, bind, Except.bind, pure, Except.pure], ?_, ?_, ?_, ?_⟩
    · simp [h2]
    · simp [h3]; omega
    · simp [h4]
    · intro p
      rw [h5 p]
      by_cases hp : p = pos
      · subst hp; simp [List.getElem?_set_self hlt]
      · rw [List.getElem?_set_ne (by omega)]
        by_cases h6 : pos + 1 ≤ p ∧ p < pos + 1 + k
        · rw [if_pos h6, if_pos (by omega)]
        · rw [if_neg h6, if_neg (by omega)]


theorem valueInitLoop_spec : ∀ (k pos : Nat) (s : Slots),
    (∀ p, pos ≤ p → p < pos + k → s[p]? = some .raw) →
    ∃ s' tr, valueInitLoop k pos s = .ok (s', tr) ∧ nC tr = k ∧ nD tr = 0 ∧ s'.length = s.length ∧
      ∀ p, s'[p]? = if pos ≤ p ∧ p < pos + k then some (.obj (some 0)) else s[p]? := by
  intro k
  induction k with
  | zero => intro pos s _; exact ⟨s, [], rfl, rfl, rfl, rfl, by intro p; simp; omega⟩
  | succ k ih =>
    intro pos s h
    have he := h pos (by omega) (by omega)
    have hlt := lt_of_getElem?_some he
    obtain ⟨s', tr, h1, h2, h3, h4, h5⟩ := ih (pos + 1) (s.set pos (.obj (some 0))) (by
      intro p hp1 hp2
      rw [List.getElem?_set_ne (by omega)]; exact h p (by omega) (by omega))
    refine ⟨s', ⟨false, .ctor, pos⟩ :: tr, by simp [valueInitLoop, construct_ok _ he, h1, bind, Except.bind, pure, Except.pure], ?_, ?_, ?_, ?_⟩
    · simp [h2]; omega
    · simp [h3]
    · simp [h4]
    · intro p
      rw [h5 p]
      by_cases hp : p = pos
      · subst hp; simp [List.getElem?_set_self hlt]
      · rw [List.getElem?_set_ne (by omega)]
        by_cases h6 : pos + 1 ≤ p ∧ p < pos + 1 + k
        · rw [if_pos h6, if_pos (by omega)]
        · rw [if_neg h6, if_neg (by omega)]

theorem copyLoop_spec (src : Slots) : ∀ (k pos : Nat) (d : Slots),
    (∀ p, pos ≤ p → p < pos + k → d[p]? = some .raw ∧ ∃ e, src[p]? = some (.obj e)) →
    ∃ d' tr, copyLoop src k pos d = .ok (d', tr) ∧ nC tr = k ∧ nD tr = 0 ∧ d'.length = d.length ∧
      ∀ p, d'[p]? = if pos ≤ p ∧ p < pos + k then src[p]? else d[p]? := by
  intro k
  induction k with
  | zero => intro pos d _; exact ⟨d, [], rfl, rfl, rfl, rfl, by intro p; simp; omega⟩
  | succ k ih =>
    intro pos d h
    obtain ⟨hr, e, he⟩ := h pos (by omega) (by omega)
    have hlt := lt_of_getElem?_some hr
    obtain ⟨d', tr, h1, h2, h3, h4, h5⟩ := ih (pos + 1) (d.set pos (.obj e)) (by
      intro p hp1 hp2
      rw [List.getElem?_set_ne (by omega)]; exact h p (by omega) (by omega))
    refine ⟨d', ⟨false, .ctor, pos⟩ :: tr, by simp [copyLoop, readObj_ok he, construct_ok _ hr, h1, bind, Except.bind, pure, Except.pure], ?_, ?_, ?_, ?_⟩
    · simp [h2]; omega
    · simp [h3]
    · simp [h4]
    · intro p
      rw [h5 p]
      by_cases hp : p = pos
      · subst hp; simp [List.getElem?_set_self hlt, he]
      · rw [List.getElem?_set_ne (by omega)]
        by_cases h6 : pos + 1 ≤ p ∧ p < pos + 1 + k
        · rw [if_pos h6, if_pos (by omega)]
        · rw [if_neg h6, if_neg (by omega)]

theorem moveLoop_spec (trk : Bool) : ∀ (k pos : Nat) (d s : Slots),
    (∀ p, pos ≤ p → p < pos + k → d[p]? = some .raw ∧ ∃ e, s[p]? = some (.obj e)) →
    ∃ d' s' tr, moveLoop trk k pos d s = .ok (d', s', tr) ∧ nC tr = k ∧ nD tr = 0 ∧
      d'.length = d.length ∧ s'.length = s.length ∧
      (∀ p, d'[p]? = if pos ≤ p ∧ p < pos + k then s[p]? else d[p]?) ∧
      (∀ p, s'[p]? = if pos ≤ p ∧ p < pos + k ∧ trk = true then some (.obj none) else s[p]?) := by
  intro k
  induction k with
  | zero => intro pos d s _; exact ⟨d, s, [], rfl, rfl, rfl, rfl, rfl, by intro p; simp; omega, by intro p; simp; omega⟩
  | succ k ih =>
    intro pos d s h
    obtain ⟨hr, e, he⟩ := h pos (by omega) (by omega)
    have hlt := lt_of_getElem?_some hr
    have hlts := lt_of_getElem?_some he
    obtain ⟨d', s', tr, h1, h2, h3, h4, h4', h5, h6⟩ := ih (pos + 1) (d.set pos (.obj e))
        (if trk then s.set pos (.obj none) else s) (by
      intro p hp1 hp2
      rw [List.getElem?_set_ne (by omega)]
      refine ⟨(h p (by omega) (by omega)).1, ?_⟩
      obtain ⟨e', he'⟩ := (h p (by omega) (by omega)).2
      refine ⟨e', ?_⟩
      split
      · rw [List.getElem?_set_ne (by omega)]; exact he'
      · exact he')
    refine ⟨d', s', ⟨true, .mv, pos⟩ :: ⟨false, .ctor, pos⟩ :: tr,
      by simp [moveLoop, moveOut_ok trk he, construct_ok _ hr, h1, bind, Except.bind, pure, Except.pure], ?_, ?_, ?_, ?_, ?_, ?_⟩
    · simp [h2]; omega
    · simp [h3]
    · simp [h4]
    · rw [h4']; split <;> simp
    · intro p
      have := h5 p
      cases trk <;> grind [List.getElem?_set]
    · intro p
      have := h6 p
      cases trk <;> grind [List.getElem?_set]


def isObj : Option Slot → Prop
  | some (.obj _) => True
  | _ => False

theorem isObj_iff {o : Option Slot} : isObj o ↔ ∃ e, o = some (.obj e) := by
  cases o with
  | none => simp [isObj]
  | some s => cases s <;> simp [isObj]

theorem shiftLoop_spec (trk : Bool) : ∀ (k src dst : Nat) (s : Slots), dst < src →
    (∀ p, dst ≤ p → p < src + k → ∃ e, s[p]? = some (.obj e)) →
    ∃ s' tr, shiftLoop trk k src dst s = .ok (s', tr) ∧ nC tr = 0 ∧ nD tr = 0 ∧ s'.length = s.length ∧
      ∀ p, s'[p]? = if dst ≤ p ∧ p < dst + k then s[p + (src - dst)]?
                    else if src ≤ p ∧ p < src + k ∧ trk = true then some (.obj none) else s[p]? := by
  intro k
  induction k with
  | zero => intro src dst s _ _; exact ⟨s, [], rfl, rfl, rfl, rfl, by intro p; grind⟩
  | succ k ih =>
    intro src dst s hlt h
    obtain ⟨e, he⟩ := h src (by omega) (by omega)
    obtain ⟨e0, he0⟩ := h dst (by omega) (by omega)
    have hl1 := lt_of_getElem?_some he
    have hl0 := lt_of_getElem?_some he0
    have hd : (if trk then s.set src (.obj none) else s)[dst]? = some (.obj e0) := by
      cases trk
      · exact he0
      · grind
    obtain ⟨s', tr, h1, h2, h3, h4, h5⟩ := ih (src + 1) (dst + 1)
        ((if trk then s.set src (.obj none) else s).set dst (.obj e)) (by omega) (by
      intro p hp1 hp2
      obtain ⟨e', he'⟩ := h p (by omega) (by omega)
      rw [List.getElem?_set_ne (by omega)]
      cases trk
      · exact ⟨e', he'⟩
      · simp
        by_cases hps : p = src
        · subst hps; exact ⟨none, by rw [List.getElem?_set_self hl1]⟩
        · exact ⟨e', by rw [List.getElem?_set_ne (by omega)]; exact he'⟩)
    refine ⟨s', ⟨false, .mv, src⟩ :: ⟨false, .asg, dst⟩ :: tr,
      by simp [shiftLoop, moveOut_ok trk he, assign_ok _ hd, h1, bind, Except.bind, pure, Except.pure], ?_, ?_, ?_, ?_⟩
    · simp [h2]
    · simp [h3]
    · rw [h4]; cases trk <;> simp
    · intro p
      have h5p := h5 p
      have e1 : p + (src + 1 - (dst + 1)) = p + (src - dst) := by omega
      rw [e1] at h5p
      clear h5 h1 ih hd h4
      cases trk
      · simp only [Bool.false_eq_true, if_false, and_false] at h5p ⊢
        grind
      · simp only [if_true, and_true] at h5p ⊢
        grind


/-! ## abstraction: the storage holds the objects of `es`, then raw slots up to N -/

def slotAt (N : Nat) (es : List Elem) (p : Nat) : Option Slot :=
  if p < es.length then (es[p]?).map .obj else if p < N then some .raw else none

structure Abs (N : Nat) (v : SVec) (es : List Elem) : Prop where
  len : v.slots.length = N
  size : v.size = es.length
  le : es.length ≤ N
  pt : ∀ p, v.slots[p]? = slotAt N es p

theorem slotAt_obj {N : Nat} {es : List Elem} {p : Nat} (h : p < es.length) :
    ∃ e, slotAt N es p = some (.obj e) := by
  simp [slotAt, h]

theorem slotAt_raw {N : Nat} {es : List Elem} {p : Nat} (h1 : es.length ≤ p) (h2 : p < N) :
    slotAt N es p = some .raw := by
  simp [slotAt, h2]; omega

theorem rawStore_getElem? (N p : Nat) : (rawStore N)[p]? = if p < N then some .raw else none := by
  simp [rawStore, List.getElem?_replicate]

theorem abs_fresh (N : Nat) : Abs N ⟨rawStore N, 0⟩ [] :=
  ⟨by simp [rawStore], rfl, by simp, by intro p; simp [rawStore_getElem?, slotAt]⟩

theorem Abs.contents {N : Nat} {v : SVec} {es : List Elem} (h : Abs N v es) : v.contents = es := by
  apply List.ext_getElem?
  intro p
  simp only [SVec.contents, List.getElem?_map, List.getElem?_take]
  have hpt := h.pt p
  have hsz := h.size
  by_cases hp : p < es.length
  · simp [slotAt, hp] at hpt
    rw [if_pos (by omega), hpt]
    cases hq : es[p]? with
    | none => have := List.getElem?_eq_none_iff.mp hq; omega
    | some e => simp [slotElem]; grind
  · rw [if_neg (by omega)]
    simp; omega

theorem clear_spec {N : Nat} {v : SVec} {es : List Elem} (h : Abs N v es) :
    ∃ v' tr, clear v = .ok (v', tr) ∧ Abs N v' [] ∧ nC tr = 0 ∧ nD tr = es.length := by
  obtain ⟨s', tr, h1, h2, h3, h4, h5⟩ := destroyLoop_spec v.size 0 v.slots (by
    intro p _ hp
    rw [h.pt p]; exact slotAt_obj (by have := h.size; omega))
  refine ⟨⟨s', 0⟩, tr, by simp [clear, h1, bind, Except.bind, pure, Except.pure], ⟨by rw [h4, h.len], rfl, by simp, ?_⟩, h2, by rw [h3, h.size]⟩
  intro p
  have := h.pt p; have := h.size; have := h.le; have := h5 p
  simp only [slotAt] at *
  grind

theorem destructor_spec {N : Nat} {v : SVec} {es : List Elem} (h : Abs N v es) :
    ∃ v' tr, destructor v = .ok (v', tr) ∧ Abs N v' [] ∧ nC tr = 0 ∧ nD tr = es.length := by
  obtain ⟨v', tr, h1, h2⟩ := clear_spec h
  exact ⟨v', tr, by simpa [destructor, clear] using h1, h2⟩

theorem abs_nil_rawStore {N : Nat} {v : SVec} (h : Abs N v []) : v.slots = rawStore N ∧ v.size = 0 := by
  refine ⟨?_, h.size⟩
  apply List.ext_getElem?
  intro p
  rw [h.pt p, rawStore_getElem?]; simp [slotAt]

theorem copyInto_spec {N : Nat} {d o : SVec} {eo : List Elem} (hd : Abs N d []) (ho : Abs N o eo) :
    ∃ d' tr, copyLoop o.slots o.size 0 d.slots = .ok (d', tr) ∧ Abs N ⟨d', o.size⟩ eo ∧ nC tr = eo.length ∧ nD tr = 0 := by
  obtain ⟨d', tr, h1, h2, h3, h4, h5⟩ := copyLoop_spec o.slots o.size 0 d.slots (by
    intro p _ hp
    have := ho.size; have := ho.le
    rw [hd.pt p, ho.pt p]
    exact ⟨slotAt_raw (by simp) (by omega), slotAt_obj (by omega)⟩)
  refine ⟨d', tr, h1, ⟨by rw [h4, hd.len], ho.size, ho.le, ?_⟩, by rw [h2, ho.size], h3⟩
  intro p
  have := hd.pt p; have := ho.pt p; have := ho.size; have := ho.le; have := h5 p
  simp only [slotAt] at *
  grind

theorem copyCtor_spec {N : Nat} {o : SVec} {eo : List Elem} (ho : Abs N o eo) :
    ∃ v tr, copyCtor N o = .ok (v, tr) ∧ Abs N v eo ∧ nC tr = eo.length ∧ nD tr = 0 := by
  obtain ⟨d', tr, h1, h2, h3, h4⟩ := copyInto_spec (abs_fresh N) ho
  exact ⟨⟨d', o.size⟩, tr, by simp at h1; simp [copyCtor, h1, bind, Except.bind, pure, Except.pure], h2, h3, h4⟩

theorem assignCopy_spec {N : Nat} {v o : SVec} {es eo : List Elem} (hv : Abs N v es) (ho : Abs N o eo) :
    ∃ v' tr, assignCopy v o = .ok (v', tr) ∧ Abs N v' eo ∧ nC tr = eo.length ∧ nD tr = es.length := by
  obtain ⟨v1, tr1, a1, a2, a3, a4⟩ := clear_spec hv
  obtain ⟨d', tr, h1, h2, h3, h4⟩ := copyInto_spec a2 ho
  exact ⟨⟨d', o.size⟩, tr1 ++ tr, by simp [assignCopy, a1, h1, bind, Except.bind, pure, Except.pure], h2, by simp [a3, h3], by simp [a4, h4]⟩

/-- the elements of a container whose elements have all been moved from -/
def movedFrom (trk : Bool) (es : List Elem) : List Elem := if trk then es.map fun _ => none else es

@[simp] theorem movedFrom_length (trk : Bool) (es : List Elem) : (movedFrom trk es).length = es.length := by
  simp [movedFrom]; split <;> simp

theorem moveInto_spec (trk : Bool) {N : Nat} {d o : SVec} {eo : List Elem} (hd : Abs N d []) (ho : Abs N o eo) :
    ∃ d' s' tr, moveLoop trk o.size 0 d.slots o.slots = .ok (d', s', tr) ∧ Abs N ⟨d', o.size⟩ eo ∧
      Abs N ⟨s', o.size⟩ (movedFrom trk eo) ∧ nC tr = eo.length ∧ nD tr = 0 := by
  obtain ⟨d', s', tr, h1, h2, h3, h4, h4', h5, h6⟩ := moveLoop_spec trk o.size 0 d.slots o.slots (by
    intro p _ hp
    have := ho.size; have := ho.le
    rw [hd.pt p, ho.pt p]
    exact ⟨slotAt_raw (by simp) (by omega), slotAt_obj (by omega)⟩)
  refine ⟨d', s', tr, h1, ⟨by rw [h4, hd.len], ho.size, ho.le, ?_⟩, ⟨by rw [h4', ho.len], by simp [ho.size], by simp [ho.le], ?_⟩, by rw [h2, ho.size], h3⟩
  · intro p
    have := hd.pt p; have := ho.pt p; have := ho.size; have := ho.le; have := h5 p
    simp only [slotAt] at *
    grind
  · intro p
    have := ho.pt p; have := ho.size; have := ho.le; have := h6 p
    cases trk
    · simp only [movedFrom, slotAt] at *
      grind
    · simp only [movedFrom, slotAt, if_true, List.length_map, List.getElem?_map] at *
      by_cases hp : p < eo.length
      · have : eo[p]? = some (eo[p]) := List.getElem?_eq_getElem hp
        grind
      · grind

theorem moveCtor_spec (port trk : Bool) {N : Nat} {o : SVec} {eo : List Elem} (ho : Abs N o eo) :
    ∃ v o' tr, moveCtor port trk N o = .ok (v, o', tr) ∧ Abs N v eo ∧
      Abs N o' (if port then movedFrom trk eo else []) ∧ nC tr = eo.length ∧
      nD tr = (if port then 0 else eo.length) := by
  obtain ⟨d', s', tr, h1, h2, h3, h4, h5⟩ := moveInto_spec trk (abs_fresh N) ho
  simp at h1
  cases port
  · obtain ⟨o', tr2, c1, c2, c3, c4⟩ := clear_spec h3
    exact ⟨⟨d', o.size⟩, o', tr ++ tr2.map Ev.flip,
      by simp [moveCtor, h1, c1, bind, Except.bind, pure, Except.pure], h2, by simpa using c2, by simp [h4, c3], by simp [h5, c4]⟩
  · exact ⟨⟨d', o.size⟩, ⟨s', o.size⟩, tr, by simp [moveCtor, h1, bind, Except.bind, pure, Except.pure], h2, by simpa using h3, h4, by simp [h5]⟩

theorem assignMove_spec (trk : Bool) {N : Nat} {v o : SVec} {es eo : List Elem} (hv : Abs N v es) (ho : Abs N o eo) :
    ∃ v' o' tr, assignMove trk v o = .ok (v', o', tr) ∧ Abs N v' eo ∧ Abs N o' [] ∧
      nC tr = eo.length ∧ nD tr = es.length + eo.length := by
  obtain ⟨v1, tr1, a1, a2, a3, a4⟩ := clear_spec hv
  obtain ⟨d', s', tr, h1, h2, h3, h4, h5⟩ := moveInto_spec trk a2 ho
  obtain ⟨o', tr2, c1, c2, c3, c4⟩ := clear_spec h3
  exact ⟨⟨d', o.size⟩, o', tr1 ++ tr ++ tr2.map Ev.flip,
    by simp [assignMove, a1, h1, c1, bind, Except.bind, pure, Except.pure], h2, c2, by simp [a3, h4, c3], by simp [a4, h5, c4]⟩


/-! ## reference semantics on `List Elem` with capacity N -/

def specPush (N : Nat) (es : List Elem) (x : Nat) : List Elem :=
  if es.length < N then es ++ [some x] else es

/-- excess input is dropped, the prefix is kept -/
def specCtor (N : Nat) (xs : List Nat) : List Elem := (xs.take N).map some

def specResize (N : Nat) (es : List Elem) (n : Nat) : List Elem :=
  if min n N ≤ es.length then es.take (min n N) else es ++ List.replicate (min n N - es.length) (some 0)

def specErase (es : List Elem) (i j : Nat) : List Elem := es.take i ++ es.drop j

theorem pushBack_spec {N : Nat} {v : SVec} {es : List Elem} (h : Abs N v es) (x : Nat) :
    ∃ v' tr, pushBack N v x = .ok (v', tr) ∧ Abs N v' (specPush N es x) ∧
      nC tr + es.length = (specPush N es x).length ∧ nD tr = 0 := by
  have hs := h.size; have hl := h.le
  by_cases hf : v.size ≥ N
  · have hsp : specPush N es x = es := by simp [specPush]; omega
    refine ⟨v, [], by simp [pushBack, hf], ?_, ?_, rfl⟩
    · rw [hsp]; exact h
    · rw [hsp]; simp
  · have hr : v.slots[v.size]? = some .raw := by rw [h.pt]; exact slotAt_raw (by omega) (by omega)
    have hlt : v.size < v.slots.length := by rw [h.len]; omega
    have hsp : specPush N es x = es ++ [some x] := by simp [specPush]; omega
    refine ⟨⟨v.slots.set v.size (.obj (some x)), v.size + 1⟩, [⟨false, .ctor, v.size⟩],
      by simp [pushBack, hf, construct_ok _ hr, bind, Except.bind, pure, Except.pure], ?_, ?_, by simp⟩
    · rw [hsp]
      refine ⟨by simp [h.len], by simp [hs], by simp; omega, ?_⟩
      intro p
      have := h.pt p
      simp only [slotAt, List.length_append, List.length_singleton, List.getElem?_append] at *
      grind
    · rw [hsp]; simp; omega

theorem emplaceBack_eq (N : Nat) (v : SVec) (x : Nat) : emplaceBack N v x = pushBack N v x := rfl

theorem ilLoop_spec (N : Nat) : ∀ (xs : List Nat) (v : SVec) (es : List Elem), Abs N v es →
    ∃ v' tr, ilLoop N xs v = .ok (v', tr) ∧ Abs N v' (es ++ (xs.take (N - es.length)).map some) ∧
      nC tr = min xs.length (N - es.length) ∧ nD tr = 0 := by
  intro xs
  induction xs with
  | nil => intro v es h; exact ⟨v, [], rfl, by simpa using h, by simp, rfl⟩
  | cons x xs ih =>
    intro v es h
    have hs := h.size; have hl := h.le
    by_cases hf : v.size ≥ N
    · have : N - es.length = 0 := by omega
      exact ⟨v, [], by simp [ilLoop, hf], by simpa [this] using h, by simp [this], rfl⟩
    · obtain ⟨v1, tr1, p1, p2, p3, p4⟩ := pushBack_spec h x
      have hsp : specPush N es x = es ++ [some x] := by simp [specPush]; omega
      rw [hsp] at p2
      have hr : v.slots[v.size]? = some .raw := by rw [h.pt]; exact slotAt_raw (by omega) (by omega)
      have hv1 : v1 = ⟨v.slots.set v.size (.obj (some x)), v.size + 1⟩ := by
        simp [pushBack, hf, construct_ok _ hr, bind, Except.bind, pure, Except.pure] at p1
        exact p1.1.symm
      obtain ⟨v', tr, q1, q2, q3, q4⟩ := ih v1 _ p2
      refine ⟨v', ⟨false, .ctor, v.size⟩ :: tr,
        by rw [hv1] at q1; simp [ilLoop, hf, construct_ok _ hr, q1, bind, Except.bind, pure, Except.pure], ?_, ?_, by simp [q4]⟩
      · have e1 : N - es.length = (N - (es ++ [some x]).length) + 1 := by simp; omega
        rw [e1, List.take_succ_cons]
        simpa using q2
      · simp [q3]; omega

theorem ilCtor_spec (N : Nat) (xs : List Nat) :
    ∃ v tr, ilCtor N xs = .ok (v, tr) ∧ Abs N v (specCtor N xs) ∧ nC tr = (specCtor N xs).length ∧ nD tr = 0 := by
  obtain ⟨v, tr, h1, h2, h3, h4⟩ := ilLoop_spec N xs _ [] (abs_fresh N)
  exact ⟨v, tr, h1, by simpa [specCtor] using h2, by simp [specCtor, h3, Nat.min_comm], h4⟩

theorem rangeLoop_spec (N : Nat) : ∀ (xs : List Nat) (v : SVec) (es : List Elem), Abs N v es →
    ∃ v' tr, rangeLoop N xs v = .ok (v', tr) ∧ Abs N v' (es ++ (xs.take (N - es.length)).map some) ∧
      nC tr = min xs.length (N - es.length) ∧ nD tr = 0 := by
  intro xs
  induction xs with
  | nil => intro v es h; exact ⟨v, [], rfl, by simpa using h, by simp, rfl⟩
  | cons x xs ih =>
    intro v es h
    have hl := h.le
    obtain ⟨v1, tr1, p1, p2, p3, p4⟩ := pushBack_spec h x
    obtain ⟨v', tr, q1, q2, q3, q4⟩ := ih v1 _ p2
    refine ⟨v', tr1 ++ tr, by simp [rangeLoop, p1, q1, bind, Except.bind, pure, Except.pure], ?_, ?_, by simp [p4, q4]⟩
    · by_cases hf : es.length < N
      · have hsp : specPush N es x = es ++ [some x] := by simp [specPush, hf]
        rw [hsp] at q2
        have e1 : N - es.length = (N - (es ++ [some x]).length) + 1 := by simp; omega
        rw [e1, List.take_succ_cons]
        simpa using q2
      · have hsp : specPush N es x = es := by simp [specPush, hf]
        rw [hsp] at q2
        have : N - es.length = 0 := by omega
        simpa [this] using q2
    · simp [q3]
      by_cases hf : es.length < N
      · have hsp : specPush N es x = es ++ [some x] := by simp [specPush, hf]
        rw [hsp] at p3 ⊢; simp at p3 ⊢; omega
      · have hsp : specPush N es x = es := by simp [specPush, hf]
        rw [hsp] at p3 ⊢; omega

theorem rangeCtor_spec (N : Nat) (xs : List Nat) :
    ∃ v tr, rangeCtor N xs = .ok (v, tr) ∧ Abs N v (specCtor N xs) ∧ nC tr = (specCtor N xs).length ∧ nD tr = 0 := by
  obtain ⟨v, tr, h1, h2, h3, h4⟩ := rangeLoop_spec N xs _ [] (abs_fresh N)
  exact ⟨v, tr, h1, by simpa [specCtor] using h2, by simp [specCtor, h3, Nat.min_comm], h4⟩

theorem resize_spec {N : Nat} {v : SVec} {es : List Elem} (h : Abs N v es) (n : Nat) :
    ∃ v' tr, resize N v n = .ok (v', tr) ∧ Abs N v' (specResize N es n) ∧
      nC tr + es.length = nD tr + (specResize N es n).length := by
  have hs := h.size; have hl := h.le
  have hn : (if n ≥ N then N else n) = min n N := by split <;> omega
  obtain ⟨s1, tr1, a1, a2, a3, a4, a5⟩ := valueInitLoop_spec (min n N - v.size) v.size v.slots (by
    intro p hp1 hp2
    rw [h.pt p]; exact slotAt_raw (by omega) (by omega))
  obtain ⟨s2, tr2, b1, b2, b3, b4, b5⟩ := destroyLoop_spec (v.size - min n N) (min n N) s1 (by
    intro p hp1 hp2
    rw [a5 p, if_neg (by omega), h.pt p]; exact slotAt_obj (by omega))
  refine ⟨⟨s2, min n N⟩, tr1 ++ tr2, by simp only [resize, hn]; simp [a1, b1, bind, Except.bind, pure, Except.pure], ?_, ?_⟩
  · by_cases hc : min n N ≤ es.length
    · have hsp : specResize N es n = es.take (min n N) := by simp [specResize, hc]
      rw [hsp]
      refine ⟨by rw [b4, a4, h.len], by simp; omega, by simp; omega, ?_⟩
      intro p
      have := h.pt p; have := a5 p; have := b5 p
      simp only [slotAt, List.length_take, List.getElem?_take] at *
      grind
    · have hsp : specResize N es n = es ++ List.replicate (min n N - es.length) (some 0) := by simp [specResize, hc]
      rw [hsp]
      refine ⟨by rw [b4, a4, h.len], by simp; omega, by simp; omega, ?_⟩
      intro p
      have := h.pt p; have := a5 p; have := b5 p
      simp only [slotAt, List.length_append, List.length_replicate, List.getElem?_append, List.getElem?_replicate] at *
      grind
  · simp [a2, a3, b2, b3]
    by_cases hc : min n N ≤ es.length
    · simp [specResize, hc]; omega
    · simp [specResize, hc]; omega

theorem erase_spec (trk : Bool) {N : Nat} {v : SVec} {es : List Elem} (h : Abs N v es) {i j : Nat}
    (hij : i ≤ j) (hj : j ≤ es.length) :
    ∃ v' tr, erase trk v i j = .ok (v', tr) ∧ Abs N v' (specErase es i j) ∧
      nC tr = 0 ∧ nD tr + (specErase es i j).length = es.length := by
  have hs := h.size; have hl := h.le
  by_cases hijeq : i = j
  · subst hijeq
    have : specErase es i i = es := by simp [specErase]
    exact ⟨v, [], by simp [erase], by rw [this]; exact h, rfl, by rw [this]; simp⟩
  · obtain ⟨s1, tr1, a1, a2, a3, a4, a5⟩ := shiftLoop_spec trk (v.size - j) j i v.slots (by omega) (by
      intro p hp1 hp2
      rw [h.pt p]; exact slotAt_obj (by omega))
    obtain ⟨s2, tr2, b1, b2, b3, b4, b5⟩ := destroyLoop_spec (j - i) (v.size - (j - i)) s1 (by
      intro p hp1 hp2
      apply isObj_iff.mp
      rw [a5 p]
      have := h.pt p
      have h2 := h.pt (p + (j - i))
      simp only [slotAt] at *
      have hp : p < es.length := by omega
      have : es[p]? = some (es[p]) := List.getElem?_eq_getElem hp
      by_cases hq : p + (j - i) < es.length
      · have : es[p + (j - i)]? = some (es[p + (j - i)]) := List.getElem?_eq_getElem hq
        cases trk <;> grind [isObj]
      · cases trk <;> grind [isObj])
    refine ⟨⟨s2, v.size - (j - i)⟩, tr1 ++ tr2, by simp [erase, hijeq, a1, b1, bind, Except.bind, pure, Except.pure], ?_, by simp [a2, b2], ?_⟩
    · refine ⟨by rw [b4, a4, h.len], by simp [specErase]; omega, by simp [specErase]; omega, ?_⟩
      intro p
      have := h.pt p; have h2 := h.pt (p + (j - i)); have := a5 p; have := b5 p
      have e1 : j + (p - i) = p + (j - i) ∨ p < i := by omega
      simp only [slotAt, specErase, List.length_append, List.length_take, List.length_drop,
        List.getElem?_append, List.getElem?_take, List.getElem?_drop] at *
      have e2 : min i es.length = i := by omega
      rw [e2] at *
      cases trk <;> grind
    · simp [a3, b3, specErase]; omega


set_option linter.unusedSimpArgs false

/-! ## the machine of K objects against the reference machine -/

abbrev SpecRegs := Nat → Option (List Elem)

def setSpec (f : SpecRegs) (r : Nat) (x : Option (List Elem)) : SpecRegs := fun q => if q = r then x else f q

/-- reference semantics of one operation on K sequences of capacity N
    (an operation outside the contract changes nothing) -/
def specStep (c : Cfg) (sp : SpecRegs) : Op → SpecRegs
  | .new r =>
      match decide (r < c.K), sp r with
      | true, none => setSpec sp r (some [])
      | _, _ => sp
  | .copy r s =>
      match decide (r < c.K ∧ s < c.K), sp r, sp s with
      | true, none, some eo => setSpec sp r (some eo)
      | _, _, _ => sp
  | .move r s =>
      match decide (r < c.K ∧ s < c.K), sp r, sp s with
      | true, none, some eo => setSpec (setSpec sp s (some (if c.port then movedFrom c.trk eo else []))) r (some eo)
      | _, _, _ => sp
  | .range r xs =>
      match decide (r < c.K ∧ c.port = false), sp r with
      | true, none => setSpec sp r (some (specCtor c.N xs))
      | _, _ => sp
  | .il r xs =>
      match decide (r < c.K ∧ c.port = false), sp r with
      | true, none => setSpec sp r (some (specCtor c.N xs))
      | _, _ => sp
  | .acopy r s =>
      match decide (r < c.K ∧ s < c.K), sp r, sp s with
      | true, some _, some eo => setSpec sp r (some eo)
      | _, _, _ => sp
  | .amove r s =>
      match decide (r < c.K ∧ s < c.K), sp r, sp s with
      | true, some _, some eo => if r = s then sp else setSpec (setSpec sp s (some [])) r (some eo)
      | _, _, _ => sp
  | .push r x =>
      match decide (r < c.K), sp r with
      | true, some es => setSpec sp r (some (specPush c.N es x))
      | _, _ => sp
  | .emplace r x =>
      match decide (r < c.K), sp r with
      | true, some es => setSpec sp r (some (specPush c.N es x))
      | _, _ => sp
  | .resize r n =>
      match decide (r < c.K), sp r with
      | true, some es => setSpec sp r (some (specResize c.N es n))
      | _, _ => sp
  | .erase r i j =>
      match decide (r < c.K ∧ c.port = false), sp r with
      | true, some es => if i ≤ j ∧ j ≤ es.length then setSpec sp r (some (specErase es i j)) else sp
      | _, _ => sp
  | .clear r =>
      match decide (r < c.K), sp r with
      | true, some _ => setSpec sp r (some [])
      | _, _ => sp
  | .del r =>
      match decide (r < c.K), sp r with
      | true, some _ => setSpec sp r none
      | _, _ => sp
  | .finish => fun _ => none

def specRun (c : Cfg) : List Op → SpecRegs → SpecRegs
  | [], sp => sp
  | op :: ops, sp => specRun c ops (specStep c sp op)

def Rel (N : Nat) : Option SVec → Option (List Elem) → Prop
  | none, none => True
  | some v, some es => Abs N v es
  | _, _ => False

def szOf (sp : SpecRegs) (r : Nat) : Nat :=
  match sp r with
  | some es => es.length
  | none => 0

def total (f : Nat → Nat) : Nat → Nat
  | 0 => 0
  | k + 1 => total f k + f k

structure MInv (c : Cfg) (m : Mach) (sp : SpecRegs) : Prop where
  rel : ∀ r, Rel c.N (m.regs r) (sp r)
  out : ∀ r, c.K ≤ r → sp r = none
  bal : m.nctor = m.ndtor + total (szOf sp) c.K

theorem total_congr {f g : Nat → Nat} : ∀ (k : Nat), (∀ q, q < k → f q = g q) → total f k = total g k := by
  intro k
  induction k with
  | zero => intro _; rfl
  | succ k ih => intro h; simp [total, ih (fun q hq => h q (by omega)), h k (by omega)]

theorem total_set (sp : SpecRegs) (r : Nat) (x : Option (List Elem)) : ∀ (k : Nat), r < k →
    total (szOf (setSpec sp r x)) k + szOf sp r = total (szOf sp) k + szOf (setSpec sp r x) r := by
  intro k
  induction k with
  | zero => intro h; omega
  | succ k ih =>
    intro h
    by_cases hk : r = k
    · subst hk
      have : total (szOf (setSpec sp r x)) r = total (szOf sp) r :=
        total_congr r (fun q hq => by simp [szOf, setSpec]; rw [if_neg (by omega)])
      simp [total, this]; omega
    · have := ih (by omega)
      have e : szOf (setSpec sp r x) k = szOf sp k := by simp [szOf, setSpec]; rw [if_neg (by omega)]
      simp [total, e]; omega

@[simp] theorem szOf_set_self (sp : SpecRegs) (r : Nat) (es : List Elem) : szOf (setSpec sp r (some es)) r = es.length := by
  simp [szOf, setSpec]
@[simp] theorem szOf_set_none (sp : SpecRegs) (r : Nat) : szOf (setSpec sp r none) r = 0 := by
  simp [szOf, setSpec]
theorem szOf_set_ne (sp : SpecRegs) {r q : Nat} (x : Option (List Elem)) (h : q ≠ r) : szOf (setSpec sp r x) q = szOf sp q := by
  simp [szOf, setSpec, h]

theorem szOf_some {sp : SpecRegs} {r : Nat} {es : List Elem} (h : sp r = some es) : szOf sp r = es.length := by
  simp [szOf, h]
theorem szOf_of {sp : SpecRegs} {r : Nat} {x : Option (List Elem)} (h : sp r = x) :
    szOf sp r = (match x with | some es => es.length | none => 0) := by cases x <;> simp [szOf, h]
theorem szOf_none {sp : SpecRegs} {r : Nat} (h : sp r = none) : szOf sp r = 0 := by
  simp [szOf, h]

theorem countK_glob_ctor (r s : Nat) (tr : Tr) : countK .ctor (glob r s tr) = nC tr := by
  simp [countK, glob, nC, List.filter_map, Function.comp_def]
theorem countK_glob_dtor (r s : Nat) (tr : Tr) : countK .dtor (glob r s tr) = nD tr := by
  simp [countK, glob, nD, List.filter_map, Function.comp_def]

theorem rel_none {N : Nat} {o : Option SVec} {x : Option (List Elem)} (h : Rel N o x) : o = none ↔ x = none := by
  cases o <;> cases x <;> simp_all [Rel]

theorem minv_same {c : Cfg} {m : Mach} {sp : SpecRegs} (h : MInv c m sp) : MInv c (m.log m.regs []).1 sp :=
  ⟨h.rel, h.out, by simpa [Mach.log, countK] using h.bal⟩

/-- one register replaced -/
theorem minv_set1 {c : Cfg} {m : Mach} {sp : SpecRegs} (h : MInv c m sp) {r : Nat} (hr : r < c.K)
    {v' : Option SVec} {es' : Option (List Elem)} (s : Nat) (tr : Tr) (habs : Rel c.N v' es')
    (hbal : nC tr + szOf sp r = nD tr + szOf (setSpec sp r es') r) :
    MInv c (m.log (setReg m.regs r v') (glob r s tr)).1 (setSpec sp r es') := by
  refine ⟨?_, ?_, ?_⟩
  · intro q
    by_cases hq : q = r
    · subst hq; simpa [Mach.log, setReg, setSpec] using habs
    · simpa [Mach.log, setReg, setSpec, hq] using h.rel q
  · intro q hq
    have : q ≠ r := by omega
    simpa [setSpec, this] using h.out q hq
  · have := total_set sp r es' c.K hr
    have := h.bal
    simp only [Mach.log, countK_glob_ctor, countK_glob_dtor]
    omega

/-- two different registers replaced -/
theorem minv_set2 {c : Cfg} {m : Mach} {sp : SpecRegs} (h : MInv c m sp) {r s : Nat} (hr : r < c.K) (hs : s < c.K)
    (hne : r ≠ s) {v' o' : Option SVec} {er' es' : Option (List Elem)} (tr : Tr)
    (habs : Rel c.N v' er') (habs2 : Rel c.N o' es')
    (hbal : nC tr + szOf sp r + szOf sp s =
      nD tr + szOf (setSpec sp r er') r + szOf (setSpec sp s es') s) :
    MInv c (m.log (setReg (setReg m.regs s o') r v') (glob r s tr)).1 (setSpec (setSpec sp s es') r er') := by
  refine ⟨?_, ?_, ?_⟩
  · intro q
    by_cases hq : q = r
    · subst hq; simpa [Mach.log, setReg, setSpec] using habs
    · by_cases hq2 : q = s
      · subst hq2; simpa [Mach.log, setReg, setSpec, hq] using habs2
      · simpa [Mach.log, setReg, setSpec, hq, hq2] using h.rel q
  · intro q hq
    have : q ≠ r := by omega
    have : q ≠ s := by omega
    simpa [setSpec, *] using h.out q hq
  · have t1 := total_set sp s es' c.K hs
    have t2 := total_set (setSpec sp s es') r er' c.K hr
    have e1 : szOf (setSpec sp s es') r = szOf sp r := szOf_set_ne sp es' hne
    have e2 : szOf (setSpec (setSpec sp s es') r er') r = szOf (setSpec sp r er') r := by simp [szOf, setSpec]
    have := h.bal
    simp only [Mach.log, countK_glob_ctor, countK_glob_dtor]
    omega



def specFinish (k : Nat) (sp : SpecRegs) : SpecRegs := fun q => if q < k then none else sp q

theorem finishLoop_spec {c : Cfg} : ∀ (k : Nat) (m : Mach) (sp : SpecRegs) (acc : List GEv), MInv c m sp → k ≤ c.K →
    ∃ mr : Mach × List GEv, finishLoop k m acc = .ok mr ∧ MInv c mr.1 (specFinish k sp) := by
  intro k
  induction k with
  | zero =>
    intro m sp acc h _
    have e : specFinish 0 sp = sp := by funext q; simp [specFinish]
    exact ⟨(m, acc), rfl, by rw [e]; exact h⟩
  | succ k ih =>
    intro m sp acc h hk
    have hrel := h.rel k
    cases hm : m.regs k with
    | none =>
      have hs : sp k = none := (rel_none hrel).mp hm
      obtain ⟨mr, h1, h2⟩ := ih m sp acc h (by omega)
      refine ⟨mr, by simp [finishLoop, hm, h1], ?_⟩
      have e : specFinish (k + 1) sp = specFinish k sp := by
        funext q
        by_cases hq : q = k
        · subst hq; simp [specFinish, hs]
        · simp only [specFinish]
          by_cases hq2 : q < k
          · rw [if_pos hq2, if_pos (by omega)]
          · rw [if_neg hq2, if_neg (by omega)]
      rw [e]; exact h2
    | some v =>
      cases hs : sp k with
      | none => rw [hm, hs] at hrel; exact hrel.elim
      | some es =>
        rw [hm, hs] at hrel
        obtain ⟨v', tr, p1, p2, p3, p4⟩ := destructor_spec hrel
        have hinv := minv_set1 h (show k < c.K by omega) (es' := none) k tr (v' := none) trivial
          (by simp only [szOf_set_none, szOf_of hs]; omega)
        obtain ⟨mr, h1, h2⟩ := ih _ _ (acc ++ glob k k tr) hinv (by omega)
        refine ⟨mr, by simpa [finishLoop, hm, p1, bind, Except.bind, Mach.log] using h1, ?_⟩
        have e : specFinish (k + 1) sp = specFinish k (setSpec sp k none) := by
          funext q
          by_cases hq : q = k
          · subst hq; simp [specFinish, setSpec]
          · simp only [specFinish, setSpec]
            by_cases hq2 : q < k
            · rw [if_pos hq2, if_pos (by omega)]
            · rw [if_neg hq2, if_neg (by omega), if_neg hq]
        rw [e]; exact h2

theorem step_refines {c : Cfg} {m : Mach} {sp : SpecRegs} (h : MInv c m sp) (op : Op) :
    ∃ mr : Mach × Res, step c m op = .ok mr ∧ MInv c mr.1 (specStep c sp op) := by
  cases op with
  | push r x =>
    by_cases hk : r < c.K
    · have hrel := h.rel r
      cases hm : m.regs r with
      | none =>
        have hs : sp r = none := (rel_none hrel).mp hm
        exact ⟨(m, none), by simp [step, hk, hm], by simpa [specStep, hk, hs] using h⟩
      | some v =>
        cases hs : sp r with
        | none => rw [hm, hs] at hrel; exact hrel.elim
        | some es =>
          rw [hm, hs] at hrel
          obtain ⟨v', tr, p1, p2, p3⟩ := pushBack_spec hrel x
          refine ⟨m.log (setReg m.regs r (some v')) (glob r r tr), by simp [step, hk, hm, p1, bind, Except.bind, pure, Except.pure], ?_⟩
          have := minv_set1 h hk (es' := some (specPush c.N es x)) r tr (v' := some v') p2 (by simp only [szOf_set_self, szOf_set_none, szOf_of hs]; (try simp); (try omega))
          simpa [specStep, hk, hs] using this
    · exact ⟨(m, none), by simp [step, hk], by simpa [specStep, hk] using h⟩
  | emplace r x =>
    by_cases hk : r < c.K
    · have hrel := h.rel r
      cases hm : m.regs r with
      | none =>
        have hs : sp r = none := (rel_none hrel).mp hm
        exact ⟨(m, none), by simp [step, hk, hm], by simpa [specStep, hk, hs] using h⟩
      | some v =>
        cases hs : sp r with
        | none => rw [hm, hs] at hrel; exact hrel.elim
        | some es =>
          rw [hm, hs] at hrel
          obtain ⟨v', tr, p1, p2, p3⟩ := pushBack_spec hrel x
          refine ⟨m.log (setReg m.regs r (some v')) (glob r r tr), by simp [step, hk, hm, emplaceBack_eq, p1, bind, Except.bind, pure, Except.pure], ?_⟩
          have := minv_set1 h hk (es' := some (specPush c.N es x)) r tr (v' := some v') p2 (by simp only [szOf_set_self, szOf_set_none, szOf_of hs]; (try simp); (try omega))
          simpa [specStep, hk, hs] using this
    · exact ⟨(m, none), by simp [step, hk], by simpa [specStep, hk] using h⟩
  | resize r n =>
    by_cases hk : r < c.K
    · have hrel := h.rel r
      cases hm : m.regs r with
      | none =>
        have hs : sp r = none := (rel_none hrel).mp hm
        exact ⟨(m, none), by simp [step, hk, hm], by simpa [specStep, hk, hs] using h⟩
      | some v =>
        cases hs : sp r with
        | none => rw [hm, hs] at hrel; exact hrel.elim
        | some es =>
          rw [hm, hs] at hrel
          obtain ⟨v', tr, p1, p2, p3⟩ := resize_spec hrel n
          refine ⟨m.log (setReg m.regs r (some v')) (glob r r tr), by simp [step, hk, hm, p1, bind, Except.bind, pure, Except.pure], ?_⟩
          have := minv_set1 h hk (es' := some (specResize c.N es n)) r tr (v' := some v') p2 (by simp only [szOf_set_self, szOf_set_none, szOf_of hs]; (try simp); (try omega))
          simpa [specStep, hk, hs] using this
    · exact ⟨(m, none), by simp [step, hk], by simpa [specStep, hk] using h⟩
  | clear r  =>
    by_cases hk : r < c.K
    · have hrel := h.rel r
      cases hm : m.regs r with
      | none =>
        have hs : sp r = none := (rel_none hrel).mp hm
        exact ⟨(m, none), by simp [step, hk, hm], by simpa [specStep, hk, hs] using h⟩
      | some v =>
        cases hs : sp r with
        | none => rw [hm, hs] at hrel; exact hrel.elim
        | some es =>
          rw [hm, hs] at hrel
          obtain ⟨v', tr, p1, p2, p3⟩ := clear_spec hrel
          refine ⟨m.log (setReg m.regs r (some v')) (glob r r tr), by simp [step, hk, hm, p1, bind, Except.bind, pure, Except.pure], ?_⟩
          have := minv_set1 h hk (es' := some ([])) r tr (v' := some v') p2 (by simp only [szOf_set_self, szOf_set_none, szOf_of hs]; (try simp); (try omega))
          simpa [specStep, hk, hs] using this
    · exact ⟨(m, none), by simp [step, hk], by simpa [specStep, hk] using h⟩
  | del r =>
    by_cases hk : r < c.K
    · have hrel := h.rel r
      cases hm : m.regs r with
      | none =>
        have hs : sp r = none := (rel_none hrel).mp hm
        exact ⟨(m, none), by simp [step, hk, hm], by simpa [specStep, hk, hs] using h⟩
      | some v =>
        cases hs : sp r with
        | none => rw [hm, hs] at hrel; exact hrel.elim
        | some es =>
          rw [hm, hs] at hrel
          obtain ⟨v', tr, p1, p2, p3⟩ := destructor_spec hrel
          refine ⟨m.log (setReg m.regs r none) (glob r r tr), by simp [step, hk, hm, p1, bind, Except.bind, pure, Except.pure], ?_⟩
          have := minv_set1 h hk (es' := none) r tr (v' := none) trivial (by simp only [szOf_set_self, szOf_set_none, szOf_of hs]; (try simp); (try omega))
          simpa [specStep, hk, hs] using this
    · exact ⟨(m, none), by simp [step, hk], by simpa [specStep, hk] using h⟩
  | new r =>
    by_cases hk : r < c.K
    · have hrel := h.rel r
      cases hm : m.regs r with
      | some v =>
        cases hs : sp r with
        | none => rw [hm, hs] at hrel; exact hrel.elim
        | some es => exact ⟨(m, none), by simp [step, hk, hm], by simpa [specStep, hk, hs] using h⟩
      | none =>
        have hs : sp r = none := (rel_none hrel).mp hm
        refine ⟨m.log (setReg m.regs r (some (defaultCtor c.N).1)) (glob r r []), by simp [step, hk, hm, defaultCtor], ?_⟩
        have := minv_set1 h hk (es' := some []) r [] (v' := some (defaultCtor c.N).1) (abs_fresh c.N) (by simp only [szOf_set_self, szOf_set_none, szOf_of hs]; simp)
        simpa [specStep, hk, hs] using this
    · exact ⟨(m, none), by simp [step, hk], by simpa [specStep, hk] using h⟩
  | range r xs =>
    by_cases hk : r < c.K ∧ c.port = false
    · have hrel := h.rel r
      cases hm : m.regs r with
      | some v =>
        cases hs : sp r with
        | none => rw [hm, hs] at hrel; exact hrel.elim
        | some es => exact ⟨(m, none), by simp [step, hk, hm], by simpa [specStep, hk, hs] using h⟩
      | none =>
        have hs : sp r = none := (rel_none hrel).mp hm
        obtain ⟨v', tr, p1, p2, p3, p4⟩ := rangeCtor_spec c.N xs
        refine ⟨m.log (setReg m.regs r (some v')) (glob r r tr), by simp [step, hk, hm, p1, bind, Except.bind, pure, Except.pure], ?_⟩
        have := minv_set1 h hk.1 (es' := some (specCtor c.N xs)) r tr (v' := some v') p2 (by simp only [szOf_set_self, szOf_set_none, szOf_of hs]; (try simp); (try omega))
        simpa [specStep, hk, hs] using this
    · exact ⟨(m, none), by simp [step, hk], by simpa [specStep, hk] using h⟩
  | il r xs =>
    by_cases hk : r < c.K ∧ c.port = false
    · have hrel := h.rel r
      cases hm : m.regs r with
      | some v =>
        cases hs : sp r with
        | none => rw [hm, hs] at hrel; exact hrel.elim
        | some es => exact ⟨(m, none), by simp [step, hk, hm], by simpa [specStep, hk, hs] using h⟩
      | none =>
        have hs : sp r = none := (rel_none hrel).mp hm
        obtain ⟨v', tr, p1, p2, p3, p4⟩ := ilCtor_spec c.N xs
        refine ⟨m.log (setReg m.regs r (some v')) (glob r r tr), by simp [step, hk, hm, p1, bind, Except.bind, pure, Except.pure], ?_⟩
        have := minv_set1 h hk.1 (es' := some (specCtor c.N xs)) r tr (v' := some v') p2 (by simp only [szOf_set_self, szOf_set_none, szOf_of hs]; (try simp); (try omega))
        simpa [specStep, hk, hs] using this
    · exact ⟨(m, none), by simp [step, hk], by simpa [specStep, hk] using h⟩
  | erase r i j =>
    by_cases hk : r < c.K ∧ c.port = false
    · have hrel := h.rel r
      cases hm : m.regs r with
      | none =>
        have hs : sp r = none := (rel_none hrel).mp hm
        exact ⟨(m, none), by simp [step, hk, hm], by simpa [specStep, hk, hs] using h⟩
      | some v =>
        cases hs : sp r with
        | none => rw [hm, hs] at hrel; exact hrel.elim
        | some es =>
          rw [hm, hs] at hrel
          have hsz := hrel.size
          by_cases hij : i ≤ j ∧ j ≤ es.length
          · obtain ⟨v', tr, p1, p2, p3, p4⟩ := erase_spec c.trk hrel hij.1 hij.2
            have hij' : i ≤ j ∧ j ≤ v.size := by omega
            refine ⟨m.log (setReg m.regs r (some v')) (glob r r tr), by simp [step, hk, hm, hij', p1, bind, Except.bind, pure, Except.pure], ?_⟩
            have := minv_set1 h hk.1 (es' := some (specErase es i j)) r tr (v' := some v') p2 (by simp only [szOf_set_self, szOf_set_none, szOf_of hs]; (try simp); (try omega))
            simpa [specStep, hk, hs, hij] using this
          · have hij' : ¬ (i ≤ j ∧ j ≤ v.size) := by omega
            exact ⟨(m, none), by simp [step, hk, hm, hij'], by simpa [specStep, hk, hs, hij] using h⟩
    · exact ⟨(m, none), by simp [step, hk], by simpa [specStep, hk] using h⟩
  | copy r s =>
    by_cases hk : r < c.K ∧ s < c.K
    · have hrel := h.rel r
      have hrel2 := h.rel s
      cases hm : m.regs r with
      | some v =>
        cases hs : sp r with
        | none => rw [hm, hs] at hrel; exact hrel.elim
        | some es => exact ⟨(m, none), by simp [step, hk, hm], by simpa [specStep, hk, hs] using h⟩
      | none =>
        have hs : sp r = none := (rel_none hrel).mp hm
        cases hm2 : m.regs s with
        | none =>
          have hs2 : sp s = none := (rel_none hrel2).mp hm2
          exact ⟨(m, none), by simp [step, hk, hm, hm2], by simpa [specStep, hk, hs, hs2] using h⟩
        | some o =>
          cases hs2 : sp s with
          | none => rw [hm2, hs2] at hrel2; exact hrel2.elim
          | some eo =>
            rw [hm2, hs2] at hrel2
            obtain ⟨v', tr, p1, p2, p3, p4⟩ := copyCtor_spec hrel2
            refine ⟨m.log (setReg m.regs r (some v')) (glob r s tr), by simp [step, hk, hm, hm2, p1, bind, Except.bind, pure, Except.pure], ?_⟩
            have := minv_set1 h hk.1 (es' := some eo) s tr (v' := some v') p2 (by simp only [szOf_set_self, szOf_set_none, szOf_of hs]; (try simp); (try omega))
            simpa [specStep, hk, hs, hs2] using this
    · exact ⟨(m, none), by simp [step, hk], by simpa [specStep, hk] using h⟩
  | move r s =>
    by_cases hk : r < c.K ∧ s < c.K
    · have hrel := h.rel r
      have hrel2 := h.rel s
      cases hm : m.regs r with
      | some v =>
        cases hs : sp r with
        | none => rw [hm, hs] at hrel; exact hrel.elim
        | some es => exact ⟨(m, none), by simp [step, hk, hm], by simpa [specStep, hk, hs] using h⟩
      | none =>
        have hs : sp r = none := (rel_none hrel).mp hm
        cases hm2 : m.regs s with
        | none =>
          have hs2 : sp s = none := (rel_none hrel2).mp hm2
          exact ⟨(m, none), by simp [step, hk, hm, hm2], by simpa [specStep, hk, hs, hs2] using h⟩
        | some o =>
          cases hs2 : sp s with
          | none => rw [hm2, hs2] at hrel2; exact hrel2.elim
          | some eo =>
            rw [hm2, hs2] at hrel2
            have hne : r ≠ s := by intro e; subst e; rw [hm] at hm2; cases hm2
            obtain ⟨v', o', tr, p1, p2, p3, p4, p5⟩ := moveCtor_spec c.port c.trk hrel2
            refine ⟨m.log (setReg (setReg m.regs s (some o')) r (some v')) (glob r s tr), by simp [step, hk, hm, hm2, p1, bind, Except.bind, pure, Except.pure], ?_⟩
            have := minv_set2 h hk.1 hk.2 hne (er' := some eo) (es' := some (if c.port then movedFrom c.trk eo else [])) tr
              (v' := some v') (o' := some o') p2 p3 (by simp only [szOf_set_self, szOf_of hs, szOf_of hs2, p4, p5]; split <;> simp)
            simpa [specStep, hk, hs, hs2] using this
    · exact ⟨(m, none), by simp [step, hk], by simpa [specStep, hk] using h⟩
  | acopy r s =>
    by_cases hk : r < c.K ∧ s < c.K
    · have hrel := h.rel r
      have hrel2 := h.rel s
      cases hm : m.regs r with
      | none =>
        have hs : sp r = none := (rel_none hrel).mp hm
        exact ⟨(m, none), by simp [step, hk, hm], by simpa [specStep, hk, hs] using h⟩
      | some v =>
        cases hs : sp r with
        | none => rw [hm, hs] at hrel; exact hrel.elim
        | some es =>
          rw [hm, hs] at hrel
          cases hm2 : m.regs s with
          | none =>
            have hs2 : sp s = none := (rel_none hrel2).mp hm2
            exact ⟨(m, none), by simp [step, hk, hm, hm2], by simpa [specStep, hk, hs, hs2] using h⟩
          | some o =>
            cases hs2 : sp s with
            | none => rw [hm2, hs2] at hrel2; exact hrel2.elim
            | some eo =>
              rw [hm2, hs2] at hrel2
              by_cases hrs : r = s
              · subst hrs
                have : eo = es := by rw [hs] at hs2; cases hs2; rfl
                subst this
                refine ⟨m.log m.regs [], by simp [step, hk, hm], ?_⟩
                have e : specStep c sp (.acopy r r) = sp := by
                  funext q
                  by_cases hq : q = r
                  · subst hq; simp [specStep, hk, hs, setSpec]
                  · simp [specStep, hk, hs, setSpec, hq]
                rw [e]; exact minv_same h
              · obtain ⟨v', tr, p1, p2, p3, p4⟩ := assignCopy_spec hrel hrel2
                refine ⟨m.log (setReg m.regs r (some v')) (glob r s tr), by simp [step, hk, hm, hm2, hrs, p1, bind, Except.bind, pure, Except.pure], ?_⟩
                have := minv_set1 h hk.1 (es' := some eo) s tr (v' := some v') p2 (by simp only [szOf_set_self, szOf_set_none, szOf_of hs]; (try simp); (try omega))
                simpa [specStep, hk, hs, hs2] using this
    · exact ⟨(m, none), by simp [step, hk], by simpa [specStep, hk] using h⟩
  | amove r s =>
    by_cases hk : r < c.K ∧ s < c.K
    · have hrel := h.rel r
      have hrel2 := h.rel s
      cases hm : m.regs r with
      | none =>
        have hs : sp r = none := (rel_none hrel).mp hm
        exact ⟨(m, none), by simp [step, hk, hm], by simpa [specStep, hk, hs] using h⟩
      | some v =>
        cases hs : sp r with
        | none => rw [hm, hs] at hrel; exact hrel.elim
        | some es =>
          rw [hm, hs] at hrel
          cases hm2 : m.regs s with
          | none =>
            have hs2 : sp s = none := (rel_none hrel2).mp hm2
            exact ⟨(m, none), by simp [step, hk, hm, hm2], by simpa [specStep, hk, hs, hs2] using h⟩
          | some o =>
            cases hs2 : sp s with
            | none => rw [hm2, hs2] at hrel2; exact hrel2.elim
            | some eo =>
              rw [hm2, hs2] at hrel2
              by_cases hrs : r = s
              · subst hrs
                have : eo = es := by rw [hs] at hs2; cases hs2; rfl
                subst this
                refine ⟨m.log m.regs [], by simp [step, hk, hm], ?_⟩
                have e : specStep c sp (.amove r r) = sp := by
                  funext q
                  by_cases hq : q = r
                  · subst hq; simp [specStep, hk, hs, setSpec]
                  · simp [specStep, hk, hs, setSpec, hq]
                rw [e]; exact minv_same h
              · obtain ⟨v', o', tr, p1, p2, p3, p4, p5⟩ := assignMove_spec c.trk hrel hrel2
                refine ⟨m.log (setReg (setReg m.regs s (some o')) r (some v')) (glob r s tr), by simp [step, hk, hm, hm2, hrs, p1, bind, Except.bind, pure, Except.pure], ?_⟩
                have := minv_set2 h hk.1 hk.2 hrs (er' := some eo) (es' := some []) tr
                  (v' := some v') (o' := some o') p2 p3 (by simp only [szOf_set_self, szOf_of hs, szOf_of hs2, p4, p5]; simp; omega)
                simpa [specStep, hk, hs, hs2, hrs] using this
    · exact ⟨(m, none), by simp [step, hk], by simpa [specStep, hk] using h⟩
  | finish =>
    obtain ⟨mr, h1, h2⟩ := finishLoop_spec c.K m sp [] h (Nat.le_refl _)
    refine ⟨(mr.1, some mr.2), by simp [step, h1, bind, Except.bind, pure, Except.pure], ?_⟩
    have e : specStep c sp .finish = specFinish c.K sp := by
      funext q
      simp only [specStep, specFinish]
      by_cases hq : q < c.K
      · rw [if_pos hq]
      · rw [if_neg hq, h.out q (by omega)]
    rw [e]; exact h2


/-! ## static_string -/
open Igris.Proto

theorem tw_len_lt (p : Byte → Bool) : ∀ (l : List Byte), (∃ x, x ∈ l ∧ p x = false) → (l.takeWhile p).length < l.length := by
  intro l
  induction l with
  | nil => intro ⟨x, h, _⟩; cases h
  | cons b rest ih =>
    intro ⟨x, hx, hp⟩
    cases hb : p b with
    | false => simp [List.takeWhile_cons, hb]
    | true =>
      have : ∃ x, x ∈ rest ∧ p x = false := by
        cases hx with
        | head => rw [hb] at hp; cases hp
        | tail _ h => exact ⟨x, h, hp⟩
      have := ih this
      simp [List.takeWhile_cons, hb]; omega

theorem tw_eq_take (p : Byte → Bool) : ∀ (l : List Byte), l.takeWhile p = l.take (l.takeWhile p).length := by
  intro l
  induction l with
  | nil => rfl
  | cons b rest ih =>
    cases hb : p b with
    | false => simp [List.takeWhile_cons, hb]
    | true => simp [List.takeWhile_cons, hb]; exact ih

theorem tw_append (p : Byte → Bool) (z : Byte) (t : List Byte) (hz : p z = false) :
    ∀ (es : List Byte), (es ++ z :: t).takeWhile p = es.takeWhile p := by
  intro es
  induction es with
  | nil => simp [List.takeWhile_cons, hz]
  | cons b rest ih =>
    cases hb : p b with
    | false => simp [List.takeWhile_cons, hb]
    | true => simp [List.takeWhile_cons, hb]; exact ih

/-- "not the terminator", the predicate of `c_str`'s reader and of `strlen` -/
abbrev nz : Byte → Bool := fun x => decide (x ≠ 0)

theorem strlenLoop_spec (arg : List Byte) : ∀ (rest pre : List Byte) (fuel : Nat), arg = pre ++ rest → (0 : Byte) ∈ rest →
    rest.length < fuel → strlenLoop arg fuel pre.length = .ok (pre.length + (rest.takeWhile nz).length) := by
  intro rest
  induction rest with
  | nil => intro pre fuel _ h; cases h
  | cons b rest ih =>
    intro pre fuel harg hmem hfuel
    cases fuel with
    | zero => cases hfuel
    | succ fuel =>
      have hb : arg[pre.length]? = some b := by rw [harg]; simp
      by_cases hz : b = 0
      · subst hz
        simp [strlenLoop, rd, hb, bind, Except.bind, pure, Except.pure, List.takeWhile_cons]
      · have hmem' : (0 : Byte) ∈ rest := by
          cases hmem with
          | head => exact absurd rfl hz
          | tail _ h => exact h
        have hf : rest.length < fuel := by simp only [List.length_cons] at hfuel; omega
        have := ih (pre ++ [b]) fuel (by rw [harg]; simp) hmem' hf
        simp only [List.length_append, List.length_singleton] at this
        simp only [strlenLoop, rd, hb, bind, Except.bind, pure, Except.pure, hz, if_false, this, List.takeWhile_cons]
        have : nz b = true := by simp only [nz, ne_eq, decide_not, Bool.not_eq_eq_eq_not, Bool.not_true, decide_eq_false_iff_not]; exact hz
        rw [this]; simp; omega

theorem strlen_spec {arg : List Byte} (h : (0 : Byte) ∈ arg) :
    strlen arg = .ok (arg.takeWhile nz).length := by
  have := strlenLoop_spec arg arg [] (arg.length + 1) rfl h (by omega)
  simpa [strlen] using this

theorem takeWhile_length_lt {arg : List Byte} (h : (0 : Byte) ∈ arg) : (arg.takeWhile nz).length < arg.length :=
  tw_len_lt nz arg ⟨0, h, by simp [nz]⟩

theorem memcpyLoop_spec (src : List Byte) : ∀ (k i : Nat) (d : List Byte), i + k ≤ src.length → i + k ≤ d.length →
    ∃ d', memcpyLoop src k i d = .ok d' ∧ d'.length = d.length ∧
      ∀ p, d'[p]? = if i ≤ p ∧ p < i + k then src[p]? else d[p]? := by
  intro k
  induction k with
  | zero => intro i d _ _; exact ⟨d, rfl, rfl, by intro p; simp; omega⟩
  | succ k ih =>
    intro i d h1 h2
    have hs : src[i]? = some src[i] := List.getElem?_eq_getElem (by omega)
    obtain ⟨d', a1, a2, a3⟩ := ih (i + 1) (d.set i src[i]) (by omega) (by simp; omega)
    refine ⟨d', by simp [memcpyLoop, rd, hs, wr, show i < d.length by omega, a1, bind, Except.bind, pure, Except.pure], by simpa using a2, ?_⟩
    intro p
    have := a3 p
    grind

/-- the object holds exactly the characters `es` -/
structure SAbs (N : Nat) (s : SStr) (es : List Byte) : Prop where
  len : s.data.length = N + 1
  size : s.size = es.length
  le : es.length ≤ N
  eq : s.data.take s.size = es

theorem SAbs.contents {N : Nat} {s : SStr} {es : List Byte} (h : SAbs N s es) : s.contents = es := h.eq

theorem sabs_of_memcpy {N : Nat} {junk src d' : List Byte} {n : Nat} (hj : junk.length = N + 1) (hn : n ≤ N)
    (hsrc : n ≤ src.length) (hl : d'.length = junk.length)
    (hp : ∀ p, d'[p]? = if 0 ≤ p ∧ p < 0 + n then src[p]? else junk[p]?) : SAbs N ⟨d', n⟩ (src.take n) := by
  refine ⟨by rw [hl, hj], by simp; omega, by simp; omega, ?_⟩
  apply List.ext_getElem?
  intro p
  have := hp p
  simp only [List.getElem?_take]
  grind

theorem sCtorPtr_spec {N : Nat} {junk arg : List Byte} (hj : junk.length = N + 1) (h0 : (0 : Byte) ∈ arg) :
    ∃ s, sCtorPtr N junk arg = .ok s ∧ SAbs N s ((arg.takeWhile nz).take N) := by
  have hlt := takeWhile_length_lt h0
  generalize hL : (arg.takeWhile nz).length = L at hlt
  have hn : (if L > N then N else L) ≤ N := by split <;> omega
  have hn2 : (if L > N then N else L) ≤ L := by split <;> omega
  obtain ⟨d', a1, a2, a3⟩ := memcpyLoop_spec arg (if L > N then N else L) 0 junk (by omega) (by omega)
  refine ⟨⟨d', if L > N then N else L⟩, ?_, ?_⟩
  · simp only [sCtorPtr, strlen_spec h0, hL, bind, Except.bind, pure, Except.pure, a1]
  · have := sabs_of_memcpy hj hn (by omega) a2 a3
    have e : (arg.takeWhile nz).take N = arg.take (if L > N then N else L) := by
      rw [tw_eq_take nz arg, hL, List.take_take]
      congr 1; split <;> omega
    rw [e]; exact this

theorem sCtorPtrLen_spec {N : Nat} {junk arg : List Byte} {sz : Nat} (hj : junk.length = N + 1) (hsz : sz ≤ arg.length) :
    ∃ s, sCtorPtrLen N junk arg sz = .ok s ∧ SAbs N s ((arg.take sz).take N) := by
  have hn : (if sz > N then N else sz) ≤ N := by split <;> omega
  have hn2 : (if sz > N then N else sz) ≤ sz := by split <;> omega
  obtain ⟨d', a1, a2, a3⟩ := memcpyLoop_spec arg (if sz > N then N else sz) 0 junk (by omega) (by omega)
  refine ⟨⟨d', if sz > N then N else sz⟩, ?_, ?_⟩
  · simp only [sCtorPtrLen, bind, Except.bind, pure, Except.pure, a1]
  · have := sabs_of_memcpy hj hn (by omega) a2 a3
    have e : (arg.take sz).take N = arg.take (if sz > N then N else sz) := by
      rw [List.take_take]; congr 1; split <;> omega
    rw [e]; exact this

def specSPush (N : Nat) (es : List Byte) (c : Byte) : List Byte := if es.length < N then es ++ [c] else es

theorem sPush_spec {N : Nat} {s : SStr} {es : List Byte} (h : SAbs N s es) (c : Byte) :
    ∃ s', sPush N s c = .ok s' ∧ SAbs N s' (specSPush N es c) := by
  have hs := h.size; have hl := h.le; have hlen := h.len
  by_cases hf : s.size ≥ N
  · have : specSPush N es c = es := by simp [specSPush]; omega
    exact ⟨s, by simp [sPush, hf], by rw [this]; exact h⟩
  · have hsp : specSPush N es c = es ++ [c] := by simp [specSPush]; omega
    refine ⟨⟨s.data.set s.size c, s.size + 1⟩, by simp [sPush, hf, wr, show s.size < s.data.length by omega, bind, Except.bind, pure, Except.pure], ?_⟩
    rw [hsp]
    refine ⟨by simp [hlen], by simp [hs], by simp; omega, ?_⟩
    have heq := h.eq
    apply List.ext_getElem?
    intro p
    have : (s.data.take s.size)[p]? = es[p]? := by rw [heq]
    simp only [List.getElem?_take, List.getElem?_append, List.getElem?_set] at *
    grind

theorem sCStr_spec {N : Nat} {s : SStr} {es : List Byte} (h : SAbs N s es) :
    ∃ s' out, sCStr s = .ok (s', out) ∧ SAbs N s' es ∧ out = es.takeWhile nz := by
  have hs := h.size; have hl := h.le; have hlen := h.len; have heq := h.eq
  have hlt : s.size < s.data.length := by omega
  refine ⟨⟨s.data.set s.size 0, s.size⟩, (s.data.set s.size 0).takeWhile nz,
    by simp only [sCStr, wr, hlt, if_true, bind, Except.bind, pure, Except.pure], ?_, ?_⟩
  · refine ⟨by simp [hlen], hs, hl, ?_⟩
    simp only []
    rw [List.take_set_of_le (Nat.le_refl _)]; exact heq
  · -- data' = es ++ 0 :: tail
    have hd : s.data.set s.size 0 = es ++ 0 :: s.data.drop (s.size + 1) := by
      apply List.ext_getElem?
      intro p
      have : (s.data.take s.size)[p]? = es[p]? := by rw [heq]
      simp only [List.getElem?_take, List.getElem?_append, List.getElem?_set, List.getElem?_cons, List.getElem?_drop] at *
      by_cases hp : p < es.length
      · grind
      · by_cases hp2 : p = es.length
        · grind
        · have : s.size + 1 + (p - es.length - 1) = p := by omega
          grind
    rw [hd]
    exact tw_append nz 0 _ (by simp [nz]) es

theorem sGet_spec {N : Nat} {s : SStr} {es : List Byte} (h : SAbs N s es) {i : Nat} (hi : i < es.length) :
    sGet s i = .ok es[i] := by
  have heq := h.eq; have hs := h.size; have hlen := h.len; have hl := h.le
  have : (s.data.take s.size)[i]? = es[i]? := by rw [heq]
  rw [List.getElem?_take, if_pos (by omega), List.getElem?_eq_getElem hi] at this
  simp [sGet, rd, this]

theorem sSet_spec {N : Nat} {s : SStr} {es : List Byte} (h : SAbs N s es) {i : Nat} (hi : i < es.length) (c : Byte) :
    ∃ s', sSet s i c = .ok s' ∧ SAbs N s' (es.set i c) := by
  have heq := h.eq; have hs := h.size; have hlen := h.len; have hl := h.le
  refine ⟨⟨s.data.set i c, s.size⟩, by simp [sSet, wr, show i < s.data.length by omega, bind, Except.bind, pure, Except.pure], ?_⟩
  refine ⟨by simp [hlen], by simp [hs], by simp; exact hl, ?_⟩
  simp only []
  rw [← heq, List.take_set]

theorem sabs_default {N : Nat} {junk : List Byte} (hj : junk.length = N + 1) : SAbs N (sDefault junk) [] :=
  ⟨hj, rfl, by simp, by simp [sDefault]⟩

theorem sabs_clear {N : Nat} {s : SStr} {es : List Byte} (h : SAbs N s es) : SAbs N (sClear s) [] :=
  ⟨h.len, rfl, by simp, by simp [sClear]⟩

/-! ### split<VSize,SSize> (std_portable.h) -/

/-- the predicate of the two inner loops of `split`: `*ptr == delim` (`b = true`) / `*ptr != delim` -/
abbrev isDelim (delim : Byte) (b : Bool) : Byte → Bool := fun c => decide (decide (c = delim) = b)

/-- the bytes `[ptr, endp)` of `d` -/
def seg (d : List Byte) (ptr endp : Nat) : List Byte := (d.take endp).drop ptr

theorem seg_self (d : List Byte) (endp : Nat) (h : endp ≤ d.length) : seg d endp endp = [] := by
  simp [seg]

theorem seg_cons {d : List Byte} {ptr endp : Nat} (h1 : ptr < endp) (h2 : endp ≤ d.length) :
    ∃ c, d[ptr]? = some c ∧ seg d ptr endp = c :: seg d (ptr + 1) endp := by
  have hlt : ptr < d.length := by omega
  refine ⟨d[ptr], List.getElem?_eq_getElem hlt, ?_⟩
  apply List.ext_getElem?
  intro p
  simp only [seg, List.getElem?_drop, List.getElem?_take, List.getElem?_cons]
  cases p with
  | zero => simp [h1, List.getElem?_eq_getElem hlt]
  | succ p => simp; try rw [show ptr + (p + 1) = ptr + 1 + p by omega]

theorem seg_length (d : List Byte) {ptr endp : Nat} (h2 : endp ≤ d.length) : (seg d ptr endp).length = endp - ptr := by
  simp [seg]; omega

theorem seg_drop (d : List Byte) (ptr endp k : Nat) : seg d (ptr + k) endp = (seg d ptr endp).drop k := by
  simp [seg, List.drop_drop, Nat.add_comm]

theorem skipLoop_spec (d : List Byte) (delim : Byte) (b : Bool) (endp : Nat) (he : endp ≤ d.length) :
    ∀ (fuel ptr : Nat), ptr ≤ endp → endp - ptr ≤ fuel →
    skipLoop d delim b fuel ptr endp = .ok (ptr + ((seg d ptr endp).takeWhile (isDelim delim b)).length) := by
  intro fuel
  induction fuel with
  | zero =>
    intro ptr h1 h2
    have : ptr = endp := by omega
    subst this
    simp [skipLoop, seg_self d ptr he]
  | succ fuel ih =>
    intro ptr h1 h2
    by_cases hpe : ptr = endp
    · subst hpe
      simp [skipLoop, seg_self d ptr he]
    · obtain ⟨c, hc, hseg⟩ := seg_cons (d := d) (show ptr < endp by omega) he
      rw [hseg]
      by_cases hq : decide (c = delim) = b
      · have := ih (ptr + 1) (by omega) (by omega)
        simp only [skipLoop, hpe, if_false, rd, hc, bind, Except.bind, hq, if_true, this, List.takeWhile_cons]
        have : isDelim delim b c = true := by simp [isDelim, hq]
        rw [this]; simp; omega
      · simp only [skipLoop, hpe, if_false, rd, hc, bind, Except.bind, hq, pure, Except.pure, List.takeWhile_cons]
        have : isDelim delim b c = false := by simp [isDelim, hq]
        rw [this]; simp

theorem tw_len_le (p : Byte → Bool) (l : List Byte) : (l.takeWhile p).length ≤ l.length := by
  induction l with
  | nil => simp
  | cons b rest ih =>
    cases hb : p b <;> simp [List.takeWhile_cons, hb]; omega

theorem dw_eq_drop (p : Byte → Bool) : ∀ (l : List Byte), l.dropWhile p = l.drop (l.takeWhile p).length := by
  intro l
  induction l with
  | nil => rfl
  | cons b rest ih =>
    cases hb : p b <;> simp [List.takeWhile_cons, List.dropWhile_cons, hb]
    exact ih

/-- the token stream of `split`, as the pointer walk produces it: skip
    delimiters, take the maximal delimiter-free run, repeat -/
def tokSpec (delim : Byte) : (fuel : Nat) → List Byte → List (List Byte)
  | 0, _ => []
  | f + 1, rem =>
      let r1 := rem.dropWhile (isDelim delim true)
      if r1.isEmpty then []
      else r1.takeWhile (isDelim delim false) :: tokSpec delim f (r1.dropWhile (isDelim delim false))

theorem drop_take_seg (d : List Byte) {strt endp k : Nat} (hk : strt + k ≤ endp) :
    (d.drop strt).take k = (seg d strt endp).take k := by
  apply List.ext_getElem?
  intro p
  simp only [seg, List.getElem?_take, List.getElem?_drop]
  grind

theorem splitLoop_spec (d : List Byte) (delim : Byte) (VS SS : Nat) (junk : List Byte) (hj : junk.length = SS + 1)
    (endp : Nat) (he : endp ≤ d.length) :
    ∀ (fuel ptr : Nat) (acc : List SStr), ptr ≤ endp → acc.length ≤ VS →
      (∀ t, t ∈ acc → SAbs SS t t.contents) →
    ∃ toks, splitLoop d delim VS SS junk fuel ptr endp acc = .ok toks ∧
      (∀ t, t ∈ toks → SAbs SS t t.contents) ∧ toks.length ≤ VS ∧
      toks.map SStr.contents =
        (acc.map SStr.contents ++ (tokSpec delim fuel (seg d ptr endp)).map (List.take SS)).take VS := by
  intro fuel
  induction fuel with
  | zero =>
    intro ptr acc _ hacc hall
    refine ⟨acc, rfl, hall, hacc, ?_⟩
    simp [tokSpec]; rw [List.take_of_length_le (by simp; exact hacc)]
  | succ fuel ih =>
    intro ptr acc hp hacc hall
    have hs1 := skipLoop_spec d delim true endp he (endp - ptr) ptr hp (Nat.le_refl _)
    generalize hk1 : ((seg d ptr endp).takeWhile (isDelim delim true)).length = k1 at hs1
    have hk1le : k1 ≤ endp - ptr := by
      rw [← hk1, ← seg_length d (ptr := ptr) he]; exact tw_len_le _ _
    have hr1 : (seg d ptr endp).dropWhile (isDelim delim true) = seg d (ptr + k1) endp := by
      rw [dw_eq_drop, hk1, seg_drop]
    by_cases hend : ptr + k1 = endp
    · -- nothing but delimiters left
      have : seg d (ptr + k1) endp = [] := by rw [hend]; exact seg_self d endp he
      refine ⟨acc, by simp [splitLoop, hs1, hend, bind, Except.bind, pure, Except.pure], hall, hacc, ?_⟩
      simp [tokSpec, hr1, this]; rw [List.take_of_length_le (by simp; exact hacc)]
    · have hs2 := skipLoop_spec d delim false endp he (endp - (ptr + k1)) (ptr + k1) (by omega) (Nat.le_refl _)
      generalize hk2 : ((seg d (ptr + k1) endp).takeWhile (isDelim delim false)).length = k2 at hs2
      have hk2le : k2 ≤ endp - (ptr + k1) := by
        rw [← hk2, ← seg_length d (ptr := ptr + k1) he]; exact tw_len_le _ _
      have hne : (seg d (ptr + k1) endp).isEmpty = false := by
        have := seg_length d (ptr := ptr + k1) he
        cases hq : seg d (ptr + k1) endp with
        | nil => rw [hq] at this; simp at this; omega
        | cons _ _ => rfl
      have htok : (seg d (ptr + k1) endp).takeWhile (isDelim delim false) = (d.drop (ptr + k1)).take k2 := by
        rw [tw_eq_take, hk2, drop_take_seg d (endp := endp) (by omega)]
      have hrest : (seg d (ptr + k1) endp).dropWhile (isDelim delim false) = seg d (ptr + k1 + k2) endp := by
        rw [dw_eq_drop, hk2]; exact (seg_drop d (ptr + k1) endp k2).symm
      obtain ⟨t, ht1, ht2⟩ := sCtorPtrLen_spec (N := SS) (junk := junk) (arg := d.drop (ptr + k1)) (sz := k2) hj
        (by simp; omega)
      -- the new accumulator
      by_cases hfull : acc.length ≥ VS
      · obtain ⟨toks, g1, g2, g3, g4⟩ := ih (ptr + k1 + k2) acc (by omega) hacc hall
        refine ⟨toks, ?_, g2, g3, ?_⟩
        · simp [splitLoop, hs1, hend, hs2, hfull, bind, Except.bind, pure, Except.pure,
            show ptr + k1 + k2 - (ptr + k1) = k2 by omega, g1]
        · rw [g4]
          simp only [tokSpec, hr1, hne, hrest]
          have hl : (acc.map SStr.contents).length = VS := by simp; omega
          simp only [Bool.false_eq_true, if_false, List.map_cons]
          rw [List.take_append_of_le_length (by omega), List.take_append_of_le_length (by omega)]
      · have hall' : ∀ x, x ∈ acc ++ [t] → SAbs SS x x.contents := by
          intro x hx
          rcases List.mem_append.mp hx with h | h
          · exact hall x h
          · have : x = t := by simpa using h
            subst this
            have := ht2.contents
            rw [this]; exact ht2
        obtain ⟨toks, g1, g2, g3, g4⟩ := ih (ptr + k1 + k2) (acc ++ [t]) (by omega) (by simp; omega) hall'
        refine ⟨toks, ?_, g2, g3, ?_⟩
        · simp [splitLoop, hs1, hend, hs2, hfull, bind, Except.bind, pure, Except.pure,
            show ptr + k1 + k2 - (ptr + k1) = k2 by omega, ht1, g1]
        · rw [g4]
          simp only [tokSpec, hr1, hne, hrest, Bool.false_eq_true, if_false, List.map_cons, List.map_append,
            List.map_singleton, ht2.contents, htok, List.append_assoc, List.singleton_append]
          simp

/-- reference tokenizer, one character at a time: a delimiter ends the current
    token (empty tokens are not reported), the end of the string ends the last -/
def tokAux (delim : Byte) : List Byte → List Byte → List (List Byte)
  | [], cur => if cur.isEmpty then [] else [cur]
  | b :: rest, cur =>
      if b = delim then (if cur.isEmpty then tokAux delim rest [] else cur :: tokAux delim rest [])
      else tokAux delim rest (cur ++ [b])

def tokens (delim : Byte) (es : List Byte) : List (List Byte) := tokAux delim es []

theorem isDelim_true_iff (delim c : Byte) : isDelim delim true c = true ↔ c = delim := by simp [isDelim]
theorem isDelim_false_iff (delim c : Byte) : isDelim delim false c = true ↔ c ≠ delim := by simp [isDelim]

theorem tokAux_cur (delim : Byte) : ∀ (rem cur : List Byte), cur ≠ [] →
    tokAux delim rem cur = (cur ++ rem.takeWhile (isDelim delim false)) :: tokAux delim (rem.dropWhile (isDelim delim false)) [] := by
  intro rem
  induction rem with
  | nil => intro cur h; cases cur <;> simp_all [tokAux]
  | cons b rest ih =>
    intro cur h
    by_cases hb : b = delim
    · have h1 : isDelim delim false b = false := by
        cases hq : isDelim delim false b
        · rfl
        · exact absurd hb ((isDelim_false_iff delim b).mp hq)
      have hc : cur.isEmpty = false := by cases cur <;> simp_all
      subst hb
      simp only [tokAux, if_true, hc, List.takeWhile_cons, List.dropWhile_cons, h1]
      simp [tokAux]
    · have h1 : isDelim delim false b = true := (isDelim_false_iff delim b).mpr hb
      simp only [tokAux, hb, if_false, List.takeWhile_cons, List.dropWhile_cons, h1, if_true]
      rw [ih (cur ++ [b]) (by simp)]
      simp

theorem tokAux_skip (delim : Byte) : ∀ (rem : List Byte),
    tokAux delim rem [] = tokAux delim (rem.dropWhile (isDelim delim true)) [] := by
  intro rem
  induction rem with
  | nil => rfl
  | cons b rest ih =>
    by_cases hb : b = delim
    · have h1 : isDelim delim true b = true := (isDelim_true_iff delim b).mpr hb
      simp only [List.dropWhile_cons, h1, if_true]
      rw [← ih]; simp [tokAux, hb]
    · have h1 : isDelim delim true b = false := by
        cases hq : isDelim delim true b
        · rfl
        · exact absurd ((isDelim_true_iff delim b).mp hq) hb
      simp only [List.dropWhile_cons, h1]; rfl

theorem dw_len_le (p : Byte → Bool) (l : List Byte) : (l.dropWhile p).length ≤ l.length := by
  induction l with
  | nil => simp
  | cons b rest ih =>
    cases hb : p b <;> simp [List.dropWhile_cons, hb]; omega

theorem dw_head (p : Byte → Bool) : ∀ (l : List Byte) (b : Byte) (rest : List Byte), l.dropWhile p = b :: rest → p b = false := by
  intro l
  induction l with
  | nil => intro b rest h; cases h
  | cons a l ih =>
    intro b rest h
    cases ha : p a with
    | true => simp [List.dropWhile_cons, ha] at h; exact ih b rest h
    | false => simp [List.dropWhile_cons, ha] at h; rw [← h.1]; exact ha

theorem tokSpec_eq_tokens (delim : Byte) : ∀ (fuel : Nat) (rem : List Byte), rem.length < fuel →
    tokSpec delim fuel rem = tokAux delim rem [] := by
  intro fuel
  induction fuel with
  | zero => intro rem h; cases h
  | succ fuel ih =>
    intro rem h
    rw [tokAux_skip]
    have hl := dw_len_le (isDelim delim true) rem
    cases hr : rem.dropWhile (isDelim delim true) with
    | nil => simp [tokSpec, hr, tokAux]
    | cons b rest =>
      have hb0 := dw_head _ _ _ _ hr
      have hb : b ≠ delim := by
        intro e
        have := (isDelim_true_iff delim b).mpr e
        rw [hb0] at this; cases this
      have h1 : isDelim delim false b = true := (isDelim_false_iff delim b).mpr hb
      rw [hr] at hl
      have hl2 := dw_len_le (isDelim delim false) rest
      simp only [tokSpec, hr, List.isEmpty_cons, Bool.false_eq_true, if_false, List.takeWhile_cons,
        List.dropWhile_cons, h1, if_true]
      rw [ih _ (by simp at hl; omega)]
      simp only [tokAux, hb, if_false, List.nil_append]
      rw [tokAux_cur delim rest [b] (by simp)]
      simp

/-- `split<VSize,SSize>(delim)` on a string that holds `es` -/
theorem sSplit_spec {N : Nat} {s : SStr} {es : List Byte} (h : SAbs N s es) (delim : Byte) (VS SS : Nat)
    {junk : List Byte} (hj : junk.length = SS + 1) :
    ∃ toks, sSplit s delim VS SS junk = .ok toks ∧ (∀ t, t ∈ toks → SAbs SS t t.contents) ∧ toks.length ≤ VS ∧
      toks.map SStr.contents = ((tokens delim es).map (List.take SS)).take VS := by
  have hlen := h.len; have hs := h.size; have hl := h.le
  obtain ⟨toks, h1, h2, h3, h4⟩ := splitLoop_spec s.data delim VS SS junk hj s.size (by omega) (s.size + 1) 0 []
    (Nat.zero_le _) (Nat.zero_le _) (by intro t ht; cases ht)
  refine ⟨toks, h1, h2, h3, ?_⟩
  have e : seg s.data 0 s.size = es := by simp [seg]; exact h.eq
  rw [h4, e, tokSpec_eq_tokens delim _ _ (by omega)]
  simp [tokens]

/-! ### the string machine against K reference strings -/

abbrev SpecS := Nat → Option (List Byte)

def setSpecS (f : SpecS) (r : Nat) (x : Option (List Byte)) : SpecS := fun q => if q = r then x else f q

def specSStep (c : SCfg) (sp : SpecS) : SOp → SpecS × SOut
  | .new r =>
      match decide (r < c.K), sp r with
      | true, none => (setSpecS sp r (some []), .unit)
      | _, _ => (sp, .bad)
  | .ptr r arg =>
      match decide (r < c.K), sp r with
      | true, none => (setSpecS sp r (some ((arg.takeWhile nz).take c.N)), .unit)
      | _, _ => (sp, .bad)
  | .ptrlen r arg n =>
      match decide (r < c.K ∧ c.port = true ∧ n ≤ arg.length), sp r with
      | true, none => (setSpecS sp r (some ((arg.take n).take c.N)), .unit)
      | _, _ => (sp, .bad)
  | .copy r s =>
      match decide (r < c.K ∧ s < c.K), sp r, sp s with
      | true, none, some eo => (setSpecS sp r (some eo), .unit)
      | _, _, _ => (sp, .bad)
  | .push r ch =>
      match decide (r < c.K), sp r with
      | true, some es => (setSpecS sp r (some (specSPush c.N es ch)), .unit)
      | _, _ => (sp, .bad)
  | .add r ch =>
      match decide (r < c.K ∧ c.port = true), sp r with
      | true, some es => (setSpecS sp r (some (specSPush c.N es ch)), .unit)
      | _, _ => (sp, .bad)
  | .clear r =>
      match decide (r < c.K ∧ c.port = true), sp r with
      | true, some _ => (setSpecS sp r (some []), .unit)
      | _, _ => (sp, .bad)
  | .cstr r =>
      match decide (r < c.K), sp r with
      | true, some es => (sp, .bytes (es.takeWhile nz))
      | _, _ => (sp, .bad)
  | .get r i =>
      match decide (r < c.K), sp r with
      | true, some es => if i < es.length then (sp, .byte (es.getD i 0)) else (sp, .bad)
      | _, _ => (sp, .bad)
  | .set r i ch =>
      match decide (r < c.K), sp r with
      | true, some es => if i < es.length then (setSpecS sp r (some (es.set i ch)), .unit) else (sp, .bad)
      | _, _ => (sp, .bad)
  | .del r =>
      match decide (r < c.K), sp r with
      | true, some _ => (setSpecS sp r none, .unit)
      | _, _ => (sp, .bad)

def specSRun (c : SCfg) : List SOp → SpecS → SpecS × List SOut
  | [], sp => (sp, [])
  | op :: ops, sp =>
      let (sp', o) := specSStep c sp op
      let (sp'', os) := specSRun c ops sp'
      (sp'', o :: os)

def SRel (N : Nat) : Option SStr → Option (List Byte) → Prop
  | none, none => True
  | some s, some es => SAbs N s es
  | _, _ => False

def SInv (c : SCfg) (m : SRegs) (sp : SpecS) : Prop := ∀ r, SRel c.N (m r) (sp r)

/-- the caller's side of the contract: a `const char*` argument is NUL-terminated -/
def SOp.wf : SOp → Prop
  | .ptr _ arg => (0 : Byte) ∈ arg
  | _ => True

theorem srel_none {N : Nat} {o : Option SStr} {x : Option (List Byte)} (h : SRel N o x) : o = none ↔ x = none := by
  cases o <;> cases x <;> simp_all [SRel]

theorem sinv_set {c : SCfg} {m : SRegs} {sp : SpecS} (h : SInv c m sp) (r : Nat) {s' : Option SStr}
    {es' : Option (List Byte)} (hr : SRel c.N s' es') : SInv c (setSReg m r s') (setSpecS sp r es') := by
  intro q
  by_cases hq : q = r
  · subst hq; simpa [setSReg, setSpecS] using hr
  · simpa [setSReg, setSpecS, hq] using h q

theorem sstep_refines {c : SCfg} (hj : c.junk.length = c.N + 1) {m : SRegs} {sp : SpecS} (h : SInv c m sp)
    (op : SOp) (hwf : op.wf) :
    ∃ m', sstep c m op = .ok (m', (specSStep c sp op).2) ∧ SInv c m' (specSStep c sp op).1 := by
  cases op with
  | new r  =>
    by_cases hk : r < c.K
    · have hrel := h r
      cases hm : m r with
      | some s =>
        cases hs : sp r with
        | none => rw [hm, hs] at hrel; exact hrel.elim
        | some es => exact ⟨m, by simp [sstep, specSStep, hk, hm, hs], by simpa [specSStep, hk, hs] using h⟩
      | none =>
        have hs : sp r = none := (srel_none hrel).mp hm
        refine ⟨setSReg m r (some (sDefault c.junk)), by simp [sstep, specSStep, hk, hm, hs], ?_⟩
        have := sinv_set h r (s' := some (sDefault c.junk)) (es' := some []) (sabs_default hj)
        simpa [specSStep, hk, hs] using this
    · exact ⟨m, by simp [sstep, specSStep, hk], by simpa [specSStep, hk] using h⟩
  | ptr r arg =>
    by_cases hk : r < c.K
    · have hrel := h r
      cases hm : m r with
      | some s =>
        cases hs : sp r with
        | none => rw [hm, hs] at hrel; exact hrel.elim
        | some es => exact ⟨m, by simp [sstep, specSStep, hk, hm, hs], by simpa [specSStep, hk, hs] using h⟩
      | none =>
        have hs : sp r = none := (srel_none hrel).mp hm
        obtain ⟨s', p1, p2⟩ := sCtorPtr_spec (N := c.N) hj (show (0 : Byte) ∈ arg from hwf)
        refine ⟨setSReg m r (some s'), by simp [sstep, specSStep, hk, hm, hs, p1, bind, Except.bind, pure, Except.pure], ?_⟩
        have := sinv_set h r (s' := some s') (es' := some ((arg.takeWhile nz).take c.N)) p2
        simpa [specSStep, hk, hs] using this
    · exact ⟨m, by simp [sstep, specSStep, hk], by simpa [specSStep, hk] using h⟩
  | ptrlen r arg n =>
    by_cases hk : r < c.K ∧ c.port = true ∧ n ≤ arg.length
    · have hrel := h r
      cases hm : m r with
      | some s =>
        cases hs : sp r with
        | none => rw [hm, hs] at hrel; exact hrel.elim
        | some es => exact ⟨m, by simp [sstep, specSStep, hk, hm, hs], by simpa [specSStep, hk, hs] using h⟩
      | none =>
        have hs : sp r = none := (srel_none hrel).mp hm
        obtain ⟨s', p1, p2⟩ := sCtorPtrLen_spec (N := c.N) (arg := arg) hj hk.2.2
        refine ⟨setSReg m r (some s'), by simp [sstep, specSStep, hk, hm, hs, p1, bind, Except.bind, pure, Except.pure], ?_⟩
        have := sinv_set h r (s' := some s') (es' := some ((arg.take n).take c.N)) p2
        simpa [specSStep, hk, hs] using this
    · exact ⟨m, by simp [sstep, specSStep, hk], by simpa [specSStep, hk] using h⟩
  | copy r s =>
    by_cases hk : r < c.K ∧ s < c.K
    · have hrel := h r
      have hrel2 := h s
      cases hm : m r with
      | some v =>
        cases hs : sp r with
        | none => rw [hm, hs] at hrel; exact hrel.elim
        | some es => exact ⟨m, by simp [sstep, specSStep, hk, hm, hs], by simpa [specSStep, hk, hs] using h⟩
      | none =>
        have hs : sp r = none := (srel_none hrel).mp hm
        cases hm2 : m s with
        | none =>
          have hs2 : sp s = none := (srel_none hrel2).mp hm2
          exact ⟨m, by simp [sstep, specSStep, hk, hm, hs, hm2, hs2], by simpa [specSStep, hk, hs, hs2] using h⟩
        | some o =>
          cases hs2 : sp s with
          | none => rw [hm2, hs2] at hrel2; exact hrel2.elim
          | some eo =>
            rw [hm2, hs2] at hrel2
            refine ⟨setSReg m r (some o), by simp [sstep, specSStep, hk, hm, hs, hm2, hs2], ?_⟩
            have := sinv_set h r (s' := some o) (es' := some eo) hrel2
            simpa [specSStep, hk, hs, hs2] using this
    · exact ⟨m, by simp [sstep, specSStep, hk], by simpa [specSStep, hk] using h⟩
  | push r ch =>
    by_cases hk : r < c.K
    · have hrel := h r
      cases hm : m r with
      | none =>
        have hs : sp r = none := (srel_none hrel).mp hm
        exact ⟨m, by simp [sstep, specSStep, hk, hm, hs], by simpa [specSStep, hk, hs] using h⟩
      | some s =>
        cases hs : sp r with
        | none => rw [hm, hs] at hrel; exact hrel.elim
        | some es =>
          rw [hm, hs] at hrel
          obtain ⟨s', p1, p2⟩ := sPush_spec hrel ch
          refine ⟨setSReg m r (some s'), by simp [sstep, specSStep, hk, hm, hs, p1, bind, Except.bind, pure, Except.pure], ?_⟩
          have := sinv_set h r (s' := some s') (es' := some (specSPush c.N es ch)) p2
          simpa [specSStep, hk, hs] using this
    · exact ⟨m, by simp [sstep, specSStep, hk], by simpa [specSStep, hk] using h⟩
  | add r ch =>
    by_cases hk : r < c.K ∧ c.port = true
    · have hrel := h r
      cases hm : m r with
      | none =>
        have hs : sp r = none := (srel_none hrel).mp hm
        exact ⟨m, by simp [sstep, specSStep, hk, hm, hs], by simpa [specSStep, hk, hs] using h⟩
      | some s =>
        cases hs : sp r with
        | none => rw [hm, hs] at hrel; exact hrel.elim
        | some es =>
          rw [hm, hs] at hrel
          obtain ⟨s', p1, p2⟩ := sPush_spec hrel ch
          refine ⟨setSReg m r (some s'), by simp [sstep, specSStep, hk, hm, hs, p1, bind, Except.bind, pure, Except.pure], ?_⟩
          have := sinv_set h r (s' := some s') (es' := some (specSPush c.N es ch)) p2
          simpa [specSStep, hk, hs] using this
    · exact ⟨m, by simp [sstep, specSStep, hk], by simpa [specSStep, hk] using h⟩
  | clear r  =>
    by_cases hk : r < c.K ∧ c.port = true
    · have hrel := h r
      cases hm : m r with
      | none =>
        have hs : sp r = none := (srel_none hrel).mp hm
        exact ⟨m, by simp [sstep, specSStep, hk, hm, hs], by simpa [specSStep, hk, hs] using h⟩
      | some s =>
        cases hs : sp r with
        | none => rw [hm, hs] at hrel; exact hrel.elim
        | some es =>
          rw [hm, hs] at hrel
          refine ⟨setSReg m r (some (sClear s)), by simp [sstep, specSStep, hk, hm, hs], ?_⟩
          have := sinv_set h r (s' := some (sClear s)) (es' := some []) (sabs_clear hrel)
          simpa [specSStep, hk, hs] using this
    · exact ⟨m, by simp [sstep, specSStep, hk], by simpa [specSStep, hk] using h⟩
  | cstr r  =>
    by_cases hk : r < c.K
    · have hrel := h r
      cases hm : m r with
      | none =>
        have hs : sp r = none := (srel_none hrel).mp hm
        exact ⟨m, by simp [sstep, specSStep, hk, hm, hs], by simpa [specSStep, hk, hs] using h⟩
      | some s =>
        cases hs : sp r with
        | none => rw [hm, hs] at hrel; exact hrel.elim
        | some es =>
          rw [hm, hs] at hrel
          obtain ⟨s', out, p1, p2, p3⟩ := sCStr_spec hrel
          refine ⟨setSReg m r (some s'), by simp [sstep, specSStep, hk, hm, hs, p1, p3, bind, Except.bind, pure, Except.pure], ?_⟩
          have := sinv_set h r (s' := some s') (es' := some es) p2
          have e : setSpecS sp r (some es) = sp := by funext q; by_cases hq : q = r <;> simp [setSpecS, hq, hs]
          rw [e] at this
          simpa [specSStep, hk, hs] using this
    · exact ⟨m, by simp [sstep, specSStep, hk], by simpa [specSStep, hk] using h⟩
  | get r i =>
    by_cases hk : r < c.K
    · have hrel := h r
      cases hm : m r with
      | none =>
        have hs : sp r = none := (srel_none hrel).mp hm
        exact ⟨m, by simp [sstep, specSStep, hk, hm, hs], by simpa [specSStep, hk, hs] using h⟩
      | some s =>
        cases hs : sp r with
        | none => rw [hm, hs] at hrel; exact hrel.elim
        | some es =>
          rw [hm, hs] at hrel
          have hsz := hrel.size
          by_cases hi : i < es.length
          · have p1 := sGet_spec hrel hi
            have hi' : i < s.size := by omega
            exact ⟨m, by simp [sstep, specSStep, hk, hm, hs, hi, hi', p1, bind, Except.bind, pure, Except.pure], by simpa [specSStep, hk, hs, hi] using h⟩
          · have hi' : ¬ i < s.size := by omega
            exact ⟨m, by simp [sstep, specSStep, hk, hm, hs, hi, hi'], by simpa [specSStep, hk, hs, hi] using h⟩
    · exact ⟨m, by simp [sstep, specSStep, hk], by simpa [specSStep, hk] using h⟩
  | set r i ch =>
    by_cases hk : r < c.K
    · have hrel := h r
      cases hm : m r with
      | none =>
        have hs : sp r = none := (srel_none hrel).mp hm
        exact ⟨m, by simp [sstep, specSStep, hk, hm, hs], by simpa [specSStep, hk, hs] using h⟩
      | some s =>
        cases hs : sp r with
        | none => rw [hm, hs] at hrel; exact hrel.elim
        | some es =>
          rw [hm, hs] at hrel
          have hsz := hrel.size
          by_cases hi : i < es.length
          · obtain ⟨s', p1, p2⟩ := sSet_spec hrel hi ch
            have hi' : i < s.size := by omega
            refine ⟨setSReg m r (some s'), by simp [sstep, specSStep, hk, hm, hs, hi, hi', p1, bind, Except.bind, pure, Except.pure], ?_⟩
            have := sinv_set h r (s' := some s') (es' := some (es.set i ch)) p2
            simpa [specSStep, hk, hs, hi] using this
          · have hi' : ¬ i < s.size := by omega
            exact ⟨m, by simp [sstep, specSStep, hk, hm, hs, hi, hi'], by simpa [specSStep, hk, hs, hi] using h⟩
    · exact ⟨m, by simp [sstep, specSStep, hk], by simpa [specSStep, hk] using h⟩
  | del r  =>
    by_cases hk : r < c.K
    · have hrel := h r
      cases hm : m r with
      | none =>
        have hs : sp r = none := (srel_none hrel).mp hm
        exact ⟨m, by simp [sstep, specSStep, hk, hm, hs], by simpa [specSStep, hk, hs] using h⟩
      | some s =>
        cases hs : sp r with
        | none => rw [hm, hs] at hrel; exact hrel.elim
        | some es =>
          rw [hm, hs] at hrel
          refine ⟨setSReg m r none, by simp [sstep, specSStep, hk, hm, hs], ?_⟩
          have := sinv_set h r (s' := none) (es' := none) trivial
          simpa [specSStep, hk, hs] using this
    · exact ⟨m, by simp [sstep, specSStep, hk], by simpa [specSStep, hk] using h⟩

theorem minv_init (c : Cfg) : MInv c Mach.init (fun _ => none) :=
  ⟨fun _ => trivial, fun _ _ => rfl, by
    have : ∀ k, total (szOf (fun _ => none)) k = 0 := by
      intro k; induction k with
      | zero => rfl
      | succ k ih => simp [total, ih, szOf]
    simp [Mach.init, this]⟩

theorem run_refines {c : Cfg} : ∀ (ops : List Op) (m : Mach) (sp : SpecRegs), MInv c m sp →
    ∃ m', run c ops m = .ok m' ∧ MInv c m' (specRun c ops sp) := by
  intro ops
  induction ops with
  | nil => intro m sp h; exact ⟨m, rfl, h⟩
  | cons op ops ih =>
    intro m sp h
    obtain ⟨mr, h1, h2⟩ := step_refines h op
    obtain ⟨m', h3, h4⟩ := ih mr.1 _ h2
    exact ⟨m', by simp [run, h1, h3, bind, Except.bind], h4⟩

theorem specRun_append (c : Cfg) : ∀ (a b : List Op) (sp : SpecRegs), specRun c (a ++ b) sp = specRun c b (specRun c a sp) := by
  intro a
  induction a with
  | nil => intro b sp; rfl
  | cons op a ih => intro b sp; simp [specRun, ih]

theorem total_zero (k : Nat) : total (szOf (fun _ => none)) k = 0 := by
  induction k with
  | zero => rfl
  | succ k ih => simp [total, ih, szOf]

theorem srun_refines {c : SCfg} (hj : c.junk.length = c.N + 1) : ∀ (ops : List SOp) (m : SRegs) (sp : SpecS),
    SInv c m sp → (∀ op, op ∈ ops → op.wf) →
    ∃ m', srun c ops m = .ok (m', (specSRun c ops sp).2) ∧ SInv c m' (specSRun c ops sp).1 := by
  intro ops
  induction ops with
  | nil => intro m sp h _; exact ⟨m, rfl, h⟩
  | cons op ops ih =>
    intro m sp h hwf
    obtain ⟨m1, h1, h2⟩ := sstep_refines hj h op (hwf op (List.mem_cons_self ..))
    obtain ⟨m', h3, h4⟩ := ih m1 _ h2 (fun o ho => hwf o (List.mem_cons_of_mem _ ho))
    exact ⟨m', by simp [srun, specSRun, h1, h3, bind, Except.bind, pure, Except.pure], h4⟩

theorem tw_all (p : Byte → Bool) : ∀ (l : List Byte), (∀ x, x ∈ l → p x = true) → l.takeWhile p = l := by
  intro l
  induction l with
  | nil => intro _; rfl
  | cons b rest ih =>
    intro h
    have hb : p b = true := h b (List.mem_cons_self ..)
    simp [List.takeWhile_cons, hb]
    exact ih (fun x hx => h x (List.mem_cons_of_mem _ hx))

theorem destructor_raw {N : Nat} {v : SVec} {es : List Elem} (h : Abs N v es) :
    ∃ v' tr, destructor v = .ok (v', tr) ∧ v'.slots = rawStore N ∧ v'.size = 0 := by
  obtain ⟨v', tr, h1, h2, _⟩ := destructor_spec h
  exact ⟨v', tr, h1, (abs_nil_rawStore h2).1, (abs_nil_rawStore h2).2⟩

end Igris.C14
