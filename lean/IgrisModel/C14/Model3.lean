/-
  C14 — extension round 3 (core Lean only; imported by the driver).

  1. `stepW w`: the machine of `Model.lean` with a size counter of `w` BITS.
     Every store into `m_size` keeps `n % 2^w` (`stored w`); the loops that
     count `++m_size` once per element do so through the narrow counter, the
     loops that address `_data[pos]` with their own `size_t pos` do not.
  2. writes through the references / pointers / iterators the accessors hand
     out (`v[i] = x`, `v.data()[i] = x`, `*(v.begin()+i) = x`, `v.front() = x`,
     `v.back() = x`, `for (auto &e : v) e = x`, `T y = std::move(v[i])`) and the
     machine `step3` that has them as operations next to the 14 of `step`.
  3. `erase` with an element move-ASSIGNMENT that throws.
  4. `unbounded_array` on the storage level: one heap block of exactly
     `size` slots, replaced as a whole.
  5. `static_string` with a `w`-bit counter, writes through `data()` /
     `begin()`, reads at every index inside the storage.
-/
import IgrisModel.C14.Model
import IgrisModel.C14.Width

namespace Igris.C14
open Igris.Proto

/-! ## 1. the size counter has `w` bits -/

/-- `k` times `++m_size` on a `w`-bit counter holding `n` -/
def bumpW (w : Nat) : (k n : Nat) → Nat
  | 0, n => n
  | k + 1, n => bumpW w k (stored w (n + 1))

/-- `for (; b != e; ++b) push_back(*b);` -/
def rangeLoopW (w N : Nat) : List Nat → SVec → Except Fault (SVec × Tr)
  | [], v => .ok (v, [])
  | x :: xs, v => do
      let (v, t1) ← pushBackW w N v x
      let (v, t2) ← rangeLoopW w N xs v
      pure (v, t1 ++ t2)

/-- `for (auto &obj : lst) { if (m_size >= N) break; new (&_data[m_size]) T(obj); ++m_size; }` -/
def ilLoopW (w N : Nat) : List Nat → SVec → Except Fault (SVec × Tr)
  | [], v => .ok (v, [])
  | x :: xs, v =>
      if v.size ≥ N then .ok (v, [])
      else do
        let s ← construct v.slots v.size (some x)
        let (v', tr) ← ilLoopW w N xs ⟨s, stored w (v.size + 1)⟩
        pure (v', ⟨false, .ctor, v.size⟩ :: tr)

/-- copy constructor: `for (size_t pos = 0; pos < other.m_size; ++pos) { new (&_data[pos]) T(other[pos]); ++m_size; }`
    — `pos` is a `size_t`, `m_size` is bumped `other.m_size` times from 0 -/
def copyCtorW (w N : Nat) (other : SVec) : Except Fault (SVec × Tr) := do
  let (d, tr) ← copyLoop other.slots other.size 0 (rawStore N)
  pure (⟨d, bumpW w other.size 0⟩, tr)

/-- `clear()` / `~static_vector()` end with `m_size = 0`, which every width holds -/
def moveCtorW (w : Nat) (port trk : Bool) (N : Nat) (other : SVec) : Except Fault (SVec × SVec × Tr) := do
  let (d, s, tr) ← moveLoop trk other.size 0 (rawStore N) other.slots
  if port then
    pure (⟨d, bumpW w other.size 0⟩, ⟨s, other.size⟩, tr)
  else do
    let (o, tr2) ← clear ⟨s, other.size⟩
    pure (⟨d, bumpW w other.size 0⟩, o, tr ++ tr2.map Ev.flip)

def assignCopyW (w : Nat) (v other : SVec) : Except Fault (SVec × Tr) := do
  let (v, tr1) ← clear v
  let (d, tr2) ← copyLoop other.slots other.size 0 v.slots
  pure (⟨d, bumpW w other.size v.size⟩, tr1 ++ tr2)

def assignMoveW (w : Nat) (trk : Bool) (v other : SVec) : Except Fault (SVec × SVec × Tr) := do
  let (v, tr1) ← clear v
  let (d, s, tr2) ← moveLoop trk other.size 0 v.slots other.slots
  let (o, tr3) ← clear ⟨s, other.size⟩
  pure (⟨d, bumpW w other.size v.size⟩, o, tr1 ++ tr2 ++ tr3.map Ev.flip)

/-- `while (m_size < newsize) { new (&_data[m_size]) T{}; ++m_size; }` — driven by
    the counter itself.  With a counter that cannot hold `newsize` the real loop
    never ends; the fuel (`newsize + 1` suffices for an exact counter) stops
    the model, which by then has constructed over slot 0 (`ctorOverLive`)
    unless the container was empty. -/
def resizeLoopW (w : Nat) : (fuel newsize : Nat) → Slots → (size : Nat) → Except Fault (Slots × Tr × Nat)
  | 0, _, s, sz => .ok (s, [], sz)
  | f + 1, ns, s, sz =>
      if sz < ns then do
        let s ← construct s sz (some 0)
        let (s, tr, sz') ← resizeLoopW w f ns s (stored w (sz + 1))
        pure (s, ⟨false, .ctor, sz⟩ :: tr, sz')
      else .ok (s, [], sz)

/-- `resize(newsize)`: clamp; the loop above; `for (i = newsize; i < m_size; ++i) ~T(); m_size = newsize;` -/
def resizeW (w N : Nat) (v : SVec) (newsize : Nat) : Except Fault (SVec × Tr) := do
  let newsize := if newsize ≥ N then N else newsize
  let (s, tr1, sz) ← resizeLoopW w (newsize + 1) newsize v.slots v.size
  let (s, tr2) ← destroyLoop (sz - newsize) newsize s
  pure (⟨s, stored w newsize⟩, tr1 ++ tr2)

/-- `erase`: … `m_size -= sz;` -/
def eraseW (w : Nat) (trk : Bool) (v : SVec) (i j : Nat) : Except Fault (SVec × Tr) :=
  if i = j then .ok (v, [])
  else do
    let sz := j - i
    let (s, tr1) ← shiftLoop trk (v.size - j) j i v.slots
    let (s, tr2) ← destroyLoop sz (v.size - sz) s
    pure (⟨s, stored w (v.size - sz)⟩, tr1 ++ tr2)

/-- `step` of `Model.lean` with a `w`-bit `m_size` -/
def stepW (w : Nat) (c : Cfg) (m : Mach) : Op → Except Fault (Mach × Res)
  | .copy r s =>
      match decide (r < c.K ∧ s < c.K), m.regs r, m.regs s with
      | true, none, some o => do
          let (v, tr) ← copyCtorW w c.N o
          pure (m.log (setReg m.regs r (some v)) (glob r s tr))
      | _, _, _ => .ok (m, none)
  | .move r s =>
      match decide (r < c.K ∧ s < c.K), m.regs r, m.regs s with
      | true, none, some o => do
          let (v, o', tr) ← moveCtorW w c.port c.trk c.N o
          pure (m.log (setReg (setReg m.regs s (some o')) r (some v)) (glob r s tr))
      | _, _, _ => .ok (m, none)
  | .range r xs =>
      match decide (r < c.K ∧ c.port = false), m.regs r with
      | true, none => do
          let (v, tr) ← rangeLoopW w c.N xs ⟨rawStore c.N, 0⟩
          pure (m.log (setReg m.regs r (some v)) (glob r r tr))
      | _, _ => .ok (m, none)
  | .il r xs =>
      match decide (r < c.K ∧ c.port = false), m.regs r with
      | true, none => do
          let (v, tr) ← ilLoopW w c.N xs ⟨rawStore c.N, 0⟩
          pure (m.log (setReg m.regs r (some v)) (glob r r tr))
      | _, _ => .ok (m, none)
  | .acopy r s =>
      match decide (r < c.K ∧ s < c.K), m.regs r, m.regs s with
      | true, some v, some o =>
          if r = s then .ok (m.log m.regs [])
          else do
            let (v', tr) ← assignCopyW w v o
            pure (m.log (setReg m.regs r (some v')) (glob r s tr))
      | _, _, _ => .ok (m, none)
  | .amove r s =>
      match decide (r < c.K ∧ s < c.K), m.regs r, m.regs s with
      | true, some v, some o =>
          if r = s then .ok (m.log m.regs [])
          else do
            let (v', o', tr) ← assignMoveW w c.trk v o
            pure (m.log (setReg (setReg m.regs s (some o')) r (some v')) (glob r s tr))
      | _, _, _ => .ok (m, none)
  | .push r x =>
      match decide (r < c.K), m.regs r with
      | true, some v => do
          let (v', tr) ← pushBackW w c.N v x
          pure (m.log (setReg m.regs r (some v')) (glob r r tr))
      | _, _ => .ok (m, none)
  | .emplace r x =>
      match decide (r < c.K), m.regs r with
      | true, some v => do
          let (v', tr) ← pushBackW w c.N v x
          pure (m.log (setReg m.regs r (some v')) (glob r r tr))
      | _, _ => .ok (m, none)
  | .resize r n =>
      match decide (r < c.K), m.regs r with
      | true, some v => do
          let (v', tr) ← resizeW w c.N v n
          pure (m.log (setReg m.regs r (some v')) (glob r r tr))
      | _, _ => .ok (m, none)
  | .erase r i j =>
      match decide (r < c.K ∧ c.port = false), m.regs r with
      | true, some v =>
          if i ≤ j ∧ j ≤ v.size then do
            let (v', tr) ← eraseW w c.trk v i j
            pure (m.log (setReg m.regs r (some v')) (glob r r tr))
          else .ok (m, none)
      | _, _ => .ok (m, none)
  -- new, clear, del, finish store `m_size = 0` only
  | op => step c m op

def runW (w : Nat) (c : Cfg) : List Op → Mach → Except Fault Mach
  | [], m => .ok m
  | op :: ops, m => do
      let (m', _) ← stepW w c m op
      runW w c ops m'

/-! ## 2. writes through the accessors -/

/-- `v[pos] = x` = `v.data()[pos] = x` = `*(v.begin() + pos) = x`: the assignment
    operator of the object in `_data[pos]` (no bounds check in the code) -/
def SVec.setAt (v : SVec) (pos x : Nat) : Except Fault (SVec × Tr) := do
  let s ← assign v.slots pos (some x)
  pure (⟨s, v.size⟩, [⟨false, .asg, pos⟩])

/-- `v.front() = x`: `_data[0]` -/
def SVec.setFront (v : SVec) (x : Nat) : Except Fault (SVec × Tr) := v.setAt 0 x

/-- `v.back() = x`: `_data[m_size - 1]` -/
def SVec.setBack (v : SVec) (x : Nat) : Except Fault (SVec × Tr) := v.setAt (v.size - 1) x

/-- `for (it = begin(); it != end(); ++it) *it = x;` -/
def assignLoop (x : Nat) : (k pos : Nat) → Slots → Except Fault (Slots × Tr)
  | 0, _, s => .ok (s, [])
  | k + 1, pos, s => do
      let s ← assign s pos (some x)
      let (s, tr) ← assignLoop x k (pos + 1) s
      pure (s, ⟨false, .asg, pos⟩ :: tr)

/-- `for (auto &e : v) e = x;` -/
def SVec.fillAll (v : SVec) (x : Nat) : Except Fault (SVec × Tr) := do
  let (s, tr) ← assignLoop x v.size 0 v.slots
  pure (⟨s, v.size⟩, tr)

/-- `T y = std::move(v[pos]);` — the element stays alive, moved-from -/
def SVec.takeAt (trk : Bool) (v : SVec) (pos : Nat) : Except Fault (Elem × SVec × Tr) := do
  let (e, s) ← moveOut trk v.slots pos
  pure (e, ⟨s, v.size⟩, [⟨false, .mv, pos⟩])

inductive Op3 where
  | base (op : Op)
  | setAt (r i x : Nat)
  | setFront (r x : Nat)
  | setBack (r x : Nat)
  | fill (r x : Nat)
  | take (r i : Nat)
deriving Repr

/-- the machine with the write operations; an index outside `[0,size)` / an empty
    container for front/back is outside the contract (`none`) -/
def step3 (c : Cfg) (m : Mach) : Op3 → Except Fault (Mach × Res)
  | .base op => step c m op
  | .setAt r i x =>
      match decide (r < c.K), m.regs r with
      | true, some v =>
          if i < v.size then do
            let (v', tr) ← v.setAt i x
            pure (m.log (setReg m.regs r (some v')) (glob r r tr))
          else .ok (m, none)
      | _, _ => .ok (m, none)
  | .setFront r x =>
      match decide (r < c.K), m.regs r with
      | true, some v =>
          if 0 < v.size then do
            let (v', tr) ← v.setFront x
            pure (m.log (setReg m.regs r (some v')) (glob r r tr))
          else .ok (m, none)
      | _, _ => .ok (m, none)
  | .setBack r x =>
      match decide (r < c.K), m.regs r with
      | true, some v =>
          if 0 < v.size then do
            let (v', tr) ← v.setBack x
            pure (m.log (setReg m.regs r (some v')) (glob r r tr))
          else .ok (m, none)
      | _, _ => .ok (m, none)
  | .fill r x =>
      match decide (r < c.K), m.regs r with
      | true, some v => do
          let (v', tr) ← v.fillAll x
          pure (m.log (setReg m.regs r (some v')) (glob r r tr))
      | _, _ => .ok (m, none)
  | .take r i =>
      match decide (r < c.K), m.regs r with
      | true, some v =>
          if i < v.size then do
            let (_, v', tr) ← v.takeAt c.trk i
            pure (m.log (setReg m.regs r (some v')) (glob r r tr))
          else .ok (m, none)
      | _, _ => .ok (m, none)

def run3 (c : Cfg) : List Op3 → Mach → Except Fault Mach
  | [], m => .ok m
  | op :: ops, m => do
      let (m', _) ← step3 c m op
      run3 c ops m'

/-! ## 3. `erase` when an element move-assignment throws

`std::move(last, end(), first)`: `*d = std::move(*s)` element by element.  The
`(a+1)`-th assignment throws (`a` = how many still succeed); a move assignment
that throws has changed neither side.  The exception leaves `erase` before
anything is destroyed and before `m_size -= sz`. -/

def shiftLoopX (trk : Bool) : (k src dst : Nat) → Slots → (a : Nat) → Except Fault (Slots × Tr × Bool)
  | 0, _, _, s, _ => .ok (s, [], false)
  | _ + 1, _, _, s, 0 => .ok (s, [], true)
  | k + 1, src, dst, s, a + 1 => do
      let (e, s) ← moveOut trk s src
      let s ← assign s dst e
      let (s, tr, t) ← shiftLoopX trk k (src + 1) (dst + 1) s a
      pure (s, ⟨false, .mv, src⟩ :: ⟨false, .asg, dst⟩ :: tr, t)

def eraseX (trk : Bool) (v : SVec) (i j : Nat) (a : Nat) : Except Fault (SVec × Tr × Bool) :=
  if i = j then .ok (v, [], false)
  else do
    let sz := j - i
    let (s, tr1, t) ← shiftLoopX trk (v.size - j) j i v.slots a
    if t then pure (⟨s, v.size⟩, tr1, true)
    else do
      let (s, tr2) ← destroyLoop sz (v.size - sz) s
      pure (⟨s, v.size - sz⟩, tr1 ++ tr2, false)

/-! ## 4. unbounded_array<T> on the storage level

`m_data` = one heap block of exactly `m_size` elements (`alloc.allocate(size)`),
`none` = `nullptr`.  Every member function is its sequence of slot events on
that block; an index outside the block is `Fault.oob`.  The block is replaced
as a whole by `resize` / `operator=` (`invalidate()` + a new block). -/

structure UArr where
  blk : Option Slots
  size : Nat
deriving DecidableEq, Repr

/-- the block as a list of slots (`nullptr`: no slot) -/
def UArr.slots (a : UArr) : Slots := a.blk.getD []

/-- `invalidate()`: `for (i < m_size) m_data[i].~T(); deallocate; m_data = nullptr; m_size = 0` -/
def uInvalidate (a : UArr) : Except Fault (UArr × Tr) := do
  let (_, tr) ← destroyLoop a.size 0 a.slots
  pure (⟨none, 0⟩, tr)

/-- `create_buffer(size)` / `unbounded_array(size_t sz)`: `allocate(size)`; `new (m_data + i) T()` for `i < size` -/
def uCreate (n : Nat) : Except Fault (UArr × Tr) := do
  let (s, tr) ← valueInitLoop n 0 (rawStore n)
  pure (⟨some s, n⟩, tr)

/-- `std::copy(data, data + sz, m_data)`: `m_data[i] = data[i]` — reads the
    caller's `sz` elements, assigns to the block's -/
def uCopyIn (src : List Nat) : (k pos : Nat) → Slots → Except Fault (Slots × Tr)
  | 0, _, s => .ok (s, [])
  | k + 1, pos, s =>
      match src[pos]? with
      | none => .error .oob
      | some x => do
          let s ← assign s pos (some x)
          let (s, tr) ← uCopyIn src k (pos + 1) s
          pure (s, ⟨false, .asg, pos⟩ :: tr)

/-- `unbounded_array(const T *data, size_t sz) : unbounded_array(sz) { std::copy(...) }` -/
def uFromPtr (src : List Nat) (sz : Nat) : Except Fault (UArr × Tr) := do
  let (a, tr1) ← uCreate sz
  let (s, tr2) ← uCopyIn src sz 0 a.slots
  pure (⟨some s, sz⟩, tr1 ++ tr2)

/-- copy constructor: `unbounded_array(oth.data(), oth.size())` — same, the source being a block -/
def uCopyBlk (src : Slots) : (k pos : Nat) → Slots → Except Fault (Slots × Tr)
  | 0, _, s => .ok (s, [])
  | k + 1, pos, s => do
      let e ← readObj src pos
      let s ← assign s pos e
      let (s, tr) ← uCopyBlk src k (pos + 1) s
      pure (s, ⟨false, .asg, pos⟩ :: tr)

def uCopyCtor (o : UArr) : Except Fault (UArr × Tr) := do
  let (a, tr1) ← uCreate o.size
  let (s, tr2) ← uCopyBlk o.slots o.size 0 a.slots
  pure (⟨some s, o.size⟩, tr1 ++ tr2)

/-- `operator=(const&)` (`this != &oth`): `invalidate(); allocate(oth.size()); new (ptr++) T(ref)` for every element -/
def uAssign (a o : UArr) : Except Fault (UArr × Tr) := do
  let (_, tr1) ← uInvalidate a
  let (s, tr2) ← copyLoop o.slots o.size 0 (rawStore o.size)
  pure (⟨some s, o.size⟩, tr1 ++ tr2)

/-- `resize(size)`: `invalidate(); create_buffer(size);` -/
def uResize (a : UArr) (n : Nat) : Except Fault (UArr × Tr) := do
  let (_, tr1) ← uInvalidate a
  let (b, tr2) ← uCreate n
  pure (b, tr1 ++ tr2)

/-- `fill(val)`: `for (auto &ref : *this) ref = val;` -/
def uFill (a : UArr) (x : Nat) : Except Fault (UArr × Tr) := do
  let (s, tr) ← assignLoop x a.size 0 a.slots
  pure (⟨a.blk.map fun _ => s, a.size⟩, tr)

/-- `a[i] = x` : `*(m_data + i)` -/
def uSet (a : UArr) (i x : Nat) : Except Fault (UArr × Tr) := do
  let s ← assign a.slots i (some x)
  pure (⟨a.blk.map fun _ => s, a.size⟩, [⟨false, .asg, i⟩])

/-- move constructor: steals the block, `arr.m_data = nullptr; arr.m_size = 0` -/
def uMoveCtor (o : UArr) : UArr × UArr := (o, ⟨none, 0⟩)

def UArr.contents (a : UArr) : List Elem := (a.slots.take a.size).map slotElem

abbrev URegsS := Nat → Option UArr
def setUS (f : URegsS) (r : Nat) (x : Option UArr) : URegsS := fun q => if q = r then x else f q

/-- one operation of the storage-level machine; `none` = outside the contract -/
def ustepS (K : Nat) (m : URegsS) : UOp → Except Fault (Option URegsS)
  | .new r n => match decide (r < K), m r with
      | true, none => do
          let (a, _) ← uCreate n
          pure (some (setUS m r (some a)))
      | _, _ => .ok none
  | .from r xs => match decide (r < K), m r with
      | true, none => do
          let (a, _) ← uFromPtr xs xs.length
          pure (some (setUS m r (some a)))
      | _, _ => .ok none
  | .copy r s => match decide (r < K ∧ s < K), m r, m s with
      | true, none, some o => do
          let (a, _) ← uCopyCtor o
          pure (some (setUS m r (some a)))
      | _, _, _ => .ok none
  | .move r s => match decide (r < K ∧ s < K), m r, m s with
      | true, none, some o =>
          let (a, o') := uMoveCtor o
          .ok (some (setUS (setUS m s (some o')) r (some a)))
      | _, _, _ => .ok none
  | .assign r s => match decide (r < K ∧ s < K), m r, m s with
      | true, some a, some o =>
          if r = s then .ok (some m)
          else do
            let (a', _) ← uAssign a o
            pure (some (setUS m r (some a')))
      | _, _, _ => .ok none
  | .resize r n => match decide (r < K), m r with
      | true, some a => do
          let (a', _) ← uResize a n
          pure (some (setUS m r (some a')))
      | _, _ => .ok none
  | .fill r x => match decide (r < K), m r with
      | true, some a => do
          let (a', _) ← uFill a x
          pure (some (setUS m r (some a')))
      | _, _ => .ok none
  | .set r i x => match decide (r < K), m r with
      | true, some a =>
          if i < a.size then do
            let (a', _) ← uSet a i x
            pure (some (setUS m r (some a')))
          else .ok none
      | _, _ => .ok none
  | .clear r => match decide (r < K), m r with
      | true, some a => do
          let (a', _) ← uInvalidate a
          pure (some (setUS m r (some a')))
      | _, _ => .ok none
  | .del r => match decide (r < K), m r with
      | true, some a => do
          let _ ← uInvalidate a
          pure (some (setUS m r none))
      | _, _ => .ok none
  | .finish => .ok (some (fun _ => none))

/-! ## 5. static_string: `w`-bit counter, more accessors -/

/-- `static_string(const char *dat)` with a `w`-bit `m_size`:
    `m_size = strlen(dat); if (m_size > N) m_size = N; memcpy(data, dat, m_size);`
    — the length is truncated BEFORE the clamp -/
def sCtorPtrW (w N : Nat) (junk arg : List Byte) : Except Fault SStr := do
  let n ← strlen arg
  let n := stored w n
  let n := if n > N then stored w N else n
  let d ← memcpyLoop arg n 0 junk
  pure ⟨d, n⟩

/-- `static_string(const char *dat, size_t sz)`: `m_size = sz > N ? N : sz;` -/
def sCtorPtrLenW (w N : Nat) (junk arg : List Byte) (sz : Nat) : Except Fault SStr := do
  let n := stored w (if sz > N then N else sz)
  let d ← memcpyLoop arg n 0 junk
  pure ⟨d, n⟩

/-- `push_back`: `if (m_size >= N) return; data[m_size++] = c;` -/
def sPushW (w N : Nat) (s : SStr) (c : Byte) : Except Fault SStr :=
  if s.size ≥ N then .ok s
  else do
    let d ← wr s.data s.size c
    pure ⟨d, stored w (s.size + 1)⟩

/-- `sstep` of `Model.lean` with a `w`-bit `m_size` -/
def sstepW (w : Nat) (c : SCfg) (m : SRegs) : SOp → Except Fault (SRegs × SOut)
  | .ptr r arg =>
      match decide (r < c.K), m r with
      | true, none => do
          let s ← sCtorPtrW w c.N c.junk arg
          pure (setSReg m r (some s), .unit)
      | _, _ => .ok (m, .bad)
  | .ptrlen r arg n =>
      match decide (r < c.K ∧ c.port = true ∧ n ≤ arg.length), m r with
      | true, none => do
          let s ← sCtorPtrLenW w c.N c.junk arg n
          pure (setSReg m r (some s), .unit)
      | _, _ => .ok (m, .bad)
  | .push r ch =>
      match decide (r < c.K), m r with
      | true, some s => do
          let s' ← sPushW w c.N s ch
          pure (setSReg m r (some s'), .unit)
      | _, _ => .ok (m, .bad)
  | .add r ch =>
      match decide (r < c.K ∧ c.port = true), m r with
      | true, some s => do
          let s' ← sPushW w c.N s ch
          pure (setSReg m r (some s'), .unit)
      | _, _ => .ok (m, .bad)
  | op => sstep c m op

def srunW (w : Nat) (c : SCfg) : List SOp → SRegs → Except Fault (SRegs × List SOut)
  | [], m => .ok (m, [])
  | op :: ops, m => do
      let (m', o) ← sstepW w c m op
      let (m'', os) ← srunW w c ops m'
      pure (m'', o :: os)

/-- `s[pos]` for ANY `pos ≤ N`: inside `data[N+1]` (the terminator slot included) -/
def sGetAny (s : SStr) (i : Nat) : Except Fault Byte := rd s.data i

end Igris.C14
