/-
  C14 — lemmas of extension round 3 (width of the counter, writes through the
  accessors, erase with a throwing assignment, unbounded_array storage model).
-/
import IgrisModel.C14.Model3
import IgrisModel.C14.Lemmas
import IgrisModel.C14.Ledger

namespace Igris.C14
open Igris.Proto

/-! ## 1. width -/

theorem stored_small {w n : Nat} (h : n < 2 ^ w) : stored w n = n := Nat.mod_eq_of_lt h

theorem bumpW_eq (w : Nat) : ∀ (k n : Nat), n + k < 2 ^ w → bumpW w k n = n + k := by
  intro k
  induction k with
  | zero => intro n _; rfl
  | succ k ih =>
    intro n h
    simp only [bumpW]
    rw [stored_small (by omega), ih _ (by omega)]; omega

theorem pushBackW_eq {w N : Nat} (hN : N < 2 ^ w) (v : SVec) (x : Nat) (hs : v.size ≤ N) :
    pushBackW w N v x = pushBack N v x := by
  unfold pushBackW pushBack
  by_cases hf : v.size ≥ N
  · simp [hf]
  · have : stored w (v.size + 1) = v.size + 1 := stored_small (by omega)
    simp [hf, this]

theorem pushBack_size_le {N : Nat} {v v' : SVec} {x : Nat} {t : Tr} (h : pushBack N v x = .ok (v', t))
    (hs : v.size ≤ N) : v'.size ≤ N := by
  unfold pushBack at h
  by_cases hf : v.size ≥ N
  · simp [hf] at h; rw [← h.1]; exact hs
  · simp only [hf, if_false] at h
    obtain ⟨s, _, h2⟩ := bind_ok h
    cases h2
    simp; omega

theorem rangeLoopW_eq {w N : Nat} (hN : N < 2 ^ w) : ∀ (xs : List Nat) (v : SVec), v.size ≤ N →
    rangeLoopW w N xs v = rangeLoop N xs v := by
  intro xs
  induction xs with
  | nil => intro v _; rfl
  | cons x xs ih =>
    intro v hs
    simp only [rangeLoopW, rangeLoop, pushBackW_eq hN v x hs]
    cases hp : pushBack N v x with
    | error e => rfl
    | ok q =>
      obtain ⟨v', t⟩ := q
      simp only [bind, Except.bind]
      rw [ih v' (pushBack_size_le hp hs)]

theorem ilLoopW_eq {w N : Nat} (hN : N < 2 ^ w) : ∀ (xs : List Nat) (v : SVec), v.size ≤ N →
    ilLoopW w N xs v = ilLoop N xs v := by
  intro xs
  induction xs with
  | nil => intro v _; rfl
  | cons x xs ih =>
    intro v hs
    simp only [ilLoopW, ilLoop]
    by_cases hf : v.size ≥ N
    · simp [hf]
    · simp only [hf, if_false]
      rw [stored_small (show v.size + 1 < 2 ^ w by omega)]
      cases hc : construct v.slots v.size (some x) with
      | error e => rfl
      | ok s =>
        simp only [bind, Except.bind]
        rw [ih ⟨s, v.size + 1⟩ (by simp; omega)]

theorem copyCtorW_eq {w N : Nat} {o : SVec} (h : o.size < 2 ^ w) : copyCtorW w N o = copyCtor N o := by
  simp only [copyCtorW, copyCtor, bumpW_eq w o.size 0 (by omega), Nat.zero_add]

theorem moveCtorW_eq {w : Nat} {port trk : Bool} {N : Nat} {o : SVec} (h : o.size < 2 ^ w) :
    moveCtorW w port trk N o = moveCtor port trk N o := by
  simp only [moveCtorW, moveCtor, bumpW_eq w o.size 0 (by omega), Nat.zero_add]

theorem clear_size {v v' : SVec} {t : Tr} (h : clear v = .ok (v', t)) : v'.size = 0 := by
  simp only [clear] at h
  obtain ⟨q, _, h2⟩ := bind_ok h
  cases h2; rfl

theorem assignCopyW_eq {w : Nat} {v o : SVec} (h : o.size < 2 ^ w) : assignCopyW w v o = assignCopy v o := by
  simp only [assignCopyW, assignCopy]
  cases hc : clear v with
  | error e => rfl
  | ok q =>
    obtain ⟨v1, t1⟩ := q
    have := clear_size hc
    simp only [bind, Except.bind, this, bumpW_eq w o.size 0 (by omega), Nat.zero_add]

theorem assignMoveW_eq {w : Nat} {trk : Bool} {v o : SVec} (h : o.size < 2 ^ w) :
    assignMoveW w trk v o = assignMove trk v o := by
  simp only [assignMoveW, assignMove]
  cases hc : clear v with
  | error e => rfl
  | ok q =>
    obtain ⟨v1, t1⟩ := q
    have := clear_size hc
    simp only [bind, Except.bind, this, bumpW_eq w o.size 0 (by omega), Nat.zero_add]

theorem resizeLoopW_eq (w : Nat) : ∀ (f ns : Nat) (s : Slots) (sz : Nat), ns < 2 ^ w → ns - sz ≤ f →
    resizeLoopW w f ns s sz =
      (valueInitLoop (ns - sz) sz s).map (fun q => (q.1, q.2, if sz ≤ ns then ns else sz)) := by
  intro f
  induction f with
  | zero =>
    intro ns s sz _ hf
    have : ns - sz = 0 := by omega
    rw [this]
    have : ¬ sz < ns := by omega
    simp only [resizeLoopW, valueInitLoop, Except.map]
    by_cases h : sz ≤ ns
    · have : sz = ns := by omega
      simp [this]
    · simp [h]
  | succ f ih =>
    intro ns s sz hns hf
    simp only [resizeLoopW]
    by_cases hlt : sz < ns
    · obtain ⟨d, hd⟩ : ∃ d, ns - sz = d + 1 := ⟨ns - sz - 1, by omega⟩
      rw [hd]
      simp only [hlt, if_true, valueInitLoop]
      rw [stored_small (by omega)]
      cases hc : construct s sz (some 0) with
      | error e => rfl
      | ok s1 =>
        simp only [bind, Except.bind]
        rw [ih ns s1 (sz + 1) hns (by omega)]
        have e : ns - (sz + 1) = d := by omega
        rw [e]
        cases hv : valueInitLoop d (sz + 1) s1 with
        | error e => rfl
        | ok q =>
          have h1 : sz + 1 ≤ ns := by omega
          have h2 : sz ≤ ns := by omega
          simp [Except.map, pure, Except.pure, h1, h2]
    · have : ns - sz = 0 := by omega
      rw [this]
      simp only [hlt, if_false, valueInitLoop, Except.map]
      by_cases h : sz ≤ ns
      · have : sz = ns := by omega
        simp [this]
      · simp [h]

theorem resizeW_eq {w N : Nat} (hN : N < 2 ^ w) (v : SVec) (n : Nat) : resizeW w N v n = resize N v n := by
  simp only [resizeW, resize]
  have hns : (if n ≥ N then N else n) < 2 ^ w := by split <;> omega
  generalize (if n ≥ N then N else n) = ns at hns
  rw [resizeLoopW_eq w (ns + 1) ns v.slots v.size hns (by omega), stored_small hns]
  cases hv : valueInitLoop (ns - v.size) v.size v.slots with
  | error e => rfl
  | ok q =>
    obtain ⟨s1, t1⟩ := q
    simp only [Except.map, bind, Except.bind]
    by_cases h : v.size ≤ ns
    · simp only [h, if_true]
      have : v.size - ns = 0 := by omega
      rw [this, Nat.sub_self]
    · simp only [h, if_false]

theorem eraseW_eq {w N : Nat} (hN : N < 2 ^ w) (trk : Bool) (v : SVec) (i j : Nat) (hs : v.size ≤ N) :
    eraseW w trk v i j = erase trk v i j := by
  simp only [eraseW, erase]
  rw [stored_small (show v.size - (j - i) < 2 ^ w by omega)]

theorem reg_size_le {c : Cfg} {m : Mach} {sp : SpecRegs} (h : MInv c m sp) {r : Nat} {v : SVec}
    (hv : m.regs r = some v) : v.size ≤ c.N := by
  have hr := h.rel r
  rw [hv] at hr
  cases hs : sp r with
  | none => rw [hs] at hr; exact hr.elim
  | some es => rw [hs] at hr; rw [hr.size]; exact hr.le

/-- with a counter that can hold the capacity, the `w`-bit machine IS the machine of `Model.lean` -/
theorem stepW_eq {w : Nat} {c : Cfg} {m : Mach} {sp : SpecRegs} (h : MInv c m sp) (hN : c.N < 2 ^ w) (op : Op) :
    stepW w c m op = step c m op := by
  have sz : ∀ r v, m.regs r = some v → v.size ≤ c.N := fun r v hv => reg_size_le h hv
  cases op with
  | new r => rfl
  | clear r => rfl
  | del r => rfl
  | finish => rfl
  | copy r s =>
    simp only [stepW, step]
    cases hd : decide (r < c.K ∧ s < c.K) <;> cases hr : m.regs r <;> cases hs : m.regs s <;> try rfl
    rename_i o
    simp only []
    rw [copyCtorW_eq (by have := sz s o hs; omega)]
  | move r s =>
    simp only [stepW, step]
    cases hd : decide (r < c.K ∧ s < c.K) <;> cases hr : m.regs r <;> cases hs : m.regs s <;> try rfl
    rename_i o
    simp only []
    rw [moveCtorW_eq (by have := sz s o hs; omega)]
  | range r xs =>
    simp only [stepW, step, rangeCtor]
    cases hd : decide (r < c.K ∧ c.port = false) <;> cases hr : m.regs r <;> try rfl
    simp only []
    rw [rangeLoopW_eq hN xs _ (by simp)]
  | il r xs =>
    simp only [stepW, step, ilCtor]
    cases hd : decide (r < c.K ∧ c.port = false) <;> cases hr : m.regs r <;> try rfl
    simp only []
    rw [ilLoopW_eq hN xs _ (by simp)]
  | acopy r s =>
    simp only [stepW, step]
    cases hd : decide (r < c.K ∧ s < c.K) <;> cases hr : m.regs r <;> cases hs : m.regs s <;> try rfl
    rename_i v o
    simp only []
    rw [assignCopyW_eq (by have := sz s o hs; omega)]
  | amove r s =>
    simp only [stepW, step]
    cases hd : decide (r < c.K ∧ s < c.K) <;> cases hr : m.regs r <;> cases hs : m.regs s <;> try rfl
    rename_i v o
    simp only []
    rw [assignMoveW_eq (by have := sz s o hs; omega)]
  | push r x =>
    simp only [stepW, step]
    cases hd : decide (r < c.K) <;> cases hr : m.regs r <;> try rfl
    rename_i v
    simp only []
    rw [pushBackW_eq hN v x (sz r v hr)]
  | emplace r x =>
    simp only [stepW, step]
    cases hd : decide (r < c.K) <;> cases hr : m.regs r <;> try rfl
    rename_i v
    simp only []
    rw [pushBackW_eq hN v x (sz r v hr), emplaceBack_eq]
  | resize r n =>
    simp only [stepW, step]
    cases hd : decide (r < c.K) <;> cases hr : m.regs r <;> try rfl
    rename_i v
    simp only []
    rw [resizeW_eq hN v n]
  | erase r i j =>
    simp only [stepW, step]
    cases hd : decide (r < c.K ∧ c.port = false) <;> cases hr : m.regs r <;> try rfl
    rename_i v
    simp only []
    rw [eraseW_eq hN c.trk v i j (sz r v hr)]

theorem runW_eq {w : Nat} {c : Cfg} (hN : c.N < 2 ^ w) : ∀ (ops : List Op) (m : Mach) (sp : SpecRegs), MInv c m sp →
    runW w c ops m = run c ops m := by
  intro ops
  induction ops with
  | nil => intro m sp _; rfl
  | cons op ops ih =>
    intro m sp h
    simp only [runW, run, stepW_eq h hN op]
    obtain ⟨mr, h1, h2⟩ := step_refines h op
    rw [h1]
    simp only [bind, Except.bind]
    exact ih mr.1 _ h2

/-! ## 2. writes through the accessors -/

theorem abs_set {N : Nat} {v : SVec} {es : List Elem} (h : Abs N v es) {i : Nat} (hi : i < es.length) (e : Elem) :
    Abs N ⟨v.slots.set i (.obj e), v.size⟩ (es.set i e) := by
  refine ⟨by simp [h.len], by simp [h.size], by simp [h.le], ?_⟩
  intro p
  have hp := h.pt p
  have hl := h.len; have hle := h.le
  simp only [slotAt, List.length_set] at hp ⊢
  by_cases hpi : p = i
  · subst hpi
    rw [List.getElem?_set_self (by omega)]
    simp [hi]
  · rw [List.getElem?_set_ne (by omega), hp, List.getElem?_set_ne (by omega)]

theorem abs_obj {N : Nat} {v : SVec} {es : List Elem} (h : Abs N v es) {i : Nat} (hi : i < es.length) :
    v.slots[i]? = some (.obj (es.getD i none)) := by
  have hp := h.pt i
  simp only [slotAt, hi, if_true] at hp
  have : es[i]? = some (es[i]) := List.getElem?_eq_getElem hi
  rw [this] at hp
  simp [hp, List.getD, this]

theorem setAt_spec {N : Nat} {v : SVec} {es : List Elem} (h : Abs N v es) {i : Nat} (hi : i < es.length) (x : Nat) :
    ∃ v', v.setAt i x = .ok (v', [⟨false, .asg, i⟩]) ∧ Abs N v' (es.set i (some x)) := by
  refine ⟨⟨v.slots.set i (.obj (some x)), v.size⟩, ?_, abs_set h hi _⟩
  simp [SVec.setAt, assign_ok _ (abs_obj h hi), bind, Except.bind, pure, Except.pure]

theorem assignLoop_spec (x : Nat) : ∀ (k pos : Nat) (s : Slots),
    (∀ p, pos ≤ p → p < pos + k → ∃ e, s[p]? = some (.obj e)) →
    ∃ s' tr, assignLoop x k pos s = .ok (s', tr) ∧ nC tr = 0 ∧ nD tr = 0 ∧ s'.length = s.length ∧
      ∀ p, s'[p]? = if pos ≤ p ∧ p < pos + k then some (.obj (some x)) else s[p]? := by
  intro k
  induction k with
  | zero => intro pos s _; exact ⟨s, [], rfl, rfl, rfl, rfl, by intro p; simp; omega⟩
  | succ k ih =>
    intro pos s h
    obtain ⟨e0, he⟩ := h pos (by omega) (by omega)
    have hlt := lt_of_getElem?_some he
    obtain ⟨s', tr, h1, h2, h3, h4, h5⟩ := ih (pos + 1) (s.set pos (.obj (some x))) (by
      intro p hp1 hp2
      rw [List.getElem?_set_ne (by omega)]; exact h p (by omega) (by omega))
    refine ⟨s', ⟨false, .asg, pos⟩ :: tr, by simp [assignLoop, assign_ok _ he, h1, bind, Except.bind, pure, Except.pure], ?_, ?_, ?_, ?_⟩
    · simp [h2]
    · simp [h3]
    · simp [h4]
    · intro p
      rw [h5 p]
      by_cases hp : p = pos
      · subst hp; simp [List.getElem?_set_self hlt]
      · rw [List.getElem?_set_ne (by omega)]
        by_cases h6 : pos + 1 ≤ p ∧ p < pos + 1 + k
        · rw [if_pos h6, if_pos (by omega)]
        · rw [if_neg h6, if_neg (by omega)]

theorem fillAll_spec {N : Nat} {v : SVec} {es : List Elem} (h : Abs N v es) (x : Nat) :
    ∃ v' tr, v.fillAll x = .ok (v', tr) ∧ Abs N v' (es.map fun _ => some x) ∧ nC tr = 0 ∧ nD tr = 0 := by
  obtain ⟨s', tr, h1, h2, h3, h4, h5⟩ := assignLoop_spec x v.size 0 v.slots (by
    intro p _ hp
    rw [h.pt p]; exact slotAt_obj (by have := h.size; omega))
  refine ⟨⟨s', v.size⟩, tr, by simp [SVec.fillAll, h1, bind, Except.bind, pure, Except.pure],
    ⟨by rw [h4, h.len], by simp [h.size], by simp [h.le], ?_⟩, h2, h3⟩
  intro p
  have := h.pt p; have := h.size; have := h.le; have := h5 p
  simp only [slotAt, List.length_map, List.getElem?_map] at *
  grind

/-- what `T y = std::move(v[i])` leaves in the sequence -/
def specTake (trk : Bool) (es : List Elem) (i : Nat) : List Elem := if trk then es.set i none else es

theorem takeAt_spec (trk : Bool) {N : Nat} {v : SVec} {es : List Elem} (h : Abs N v es) {i : Nat} (hi : i < es.length) :
    ∃ v', v.takeAt trk i = .ok (es.getD i none, v', [⟨false, .mv, i⟩]) ∧ Abs N v' (specTake trk es i) := by
  cases trk with
  | false =>
    refine ⟨⟨v.slots, v.size⟩, ?_, by simpa [specTake] using h⟩
    simp [SVec.takeAt, moveOut_ok false (abs_obj h hi), bind, Except.bind, pure, Except.pure]
  | true =>
    refine ⟨⟨v.slots.set i (.obj none), v.size⟩, ?_, by simpa [specTake] using abs_set h hi none⟩
    simp [SVec.takeAt, moveOut_ok true (abs_obj h hi), bind, Except.bind, pure, Except.pure]

/-- reference semantics of the machine with writes -/
def specStep3 (c : Cfg) (sp : SpecRegs) : Op3 → SpecRegs
  | .base op => specStep c sp op
  | .setAt r i x =>
      match decide (r < c.K), sp r with
      | true, some es => if i < es.length then setSpec sp r (some (es.set i (some x))) else sp
      | _, _ => sp
  | .setFront r x =>
      match decide (r < c.K), sp r with
      | true, some es => if 0 < es.length then setSpec sp r (some (es.set 0 (some x))) else sp
      | _, _ => sp
  | .setBack r x =>
      match decide (r < c.K), sp r with
      | true, some es => if 0 < es.length then setSpec sp r (some (es.set (es.length - 1) (some x))) else sp
      | _, _ => sp
  | .fill r x =>
      match decide (r < c.K), sp r with
      | true, some es => setSpec sp r (some (es.map fun _ => some x))
      | _, _ => sp
  | .take r i =>
      match decide (r < c.K), sp r with
      | true, some es => if i < es.length then setSpec sp r (some (specTake c.trk es i)) else sp
      | _, _ => sp

def specRun3 (c : Cfg) : List Op3 → SpecRegs → SpecRegs
  | [], sp => sp
  | op :: ops, sp => specRun3 c ops (specStep3 c sp op)

theorem rel_some {N : Nat} {v : SVec} {x : Option (List Elem)} (h : Rel N (some v) x) : ∃ es, x = some es ∧ Abs N v es := by
  cases x with
  | none => exact h.elim
  | some es => exact ⟨es, rfl, h⟩

theorem specTake_length (trk : Bool) (es : List Elem) (i : Nat) : (specTake trk es i).length = es.length := by
  unfold specTake; split <;> simp

theorem step3_refines {c : Cfg} {m : Mach} {sp : SpecRegs} (h : MInv c m sp) (op : Op3) :
    ∃ mr : Mach × Res, step3 c m op = .ok mr ∧ MInv c mr.1 (specStep3 c sp op) := by
  -- a write to register r that keeps the length: the common part
  have key : ∀ (r : Nat) (v v' : SVec) (es es' : List Elem) (tr : Tr), r < c.K → m.regs r = some v → sp r = some es →
      Abs c.N v' es' → es'.length = es.length → nC tr = 0 → nD tr = 0 →
      MInv c (m.log (setReg m.regs r (some v')) (glob r r tr)).1 (setSpec sp r (some es')) := by
    intro r v v' es es' tr hr hv hs ha hl hc hd
    exact minv_set1 h hr (v' := some v') (es' := some es') r tr ha (by simp [szOf_some hs, hl, hc, hd])
  cases op with
  | base op => exact step_refines h op
  | setAt r i x =>
    simp only [step3, specStep3]
    by_cases hk : r < c.K
    · cases hm : m.regs r with
      | none =>
        have := (rel_none (h.rel r)).mp hm
        simp only [hk, decide_true, hm, this]; exact ⟨_, rfl, h⟩
      | some v =>
        have hr := h.rel r; rw [hm] at hr
        obtain ⟨es, hs, ha⟩ := rel_some hr
        simp only [hk, decide_true, hm, hs, ha.size]
        by_cases hi : i < es.length
        · obtain ⟨v', p1, p2⟩ := setAt_spec ha hi x
          simp only [hi, if_true, p1, bind, Except.bind, pure, Except.pure]
          exact ⟨_, rfl, key r v v' es _ _ hk hm hs p2 (by simp) (by simp) (by simp)⟩
        · simp only [hi, if_false]; exact ⟨_, rfl, h⟩
    · simp only [hk, decide_false]; exact ⟨_, rfl, h⟩
  | setFront r x =>
    simp only [step3, specStep3]
    by_cases hk : r < c.K
    · cases hm : m.regs r with
      | none =>
        have := (rel_none (h.rel r)).mp hm
        simp only [hk, decide_true, hm, this]; exact ⟨_, rfl, h⟩
      | some v =>
        have hr := h.rel r; rw [hm] at hr
        obtain ⟨es, hs, ha⟩ := rel_some hr
        simp only [hk, decide_true, hm, hs, ha.size]
        by_cases hi : 0 < es.length
        · obtain ⟨v', p1, p2⟩ := setAt_spec ha hi x
          simp only [hi, if_true, SVec.setFront, p1, bind, Except.bind, pure, Except.pure]
          exact ⟨_, rfl, key r v v' es _ _ hk hm hs p2 (by simp) (by simp) (by simp)⟩
        · simp only [hi, if_false]; exact ⟨_, rfl, h⟩
    · simp only [hk, decide_false]; exact ⟨_, rfl, h⟩
  | setBack r x =>
    simp only [step3, specStep3]
    by_cases hk : r < c.K
    · cases hm : m.regs r with
      | none =>
        have := (rel_none (h.rel r)).mp hm
        simp only [hk, decide_true, hm, this]; exact ⟨_, rfl, h⟩
      | some v =>
        have hr := h.rel r; rw [hm] at hr
        obtain ⟨es, hs, ha⟩ := rel_some hr
        simp only [hk, decide_true, hm, hs, ha.size]
        by_cases hi : 0 < es.length
        · obtain ⟨v', p1, p2⟩ := setAt_spec ha (show es.length - 1 < es.length by omega) x
          simp only [hi, if_true, SVec.setBack, ha.size, p1, bind, Except.bind, pure, Except.pure]
          exact ⟨_, rfl, key r v v' es _ _ hk hm hs p2 (by simp) (by simp) (by simp)⟩
        · simp only [hi, if_false]; exact ⟨_, rfl, h⟩
    · simp only [hk, decide_false]; exact ⟨_, rfl, h⟩
  | fill r x =>
    simp only [step3, specStep3]
    by_cases hk : r < c.K
    · cases hm : m.regs r with
      | none =>
        have := (rel_none (h.rel r)).mp hm
        simp only [hk, decide_true, hm, this]; exact ⟨_, rfl, h⟩
      | some v =>
        have hr := h.rel r; rw [hm] at hr
        obtain ⟨es, hs, ha⟩ := rel_some hr
        obtain ⟨v', tr, p1, p2, p3, p4⟩ := fillAll_spec ha x
        simp only [hk, decide_true, hm, hs, p1, bind, Except.bind, pure, Except.pure]
        exact ⟨_, rfl, key r v v' es _ _ hk hm hs p2 (by simp) p3 p4⟩
    · simp only [hk, decide_false]; exact ⟨_, rfl, h⟩
  | take r i =>
    simp only [step3, specStep3]
    by_cases hk : r < c.K
    · cases hm : m.regs r with
      | none =>
        have := (rel_none (h.rel r)).mp hm
        simp only [hk, decide_true, hm, this]; exact ⟨_, rfl, h⟩
      | some v =>
        have hr := h.rel r; rw [hm] at hr
        obtain ⟨es, hs, ha⟩ := rel_some hr
        simp only [hk, decide_true, hm, hs, ha.size]
        by_cases hi : i < es.length
        · obtain ⟨v', p1, p2⟩ := takeAt_spec c.trk ha hi
          simp only [hi, if_true, p1, bind, Except.bind, pure, Except.pure]
          exact ⟨_, rfl, key r v v' es _ _ hk hm hs p2 (specTake_length _ _ _) (by simp) (by simp)⟩
        · simp only [hi, if_false]; exact ⟨_, rfl, h⟩
    · simp only [hk, decide_false]; exact ⟨_, rfl, h⟩

theorem run3_refines {c : Cfg} : ∀ (ops : List Op3) (m : Mach) (sp : SpecRegs), MInv c m sp →
    ∃ m', run3 c ops m = .ok m' ∧ MInv c m' (specRun3 c ops sp) := by
  intro ops
  induction ops with
  | nil => intro m sp h; exact ⟨m, rfl, h⟩
  | cons op ops ih =>
    intro m sp h
    obtain ⟨mr, h1, h2⟩ := step3_refines h op
    obtain ⟨m', g1, g2⟩ := ih mr.1 _ h2
    exact ⟨m', by simp [run3, h1, g1, bind, Except.bind], g2⟩

/-! ## 3. erase with a throwing move assignment -/

theorem shiftLoopX_eq (trk : Bool) : ∀ (k src dst : Nat) (s : Slots) (a : Nat),
    shiftLoopX trk k src dst s a =
      (shiftLoop trk (min k a) src dst s).map (fun q => (q.1, q.2, decide (a < k))) := by
  intro k
  induction k with
  | zero => intro src dst s a; simp [shiftLoopX, shiftLoop, Except.map]
  | succ k ih =>
    intro src dst s a
    cases a with
    | zero => simp [shiftLoopX, shiftLoop, Except.map]
    | succ a =>
      have hm : min (k + 1) (a + 1) = min k a + 1 := by omega
      simp only [shiftLoopX, hm, shiftLoop]
      cases h1 : moveOut trk s src with
      | error e => rfl
      | ok q =>
        obtain ⟨e, s1⟩ := q
        simp only [bind, Except.bind]
        cases h2 : assign s1 dst e with
        | error e => rfl
        | ok s2 =>
          simp only [ih]
          cases h3 : shiftLoop trk (min k a) (src + 1) (dst + 1) s2 with
          | error e => rfl
          | ok q => simp [Except.map, pure, Except.pure]

/-- the sequence a failed `erase(begin()+i, begin()+j)` leaves behind when its
    `(a+1)`-th element assignment throws: same length; positions `[i, i+a)` hold
    what was at `[j, j+a)`, positions `[j, j+a)` not overwritten by that are
    moved-from, everything else is untouched -/
def specEraseFail (trk : Bool) (es : List Elem) (i j a : Nat) : List Elem :=
  (List.range es.length).map fun p =>
    if i ≤ p ∧ p < i + a then es.getD (p + (j - i)) none
    else if j ≤ p ∧ p < j + a ∧ trk = true then none
    else es.getD p none

theorem eraseX_fail_spec (trk : Bool) {N : Nat} {v : SVec} {es : List Elem} (h : Abs N v es) {i j a : Nat}
    (hij : i < j) (hj : j ≤ es.length) (ha : a < es.length - j) :
    ∃ w tr, eraseX trk v i j a = .ok (w, tr, true) ∧ Abs N w (specEraseFail trk es i j a) ∧
      w.size = es.length ∧ nC tr = 0 ∧ nD tr = 0 := by
  have hs := h.size; have hl := h.le
  obtain ⟨s', tr, h1, h2, h3, h4, h5⟩ := shiftLoop_spec trk a j i v.slots hij (by
    intro p _ hp
    rw [h.pt p]; exact slotAt_obj (by omega))
  have hne : ¬ i = j := by omega
  have hmin : min (v.size - j) a = a := by omega
  have hdec : decide (a < v.size - j) = true := by simp; omega
  refine ⟨⟨s', v.size⟩, tr, ?_, ⟨by rw [h4, h.len], by simp [specEraseFail, hs], by simp [specEraseFail]; exact hl, ?_⟩, hs, h2, h3⟩
  · simp [eraseX, hne, shiftLoopX_eq, hmin, h1, hdec, Except.map, bind, Except.bind, pure, Except.pure]
  · intro p
    rw [h5 p]
    simp only [slotAt, specEraseFail, List.length_map, List.length_range]
    by_cases hpl : p < es.length
    · simp only [hpl, if_true, List.getElem?_map, List.getElem?_range hpl, Option.map]
      by_cases c1 : i ≤ p ∧ p < i + a
      · rw [if_pos c1, if_pos c1, abs_obj h (by omega)]
      · rw [if_neg c1, if_neg c1]
        by_cases c2 : j ≤ p ∧ p < j + a ∧ trk = true
        · rw [if_pos c2, if_pos c2]
        · rw [if_neg c2, if_neg c2, abs_obj h hpl]
    · rw [if_neg (by omega), if_neg (by omega), h.pt p]
      simp [slotAt, hpl]

theorem eraseX_done_spec (trk : Bool) (v : SVec) (i j a : Nat) (ha : v.size - j ≤ a) :
    eraseX trk v i j a = (erase trk v i j).map (fun q => (q.1, q.2, false)) := by
  simp only [eraseX, erase]
  by_cases hne : i = j
  · simp [hne, Except.map]
  · have hmin : min (v.size - j) a = v.size - j := by omega
    have hdec : decide (a < v.size - j) = false := by simp; omega
    simp only [hne, if_false, shiftLoopX_eq, hmin, hdec]
    cases h1 : shiftLoop trk (v.size - j) j i v.slots with
    | error e => rfl
    | ok q =>
      simp only [Except.map, bind, Except.bind]
      cases h2 : destroyLoop (j - i) (v.size - (j - i)) q.1 with
      | error e => simp
      | ok q2 => simp [pure, Except.pure]

/-! ## 4. unbounded_array: the storage model refines the list-level meaning `ustep` -/

/-- the block holds exactly the live objects of `xs`, nothing else (`nullptr` for no block) -/
structure UAbs (a : UArr) (xs : List Nat) : Prop where
  size : a.size = xs.length
  len : a.slots.length = xs.length
  pt : ∀ p : Nat, a.slots[p]? = (xs[p]?).map fun x => Slot.obj (some x)

@[simp] theorem uslots_some (s : Slots) (n : Nat) : (⟨some s, n⟩ : UArr).slots = s := rfl

theorem uabs_nil : UAbs ⟨none, 0⟩ [] := ⟨rfl, rfl, by intro p; simp [UArr.slots]⟩

theorem uabs_obj {a : UArr} {xs : List Nat} (h : UAbs a xs) {p : Nat} (hp : p < xs.length) :
    ∃ e, a.slots[p]? = some (.obj e) := by
  rw [h.pt p, List.getElem?_eq_getElem hp]; exact ⟨_, rfl⟩

theorem uCreate_spec (n : Nat) :
    ∃ a tr, uCreate n = .ok (a, tr) ∧ UAbs a (List.replicate n 0) ∧ nC tr = n ∧ nD tr = 0 := by
  obtain ⟨s', tr, h1, h2, h3, h4, h5⟩ := valueInitLoop_spec n 0 (rawStore n) (by
    intro p _ hp; rw [rawStore_getElem?]; simp; omega)
  refine ⟨⟨some s', n⟩, tr, by simp [uCreate, h1, bind, Except.bind, pure, Except.pure],
    ⟨by simp, by simp [h4, rawStore], ?_⟩, h2, h3⟩
  intro p
  simp only [uslots_some, h5 p, rawStore_getElem?, List.getElem?_replicate]
  by_cases hp : p < n <;> simp [hp]

theorem uInvalidate_spec {a : UArr} {xs : List Nat} (h : UAbs a xs) :
    ∃ tr, uInvalidate a = .ok (⟨none, 0⟩, tr) ∧ nC tr = 0 ∧ nD tr = xs.length := by
  obtain ⟨s', tr, h1, h2, h3, _, _⟩ := destroyLoop_spec a.size 0 a.slots (by
    intro p _ hp; exact uabs_obj h (by have := h.size; omega))
  exact ⟨tr, by simp [uInvalidate, h1, bind, Except.bind, pure, Except.pure], h2, by rw [h3, h.size]⟩

theorem uCopyIn_spec (src : List Nat) : ∀ (k pos : Nat) (s : Slots), pos + k ≤ src.length →
    (∀ p, pos ≤ p → p < pos + k → ∃ e, s[p]? = some (.obj e)) →
    ∃ s' tr, uCopyIn src k pos s = .ok (s', tr) ∧ nC tr = 0 ∧ nD tr = 0 ∧ s'.length = s.length ∧
      ∀ p, s'[p]? = if pos ≤ p ∧ p < pos + k then (src[p]?).map (fun x => Slot.obj (some x)) else s[p]? := by
  intro k
  induction k with
  | zero => intro pos s _ _; exact ⟨s, [], rfl, rfl, rfl, rfl, by intro p; simp; omega⟩
  | succ k ih =>
    intro pos s hsrc h
    obtain ⟨e0, he⟩ := h pos (by omega) (by omega)
    have hlt := lt_of_getElem?_some he
    have hx : src[pos]? = some (src[pos]'(by omega)) := List.getElem?_eq_getElem (by omega)
    obtain ⟨s', tr, h1, h2, h3, h4, h5⟩ := ih (pos + 1) (s.set pos (.obj (some (src[pos]'(by omega))))) (by omega) (by
      intro p hp1 hp2
      rw [List.getElem?_set_ne (by omega)]; exact h p (by omega) (by omega))
    refine ⟨s', ⟨false, .asg, pos⟩ :: tr, by simp [uCopyIn, hx, assign_ok _ he, h1, bind, Except.bind, pure, Except.pure], ?_, ?_, ?_, ?_⟩
    · simp [h2]
    · simp [h3]
    · simp [h4]
    · intro p
      rw [h5 p]
      by_cases hp : p = pos
      · subst hp; simp [List.getElem?_set_self hlt, hx]
      · rw [List.getElem?_set_ne (by omega)]
        by_cases h6 : pos + 1 ≤ p ∧ p < pos + 1 + k
        · rw [if_pos h6, if_pos (by omega)]
        · rw [if_neg h6, if_neg (by omega)]

theorem uCopyBlk_spec (src : Slots) : ∀ (k pos : Nat) (s : Slots),
    (∀ p, pos ≤ p → p < pos + k → (∃ e, s[p]? = some (.obj e)) ∧ ∃ e, src[p]? = some (.obj e)) →
    ∃ s' tr, uCopyBlk src k pos s = .ok (s', tr) ∧ nC tr = 0 ∧ nD tr = 0 ∧ s'.length = s.length ∧
      ∀ p, s'[p]? = if pos ≤ p ∧ p < pos + k then src[p]? else s[p]? := by
  intro k
  induction k with
  | zero => intro pos s _; exact ⟨s, [], rfl, rfl, rfl, rfl, by intro p; simp; omega⟩
  | succ k ih =>
    intro pos s h
    obtain ⟨⟨e0, he⟩, ⟨e1, hsrc⟩⟩ := h pos (by omega) (by omega)
    have hlt := lt_of_getElem?_some he
    obtain ⟨s', tr, h1, h2, h3, h4, h5⟩ := ih (pos + 1) (s.set pos (.obj e1)) (by
      intro p hp1 hp2
      rw [List.getElem?_set_ne (by omega)]; exact h p (by omega) (by omega))
    refine ⟨s', ⟨false, .asg, pos⟩ :: tr, by simp [uCopyBlk, readObj_ok hsrc, assign_ok _ he, h1, bind, Except.bind, pure, Except.pure], ?_, ?_, ?_, ?_⟩
    · simp [h2]
    · simp [h3]
    · simp [h4]
    · intro p
      rw [h5 p]
      by_cases hp : p = pos
      · subst hp; simp [List.getElem?_set_self hlt, hsrc]
      · rw [List.getElem?_set_ne (by omega)]
        by_cases h6 : pos + 1 ≤ p ∧ p < pos + 1 + k
        · rw [if_pos h6, if_pos (by omega)]
        · rw [if_neg h6, if_neg (by omega)]

theorem uFromPtr_spec (xs : List Nat) :
    ∃ a tr, uFromPtr xs xs.length = .ok (a, tr) ∧ UAbs a xs ∧ nC tr = xs.length ∧ nD tr = 0 := by
  obtain ⟨a, tr1, h1, ha, c1, d1⟩ := uCreate_spec xs.length
  obtain ⟨s', tr2, g1, g2, g3, g4, g5⟩ := uCopyIn_spec xs xs.length 0 a.slots (by omega) (by
    intro p _ hp; exact uabs_obj ha (by simpa using hp))
  refine ⟨⟨some s', xs.length⟩, tr1 ++ tr2, by simp [uFromPtr, h1, g1, bind, Except.bind, pure, Except.pure],
    ⟨rfl, by rw [uslots_some, g4, ha.len]; simp, ?_⟩, by simp [c1, g2], by simp [d1, g3]⟩
  intro p
  simp only [uslots_some, g5 p]
  by_cases hp : p < xs.length
  · simp [hp]
  · have : a.slots[p]? = none := by rw [ha.pt p]; simp; omega
    have hx : xs[p]? = none := by simp; omega
    simp [hp, this, hx]

theorem uCopyCtor_spec {o : UArr} {ys : List Nat} (ho : UAbs o ys) :
    ∃ a tr, uCopyCtor o = .ok (a, tr) ∧ UAbs a ys ∧ nC tr = ys.length ∧ nD tr = 0 := by
  obtain ⟨a, tr1, h1, ha, c1, d1⟩ := uCreate_spec o.size
  have hos := ho.size
  obtain ⟨s', tr2, g1, g2, g3, g4, g5⟩ := uCopyBlk_spec o.slots o.size 0 a.slots (by
    intro p _ hp
    exact ⟨uabs_obj ha (by simpa using hp), uabs_obj ho (by omega)⟩)
  refine ⟨⟨some s', o.size⟩, tr1 ++ tr2, by simp [uCopyCtor, h1, g1, bind, Except.bind, pure, Except.pure],
    ⟨hos, by rw [uslots_some, g4, ha.len]; simp [hos], ?_⟩, by simp [c1, g2, hos], by simp [d1, g3]⟩
  intro p
  simp only [uslots_some, g5 p]
  by_cases hp : p < o.size
  · simp only [Nat.zero_le, Nat.zero_add, hp, and_self, if_true]; exact ho.pt p
  · have : a.slots[p]? = none := by rw [ha.pt p]; simp; omega
    have hx : ys[p]? = none := by simp; omega
    simp [hp, this, hx]

theorem uAssign_spec {a o : UArr} {xs ys : List Nat} (ha : UAbs a xs) (ho : UAbs o ys) :
    ∃ a' tr, uAssign a o = .ok (a', tr) ∧ UAbs a' ys ∧ nC tr = ys.length ∧ nD tr = xs.length := by
  obtain ⟨tr1, h1, c1, d1⟩ := uInvalidate_spec ha
  have hos := ho.size
  obtain ⟨s', tr2, g1, g2, g3, g4, g5⟩ := copyLoop_spec o.slots o.size 0 (rawStore o.size) (by
    intro p _ hp
    exact ⟨by rw [rawStore_getElem?]; simp; omega, uabs_obj ho (by omega)⟩)
  refine ⟨⟨some s', o.size⟩, tr1 ++ tr2, by simp [uAssign, h1, g1, bind, Except.bind, pure, Except.pure],
    ⟨hos, by rw [uslots_some, g4]; simp [rawStore, hos], ?_⟩, by simp [c1, g2, hos], by simp [d1, g3]⟩
  intro p
  simp only [uslots_some, g5 p]
  by_cases hp : p < o.size
  · simp only [Nat.zero_le, Nat.zero_add, hp, and_self, if_true]; exact ho.pt p
  · have hx : ys[p]? = none := by simp; omega
    simp [hp, rawStore_getElem?, hx]

theorem uResize_spec {a : UArr} {xs : List Nat} (ha : UAbs a xs) (n : Nat) :
    ∃ a' tr, uResize a n = .ok (a', tr) ∧ UAbs a' (List.replicate n 0) ∧ nC tr = n ∧ nD tr = xs.length := by
  obtain ⟨tr1, h1, c1, d1⟩ := uInvalidate_spec ha
  obtain ⟨b, tr2, g1, g2, g3, g4⟩ := uCreate_spec n
  exact ⟨b, tr1 ++ tr2, by simp [uResize, h1, g1, bind, Except.bind, pure, Except.pure], g2, by simp [c1, g3], by simp [d1, g4]⟩

theorem uslots_map {a : UArr} {s : Slots} (h : a.slots.length = s.length) (n : Nat) :
    (⟨a.blk.map fun _ => s, n⟩ : UArr).slots = s := by
  cases hb : a.blk with
  | none =>
    have : s.length = 0 := by rw [← h]; simp [UArr.slots, hb]
    simp [UArr.slots, List.length_eq_zero_iff.mp this]
  | some b => simp [UArr.slots]

theorem uFill_spec {a : UArr} {xs : List Nat} (ha : UAbs a xs) (x : Nat) :
    ∃ a' tr, uFill a x = .ok (a', tr) ∧ UAbs a' (xs.map fun _ => x) ∧ nC tr = 0 ∧ nD tr = 0 := by
  have has := ha.size
  obtain ⟨s', tr, h1, h2, h3, h4, h5⟩ := assignLoop_spec x a.size 0 a.slots (by
    intro p _ hp; exact uabs_obj ha (by omega))
  refine ⟨⟨a.blk.map fun _ => s', a.size⟩, tr, by simp [uFill, h1, bind, Except.bind, pure, Except.pure], ⟨by simp [has], ?_, ?_⟩, h2, h3⟩
  · rw [uslots_map h4.symm]; simp [h4, ha.len]
  · intro p
    rw [uslots_map h4.symm, h5 p]
    by_cases hp : p < a.size
    · have : xs[p]? = some (xs[p]'(by omega)) := List.getElem?_eq_getElem (by omega)
      simp [hp, this]
    · have hx : xs[p]? = none := by simp; omega
      simp [hp, ha.pt p, hx]

theorem uSet_spec {a : UArr} {xs : List Nat} (ha : UAbs a xs) {i : Nat} (hi : i < xs.length) (x : Nat) :
    ∃ a', uSet a i x = .ok (a', [⟨false, .asg, i⟩]) ∧ UAbs a' (xs.set i x) := by
  obtain ⟨e, he⟩ := uabs_obj ha hi
  have hlen : a.slots.length = (a.slots.set i (.obj (some x))).length := by simp
  refine ⟨⟨a.blk.map fun _ => a.slots.set i (.obj (some x)), a.size⟩, by simp [uSet, assign_ok _ he, bind, Except.bind, pure, Except.pure], ⟨by simp [ha.size], ?_, ?_⟩⟩
  · rw [uslots_map hlen]; simp [ha.len]
  · intro p
    rw [uslots_map hlen]
    by_cases hp : p = i
    · subst hp
      rw [List.getElem?_set_self (by rw [ha.len]; exact hi), List.getElem?_set_self hi]; rfl
    · rw [List.getElem?_set_ne (by omega), List.getElem?_set_ne (by omega)]; exact ha.pt p

def URel : Option UArr → Option (List Nat) → Prop
  | none, none => True
  | some a, some xs => UAbs a xs
  | _, _ => False

def UInv (m : URegsS) (sp : URegs) : Prop := ∀ r, URel (m r) (sp r)

theorem urel_none {o : Option UArr} {x : Option (List Nat)} (h : URel o x) : o = none ↔ x = none := by
  cases o <;> cases x <;> simp_all [URel]

theorem urel_some {a : UArr} {x : Option (List Nat)} (h : URel (some a) x) : ∃ xs, x = some xs ∧ UAbs a xs := by
  cases x with
  | none => exact h.elim
  | some xs => exact ⟨xs, rfl, h⟩

theorem uinv_set {m : URegsS} {sp : URegs} (h : UInv m sp) (r : Nat) {a : Option UArr} {xs : Option (List Nat)}
    (hr : URel a xs) : UInv (setUS m r a) (setU sp r xs) := by
  intro q
  by_cases hq : q = r
  · subst hq; simpa [setUS, setU] using hr
  · simpa [setUS, setU, hq] using h q

/-- result of one storage-level operation against the list-level meaning -/
def UOut : Option URegsS → Option URegs → Prop
  | some m, some sp => UInv m sp
  | none, none => True
  | _, _ => False

theorem ustepS_refines {K : Nat} {m : URegsS} {sp : URegs} (h : UInv m sp) (op : UOp) :
    ∃ res, ustepS K m op = .ok res ∧ UOut res (ustep K sp op) := by
  cases op with
  | new r n =>
    simp only [ustepS, ustep]
    cases hd : decide (r < K) <;> cases hm : m r <;> (try exact ⟨none, rfl, by
      have := h r; rw [hm] at this
      first
        | (have hx := (urel_none (hm ▸ h r)).mp rfl; simp [hx, UOut])
        | (obtain ⟨xs, hx, _⟩ := urel_some this; simp [hx, UOut])
        | simp [UOut]⟩)
    have hx := (urel_none (hm ▸ h r)).mp rfl
    obtain ⟨a, tr, h1, h2, _⟩ := uCreate_spec n
    simp only [h1, hx, bind, Except.bind, pure, Except.pure]
    exact ⟨_, rfl, uinv_set h r h2⟩
  | «from» r xs =>
    simp only [ustepS, ustep]
    cases hd : decide (r < K) <;> cases hm : m r <;> (try exact ⟨none, rfl, by
      have := h r; rw [hm] at this
      first
        | (have hx := (urel_none (hm ▸ h r)).mp rfl; simp [hx, UOut])
        | (obtain ⟨xs, hx, _⟩ := urel_some this; simp [hx, UOut])
        | simp [UOut]⟩)
    have hx := (urel_none (hm ▸ h r)).mp rfl
    obtain ⟨a, tr, h1, h2, _⟩ := uFromPtr_spec xs
    simp only [h1, hx, bind, Except.bind, pure, Except.pure]
    exact ⟨_, rfl, uinv_set h r h2⟩
  | copy r s =>
    simp only [ustepS, ustep]
    cases hd : decide (r < K ∧ s < K) with
    | false => exact ⟨none, rfl, by simp [UOut]⟩
    | true =>
      cases hm : m r with
      | some a =>
        obtain ⟨xs, hx, _⟩ := urel_some (hm ▸ h r)
        cases hms : m s <;> exact ⟨none, rfl, by simp [hx, UOut]⟩
      | none =>
        have hx := (urel_none (hm ▸ h r)).mp rfl
        cases hms : m s with
        | none =>
          have hy := (urel_none (hms ▸ h s)).mp rfl
          exact ⟨none, rfl, by simp [hx, hy, UOut]⟩
        | some o =>
          obtain ⟨ys, hy, ho⟩ := urel_some (hms ▸ h s)
          obtain ⟨a, tr, h1, h2, _⟩ := uCopyCtor_spec ho
          simp only [h1, hx, hy, bind, Except.bind, pure, Except.pure]
          exact ⟨_, rfl, uinv_set h r h2⟩
  | move r s =>
    simp only [ustepS, ustep]
    cases hd : decide (r < K ∧ s < K) with
    | false => exact ⟨none, rfl, by simp [UOut]⟩
    | true =>
      cases hm : m r with
      | some a =>
        obtain ⟨xs, hx, _⟩ := urel_some (hm ▸ h r)
        cases hms : m s <;> exact ⟨none, rfl, by simp [hx, UOut]⟩
      | none =>
        have hx := (urel_none (hm ▸ h r)).mp rfl
        cases hms : m s with
        | none =>
          have hy := (urel_none (hms ▸ h s)).mp rfl
          exact ⟨none, rfl, by simp [hx, hy, UOut]⟩
        | some o =>
          obtain ⟨ys, hy, ho⟩ := urel_some (hms ▸ h s)
          simp only [hx, hy, uMoveCtor]
          exact ⟨_, rfl, uinv_set (uinv_set h s (a := some ⟨none, 0⟩) (xs := some []) uabs_nil) r (a := some o) (xs := some ys) ho⟩
  | assign r s =>
    simp only [ustepS, ustep]
    cases hd : decide (r < K ∧ s < K) with
    | false => exact ⟨none, rfl, by simp [UOut]⟩
    | true =>
      cases hm : m r with
      | none =>
        have hx := (urel_none (hm ▸ h r)).mp rfl
        cases hms : m s <;> exact ⟨none, rfl, by simp [hx, UOut]⟩
      | some a =>
        obtain ⟨xs, hx, ha⟩ := urel_some (hm ▸ h r)
        cases hms : m s with
        | none =>
          have hy := (urel_none (hms ▸ h s)).mp rfl
          exact ⟨none, rfl, by simp [hx, hy, UOut]⟩
        | some o =>
          obtain ⟨ys, hy, ho⟩ := urel_some (hms ▸ h s)
          simp only [hx, hy]
          by_cases hrs : r = s
          · subst hrs
            simp only [if_true]
            refine ⟨_, rfl, ?_⟩
            intro q
            by_cases hq : q = r
            · subst hq; simp only [setU, if_true]; rw [← hy]; exact h q
            · simp only [setU, hq, if_false]; exact h q
          · obtain ⟨a', tr, h1, h2, _⟩ := uAssign_spec ha ho
            simp only [hrs, if_false, h1, bind, Except.bind, pure, Except.pure]
            exact ⟨_, rfl, uinv_set h r (a := some a') (xs := some ys) h2⟩
  | resize r n =>
    simp only [ustepS, ustep]
    cases hd : decide (r < K) with
    | false => exact ⟨none, rfl, by simp [UOut]⟩
    | true =>
      cases hm : m r with
      | none =>
        have hx := (urel_none (hm ▸ h r)).mp rfl
        exact ⟨none, rfl, by simp [hx, UOut]⟩
      | some a =>
        obtain ⟨xs, hx, ha⟩ := urel_some (hm ▸ h r)
        obtain ⟨a', tr, h1, h2, _⟩ := uResize_spec ha n
        simp only [hx, h1, bind, Except.bind, pure, Except.pure]
        exact ⟨_, rfl, uinv_set h r (a := some a') (xs := some (List.replicate n 0)) h2⟩
  | fill r x =>
    simp only [ustepS, ustep]
    cases hd : decide (r < K) with
    | false => exact ⟨none, rfl, by simp [UOut]⟩
    | true =>
      cases hm : m r with
      | none =>
        have hx := (urel_none (hm ▸ h r)).mp rfl
        exact ⟨none, rfl, by simp [hx, UOut]⟩
      | some a =>
        obtain ⟨xs, hx, ha⟩ := urel_some (hm ▸ h r)
        obtain ⟨a', tr, h1, h2, _⟩ := uFill_spec ha x
        simp only [hx, h1, bind, Except.bind, pure, Except.pure]
        exact ⟨_, rfl, uinv_set h r (a := some a') (xs := some (xs.map fun _ => x)) h2⟩
  | set r i x =>
    simp only [ustepS, ustep]
    cases hd : decide (r < K) with
    | false => exact ⟨none, rfl, by simp [UOut]⟩
    | true =>
      cases hm : m r with
      | none =>
        have hx := (urel_none (hm ▸ h r)).mp rfl
        exact ⟨none, rfl, by simp [hx, UOut]⟩
      | some a =>
        obtain ⟨xs, hx, ha⟩ := urel_some (hm ▸ h r)
        simp only [hx, ha.size]
        by_cases hi : i < xs.length
        · obtain ⟨a', h1, h2⟩ := uSet_spec ha hi x
          simp only [hi, if_true, h1, bind, Except.bind, pure, Except.pure]
          exact ⟨_, rfl, uinv_set h r (a := some a') (xs := some (xs.set i x)) h2⟩
        · simp only [hi, if_false]; exact ⟨none, rfl, trivial⟩
  | clear r =>
    simp only [ustepS, ustep]
    cases hd : decide (r < K) with
    | false => exact ⟨none, rfl, by simp [UOut]⟩
    | true =>
      cases hm : m r with
      | none =>
        have hx := (urel_none (hm ▸ h r)).mp rfl
        exact ⟨none, rfl, by simp [hx, UOut]⟩
      | some a =>
        obtain ⟨xs, hx, ha⟩ := urel_some (hm ▸ h r)
        obtain ⟨tr, h1, _⟩ := uInvalidate_spec ha
        simp only [hx, h1, bind, Except.bind, pure, Except.pure]
        exact ⟨_, rfl, uinv_set h r (a := some ⟨none, 0⟩) (xs := some []) uabs_nil⟩
  | del r =>
    simp only [ustepS, ustep]
    cases hd : decide (r < K) with
    | false => exact ⟨none, rfl, by simp [UOut]⟩
    | true =>
      cases hm : m r with
      | none =>
        have hx := (urel_none (hm ▸ h r)).mp rfl
        exact ⟨none, rfl, by simp [hx, UOut]⟩
      | some a =>
        obtain ⟨xs, hx, ha⟩ := urel_some (hm ▸ h r)
        obtain ⟨tr, h1, _⟩ := uInvalidate_spec ha
        simp only [hx, h1, bind, Except.bind, pure, Except.pure]
        exact ⟨_, rfl, uinv_set h r (a := none) (xs := none) trivial⟩
  | finish => exact ⟨_, rfl, by intro q; trivial⟩

/-- a history on the list level: operations outside the contract are skipped -/
def urun (K : Nat) : List UOp → URegs → URegs
  | [], sp => sp
  | op :: ops, sp => urun K ops ((ustep K sp op).getD sp)

/-- a history on the storage level; the first fault ends it -/
def urunS (K : Nat) : List UOp → URegsS → Except Fault URegsS
  | [], m => .ok m
  | op :: ops, m => do
      let r ← ustepS K m op
      urunS K ops (r.getD m)

theorem urunS_refines {K : Nat} : ∀ (ops : List UOp) (m : URegsS) (sp : URegs), UInv m sp →
    ∃ m', urunS K ops m = .ok m' ∧ UInv m' (urun K ops sp) := by
  intro ops
  induction ops with
  | nil => intro m sp h; exact ⟨m, rfl, h⟩
  | cons op ops ih =>
    intro m sp h
    obtain ⟨res, h1, h2⟩ := ustepS_refines (K := K) h op
    have hnext : UInv (res.getD m) ((ustep K sp op).getD sp) := by
      cases res with
      | none =>
        cases hu : ustep K sp op with
        | none => simpa using h
        | some sp' => rw [hu] at h2; exact h2.elim
      | some m1 =>
        cases hu : ustep K sp op with
        | none => rw [hu] at h2; exact h2.elim
        | some sp' => rw [hu] at h2; simpa [UOut] using h2
    obtain ⟨m', g1, g2⟩ := ih _ _ hnext
    exact ⟨m', by simp [urunS, urun, h1, g1, bind, Except.bind], by simpa [urun] using g2⟩

/-! ## 5. static_string with a `w`-bit counter -/

theorem sPushW_eq {w N : Nat} (hN : N < 2 ^ w) (s : SStr) (c : Byte) (hs : s.size ≤ N) :
    sPushW w N s c = sPush N s c := by
  unfold sPushW sPush
  by_cases hf : s.size ≥ N
  · simp [hf]
  · simp only [hf, if_false]
    rw [stored_small (show s.size + 1 < 2 ^ w by omega)]

theorem sCtorPtrLenW_eq {w N : Nat} (hN : N < 2 ^ w) (junk arg : List Byte) (sz : Nat) :
    sCtorPtrLenW w N junk arg sz = sCtorPtrLen N junk arg sz := by
  unfold sCtorPtrLenW sCtorPtrLen
  rw [stored_small (show (if sz > N then N else sz) < 2 ^ w by split <;> omega)]

/-- the C-string constructor stores `strlen(dat)` BEFORE it clamps: the counter
    must hold the length of the ARGUMENT, not only the capacity -/
theorem sCtorPtrW_eq {w N : Nat} (hN : N < 2 ^ w) {junk arg : List Byte} (h0 : (0 : Byte) ∈ arg)
    (hlen : arg.length ≤ 2 ^ w) : sCtorPtrW w N junk arg = sCtorPtr N junk arg := by
  unfold sCtorPtrW sCtorPtr
  rw [strlen_spec h0]
  have := takeWhile_length_lt h0
  simp only [bind, Except.bind]
  rw [stored_small (show (arg.takeWhile nz).length < 2 ^ w by omega), stored_small hN]

theorem sreg_size_le {c : SCfg} {m : SRegs} {sp : SpecS} (h : SInv c m sp) {r : Nat} {s : SStr} (hs : m r = some s) :
    s.size ≤ c.N := by
  have hr := h r
  rw [hs] at hr
  cases hq : sp r with
  | none => rw [hq] at hr; exact hr.elim
  | some es => rw [hq] at hr; rw [hr.size]; exact hr.le

/-- what a C-string argument must satisfy for a `w`-bit counter: its length fits -/
def SOp.fitsW (w : Nat) : SOp → Prop
  | .ptr _ arg => arg.length ≤ 2 ^ w
  | _ => True

theorem sstepW_eq {w : Nat} {c : SCfg} {m : SRegs} {sp : SpecS} (h : SInv c m sp) (hN : c.N < 2 ^ w) (op : SOp)
    (hwf : op.wf) (hfit : op.fitsW w) : sstepW w c m op = sstep c m op := by
  cases op with
  | ptr r arg =>
    simp only [sstepW, sstep]
    cases hd : decide (r < c.K) <;> cases hr : m r <;> try rfl
    simp only []
    rw [sCtorPtrW_eq hN hwf hfit]
  | ptrlen r arg n =>
    simp only [sstepW, sstep]
    cases hd : decide (r < c.K ∧ c.port = true ∧ n ≤ arg.length) <;> cases hr : m r <;> try rfl
    simp only []
    rw [sCtorPtrLenW_eq hN]
  | push r ch =>
    simp only [sstepW, sstep]
    cases hd : decide (r < c.K) <;> cases hr : m r <;> try rfl
    rename_i s
    simp only []
    rw [sPushW_eq hN s ch (sreg_size_le h hr)]
  | add r ch =>
    simp only [sstepW, sstep]
    cases hd : decide (r < c.K ∧ c.port = true) <;> cases hr : m r <;> try rfl
    rename_i s
    simp only []
    rw [sPushW_eq hN s ch (sreg_size_le h hr)]
  | new r => rfl
  | copy r s => rfl
  | clear r => rfl
  | cstr r => rfl
  | get r i => rfl
  | set r i ch => rfl
  | del r => rfl

theorem srunW_eq {w : Nat} {c : SCfg} (hj : c.junk.length = c.N + 1) (hN : c.N < 2 ^ w) :
    ∀ (ops : List SOp) (m : SRegs) (sp : SpecS), SInv c m sp → (∀ op, op ∈ ops → op.wf ∧ op.fitsW w) →
    srunW w c ops m = srun c ops m := by
  intro ops
  induction ops with
  | nil => intro m sp _ _; rfl
  | cons op ops ih =>
    intro m sp h hwf
    have h0 := hwf op (List.mem_cons_self ..)
    obtain ⟨m1, h1, h2⟩ := sstep_refines hj h op h0.1
    simp only [srunW, srun, sstepW_eq h hN op h0.1 h0.2, h1, bind, Except.bind]
    rw [ih m1 _ h2 (fun o ho => hwf o (List.mem_cons_of_mem _ ho))]

theorem sGetAny_inside {N : Nat} {s : SStr} {es : List Byte} (h : SAbs N s es) {i : Nat} (hi : i ≤ N) :
    ∃ b, sGetAny s i = .ok b := by
  have : i < s.data.length := by rw [h.len]; omega
  exact ⟨s.data[i], by simp [sGetAny, rd, List.getElem?_eq_getElem this]⟩

end Igris.C14
