/-
  C14 — the read accessors of static_vector (both twins): `operator[]`,
  `data()`, `begin()`/`end()`, `front()`, `back()`.  They compute an address
  inside `_data` and hand out a reference; what is modelled is the read of the
  element through it.  Core Lean only.
-/
import IgrisModel.C14.Model

namespace Igris.C14

/-- `v[pos]` = `v.data()[pos]` = `*(v.begin() + pos)`: the object in `_data[pos]`
    (no bounds check in the code: `pos ≥ size()` is outside the contract and
    reads raw storage — `useRaw` — or leaves the storage — `oob`) -/
def SVec.at (v : SVec) (pos : Nat) : Except Fault Elem := readObj v.slots pos

/-- `front()`: `_data[0]` -/
def SVec.front (v : SVec) : Except Fault Elem := readObj v.slots 0

/-- `back()`: `_data[m_size - 1]` (on an empty vector the `size_t` index wraps:
    outside the contract; the driver never asks) -/
def SVec.back (v : SVec) : Except Fault Elem := readObj v.slots (v.size - 1)

/-- `end() - begin()`: `&_data[m_size] - &_data[0]` -/
def SVec.dist (v : SVec) : Nat := v.size

end Igris.C14
