/-
  C14 — fixed-capacity containers: igris::static_vector<T,N>, igris::static_string<N>
  (igris/container/static_vector.h, static_string.h) and their twins in
  igris/container/std_portable.h.

  The model is the code AFTER the `fix:` commits of branch fix-C14, written the
  way the code is written: every member function is its literal sequence of
  *slot events* on the inline storage

      construct i e     placement-new of an element into `_data[i]`
      destroy i         `->~T()` on `_data[i]`
      assign i e        `operator=` on the object in `_data[i]`
      moveOut i         the object in `_data[i]` is the source of a move
      readObj i         the object in `_data[i]` is read (copy source)

  and every event is checked against the state of the slot:

      index ≥ storage length          → Fault.oob          (write outside the storage)
      construct over an object        → Fault.ctorOverLive (the old element is never destroyed)
      destroy of raw storage          → Fault.dtorRaw      (double destruction)
      read / assign / move of raw     → Fault.useRaw

  The bodies as they were before the repairs are kept as `…Orig` for the
  witness theorems.  The two copies of the classes differ in a few places only;
  `port = true` selects the std_portable.h behaviour.
-/
import IgrisModel.Common.Proto

namespace Igris.C14
open Igris.Proto

/-! ## slots, faults, events -/

/-- the value of an element object: `some v` = holds `v`, `none` = moved-from -/
abbrev Elem := Option Nat

inductive Slot where
  | raw
  | obj (e : Elem)
deriving DecidableEq, Repr, Inhabited

inductive Fault where
  | oob
  | ctorOverLive
  | dtorRaw
  | useRaw
deriving DecidableEq, Repr

inductive EvK where
  | ctor | dtor | asg | mv
deriving DecidableEq, Repr

/-- one lifetime event; `other = true`: it happened in the *argument* container
    (`other` of a copy/move), `false`: in `*this` -/
structure Ev where
  other : Bool
  k : EvK
  i : Nat
deriving DecidableEq, Repr

abbrev Tr := List Ev

def Ev.flip (e : Ev) : Ev := { e with other := !e.other }

abbrev Slots := List Slot

def construct (s : Slots) (i : Nat) (e : Elem) : Except Fault Slots :=
  match s[i]? with
  | none => .error .oob
  | some (.obj _) => .error .ctorOverLive
  | some .raw => .ok (s.set i (.obj e))

def destroy (s : Slots) (i : Nat) : Except Fault Slots :=
  match s[i]? with
  | none => .error .oob
  | some .raw => .error .dtorRaw
  | some (.obj _) => .ok (s.set i .raw)

def readObj (s : Slots) (i : Nat) : Except Fault Elem :=
  match s[i]? with
  | none => .error .oob
  | some .raw => .error .useRaw
  | some (.obj e) => .ok e

def assign (s : Slots) (i : Nat) (e : Elem) : Except Fault Slots :=
  match s[i]? with
  | none => .error .oob
  | some .raw => .error .useRaw
  | some (.obj _) => .ok (s.set i (.obj e))

/-- `std::move(x)` consumed by a move constructor / move assignment, seen from
    the source.  `trk = true`: an element type with a real move (the source is
    left moved-from); `false`: `int` (move = copy). -/
def moveOut (trk : Bool) (s : Slots) (i : Nat) : Except Fault (Elem × Slots) :=
  match s[i]? with
  | none => .error .oob
  | some .raw => .error .useRaw
  | some (.obj e) => .ok (e, if trk then s.set i (.obj none) else s)

/-! ## static_vector<T,N> -/

/-- `_data[N]` + `m_size` -/
structure SVec where
  slots : Slots
  size : Nat
deriving DecidableEq, Repr

/-- storage of a freshly placed object: N raw slots -/
def rawStore (N : Nat) : Slots := List.replicate N .raw

/-- `static_vector() { memset(_data, 0, sizeof(_data)); }` — bytes, no objects -/
def defaultCtor (N : Nat) : SVec × Tr := (⟨rawStore N, 0⟩, [])

/-- `for (pos = p; pos < p + k; ++pos) reinterpret_cast<T*>(&_data[pos])->~T();` -/
def destroyLoop : (k pos : Nat) → Slots → Except Fault (Slots × Tr)
  | 0, _, s => .ok (s, [])
  | k + 1, pos, s => do
      let s ← destroy s pos
      let (s, tr) ← destroyLoop k (pos + 1) s
      pure (s, ⟨false, .dtor, pos⟩ :: tr)

/-- `for (i = p; i < p + k; ++i) new (&_data[i]) T{};` -/
def valueInitLoop : (k pos : Nat) → Slots → Except Fault (Slots × Tr)
  | 0, _, s => .ok (s, [])
  | k + 1, pos, s => do
      let s ← construct s pos (some 0)
      let (s, tr) ← valueInitLoop k (pos + 1) s
      pure (s, ⟨false, .ctor, pos⟩ :: tr)

/-- `for (pos = 0; pos < m_size; ++pos) new (&_data[pos]) T(other[pos]);` -/
def copyLoop (src : Slots) : (k pos : Nat) → Slots → Except Fault (Slots × Tr)
  | 0, _, d => .ok (d, [])
  | k + 1, pos, d => do
      let e ← readObj src pos
      let d ← construct d pos e
      let (d, tr) ← copyLoop src k (pos + 1) d
      pure (d, ⟨false, .ctor, pos⟩ :: tr)

/-- `for (pos = 0; pos < m_size; ++pos) new (&_data[pos]) T(std::move(other[pos]));`
    returns (this->_data, other._data, events) -/
def moveLoop (trk : Bool) : (k pos : Nat) → (d src : Slots) → Except Fault (Slots × Slots × Tr)
  | 0, _, d, s => .ok (d, s, [])
  | k + 1, pos, d, s => do
      let (e, s) ← moveOut trk s pos
      let d ← construct d pos e
      let (d, s, tr) ← moveLoop trk k (pos + 1) d s
      pure (d, s, ⟨true, .mv, pos⟩ :: ⟨false, .ctor, pos⟩ :: tr)

/-- `void clear()` (repaired): destroys the elements, then `m_size = 0` -/
def clear (v : SVec) : Except Fault (SVec × Tr) := do
  let (s, tr) ← destroyLoop v.size 0 v.slots
  pure (⟨s, 0⟩, tr)

/-- `clear()` as it was: `m_size = 0;` only -/
def clearOrig (v : SVec) : Except Fault (SVec × Tr) := .ok (⟨v.slots, 0⟩, [])

/-- `~static_vector()` -/
def destructor (v : SVec) : Except Fault (SVec × Tr) := do
  let (s, tr) ← destroyLoop v.size 0 v.slots
  pure (⟨s, 0⟩, tr)

/-- `static_vector(const static_vector &other)` into fresh storage -/
def copyCtor (N : Nat) (other : SVec) : Except Fault (SVec × Tr) := do
  let (d, tr) ← copyLoop other.slots other.size 0 (rawStore N)
  pure (⟨d, other.size⟩, tr)

/-- `static_vector(static_vector &&other)`: container/ ends with `other.clear()`,
    std_portable.h leaves `other` as it is (its elements moved-from) -/
def moveCtor (port trk : Bool) (N : Nat) (other : SVec) : Except Fault (SVec × SVec × Tr) := do
  let (d, s, tr) ← moveLoop trk other.size 0 (rawStore N) other.slots
  if port then
    pure (⟨d, other.size⟩, ⟨s, other.size⟩, tr)
  else do
    let (o, tr2) ← clear ⟨s, other.size⟩
    pure (⟨d, other.size⟩, o, tr ++ tr2.map Ev.flip)

def moveCtorOrig (port trk : Bool) (N : Nat) (other : SVec) : Except Fault (SVec × SVec × Tr) := do
  let (d, s, tr) ← moveLoop trk other.size 0 (rawStore N) other.slots
  if port then
    pure (⟨d, other.size⟩, ⟨s, other.size⟩, tr)
  else do
    let (o, tr2) ← clearOrig ⟨s, other.size⟩
    pure (⟨d, other.size⟩, o, tr ++ tr2.map Ev.flip)

/-- `operator=(const static_vector &other)` (repaired; `this != &other`, the
    self-assignment guard is in `step`): clear(); m_size = other.m_size; copy loop -/
def assignCopy (v other : SVec) : Except Fault (SVec × Tr) := do
  let (v, tr1) ← clear v
  let (d, tr2) ← copyLoop other.slots other.size 0 v.slots
  pure (⟨d, other.size⟩, tr1 ++ tr2)

def assignCopyOrig (v other : SVec) : Except Fault (SVec × Tr) := do
  let (d, tr2) ← copyLoop other.slots other.size 0 v.slots
  pure (⟨d, other.size⟩, tr2)

/-- `operator=(static_vector &&other)` (repaired): clear(); m_size = other.m_size;
    move loop; other.clear() -/
def assignMove (trk : Bool) (v other : SVec) : Except Fault (SVec × SVec × Tr) := do
  let (v, tr1) ← clear v
  let (d, s, tr2) ← moveLoop trk other.size 0 v.slots other.slots
  let (o, tr3) ← clear ⟨s, other.size⟩
  pure (⟨d, other.size⟩, o, tr1 ++ tr2 ++ tr3.map Ev.flip)

/-- as it was: no clear(), then `other.clear()` (container/) / `other.m_size = 0` (portable),
    both of which only reset the count -/
def assignMoveOrig (trk : Bool) (v other : SVec) : Except Fault (SVec × SVec × Tr) := do
  let (d, s, tr2) ← moveLoop trk other.size 0 v.slots other.slots
  pure (⟨d, other.size⟩, ⟨s, 0⟩, tr2)

/-- `push_back(const T &obj)` -/
def pushBack (N : Nat) (v : SVec) (x : Nat) : Except Fault (SVec × Tr) :=
  if v.size ≥ N then .ok (v, [])
  else do
    let s ← construct v.slots v.size (some x)
    pure (⟨s, v.size + 1⟩, [⟨false, .ctor, v.size⟩])

/-- `emplace_back(Args&&...)` with one `int` argument -/
def emplaceBack (N : Nat) (v : SVec) (x : Nat) : Except Fault (SVec × Tr) :=
  if v.size ≥ N then .ok (v, [])
  else do
    let s ← construct v.slots v.size (some x)
    pure (⟨s, v.size + 1⟩, [⟨false, .ctor, v.size⟩])

/-- `template <class It> static_vector(It b, It e)`: `for (; b != e; ++b) push_back(*b);` -/
def rangeLoop (N : Nat) : List Nat → SVec → Except Fault (SVec × Tr)
  | [], v => .ok (v, [])
  | x :: xs, v => do
      let (v, t1) ← pushBack N v x
      let (v, t2) ← rangeLoop N xs v
      pure (v, t1 ++ t2)

def rangeCtor (N : Nat) (xs : List Nat) : Except Fault (SVec × Tr) :=
  rangeLoop N xs ⟨rawStore N, 0⟩

/-- `static_vector(const std::initializer_list<T> &lst)` (repaired):
    `for (auto &obj : lst) { if (m_size >= N) break; new (&_data[m_size]) T(obj); ++m_size; }` -/
def ilLoop (N : Nat) : List Nat → SVec → Except Fault (SVec × Tr)
  | [], v => .ok (v, [])
  | x :: xs, v =>
      if v.size ≥ N then .ok (v, [])
      else do
        let s ← construct v.slots v.size (some x)
        let (v', tr) ← ilLoop N xs ⟨s, v.size + 1⟩
        pure (v', ⟨false, .ctor, v.size⟩ :: tr)

def ilCtor (N : Nat) (xs : List Nat) : Except Fault (SVec × Tr) :=
  ilLoop N xs ⟨rawStore N, 0⟩

/-- as it was: no capacity test -/
def ilLoopOrig : List Nat → SVec → Except Fault (SVec × Tr)
  | [], v => .ok (v, [])
  | x :: xs, v => do
      let s ← construct v.slots v.size (some x)
      let (v', tr) ← ilLoopOrig xs ⟨s, v.size + 1⟩
      pure (v', ⟨false, .ctor, v.size⟩ :: tr)

def ilCtorOrig (N : Nat) (xs : List Nat) : Except Fault (SVec × Tr) :=
  ilLoopOrig xs ⟨rawStore N, 0⟩

/-- `resize(size_t newsize)` (repaired): clamp; value-initialise [m_size, newsize);
    destroy [newsize, m_size); m_size = newsize -/
def resize (N : Nat) (v : SVec) (newsize : Nat) : Except Fault (SVec × Tr) := do
  let newsize := if newsize ≥ N then N else newsize
  let (s, tr1) ← valueInitLoop (newsize - v.size) v.size v.slots
  let (s, tr2) ← destroyLoop (v.size - newsize) newsize s
  pure (⟨s, newsize⟩, tr1 ++ tr2)

def resizeOrig (N : Nat) (v : SVec) (newsize : Nat) : Except Fault (SVec × Tr) := do
  let newsize := if newsize ≥ N then N else newsize
  let (s, tr1) ← valueInitLoop (newsize - v.size) v.size v.slots
  pure (⟨s, newsize⟩, tr1)

/-- `std::move(first, last, d_first)` of libstdc++ inside one array, element by
    element from the front: `*d = std::move(*s)` -/
def shiftLoop (trk : Bool) : (k src dst : Nat) → Slots → Except Fault (Slots × Tr)
  | 0, _, _, s => .ok (s, [])
  | k + 1, src, dst, s => do
      let (e, s) ← moveOut trk s src
      let s ← assign s dst e
      let (s, tr) ← shiftLoop trk k (src + 1) (dst + 1) s
      pure (s, ⟨false, .mv, src⟩ :: ⟨false, .asg, dst⟩ :: tr)

/-- `erase(iterator first, iterator last)` (repaired), `first = begin()+i`, `last = begin()+j`:
      if (first == last) return;
      iterator newend = std::move(last, end(), first);
      for (iterator it = newend; it != end(); ++it) igris::destructor(it);
      m_size -= sz;                                                         -/
def erase (trk : Bool) (v : SVec) (i j : Nat) : Except Fault (SVec × Tr) :=
  if i = j then .ok (v, [])
  else do
    let sz := j - i
    let (s, tr1) ← shiftLoop trk (v.size - j) j i v.slots
    let (s, tr2) ← destroyLoop sz (v.size - sz) s
    pure (⟨s, v.size - sz⟩, tr1 ++ tr2)

/-- as it was: destroy [first,last), then move-assign into the destroyed
    slots, the moved-from tail is dropped without destruction -/
def eraseOrig (trk : Bool) (v : SVec) (i j : Nat) : Except Fault (SVec × Tr) := do
  let sz := j - i
  let (s, tr1) ← destroyLoop sz i v.slots
  let (s, tr2) ← shiftLoop trk (v.size - j) j i s
  pure (⟨s, v.size - sz⟩, tr1 ++ tr2)

/-! ### what the API shows -/

def slotElem : Slot → Elem
  | .raw => none
  | .obj e => e

/-- `v[0] … v[size()-1]` -/
def SVec.contents (v : SVec) : List Elem := (v.slots.take v.size).map slotElem

/-- `room()` : `N - m_size` in `size_t` — never wraps when `size ≤ N` -/
def SVec.room (N : Nat) (v : SVec) : Nat := N - v.size

/-! ## a machine of K container objects (what the histories range over) -/

structure Cfg where
  N : Nat
  K : Nat
  port : Bool
  trk : Bool
deriving Repr

inductive Op where
  | new (r : Nat)
  | copy (r s : Nat)
  | move (r s : Nat)
  | range (r : Nat) (xs : List Nat)
  | il (r : Nat) (xs : List Nat)
  | acopy (r s : Nat)
  | amove (r s : Nat)
  | push (r x : Nat)
  | emplace (r x : Nat)
  | resize (r n : Nat)
  | erase (r i j : Nat)
  | clear (r : Nat)
  | del (r : Nat)
  | finish
deriving Repr

/-- event with the register it happened in -/
structure GEv where
  reg : Nat
  k : EvK
  i : Nat
deriving DecidableEq, Repr

def glob (r s : Nat) (tr : Tr) : List GEv := tr.map fun e => ⟨if e.other then s else r, e.k, e.i⟩

def countK (k : EvK) (tr : List GEv) : Nat := (tr.filter fun e => e.k = k).length

/-- register file: `none` = no object there -/
structure Mach where
  regs : Nat → Option SVec
  nctor : Nat
  ndtor : Nat

def setReg (f : Nat → Option SVec) (r : Nat) (x : Option SVec) : Nat → Option SVec :=
  fun q => if q = r then x else f q

def Mach.init : Mach := ⟨fun _ => none, 0, 0⟩

/-- `none` = the op is outside the contract (no such object / object already
    there / operation missing in this twin / erase range not inside [0,size]);
    it is skipped, the state is unchanged -/
abbrev Res := Option (List GEv)

def Mach.log (m : Mach) (regs : Nat → Option SVec) (ev : List GEv) : Mach × Res :=
  (⟨regs, m.nctor + countK .ctor ev, m.ndtor + countK .dtor ev⟩, some ev)

/-- destroy every object in registers `k-1 … 0` (end of a case) -/
def finishLoop : (k : Nat) → Mach → List GEv → Except Fault (Mach × List GEv)
  | 0, m, acc => .ok (m, acc)
  | k + 1, m, acc =>
      match m.regs k with
      | none => finishLoop k m acc
      | some v => do
          let (_, tr) ← destructor v
          let ev := glob k k tr
          finishLoop k ⟨setReg m.regs k none, m.nctor + countK .ctor ev, m.ndtor + countK .dtor ev⟩ (acc ++ ev)

def step (c : Cfg) (m : Mach) : Op → Except Fault (Mach × Res)
  | .new r =>
      match decide (r < c.K), m.regs r with
      | true, none =>
          let (v, tr) := defaultCtor c.N
          .ok (m.log (setReg m.regs r (some v)) (glob r r tr))
      | _, _ => .ok (m, none)
  | .copy r s =>
      match decide (r < c.K ∧ s < c.K), m.regs r, m.regs s with
      | true, none, some o => do
          let (v, tr) ← copyCtor c.N o
          pure (m.log (setReg m.regs r (some v)) (glob r s tr))
      | _, _, _ => .ok (m, none)
  | .move r s =>
      match decide (r < c.K ∧ s < c.K), m.regs r, m.regs s with
      | true, none, some o => do
          let (v, o', tr) ← moveCtor c.port c.trk c.N o
          pure (m.log (setReg (setReg m.regs s (some o')) r (some v)) (glob r s tr))
      | _, _, _ => .ok (m, none)
  | .range r xs =>
      match decide (r < c.K ∧ c.port = false), m.regs r with
      | true, none => do
          let (v, tr) ← rangeCtor c.N xs
          pure (m.log (setReg m.regs r (some v)) (glob r r tr))
      | _, _ => .ok (m, none)
  | .il r xs =>
      match decide (r < c.K ∧ c.port = false), m.regs r with
      | true, none => do
          let (v, tr) ← ilCtor c.N xs
          pure (m.log (setReg m.regs r (some v)) (glob r r tr))
      | _, _ => .ok (m, none)
  | .acopy r s =>
      match decide (r < c.K ∧ s < c.K), m.regs r, m.regs s with
      | true, some v, some o =>
          -- `if (this == &other) return *this;`
          if r = s then .ok (m.log m.regs [])
          else do
            let (v', tr) ← assignCopy v o
            pure (m.log (setReg m.regs r (some v')) (glob r s tr))
      | _, _, _ => .ok (m, none)
  | .amove r s =>
      match decide (r < c.K ∧ s < c.K), m.regs r, m.regs s with
      | true, some v, some o =>
          if r = s then .ok (m.log m.regs [])
          else do
            let (v', o', tr) ← assignMove c.trk v o
            pure (m.log (setReg (setReg m.regs s (some o')) r (some v')) (glob r s tr))
      | _, _, _ => .ok (m, none)
  | .push r x =>
      match decide (r < c.K), m.regs r with
      | true, some v => do
          let (v', tr) ← pushBack c.N v x
          pure (m.log (setReg m.regs r (some v')) (glob r r tr))
      | _, _ => .ok (m, none)
  | .emplace r x =>
      match decide (r < c.K), m.regs r with
      | true, some v => do
          let (v', tr) ← emplaceBack c.N v x
          pure (m.log (setReg m.regs r (some v')) (glob r r tr))
      | _, _ => .ok (m, none)
  | .resize r n =>
      match decide (r < c.K), m.regs r with
      | true, some v => do
          let (v', tr) ← resize c.N v n
          pure (m.log (setReg m.regs r (some v')) (glob r r tr))
      | _, _ => .ok (m, none)
  | .erase r i j =>
      match decide (r < c.K ∧ c.port = false), m.regs r with
      | true, some v =>
          if i ≤ j ∧ j ≤ v.size then do
            let (v', tr) ← erase c.trk v i j
            pure (m.log (setReg m.regs r (some v')) (glob r r tr))
          else .ok (m, none)
      | _, _ => .ok (m, none)
  | .clear r =>
      match decide (r < c.K), m.regs r with
      | true, some v => do
          let (v', tr) ← clear v
          pure (m.log (setReg m.regs r (some v')) (glob r r tr))
      | _, _ => .ok (m, none)
  | .del r =>
      match decide (r < c.K), m.regs r with
      | true, some v => do
          let (_, tr) ← destructor v
          pure (m.log (setReg m.regs r none) (glob r r tr))
      | _, _ => .ok (m, none)
  | .finish => do
      let (m', ev) ← finishLoop c.K m []
      pure (m', some ev)

/-- a history; the first fault ends it -/
def run (c : Cfg) : List Op → Mach → Except Fault Mach
  | [], m => .ok m
  | op :: ops, m => do
      let (m', _) ← step c m op
      run c ops m'

/-! ### the same machine on the code as it was (for the witness theorems) -/

def stepOrig (c : Cfg) (m : Mach) : Op → Except Fault (Mach × Res)
  | .move r s =>
      match decide (r < c.K ∧ s < c.K), m.regs r, m.regs s with
      | true, none, some o => do
          let (v, o', tr) ← moveCtorOrig c.port c.trk c.N o
          pure (m.log (setReg (setReg m.regs s (some o')) r (some v)) (glob r s tr))
      | _, _, _ => .ok (m, none)
  | .il r xs =>
      match decide (r < c.K ∧ c.port = false), m.regs r with
      | true, none => do
          let (v, tr) ← ilCtorOrig c.N xs
          pure (m.log (setReg m.regs r (some v)) (glob r r tr))
      | _, _ => .ok (m, none)
  | .acopy r s =>
      match decide (r < c.K ∧ s < c.K), m.regs r, m.regs s with
      | true, some v, some o => do
          let (v', tr) ← assignCopyOrig v o
          pure (m.log (setReg m.regs r (some v')) (glob r s tr))
      | _, _, _ => .ok (m, none)
  | .amove r s =>
      match decide (r < c.K ∧ s < c.K), m.regs r, m.regs s with
      | true, some v, some o => do
          let (v', o', tr) ← assignMoveOrig c.trk v o
          pure (m.log (setReg (setReg m.regs s (some o')) r (some v')) (glob r s tr))
      | _, _, _ => .ok (m, none)
  | .resize r n =>
      match decide (r < c.K), m.regs r with
      | true, some v => do
          let (v', tr) ← resizeOrig c.N v n
          pure (m.log (setReg m.regs r (some v')) (glob r r tr))
      | _, _ => .ok (m, none)
  | .erase r i j =>
      match decide (r < c.K ∧ c.port = false), m.regs r with
      | true, some v =>
          if i ≤ j ∧ j ≤ v.size then do
            let (v', tr) ← eraseOrig c.trk v i j
            pure (m.log (setReg m.regs r (some v')) (glob r r tr))
          else .ok (m, none)
      | _, _ => .ok (m, none)
  | .clear r =>
      match decide (r < c.K), m.regs r with
      | true, some v => do
          let (v', tr) ← clearOrig v
          pure (m.log (setReg m.regs r (some v')) (glob r r tr))
      | _, _ => .ok (m, none)
  | op => step c m op

def runOrig (c : Cfg) : List Op → Mach → Except Fault Mach
  | [], m => .ok m
  | op :: ops, m => do
      let (m', _) ← stepOrig c m op
      runOrig c ops m'

/-! ## static_string<N> -/

/-- `char data[N + 1]` + `m_size` -/
structure SStr where
  data : List Byte
  size : Nat
deriving DecidableEq, Repr

def rd (d : List Byte) (i : Nat) : Except Fault Byte :=
  match d[i]? with
  | some b => .ok b
  | none => .error .oob

def wr (d : List Byte) (i : Nat) (b : Byte) : Except Fault (List Byte) :=
  if i < d.length then .ok (d.set i b) else .error .oob

/-- `strlen` over the caller's memory `arg`; leaving it is a fault -/
def strlenLoop (arg : List Byte) : (fuel i : Nat) → Except Fault Nat
  | 0, _ => .error .oob
  | f + 1, i => do
      let b ← rd arg i
      if b = 0 then pure i else strlenLoop arg f (i + 1)

def strlen (arg : List Byte) : Except Fault Nat := strlenLoop arg (arg.length + 1) 0

/-- `memcpy(data, src, k)` byte by byte -/
def memcpyLoop (src : List Byte) : (k i : Nat) → List Byte → Except Fault (List Byte)
  | 0, _, d => .ok d
  | k + 1, i, d => do
      let b ← rd src i
      let d ← wr d i b
      memcpyLoop src k (i + 1) d

/-- `static_string() = default;` — `data` keeps whatever the memory held (`junk`) -/
def sDefault (junk : List Byte) : SStr := ⟨junk, 0⟩

/-- `static_string(const char *dat)` (repaired):
    `m_size = strlen(dat); if (m_size > N) m_size = N; memcpy(data, dat, m_size);` -/
def sCtorPtr (N : Nat) (junk arg : List Byte) : Except Fault SStr := do
  let n ← strlen arg
  let n := if n > N then N else n
  let d ← memcpyLoop arg n 0 junk
  pure ⟨d, n⟩

def sCtorPtrOrig (junk arg : List Byte) : Except Fault SStr := do
  let n ← strlen arg
  let d ← memcpyLoop arg n 0 junk
  pure ⟨d, n⟩

/-- `static_string(const char *dat, size_t sz)` (std_portable.h; repaired the same way) -/
def sCtorPtrLen (N : Nat) (junk arg : List Byte) (sz : Nat) : Except Fault SStr := do
  let n := if sz > N then N else sz
  let d ← memcpyLoop arg n 0 junk
  pure ⟨d, n⟩

def sCtorPtrLenOrig (junk arg : List Byte) (sz : Nat) : Except Fault SStr := do
  let d ← memcpyLoop arg sz 0 junk
  pure ⟨d, sz⟩

/-- `push_back(char c)` : `if (m_size >= N) return; data[m_size++] = c;` -/
def sPush (N : Nat) (s : SStr) (c : Byte) : Except Fault SStr :=
  if s.size ≥ N then .ok s
  else do
    let d ← wr s.data s.size c
    pure ⟨d, s.size + 1⟩

/-- `clear()` (std_portable.h) -/
def sClear (s : SStr) : SStr := ⟨s.data, 0⟩

/-- `c_str()`: `data[m_size] = 0; return data;` — the C string the caller reads -/
def sCStr (s : SStr) : Except Fault (SStr × List Byte) := do
  let d ← wr s.data s.size 0
  pure (⟨d, s.size⟩, d.takeWhile (· ≠ 0))

/-- `operator[](pos)` read -/
def sGet (s : SStr) (i : Nat) : Except Fault Byte := rd s.data i

/-- `s[pos] = c` -/
def sSet (s : SStr) (i : Nat) (c : Byte) : Except Fault SStr := do
  let d ← wr s.data i c
  pure ⟨d, s.size⟩

def SStr.contents (s : SStr) : List Byte := s.data.take s.size

/-- `split<VSize,SSize>(delim)` of std_portable.h: the pointer walk
      while (true) { while (ptr != end && *ptr == delim) ptr++;
                     if (ptr == end) break; strt = ptr;
                     while (ptr != end && *ptr != delim) ptr++;
                     outvec.emplace_back(strt, ptr - strt); }
    `skipWhile b` is the inner loop (`b = true`: `*ptr == delim`) -/
def skipLoop (d : List Byte) (delim : Byte) (b : Bool) : (fuel ptr endp : Nat) → Except Fault Nat
  | 0, ptr, _ => .ok ptr
  | f + 1, ptr, endp =>
      if ptr = endp then .ok ptr
      else do
        let c ← rd d ptr
        if decide (c = delim) = b then skipLoop d delim b f (ptr + 1) endp else pure ptr

/-- one token = a `static_string<SS>(strt, len)`; the vector of tokens is a
    `static_vector<static_string<SS>,VS>` filled by `emplace_back` (so: at most
    VS tokens, each cut to SS bytes) -/
def splitLoop (d : List Byte) (delim : Byte) (VS SS : Nat) (junk : List Byte) :
    (fuel ptr endp : Nat) → List SStr → Except Fault (List SStr)
  | 0, _, _, acc => .ok acc
  | f + 1, ptr, endp, acc => do
      let ptr ← skipLoop d delim true (endp - ptr) ptr endp
      if ptr = endp then pure acc
      else do
        let strt := ptr
        let ptr ← skipLoop d delim false (endp - ptr) ptr endp
        let acc ←
          if acc.length ≥ VS then pure acc   -- emplace_back's guard: nothing is constructed
          else do
            let t ← sCtorPtrLen SS junk (d.drop strt) (ptr - strt)
            pure (acc ++ [t])
        splitLoop d delim VS SS junk f ptr endp acc

def sSplit (s : SStr) (delim : Byte) (VS SS : Nat) (junk : List Byte) : Except Fault (List SStr) :=
  splitLoop s.data delim VS SS junk (s.size + 1) 0 s.size []

/-! ### string machine -/

inductive SOp where
  | new (r : Nat)
  | ptr (r : Nat) (arg : List Byte)            -- arg = the caller's bytes, terminator appended by the driver
  | ptrlen (r : Nat) (arg : List Byte) (n : Nat)
  | copy (r s : Nat)
  | push (r : Nat) (c : Byte)
  | add (r : Nat) (c : Byte)                   -- operator+= (std_portable.h)
  | clear (r : Nat)                            -- std_portable.h
  | cstr (r : Nat)
  | get (r i : Nat)
  | set (r i : Nat) (c : Byte)
  | del (r : Nat)
deriving Repr

inductive SOut where
  | bad
  | unit
  | bytes (b : List Byte)
  | byte (b : Byte)
deriving DecidableEq, Repr

structure SCfg where
  N : Nat
  K : Nat
  port : Bool
  junk : List Byte      -- what the memory of a new object holds (length N+1)

abbrev SRegs := Nat → Option SStr

def setSReg (f : SRegs) (r : Nat) (x : Option SStr) : SRegs := fun q => if q = r then x else f q

def sstep (c : SCfg) (m : SRegs) : SOp → Except Fault (SRegs × SOut)
  | .new r =>
      match decide (r < c.K), m r with
      | true, none => .ok (setSReg m r (some (sDefault c.junk)), .unit)
      | _, _ => .ok (m, .bad)
  | .ptr r arg =>
      match decide (r < c.K), m r with
      | true, none => do
          let s ← sCtorPtr c.N c.junk arg
          pure (setSReg m r (some s), .unit)
      | _, _ => .ok (m, .bad)
  | .ptrlen r arg n =>
      match decide (r < c.K ∧ c.port = true ∧ n ≤ arg.length), m r with
      | true, none => do
          let s ← sCtorPtrLen c.N c.junk arg n
          pure (setSReg m r (some s), .unit)
      | _, _ => .ok (m, .bad)
  | .copy r s =>
      match decide (r < c.K ∧ s < c.K), m r, m s with
      | true, none, some o => .ok (setSReg m r (some o), .unit)   -- implicit memberwise copy
      | _, _, _ => .ok (m, .bad)
  | .push r ch =>
      match decide (r < c.K), m r with
      | true, some s => do
          let s' ← sPush c.N s ch
          pure (setSReg m r (some s'), .unit)
      | _, _ => .ok (m, .bad)
  | .add r ch =>
      match decide (r < c.K ∧ c.port = true), m r with
      | true, some s => do
          let s' ← sPush c.N s ch
          pure (setSReg m r (some s'), .unit)
      | _, _ => .ok (m, .bad)
  | .clear r =>
      match decide (r < c.K ∧ c.port = true), m r with
      | true, some s => .ok (setSReg m r (some (sClear s)), .unit)
      | _, _ => .ok (m, .bad)
  | .cstr r =>
      match decide (r < c.K), m r with
      | true, some s => do
          let (s', out) ← sCStr s
          pure (setSReg m r (some s'), .bytes out)
      | _, _ => .ok (m, .bad)
  | .get r i =>
      match decide (r < c.K), m r with
      | true, some s =>
          if i < s.size then do
            let b ← sGet s i
            pure (m, .byte b)
          else .ok (m, .bad)
      | _, _ => .ok (m, .bad)
  | .set r i ch =>
      match decide (r < c.K), m r with
      | true, some s =>
          if i < s.size then do
            let s' ← sSet s i ch
            pure (setSReg m r (some s'), .unit)
          else .ok (m, .bad)
      | _, _ => .ok (m, .bad)
  | .del r =>
      match decide (r < c.K), m r with
      | true, some _ => .ok (setSReg m r none, .unit)
      | _, _ => .ok (m, .bad)

def srun (c : SCfg) : List SOp → SRegs → Except Fault (SRegs × List SOut)
  | [], m => .ok (m, [])
  | op :: ops, m => do
      let (m', o) ← sstep c m op
      let (m'', os) ← srun c ops m'
      pure (m'', o :: os)


/-! ## unbounded_array<T> (anchored by C14, modelled for C03)

Only its API meaning is needed here: a heap array of exactly `size` elements,
replaced as a whole by `resize` / `operator=`.  No slot model — the element
lifetimes are observed on the real code by the harness ledger. -/

inductive UOp where
  | new (r n : Nat)
  | from (r : Nat) (xs : List Nat)       -- (ptr,len) and initializer-list constructors
  | copy (r s : Nat)
  | move (r s : Nat)
  | assign (r s : Nat)
  | resize (r n : Nat)
  | fill (r x : Nat)
  | set (r i x : Nat)
  | clear (r : Nat)
  | del (r : Nat)
  | finish
deriving Repr

abbrev URegs := Nat → Option (List Nat)

def setU (f : URegs) (r : Nat) (x : Option (List Nat)) : URegs := fun q => if q = r then x else f q

/-- `none` = outside the contract, skipped -/
def ustep (K : Nat) (m : URegs) : UOp → Option URegs
  | .new r n => match decide (r < K), m r with
      | true, none => some (setU m r (some (List.replicate n 0)))
      | _, _ => none
  | .from r xs => match decide (r < K), m r with
      | true, none => some (setU m r (some xs))
      | _, _ => none
  | .copy r s => match decide (r < K ∧ s < K), m r, m s with
      | true, none, some o => some (setU m r (some o))
      | _, _, _ => none
  | .move r s => match decide (r < K ∧ s < K), m r, m s with
      | true, none, some o => some (setU (setU m s (some [])) r (some o))
      | _, _, _ => none
  | .assign r s => match decide (r < K ∧ s < K), m r, m s with
      | true, some _, some o => some (setU m r (some o))
      | _, _, _ => none
  | .resize r n => match decide (r < K), m r with
      | true, some _ => some (setU m r (some (List.replicate n 0)))
      | _, _ => none
  | .fill r x => match decide (r < K), m r with
      | true, some a => some (setU m r (some (a.map fun _ => x)))
      | _, _ => none
  | .set r i x => match decide (r < K), m r with
      | true, some a => if i < a.length then some (setU m r (some (a.set i x))) else none
      | _, _ => none
  | .clear r => match decide (r < K), m r with
      | true, some _ => some (setU m r (some []))
      | _, _ => none
  | .del r => match decide (r < K), m r with
      | true, some _ => some (setU m r none)
      | _, _ => none
  | .finish => some (fun _ => none)

end Igris.C14
