import IgrisModel.C14.Model
import IgrisModel.C14.Access   -- core Lean only: operator[] / front / back
import IgrisModel.C14.Exc      -- core Lean only: the member functions with a throwing element constructor
import IgrisModel.C14.Lemmas   -- core Lean only; for the reference machines `specStep` / `specSStep`
import IgrisModel.C14.Model3   -- core Lean only: w-bit counter machine, writes, erase with a throwing assignment, unbounded_array storage model
import IgrisModel.C14.Model3b  -- core Lean only: both kinds of throw on the w-bit machine, unbounded_array with throwing constructors / allocator
open Igris.Proto Igris.C14

inductive St where
  | none
  | sv (w : Nat) (c : Cfg) (m : Mach)          -- w = bit width of `m_size` (op `width`; 64 until told otherwise)
  | ss (w : Nat) (c : SCfg) (m : SRegs)
  | ua (trk : Bool) (K : Nat) (m : URegsS)     -- unbounded_array on the storage level
  | svH (c : Cfg) (sp : List (Option (List Elem)))   -- capacities ≥ 1000: the reference machine of `sv_history_refines`
  | ssH (c : SCfg) (sp : List (Option (List Byte)))  --   (the slot model is quadratic in N), contents as a digest
  | dead

/-- capacities from here on are run on the reference machines and printed as digests -/
def hugeN : Nat := 1000

def digestOf {α : Type} (f : α → Nat) (xs : List α) : Nat := xs.foldl (fun h x => (h * 31 + f x) % 4294967296) 7

def showVecH (N : Nat) (r : Nat) : Option (List Elem) → String
  | none => s!"{r}:-"
  | some es => s!"{r}:{es.length}/{N - es.length}[#{hexOfNat 8 (digestOf (fun e => match e with | some v => v + 1 | none => 0) es)}]"

/-- the register file of the reference machines is kept as data between two operations -/
def regsOf {α : Type} (l : List (Option α)) : Nat → Option α := fun q => (l[q]?).join
def regsTo {α : Type} (K : Nat) (f : Nat → Option α) : List (Option α) := (List.range K).map f

def showBytesH (b : List Byte) : String := s!"#{hexOfNat 8 (digestOf (fun x => x.toNat + 1) b)}/{b.length}"

def showFault : Fault → String
  | .oob => "fault oob"
  | .ctorOverLive => "fault ctor-over-live"
  | .dtorRaw => "fault dtor-raw"
  | .useRaw => "fault use-raw"

def showElem : Elem → String
  | some v => toString v
  | none => "~"

def showVec (N : Nat) (r : Nat) : Option SVec → String
  | none => s!"{r}:-"
  | some v => s!"{r}:{v.size}/{v.room N}[{",".intercalate (v.contents.map showElem)}]"

def showRegs (c : Cfg) (m : Mach) : String :=
  " ".intercalate ((List.range c.K).map fun r => showVec c.N r (m.regs r))

def kindChar : EvK → String
  | .ctor => "+" | .dtor => "-" | .asg => "=" | .mv => "^"

/-- stable insertion by (register, slot): the order of the events of one slot
    is kept, the interleaving of different slots is not compared -/
def insEv (e : GEv) : List GEv → List GEv
  | [] => [e]
  | x :: xs => if e.reg < x.reg ∨ (e.reg = x.reg ∧ e.i < x.i) then e :: x :: xs else x :: insEv e xs

def sortEvStable (l : List GEv) : List GEv := l.foldl (fun acc e => insEv e acc) []

def showEvents (c : Cfg) (ev : List GEv) : String :=
  if !c.trk then "-" else
  let l := sortEvStable ev
  if l.isEmpty then "-" else " ".intercalate (l.map fun e => s!"{kindChar e.k}{e.reg}.{e.i}")

def nats (l : List String) : Option (List Nat) := l.mapM (·.toNat?)

def parseOp (w : List String) : Option Op :=
  match w with
  | ["new", r] => do pure (.new (← r.toNat?))
  | ["copy", r, s] => do pure (.copy (← r.toNat?) (← s.toNat?))
  | ["move", r, s] => do pure (.move (← r.toNat?) (← s.toNat?))
  | "range" :: r :: xs => do pure (.range (← r.toNat?) (← nats xs))
  | "rangev" :: r :: xs => do pure (.range (← r.toNat?) (← nats xs))   -- std::vector<T>::const_iterator
  | "ranges" :: r :: xs => do pure (.range (← r.toNat?) (← nats xs))   -- begin()/end() of a static_vector with a larger N
  | "il" :: r :: xs => do pure (.il (← r.toNat?) (← nats xs))
  | ["acopy", r, s] => do pure (.acopy (← r.toNat?) (← s.toNat?))
  | ["amove", r, s] => do pure (.amove (← r.toNat?) (← s.toNat?))
  | ["push", r, x] => do pure (.push (← r.toNat?) (← x.toNat?))
  | ["emplace", r, x] => do pure (.emplace (← r.toNat?) (← x.toNat?))
  | ["resize", r, n] => do pure (.resize (← r.toNat?) (← n.toNat?))
  | ["erase", r, i, j] => do pure (.erase (← r.toNat?) (← i.toNat?) (← j.toNat?))
  | ["clear", r] => do pure (.clear (← r.toNat?))
  | ["del", r] => do pure (.del (← r.toNat?))
  | ["finish"] => pure .finish
  | _ => none

def byte? (s : String) : Option Byte := do
  let l ← parseBytes? s
  match l with
  | [b] => pure b
  | _ => none

def parseSOp (w : List String) : Option SOp :=
  match w with
  | ["snew", r] => do pure (.new (← r.toNat?))
  | ["sptr", r, h] => do pure (.ptr (← r.toNat?) ((← parseBytes? h) ++ [0]))
  | ["sptrlen", r, h, n] => do pure (.ptrlen (← r.toNat?) (← parseBytes? h) (← n.toNat?))
  | ["scopy", r, s] => do pure (.copy (← r.toNat?) (← s.toNat?))
  | ["spush", r, c] => do pure (.push (← r.toNat?) (← byte? c))
  | ["sadd", r, c] => do pure (.add (← r.toNat?) (← byte? c))
  | ["sclear", r] => do pure (.clear (← r.toNat?))
  | ["scstr", r] => do pure (.cstr (← r.toNat?))
  | ["sget", r, i] => do pure (.get (← r.toNat?) (← i.toNat?))
  | ["sset", r, i, c] => do pure (.set (← r.toNat?) (← i.toNat?) (← byte? c))
  | ["ssetv", r, i, c, _] => do pure (.set (← r.toNat?) (← i.toNat?) (← byte? c))   -- through data() / begin()
  | ["sdel", r] => do pure (.del (← r.toNat?))
  | _ => none

def showStr (N : Nat) (r : Nat) : Option SStr → String
  | none => s!"{r}:-"
  | some s => s!"{r}:{s.size}/{N - s.size}:{bytesHex s.contents}"

def showSRegs (c : SCfg) (m : SRegs) : String :=
  " ".intercalate ((List.range c.K).map fun r => showStr c.N r (m r))

def showSOut : SOut → String
  | .bad => "bad"
  | .unit => "-"
  | .bytes b => bytesHex b
  | .byte b => byteHex b

def parseUOp (w : List String) : Option UOp :=
  match w with
  | ["unew", r, n] => do pure (.new (← r.toNat?) (← n.toNat?))
  | "ufrom" :: r :: xs => do pure (.from (← r.toNat?) (← nats xs))
  | "uil" :: r :: xs => do pure (.from (← r.toNat?) (← nats xs))
  | ["ucopy", r, s] => do pure (.copy (← r.toNat?) (← s.toNat?))
  | ["umove", r, s] => do pure (.move (← r.toNat?) (← s.toNat?))
  | ["uassign", r, s] => do pure (.assign (← r.toNat?) (← s.toNat?))
  | ["uresize", r, n] => do pure (.resize (← r.toNat?) (← n.toNat?))
  | ["ufill", r, x] => do pure (.fill (← r.toNat?) (← x.toNat?))
  | ["uset", r, i, x] => do pure (.set (← r.toNat?) (← i.toNat?) (← x.toNat?))
  | ["uclear", r] => do pure (.clear (← r.toNat?))
  | ["udel", r] => do pure (.del (← r.toNat?))
  | ["finish"] => pure .finish
  | _ => none

def showURegs (K : Nat) (m : URegsS) : String :=
  " ".intercalate ((List.range K).map fun r =>
    match m r with
    | none => s!"{r}:-"
    | some a => s!"{r}:{a.size}[{",".intercalate (a.contents.map showElem)}]")

/-- live objects = occupied slots of all blocks -/
def liveU (K : Nat) (m : URegsS) : Nat :=
  ((List.range K).map fun r => match m r with
    | none => 0
    | some a => (a.slots.filter fun s => match s with | .obj _ => true | .raw => false).length).sum

/-- the write operations (`step3`) -/
def parseOp3 (w : List String) : Option Op3 :=
  match w with
  | "wat" :: r :: i :: x :: _ => do pure (.setAt (← r.toNat?) (← i.toNat?) (← x.toNat?))
  | ["wfront", r, x] => do pure (.setFront (← r.toNat?) (← x.toNat?))
  | ["wback", r, x] => do pure (.setBack (← r.toNat?) (← x.toNat?))
  | ["wfill", r, x] => do pure (.fill (← r.toNat?) (← x.toNat?))
  | ["take", r, i] => do pure (.take (← r.toNat?) (← i.toNat?))
  | _ => none

def junkOf (N : Nat) : List Byte := List.replicate (N + 1) 0xAA

def stepLine (st : St) (line : String) : St × String :=
  let w := words line
  match w with
  | ["reset", "sv", tw, ty, n, k, _] =>
      match n.toNat?, k.toNat? with
      | some n, some k =>
          if n ≥ hugeN then (.svH ⟨n, k, tw == "p", ty == "trk"⟩ [], "ok")
          else (.sv 64 ⟨n, k, tw == "p", ty == "trk"⟩ Mach.init, "ok")
      | _, _ => (.none, "bad-reset")
  | ["reset", "ss", tw, n, k, _] =>
      match n.toNat?, k.toNat? with
      | some n, some k =>
          if n ≥ hugeN then (.ssH ⟨n, k, tw == "p", []⟩ [], "ok")
          else (.ss 64 ⟨n, k, tw == "p", junkOf n⟩ (fun _ => none), "ok")
      | _, _ => (.none, "bad-reset")
  | ["reset", "ua", ty, k] =>
      match k.toNat? with
      | some k => (.ua (ty == "trk") k (fun _ => none), "ok")
      | none => (.none, "bad-reset")
  | "reset" :: _ => (.none, "ok")
  | ["premain"] =>
      -- the history the harness's init_priority(101) objects ran before main(), on the model
      let one (port : Bool) : String :=
        let c : Cfg := ⟨3, 2, port, false⟩
        let v := match runW 64 c [.new 0, .push 0 1, .push 0 2, .push 0 3, .push 0 4, .copy 1 0, .resize 0 1] Mach.init with
          | .ok m => " ".intercalate ((List.range 2).map fun r => match m.regs r with
              | some v => s!"{v.size}/{v.room 3}[{",".intercalate (v.contents.map showElem)}]"
              | none => "-")
          | .error f => showFault f
        let s := match (do
            let s ← sCtorPtrW 64 3 (junkOf 3) [0x61, 0x62, 0x63, 0x64, 0x65, 0x66, 0]
            let s ← sPushW 64 3 s 0x78
            let (s, out) ← sCStr s
            pure (s.size, out)) with
          | .ok (n, out) => s!"{n}:{String.mk (out.map fun (b : Byte) => Char.ofNat b.toNat)}"
          | .error f => showFault f
        s!"{v} {s}"
      (st, s!"c={one false} p={one true}")
  | _ =>
    match st with
    | .none => (.none, "no-case")
    | .dead => (.dead, "after-fault")
    | .sv wd c m =>
        match w with
        | ["width", x] =>
            -- the harness read `8 * sizeof(m_size)` out of the compiled code: from here on the counter has that width
            match x.toNat? with
            | some x => (.sv x c m, s!"w={x} slots={(rawStore c.N).length}")
            | none => (st, "bad-op")
        | "thra" :: a :: "erase" :: rest =>
            -- `thra a erase r i j`: the (a+1)-th element move-assignment inside erase throws (w-bit machine `stepTW`)
            match a.toNat?, nats rest with
            | some a, some [r, i, j] =>
                if !c.trk || c.port then (st, "bad")
                else
                match stepTW wd c m (.erase r i j) 0 a with
                | .error f => (.dead, showFault f)
                | .ok (m', none, _) => (.sv wd c m', "bad")
                | .ok (m', some ev, t) =>
                    (.sv wd c m', s!"{showRegs c m'} | {showEvents c ev} | {toString (m'.nctor - m'.ndtor)} | {if t then "threw" else "done"}")
            | _, _ => (st, "bad-op")
        | "thr" :: k :: rest =>
            -- `thr k <op>`: the (k+1)-th element construction of the operation throws (no assignment does)
            match k.toNat?, parseOp rest with
            | some k, some op =>
                if !c.trk then (st, "bad")   -- `int` has no constructor that could throw
                else
                match stepTW wd c m op k (2 ^ 64) with
                | .error f => (.dead, showFault f)
                | .ok (m', none, _) => (.sv wd c m', "bad")
                | .ok (m', some ev, t) =>
                    (.sv wd c m', s!"{showRegs c m'} | {showEvents c ev} | {toString (m'.nctor - m'.ndtor)} | {if t then "threw" else "done"}")
            | _, _ => (st, "bad-op")
        | ["at", r, i] =>
            match r.toNat?, i.toNat? with
            | some r, some i =>
                match decide (r < c.K), m.regs r with
                | true, some v =>
                    if i < v.size then
                      match v.at i with
                      | .ok e => (st, showElem e)
                      | .error f => (.dead, showFault f)
                    else (st, "bad")
                | _, _ => (st, "bad")
            | _, _ => (st, "bad-op")
        | [acc, r] =>
            if acc == "front" || acc == "back" then
              match r.toNat? with
              | some r =>
                  match decide (r < c.K), m.regs r with
                  | true, some v =>
                      if 0 < v.size then
                        match (if acc == "front" then v.front else v.back) with
                        | .ok e => (st, showElem e)
                        | .error f => (.dead, showFault f)
                      else (st, "bad")
                  | _, _ => (st, "bad")
              | none => (st, "bad-op")
            else
            match parseOp w with
            | none => (st, "bad-op")
            | some op =>
              match stepW wd c m op with
              | .error f => (.dead, showFault f)
              | .ok (m', none) => (.sv wd c m', "bad")
              | .ok (m', some ev) => (.sv wd c m', s!"{showRegs c m'} | {showEvents c ev} | {if c.trk then toString (m'.nctor - m'.ndtor) else "-"}")
        | _ =>
        match parseOp3 w with
        | some op3 =>
          match step3 c m op3 with
          | .error f => (.dead, showFault f)
          | .ok (m', none) => (.sv wd c m', "bad")
          | .ok (m', some ev) => (.sv wd c m', s!"{showRegs c m'} | {showEvents c ev} | {if c.trk then toString (m'.nctor - m'.ndtor) else "-"}")
        | none =>
        match parseOp w with
        | none => (st, "bad-op")
        | some op =>
          match stepW wd c m op with
          | .error f => (.dead, showFault f)
          | .ok (m', none) => (.sv wd c m', "bad")
          | .ok (m', some ev) => (.sv wd c m', s!"{showRegs c m'} | {showEvents c ev} | {if c.trk then toString (m'.nctor - m'.ndtor) else "-"}")
    | .svH c sp =>
        -- only operations inside the contract are generated for these capacities
        match w with
        | ["width", x] => (st, s!"w={x} slots={c.N}")
        | _ =>
        match parseOp w with
        | none => (st, "bad-op")
        | some op =>
          let sp' := regsTo c.K (specStep c (regsOf sp) op)
          (.svH c sp', s!"{" ".intercalate ((List.range c.K).map fun r => showVecH c.N r ((sp'[r]?).join))} | - | -")
    | .ssH c sp =>
        match w with
        | ["width", x] => (st, s!"w={x} bytes={c.N + 1}")
        | _ =>
        match parseSOp w with
        | none => (st, "bad-op")
        | some op =>
          match specSStep c (regsOf sp) op with
          | (_, .bad) => (st, "bad")
          | (sp', o) =>
            let sp' := regsTo c.K sp'
            let so := match o with
              | .bytes b => showBytesH b
              | o => showSOut o
            let regs := " ".intercalate ((List.range c.K).map fun r =>
              match (sp'[r]?).join with
              | none => s!"{r}:-"
              | some es => s!"{r}:{es.length}/{c.N - es.length}:{showBytesH es}")
            (.ssH c sp', s!"{so} | {regs}")
    | .ua trk K m =>
        -- `uthr k <op>`: the (k+1)-th element construction of the operation throws; `ubad <op>`: its allocation fails
        let thrown (b : Nat) (al : Bool) (rest : List String) : St × String :=
          match parseUOp rest with
          | none => (st, "bad-op")
          | some op =>
            match ustepSX K m op b al with
            | .error f => (.dead, showFault f)
            | .ok none => (st, "bad")
            | .ok (some (m', t)) =>
                (.ua trk K m', s!"{showURegs K m'} | {if trk then toString (liveU K m') else "-"} | {if t then "threw" else "done"}")
        match w with
        | "uthr" :: k :: rest =>
            match k.toNat? with
            | some k => if !trk then (st, "bad") else thrown k true rest
            | none => (st, "bad-op")
        | "ubad" :: rest => thrown (2 ^ 64) false rest
        | _ =>
        match parseUOp w with
        | none => (st, "bad-op")
        | some op =>
          match ustepS K m op with
          | .error f => (.dead, showFault f)
          | .ok none => (st, "bad")
          | .ok (some m') => (.ua trk K m', s!"{showURegs K m'} | {if trk then toString (liveU K m') else "-"}")
    | .ss wd c m =>
        match w with
        | ["width", x] =>
            match x.toNat? with
            | some x => (.ss x c m, s!"w={x} bytes={c.junk.length}")
            | none => (st, "bad-op")
        | ["sgetany", r, i] =>
            -- operator[] at any position <= N: inside data[N+1]; the byte is compared below size() only
            match r.toNat?, i.toNat? with
            | some r, some i =>
                match decide (r < c.K ∧ i ≤ c.N), m r with
                | true, some s =>
                    match sGetAny s i with
                    | .error f => (.dead, showFault f)
                    | .ok b => (st, if i < s.size then byteHex b else "in")
                | _, _ => (st, "bad")
            | _, _ => (st, "bad-op")
        | ["sstoi", r] =>
            -- stoi(static_string) reads through c_str(): the terminator is written, the number is judged by the harness
            match r.toNat? with
            | some r =>
                match decide (r < c.K ∧ c.port = true), m r with
                | true, some s =>
                    match sCStr s with
                    | .error f => (.dead, showFault f)
                    | .ok (s', _) =>
                        let m' := setSReg m r (some s')
                        (.ss wd c m', s!"num | {showSRegs c m'}")
                | _, _ => (st, "bad")
            | none => (st, "bad-op")
        | ["ssplit", r, d, vs, ss] =>
            match r.toNat?, byte? d, vs.toNat?, ss.toNat? with
            | some r, some d, some vs, some ss =>
                match decide (r < c.K ∧ c.port = true), m r with
                | true, some s =>
                    match sSplit s d vs ss (junkOf ss) with
                    | .error f => (.dead, showFault f)
                    | .ok toks => (st, s!"{" ".intercalate (toString toks.length :: toks.map fun t => bytesHex t.contents)} | {showSRegs c m}")
                | _, _ => (st, "bad")
            | _, _, _, _ => (st, "bad-op")
        | _ =>
        match parseSOp w with
        | none => (st, "bad-op")
        | some op =>
          match sstepW wd c m op with
          | .error f => (.dead, showFault f)
          | .ok (m', .bad) => (.ss wd c m', "bad")
          | .ok (m', o) => (.ss wd c m', s!"{showSOut o} | {showSRegs c m'}")

def main : IO Unit := run St.none stepLine
