import IgrisModel.C14.Model
import IgrisModel.C14.Access   -- core Lean only: operator[] / front / back
import IgrisModel.C14.Exc      -- core Lean only: the member functions with a throwing element constructor
import IgrisModel.C14.Lemmas   -- core Lean only; for the reference machines `specStep` / `specSStep`
open Igris.Proto Igris.C14

inductive St where
  | none
  | sv (c : Cfg) (m : Mach)
  | ss (c : SCfg) (m : SRegs)
  | ua (trk : Bool) (K : Nat) (m : URegs)
  | svH (c : Cfg) (sp : List (Option (List Elem)))   -- capacities ≥ 1000: the reference machine of `sv_history_refines`
  | ssH (c : SCfg) (sp : List (Option (List Byte)))  --   (the slot model is quadratic in N), contents as a digest
  | dead

/-- capacities from here on are run on the reference machines and printed as digests -/
def hugeN : Nat := 1000

def digestOf {α : Type} (f : α → Nat) (xs : List α) : Nat := xs.foldl (fun h x => (h * 31 + f x) % 4294967296) 7

def showVecH (N : Nat) (r : Nat) : Option (List Elem) → String
  | none => s!"{r}:-"
  | some es => s!"{r}:{es.length}/{N - es.length}[#{hexOfNat 8 (digestOf (fun e => match e with | some v => v + 1 | none => 0) es)}]"

/-- the register file of the reference machines is kept as data between two operations -/
def regsOf {α : Type} (l : List (Option α)) : Nat → Option α := fun q => (l[q]?).join
def regsTo {α : Type} (K : Nat) (f : Nat → Option α) : List (Option α) := (List.range K).map f

def showBytesH (b : List Byte) : String := s!"#{hexOfNat 8 (digestOf (fun x => x.toNat + 1) b)}/{b.length}"

def showFault : Fault → String
  | .oob => "fault oob"
  | .ctorOverLive => "fault ctor-over-live"
  | .dtorRaw => "fault dtor-raw"
  | .useRaw => "fault use-raw"

def showElem : Elem → String
  | some v => toString v
  | none => "~"

def showVec (N : Nat) (r : Nat) : Option SVec → String
  | none => s!"{r}:-"
  | some v => s!"{r}:{v.size}/{v.room N}[{",".intercalate (v.contents.map showElem)}]"

def showRegs (c : Cfg) (m : Mach) : String :=
  " ".intercalate ((List.range c.K).map fun r => showVec c.N r (m.regs r))

def kindChar : EvK → String
  | .ctor => "+" | .dtor => "-" | .asg => "=" | .mv => "^"

/-- stable insertion by (register, slot): the order of the events of one slot
    is kept, the interleaving of different slots is not compared -/
def insEv (e : GEv) : List GEv → List GEv
  | [] => [e]
  | x :: xs => if e.reg < x.reg ∨ (e.reg = x.reg ∧ e.i < x.i) then e :: x :: xs else x :: insEv e xs

def sortEvStable (l : List GEv) : List GEv := l.foldl (fun acc e => insEv e acc) []

def showEvents (c : Cfg) (ev : List GEv) : String :=
  if !c.trk then "-" else
  let l := sortEvStable ev
  if l.isEmpty then "-" else " ".intercalate (l.map fun e => s!"{kindChar e.k}{e.reg}.{e.i}")

def nats (l : List String) : Option (List Nat) := l.mapM (·.toNat?)

def parseOp (w : List String) : Option Op :=
  match w with
  | ["new", r] => do pure (.new (← r.toNat?))
  | ["copy", r, s] => do pure (.copy (← r.toNat?) (← s.toNat?))
  | ["move", r, s] => do pure (.move (← r.toNat?) (← s.toNat?))
  | "range" :: r :: xs => do pure (.range (← r.toNat?) (← nats xs))
  | "il" :: r :: xs => do pure (.il (← r.toNat?) (← nats xs))
  | ["acopy", r, s] => do pure (.acopy (← r.toNat?) (← s.toNat?))
  | ["amove", r, s] => do pure (.amove (← r.toNat?) (← s.toNat?))
  | ["push", r, x] => do pure (.push (← r.toNat?) (← x.toNat?))
  | ["emplace", r, x] => do pure (.emplace (← r.toNat?) (← x.toNat?))
  | ["resize", r, n] => do pure (.resize (← r.toNat?) (← n.toNat?))
  | ["erase", r, i, j] => do pure (.erase (← r.toNat?) (← i.toNat?) (← j.toNat?))
  | ["clear", r] => do pure (.clear (← r.toNat?))
  | ["del", r] => do pure (.del (← r.toNat?))
  | ["finish"] => pure .finish
  | _ => none

def byte? (s : String) : Option Byte := do
  let l ← parseBytes? s
  match l with
  | [b] => pure b
  | _ => none

def parseSOp (w : List String) : Option SOp :=
  match w with
  | ["snew", r] => do pure (.new (← r.toNat?))
  | ["sptr", r, h] => do pure (.ptr (← r.toNat?) ((← parseBytes? h) ++ [0]))
  | ["sptrlen", r, h, n] => do pure (.ptrlen (← r.toNat?) (← parseBytes? h) (← n.toNat?))
  | ["scopy", r, s] => do pure (.copy (← r.toNat?) (← s.toNat?))
  | ["spush", r, c] => do pure (.push (← r.toNat?) (← byte? c))
  | ["sadd", r, c] => do pure (.add (← r.toNat?) (← byte? c))
  | ["sclear", r] => do pure (.clear (← r.toNat?))
  | ["scstr", r] => do pure (.cstr (← r.toNat?))
  | ["sget", r, i] => do pure (.get (← r.toNat?) (← i.toNat?))
  | ["sset", r, i, c] => do pure (.set (← r.toNat?) (← i.toNat?) (← byte? c))
  | ["sdel", r] => do pure (.del (← r.toNat?))
  | _ => none

def showStr (N : Nat) (r : Nat) : Option SStr → String
  | none => s!"{r}:-"
  | some s => s!"{r}:{s.size}/{N - s.size}:{bytesHex s.contents}"

def showSRegs (c : SCfg) (m : SRegs) : String :=
  " ".intercalate ((List.range c.K).map fun r => showStr c.N r (m r))

def showSOut : SOut → String
  | .bad => "bad"
  | .unit => "-"
  | .bytes b => bytesHex b
  | .byte b => byteHex b

def parseUOp (w : List String) : Option UOp :=
  match w with
  | ["unew", r, n] => do pure (.new (← r.toNat?) (← n.toNat?))
  | "ufrom" :: r :: xs => do pure (.from (← r.toNat?) (← nats xs))
  | "uil" :: r :: xs => do pure (.from (← r.toNat?) (← nats xs))
  | ["ucopy", r, s] => do pure (.copy (← r.toNat?) (← s.toNat?))
  | ["umove", r, s] => do pure (.move (← r.toNat?) (← s.toNat?))
  | ["uassign", r, s] => do pure (.assign (← r.toNat?) (← s.toNat?))
  | ["uresize", r, n] => do pure (.resize (← r.toNat?) (← n.toNat?))
  | ["ufill", r, x] => do pure (.fill (← r.toNat?) (← x.toNat?))
  | ["uset", r, i, x] => do pure (.set (← r.toNat?) (← i.toNat?) (← x.toNat?))
  | ["uclear", r] => do pure (.clear (← r.toNat?))
  | ["udel", r] => do pure (.del (← r.toNat?))
  | ["finish"] => pure .finish
  | _ => none

def showURegs (K : Nat) (m : URegs) : String :=
  " ".intercalate ((List.range K).map fun r =>
    match m r with
    | none => s!"{r}:-"
    | some a => s!"{r}:{a.length}[{",".intercalate (a.map toString)}]")

def liveU (K : Nat) (m : URegs) : Nat :=
  ((List.range K).map fun r => match m r with | none => 0 | some a => a.length).sum

def junkOf (N : Nat) : List Byte := List.replicate (N + 1) 0xAA

def stepLine (st : St) (line : String) : St × String :=
  let w := words line
  match w with
  | ["reset", "sv", tw, ty, n, k, _] =>
      match n.toNat?, k.toNat? with
      | some n, some k =>
          if n ≥ hugeN then (.svH ⟨n, k, tw == "p", ty == "trk"⟩ [], "ok")
          else (.sv ⟨n, k, tw == "p", ty == "trk"⟩ Mach.init, "ok")
      | _, _ => (.none, "bad-reset")
  | ["reset", "ss", tw, n, k, _] =>
      match n.toNat?, k.toNat? with
      | some n, some k =>
          if n ≥ hugeN then (.ssH ⟨n, k, tw == "p", []⟩ [], "ok")
          else (.ss ⟨n, k, tw == "p", junkOf n⟩ (fun _ => none), "ok")
      | _, _ => (.none, "bad-reset")
  | ["reset", "ua", ty, k] =>
      match k.toNat? with
      | some k => (.ua (ty == "trk") k (fun _ => none), "ok")
      | none => (.none, "bad-reset")
  | "reset" :: _ => (.none, "ok")
  | _ =>
    match st with
    | .none => (.none, "no-case")
    | .dead => (.dead, "after-fault")
    | .sv c m =>
        match w with
        | "thr" :: k :: rest =>
            -- `thr k <op>`: the (k+1)-th element construction of the operation throws
            match k.toNat?, parseOp rest with
            | some k, some op =>
                if !c.trk then (st, "bad")   -- `int` has no constructor that could throw
                else
                match stepX c m op k with
                | .error f => (.dead, showFault f)
                | .ok (m', none, _) => (.sv c m', "bad")
                | .ok (m', some ev, t) =>
                    (.sv c m', s!"{showRegs c m'} | {showEvents c ev} | {toString (m'.nctor - m'.ndtor)} | {if t then "threw" else "done"}")
            | _, _ => (st, "bad-op")
        | ["at", r, i] =>
            match r.toNat?, i.toNat? with
            | some r, some i =>
                match decide (r < c.K), m.regs r with
                | true, some v =>
                    if i < v.size then
                      match v.at i with
                      | .ok e => (st, showElem e)
                      | .error f => (.dead, showFault f)
                    else (st, "bad")
                | _, _ => (st, "bad")
            | _, _ => (st, "bad-op")
        | [acc, r] =>
            if acc == "front" || acc == "back" then
              match r.toNat? with
              | some r =>
                  match decide (r < c.K), m.regs r with
                  | true, some v =>
                      if 0 < v.size then
                        match (if acc == "front" then v.front else v.back) with
                        | .ok e => (st, showElem e)
                        | .error f => (.dead, showFault f)
                      else (st, "bad")
                  | _, _ => (st, "bad")
              | none => (st, "bad-op")
            else
            match parseOp w with
            | none => (st, "bad-op")
            | some op =>
              match step c m op with
              | .error f => (.dead, showFault f)
              | .ok (m', none) => (.sv c m', "bad")
              | .ok (m', some ev) => (.sv c m', s!"{showRegs c m'} | {showEvents c ev} | {if c.trk then toString (m'.nctor - m'.ndtor) else "-"}")
        | _ =>
        match parseOp w with
        | none => (st, "bad-op")
        | some op =>
          match step c m op with
          | .error f => (.dead, showFault f)
          | .ok (m', none) => (.sv c m', "bad")
          | .ok (m', some ev) => (.sv c m', s!"{showRegs c m'} | {showEvents c ev} | {if c.trk then toString (m'.nctor - m'.ndtor) else "-"}")
    | .svH c sp =>
        -- only operations inside the contract are generated for these capacities
        match parseOp w with
        | none => (st, "bad-op")
        | some op =>
          let sp' := regsTo c.K (specStep c (regsOf sp) op)
          (.svH c sp', s!"{" ".intercalate ((List.range c.K).map fun r => showVecH c.N r ((sp'[r]?).join))} | - | -")
    | .ssH c sp =>
        match parseSOp w with
        | none => (st, "bad-op")
        | some op =>
          match specSStep c (regsOf sp) op with
          | (_, .bad) => (st, "bad")
          | (sp', o) =>
            let sp' := regsTo c.K sp'
            let so := match o with
              | .bytes b => showBytesH b
              | o => showSOut o
            let regs := " ".intercalate ((List.range c.K).map fun r =>
              match (sp'[r]?).join with
              | none => s!"{r}:-"
              | some es => s!"{r}:{es.length}/{c.N - es.length}:{showBytesH es}")
            (.ssH c sp', s!"{so} | {regs}")
    | .ua trk K m =>
        match parseUOp w with
        | none => (st, "bad-op")
        | some op =>
          match ustep K m op with
          | none => (st, "bad")
          | some m' => (.ua trk K m', s!"{showURegs K m'} | {if trk then toString (liveU K m') else "-"}")
    | .ss c m =>
        match w with
        | ["ssplit", r, d, vs, ss] =>
            match r.toNat?, byte? d, vs.toNat?, ss.toNat? with
            | some r, some d, some vs, some ss =>
                match decide (r < c.K ∧ c.port = true), m r with
                | true, some s =>
                    match sSplit s d vs ss (junkOf ss) with
                    | .error f => (.dead, showFault f)
                    | .ok toks => (st, s!"{" ".intercalate (toString toks.length :: toks.map fun t => bytesHex t.contents)} | {showSRegs c m}")
                | _, _ => (st, "bad")
            | _, _, _, _ => (st, "bad-op")
        | _ =>
        match parseSOp w with
        | none => (st, "bad-op")
        | some op =>
          match sstep c m op with
          | .error f => (.dead, showFault f)
          | .ok (m', .bad) => (.ss c m', "bad")
          | .ok (m', o) => (.ss c m', s!"{showSOut o} | {showSRegs c m'}")

def main : IO Unit := run St.none stepLine
