/-
  C14 — the machine of K containers with throwing element constructors
  (`stepX`, `runX` of Exc.lean) against the reference machine with failures.
-/
import IgrisModel.C14.LemmasX

namespace Igris.C14

set_option linter.unusedSimpArgs false
set_option linter.unusedVariables false

/-- reference semantics of one operation whose (b+1)-th element construction
    throws (second component: did it throw).  A constructor that throws leaves no
    object; an assignment / resize keeps the elements it had constructed; a
    push / emplace changes nothing; a throwing move has moved from the first `b`
    elements of its source, which keeps all of them. -/
def specStepX (c : Cfg) (sp : SpecRegs) (op : Op) (b : Nat) : SpecRegs × Bool :=
  match op with
  | .copy r s =>
      match decide (r < c.K ∧ s < c.K), sp r, sp s with
      | true, none, some eo => (setSpec sp r (if b < eo.length then none else some eo), decide (b < eo.length))
      | _, _, _ => (sp, false)
  | .move r s =>
      match decide (r < c.K ∧ s < c.K), sp r, sp s with
      | true, none, some eo =>
          (setSpec (setSpec sp s (some (if b < eo.length then movedPrefix c.trk b eo
                                        else if c.port then movedFrom c.trk eo else [])))
             r (if b < eo.length then none else some eo), decide (b < eo.length))
      | _, _, _ => (sp, false)
  | .range r xs =>
      match decide (r < c.K ∧ c.port = false), sp r with
      | true, none => (setSpec sp r (if b < min xs.length c.N then none else some (specCtor c.N xs)),
                       decide (b < min xs.length c.N))
      | _, _ => (sp, false)
  | .il r xs =>
      match decide (r < c.K ∧ c.port = false), sp r with
      | true, none => (setSpec sp r (if b < min xs.length c.N then none else some (specCtor c.N xs)),
                       decide (b < min xs.length c.N))
      | _, _ => (sp, false)
  | .acopy r s =>
      match decide (r < c.K ∧ s < c.K), sp r, sp s with
      | true, some _, some eo =>
          if r = s then (sp, false) else (setSpec sp r (some (eo.take b)), decide (b < eo.length))
      | _, _, _ => (sp, false)
  | .amove r s =>
      match decide (r < c.K ∧ s < c.K), sp r, sp s with
      | true, some _, some eo =>
          if r = s then (sp, false)
          else (setSpec (setSpec sp s (some (if b < eo.length then movedPrefix c.trk b eo else []))) r
                  (some (eo.take b)), decide (b < eo.length))
      | _, _, _ => (sp, false)
  | .push r x =>
      match decide (r < c.K), sp r with
      | true, some es => (setSpec sp r (some (specPushX c.N es x b).1), (specPushX c.N es x b).2)
      | _, _ => (sp, false)
  | .emplace r x =>
      match decide (r < c.K), sp r with
      | true, some es => (setSpec sp r (some (specPushX c.N es x b).1), (specPushX c.N es x b).2)
      | _, _ => (sp, false)
  | .resize r n =>
      match decide (r < c.K), sp r with
      | true, some es => (setSpec sp r (some (specResizeX c.N es n b).1), (specResizeX c.N es n b).2)
      | _, _ => (sp, false)
  | op => (specStep c sp op, false)

def specRunX (c : Cfg) : List (Op × Nat) → SpecRegs → SpecRegs
  | [], sp => sp
  | (op, b) :: ops, sp => specRunX c ops (specStepX c sp op b).1

theorem szOf_set (sp : SpecRegs) (r : Nat) (x : Option (List Elem)) :
    szOf (setSpec sp r x) r = (match x with | some es => es.length | none => 0) := by
  cases x <;> simp [szOf, setSpec]

/-- the operations that construct nothing -/
theorem stepX_plain {c : Cfg} {m : Mach} {sp : SpecRegs} (h : MInv c m sp) (op : Op) (b : Nat)
    (h1 : stepX c m op b = (do let (m', res) ← step c m op; pure (m', res, false)))
    (h2 : specStepX c sp op b = (specStep c sp op, false)) :
    ∃ m' res, stepX c m op b = .ok (m', res, (specStepX c sp op b).2) ∧ MInv c m' (specStepX c sp op b).1 := by
  obtain ⟨mr, p1, p2⟩ := step_refines h op
  exact ⟨mr.1, mr.2, by rw [h1, h2, p1]; rfl, by rw [h2]; exact p2⟩

theorem stepX_refines {c : Cfg} {m : Mach} {sp : SpecRegs} (h : MInv c m sp) (op : Op) (b : Nat) :
    ∃ m' res, stepX c m op b = .ok (m', res, (specStepX c sp op b).2) ∧ MInv c m' (specStepX c sp op b).1 := by
  cases op with
  | new r => exact stepX_plain h _ b rfl rfl
  | erase r i j => exact stepX_plain h _ b rfl rfl
  | clear r => exact stepX_plain h _ b rfl rfl
  | del r => exact stepX_plain h _ b rfl rfl
  | finish => exact stepX_plain h _ b rfl rfl
  | push r x =>
    by_cases hk : r < c.K
    · have hrel := h.rel r
      cases hm : m.regs r with
      | none =>
        have hs : sp r = none := (rel_none hrel).mp hm
        exact ⟨m, none, by simp [stepX, hk, hm, specStepX, hs], by simpa [specStepX, hk, hs] using h⟩
      | some v =>
        cases hs : sp r with
        | none => rw [hm, hs] at hrel; exact hrel.elim
        | some es =>
          rw [hm, hs] at hrel
          obtain ⟨v', tr, p1, p2, p3, p4⟩ := pushBackX_spec hrel x b
          refine ⟨(m.log (setReg m.regs r (some v')) (glob r r tr)).1, (m.log (setReg m.regs r (some v')) (glob r r tr)).2, ?_, ?_⟩
          · simp [stepX, hk, hm, p1, specStepX, hs, bind, Except.bind, pure, Except.pure]
          · have := minv_set1 h hk (es' := some (specPushX c.N es x b).1) r tr (v' := some v') p2
              (by rw [szOf_set, szOf_some hs]; simp only []; omega)
            simpa [specStepX, hk, hs] using this
    · exact ⟨m, none, by simp [stepX, hk, specStepX], by simpa [specStepX, hk] using h⟩
  | emplace r x =>
    by_cases hk : r < c.K
    · have hrel := h.rel r
      cases hm : m.regs r with
      | none =>
        have hs : sp r = none := (rel_none hrel).mp hm
        exact ⟨m, none, by simp [stepX, hk, hm, specStepX, hs], by simpa [specStepX, hk, hs] using h⟩
      | some v =>
        cases hs : sp r with
        | none => rw [hm, hs] at hrel; exact hrel.elim
        | some es =>
          rw [hm, hs] at hrel
          obtain ⟨v', tr, p1, p2, p3, p4⟩ := pushBackX_spec hrel x b
          refine ⟨(m.log (setReg m.regs r (some v')) (glob r r tr)).1, (m.log (setReg m.regs r (some v')) (glob r r tr)).2, ?_, ?_⟩
          · simp [stepX, hk, hm, p1, specStepX, hs, bind, Except.bind, pure, Except.pure]
          · have := minv_set1 h hk (es' := some (specPushX c.N es x b).1) r tr (v' := some v') p2
              (by rw [szOf_set, szOf_some hs]; simp only []; omega)
            simpa [specStepX, hk, hs] using this
    · exact ⟨m, none, by simp [stepX, hk, specStepX], by simpa [specStepX, hk] using h⟩
  | resize r n =>
    by_cases hk : r < c.K
    · have hrel := h.rel r
      cases hm : m.regs r with
      | none =>
        have hs : sp r = none := (rel_none hrel).mp hm
        exact ⟨m, none, by simp [stepX, hk, hm, specStepX, hs], by simpa [specStepX, hk, hs] using h⟩
      | some v =>
        cases hs : sp r with
        | none => rw [hm, hs] at hrel; exact hrel.elim
        | some es =>
          rw [hm, hs] at hrel
          obtain ⟨v', tr, p1, p2, p3⟩ := resizeX_spec hrel n b
          refine ⟨(m.log (setReg m.regs r (some v')) (glob r r tr)).1, (m.log (setReg m.regs r (some v')) (glob r r tr)).2, ?_, ?_⟩
          · simp [stepX, hk, hm, p1, specStepX, hs, bind, Except.bind, pure, Except.pure]
          · have := minv_set1 h hk (es' := some (specResizeX c.N es n b).1) r tr (v' := some v') p2
              (by rw [szOf_set, szOf_some hs]; simp only []; omega)
            simpa [specStepX, hk, hs] using this
    · exact ⟨m, none, by simp [stepX, hk, specStepX], by simpa [specStepX, hk] using h⟩
  | range r xs =>
    by_cases hk : r < c.K ∧ c.port = false
    · have hrel := h.rel r
      cases hm : m.regs r with
      | some v =>
        cases hs : sp r with
        | none => rw [hm, hs] at hrel; exact hrel.elim
        | some es => exact ⟨m, none, by simp [stepX, hk, hm, specStepX, hs], by simpa [specStepX, hk, hs] using h⟩
      | none =>
        have hs : sp r = none := (rel_none hrel).mp hm
        obtain ⟨w, tr, p1, p2, p3, p4⟩ := rangeCtorX_spec c.N xs b
        refine ⟨(m.log (setReg m.regs r w) (glob r r tr)).1, (m.log (setReg m.regs r w) (glob r r tr)).2, ?_, ?_⟩
        · simp [stepX, hk, hm, p1, specStepX, hs, bind, Except.bind, pure, Except.pure]
        · have := minv_set1 h hk.1 (es' := if b < min xs.length c.N then none else some (specCtor c.N xs)) r tr (v' := w) p2
            (by rw [szOf_set, szOf_none hs, p3, p4]
                by_cases hb : b < min xs.length c.N
                · simp only [hb, if_true]; omega
                · simp only [hb, if_false, specCtor, List.length_map, List.length_take]; omega)
          simpa [specStepX, hk, hs] using this
    · exact ⟨m, none, by simp [stepX, hk, specStepX], by simpa [specStepX, hk] using h⟩
  | il r xs =>
    by_cases hk : r < c.K ∧ c.port = false
    · have hrel := h.rel r
      cases hm : m.regs r with
      | some v =>
        cases hs : sp r with
        | none => rw [hm, hs] at hrel; exact hrel.elim
        | some es => exact ⟨m, none, by simp [stepX, hk, hm, specStepX, hs], by simpa [specStepX, hk, hs] using h⟩
      | none =>
        have hs : sp r = none := (rel_none hrel).mp hm
        obtain ⟨w, tr, p1, p2, p3, p4⟩ := ilCtorX_spec c.N xs b
        refine ⟨(m.log (setReg m.regs r w) (glob r r tr)).1, (m.log (setReg m.regs r w) (glob r r tr)).2, ?_, ?_⟩
        · simp [stepX, hk, hm, p1, specStepX, hs, bind, Except.bind, pure, Except.pure]
        · have := minv_set1 h hk.1 (es' := if b < min xs.length c.N then none else some (specCtor c.N xs)) r tr (v' := w) p2
            (by rw [szOf_set, szOf_none hs, p3, p4]
                by_cases hb : b < min xs.length c.N
                · simp only [hb, if_true]; omega
                · simp only [hb, if_false, specCtor, List.length_map, List.length_take]; omega)
          simpa [specStepX, hk, hs] using this
    · exact ⟨m, none, by simp [stepX, hk, specStepX], by simpa [specStepX, hk] using h⟩
  | copy r s =>
    by_cases hk : r < c.K ∧ s < c.K
    · have hrel := h.rel r
      have hrel2 := h.rel s
      cases hm : m.regs r with
      | some v =>
        cases hs : sp r with
        | none => rw [hm, hs] at hrel; exact hrel.elim
        | some es => exact ⟨m, none, by simp [stepX, hk, hm, specStepX, hs], by simpa [specStepX, hk, hs] using h⟩
      | none =>
        have hs : sp r = none := (rel_none hrel).mp hm
        cases hm2 : m.regs s with
        | none =>
          have hs2 : sp s = none := (rel_none hrel2).mp hm2
          exact ⟨m, none, by simp [stepX, hk, hm, hm2, specStepX, hs, hs2], by simpa [specStepX, hk, hs, hs2] using h⟩
        | some o =>
          cases hs2 : sp s with
          | none => rw [hm2, hs2] at hrel2; exact hrel2.elim
          | some eo =>
            rw [hm2, hs2] at hrel2
            obtain ⟨w, tr, p1, p2, p3, p4⟩ := copyCtorX_spec hrel2 b
            refine ⟨(m.log (setReg m.regs r w) (glob r s tr)).1, (m.log (setReg m.regs r w) (glob r s tr)).2, ?_, ?_⟩
            · simp [stepX, hk, hm, hm2, p1, specStepX, hs, hs2, bind, Except.bind, pure, Except.pure]
            · have := minv_set1 h hk.1 (es' := if b < eo.length then none else some eo) s tr (v' := w) p2
                (by rw [szOf_set, szOf_none hs, p3, p4]
                    by_cases hb : b < eo.length
                    · simp only [hb, if_true]; omega
                    · simp only [hb, if_false]; omega)
              simpa [specStepX, hk, hs, hs2] using this
    · exact ⟨m, none, by simp [stepX, hk, specStepX], by simpa [specStepX, hk] using h⟩
  | move r s =>
    by_cases hk : r < c.K ∧ s < c.K
    · have hrel := h.rel r
      have hrel2 := h.rel s
      cases hm : m.regs r with
      | some v =>
        cases hs : sp r with
        | none => rw [hm, hs] at hrel; exact hrel.elim
        | some es => exact ⟨m, none, by simp [stepX, hk, hm, specStepX, hs], by simpa [specStepX, hk, hs] using h⟩
      | none =>
        have hs : sp r = none := (rel_none hrel).mp hm
        cases hm2 : m.regs s with
        | none =>
          have hs2 : sp s = none := (rel_none hrel2).mp hm2
          exact ⟨m, none, by simp [stepX, hk, hm, hm2, specStepX, hs, hs2], by simpa [specStepX, hk, hs, hs2] using h⟩
        | some o =>
          cases hs2 : sp s with
          | none => rw [hm2, hs2] at hrel2; exact hrel2.elim
          | some eo =>
            rw [hm2, hs2] at hrel2
            have hne : r ≠ s := by intro e; subst e; rw [hm] at hm2; cases hm2
            obtain ⟨w, o', tr, p1, p2, p3, p4, p5⟩ := moveCtorX_spec c.port c.trk hrel2 b
            refine ⟨(m.log (setReg (setReg m.regs s (some o')) r w) (glob r s tr)).1,
              (m.log (setReg (setReg m.regs s (some o')) r w) (glob r s tr)).2, ?_, ?_⟩
            · simp [stepX, hk, hm, hm2, p1, specStepX, hs, hs2, bind, Except.bind, pure, Except.pure]
            · have := minv_set2 h hk.1 hk.2 hne (er' := if b < eo.length then none else some eo)
                (es' := some (if b < eo.length then movedPrefix c.trk b eo else if c.port then movedFrom c.trk eo else [])) tr
                (v' := w) (o' := some o') p2 p3
                (by rw [szOf_set, szOf_set, szOf_none hs, szOf_some hs2, p4, p5]
                    by_cases hb : b < eo.length
                    · simp only [hb, if_true, movedPrefix_length]; omega
                    · cases c.port <;> simp [hb] <;> omega)
              simpa [specStepX, hk, hs, hs2] using this
    · exact ⟨m, none, by simp [stepX, hk, specStepX], by simpa [specStepX, hk] using h⟩
  | acopy r s =>
    by_cases hk : r < c.K ∧ s < c.K
    · have hrel := h.rel r
      have hrel2 := h.rel s
      cases hm : m.regs r with
      | none =>
        have hs : sp r = none := (rel_none hrel).mp hm
        exact ⟨m, none, by simp [stepX, hk, hm, specStepX, hs], by simpa [specStepX, hk, hs] using h⟩
      | some v =>
        cases hs : sp r with
        | none => rw [hm, hs] at hrel; exact hrel.elim
        | some es =>
          rw [hm, hs] at hrel
          cases hm2 : m.regs s with
          | none =>
            have hs2 : sp s = none := (rel_none hrel2).mp hm2
            exact ⟨m, none, by simp [stepX, hk, hm, hm2, specStepX, hs, hs2], by simpa [specStepX, hk, hs, hs2] using h⟩
          | some o =>
            cases hs2 : sp s with
            | none => rw [hm2, hs2] at hrel2; exact hrel2.elim
            | some eo =>
              rw [hm2, hs2] at hrel2
              by_cases hrs : r = s
              · subst hrs
                refine ⟨(m.log m.regs []).1, (m.log m.regs []).2, by simp [stepX, hk, hm, specStepX, hs], ?_⟩
                have e : (specStepX c sp (.acopy r r) b).1 = sp := by simp [specStepX, hk, hs]
                rw [e]; exact minv_same h
              · obtain ⟨v', tr, p1, p2, p3, p4⟩ := assignCopyX_spec hrel hrel2 b
                refine ⟨(m.log (setReg m.regs r (some v')) (glob r s tr)).1, (m.log (setReg m.regs r (some v')) (glob r s tr)).2, ?_, ?_⟩
                · simp [stepX, hk, hm, hm2, hrs, p1, specStepX, hs, hs2, bind, Except.bind, pure, Except.pure]
                · have := minv_set1 h hk.1 (es' := some (eo.take b)) s tr (v' := some v') p2
                    (by rw [szOf_set, szOf_some hs, p3, p4]; simp only [List.length_take]; omega)
                  simpa [specStepX, hk, hs, hs2, hrs] using this
    · exact ⟨m, none, by simp [stepX, hk, specStepX], by simpa [specStepX, hk] using h⟩
  | amove r s =>
    by_cases hk : r < c.K ∧ s < c.K
    · have hrel := h.rel r
      have hrel2 := h.rel s
      cases hm : m.regs r with
      | none =>
        have hs : sp r = none := (rel_none hrel).mp hm
        exact ⟨m, none, by simp [stepX, hk, hm, specStepX, hs], by simpa [specStepX, hk, hs] using h⟩
      | some v =>
        cases hs : sp r with
        | none => rw [hm, hs] at hrel; exact hrel.elim
        | some es =>
          rw [hm, hs] at hrel
          cases hm2 : m.regs s with
          | none =>
            have hs2 : sp s = none := (rel_none hrel2).mp hm2
            exact ⟨m, none, by simp [stepX, hk, hm, hm2, specStepX, hs, hs2], by simpa [specStepX, hk, hs, hs2] using h⟩
          | some o =>
            cases hs2 : sp s with
            | none => rw [hm2, hs2] at hrel2; exact hrel2.elim
            | some eo =>
              rw [hm2, hs2] at hrel2
              by_cases hrs : r = s
              · subst hrs
                refine ⟨(m.log m.regs []).1, (m.log m.regs []).2, by simp [stepX, hk, hm, specStepX, hs], ?_⟩
                have e : (specStepX c sp (.amove r r) b).1 = sp := by simp [specStepX, hk, hs]
                rw [e]; exact minv_same h
              · obtain ⟨v', o', tr, p1, p2, p3, p4, p5⟩ := assignMoveX_spec c.trk hrel hrel2 b
                refine ⟨(m.log (setReg (setReg m.regs s (some o')) r (some v')) (glob r s tr)).1,
                  (m.log (setReg (setReg m.regs s (some o')) r (some v')) (glob r s tr)).2, ?_, ?_⟩
                · simp [stepX, hk, hm, hm2, hrs, p1, specStepX, hs, hs2, bind, Except.bind, pure, Except.pure]
                · have := minv_set2 h hk.1 hk.2 hrs (er' := some (eo.take b))
                    (es' := some (if b < eo.length then movedPrefix c.trk b eo else [])) tr
                    (v' := some v') (o' := some o') p2 p3
                    (by rw [szOf_set, szOf_set, szOf_some hs, szOf_some hs2, p4, p5]
                        by_cases hb : b < eo.length
                        · simp only [hb, if_true, movedPrefix_length, List.length_take]; omega
                        · simp only [hb, if_false, List.length_take, List.length_nil]; omega)
                  simpa [specStepX, hk, hs, hs2, hrs] using this
    · exact ⟨m, none, by simp [stepX, hk, specStepX], by simpa [specStepX, hk] using h⟩

theorem runX_refines {c : Cfg} : ∀ (ops : List (Op × Nat)) (m : Mach) (sp : SpecRegs), MInv c m sp →
    ∃ m', runX c ops m = .ok m' ∧ MInv c m' (specRunX c ops sp) := by
  intro ops
  induction ops with
  | nil => intro m sp h; exact ⟨m, rfl, h⟩
  | cons ob ops ih =>
    intro m sp h
    obtain ⟨op, b⟩ := ob
    obtain ⟨m1, res, p1, p2⟩ := stepX_refines h op b
    obtain ⟨m', q1, q2⟩ := ih m1 _ p2
    exact ⟨m', by simp [runX, p1, q1, bind, Except.bind], q2⟩

theorem specRunX_append (c : Cfg) : ∀ (a b : List (Op × Nat)) (sp : SpecRegs),
    specRunX c (a ++ b) sp = specRunX c b (specRunX c a sp) := by
  intro a
  induction a with
  | nil => intro b sp; rfl
  | cons ob a ih => intro b sp; obtain ⟨op, k⟩ := ob; simp [specRunX, ih]

/-! ### when nothing throws, `stepX` is `step` -/

theorem valueInitLoopX_done {k pos : Nat} {s s' : Slots} {b n : Nat} {tr : Tr}
    (h : valueInitLoopX k pos s b = .ok (s', tr, n, false)) : valueInitLoop k pos s = .ok (s', tr) ∧ n = k := by
  rw [valueInitLoopX_eq] at h
  cases hv : valueInitLoop (min k b) pos s with
  | error e => rw [hv] at h; cases h
  | ok p =>
    rw [hv] at h
    simp only [Except.map, Except.ok.injEq, Prod.mk.injEq, decide_eq_false_iff_not] at h
    have hk : min k b = k := by omega
    rw [hk] at hv
    obtain ⟨h1, h2, h3, _⟩ := h
    exact ⟨by rw [hv, ← h1, ← h2], by omega⟩

theorem copyLoopX_done {src : Slots} {k pos : Nat} {d d' : Slots} {b n : Nat} {tr : Tr}
    (h : copyLoopX src k pos d b = .ok (d', tr, n, false)) : copyLoop src k pos d = .ok (d', tr) ∧ n = k := by
  rw [copyLoopX_eq] at h
  cases hv : copyLoop src (min k b) pos d with
  | error e => rw [hv] at h; cases h
  | ok p =>
    rw [hv] at h
    simp only [Except.map, Except.ok.injEq, Prod.mk.injEq, decide_eq_false_iff_not] at h
    have hk : min k b = k := by omega
    rw [hk] at hv
    obtain ⟨h1, h2, h3, _⟩ := h
    exact ⟨by rw [hv, ← h1, ← h2], by omega⟩

/-- a copy constructor / copy assignment / resize call that did not throw is the
    call of `Model.lean` (same storage, same size, same events) -/
theorem copyCtorX_done {N : Nat} {o : SVec} {b : Nat} {w : Option SVec} {tr : Tr}
    (h : copyCtorX N o b = .ok (w, tr, false)) : ∃ v, w = some v ∧ copyCtor N o = .ok (v, tr) := by
  simp only [copyCtorX, bind, Except.bind] at h
  cases hl : copyLoopX o.slots o.size 0 (rawStore N) b with
  | error e => rw [hl] at h; cases h
  | ok p =>
    obtain ⟨d, tr1, n, t⟩ := p
    rw [hl] at h
    cases t with
    | true =>
      simp only [if_true, unwindCtor, bind, Except.bind] at h
      cases hd : destructor ⟨d, n⟩ with
      | error e => rw [hd] at h; cases h
      | ok q => rw [hd] at h; simp [pure, Except.pure] at h
    | false =>
      obtain ⟨e1, e2⟩ := copyLoopX_done hl
      simp [pure, Except.pure] at h
      obtain ⟨h1, h2⟩ := h
      exact ⟨⟨d, n⟩, h1.symm, by simp [copyCtor, e1, e2, h2, bind, Except.bind, pure, Except.pure]⟩

theorem assignCopyX_done {v o v' : SVec} {b : Nat} {tr : Tr}
    (h : assignCopyX v o b = .ok (v', tr, false)) : assignCopy v o = .ok (v', tr) := by
  simp only [assignCopyX, bind, Except.bind] at h
  cases hc : clear v with
  | error e => rw [hc] at h; cases h
  | ok q =>
    obtain ⟨v1, tr1⟩ := q
    rw [hc] at h
    simp only [] at h
    cases hl : copyLoopX o.slots o.size 0 v1.slots b with
    | error e => rw [hl] at h; cases h
    | ok p =>
      obtain ⟨d, tr2, n, t⟩ := p
      rw [hl] at h
      simp [pure, Except.pure] at h
      obtain ⟨h1, h2, h3⟩ := h
      subst h3
      obtain ⟨e1, e2⟩ := copyLoopX_done hl
      subst e2
      simp [assignCopy, hc, e1, h1, h2, bind, Except.bind, pure, Except.pure]

theorem resizeX_done {N : Nat} {v v' : SVec} {n b : Nat} {tr : Tr}
    (h : resizeX N v n b = .ok (v', tr, false)) : resize N v n = .ok (v', tr) := by
  simp only [resizeX, bind, Except.bind] at h
  cases hl : valueInitLoopX ((if n ≥ N then N else n) - v.size) v.size v.slots b with
  | error e => rw [hl] at h; cases h
  | ok p =>
    obtain ⟨s1, tr1, k, t⟩ := p
    rw [hl] at h
    cases t with
    | true => simp [pure, Except.pure] at h
    | false =>
      obtain ⟨e1, e2⟩ := valueInitLoopX_done hl
      simp only [Bool.false_eq_true, if_false] at h
      cases hd : destroyLoop (v.size - (if n ≥ N then N else n)) (if n ≥ N then N else n) s1 with
      | error e => rw [hd] at h; cases h
      | ok q =>
        rw [hd] at h
        simp [pure, Except.pure] at h
        obtain ⟨h1, h2⟩ := h
        simp [resize, e1, hd, h1, h2, bind, Except.bind, pure, Except.pure]

end Igris.C14
