/-
  C14 — extension round 3b (core Lean only; imported by the driver).

  1. `stepT`: ONE history machine with both kinds of exception — the
     construction budget `b` of `Exc.lean` (every member function that constructs)
     and the assignment budget `a` of `erase` (`std::move` inside the array) — so
     that a throwing element assignment is an OPERATION of the histories and not
     only a function of its own.
  2. `stepTW w`: the same machine with a size counter of `w` bits: every store
     into `m_size` keeps `n % 2^w`; the loops that construct bump the narrow
     counter once per element and leave it where the exception found it.
  3. element DESTRUCTORS that throw (`destroyLoopD`, `clearD`): what the code
     would do if the element type allowed it — the contract excludes it.
  4. `unbounded_array` with element constructors / an allocator that throw.
-/
import IgrisModel.C14.Exc
import IgrisModel.C14.Model3

namespace Igris.C14

/-! ## 1. both kinds of throw in one machine -/

/-- one operation; `b` = element constructions of this call that still succeed,
    `a` = element move-assignments of this call that still succeed (only `erase`
    assigns elements) -/
def stepT (c : Cfg) (m : Mach) (op : Op) (b a : Nat) : Except Fault (Mach × Res × Bool) :=
  match op with
  | .erase r i j =>
      match decide (r < c.K ∧ c.port = false), m.regs r with
      | true, some v =>
          if i ≤ j ∧ j ≤ v.size then do
            let (v', tr, t) ← eraseX c.trk v i j a
            let (m', res) := m.log (setReg m.regs r (some v')) (glob r r tr)
            pure (m', res, t)
          else .ok (m, none, false)
      | _, _ => .ok (m, none, false)
  | op => stepX c m op b

/-- a history; every operation carries its two budgets; the first fault ends it -/
def runT (c : Cfg) : List (Op × Nat × Nat) → Mach → Except Fault Mach
  | [], m => .ok m
  | (op, b, a) :: ops, m => do
      let (m', _, _) ← stepT c m op b a
      runT c ops m'

/-! ## 2. the same with a `w`-bit `m_size` -/

/-- `if (m_size >= N) return; new (&_data[m_size]) T(x); ++m_size;` -/
def pushBackXW (w N : Nat) (v : SVec) (x : Nat) : (b : Nat) → Except Fault (SVec × Tr × Bool)
  | 0 => if v.size ≥ N then .ok (v, [], false) else .ok (v, [], true)
  | _ + 1 =>
      if v.size ≥ N then .ok (v, [], false)
      else do
        let s ← construct v.slots v.size (some x)
        pure (⟨s, stored w (v.size + 1)⟩, [⟨false, .ctor, v.size⟩], false)

def rangeLoopXW (w N : Nat) : List Nat → SVec → (b : Nat) → Except Fault (SVec × Tr × Bool)
  | [], v, _ => .ok (v, [], false)
  | x :: xs, v, b =>
      if v.size ≥ N then rangeLoopXW w N xs v b
      else
        match b with
        | 0 => .ok (v, [], true)
        | b + 1 => do
            let s ← construct v.slots v.size (some x)
            let (v', tr, t) ← rangeLoopXW w N xs ⟨s, stored w (v.size + 1)⟩ b
            pure (v', ⟨false, .ctor, v.size⟩ :: tr, t)

def ilLoopXW (w N : Nat) : List Nat → SVec → (b : Nat) → Except Fault (SVec × Tr × Bool)
  | [], v, _ => .ok (v, [], false)
  | x :: xs, v, b =>
      if v.size ≥ N then .ok (v, [], false)
      else
        match b with
        | 0 => .ok (v, [], true)
        | b + 1 => do
            let s ← construct v.slots v.size (some x)
            let (v', tr, t) ← ilLoopXW w N xs ⟨s, stored w (v.size + 1)⟩ b
            pure (v', ⟨false, .ctor, v.size⟩ :: tr, t)

/-- the copy constructor: `pos` is a `size_t`, `m_size` is bumped once per element
    that was constructed (`n` of them when the exception comes) -/
def copyCtorXW (w N : Nat) (other : SVec) (b : Nat) : Except Fault (Option SVec × Tr × Bool) := do
  let (d, tr, n, t) ← copyLoopX other.slots other.size 0 (rawStore N) b
  if t then unwindCtor ⟨d, bumpW w n 0⟩ tr else pure (some ⟨d, bumpW w n 0⟩, tr, false)

def moveCtorXW (w : Nat) (port trk : Bool) (N : Nat) (other : SVec) (b : Nat) :
    Except Fault (Option SVec × SVec × Tr × Bool) := do
  let (d, s, tr, n, t) ← moveLoopX trk other.size 0 (rawStore N) other.slots b
  if t then do
    let (_, tr2) ← destructor ⟨d, bumpW w n 0⟩
    pure (none, ⟨s, other.size⟩, tr ++ tr2, true)
  else if port then pure (some ⟨d, bumpW w n 0⟩, ⟨s, other.size⟩, tr, false)
  else do
    let (o, tr2) ← clear ⟨s, other.size⟩
    pure (some ⟨d, bumpW w n 0⟩, o, tr ++ tr2.map Ev.flip, false)

def rangeCtorXW (w N : Nat) (xs : List Nat) (b : Nat) : Except Fault (Option SVec × Tr × Bool) := do
  let (v, tr, t) ← rangeLoopXW w N xs ⟨rawStore N, 0⟩ b
  if t then unwindCtor v tr else pure (some v, tr, false)

def ilCtorXW (w N : Nat) (xs : List Nat) (b : Nat) : Except Fault (Option SVec × Tr × Bool) := do
  let (v, tr, t) ← ilLoopXW w N xs ⟨rawStore N, 0⟩ b
  if t then unwindCtor v tr else pure (some v, tr, false)

def assignCopyXW (w : Nat) (v other : SVec) (b : Nat) : Except Fault (SVec × Tr × Bool) := do
  let (v, tr1) ← clear v
  let (d, tr2, n, t) ← copyLoopX other.slots other.size 0 v.slots b
  pure (⟨d, bumpW w n v.size⟩, tr1 ++ tr2, t)

def assignMoveXW (w : Nat) (trk : Bool) (v other : SVec) (b : Nat) : Except Fault (SVec × SVec × Tr × Bool) := do
  let (v, tr1) ← clear v
  let (d, s, tr2, n, t) ← moveLoopX trk other.size 0 v.slots other.slots b
  if t then pure (⟨d, bumpW w n v.size⟩, ⟨s, other.size⟩, tr1 ++ tr2, true)
  else do
    let (o, tr3) ← clear ⟨s, other.size⟩
    pure (⟨d, bumpW w n v.size⟩, o, tr1 ++ tr2 ++ tr3.map Ev.flip, false)

/-- `while (m_size < newsize) { new (&_data[m_size]) T{}; ++m_size; }` driven by the
    `w`-bit counter itself, with the construction budget; returns the counter -/
def resizeLoopXW (w : Nat) : (fuel newsize : Nat) → Slots → (size : Nat) → (b : Nat) →
    Except Fault (Slots × Tr × Nat × Bool)
  | 0, _, s, sz, _ => .ok (s, [], sz, false)
  | f + 1, ns, s, sz, b =>
      if sz < ns then
        match b with
        | 0 => .ok (s, [], sz, true)
        | b + 1 => do
            let s ← construct s sz (some 0)
            let (s, tr, sz', t) ← resizeLoopXW w f ns s (stored w (sz + 1)) b
            pure (s, ⟨false, .ctor, sz⟩ :: tr, sz', t)
      else .ok (s, [], sz, false)

def resizeXW (w N : Nat) (v : SVec) (newsize : Nat) (b : Nat) : Except Fault (SVec × Tr × Bool) := do
  let newsize := if newsize ≥ N then N else newsize
  let (s, tr1, sz, t) ← resizeLoopXW w (newsize + 1) newsize v.slots v.size b
  if t then pure (⟨s, sz⟩, tr1, true)
  else do
    let (s, tr2) ← destroyLoop (sz - newsize) newsize s
    pure (⟨s, stored w newsize⟩, tr1 ++ tr2, false)

/-- `erase` with the assignment budget; `m_size -= sz` on the narrow counter -/
def eraseXW (w : Nat) (trk : Bool) (v : SVec) (i j : Nat) (a : Nat) : Except Fault (SVec × Tr × Bool) :=
  if i = j then .ok (v, [], false)
  else do
    let sz := j - i
    let (s, tr1, t) ← shiftLoopX trk (v.size - j) j i v.slots a
    if t then pure (⟨s, v.size⟩, tr1, true)
    else do
      let (s, tr2) ← destroyLoop sz (v.size - sz) s
      pure (⟨s, stored w (v.size - sz)⟩, tr1 ++ tr2, false)

/-- `stepT` with a `w`-bit `m_size` -/
def stepTW (w : Nat) (c : Cfg) (m : Mach) (op : Op) (b a : Nat) : Except Fault (Mach × Res × Bool) :=
  match op with
  | .copy r s =>
      match decide (r < c.K ∧ s < c.K), m.regs r, m.regs s with
      | true, none, some o => do
          let (v, tr, t) ← copyCtorXW w c.N o b
          let (m', res) := m.log (setReg m.regs r v) (glob r s tr)
          pure (m', res, t)
      | _, _, _ => .ok (m, none, false)
  | .move r s =>
      match decide (r < c.K ∧ s < c.K), m.regs r, m.regs s with
      | true, none, some o => do
          let (v, o', tr, t) ← moveCtorXW w c.port c.trk c.N o b
          let (m', res) := m.log (setReg (setReg m.regs s (some o')) r v) (glob r s tr)
          pure (m', res, t)
      | _, _, _ => .ok (m, none, false)
  | .range r xs =>
      match decide (r < c.K ∧ c.port = false), m.regs r with
      | true, none => do
          let (v, tr, t) ← rangeCtorXW w c.N xs b
          let (m', res) := m.log (setReg m.regs r v) (glob r r tr)
          pure (m', res, t)
      | _, _ => .ok (m, none, false)
  | .il r xs =>
      match decide (r < c.K ∧ c.port = false), m.regs r with
      | true, none => do
          let (v, tr, t) ← ilCtorXW w c.N xs b
          let (m', res) := m.log (setReg m.regs r v) (glob r r tr)
          pure (m', res, t)
      | _, _ => .ok (m, none, false)
  | .acopy r s =>
      match decide (r < c.K ∧ s < c.K), m.regs r, m.regs s with
      | true, some v, some o =>
          if r = s then
            let (m', res) := m.log m.regs []
            .ok (m', res, false)
          else do
            let (v', tr, t) ← assignCopyXW w v o b
            let (m', res) := m.log (setReg m.regs r (some v')) (glob r s tr)
            pure (m', res, t)
      | _, _, _ => .ok (m, none, false)
  | .amove r s =>
      match decide (r < c.K ∧ s < c.K), m.regs r, m.regs s with
      | true, some v, some o =>
          if r = s then
            let (m', res) := m.log m.regs []
            .ok (m', res, false)
          else do
            let (v', o', tr, t) ← assignMoveXW w c.trk v o b
            let (m', res) := m.log (setReg (setReg m.regs s (some o')) r (some v')) (glob r s tr)
            pure (m', res, t)
      | _, _, _ => .ok (m, none, false)
  | .push r x =>
      match decide (r < c.K), m.regs r with
      | true, some v => do
          let (v', tr, t) ← pushBackXW w c.N v x b
          let (m', res) := m.log (setReg m.regs r (some v')) (glob r r tr)
          pure (m', res, t)
      | _, _ => .ok (m, none, false)
  | .emplace r x =>
      match decide (r < c.K), m.regs r with
      | true, some v => do
          let (v', tr, t) ← pushBackXW w c.N v x b
          let (m', res) := m.log (setReg m.regs r (some v')) (glob r r tr)
          pure (m', res, t)
      | _, _ => .ok (m, none, false)
  | .resize r n =>
      match decide (r < c.K), m.regs r with
      | true, some v => do
          let (v', tr, t) ← resizeXW w c.N v n b
          let (m', res) := m.log (setReg m.regs r (some v')) (glob r r tr)
          pure (m', res, t)
      | _, _ => .ok (m, none, false)
  | .erase r i j =>
      match decide (r < c.K ∧ c.port = false), m.regs r with
      | true, some v =>
          if i ≤ j ∧ j ≤ v.size then do
            let (v', tr, t) ← eraseXW w c.trk v i j a
            let (m', res) := m.log (setReg m.regs r (some v')) (glob r r tr)
            pure (m', res, t)
          else .ok (m, none, false)
      | _, _ => .ok (m, none, false)
  -- new, clear, del, finish store `m_size = 0` only and construct / assign nothing
  | op => do
      let (m', res) ← step c m op
      pure (m', res, false)

def runTW (w : Nat) (c : Cfg) : List (Op × Nat × Nat) → Mach → Except Fault Mach
  | [], m => .ok m
  | (op, b, a) :: ops, m => do
      let (m', _, _) ← stepTW w c m op b a
      runTW w c ops m'

/-! ## 3. element destructors that throw

`for (i = pos; i < pos + k; ++i) _data[i].~T();` when the `(d+1)`-th destructor
call of the loop throws.  The lifetime of an object ends when its destructor
call STARTS ([basic.life]): the slot is raw storage afterwards although the
exception left the destructor.  None of the loops of the containers catches
anything, so the exception leaves the member function before `m_size` is
written.  (In the real program `~T()` is `noexcept` unless declared otherwise
and the exception ends in `std::terminate`; this is what the code would do for
a `T` with `~T() noexcept(false)`.) -/

def destroyLoopD : (k pos : Nat) → Slots → (d : Nat) → Except Fault (Slots × Tr × Bool)
  | 0, _, s, _ => .ok (s, [], false)
  | _ + 1, pos, s, 0 => do
      let s ← destroy s pos
      pure (s, [⟨false, .dtor, pos⟩], true)
  | k + 1, pos, s, d + 1 => do
      let s ← destroy s pos
      let (s, tr, t) ← destroyLoopD k (pos + 1) s d
      pure (s, ⟨false, .dtor, pos⟩ :: tr, t)

/-- `clear()`: the loop, then `m_size = 0` — which a throw does not reach -/
def clearD (v : SVec) (d : Nat) : Except Fault (SVec × Tr × Bool) := do
  let (s, tr, t) ← destroyLoopD v.size 0 v.slots d
  if t then pure (⟨s, v.size⟩, tr, true) else pure (⟨s, 0⟩, tr, false)

/-! ## 4. unbounded_array: element constructors and an allocator that throw

`b` = element constructions of this call that still succeed, `al` = does
`alloc.allocate` succeed (`false`: `std::bad_alloc`).  The code after the repair
of this round: while `create_buffer` / `operator=` construct into the fresh
block a `construct_guard` counts the elements; when a constructor throws, its
destructor destroys them again (`while (done > 0) m_data[--done].~T();` — the
order inside one call is not observable per slot), releases the block and
leaves the array empty.  `unbounded_array(size_t)` is `{ create_buffer(sz); }`
on a default-initialised object: when it throws there is no object and nothing
is left behind. -/

/-- `create_buffer(size)`: `m_data = allocate(size); m_size = size; guard;
    for (; done < size; ++done) new (m_data + done) T();` -/
def uCreateX (n : Nat) (b : Nat) (al : Bool) : Except Fault (UArr × Tr × Bool) :=
  if !al then .ok (⟨none, 0⟩, [], true)
  else do
    let (s, tr, k, t) ← valueInitLoopX n 0 (rawStore n) b
    if t then do
      let (_, tr2) ← destroyLoop k 0 s
      pure (⟨none, 0⟩, tr ++ tr2, true)
    else pure (⟨some s, n⟩, tr, false)

/-- `create_buffer` as it was: no guard — the exception leaves `m_size = size`
    over a block whose slots from `b` on are raw storage -/
def uCreateXOrig (n : Nat) (b : Nat) : Except Fault (UArr × Tr × Bool) := do
  let (s, tr, _, t) ← valueInitLoopX n 0 (rawStore n) b
  pure (⟨some s, n⟩, tr, t)

/-- `resize(size)`: `invalidate(); create_buffer(size);` -/
def uResizeX (a : UArr) (n : Nat) (b : Nat) (al : Bool) : Except Fault (UArr × Tr × Bool) := do
  let (_, tr1) ← uInvalidate a
  let (x, tr2, t) ← uCreateX n b al
  pure (x, tr1 ++ tr2, t)

def uResizeXOrig (a : UArr) (n : Nat) (b : Nat) : Except Fault (UArr × Tr × Bool) := do
  let (_, tr1) ← uInvalidate a
  let (x, tr2, t) ← uCreateXOrig n b
  pure (x, tr1 ++ tr2, t)

/-- `operator=(const&)`: `invalidate(); m_data = allocate(oth.size()); m_size = oth.size(); guard;
    for (ref : oth) { new (m_data + done) T(ref); ++done; }` -/
def uAssignX (a o : UArr) (b : Nat) (al : Bool) : Except Fault (UArr × Tr × Bool) := do
  let (_, tr1) ← uInvalidate a
  if !al then pure (⟨none, 0⟩, tr1, true)
  else do
    let (s, tr2, k, t) ← copyLoopX o.slots o.size 0 (rawStore o.size) b
    if t then do
      let (_, tr3) ← destroyLoop k 0 s
      pure (⟨none, 0⟩, tr1 ++ tr2 ++ tr3, true)
    else pure (⟨some s, o.size⟩, tr1 ++ tr2, false)

/-- `unbounded_array(size_t sz) { create_buffer(sz); }` — when `create_buffer` throws it
    has cleaned up after itself; the exception leaves the constructor: no object -/
def uCtorX (n : Nat) (b : Nat) (al : Bool) : Except Fault (Option UArr × Tr × Bool) := do
  let (x, tr, t) ← uCreateX n b al
  if t then pure (none, tr, true) else pure (some x, tr, false)

/-- the constructor as it was: `: m_data(alloc.allocate(sz)), m_size(sz) { for (…) new (m_data + i) T(); }` —
    the exception leaves a constructor of an incomplete object, no destructor runs: the elements constructed
    so far (and the block) are lost -/
def uCtorXOrig (n : Nat) (b : Nat) : Except Fault (Option UArr × Tr × Bool) := do
  let (s, tr, _, t) ← valueInitLoopX n 0 (rawStore n) b
  if t then pure (none, tr, true) else pure (some ⟨some s, n⟩, tr, false)

/-- `unbounded_array(const T *data, size_t sz) : unbounded_array(sz) { std::copy(data, data + sz, m_data); }` —
    the delegated-to constructor may throw (no object then); the assignments of `std::copy` do not -/
def uFromPtrX (src : List Nat) (sz : Nat) (b : Nat) (al : Bool) : Except Fault (Option UArr × Tr × Bool) := do
  let (x, tr1, t) ← uCtorX sz b al
  match x with
  | none => pure (none, tr1, t)
  | some a => do
      let (s, tr2) ← uCopyIn src sz 0 a.slots
      pure (some ⟨some s, sz⟩, tr1 ++ tr2, false)

/-- copy constructor: `unbounded_array(oth.data(), oth.size())` -/
def uCopyCtorX (o : UArr) (b : Nat) (al : Bool) : Except Fault (Option UArr × Tr × Bool) := do
  let (x, tr1, t) ← uCtorX o.size b al
  match x with
  | none => pure (none, tr1, t)
  | some a => do
      let (s, tr2) ← uCopyBlk o.slots o.size 0 a.slots
      pure (some ⟨some s, o.size⟩, tr1 ++ tr2, false)

/-- one operation of the storage-level machine with a throw point; `none` = outside the contract
    (also: a throw point on an operation that neither allocates nor constructs) -/
def ustepSX (K : Nat) (m : URegsS) (op : UOp) (b : Nat) (al : Bool) : Except Fault (Option (URegsS × Bool)) :=
  match op with
  | .new r n => match decide (r < K), m r with
      | true, none => do
          let (a, _, t) ← uCtorX n b al
          pure (some (setUS m r a, t))
      | _, _ => .ok none
  | .from r xs => match decide (r < K), m r with
      | true, none => do
          let (a, _, t) ← uFromPtrX xs xs.length b al
          pure (some (setUS m r a, t))
      | _, _ => .ok none
  | .copy r s => match decide (r < K ∧ s < K), m r, m s with
      | true, none, some o => do
          let (a, _, t) ← uCopyCtorX o b al
          pure (some (setUS m r a, t))
      | _, _, _ => .ok none
  | .assign r s => match decide (r < K ∧ s < K), m r, m s with
      | true, some a, some o =>
          if r = s then .ok (some (m, false))
          else do
            let (a', _, t) ← uAssignX a o b al
            pure (some (setUS m r (some a'), t))
      | _, _, _ => .ok none
  | .resize r n => match decide (r < K), m r with
      | true, some a => do
          let (a', _, t) ← uResizeX a n b al
          pure (some (setUS m r (some a'), t))
      | _, _ => .ok none
  | _ => .ok none

end Igris.C14
