/-
  C14 — property theorems.

  "static_vector<T,N>, static_string<N> and their std_portable twins never hold
   more than N elements and never write outside their inline storage, whatever
   is pushed, emplaced, resized to, or passed to a constructor (iterator range,
   initializer list, C string, another container).  Within capacity they expose
   exactly the contents of a reference sequence, excess input is dropped
   keeping the prefix, and every element constructed is destroyed exactly once
   across erase, clear, assignment and destruction."

  The model (`Model.lean`) is the code after the eight `fix:` commits of branch
  fix-C14; the bodies as they were are kept as `…Orig` and refuted by the
  `…_witness` theorems below.  All theorems hold for EVERY capacity `N`
  (including the degenerate N = 0), every number of objects K, both twins
  (`port`), both element kinds (`trk`), every history and every argument.

  Reading guide.  A *fault* of the model is: an access at an index ≥ the
  storage length (`oob` — a write outside `_data`), a placement-new over a live
  element (`ctorOverLive` — that element is never destroyed), a destructor call
  on raw storage (`dtorRaw` — double destruction), a read/assignment/move of
  raw storage (`useRaw`).  "No fault on any history" is therefore the memory-
  and lifetime-safety clause; `nctor`/`ndtor` count the constructor and
  destructor calls.
-/
import IgrisModel.C14.Lemmas
import IgrisModel.C14.Ledger
import IgrisModel.C14.MachX
import IgrisModel.C14.Access
import IgrisModel.C14.Width
import IgrisModel.C14.Lemmas3
import IgrisModel.C14.LedgerX
import IgrisModel.C14.Lemmas3b

namespace Igris.C14
open Igris.Proto

/-! ## static_vector: every history refines K reference sequences -/

/-- ONE operation (any of the 14, any arguments, in or outside the contract) from
    any state that represents reference sequences: no fault, and the new state
    represents the reference result. -/
theorem sv_step_refines {c : Cfg} {m : Mach} {sp : SpecRegs} (h : MInv c m sp) (op : Op) :
    ∃ mr : Mach × Res, step c m op = .ok mr ∧ MInv c mr.1 (specStep c sp op) :=
  step_refines h op

/-- EVERY history of operations on K objects, starting with no object: the run
    ends without a fault and the final state represents what the reference
    machine (K lists, `specStep`) computes. -/
theorem sv_history_refines (c : Cfg) (ops : List Op) :
    ∃ m, run c ops Mach.init = .ok m ∧ MInv c m (specRun c ops (fun _ => none)) :=
  run_refines ops _ _ (minv_init c)

/-- never a write outside the storage, never a constructor over a live element,
    never a second destructor call, never a use of raw storage — on any history -/
theorem sv_no_fault (c : Cfg) (ops : List Op) (f : Fault) : run c ops Mach.init ≠ .error f := by
  obtain ⟨m, h, _⟩ := sv_history_refines c ops
  rw [h]; intro e; cases e

/-- after any history every object holds at most N elements in a storage of
    exactly N slots, `size()`/`room()`/the element sequence are the reference's,
    the slots `[0,size)` hold objects and the slots `[size,N)` are raw. -/
theorem sv_size_le_N_and_contents (c : Cfg) (ops : List Op) :
    ∃ m, run c ops Mach.init = .ok m ∧ ∀ r v, m.regs r = some v →
      ∃ es, specRun c ops (fun _ => none) r = some es ∧
        v.size ≤ c.N ∧ v.slots.length = c.N ∧ v.size = es.length ∧ v.contents = es ∧
        v.room c.N = c.N - es.length ∧
        (∀ p, p < v.size → ∃ e, v.slots[p]? = some (.obj e)) ∧
        (∀ p, v.size ≤ p → p < c.N → v.slots[p]? = some .raw) := by
  obtain ⟨m, h, hi⟩ := sv_history_refines c ops
  refine ⟨m, h, ?_⟩
  intro r v hv
  have hr := hi.rel r
  rw [hv] at hr
  cases hs : specRun c ops (fun _ => none) r with
  | none => rw [hs] at hr; exact hr.elim
  | some es =>
    rw [hs] at hr
    refine ⟨es, rfl, by rw [hr.size]; exact hr.le, hr.len, hr.size, hr.contents, by simp [SVec.room, hr.size], ?_, ?_⟩
    · intro p hp; rw [hr.pt p]; exact slotAt_obj (by rw [← hr.size]; exact hp)
    · intro p hp1 hp2; rw [hr.pt p]; exact slotAt_raw (by rw [← hr.size]; exact hp1) hp2

/-- an object exists in the model exactly where the reference has one -/
theorem sv_objects_agree (c : Cfg) (ops : List Op) :
    ∃ m, run c ops Mach.init = .ok m ∧ ∀ r, (m.regs r).isSome = (specRun c ops (fun _ => none) r).isSome := by
  obtain ⟨m, h, hi⟩ := sv_history_refines c ops
  refine ⟨m, h, fun r => ?_⟩
  have := hi.rel r
  cases h1 : m.regs r <;> cases h2 : specRun c ops (fun _ => none) r <;> simp_all [Rel]

/-! ### excess input is dropped, the prefix is kept -/

/-- iterator-range constructor with an argument of ANY length -/
theorem range_ctor_keeps_prefix (N : Nat) (xs : List Nat) :
    ∃ v tr, rangeCtor N xs = .ok (v, tr) ∧ v.contents = (xs.take N).map some ∧ v.size = min xs.length N ∧
      nC tr = min xs.length N ∧ nD tr = 0 := by
  obtain ⟨v, tr, h1, h2, h3, h4⟩ := rangeCtor_spec N xs
  refine ⟨v, tr, h1, h2.contents, ?_, ?_, h4⟩
  · rw [h2.size]; simp [specCtor, Nat.min_comm]
  · rw [h3]; simp [specCtor, Nat.min_comm]

/-- initializer-list constructor with an argument of ANY length (this is the
    constructor that smashed the stack before the repair) -/
theorem il_ctor_keeps_prefix (N : Nat) (xs : List Nat) :
    ∃ v tr, ilCtor N xs = .ok (v, tr) ∧ v.contents = (xs.take N).map some ∧ v.size = min xs.length N ∧
      nC tr = min xs.length N ∧ nD tr = 0 := by
  obtain ⟨v, tr, h1, h2, h3, h4⟩ := ilCtor_spec N xs
  refine ⟨v, tr, h1, h2.contents, ?_, ?_, h4⟩
  · rw [h2.size]; simp [specCtor, Nat.min_comm]
  · rw [h3]; simp [specCtor, Nat.min_comm]

/-- the reference semantics of pushing: after pushing `xs` one by one onto a
    sequence `es` (|es| ≤ N) exactly the first `N - |es|` of them were kept -/
theorem spec_push_all_keeps_prefix (N : Nat) : ∀ (xs : List Nat) (es : List Elem), es.length ≤ N →
    xs.foldl (specPush N) es = es ++ (xs.take (N - es.length)).map some := by
  intro xs
  induction xs with
  | nil => intro es _; simp
  | cons x xs ih =>
    intro es hl
    by_cases hf : es.length < N
    · have hsp : specPush N es x = es ++ [some x] := by simp [specPush, hf]
      have e1 : N - es.length = (N - (es ++ [some x]).length) + 1 := by simp; omega
      rw [List.foldl_cons, hsp, ih _ (by simp; omega), e1, List.take_succ_cons]
      simp
    · have hsp : specPush N es x = es := by simp [specPush, hf]
      have : N - es.length = 0 := by omega
      rw [List.foldl_cons, hsp, ih _ hl, this]; simp

/-- copies are exact: the copy constructor reproduces the source, the copy
    assignment replaces the old contents (destroying every old element once) -/
theorem copy_is_exact {N : Nat} {v o : SVec} {es eo : List Elem} (hv : Abs N v es) (ho : Abs N o eo) :
    (∃ w tr, copyCtor N o = .ok (w, tr) ∧ w.contents = eo ∧ nC tr = eo.length ∧ nD tr = 0) ∧
    (∃ w tr, assignCopy v o = .ok (w, tr) ∧ w.contents = eo ∧ nC tr = eo.length ∧ nD tr = es.length) := by
  obtain ⟨w, tr, h1, h2, h3, h4⟩ := copyCtor_spec ho
  obtain ⟨w', tr', g1, g2, g3, g4⟩ := assignCopy_spec hv ho
  exact ⟨⟨w, tr, h1, h2.contents, h3, h4⟩, ⟨w', tr', g1, g2.contents, g3, g4⟩⟩

/-- moves: the destination gets the source's elements; the source is left empty
    with every moved-from element destroyed (container/ twin, and both twins for
    assignment) or keeps its N' moved-from elements as live objects
    (std_portable.h move constructor) — in both cases nothing is lost -/
theorem move_is_exact (port trk : Bool) {N : Nat} {v o : SVec} {es eo : List Elem} (hv : Abs N v es) (ho : Abs N o eo) :
    (∃ w o' tr, moveCtor port trk N o = .ok (w, o', tr) ∧ w.contents = eo ∧
        o'.contents = (if port then movedFrom trk eo else []) ∧
        nC tr = eo.length ∧ nD tr = (if port then 0 else eo.length)) ∧
    (∃ w o' tr, assignMove trk v o = .ok (w, o', tr) ∧ w.contents = eo ∧ o'.contents = [] ∧
        nC tr = eo.length ∧ nD tr = es.length + eo.length) := by
  obtain ⟨w, o', tr, h1, h2, h3, h4, h5⟩ := moveCtor_spec port trk ho
  obtain ⟨w', o'', tr', g1, g2, g3, g4, g5⟩ := assignMove_spec trk hv ho
  exact ⟨⟨w, o', tr, h1, h2.contents, h3.contents, h4, h5⟩, ⟨w', o'', tr', g1, g2.contents, g3.contents, g4, g5⟩⟩

/-- erase / resize / clear against the reference sequence, with the exact
    number of destructor and constructor calls -/
theorem erase_resize_clear_exact (trk : Bool) {N : Nat} {v : SVec} {es : List Elem} (h : Abs N v es) :
    (∀ i j, i ≤ j → j ≤ es.length → ∃ w tr, erase trk v i j = .ok (w, tr) ∧
        w.contents = es.take i ++ es.drop j ∧ nC tr = 0 ∧ nD tr = j - i) ∧
    (∀ n, ∃ w tr, resize N v n = .ok (w, tr) ∧ w.contents = specResize N es n ∧ w.size = min n N ∧
        nC tr = min n N - es.length ∧ nD tr = es.length - min n N) ∧
    (∃ w tr, clear v = .ok (w, tr) ∧ w.contents = [] ∧ nC tr = 0 ∧ nD tr = es.length) := by
  refine ⟨?_, ?_, ?_⟩
  · intro i j hij hj
    obtain ⟨w, tr, h1, h2, h3, h4⟩ := erase_spec trk h hij hj
    refine ⟨w, tr, h1, h2.contents, h3, ?_⟩
    simp [specErase] at h4; omega
  · intro n
    have hl := h.le; have hs := h.size
    have hn : (if n ≥ N then N else n) = min n N := by split <;> omega
    obtain ⟨s1, tr1, a1, a2, a3, a4, a5⟩ := valueInitLoop_spec (min n N - v.size) v.size v.slots (by
      intro p hp1 hp2
      rw [h.pt p]; exact slotAt_raw (by omega) (by omega))
    obtain ⟨s2, tr2, b1, b2, b3, b4, b5⟩ := destroyLoop_spec (v.size - min n N) (min n N) s1 (by
      intro p hp1 hp2
      rw [a5 p, if_neg (by omega), h.pt p]; exact slotAt_obj (by omega))
    obtain ⟨w, tr, h1, h2, _⟩ := resize_spec h n
    have e : resize N v n = .ok (⟨s2, min n N⟩, tr1 ++ tr2) := by
      simp only [resize, hn]; simp [a1, b1, bind, Except.bind, pure, Except.pure]
    rw [e] at h1
    cases h1
    exact ⟨_, _, e, h2.contents, rfl, by simp [a2, b2, hs], by simp [a3, b3, hs]⟩
  · obtain ⟨w, tr, h1, h2, h3, h4⟩ := clear_spec h
    exact ⟨w, tr, h1, h2.contents, h3, h4⟩

/-! ### every element constructed is destroyed exactly once -/

/-- The destructor destroys exactly the `size` live elements (one destructor
    call each, no constructor call) and leaves N raw slots: nothing survives
    the container, nothing is destroyed twice (that would be a fault). -/
theorem destructor_destroys_all {N : Nat} {v : SVec} {es : List Elem} (h : Abs N v es) :
    ∃ v' tr, destructor v = .ok (v', tr) ∧ v'.slots = rawStore N ∧ v'.size = 0 ∧ nC tr = 0 ∧ nD tr = es.length := by
  obtain ⟨v', tr, h1, h2, h3, h4⟩ := destructor_spec h
  exact ⟨v', tr, h1, (abs_nil_rawStore h2).1, (abs_nil_rawStore h2).2, h3, h4⟩

/-- Ledger balance on EVERY history: constructor calls = destructor calls +
    the number of elements currently held by the K objects.  (Together with
    `sv_no_fault` — no construction over a live element, no destruction of raw
    storage — this is "constructed ⇒ destroyed at most once, and only live
    elements are still owed a destructor".) -/
theorem sv_lifetime_balance (c : Cfg) (ops : List Op) :
    ∃ m, run c ops Mach.init = .ok m ∧
      m.nctor = m.ndtor + total (szOf (specRun c ops (fun _ => none))) c.K := by
  obtain ⟨m, h, hi⟩ := sv_history_refines c ops
  exact ⟨m, h, hi.bal⟩

/-- Any history followed by the destruction of all objects: no fault, no object
    left, and the number of destructor calls equals the number of constructor
    calls — every element constructed anywhere in the history (push, emplace,
    resize, the five constructors, both assignments, erase's shifting) has been
    destroyed exactly once across erase, clear, assignment, resize and
    destruction. -/
theorem sv_lifetime_once (c : Cfg) (ops : List Op) :
    ∃ m, run c (ops ++ [.finish]) Mach.init = .ok m ∧ m.nctor = m.ndtor ∧ ∀ r, m.regs r = none := by
  obtain ⟨m, h, hi⟩ := sv_history_refines c (ops ++ [.finish])
  have e : specRun c (ops ++ [.finish]) (fun _ => none) = fun _ => none := by
    rw [specRun_append]; rfl
  rw [e] at hi
  refine ⟨m, h, by simpa [total_zero] using hi.bal, fun r => ?_⟩
  have := hi.rel r
  cases hm : m.regs r with
  | none => rfl
  | some v => rw [hm] at this; exact this.elim

/-- The ledger replayed over the EVENT TRACE.  `replayG` walks a sequence of
    lifetime events keeping the set of live storage locations (object, slot) and
    fails on a constructor event at a live location and on a destructor /
    assignment / move event at a dead one (it is the check the harness's Tracked
    type performs on the real code).  For EVERY history the complete event
    sequence of the run passes it, and the live-set it ends with is exactly the
    set of occupied slots of the final state. -/
theorem sv_trace_passes_ledger (c : Cfg) (ops : List Op) :
    ∃ m evs, runEv c ops Mach.init = .ok (m, evs) ∧ run c ops Mach.init = .ok m ∧
      replayG evs (fun _ _ => false) = some (occR m.regs) := by
  obtain ⟨m, evs, h1, _, h3⟩ := runEv_replays ops _ _ (minv_init c)
  rw [occR_init] at h3
  exact ⟨m, evs, h1, runEv_run _ _ _ _ h1, h3⟩

/-- EVERY ELEMENT CONSTRUCTED IS DESTROYED EXACTLY ONCE: for any history followed
    by the destruction of all objects, the event sequence replays from "nothing
    live" to "nothing live" without a failure.  Hence at every storage location
    constructor and destructor events alternate, beginning with a constructor
    and ending with a destructor: each constructor event (each element ever
    created by push, emplace, resize, a constructor, an assignment) is followed
    by exactly one destructor event for it — none is destroyed twice, none is
    overwritten, none survives. -/
theorem sv_every_element_destroyed_exactly_once (c : Cfg) (ops : List Op) :
    ∃ m evs, runEv c (ops ++ [.finish]) Mach.init = .ok (m, evs) ∧
      replayG evs (fun _ _ => false) = some (fun _ _ => false) := by
  obtain ⟨m, evs, h1, h2, h3⟩ := runEv_replays (c := c) (ops ++ [.finish]) _ _ (minv_init c)
  have e : specRun c (ops ++ [.finish]) (fun _ => none) = fun _ => none := by
    rw [specRun_append]; rfl
  rw [e] at h2
  have hn : occR m.regs = fun _ _ => false := by
    funext r
    have := h2.rel r
    cases hm : m.regs r with
    | none => simp [occR, hm]
    | some v => rw [hm] at this; exact this.elim
  rw [occR_init, hn] at h3
  exact ⟨m, evs, h1, h3⟩

/-- the ledger is not vacuous: it rejects a double destruction, a construction
    over a live element, an assignment to raw storage, and reports a leak -/
example : (replayG [⟨0, .ctor, 0⟩, ⟨0, .dtor, 0⟩, ⟨0, .dtor, 0⟩] (fun _ _ => false)).isNone = true := by decide
example : (replayG [⟨0, .ctor, 0⟩, ⟨0, .ctor, 0⟩] (fun _ _ => false)).isNone = true := by decide
example : (replayG [⟨0, .asg, 1⟩] (fun _ _ => false)).isNone = true := by decide
example : ((replayG [⟨0, .ctor, 0⟩, ⟨0, .ctor, 1⟩, ⟨0, .dtor, 0⟩] (fun _ _ => false)).map fun g => g 0 1) = some true := by decide

/-! ### the code as it was: one witness per repaired defect -/

def isFault (f : Fault) : Except Fault Mach → Bool
  | .error g => decide (g = f)
  | .ok _ => false

def cfgC : Cfg := ⟨2, 2, false, true⟩   -- container/ twin, N = 2, two objects, element type with a real move
def cfgP : Cfg := ⟨2, 2, true, true⟩    -- std_portable.h twin

/-- `static_vector<T,2>{1,2,3}`: the third placement-new is outside `_data` -/
theorem il_ctor_orig_witness : isFault .oob (runOrig cfgC [.il 0 [1, 2, 3]] Mach.init) = true := by decide

/-- `clear()` then `push_back`: placement-new over the element that was never destroyed (both twins) -/
theorem clear_orig_witness :
    isFault .ctorOverLive (runOrig cfgC [.new 0, .push 0 5, .clear 0, .push 0 6] Mach.init) = true ∧
    isFault .ctorOverLive (runOrig cfgP [.new 0, .push 0 5, .clear 0, .push 0 6] Mach.init) = true := by decide

/-- `a = b` with `a` non-empty: placement-new over a live element (both twins) -/
theorem assign_copy_orig_witness :
    isFault .ctorOverLive (runOrig cfgC [.new 0, .push 0 1, .new 1, .push 1 2, .acopy 0 1] Mach.init) = true ∧
    isFault .ctorOverLive (runOrig cfgP [.new 0, .push 0 1, .new 1, .push 1 2, .acopy 0 1] Mach.init) = true := by decide

/-- `a = std::move(b)`: over a live element when `a` is non-empty; with `a` empty the
    moved-from elements of `b` stay undestroyed and the next `b.push_back` constructs over one -/
theorem assign_move_orig_witness :
    isFault .ctorOverLive (runOrig cfgC [.new 0, .push 0 1, .new 1, .push 1 2, .amove 0 1] Mach.init) = true ∧
    isFault .ctorOverLive (runOrig cfgP [.new 0, .new 1, .push 1 2, .amove 0 1, .push 1 3] Mach.init) = true := by decide

/-- container/ move constructor: `other.clear()` dropped the moved-from elements -/
theorem move_ctor_orig_witness :
    isFault .ctorOverLive (runOrig cfgC [.new 0, .push 0 1, .move 1 0, .push 0 2] Mach.init) = true := by decide

/-- `erase(begin(), begin()+1)` of two elements: move-assignment into the destroyed slot 0 -/
theorem erase_orig_witness :
    isFault .useRaw (runOrig cfgC [.new 0, .push 0 1, .push 0 2, .erase 0 0 1] Mach.init) = true := by decide

/-- `resize(1)` of two elements then `push_back`: the dropped element is still there -/
theorem resize_orig_witness :
    isFault .ctorOverLive (runOrig cfgC [.new 0, .push 0 1, .push 0 2, .resize 0 1, .push 0 3] Mach.init) = true ∧
    isFault .ctorOverLive (runOrig cfgP [.new 0, .push 0 1, .push 0 2, .resize 0 1, .push 0 3] Mach.init) = true := by decide

/-- the same seven histories on the repaired code end without a fault (instance of `sv_no_fault`) -/
example : isFault .oob (run cfgC [.il 0 [1, 2, 3]] Mach.init) = false := by decide


/-! ## element constructors that throw: the basic exception guarantee

`Exc.lean`: every member function that constructs elements, with a failure
possible at each construction (`b` = how many constructions of the call still
succeed; the next one throws).  `stepX c m op b` / `runX` are the machine of K
containers where every operation of a history carries its own throw point. -/

/-- ONE operation with the throw at ANY of its constructions (or none), from any
    state that represents reference sequences: no fault, it throws exactly when
    the reference says so, and the state it leaves represents the reference
    result of the failed call — in particular every container is again a valid
    container (`MInv`: size ≤ N, objects exactly in the slots below size, ledger
    balanced). -/
theorem sx_step_refines {c : Cfg} {m : Mach} {sp : SpecRegs} (h : MInv c m sp) (op : Op) (b : Nat) :
    ∃ m' res, stepX c m op b = .ok (m', res, (specStepX c sp op b).2) ∧ MInv c m' (specStepX c sp op b).1 :=
  stepX_refines h op b

/-- EVERY history in which ANY subset of the operations throws at ANY of their
    constructions: no fault, and the final state represents the reference
    machine with the same failures. -/
theorem sx_history_refines (c : Cfg) (ops : List (Op × Nat)) :
    ∃ m, runX c ops Mach.init = .ok m ∧ MInv c m (specRunX c ops (fun _ => none)) :=
  runX_refines ops _ _ (minv_init c)

/-- no write outside the storage, no constructor over a live element, no
    destructor on raw storage, no use of raw storage — whatever throws -/
theorem sx_no_fault (c : Cfg) (ops : List (Op × Nat)) (f : Fault) : runX c ops Mach.init ≠ .error f := by
  obtain ⟨m, h, _⟩ := sx_history_refines c ops
  rw [h]; intro e; cases e

/-- elements held by the object in register `r` -/
def heldBy (m : Mach) (r : Nat) : Nat :=
  match m.regs r with
  | some v => v.size
  | none => 0

/-- THE BASIC EXCEPTION GUARANTEE.  After every history with failures, each
    object that exists has `size ≤ N`, every slot below `size` holds a live
    object, no slot at or above `size` holds one, and nothing that was ever
    constructed is lost: constructor calls − destructor calls = the sum of the
    sizes (a constructor that threw has destroyed what it had constructed). -/
theorem sx_basic_guarantee (c : Cfg) (ops : List (Op × Nat)) :
    ∃ m, runX c ops Mach.init = .ok m ∧
      (∀ r v, m.regs r = some v → v.size ≤ c.N ∧ v.slots.length = c.N ∧
        (∀ p, p < v.size → ∃ e, v.slots[p]? = some (.obj e)) ∧
        (∀ p, v.size ≤ p → p < c.N → v.slots[p]? = some .raw)) ∧
      m.nctor = m.ndtor + total (heldBy m) c.K := by
  obtain ⟨m, h, hi⟩ := sx_history_refines c ops
  refine ⟨m, h, ?_, ?_⟩
  · intro r v hv
    have hr := hi.rel r
    rw [hv] at hr
    cases hs : specRunX c ops (fun _ => none) r with
    | none => rw [hs] at hr; exact hr.elim
    | some es =>
      rw [hs] at hr
      refine ⟨by rw [hr.size]; exact hr.le, hr.len, ?_, ?_⟩
      · intro p hp; rw [hr.pt p]; exact slotAt_obj (by rw [← hr.size]; exact hp)
      · intro p hp1 hp2; rw [hr.pt p]; exact slotAt_raw (by rw [← hr.size]; exact hp1) hp2
  · rw [hi.bal]
    congr 1
    apply total_congr
    intro r _
    have hr := hi.rel r
    cases hm : m.regs r with
    | none =>
      have := (rel_none hr).mp hm
      simp [szOf, heldBy, hm, this]
    | some v =>
      rw [hm] at hr
      cases hs : specRunX c ops (fun _ => none) r with
      | none => rw [hs] at hr; exact hr.elim
      | some es => rw [hs] at hr; simp [szOf, heldBy, hm, hs, hr.size]

/-- THE CONTAINERS STAY USABLE: after any history with failures, ANY further
    history (again with failures anywhere) runs without a fault and refines the
    reference machine continued from the reference state. -/
theorem sx_usable_after_failure (c : Cfg) (ops more : List (Op × Nat)) :
    ∃ m m', runX c ops Mach.init = .ok m ∧ runX c more m = .ok m' ∧
      MInv c m' (specRunX c more (specRunX c ops (fun _ => none))) := by
  obtain ⟨m, h, hi⟩ := sx_history_refines c ops
  obtain ⟨m', h', hi'⟩ := runX_refines more m _ hi
  exact ⟨m, m', h, h', hi'⟩

/-- any history with failures followed by the destruction of all objects:
    constructor calls = destructor calls, no object left — every element that a
    failed or a successful call constructed has been destroyed exactly once -/
theorem sx_lifetime_once (c : Cfg) (ops : List (Op × Nat)) :
    ∃ m, runX c (ops ++ [(.finish, 0)]) Mach.init = .ok m ∧ m.nctor = m.ndtor ∧ ∀ r, m.regs r = none := by
  obtain ⟨m, h, hi⟩ := sx_history_refines c (ops ++ [(.finish, 0)])
  have e : specRunX c (ops ++ [(.finish, 0)]) (fun _ => none) = fun _ => none := by
    rw [specRunX_append]; rfl
  rw [e] at hi
  refine ⟨m, h, by simpa [total_zero] using hi.bal, fun r => ?_⟩
  have := hi.rel r
  cases hm : m.regs r with
  | none => rfl
  | some v => rw [hm] at this; exact this.elim

/-- a failed `push_back` / `emplace_back` changes nothing (strong guarantee) -/
theorem failed_push_changes_nothing (N : Nat) (v : SVec) (x : Nat) (hroom : v.size < N) :
    pushBackX N v x 0 = .ok (v, [], true) := by
  have : ¬ v.size ≥ N := by omega
  simp [pushBackX, this]

/-- a failed copy assignment has destroyed the old elements and holds exactly the
    `b` elements it had copied; a failed move assignment likewise, its source
    keeps all its elements, the first `b` of them moved-from -/
theorem failed_assign_keeps_prefix (trk : Bool) {N : Nat} {v o : SVec} {es eo : List Elem}
    (hv : Abs N v es) (ho : Abs N o eo) {b : Nat} (hb : b < eo.length) :
    (∃ v' tr, assignCopyX v o b = .ok (v', tr, true) ∧ v'.contents = eo.take b ∧ v'.size = b ∧
        nC tr = b ∧ nD tr = es.length) ∧
    (∃ v' o' tr, assignMoveX trk v o b = .ok (v', o', tr, true) ∧ v'.contents = eo.take b ∧ v'.size = b ∧
        o'.contents = movedPrefix trk b eo ∧ o'.size = eo.length ∧ nC tr = b ∧ nD tr = es.length) := by
  obtain ⟨v', tr, p1, p2, p3, p4⟩ := assignCopyX_spec hv ho b
  obtain ⟨w', o', tr', q1, q2, q3, q4, q5⟩ := assignMoveX_spec trk hv ho b
  have hd : decide (b < eo.length) = true := by simpa using hb
  rw [hd] at p1 q1
  rw [if_pos hb] at q3 q5
  refine ⟨⟨v', tr, p1, p2.contents, by rw [p2.size]; simp; omega, by rw [p3]; omega, p4⟩,
    ⟨w', o', tr', q1, q2.contents, by rw [q2.size]; simp; omega, q3.contents, by rw [q3.size]; simp,
      by rw [q4]; omega, by rw [q5]; omega⟩⟩

/-- a failed `resize` keeps the old elements and the `b` new ones it had constructed -/
theorem failed_resize_keeps_constructed {N : Nat} {v : SVec} {es : List Elem} (h : Abs N v es) {n b : Nat}
    (hb : es.length < min n N ∧ b < min n N - es.length) :
    ∃ v' tr, resizeX N v n b = .ok (v', tr, true) ∧ v'.contents = es ++ List.replicate b (some 0) ∧
      v'.size = es.length + b ∧ nC tr = b ∧ nD tr = 0 := by
  obtain ⟨v', tr, p1, p2, p3⟩ := resizeX_spec h n b
  have e : specResizeX N es n b = (es ++ List.replicate b (some 0), true) := by simp [specResizeX, hb]
  rw [e] at p1 p2 p3
  have hsz : v'.size = es.length + b := by rw [p2.size]; simp
  -- the number of destructor calls: the body of the failed call has no destruction
  have hbody : ∃ s1 tr1 k, valueInitLoopX ((if n ≥ N then N else n) - v.size) v.size v.slots b = .ok (s1, tr1, k, true) ∧
      v' = ⟨s1, v.size + k⟩ ∧ tr = tr1 := by
    simp only [resizeX, bind, Except.bind] at p1
    cases hl : valueInitLoopX ((if n ≥ N then N else n) - v.size) v.size v.slots b with
    | error er => rw [hl] at p1; cases p1
    | ok q =>
      obtain ⟨s1, tr1, k, t⟩ := q
      rw [hl] at p1
      cases t with
      | true => simp [pure, Except.pure] at p1; exact ⟨s1, tr1, k, rfl, p1.1.symm, p1.2.symm⟩
      | false =>
        simp only [Bool.false_eq_true, if_false] at p1
        cases hd : destroyLoop (v.size - (if n ≥ N then N else n)) (if n ≥ N then N else n) s1 with
        | error er => rw [hd] at p1; cases p1
        | ok q2 => rw [hd] at p1; simp [pure, Except.pure] at p1
  obtain ⟨s1, tr1, k, hl, _, htr⟩ := hbody
  have hnd : nD tr = 0 := by
    rw [valueInitLoopX_eq] at hl
    cases hv : valueInitLoop (min ((if n ≥ N then N else n) - v.size) b) v.size v.slots with
    | error er => rw [hv] at hl; cases hl
    | ok q =>
      rw [hv] at hl
      simp only [Except.map, Except.ok.injEq, Prod.mk.injEq] at hl
      have hs := h.size; have hl' := h.le
      obtain ⟨s2, tr2, a1, _, a3, _, _⟩ := valueInitLoop_spec (min ((if n ≥ N then N else n) - v.size) b) v.size v.slots (by
        intro p hp1 hp2
        rw [h.pt p]; exact slotAt_raw (by omega) (by split at hp2 <;> omega))
      rw [a1] at hv; cases hv
      rw [htr, ← hl.2.1]; exact a3
  refine ⟨v', tr, p1, p2.contents, hsz, ?_, hnd⟩
  simp only [List.length_append, List.length_replicate] at p3
  omega

/-- a constructor whose element constructor throws leaves NO object and has
    destroyed exactly the `b` elements it had constructed (copy, move, iterator
    range and initializer-list constructor) -/
theorem failed_ctor_leaves_nothing (port trk : Bool) {N : Nat} {o : SVec} {eo : List Elem} (ho : Abs N o eo) (b : Nat) :
    (b < eo.length → ∃ tr, copyCtorX N o b = .ok (none, tr, true) ∧ nC tr = b ∧ nD tr = b) ∧
    (b < eo.length → ∃ o' tr, moveCtorX port trk N o b = .ok (none, o', tr, true) ∧
        o'.contents = movedPrefix trk b eo ∧ o'.size = eo.length ∧ nC tr = b ∧ nD tr = b) ∧
    (∀ xs : List Nat, b < min xs.length N →
        (∃ tr, rangeCtorX N xs b = .ok (none, tr, true) ∧ nC tr = b ∧ nD tr = b) ∧
        (∃ tr, ilCtorX N xs b = .ok (none, tr, true) ∧ nC tr = b ∧ nD tr = b)) := by
  refine ⟨?_, ?_, ?_⟩
  · intro hb
    obtain ⟨w, tr, p1, p2, p3, p4⟩ := copyCtorX_spec ho b
    have hd : decide (b < eo.length) = true := by simpa using hb
    rw [hd] at p1; rw [if_pos hb] at p2 p4
    cases w with
    | some v => exact p2.elim
    | none => exact ⟨tr, p1, by rw [p3]; omega, p4⟩
  · intro hb
    obtain ⟨w, o', tr, p1, p2, p3, p4, p5⟩ := moveCtorX_spec port trk ho b
    have hd : decide (b < eo.length) = true := by simpa using hb
    rw [hd] at p1; rw [if_pos hb] at p2 p3 p5
    cases w with
    | some v => exact p2.elim
    | none => exact ⟨o', tr, p1, p3.contents, by rw [p3.size]; simp, by rw [p4]; omega, p5⟩
  · intro xs hb
    have hd : decide (b < min xs.length N) = true := by simpa using hb
    obtain ⟨w, tr, p1, p2, p3, p4⟩ := rangeCtorX_spec N xs b
    obtain ⟨w', tr', q1, q2, q3, q4⟩ := ilCtorX_spec N xs b
    rw [hd] at p1 q1; rw [if_pos hb] at p2 p4 q2 q4
    cases w with
    | some v => exact p2.elim
    | none =>
      cases w' with
      | some v => exact q2.elim
      | none => exact ⟨⟨tr, p1, by rw [p3]; omega, p4⟩, ⟨tr', q1, by rw [q3]; omega, q4⟩⟩

/-- a call that did not throw is the call of `Model.lean`: same storage, same
    size, same events (the two descriptions of the member functions agree
    wherever they overlap) -/
theorem no_throw_is_plain {N : Nat} {v o v' : SVec} {n b : Nat} {tr : Tr} :
    (∀ w, copyCtorX N o b = .ok (w, tr, false) → ∃ u, w = some u ∧ copyCtor N o = .ok (u, tr)) ∧
    (assignCopyX v o b = .ok (v', tr, false) → assignCopy v o = .ok (v', tr)) ∧
    (resizeX N v n b = .ok (v', tr, false) → resize N v n = .ok (v', tr)) :=
  ⟨fun _ h => copyCtorX_done h, assignCopyX_done, resizeX_done⟩

/-- the hypotheses above are satisfiable, and a throw really is a throw -/
example : (stepX ⟨2, 2, false, true⟩ Mach.init (.new 0) 0).toOption.isSome = true := by decide
example : (match pushBackX 2 ⟨[.raw, .raw], 0⟩ 7 0 with | .ok (_, _, t) => t | _ => false) = true := by decide

/-! ### the code as it was, with a throwing element constructor -/

/-- `a = b` with `m_size = other.m_size` before the loop, second copy throws:
    `size()` is 2 with one element; the destructor then runs on raw storage -/
theorem assign_throw_orig_witness :
    (match assignCopyXOrig ⟨[.raw, .raw], 0⟩ ⟨[.obj (some 5), .obj (some 6)], 2⟩ 1 with
      | .ok (v, _, true) => (match destructor v with | .error .dtorRaw => true | _ => false)
      | _ => false) = true := by decide

/-- `resize(3)` of one element, second `T{}` throws: one new element stays above
    `size()`; the next `push_back` constructs over it -/
theorem resize_throw_orig_witness :
    (match resizeXOrig 3 ⟨[.obj (some 1), .raw, .raw], 1⟩ 3 1 with
      | .ok (v, _, true) => (match pushBack 3 v 9 with | .error .ctorOverLive => true | _ => false)
      | _ => false) = true := by decide

/-- copy constructor, second copy throws: one element constructed, none destroyed, no object -/
theorem ctor_throw_orig_witness :
    (match copyCtorXOrig 2 ⟨[.obj (some 1), .obj (some 2)], 2⟩ 1 with
      | .ok (none, tr, true) => decide (nC tr = 1 ∧ nD tr = 0)
      | _ => false) = true := by decide

/-- the same three calls on the repaired code -/
example : (match assignCopyX ⟨[.raw, .raw], 0⟩ ⟨[.obj (some 5), .obj (some 6)], 2⟩ 1 with
      | .ok (v, _, true) => (match destructor v with | .ok _ => true | _ => false)
      | _ => false) = true := by decide
example : (match resizeX 3 ⟨[.obj (some 1), .raw, .raw], 1⟩ 3 1 with
      | .ok (v, _, true) => (match pushBack 3 v 9 with | .ok _ => true | _ => false)
      | _ => false) = true := by decide
example : (match copyCtorX 2 ⟨[.obj (some 1), .obj (some 2)], 2⟩ 1 with
      | .ok (none, tr, true) => decide (nC tr = 1 ∧ nD tr = 1)
      | _ => false) = true := by decide

/-! ## the width of the size counter

The model keeps `size : Nat`.  The code keeps `std::size_t m_size`; a store
into a `w`-bit unsigned counter keeps `n % 2^w`. -/

/-- A `w`-bit counter represents every size `0 … N` of a container of capacity
    `N` exactly iff `N < 2^w` (N + 1 values are needed): for `size_t` the model's
    `Nat` is faithful for every `N < 2^64`, a `uint8_t` counter is not for
    `N = 256`, a `uint16_t` one not for `N = 65536`.  The correspondence stream
    runs the capacities `2^w − 1, 2^w, 2^w + 1` for `w = 8, 16` (strings also
    `w = 7`) filled to capacity and beyond. -/
theorem size_counter_width (w N : Nat) : (∀ n, n ≤ N → stored w n = n) ↔ N < 2 ^ w := by
  constructor
  · intro h
    have := h N (Nat.le_refl _)
    unfold stored at this
    have hp : 0 < 2 ^ w := Nat.pos_of_ne_zero (by simp)
    have := Nat.mod_lt N hp
    omega
  · intro h n hn
    exact Nat.mod_eq_of_lt (by omega)

/-- at `N = 2^w` the full container reads `size() = 0` -/
theorem size_counter_wraps (w : Nat) : stored w (2 ^ w) = 0 := Nat.mod_self _

/-- `push_back` with a `w`-bit counter IS the `push_back` of the model whenever
    the capacity fits the counter (`N < 2^w`) and the size is in range — for
    `size_t` (w = 64) that is every capacity below 2^64 -/
theorem narrow_counter_exact {w N : Nat} (hN : N < 2 ^ w) (v : SVec) (x : Nat) (hs : v.size ≤ N) :
    pushBackW w N v x = pushBack N v x := by
  unfold pushBackW pushBack
  by_cases hf : v.size ≥ N
  · simp [hf]
  · have : stored w (v.size + 1) = v.size + 1 := Nat.mod_eq_of_lt (by omega)
    simp [hf, this]

/-- and it is NOT when `N = 2^w` (here w = 2, N = 4, the shape of the seeded
    `uint8_t` counter for N = 256): the fourth push makes the full container read
    size 0, its guard can never fire again, and the fifth push placement-constructs
    over the live element in slot 0.  The model's `push_back` drops it. -/
theorem narrow_counter_witness :
    (match pushAllW 2 4 [1, 2, 3, 4] ⟨rawStore 4, 0⟩ with
      | .ok v => decide (v.size = 0) && (match pushBackW 2 4 v 5 with | .error .ctorOverLive => true | _ => false)
      | _ => false) = true ∧
    (match rangeLoop 4 [1, 2, 3, 4, 5] ⟨rawStore 4, 0⟩ with
      | .ok (v, _) => decide (v.size = 4)
      | _ => false) = true := by decide

/-! ## read accessors -/

/-- `operator[]`, `data()[i]`, `*(begin()+i)` for every `i < size()`, `front()`,
    `back()`, `end() - begin()`: no fault, and the element of the reference
    sequence -/
theorem sv_accessors_refine {N : Nat} {v : SVec} {es : List Elem} (h : Abs N v es) :
    (∀ i, i < es.length → v.at i = .ok (es.getD i none)) ∧
    (0 < es.length → v.front = .ok (es.getD 0 none) ∧ v.back = .ok (es.getD (es.length - 1) none)) ∧
    v.dist = es.length := by
  have hat : ∀ i, i < es.length → v.at i = .ok (es.getD i none) := by
    intro i hi
    have hp := h.pt i
    simp only [slotAt, hi, if_true] at hp
    have : es[i]? = some (es[i]) := List.getElem?_eq_getElem hi
    rw [this] at hp
    simp only [Option.map] at hp
    simp [SVec.at, readObj, hp, List.getD, this]
  refine ⟨hat, ?_, h.size⟩
  intro hpos
  refine ⟨hat 0 hpos, ?_⟩
  have := hat (es.length - 1) (by omega)
  simpa [SVec.back, SVec.at, h.size] using this

example : (match SVec.at ⟨[.obj (some 7), .raw], 1⟩ 0 with | .ok (some 7) => true | _ => false) = true := by decide
example : (match SVec.at ⟨[.obj (some 7), .raw], 1⟩ 1 with | .error .useRaw => true | _ => false) = true := by decide

/-! ## static_string -/

/-- `static_string(const char*)` for a C string of ANY length: no access outside
    `data[N+1]`, at most N characters kept, and they are the first N. -/
theorem ss_cstring_ctor_keeps_prefix {N : Nat} {junk arg : List Byte} (hj : junk.length = N + 1)
    (h0 : (0 : Byte) ∈ arg) :
    ∃ s, sCtorPtr N junk arg = .ok s ∧ s.size = min (arg.takeWhile nz).length N ∧ s.size ≤ N ∧
      s.data.length = N + 1 ∧ s.contents = (arg.takeWhile nz).take N := by
  obtain ⟨s, h1, h2⟩ := sCtorPtr_spec hj h0
  refine ⟨s, h1, ?_, by rw [h2.size]; exact h2.le, h2.len, h2.contents⟩
  rw [h2.size]; simp [Nat.min_comm]

/-- `static_string(const char*, size_t)` (std_portable.h; used by `split`) -/
theorem ss_ptr_len_ctor_keeps_prefix {N : Nat} {junk arg : List Byte} {n : Nat} (hj : junk.length = N + 1)
    (hn : n ≤ arg.length) :
    ∃ s, sCtorPtrLen N junk arg n = .ok s ∧ s.size = min n N ∧ s.data.length = N + 1 ∧
      s.contents = (arg.take n).take N := by
  obtain ⟨s, h1, h2⟩ := sCtorPtrLen_spec hj hn
  refine ⟨s, h1, ?_, h2.len, h2.contents⟩
  rw [h2.size]; simp; omega

/-- EVERY history of string operations (constructors from C strings of any
    length, push_back / operator+= beyond the capacity, operator[] writes,
    c_str, copies, clear) on K objects: no access outside any `data[N+1]`,
    every answer (`c_str()`, `operator[]`) is the reference's, and the final
    objects represent the reference strings. -/
theorem ss_history_refines (c : SCfg) (hj : c.junk.length = c.N + 1) (ops : List SOp)
    (hwf : ∀ op, op ∈ ops → op.wf) :
    ∃ m, srun c ops (fun _ => none) = .ok (m, (specSRun c ops (fun _ => none)).2) ∧
      SInv c m (specSRun c ops (fun _ => none)).1 :=
  srun_refines hj ops _ _ (fun _ => trivial) hwf

theorem ss_size_le_N (c : SCfg) (hj : c.junk.length = c.N + 1) (ops : List SOp)
    (hwf : ∀ op, op ∈ ops → op.wf) :
    ∃ m outs, srun c ops (fun _ => none) = .ok (m, outs) ∧ ∀ r s, m r = some s →
      s.size ≤ c.N ∧ s.data.length = c.N + 1 ∧ (specSRun c ops (fun _ => none)).1 r = some s.contents := by
  obtain ⟨m, h, hi⟩ := ss_history_refines c hj ops hwf
  refine ⟨m, _, h, ?_⟩
  intro r s hs
  have := hi r
  rw [hs] at this
  cases hq : (specSRun c ops (fun _ => none)).1 r with
  | none => rw [hq] at this; exact this.elim
  | some es =>
    rw [hq] at this
    exact ⟨by rw [this.size]; exact this.le, this.len, by rw [this.contents]⟩

/-- `c_str()` writes the terminator inside the object and the caller reads the
    contents up to their first NUL — all of them when there is none -/
theorem ss_c_str {N : Nat} {s : SStr} {es : List Byte} (h : SAbs N s es) :
    ∃ s' out, sCStr s = .ok (s', out) ∧ s'.contents = es ∧ out = es.takeWhile nz ∧
      ((0 : Byte) ∉ es → out = es) := by
  obtain ⟨s', out, h1, h2, h3⟩ := sCStr_spec h
  refine ⟨s', out, h1, h2.contents, h3, ?_⟩
  intro hz
  rw [h3]
  apply tw_all
  intro x hx
  have : x ≠ 0 := fun e => hz (e ▸ hx)
  simp [nz]; exact this

/-- `split<VSize,SSize>(delim)` (std_portable.h) of a string holding `es`, for
    every VSize, SSize, delimiter and contents: no access outside the string or
    outside any token object, at most VSize tokens of at most SSize characters
    each, and they are the first VSize tokens of the reference tokenizer
    (`tokens`: maximal delimiter-free runs, empty ones skipped), each cut to its
    first SSize characters. -/
theorem ss_split_refines {N : Nat} {s : SStr} {es : List Byte} (h : SAbs N s es) (delim : Byte) (VS SS : Nat)
    {junk : List Byte} (hj : junk.length = SS + 1) :
    ∃ toks, sSplit s delim VS SS junk = .ok toks ∧ toks.length ≤ VS ∧
      (∀ t, t ∈ toks → t.size ≤ SS ∧ t.data.length = SS + 1) ∧
      toks.map SStr.contents = ((tokens delim es).map (List.take SS)).take VS := by
  obtain ⟨toks, h1, h2, h3, h4⟩ := sSplit_spec h delim VS SS hj
  refine ⟨toks, h1, h3, ?_, h4⟩
  intro t ht
  have := h2 t ht
  exact ⟨by rw [this.size]; exact this.le, this.len⟩

/-- the reference tokenizer on ",a,,bc," -/
example : tokens 0x2c [0x2c, 0x61, 0x2c, 0x2c, 0x62, 0x63, 0x2c] = [[0x61], [0x62, 0x63]] := by decide

/-- before the repair: "abcde" into a `static_string<3>` writes `data[4]` -/
theorem ss_ctor_orig_witness :
    (match sCtorPtrOrig (List.replicate 4 0xAA) [0x61, 0x62, 0x63, 0x64, 0x65, 0] with
      | .error .oob => true | _ => false) = true ∧
    (match sCtorPtrLenOrig (List.replicate 4 0xAA) [0x61, 0x62, 0x63, 0x64, 0x65] 5 with
      | .error .oob => true | _ => false) = true := by decide

/-- the hypotheses above are satisfiable -/
example : SAbs 3 ⟨[0x61, 0x62, 0xAA, 0xAA], 2⟩ [0x61, 0x62] := ⟨rfl, rfl, by decide, rfl⟩
example : Abs 2 ⟨[.obj (some 7), .raw], 1⟩ [some 7] :=
  ⟨rfl, rfl, by decide, by intro p; match p with | 0 => rfl | 1 => rfl | (p + 2) => simp [slotAt]⟩
example : (SOp.ptr 0 [0x61, 0]).wf := by simp [SOp.wf]

/-! # Extension round 3

## the size counter has the bit width of its C type

`stepW w` / `runW w` (`Model3.lean`) is the machine of `Model.lean` with a
`w`-bit `m_size`: every store keeps `n % 2^w`, the loops that count `++m_size`
count through the narrow counter.  The driver runs THIS machine, with the
width that the harness reads out of the compiled code (`8 * sizeof(m_size)`) —
so the theorems below are what carries every list-level theorem of this file
over to the code's counter type. -/

/-- the counter of EVERY state that represents a reference sequence is stored
    exactly iff the capacity fits the counter (`N + 1` values are needed) -/
theorem width_exact_iff (w N : Nat) :
    (∀ v es, Abs N v es → stored w v.size = v.size) ↔ N < 2 ^ w := by
  constructor
  · intro h
    have ha : Abs N ⟨List.replicate N (.obj none), N⟩ (List.replicate N none) :=
      ⟨by simp, by simp, by simp, by
        intro p
        simp only [slotAt, List.length_replicate, List.getElem?_replicate]
        by_cases hp : p < N <;> simp [hp]⟩
    have := h _ _ ha
    simp only [stored] at this
    have hp : 0 < 2 ^ w := Nat.pos_of_ne_zero (by simp)
    have := Nat.mod_lt N hp
    omega
  · intro h v es ha
    exact stored_small (by have := ha.size; have := ha.le; omega)

/-- ONE operation: with `N < 2^w` the `w`-bit machine IS the machine of the
    theorems above, from every state that represents reference sequences -/
theorem width_step_exact {w : Nat} {c : Cfg} {m : Mach} {sp : SpecRegs} (h : MInv c m sp) (hN : c.N < 2 ^ w) (op : Op) :
    stepW w c m op = step c m op := stepW_eq h hN op

/-- EVERY history: for `N < 2^w` the run with the `w`-bit counter is the run of
    the natural-number model, hence no fault and the reference sequences —
    `sv_history_refines`, `sv_no_fault`, `sv_size_le_N_and_contents`,
    `sv_lifetime_*` hold verbatim for `runW w` (w = 64: every N < 2^64) -/
theorem width_history_transfers (w : Nat) (c : Cfg) (hN : c.N < 2 ^ w) (ops : List Op) :
    runW w c ops Mach.init = run c ops Mach.init ∧
    ∃ m, runW w c ops Mach.init = .ok m ∧ MInv c m (specRun c ops (fun _ => none)) := by
  have e := runW_eq hN ops _ _ (minv_init c)
  obtain ⟨m, h1, h2⟩ := sv_history_refines c ops
  exact ⟨e, m, by rw [e]; exact h1, h2⟩

/-- and for `N = 2^w` it is not (w = 2, N = 4): the fourth push wraps the counter
    to 0 and the fifth constructs over the live element in slot 0; `resize(4)` of a
    one-element container wraps inside its own loop and constructs over slot 0;
    the natural-number model ends both histories with 4 elements -/
theorem width_machine_witness :
    isFault .ctorOverLive (runW 2 ⟨4, 1, false, true⟩ [.new 0, .push 0 1, .push 0 2, .push 0 3, .push 0 4, .push 0 5] Mach.init) = true ∧
    isFault .ctorOverLive (runW 2 ⟨4, 1, false, true⟩ [.new 0, .push 0 1, .resize 0 4] Mach.init) = true ∧
    (match run ⟨4, 1, false, true⟩ [.new 0, .push 0 1, .push 0 2, .push 0 3, .push 0 4, .push 0 5] Mach.init with
      | .ok m => (m.regs 0).map (·.size) | _ => none) = some 4 ∧
    (match runW 3 ⟨4, 1, false, true⟩ [.new 0, .push 0 1, .push 0 2, .push 0 3, .push 0 4, .push 0 5] Mach.init with
      | .ok m => (m.regs 0).map (·.size) | _ => none) = some 4 := by decide

/-- static_string: `push_back` / `(ptr,len)` need `N < 2^w`; the C-string
    constructor stores `strlen(dat)` before it clamps, so it needs the LENGTH OF
    THE ARGUMENT to fit the counter as well -/
theorem ss_width_exact {w N : Nat} (hN : N < 2 ^ w) (junk arg : List Byte) :
    (∀ s c, s.size ≤ N → sPushW w N s c = sPush N s c) ∧
    (∀ sz, sCtorPtrLenW w N junk arg sz = sCtorPtrLen N junk arg sz) ∧
    ((0 : Byte) ∈ arg → arg.length ≤ 2 ^ w → sCtorPtrW w N junk arg = sCtorPtr N junk arg) :=
  ⟨fun s c hs => sPushW_eq hN s c hs, fun sz => sCtorPtrLenW_eq hN junk arg sz, fun h0 hl => sCtorPtrW_eq hN h0 hl⟩

/-- EVERY history of string operations whose C-string arguments fit the counter:
    the `w`-bit string machine is the machine of `ss_history_refines` -/
theorem ss_width_history_transfers {w : Nat} (c : SCfg) (hj : c.junk.length = c.N + 1) (hN : c.N < 2 ^ w)
    (ops : List SOp) (hwf : ∀ op, op ∈ ops → op.wf ∧ op.fitsW w) :
    srunW w c ops (fun _ => none) = srun c ops (fun _ => none) :=
  srunW_eq hj hN ops (fun _ => none) (fun _ => none) (fun _ => trivial) hwf

example : (SOp.ptr 0 [0x61, 0]).wf ∧ (SOp.ptr 0 [0x61, 0]).fitsW 64 := by simp [SOp.wf, SOp.fitsW]

/-- `static_string<3>("abcde")` with a 2-bit counter: strlen 5 is stored as 1, which
    is not `> 3`: one character is kept instead of three -/
theorem ss_width_witness :
    (match sCtorPtrW 2 3 [0xAA, 0xAA, 0xAA, 0xAA] [0x61, 0x62, 0x63, 0x64, 0x65, 0] with
      | .ok s => decide (s.size = 1) | _ => false) = true ∧
    (match sCtorPtr 3 [0xAA, 0xAA, 0xAA, 0xAA] [0x61, 0x62, 0x63, 0x64, 0x65, 0] with
      | .ok s => decide (s.size = 3) | _ => false) = true := by decide

/-! ## writes through `operator[]`, `data()`, iterators, `front()`, `back()`, range-for -/

/-- ONE operation of the machine that has the writes (`v[i] = x`, `v.front() = x`,
    `v.back() = x`, `for (auto &e : v) e = x`, `T y = std::move(v[i])`) next to the
    14 operations: no fault, the reference result, the ledger balance -/
theorem sv_write_step_refines {c : Cfg} {m : Mach} {sp : SpecRegs} (h : MInv c m sp) (op : Op3) :
    ∃ mr : Mach × Res, step3 c m op = .ok mr ∧ MInv c mr.1 (specStep3 c sp op) :=
  step3_refines h op

/-- EVERY history of the 14 operations and the writes, from no object -/
theorem sv_write_history_refines (c : Cfg) (ops : List Op3) :
    ∃ m, run3 c ops Mach.init = .ok m ∧ MInv c m (specRun3 c ops (fun _ => none)) :=
  run3_refines ops _ _ (minv_init c)

/-- per write: one assignment / move-from event on exactly that slot, no
    constructor or destructor call, the size unchanged, and the sequence is the
    reference's with that one element replaced (all of them for range-for) -/
theorem sv_writes_exact (trk : Bool) {N : Nat} {v : SVec} {es : List Elem} (h : Abs N v es) (x : Nat) :
    (∀ i, i < es.length → ∃ w, v.setAt i x = .ok (w, [⟨false, .asg, i⟩]) ∧ w.contents = es.set i (some x) ∧ w.size = v.size) ∧
    (0 < es.length → (∃ w, v.setFront x = .ok (w, [⟨false, .asg, 0⟩]) ∧ w.contents = es.set 0 (some x)) ∧
      (∃ w, v.setBack x = .ok (w, [⟨false, .asg, es.length - 1⟩]) ∧ w.contents = es.set (es.length - 1) (some x))) ∧
    (∃ w tr, v.fillAll x = .ok (w, tr) ∧ w.contents = List.replicate es.length (some x) ∧ nC tr = 0 ∧ nD tr = 0) ∧
    (∀ i, i < es.length → ∃ w, v.takeAt trk i = .ok (es.getD i none, w, [⟨false, .mv, i⟩]) ∧
      w.contents = (if trk then es.set i none else es)) := by
  refine ⟨?_, ?_, ?_, ?_⟩
  · intro i hi
    obtain ⟨w, p1, p2⟩ := setAt_spec h hi x
    refine ⟨w, p1, p2.contents, ?_⟩
    rw [p2.size, h.size]; simp
  · intro hpos
    obtain ⟨w, p1, p2⟩ := setAt_spec h hpos x
    obtain ⟨w', q1, q2⟩ := setAt_spec h (show es.length - 1 < es.length by omega) x
    exact ⟨⟨w, p1, p2.contents⟩, ⟨w', by simpa [SVec.setBack, h.size] using q1, q2.contents⟩⟩
  · obtain ⟨w, tr, p1, p2, p3, p4⟩ := fillAll_spec h x
    refine ⟨w, tr, p1, ?_, p3, p4⟩
    rw [p2.contents]
    apply List.ext_getElem?
    intro p
    simp [List.getElem?_replicate]
    by_cases hp : p < es.length <;> simp [hp]
  · intro i hi
    obtain ⟨w, p1, p2⟩ := takeAt_spec trk h hi
    exact ⟨w, p1, by rw [p2.contents]; rfl⟩

example : (match SVec.setAt ⟨[.obj (some 7), .raw], 1⟩ 1 9 with | .error .useRaw => true | _ => false) = true := by decide

/-! ## `erase` when an element move-assignment throws -/

/-- `erase(begin()+i, begin()+j)` whose `(a+1)`-th element assignment throws (`a` =
    the number that still succeed; a throwing assignment has changed neither
    side): when `a` covers all `|es| − j` assignments it IS `erase`; otherwise no
    fault, no constructor or destructor call, the size is unchanged and every
    slot below it still holds a live object — the sequence is `specEraseFail`
    (positions `[i,i+a)` hold what was at `[j,j+a)`, the sources not overwritten
    are moved-from, the rest is untouched) — so the container is a valid
    container (basic guarantee) and its destructor destroys exactly `|es|`
    elements: nothing constructed is lost or destroyed twice -/
theorem erase_assignment_throw (trk : Bool) {N : Nat} {v : SVec} {es : List Elem} (h : Abs N v es) {i j : Nat}
    (hij : i < j) (hj : j ≤ es.length) (a : Nat) :
    (es.length - j ≤ a → eraseX trk v i j a = (erase trk v i j).map (fun q => (q.1, q.2, false))) ∧
    (a < es.length - j → ∃ w tr, eraseX trk v i j a = .ok (w, tr, true) ∧
      Abs N w (specEraseFail trk es i j a) ∧ w.size = es.length ∧ w.contents.length = es.length ∧
      w.contents.take i = es.take i ∧ nC tr = 0 ∧ nD tr = 0 ∧
      ∃ w' tr', destructor w = .ok (w', tr') ∧ w'.slots = rawStore N ∧ nD tr' = es.length) := by
  refine ⟨fun ha => eraseX_done_spec trk v i j a (by rw [h.size]; exact ha), ?_⟩
  intro ha
  obtain ⟨w, tr, p1, p2, p3, p4, p5⟩ := eraseX_fail_spec trk h hij hj ha
  obtain ⟨w', tr', q1, q2, _, _, q5⟩ := destructor_destroys_all p2
  have hlen : (specEraseFail trk es i j a).length = es.length := by simp [specEraseFail]
  refine ⟨w, tr, p1, p2, p3, by rw [p2.contents, hlen], ?_, p4, p5, w', tr', q1, q2, by rw [q5, hlen]⟩
  rw [p2.contents]
  apply List.ext_getElem?
  intro p
  simp only [List.getElem?_take, specEraseFail, List.getElem?_map]
  by_cases hp : p < i
  · have hpl : p < es.length := by omega
    simp only [hp, if_true, List.getElem?_range hpl, Option.map]
    rw [if_neg (by omega), if_neg (by omega)]
    simp [List.getD, List.getElem?_eq_getElem hpl]
  · simp [hp]

example : (match eraseX true ⟨[.obj (some 1), .obj (some 2), .obj (some 3)], 3⟩ 0 1 1 with
    | .ok (w, _, true) => decide (w.contents = [some 2, none, some 3]) | _ => false) = true := by decide

/-! ## the event-trace ledger over histories with throws -/

/-- For EVERY history in which ANY operations throw at ANY of their element
    constructions, the complete sequence of lifetime events (`runEvX`: what the
    driver prints op by op, the events of failed calls and of the unwinding
    destructor included) passes the ledger replay — no constructor event at a
    live location, no destructor / assignment / move event at a dead one — and
    ends with exactly the occupied slots of the final state. -/
theorem sx_trace_passes_ledger (c : Cfg) (ops : List (Op × Nat)) :
    ∃ m evs, runEvX c ops Mach.init = .ok (m, evs) ∧ runX c ops Mach.init = .ok m ∧
      replayG evs (fun _ _ => false) = some (occR m.regs) := by
  obtain ⟨m, evs, h1, _, h3⟩ := runEvX_replays ops _ _ (minv_init c)
  rw [occR_init] at h3
  exact ⟨m, evs, h1, runEvX_runX _ _ _ _ h1, h3⟩

/-- EVERY ELEMENT CONSTRUCTED IS DESTROYED EXACTLY ONCE, also when constructors
    throw: any history with failures followed by the destruction of all objects
    replays from "nothing live" to "nothing live" -/
theorem sx_every_element_destroyed_exactly_once (c : Cfg) (ops : List (Op × Nat)) :
    ∃ m evs, runEvX c (ops ++ [(.finish, 0)]) Mach.init = .ok (m, evs) ∧
      replayG evs (fun _ _ => false) = some (fun _ _ => false) := by
  obtain ⟨m, evs, h1, h2, h3⟩ := runEvX_replays (c := c) (ops ++ [(.finish, 0)]) _ _ (minv_init c)
  have e : specRunX c (ops ++ [(.finish, 0)]) (fun _ => none) = fun _ => none := by
    rw [specRunX_append]; rfl
  rw [e] at h2
  have hn : occR m.regs = fun _ _ => false := by
    funext r
    have := h2.rel r
    cases hm : m.regs r with
    | none => simp [occR, hm]
    | some v => rw [hm] at this; exact this.elim
  rw [occR_init, hn] at h3
  exact ⟨m, evs, h1, h3⟩

/-- a copy constructor whose second copy throws: construct 1.0, destroy 1.0 — the replay passes and nothing is live -/
example : (match runEvX ⟨2, 2, false, true⟩ [(.new 0, 9), (.push 0 1, 9), (.push 0 2, 9), (.copy 1 0, 1)] Mach.init with
    | .ok (_, evs) => decide (evs = [⟨0, .ctor, 0⟩, ⟨0, .ctor, 1⟩, ⟨1, .ctor, 0⟩, ⟨1, .dtor, 0⟩]) | _ => false) = true := by decide

/-! ## unbounded_array: never outside its block -/

/-- ONE operation of `unbounded_array` on the storage level (one heap block of
    exactly `size` slots; an access at an index outside the block, a constructor
    over a live element, a destructor / assignment on raw storage are faults):
    no fault, in the contract exactly when the list-level meaning `ustep` is,
    and the blocks then hold exactly the objects of the reference lists -/
theorem ua_step_refines {K : Nat} {m : URegsS} {sp : URegs} (h : UInv m sp) (op : UOp) :
    ∃ res, ustepS K m op = .ok res ∧ UOut res (ustep K sp op) :=
  ustepS_refines h op

/-- EVERY history of constructors (size, (ptr,len) / initializer list, copy, move),
    `operator=`, `resize`, `fill`, `operator[]` writes, `clear`, destruction on K arrays:
    never a write outside a block, and the reference lists -/
theorem ua_history_refines (K : Nat) (ops : List UOp) :
    ∃ m, urunS K ops (fun _ => none) = .ok m ∧ UInv m (urun K ops (fun _ => none)) :=
  urunS_refines ops _ _ (fun _ => trivial)

/-- `resize(n)` / `operator=`: the old block's elements are destroyed (each once),
    the new block has exactly `n` / `|other|` slots, each constructed once, and
    holds zeros / the other's elements -/
theorem ua_resize_assign_exact {a o : UArr} {xs ys : List Nat} (ha : UAbs a xs) (ho : UAbs o ys) (n : Nat) :
    (∃ a' tr, uResize a n = .ok (a', tr) ∧ a'.slots.length = n ∧ a'.size = n ∧
      a'.contents = List.replicate n (some 0) ∧ nC tr = n ∧ nD tr = xs.length) ∧
    (∃ a' tr, uAssign a o = .ok (a', tr) ∧ a'.slots.length = ys.length ∧ a'.size = ys.length ∧
      a'.contents = ys.map some ∧ nC tr = ys.length ∧ nD tr = xs.length) := by
  have cont : ∀ (b : UArr) (zs : List Nat), UAbs b zs → b.contents = zs.map some := by
    intro b zs hb
    apply List.ext_getElem?
    intro p
    simp only [UArr.contents, List.getElem?_map, List.getElem?_take, hb.size]
    by_cases hp : p < zs.length
    · simp [hp, hb.pt p, List.getElem?_eq_getElem hp, slotElem]
    · have : zs[p]? = none := by simp; omega
      simp [hp, this]
  obtain ⟨a1, t1, p1, p2, p3, p4⟩ := uResize_spec ha n
  obtain ⟨a2, t2, q1, q2, q3, q4⟩ := uAssign_spec ha ho
  refine ⟨⟨a1, t1, p1, by simpa using p2.len, by simpa using p2.size, ?_, p3, p4⟩,
    ⟨a2, t2, q1, q2.len, q2.size, cont _ _ q2, q3, q4⟩⟩
  rw [cont _ _ p2]; simp

example : UAbs ⟨some [.obj (some 4)], 1⟩ [4] :=
  ⟨rfl, rfl, by intro p; match p with | 0 => rfl | (p + 1) => simp [UArr.slots]⟩

/-- reads of `static_string::operator[]` at ANY position `≤ N` (the terminator
    slot included) stay inside `data[N+1]` -/
theorem ss_index_inside {N : Nat} {s : SStr} {es : List Byte} (h : SAbs N s es) {i : Nat} (hi : i ≤ N) :
    ∃ b, sGetAny s i = .ok b := sGetAny_inside h hi

/-! ## round 3b: ONE history machine with both kinds of exception

`stepT c m op b a`: `b` = element constructions of the call that still succeed
(every member function that constructs, `Exc.lean`), `a` = element
move-assignments that still succeed (`erase`'s `std::move` inside the array).
A throwing assignment is now an OPERATION of the histories: whatever was thrown
before, by whichever kind, the theorems below speak about everything after. -/

/-- ONE operation with a throw point of either kind, from any represented state:
    no fault, it throws exactly when the reference says, the state left
    represents the reference result (a failed `erase`: `specEraseFail`; the rest:
    `specStepX`) and the ledger balance is kept -/
theorem st_step_refines {c : Cfg} {m : Mach} {sp : SpecRegs} (h : MInv c m sp) (op : Op) (b a : Nat) :
    ∃ m' res, stepT c m op b a = .ok (m', res, (specStepT c sp op b a).2) ∧ MInv c m' (specStepT c sp op b a).1 :=
  stepT_refines h op b a

/-- EVERY history in which ANY operations throw at ANY of their element
    constructions or element assignments: no fault, and the final state
    represents the reference machine with the same failures -/
theorem st_history_refines (c : Cfg) (ops : List (Op × Nat × Nat)) :
    ∃ m, runT c ops Mach.init = .ok m ∧ MInv c m (specRunT c ops (fun _ => none)) :=
  runT_refines ops _ _ (minv_init c)

theorem st_no_fault (c : Cfg) (ops : List (Op × Nat × Nat)) (f : Fault) : runT c ops Mach.init ≠ .error f := by
  obtain ⟨m, h, _⟩ := st_history_refines c ops
  rw [h]; intro e; cases e

/-- a history of `stepX` operations IS the history of `stepT` with the same
    construction budgets and any assignment budget that covers every `erase`
    (here: unbounded) — the two machines agree where they overlap -/
theorem st_extends_sx (c : Cfg) (m : Mach) (op : Op) (b : Nat) (hop : ∀ r i j, op ≠ .erase r i j) (a : Nat) :
    stepT c m op b a = stepX c m op b := by
  cases op <;> first | rfl | exact absurd rfl (hop _ _ _)

/-- THE BASIC EXCEPTION GUARANTEE with both kinds of throw: after every history
    each object that exists has `size ≤ N`, a live object in every slot below
    `size`, raw storage at and above it, and constructor calls − destructor calls
    = the sum of the sizes -/
theorem st_basic_guarantee (c : Cfg) (ops : List (Op × Nat × Nat)) :
    ∃ m, runT c ops Mach.init = .ok m ∧
      (∀ r v, m.regs r = some v → v.size ≤ c.N ∧ v.slots.length = c.N ∧
        (∀ p, p < v.size → ∃ e, v.slots[p]? = some (.obj e)) ∧
        (∀ p, v.size ≤ p → p < c.N → v.slots[p]? = some .raw)) ∧
      m.nctor = m.ndtor + total (heldBy m) c.K := by
  obtain ⟨m, h, hi⟩ := st_history_refines c ops
  refine ⟨m, h, ?_, ?_⟩
  · intro r v hv
    have hr := hi.rel r
    rw [hv] at hr
    cases hs : specRunT c ops (fun _ => none) r with
    | none => rw [hs] at hr; exact hr.elim
    | some es =>
      rw [hs] at hr
      refine ⟨by rw [hr.size]; exact hr.le, hr.len, ?_, ?_⟩
      · intro p hp; rw [hr.pt p]; exact slotAt_obj (by rw [← hr.size]; exact hp)
      · intro p hp1 hp2; rw [hr.pt p]; exact slotAt_raw (by rw [← hr.size]; exact hp1) hp2
  · rw [hi.bal]
    congr 1
    apply total_congr
    intro r _
    have hr := hi.rel r
    cases hm : m.regs r with
    | none =>
      have := (rel_none hr).mp hm
      simp [szOf, heldBy, hm, this]
    | some v =>
      rw [hm] at hr
      cases hs : specRunT c ops (fun _ => none) r with
      | none => rw [hs] at hr; exact hr.elim
      | some es => rw [hs] at hr; simp [szOf, heldBy, hm, hs, hr.size]

/-- any history with throws of both kinds followed by the destruction of all
    objects: constructor calls = destructor calls, no object left -/
theorem st_lifetime_once (c : Cfg) (ops : List (Op × Nat × Nat)) :
    ∃ m, runT c (ops ++ [(.finish, 0, 0)]) Mach.init = .ok m ∧ m.nctor = m.ndtor ∧ ∀ r, m.regs r = none := by
  obtain ⟨m, h, hi⟩ := st_history_refines c (ops ++ [(.finish, 0, 0)])
  have e : specRunT c (ops ++ [(.finish, 0, 0)]) (fun _ => none) = fun _ => none := by
    rw [specRunT_append]; rfl
  rw [e] at hi
  refine ⟨m, h, by simpa [total_zero] using hi.bal, fun r => ?_⟩
  have := hi.rel r
  cases hm : m.regs r with
  | none => rfl
  | some v => rw [hm] at this; exact this.elim

/-- the complete event sequence of EVERY history with throws of both kinds (the
    events of a failed `erase` included: the moves and assignments it made before
    the exception) passes the ledger replay and ends with exactly the occupied
    slots of the final state -/
theorem st_trace_passes_ledger (c : Cfg) (ops : List (Op × Nat × Nat)) :
    ∃ m evs, runEvT c ops Mach.init = .ok (m, evs) ∧ runT c ops Mach.init = .ok m ∧
      replayG evs (fun _ _ => false) = some (occR m.regs) := by
  obtain ⟨m, evs, h1, h0, _, h3⟩ := runEvT_replays ops _ _ (minv_init c)
  rw [occR_init] at h3
  exact ⟨m, evs, h1, h0, h3⟩

/-- EVERY ELEMENT CONSTRUCTED IS DESTROYED EXACTLY ONCE, whatever throws
    (constructors or assignments): any such history + `finish` replays from
    "nothing live" to "nothing live" -/
theorem st_every_element_destroyed_exactly_once (c : Cfg) (ops : List (Op × Nat × Nat)) :
    ∃ m evs, runEvT c (ops ++ [(.finish, 0, 0)]) Mach.init = .ok (m, evs) ∧
      replayG evs (fun _ _ => false) = some (fun _ _ => false) := by
  obtain ⟨m, evs, h1, _, h2, h3⟩ := runEvT_replays (c := c) (ops ++ [(.finish, 0, 0)]) _ _ (minv_init c)
  have e : specRunT c (ops ++ [(.finish, 0, 0)]) (fun _ => none) = fun _ => none := by
    rw [specRunT_append]; rfl
  rw [e] at h2
  have hn : occR m.regs = fun _ _ => false := by
    funext r
    have := h2.rel r
    cases hm : m.regs r with
    | none => simp [occR, hm]
    | some v => rw [hm] at this; exact this.elim
  rw [occR_init, hn] at h3
  exact ⟨m, evs, h1, h3⟩

/-- a copy constructor that throws, then an `erase` whose second assignment throws, then a plain erase:
    1 2 3 → (throw) 1 2 3 → erase [0,1) with a = 1: [2, ~, 3] → erase [1,2): [2, 3] -/
example : (match runT ⟨3, 2, false, true⟩ [(.new 0, 9, 9), (.push 0 1, 9, 9), (.push 0 2, 9, 9), (.push 0 3, 9, 9),
      (.copy 1 0, 1, 9), (.erase 0 0 1, 9, 1), (.erase 0 1 2, 9, 9)] Mach.init with
    | .ok m => decide ((m.regs 0).map (·.contents) = some [some 2, some 3]) && (m.regs 1).isNone
    | _ => false) = true := by decide

/-! ### the `w`-bit machine with throws -/

/-- ONE operation with throw points: with `N < 2^w` the `w`-bit machine IS `stepT` -/
theorem stw_step_exact {w : Nat} {c : Cfg} {m : Mach} {sp : SpecRegs} (h : MInv c m sp) (hN : c.N < 2 ^ w)
    (op : Op) (b a : Nat) : stepTW w c m op b a = stepT c m op b a := stepTW_eq h hN op b a

/-- EVERY history with throws of both kinds: for `N < 2^w` the run with the `w`-bit
    counter is the run of the natural-number machine, hence no fault, the basic
    guarantee, the reference sequences with failures: `st_*` hold verbatim for
    `runTW w` (this is the machine the driver runs for `thr` / `thra`) -/
theorem stw_history_transfers (w : Nat) (c : Cfg) (hN : c.N < 2 ^ w) (ops : List (Op × Nat × Nat)) :
    runTW w c ops Mach.init = runT c ops Mach.init ∧
    ∃ m, runTW w c ops Mach.init = .ok m ∧ MInv c m (specRunT c ops (fun _ => none)) := by
  have e := runTW_eq hN ops _ _ (minv_init c)
  obtain ⟨m, h1, h2⟩ := st_history_refines c ops
  exact ⟨e, m, by rw [e]; exact h1, h2⟩

/-- and for `N = 2^w` it is not (w = 2, N = 4): the fourth element wraps the counter to 0; a `push_back` that
    throws leaves that state alone and the next one constructs over slot 0 — the natural-number machine keeps
    4 elements and drops both; a `resize(4)` whose fourth construction throws is still fine (the counter reads 3) -/
theorem stw_witness :
    isFault .ctorOverLive (runTW 2 ⟨4, 1, false, true⟩ [(.new 0, 9, 9), (.resize 0 3, 9, 9), (.push 0 7, 9, 9),
      (.push 0 5, 0, 9), (.push 0 5, 9, 9)] Mach.init) = true ∧
    (match runTW 2 ⟨4, 1, false, true⟩ [(.new 0, 9, 9), (.resize 0 4, 3, 9)] Mach.init with
      | .ok m => (m.regs 0).map (·.size) | _ => none) = some 3 ∧
    (match runT ⟨4, 1, false, true⟩ [(.new 0, 9, 9), (.resize 0 3, 9, 9), (.push 0 7, 9, 9),
      (.push 0 5, 0, 9), (.push 0 5, 9, 9)] Mach.init with
      | .ok m => (m.regs 0).map (·.size) | _ => none) = some 4 := by decide

/-! ### element destructors that throw: the contract

The containers call `~T()` in `clear`, `resize`, `erase`, both assignments and
their own destructor, never inside a handler.  An element type whose destructor
throws is outside the contract: -/

/-- when no destructor throws, the loop with a throw point is the loop of the model -/
theorem dtor_nothrow_is_plain (v : SVec) (d : Nat) (h : v.size ≤ d) :
    clearD v d = (clear v).map (fun q => (q.1, q.2, false)) := clearD_nothrow v d h

/-- ANY throwing element destructor inside `clear()` — any represented state, any
    position `d` — leaves `d + 1` dead elements below an unchanged `size()`: no
    reference sequence describes the container any more and its own destructor
    then destroys raw storage.  (Hence the requirement; the real program does
    not get there: `~T()` is `noexcept` unless declared otherwise, the harness
    checks `is_nothrow_destructible` of every instantiation, and the exception
    ends in `std::terminate`.) -/
theorem dtor_throw_breaks_invariant {N : Nat} {v : SVec} {es : List Elem} (h : Abs N v es) {d : Nat}
    (hd : d < es.length) :
    ∃ v' tr, clearD v d = .ok (v', tr, true) ∧ v'.size = es.length ∧ nD tr = d + 1 ∧
      (∀ p, p ≤ d → v'.slots[p]? = some .raw) ∧ (∀ es', ¬ Abs N v' es') ∧
      destructor v' = .error .dtorRaw := clearD_throw_spec h hd

example : Abs 2 ⟨[.obj (some 1), .obj (some 2)], 2⟩ [some 1, some 2] :=
  ⟨rfl, rfl, by decide, by intro p; match p with | 0 => rfl | 1 => rfl | (p + 2) => simp [slotAt]⟩

/-! ### unbounded_array: element constructors / the allocator throw -/

/-- `create_buffer(n)` (hence `resize(n)` and `unbounded_array(n)`) with the throw at
    ANY construction or a failing allocation: no fault; it throws exactly when the
    allocation fails or `b < n`; then the array is EMPTY (`nullptr`, size 0) and
    every element it had constructed is destroyed again (constructor calls =
    destructor calls); otherwise the block holds `n` value-initialised elements -/
theorem ua_create_throw (n b : Nat) (al : Bool) :
    ∃ a tr, uCreateX n b al = .ok (a, tr, !(al && decide (n ≤ b))) ∧
      UAbs a (if al = true ∧ n ≤ b then List.replicate n 0 else []) ∧
      nC tr = nD tr + (if al = true ∧ n ≤ b then n else 0) ∧ nC tr = (if al then min n b else 0) :=
  uCreateX_spec n b al

/-- the code as it was: `m_size = size` before the loop and no clean-up — `size() == 2` over a block whose
    second slot is raw storage, destroyed by the destructor -/
theorem ua_create_throw_orig_witness :
    (match uCreateXOrig 2 1 with
      | .ok (a, _, t) => decide (a = ⟨some [.obj (some 0), .raw], 2⟩) && t
      | _ => false) = true ∧
    (match uInvalidate ⟨some [.obj (some 0), .raw], 2⟩ with
      | .error .dtorRaw => true
      | _ => false) = true := uCreateXOrig_witness

/-- `unbounded_array(n)` with the throw at any construction / a failing allocation: no fault; either the object
    exists and holds `n` value-initialised elements, or there is NO object and every element the call had
    constructed is destroyed again (nothing leaks) -/
theorem ua_ctor_throw (n b : Nat) (al : Bool) :
    ∃ x tr, uCtorX n b al = .ok (x, tr, !(al && decide (n ≤ b))) ∧
      (if al = true ∧ n ≤ b then ∃ a, x = some a ∧ UAbs a (List.replicate n 0) ∧ nC tr = nD tr + n
       else x = none ∧ nC tr = nD tr) := by
  obtain ⟨a, tr, h1, h2, h3, _⟩ := uCreateX_spec n b al
  by_cases hc : al = true ∧ n ≤ b
  · have ht : (!(al && decide (n ≤ b))) = false := by simp [hc.1, hc.2]
    rw [ht] at h1
    rw [if_pos hc] at h2 h3
    refine ⟨some a, tr, by simp [uCtorX, h1, ht, bind, Except.bind, pure, Except.pure], ?_⟩
    rw [if_pos hc]
    exact ⟨a, rfl, h2, h3⟩
  · have ht : (!(al && decide (n ≤ b))) = true := by
      cases al <;> simp_all
    rw [ht] at h1
    rw [if_neg hc] at h3
    refine ⟨none, tr, by simp [uCtorX, h1, ht, bind, Except.bind, pure, Except.pure], ?_⟩
    rw [if_neg hc]
    exact ⟨rfl, by omega⟩

end Igris.C14
