import IgrisModel.C14.Model
namespace Igris.C14
-- placeholder, replaced below
theorem stub : (defaultCtor 1).1.size = 0 := rfl
end Igris.C14
