/-
  C14 — lemmas of extension round 3b: the history machine with both kinds of
  throw (`stepT`), its `w`-bit twin (`stepTW`), throwing destructors,
  unbounded_array with throwing constructors / allocator.
-/
import IgrisModel.C14.Model3b
import IgrisModel.C14.Lemmas3
import IgrisModel.C14.MachX
import IgrisModel.C14.LedgerX

namespace Igris.C14
open Igris.Proto

set_option linter.unusedSimpArgs false
set_option linter.unusedVariables false

/-! ## 1. `stepT`: reference semantics and refinement -/

/-- reference semantics of one operation with both budgets: a failed `erase`
    leaves `specEraseFail`, everything else is `specStepX` -/
def specStepT (c : Cfg) (sp : SpecRegs) (op : Op) (b a : Nat) : SpecRegs × Bool :=
  match op with
  | .erase r i j =>
      match decide (r < c.K ∧ c.port = false), sp r with
      | true, some es =>
          if i ≤ j ∧ j ≤ es.length then
            if i < j ∧ a < es.length - j then (setSpec sp r (some (specEraseFail c.trk es i j a)), true)
            else (setSpec sp r (some (specErase es i j)), false)
          else (sp, false)
      | _, _ => (sp, false)
  | op => specStepX c sp op b

def specRunT (c : Cfg) : List (Op × Nat × Nat) → SpecRegs → SpecRegs
  | [], sp => sp
  | (op, b, a) :: ops, sp => specRunT c ops (specStepT c sp op b a).1

theorem eraseX_nofail (trk : Bool) (v : SVec) (i j a : Nat) (h : ¬ (i < j ∧ a < v.size - j)) (hij : i ≤ j) :
    eraseX trk v i j a = (erase trk v i j).map (fun q => (q.1, q.2, false)) := by
  by_cases he : i = j
  · simp [eraseX, erase, he, Except.map]
  · exact eraseX_done_spec trk v i j a (by omega)

theorem specEraseFail_length (trk : Bool) (es : List Elem) (i j a : Nat) :
    (specEraseFail trk es i j a).length = es.length := by simp [specEraseFail]

theorem stepT_refines {c : Cfg} {m : Mach} {sp : SpecRegs} (h : MInv c m sp) (op : Op) (b a : Nat) :
    ∃ m' res, stepT c m op b a = .ok (m', res, (specStepT c sp op b a).2) ∧ MInv c m' (specStepT c sp op b a).1 := by
  cases op with
  | erase r i j =>
    by_cases hk : r < c.K ∧ c.port = false
    · have hrel := h.rel r
      cases hm : m.regs r with
      | none =>
        have hs : sp r = none := (rel_none hrel).mp hm
        exact ⟨m, none, by simp [stepT, hk, hm, specStepT, hs], by simpa [specStepT, hk, hs] using h⟩
      | some v =>
        cases hs : sp r with
        | none => rw [hm, hs] at hrel; exact hrel.elim
        | some es =>
          rw [hm, hs] at hrel
          have hsz := hrel.size
          by_cases hc : i ≤ j ∧ j ≤ es.length
          · have hc' : i ≤ j ∧ j ≤ v.size := by rw [hsz]; exact hc
            by_cases hf : i < j ∧ a < es.length - j
            · obtain ⟨w, tr, p1, p2, p3, p4, p5⟩ := eraseX_fail_spec c.trk hrel hf.1 hc.2 hf.2
              refine ⟨(m.log (setReg m.regs r (some w)) (glob r r tr)).1,
                (m.log (setReg m.regs r (some w)) (glob r r tr)).2, ?_, ?_⟩
              · simp [stepT, hk, hm, hc', p1, specStepT, hs, hc, hf, bind, Except.bind, pure, Except.pure]
              · have := minv_set1 h hk.1 (es' := some (specEraseFail c.trk es i j a)) r tr (v' := some w) p2
                  (by rw [szOf_set, szOf_some hs, p4, p5]; simp only [specEraseFail_length])
                simpa [specStepT, hk, hs, hc, hf] using this
            · have hf' : ¬ (i < j ∧ a < v.size - j) := by rw [hsz]; exact hf
              obtain ⟨v', tr, q1, q2, q3, q4⟩ := erase_spec c.trk hrel hc.1 hc.2
              refine ⟨(m.log (setReg m.regs r (some v')) (glob r r tr)).1,
                (m.log (setReg m.regs r (some v')) (glob r r tr)).2, ?_, ?_⟩
              · simp [stepT, hk, hm, hc', eraseX_nofail c.trk v i j a hf' hc.1, q1, Except.map, specStepT, hs, hc, hf,
                  bind, Except.bind, pure, Except.pure]
              · have := minv_set1 h hk.1 (es' := some (specErase es i j)) r tr (v' := some v') q2
                  (by rw [szOf_set, szOf_some hs, q3]; simp only []; omega)
                simpa [specStepT, hk, hs, hc, hf] using this
          · have hc' : ¬ (i ≤ j ∧ j ≤ v.size) := by rw [hsz]; exact hc
            exact ⟨m, none, by simp [stepT, hk, hm, hc', specStepT, hs, hc], by simpa [specStepT, hk, hs, hc] using h⟩
    · exact ⟨m, none, by simp [stepT, hk, specStepT], by simpa [specStepT, hk] using h⟩
  | new r => exact stepX_refines h (.new r) b
  | copy r s => exact stepX_refines h (.copy r s) b
  | move r s => exact stepX_refines h (.move r s) b
  | range r xs => exact stepX_refines h (.range r xs) b
  | il r xs => exact stepX_refines h (.il r xs) b
  | acopy r s => exact stepX_refines h (.acopy r s) b
  | amove r s => exact stepX_refines h (.amove r s) b
  | push r x => exact stepX_refines h (.push r x) b
  | emplace r x => exact stepX_refines h (.emplace r x) b
  | resize r n => exact stepX_refines h (.resize r n) b
  | clear r => exact stepX_refines h (.clear r) b
  | del r => exact stepX_refines h (.del r) b
  | finish => exact stepX_refines h .finish b

theorem runT_refines {c : Cfg} : ∀ (ops : List (Op × Nat × Nat)) (m : Mach) (sp : SpecRegs), MInv c m sp →
    ∃ m', runT c ops m = .ok m' ∧ MInv c m' (specRunT c ops sp) := by
  intro ops
  induction ops with
  | nil => intro m sp h; exact ⟨m, rfl, h⟩
  | cons ob ops ih =>
    intro m sp h
    obtain ⟨op, b, a⟩ := ob
    obtain ⟨m1, res, p1, p2⟩ := stepT_refines h op b a
    obtain ⟨m', q1, q2⟩ := ih m1 _ p2
    exact ⟨m', by simp [runT, p1, q1, bind, Except.bind], q2⟩

theorem specRunT_append (c : Cfg) : ∀ (x y : List (Op × Nat × Nat)) (sp : SpecRegs),
    specRunT c (x ++ y) sp = specRunT c y (specRunT c x sp) := by
  intro x
  induction x with
  | nil => intro y sp; rfl
  | cons ob x ih => intro y sp; obtain ⟨op, b, a⟩ := ob; simp [specRunT, ih]

/-! ## 2. `stepTW w = stepT` when the counter can hold the capacity -/

theorem pushBackXW_eq {w N : Nat} (hN : N < 2 ^ w) (v : SVec) (x : Nat) (hs : v.size ≤ N) (b : Nat) :
    pushBackXW w N v x b = pushBackX N v x b := by
  cases b with
  | zero => rfl
  | succ b =>
    simp only [pushBackXW, pushBackX]
    by_cases hf : v.size ≥ N
    · simp [hf]
    · have : stored w (v.size + 1) = v.size + 1 := stored_small (by omega)
      simp [hf, this]

theorem rangeLoopXW_eq {w N : Nat} (hN : N < 2 ^ w) : ∀ (xs : List Nat) (v : SVec) (b : Nat), v.size ≤ N →
    rangeLoopXW w N xs v b = rangeLoopX N xs v b := by
  intro xs
  induction xs with
  | nil => intro v b _; rfl
  | cons x xs ih =>
    intro v b hs
    simp only [rangeLoopXW, rangeLoopX]
    by_cases hf : v.size ≥ N
    · simp only [hf, if_true]; exact ih v b hs
    · simp only [hf, if_false]
      cases b with
      | zero => rfl
      | succ b =>
        simp only []
        rw [stored_small (show v.size + 1 < 2 ^ w by omega)]
        cases hc : construct v.slots v.size (some x) with
        | error e => rfl
        | ok s =>
          simp only [bind, Except.bind]
          rw [ih ⟨s, v.size + 1⟩ b (by simp; omega)]

theorem ilLoopXW_eq {w N : Nat} (hN : N < 2 ^ w) : ∀ (xs : List Nat) (v : SVec) (b : Nat), v.size ≤ N →
    ilLoopXW w N xs v b = ilLoopX N xs v b := by
  intro xs
  induction xs with
  | nil => intro v b _; rfl
  | cons x xs ih =>
    intro v b hs
    simp only [ilLoopXW, ilLoopX]
    by_cases hf : v.size ≥ N
    · simp [hf]
    · simp only [hf, if_false]
      cases b with
      | zero => rfl
      | succ b =>
        simp only []
        rw [stored_small (show v.size + 1 < 2 ^ w by omega)]
        cases hc : construct v.slots v.size (some x) with
        | error e => rfl
        | ok s =>
          simp only [bind, Except.bind]
          rw [ih ⟨s, v.size + 1⟩ b (by simp; omega)]

theorem copyCtorXW_eq {w N : Nat} {o : SVec} (h : o.size < 2 ^ w) (b : Nat) :
    copyCtorXW w N o b = copyCtorX N o b := by
  simp only [copyCtorXW, copyCtorX, copyLoopX_eq]
  cases copyLoop o.slots (min o.size b) 0 (rawStore N) with
  | error e => rfl
  | ok p =>
    simp only [Except.map, bind, Except.bind]
    rw [bumpW_eq w (min o.size b) 0 (by omega), Nat.zero_add]

theorem moveCtorXW_eq {w : Nat} {port trk : Bool} {N : Nat} {o : SVec} (h : o.size < 2 ^ w) (b : Nat) :
    moveCtorXW w port trk N o b = moveCtorX port trk N o b := by
  simp only [moveCtorXW, moveCtorX, moveLoopX_eq]
  cases moveLoop trk (min o.size b) 0 (rawStore N) o.slots with
  | error e => rfl
  | ok p =>
    simp only [Except.map, bind, Except.bind]
    rw [bumpW_eq w (min o.size b) 0 (by omega), Nat.zero_add]

theorem assignCopyXW_eq {w : Nat} {v o : SVec} (h : o.size < 2 ^ w) (b : Nat) :
    assignCopyXW w v o b = assignCopyX v o b := by
  simp only [assignCopyXW, assignCopyX]
  cases hc : clear v with
  | error e => rfl
  | ok q =>
    obtain ⟨v1, t1⟩ := q
    have hz := clear_size hc
    simp only [bind, Except.bind, copyLoopX_eq]
    cases copyLoop o.slots (min o.size b) 0 v1.slots with
    | error e => rfl
    | ok p =>
      simp only [Except.map, hz]
      rw [bumpW_eq w (min o.size b) 0 (by omega), Nat.zero_add]

theorem assignMoveXW_eq {w : Nat} {trk : Bool} {v o : SVec} (h : o.size < 2 ^ w) (b : Nat) :
    assignMoveXW w trk v o b = assignMoveX trk v o b := by
  simp only [assignMoveXW, assignMoveX]
  cases hc : clear v with
  | error e => rfl
  | ok q =>
    obtain ⟨v1, t1⟩ := q
    have hz := clear_size hc
    simp only [bind, Except.bind, moveLoopX_eq]
    cases moveLoop trk (min o.size b) 0 v1.slots o.slots with
    | error e => rfl
    | ok p =>
      simp only [Except.map, hz]
      rw [bumpW_eq w (min o.size b) 0 (by omega), Nat.zero_add]

theorem resizeLoopXW_eq (w : Nat) : ∀ (f ns : Nat) (s : Slots) (sz b : Nat), ns < 2 ^ w → ns - sz ≤ f →
    resizeLoopXW w f ns s sz b =
      (valueInitLoopX (ns - sz) sz s b).map (fun q => (q.1, q.2.1, sz + q.2.2.1, q.2.2.2)) := by
  intro f
  induction f with
  | zero =>
    intro ns s sz b _ hf
    have : ns - sz = 0 := by omega
    rw [this]
    simp [resizeLoopXW, valueInitLoopX, Except.map]
  | succ f ih =>
    intro ns s sz b hns hf
    simp only [resizeLoopXW]
    by_cases hlt : sz < ns
    · obtain ⟨d, hd⟩ : ∃ d, ns - sz = d + 1 := ⟨ns - sz - 1, by omega⟩
      rw [hd]
      simp only [hlt, if_true]
      cases b with
      | zero => simp [valueInitLoopX, Except.map]
      | succ b =>
        simp only [valueInitLoopX]
        rw [stored_small (by omega)]
        cases hc : construct s sz (some 0) with
        | error e => rfl
        | ok s1 =>
          simp only [bind, Except.bind]
          rw [ih ns s1 (sz + 1) b hns (by omega)]
          have e : ns - (sz + 1) = d := by omega
          rw [e]
          cases hv : valueInitLoopX d (sz + 1) s1 b with
          | error e => rfl
          | ok q =>
            obtain ⟨s2, t2, n2, tt2⟩ := q
            simp only [Except.map, pure, Except.pure, Except.ok.injEq, Prod.mk.injEq, true_and, and_true]
            omega
    · have : ns - sz = 0 := by omega
      rw [this]
      simp [hlt, valueInitLoopX, Except.map]

theorem resizeXW_eq {w N : Nat} (hN : N < 2 ^ w) (v : SVec) (n b : Nat) : resizeXW w N v n b = resizeX N v n b := by
  simp only [resizeXW, resizeX]
  have hns : (if n ≥ N then N else n) < 2 ^ w := by split <;> omega
  generalize (if n ≥ N then N else n) = ns at hns
  rw [resizeLoopXW_eq w (ns + 1) ns v.slots v.size b hns (by omega)]
  cases hv : valueInitLoopX (ns - v.size) v.size v.slots b with
  | error e => rfl
  | ok q =>
    obtain ⟨s1, t1, k, t⟩ := q
    simp only [Except.map, bind, Except.bind]
    cases t with
    | true => rfl
    | false =>
      obtain ⟨_, hk⟩ := valueInitLoopX_done hv
      have e : v.size + k - ns = v.size - ns := by omega
      simp only [Bool.false_eq_true, if_false, e, stored_small hns]

theorem eraseXW_eq {w N : Nat} (hN : N < 2 ^ w) (trk : Bool) (v : SVec) (i j a : Nat) (hs : v.size ≤ N) :
    eraseXW w trk v i j a = eraseX trk v i j a := by
  simp only [eraseXW, eraseX]
  rw [stored_small (show v.size - (j - i) < 2 ^ w by omega)]

/-- with a counter that can hold the capacity, the `w`-bit machine with throws IS `stepT` -/
theorem stepTW_eq {w : Nat} {c : Cfg} {m : Mach} {sp : SpecRegs} (h : MInv c m sp) (hN : c.N < 2 ^ w)
    (op : Op) (b a : Nat) : stepTW w c m op b a = stepT c m op b a := by
  have sz : ∀ r v, m.regs r = some v → v.size ≤ c.N := fun r v hv => reg_size_le h hv
  cases op with
  | new r => rfl
  | clear r => rfl
  | del r => rfl
  | finish => rfl
  | copy r s =>
    simp only [stepTW, stepT, stepX]
    cases hd : decide (r < c.K ∧ s < c.K) <;> cases hr : m.regs r <;> cases hs : m.regs s <;> try rfl
    rename_i o
    simp only []
    rw [copyCtorXW_eq (by have := sz s o hs; omega)]
  | move r s =>
    simp only [stepTW, stepT, stepX]
    cases hd : decide (r < c.K ∧ s < c.K) <;> cases hr : m.regs r <;> cases hs : m.regs s <;> try rfl
    rename_i o
    simp only []
    rw [moveCtorXW_eq (by have := sz s o hs; omega)]
  | range r xs =>
    simp only [stepTW, stepT, stepX, rangeCtorXW, rangeCtorX]
    cases hd : decide (r < c.K ∧ c.port = false) <;> cases hr : m.regs r <;> try rfl
    simp only []
    rw [rangeLoopXW_eq hN xs _ b (by simp)]
  | il r xs =>
    simp only [stepTW, stepT, stepX, ilCtorXW, ilCtorX]
    cases hd : decide (r < c.K ∧ c.port = false) <;> cases hr : m.regs r <;> try rfl
    simp only []
    rw [ilLoopXW_eq hN xs _ b (by simp)]
  | acopy r s =>
    simp only [stepTW, stepT, stepX]
    cases hd : decide (r < c.K ∧ s < c.K) <;> cases hr : m.regs r <;> cases hs : m.regs s <;> try rfl
    rename_i v o
    simp only []
    rw [assignCopyXW_eq (by have := sz s o hs; omega)]
  | amove r s =>
    simp only [stepTW, stepT, stepX]
    cases hd : decide (r < c.K ∧ s < c.K) <;> cases hr : m.regs r <;> cases hs : m.regs s <;> try rfl
    rename_i v o
    simp only []
    rw [assignMoveXW_eq (by have := sz s o hs; omega)]
  | push r x =>
    simp only [stepTW, stepT, stepX]
    cases hd : decide (r < c.K) <;> cases hr : m.regs r <;> try rfl
    rename_i v
    simp only []
    rw [pushBackXW_eq hN v x (sz r v hr)]
  | emplace r x =>
    simp only [stepTW, stepT, stepX]
    cases hd : decide (r < c.K) <;> cases hr : m.regs r <;> try rfl
    rename_i v
    simp only []
    rw [pushBackXW_eq hN v x (sz r v hr)]
  | resize r n =>
    simp only [stepTW, stepT, stepX]
    cases hd : decide (r < c.K) <;> cases hr : m.regs r <;> try rfl
    rename_i v
    simp only []
    rw [resizeXW_eq hN v n]
  | erase r i j =>
    simp only [stepTW, stepT]
    cases hd : decide (r < c.K ∧ c.port = false) <;> cases hr : m.regs r <;> try rfl
    rename_i v
    simp only []
    rw [eraseXW_eq hN c.trk v i j a (sz r v hr)]

theorem runTW_eq {w : Nat} {c : Cfg} (hN : c.N < 2 ^ w) : ∀ (ops : List (Op × Nat × Nat)) (m : Mach) (sp : SpecRegs),
    MInv c m sp → runTW w c ops m = runT c ops m := by
  intro ops
  induction ops with
  | nil => intro m sp _; rfl
  | cons ob ops ih =>
    intro m sp h
    obtain ⟨op, b, a⟩ := ob
    simp only [runTW, runT, stepTW_eq h hN op b a]
    obtain ⟨m1, res, h1, h2⟩ := stepT_refines h op b a
    rw [h1]
    simp only [bind, Except.bind]
    exact ih m1 _ h2

/-! ## 3. the event-trace ledger over histories with both kinds of throw -/

theorem eraseX_replay {trk : Bool} {v v' : SVec} {i j a : Nat} {tr : Tr} {t : Bool}
    (h : eraseX trk v i j a = .ok (v', tr, t)) : UReplay v v' tr := by
  unfold eraseX at h
  split at h
  · cases h; exact ureplay_nil v
  · obtain ⟨⟨s1, t1, tt⟩, h1, h⟩ := bind_ok h
    rw [shiftLoopX_eq] at h1
    cases hq : shiftLoop trk (min (v.size - j) a) j i v.slots with
    | error e => rw [hq] at h1; cases h1
    | ok q =>
      obtain ⟨q1, q2⟩ := q
      rw [hq] at h1
      simp only [Except.map, Except.ok.injEq, Prod.mk.injEq] at h1
      obtain ⟨e1, e2, e3⟩ := h1
      subst e1 e2
      have a1 : UReplay v ⟨q1, v.size⟩ q2 := shiftLoop_replay trk _ _ _ _ _ _ hq
      cases tt with
      | true =>
        simp only [if_true, pure, Except.pure, Except.ok.injEq, Prod.mk.injEq] at h
        obtain ⟨r1, r2, _⟩ := h
        subst r1 r2
        exact a1
      | false =>
        simp only [Bool.false_eq_true, if_false] at h
        obtain ⟨⟨s2, t2⟩, h2, h⟩ := bind_ok h
        cases h
        exact ureplay_trans a1 (destroyLoop_replay _ _ _ _ _ h2)

theorem stepT_replay {c : Cfg} {m : Mach} {sp : SpecRegs} (hinv : MInv c m sp) {op : Op} {b a : Nat} {m' : Mach}
    {res : Res} {t : Bool} (h : stepT c m op b a = .ok (m', res, t)) : StepReplay m m' res := by
  cases op with
  | erase r i j =>
    simp only [stepT] at h
    by_cases hk : r < c.K ∧ c.port = false
    · cases hm : m.regs r with
      | none => simp [hk, hm] at h; obtain ⟨rfl, rfl, _⟩ := h; rfl
      | some v =>
        simp only [hk, hm, decide_true, and_self] at h
        by_cases hij : i ≤ j ∧ j ≤ v.size
        · simp only [hij, and_self, if_true] at h
          obtain ⟨⟨v', tr, tt⟩, h1, h2⟩ := bind_ok h
          cases h2
          simp only [StepReplay, Mach.log]
          rw [eraseX_replay h1 (occR m.regs) r r (occR_some hm), occR_set_some]
        · simp only [hij, if_false] at h
          cases h; rfl
    · simp [hk] at h; obtain ⟨rfl, rfl, _⟩ := h; rfl
  | new r => exact stepX_replay hinv (b := b) (op := .new r) h
  | copy r s => exact stepX_replay hinv (b := b) (op := .copy r s) h
  | move r s => exact stepX_replay hinv (b := b) (op := .move r s) h
  | range r xs => exact stepX_replay hinv (b := b) (op := .range r xs) h
  | il r xs => exact stepX_replay hinv (b := b) (op := .il r xs) h
  | acopy r s => exact stepX_replay hinv (b := b) (op := .acopy r s) h
  | amove r s => exact stepX_replay hinv (b := b) (op := .amove r s) h
  | push r x => exact stepX_replay hinv (b := b) (op := .push r x) h
  | emplace r x => exact stepX_replay hinv (b := b) (op := .emplace r x) h
  | resize r n => exact stepX_replay hinv (b := b) (op := .resize r n) h
  | clear r => exact stepX_replay hinv (b := b) (op := .clear r) h
  | del r => exact stepX_replay hinv (b := b) (op := .del r) h
  | finish => exact stepX_replay hinv (b := b) (op := .finish) h

/-- all lifetime events of a history with both kinds of throw, in order -/
def runEvT (c : Cfg) : List (Op × Nat × Nat) → Mach → Except Fault (Mach × List GEv)
  | [], m => .ok (m, [])
  | (op, b, a) :: ops, m => do
      let (m', res, _) ← stepT c m op b a
      let (m'', evs) ← runEvT c ops m'
      pure (m'', res.getD [] ++ evs)

theorem runEvT_replays {c : Cfg} : ∀ (ops : List (Op × Nat × Nat)) (m : Mach) (sp : SpecRegs), MInv c m sp →
    ∃ m' evs, runEvT c ops m = .ok (m', evs) ∧ runT c ops m = .ok m' ∧ MInv c m' (specRunT c ops sp) ∧
      replayG evs (occR m.regs) = some (occR m'.regs) := by
  intro ops
  induction ops with
  | nil => intro m sp h; exact ⟨m, [], rfl, rfl, h, rfl⟩
  | cons opb ops ih =>
    obtain ⟨op, b, a⟩ := opb
    intro m sp h
    obtain ⟨m1, res, h1, h2⟩ := stepT_refines h op b a
    have hr := stepT_replay h h1
    obtain ⟨m', evs, g1, g0, g2, g3⟩ := ih m1 _ h2
    refine ⟨m', res.getD [] ++ evs, by simp [runEvT, h1, g1, bind, Except.bind, pure, Except.pure],
      by simp [runT, h1, g0, bind, Except.bind], g2, ?_⟩
    rw [replayG_append]
    cases hres : res with
    | none =>
      rw [hres] at hr
      simp only [StepReplay] at hr
      simp only [Option.getD, replayG, Option.bind]
      rw [← hr]; exact g3
    | some ev =>
      rw [hres] at hr
      simp only [StepReplay] at hr
      simp only [Option.getD, hr, Option.bind]
      exact g3

/-! ## 4. element destructors that throw -/

theorem destroyLoopD_nothrow : ∀ (k pos : Nat) (s : Slots) (d : Nat), k ≤ d →
    destroyLoopD k pos s d = (destroyLoop k pos s).map (fun q => (q.1, q.2, false)) := by
  intro k
  induction k with
  | zero => intro pos s d _; simp [destroyLoopD, destroyLoop, Except.map]
  | succ k ih =>
    intro pos s d hd
    cases d with
    | zero => omega
    | succ d =>
      simp only [destroyLoopD, destroyLoop, bind, Except.bind]
      cases destroy s pos with
      | error e => rfl
      | ok s1 =>
        simp only [ih (pos + 1) s1 d (by omega)]
        cases destroyLoop k (pos + 1) s1 with
        | error e => rfl
        | ok q => simp [Except.map, pure, Except.pure]

theorem destroyLoop_succ (k pos : Nat) (s : Slots) :
    destroyLoop (k + 1) pos s = (do
      let s ← destroy s pos
      let (s, tr) ← destroyLoop k (pos + 1) s
      pure (s, ⟨false, .dtor, pos⟩ :: tr)) := rfl

theorem destroyLoopD_throw : ∀ (k pos : Nat) (s : Slots) (d : Nat), d < k →
    destroyLoopD k pos s d = (destroyLoop (d + 1) pos s).map (fun q => (q.1, q.2, true)) := by
  intro k
  induction k with
  | zero => intro pos s d hd; omega
  | succ k ih =>
    intro pos s d hd
    cases d with
    | zero =>
      simp only [destroyLoopD, destroyLoop, bind, Except.bind]
      cases destroy s pos with
      | error e => rfl
      | ok s1 => simp [Except.map, pure, Except.pure]
    | succ d =>
      rw [destroyLoop_succ]
      simp only [destroyLoopD, bind, Except.bind]
      cases destroy s pos with
      | error e => rfl
      | ok s1 =>
        simp only [ih (pos + 1) s1 d (by omega)]
        cases destroyLoop (d + 1) (pos + 1) s1 with
        | error e => rfl
        | ok q => simp [Except.map, pure, Except.pure]

theorem clearD_nothrow (v : SVec) (d : Nat) (h : v.size ≤ d) :
    clearD v d = (clear v).map (fun q => (q.1, q.2, false)) := by
  simp only [clearD, clear, destroyLoopD_nothrow v.size 0 v.slots d h]
  cases destroyLoop v.size 0 v.slots with
  | error e => rfl
  | ok q => simp [Except.map, bind, Except.bind, pure, Except.pure]

/-- what `clear()` would do with an element destructor that throws at its `(d+1)`-th call:
    `d + 1` elements are dead, `m_size` still counts all of them — no reference sequence
    describes that state any more, and the container's own destructor destroys raw storage -/
theorem clearD_throw_spec {N : Nat} {v : SVec} {es : List Elem} (h : Abs N v es) {d : Nat} (hd : d < es.length) :
    ∃ v' tr, clearD v d = .ok (v', tr, true) ∧ v'.size = es.length ∧ nD tr = d + 1 ∧
      (∀ p, p ≤ d → v'.slots[p]? = some .raw) ∧ (∀ es', ¬ Abs N v' es') ∧
      destructor v' = .error .dtorRaw := by
  have hs := h.size
  obtain ⟨s', tr, h1, _, h3, h4, h5⟩ := destroyLoop_spec (d + 1) 0 v.slots (by
    intro p _ hp
    rw [h.pt p]; exact slotAt_obj (by omega))
  have hraw : ∀ p, p ≤ d → s'[p]? = some .raw := by
    intro p hp; rw [h5 p]; simp; omega
  refine ⟨⟨s', v.size⟩, tr, ?_, hs, h3, hraw, ?_, ?_⟩
  · simp [clearD, destroyLoopD_throw v.size 0 v.slots d (by omega), h1, Except.map, bind, Except.bind, pure, Except.pure]
  · intro es' ha
    have hlen : 0 < es'.length := by have := ha.size; simp only [] at this; omega
    obtain ⟨e, he⟩ := slotAt_obj (N := N) hlen
    have := ha.pt 0
    simp only [] at this
    rw [hraw 0 (by omega), he] at this
    cases this
  · obtain ⟨k, hk⟩ : ∃ k, v.size = k + 1 := ⟨v.size - 1, by omega⟩
    simp [destructor, hk, destroyLoop, destroy, hraw 0 (by omega), bind, Except.bind]

/-! ## 5. unbounded_array with element constructors / an allocator that throw -/

theorem uCreateX_spec (n b : Nat) (al : Bool) :
    ∃ a tr, uCreateX n b al = .ok (a, tr, !(al && decide (n ≤ b))) ∧
      UAbs a (if al = true ∧ n ≤ b then List.replicate n 0 else []) ∧
      nC tr = nD tr + (if al = true ∧ n ≤ b then n else 0) ∧ nC tr = (if al then min n b else 0) := by
  cases al with
  | false => exact ⟨⟨none, 0⟩, [], by simp [uCreateX], by simpa using uabs_nil, by simp [nC, nD], by simp [nC]⟩
  | true =>
    obtain ⟨s', tr, h1, h2, h3, h4, h5⟩ := valueInitLoop_spec (min n b) 0 (rawStore n) (by
      intro p _ hp; rw [rawStore_getElem?]; simp; omega)
    by_cases hb : n ≤ b
    · have hmin : min n b = n := by omega
      rw [hmin] at h1 h2 h5
      have hdec : decide (b < n) = false := by simp; omega
      refine ⟨⟨some s', n⟩, tr, ?_, ?_, by simp [hb, h2, h3], by simp [h2, hmin]⟩
      · simp [uCreateX, valueInitLoopX_eq, hmin, h1, hdec, hb, Except.map, bind, Except.bind, pure, Except.pure]
      · simp only [hb, and_self, if_true]
        refine ⟨by simp, by simp [h4, rawStore], ?_⟩
        intro p
        simp only [uslots_some, h5 p, rawStore_getElem?, List.getElem?_replicate]
        by_cases hp : p < n <;> simp [hp]
    · have hmin : min n b = b := by omega
      have hdec : decide (b < n) = true := by simp; omega
      obtain ⟨s2, tr2, g1, g2, g3, _, _⟩ := destroyLoop_spec (min n b) 0 s' (by
        intro p _ hp; rw [h5 p, if_pos (by omega)]; exact ⟨_, rfl⟩)
      refine ⟨⟨none, 0⟩, tr ++ tr2, ?_, by simpa [hb] using uabs_nil, by simp [hb, h2, h3, g2, g3], by simp [h2, g2]⟩
      simp [uCreateX, valueInitLoopX_eq, h1, hdec, hb, g1, Except.map, bind, Except.bind, pure, Except.pure]

/-- `create_buffer` as it was (`m_size = size` before the loop, no guard): a throw at the second of two
    constructions leaves `size() == 2` over a block whose slot 1 is raw, and the destructor destroys raw storage -/
theorem uCreateXOrig_witness :
    (match uCreateXOrig 2 1 with
      | .ok (a, _, t) => decide (a = ⟨some [.obj (some 0), .raw], 2⟩) && t
      | _ => false) = true ∧
    (match uInvalidate ⟨some [.obj (some 0), .raw], 2⟩ with
      | .error .dtorRaw => true
      | _ => false) = true := by decide

end Igris.C14
