/-
  C14 — the width of the size counter.

  `Model.lean` keeps `m_size` as a natural number.  The code keeps a
  `std::size_t`; here `push_back` is written once more with a counter of `w`
  bits (a store keeps `n % 2^w`), to say exactly when the natural number is a
  faithful stand-in and what happens when it is not.  Core Lean only.
-/
import IgrisModel.C14.Model

namespace Igris.C14

/-- what a `w`-bit unsigned `m_size` holds after `m_size = n` -/
def stored (w n : Nat) : Nat := n % 2 ^ w

/-- `push_back` with a `w`-bit counter:
    `if (m_size >= N) return; new (&_data[m_size]) T(obj); ++m_size;` -/
def pushBackW (w N : Nat) (v : SVec) (x : Nat) : Except Fault (SVec × Tr) :=
  if v.size ≥ N then .ok (v, [])
  else do
    let s ← construct v.slots v.size (some x)
    pure (⟨s, stored w (v.size + 1)⟩, [⟨false, .ctor, v.size⟩])

/-- pushing a list of values one after the other -/
def pushAllW (w N : Nat) : List Nat → SVec → Except Fault SVec
  | [], v => .ok v
  | x :: xs, v => do
      let (v', _) ← pushBackW w N v x
      pushAllW w N xs v'

end Igris.C14
