/-
  C14 — the lifetime ledger over the event trace of histories in which element
  constructors THROW (`stepX` / `runX` of Exc.lean).  Every loop with a throw
  point is the plain loop run for `min k b` iterations (`…X_eq`), so the replay
  lemmas of Ledger.lean carry over; a constructor that throws runs
  `~static_vector()` on what it had built, after which no slot of the object is
  live (`destructor_all_dead`, which needs the abstraction of the partial
  result: `copyInto_prefix`, `moveInto_prefix`, `rangeLoopX_spec`, `ilLoopX_spec`).
-/
import IgrisModel.C14.Ledger
import IgrisModel.C14.MachX

namespace Igris.C14

/-- live slots of an object that may not exist -/
def occO : Option SVec → (Nat → Bool)
  | some u => occOf u.slots
  | none => fun _ => false

theorem occR_set_opt (f : Nat → Option SVec) (r : Nat) (w : Option SVec) :
    occR (setReg f r w) = setG (occR f) r (occO w) := by
  cases w with
  | none => exact occR_set_none f r
  | some u => exact occR_set_some f r u

/-! ### loops -/

theorem valueInitLoopX_replay {k pos : Nat} {sl sl' : Slots} {b n : Nat} {tr : Tr} {t : Bool}
    (h : valueInitLoopX k pos sl b = .ok (sl', tr, n, t)) :
    ∀ (g : GOcc) (r s : Nat), g r = occOf sl → replayG (glob r s tr) g = some (setG g r (occOf sl')) := by
  rw [valueInitLoopX_eq] at h
  cases hv : valueInitLoop (min k b) pos sl with
  | error e => rw [hv] at h; cases h
  | ok q =>
    rw [hv] at h
    simp only [Except.map] at h
    cases h
    exact valueInitLoop_replay _ _ _ _ _ hv

theorem copyLoopX_replay {src : Slots} {k pos : Nat} {sl sl' : Slots} {b n : Nat} {tr : Tr} {t : Bool}
    (h : copyLoopX src k pos sl b = .ok (sl', tr, n, t)) :
    ∀ (g : GOcc) (r s : Nat), g r = occOf sl → replayG (glob r s tr) g = some (setG g r (occOf sl')) := by
  rw [copyLoopX_eq] at h
  cases hv : copyLoop src (min k b) pos sl with
  | error e => rw [hv] at h; cases h
  | ok q =>
    rw [hv] at h
    simp only [Except.map] at h
    cases h
    exact copyLoop_replay _ _ _ _ _ _ hv

theorem moveLoopX_replay {trk : Bool} {k pos : Nat} {d src d' s' : Slots} {b n : Nat} {tr : Tr} {t : Bool}
    (h : moveLoopX trk k pos d src b = .ok (d', s', tr, n, t)) :
    ∀ (g : GOcc) (r s : Nat), r ≠ s → g r = occOf d → g s = occOf src →
      replayG (glob r s tr) g = some (setG (setG g s (occOf s')) r (occOf d')) := by
  rw [moveLoopX_eq] at h
  cases hv : moveLoop trk (min k b) pos d src with
  | error e => rw [hv] at h; cases h
  | ok q =>
    rw [hv] at h
    simp only [Except.map] at h
    cases h
    exact moveLoop_replay trk _ _ _ _ _ _ _ hv

/-! ### member functions of one object -/

theorem ctor_event_replay {v : SVec} {s1 : Slots} {x : Elem} (h1 : construct v.slots v.size x = .ok s1) (sz : Nat) :
    UReplay v ⟨s1, sz⟩ [⟨false, .ctor, v.size⟩] := by
  obtain ⟨a1, a2⟩ := construct_inv h1
  intro g r s hg
  simp only [glob, List.map_cons, List.map_nil, replayG, Bool.false_eq_true, if_false]
  rw [replay_ctor (by rw [hg]; exact a1)]
  simp [Option.bind, hg, a2]

theorem pushBackX_replay {N : Nat} {v v' : SVec} {x b : Nat} {tr : Tr} {t : Bool}
    (h : pushBackX N v x b = .ok (v', tr, t)) : UReplay v v' tr := by
  cases b with
  | zero =>
    simp only [pushBackX] at h
    split at h <;> (cases h; exact ureplay_nil v)
  | succ b =>
    simp only [pushBackX] at h
    split at h
    · cases h; exact ureplay_nil v
    · obtain ⟨s1, h1, h⟩ := bind_ok h
      cases h
      exact ctor_event_replay h1 _

theorem rangeLoopX_replay (N : Nat) : ∀ (xs : List Nat) (v v' : SVec) (b : Nat) (tr : Tr) (t : Bool),
    rangeLoopX N xs v b = .ok (v', tr, t) → UReplay v v' tr := by
  intro xs
  induction xs with
  | nil => intro v v' b tr t h; simp only [rangeLoopX] at h; cases h; exact ureplay_nil v
  | cons x xs ih =>
    intro v v' b tr t h
    simp only [rangeLoopX] at h
    split at h
    · exact ih _ _ _ _ _ h
    · cases b with
      | zero => simp only [] at h; cases h; exact ureplay_nil v
      | succ b =>
        simp only [] at h
        obtain ⟨s1, h1, h⟩ := bind_ok h
        obtain ⟨⟨v2, t2, tt⟩, h2, h⟩ := bind_ok h
        cases h
        exact ureplay_trans (ctor_event_replay h1 _) (ih _ _ _ _ _ h2)

theorem ilLoopX_replay (N : Nat) : ∀ (xs : List Nat) (v v' : SVec) (b : Nat) (tr : Tr) (t : Bool),
    ilLoopX N xs v b = .ok (v', tr, t) → UReplay v v' tr := by
  intro xs
  induction xs with
  | nil => intro v v' b tr t h; simp only [ilLoopX] at h; cases h; exact ureplay_nil v
  | cons x xs ih =>
    intro v v' b tr t h
    simp only [ilLoopX] at h
    split at h
    · cases h; exact ureplay_nil v
    · cases b with
      | zero => simp only [] at h; cases h; exact ureplay_nil v
      | succ b =>
        simp only [] at h
        obtain ⟨s1, h1, h⟩ := bind_ok h
        obtain ⟨⟨v2, t2, tt⟩, h2, h⟩ := bind_ok h
        cases h
        exact ureplay_trans (ctor_event_replay h1 _) (ih _ _ _ _ _ h2)

theorem resizeX_replay {N : Nat} {v v' : SVec} {n b : Nat} {tr : Tr} {t : Bool}
    (h : resizeX N v n b = .ok (v', tr, t)) : UReplay v v' tr := by
  simp only [resizeX] at h
  obtain ⟨⟨s1, t1, k, tt⟩, h1, h⟩ := bind_ok h
  have a : UReplay v ⟨s1, v.size + k⟩ t1 := valueInitLoopX_replay h1
  cases tt with
  | true => simp only [if_true] at h; cases h; exact a
  | false =>
    simp only [Bool.false_eq_true, if_false] at h
    obtain ⟨⟨s2, t2⟩, h2, h⟩ := bind_ok h
    cases h
    have b' : UReplay ⟨s1, v.size + k⟩ ⟨s2, if n ≥ N then N else n⟩ t2 := destroyLoop_replay _ _ _ _ _ h2
    exact ureplay_trans a b'

theorem assignCopyX_replay {v o v' : SVec} {b : Nat} {tr : Tr} {t : Bool}
    (h : assignCopyX v o b = .ok (v', tr, t)) : UReplay v v' tr := by
  simp only [assignCopyX] at h
  obtain ⟨⟨v1, t1⟩, h1, h⟩ := bind_ok h
  obtain ⟨⟨s2, t2, n, tt⟩, h2, h⟩ := bind_ok h
  cases h
  have b' : UReplay v1 ⟨s2, n⟩ t2 := copyLoopX_replay h2
  exact ureplay_trans (clear_replay h1) b'

theorem assignMoveX_replay {trk : Bool} {v o v' o' : SVec} {b : Nat} {tr : Tr} {t : Bool}
    (h : assignMoveX trk v o b = .ok (v', o', tr, t)) : BReplay v o v' o' tr := by
  simp only [assignMoveX] at h
  obtain ⟨⟨v1, t1⟩, h1, h⟩ := bind_ok h
  obtain ⟨⟨d2, s2, t2, n, tt⟩, h2, h⟩ := bind_ok h
  have a : BReplay v o v1 o t1 := breplay_of_u_left (clear_replay h1)
  have b' : BReplay v1 o ⟨d2, n⟩ ⟨s2, o.size⟩ t2 := by
    intro g r s hne hg hs
    exact moveLoopX_replay h2 g r s hne hg hs
  cases tt with
  | true =>
    simp only [if_true] at h
    cases h
    exact breplay_trans a b'
  | false =>
    simp only [Bool.false_eq_true, if_false] at h
    obtain ⟨⟨o3, t3⟩, h3, h⟩ := bind_ok h
    cases h
    have c : BReplay ⟨d2, n⟩ ⟨s2, o.size⟩ ⟨d2, n⟩ o3 (t3.map Ev.flip) := breplay_of_u_right (clear_replay h3)
    exact breplay_trans (breplay_trans a b') c

/-! ### constructors: a throw runs the destructor on what was built -/

theorem dead_after_destructor {N : Nat} {v v2 : SVec} {es : List Elem} {tr2 : Tr} (ha : Abs N v es)
    (h2 : destructor v = .ok (v2, tr2)) (g : GOcc) (r s : Nat) (hg : g r = occOf v.slots) :
    replayG (glob r s tr2) g = some (setG g r (fun _ => false)) := by
  rw [destructor_replay h2 g r s hg, destructor_all_dead ha h2]

/-- the common tail of the four constructors: `if t then unwindCtor v tr else pure (some v, tr, false)` -/
theorem ctor_tail_replay {N : Nat} {v : SVec} {es : List Elem} (ha : Abs N v es) {tr1 : Tr} (hu : UReplay ⟨rawStore N, 0⟩ v tr1)
    {tt : Bool} {w : Option SVec} {tr : Tr} {t : Bool}
    (h : (if tt then unwindCtor v tr1 else pure (some v, tr1, false)) = Except.ok (w, tr, t)) :
    ∀ (g : GOcc) (r s : Nat), g r = (fun _ => false) → replayG (glob r s tr) g = some (setG g r (occO w)) := by
  intro g r s hg
  have h0 := hu g r s (by rw [hg, occOf_rawStore])
  cases tt with
  | false =>
    simp only [Bool.false_eq_true, if_false, pure, Except.pure] at h
    cases h
    exact h0
  | true =>
    simp only [if_true, unwindCtor] at h
    obtain ⟨⟨v2, tr2⟩, h2, h⟩ := bind_ok h
    cases h
    rw [glob_append, replayG_append, h0]
    simp only [Option.bind]
    rw [dead_after_destructor ha h2 _ r s (by simp [setG]), setG_setG]
    rfl

theorem copyCtorX_replay {N : Nat} {o : SVec} {eo : List Elem} (ho : Abs N o eo) {b : Nat} {w : Option SVec} {tr : Tr} {t : Bool}
    (h : copyCtorX N o b = .ok (w, tr, t)) :
    ∀ (g : GOcc) (r s : Nat), g r = (fun _ => false) → replayG (glob r s tr) g = some (setG g r (occO w)) := by
  simp only [copyCtorX] at h
  obtain ⟨⟨d, tr1, n, tt⟩, h1, h⟩ := bind_ok h
  have hu : UReplay ⟨rawStore N, 0⟩ ⟨d, n⟩ tr1 := copyLoopX_replay h1
  -- the abstraction of the partial result
  have hs := ho.size
  obtain ⟨d', tr', p1, p2, _, _⟩ := copyInto_prefix (abs_fresh N) ho (min eo.length b) (by omega)
  have ha : Abs N ⟨d, n⟩ (eo.take (min eo.length b)) := by
    rw [copyLoopX_eq, hs] at h1
    simp only at p1
    rw [p1] at h1
    simp only [Except.map] at h1
    cases h1
    exact p2
  exact ctor_tail_replay ha hu h

theorem listCtorX_replay {N : Nat} {v : SVec} {es : List Elem} (ha : Abs N v es) {tr1 : Tr}
    (hu : UReplay ⟨rawStore N, 0⟩ v tr1) {tt : Bool} {w : Option SVec} {tr : Tr} {t : Bool}
    (h : (if tt then unwindCtor v tr1 else pure (some v, tr1, false)) = Except.ok (w, tr, t)) :
    ∀ (g : GOcc) (r s : Nat), g r = (fun _ => false) → replayG (glob r s tr) g = some (setG g r (occO w)) :=
  ctor_tail_replay ha hu h

theorem rangeCtorX_replay {N : Nat} {xs : List Nat} {b : Nat} {w : Option SVec} {tr : Tr} {t : Bool}
    (h : rangeCtorX N xs b = .ok (w, tr, t)) :
    ∀ (g : GOcc) (r s : Nat), g r = (fun _ => false) → replayG (glob r s tr) g = some (setG g r (occO w)) := by
  simp only [rangeCtorX] at h
  obtain ⟨⟨v, tr1, tt⟩, h1, h⟩ := bind_ok h
  have hu : UReplay ⟨rawStore N, 0⟩ v tr1 := rangeLoopX_replay N xs _ _ _ _ _ h1
  obtain ⟨v', tr', p1, p2, _, _⟩ := rangeLoopX_spec N xs ⟨rawStore N, 0⟩ [] b (abs_fresh N)
  rw [h1] at p1
  cases p1
  exact ctor_tail_replay p2 hu h

theorem ilCtorX_replay {N : Nat} {xs : List Nat} {b : Nat} {w : Option SVec} {tr : Tr} {t : Bool}
    (h : ilCtorX N xs b = .ok (w, tr, t)) :
    ∀ (g : GOcc) (r s : Nat), g r = (fun _ => false) → replayG (glob r s tr) g = some (setG g r (occO w)) := by
  simp only [ilCtorX] at h
  obtain ⟨⟨v, tr1, tt⟩, h1, h⟩ := bind_ok h
  have hu : UReplay ⟨rawStore N, 0⟩ v tr1 := ilLoopX_replay N xs _ _ _ _ _ h1
  obtain ⟨v', tr', p1, p2, _, _⟩ := ilLoopX_spec N xs ⟨rawStore N, 0⟩ [] b (abs_fresh N)
  rw [h1] at p1
  cases p1
  exact ctor_tail_replay p2 hu h

theorem moveCtorX_replay {port trk : Bool} {N : Nat} {o : SVec} {eo : List Elem} (ho : Abs N o eo) {b : Nat}
    {w : Option SVec} {o' : SVec} {tr : Tr} {t : Bool}
    (h : moveCtorX port trk N o b = .ok (w, o', tr, t)) :
    ∀ (g : GOcc) (r s : Nat), r ≠ s → g r = (fun _ => false) → g s = occOf o.slots →
      replayG (glob r s tr) g = some (setG (setG g s (occOf o'.slots)) r (occO w)) := by
  intro g r s hne hg hgs
  simp only [moveCtorX] at h
  obtain ⟨⟨d, s1, tr1, n, tt⟩, h1, h⟩ := bind_ok h
  have h0 := moveLoopX_replay h1 g r s hne (by rw [hg, occOf_rawStore]) hgs
  have hs := ho.size
  obtain ⟨d', s', tr', p1, p2, _, _⟩ := moveInto_prefix trk (abs_fresh N) ho (min eo.length b) (by omega)
  have ha : Abs N ⟨d, n⟩ (eo.take (min eo.length b)) := by
    have h1' := h1
    rw [moveLoopX_eq, hs] at h1'
    simp only at p1
    rw [p1] at h1'
    simp only [Except.map] at h1'
    cases h1'
    exact p2
  cases tt with
  | true =>
    simp only [if_true] at h
    obtain ⟨⟨v2, tr2⟩, h2, h⟩ := bind_ok h
    cases h
    rw [glob_append, replayG_append, h0]
    simp only [Option.bind]
    rw [dead_after_destructor ha h2 _ r s (by simp [setG]), setG_setG]
    rfl
  | false =>
    simp only [Bool.false_eq_true, if_false] at h
    cases port with
    | true =>
      simp only [if_true, pure, Except.pure] at h
      cases h
      exact h0
    | false =>
      simp only [Bool.false_eq_true, if_false] at h
      obtain ⟨⟨o2, tr2⟩, h2, h⟩ := bind_ok h
      cases h
      have a : BReplay ⟨rawStore N, 0⟩ o ⟨d, n⟩ ⟨s1, o.size⟩ tr1 := by
        intro g r s hne hg hs
        exact moveLoopX_replay h1 g r s hne hg hs
      have c := breplay_trans a (breplay_of_u_right (v := ⟨d, n⟩) (clear_replay h2))
      exact c g r s hne (by rw [hg, occOf_rawStore]) hgs

/-! ### the machine with throw points -/

theorem stepX_replay {c : Cfg} {m : Mach} {sp : SpecRegs} (hinv : MInv c m sp) {op : Op} {b : Nat} {m' : Mach} {res : Res}
    {t : Bool} (h : stepX c m op b = .ok (m', res, t)) : StepReplay m m' res := by
  have plain : ∀ (op : Op), (stepX c m op b = (do let (m', res) ← step c m op; pure (m', res, false))) →
      stepX c m op b = .ok (m', res, t) → StepReplay m m' res := by
    intro op e h
    rw [e] at h
    obtain ⟨⟨m1, r1⟩, h1, h2⟩ := bind_ok h
    cases h2
    exact step_replay hinv h1
  cases op with
  | new r => exact plain _ rfl h
  | erase r i j => exact plain _ rfl h
  | clear r => exact plain _ rfl h
  | del r => exact plain _ rfl h
  | finish => exact plain _ rfl h
  | push r x =>
    simp only [stepX] at h
    by_cases hk : r < c.K
    · cases hm : m.regs r with
      | none => simp [hk, hm] at h; obtain ⟨rfl, rfl, _⟩ := h; rfl
      | some v =>
        simp only [hk, hm, decide_true] at h
        obtain ⟨⟨v', tr, tt⟩, h1, h2⟩ := bind_ok h
        cases h2
        simp only [StepReplay, Mach.log]
        rw [pushBackX_replay h1 (occR m.regs) r r (occR_some hm), occR_set_some]
    · simp [hk] at h; obtain ⟨rfl, rfl, _⟩ := h; rfl
  | emplace r x =>
    simp only [stepX] at h
    by_cases hk : r < c.K
    · cases hm : m.regs r with
      | none => simp [hk, hm] at h; obtain ⟨rfl, rfl, _⟩ := h; rfl
      | some v =>
        simp only [hk, hm, decide_true] at h
        obtain ⟨⟨v', tr, tt⟩, h1, h2⟩ := bind_ok h
        cases h2
        simp only [StepReplay, Mach.log]
        rw [pushBackX_replay h1 (occR m.regs) r r (occR_some hm), occR_set_some]
    · simp [hk] at h; obtain ⟨rfl, rfl, _⟩ := h; rfl
  | resize r n =>
    simp only [stepX] at h
    by_cases hk : r < c.K
    · cases hm : m.regs r with
      | none => simp [hk, hm] at h; obtain ⟨rfl, rfl, _⟩ := h; rfl
      | some v =>
        simp only [hk, hm, decide_true] at h
        obtain ⟨⟨v', tr, tt⟩, h1, h2⟩ := bind_ok h
        cases h2
        simp only [StepReplay, Mach.log]
        rw [resizeX_replay h1 (occR m.regs) r r (occR_some hm), occR_set_some]
    · simp [hk] at h; obtain ⟨rfl, rfl, _⟩ := h; rfl
  | range r xs =>
    simp only [stepX] at h
    by_cases hk : r < c.K ∧ c.port = false
    · cases hm : m.regs r with
      | some v => simp [hk, hm] at h; obtain ⟨rfl, rfl, _⟩ := h; rfl
      | none =>
        simp only [hk, hm, decide_true, and_self] at h
        obtain ⟨⟨w, tr, tt⟩, h1, h2⟩ := bind_ok h
        cases h2
        simp only [StepReplay, Mach.log]
        rw [rangeCtorX_replay h1 (occR m.regs) r r (occR_none hm), occR_set_opt]
    · simp [hk] at h; obtain ⟨rfl, rfl, _⟩ := h; rfl
  | il r xs =>
    simp only [stepX] at h
    by_cases hk : r < c.K ∧ c.port = false
    · cases hm : m.regs r with
      | some v => simp [hk, hm] at h; obtain ⟨rfl, rfl, _⟩ := h; rfl
      | none =>
        simp only [hk, hm, decide_true, and_self] at h
        obtain ⟨⟨w, tr, tt⟩, h1, h2⟩ := bind_ok h
        cases h2
        simp only [StepReplay, Mach.log]
        rw [ilCtorX_replay h1 (occR m.regs) r r (occR_none hm), occR_set_opt]
    · simp [hk] at h; obtain ⟨rfl, rfl, _⟩ := h; rfl
  | copy r s =>
    simp only [stepX] at h
    by_cases hk : r < c.K ∧ s < c.K
    · cases hm : m.regs r with
      | some v => simp [hk, hm] at h; obtain ⟨rfl, rfl, _⟩ := h; rfl
      | none =>
        cases hm2 : m.regs s with
        | none => simp [hk, hm, hm2] at h; obtain ⟨rfl, rfl, _⟩ := h; rfl
        | some o =>
          have hrel := hinv.rel s
          rw [hm2] at hrel
          cases hsp : sp s with
          | none => rw [hsp] at hrel; exact hrel.elim
          | some eo =>
            rw [hsp] at hrel
            simp only [hk, hm, hm2, decide_true, and_self] at h
            obtain ⟨⟨w, tr, tt⟩, h1, h2⟩ := bind_ok h
            cases h2
            simp only [StepReplay, Mach.log]
            rw [copyCtorX_replay hrel h1 (occR m.regs) r s (occR_none hm), occR_set_opt]
    · simp [hk] at h; obtain ⟨rfl, rfl, _⟩ := h; rfl
  | move r s =>
    simp only [stepX] at h
    by_cases hk : r < c.K ∧ s < c.K
    · cases hm : m.regs r with
      | some v => simp [hk, hm] at h; obtain ⟨rfl, rfl, _⟩ := h; rfl
      | none =>
        cases hm2 : m.regs s with
        | none => simp [hk, hm, hm2] at h; obtain ⟨rfl, rfl, _⟩ := h; rfl
        | some o =>
          have hne : r ≠ s := by intro e; subst e; rw [hm] at hm2; cases hm2
          have hrel := hinv.rel s
          rw [hm2] at hrel
          cases hsp : sp s with
          | none => rw [hsp] at hrel; exact hrel.elim
          | some eo =>
            rw [hsp] at hrel
            simp only [hk, hm, hm2, decide_true, and_self] at h
            obtain ⟨⟨w, o', tr, tt⟩, h1, h2⟩ := bind_ok h
            cases h2
            simp only [StepReplay, Mach.log]
            rw [moveCtorX_replay hrel h1 (occR m.regs) r s hne (occR_none hm) (occR_some hm2),
              occR_set_opt, occR_set_some]
    · simp [hk] at h; obtain ⟨rfl, rfl, _⟩ := h; rfl
  | acopy r s =>
    simp only [stepX] at h
    by_cases hk : r < c.K ∧ s < c.K
    · cases hm : m.regs r with
      | none => simp [hk, hm] at h; obtain ⟨rfl, rfl, _⟩ := h; rfl
      | some v =>
        cases hm2 : m.regs s with
        | none => simp [hk, hm, hm2] at h; obtain ⟨rfl, rfl, _⟩ := h; rfl
        | some o =>
          simp only [hk, hm, hm2, decide_true, and_self] at h
          by_cases hrs : r = s
          · simp only [hrs, if_true] at h
            cases h
            simp only [StepReplay, Mach.log, replayG]
          · simp only [hrs, if_false] at h
            obtain ⟨⟨v', tr, tt⟩, h1, h2⟩ := bind_ok h
            cases h2
            simp only [StepReplay, Mach.log]
            rw [assignCopyX_replay h1 (occR m.regs) r s (occR_some hm), occR_set_some]
    · simp [hk] at h; obtain ⟨rfl, rfl, _⟩ := h; rfl
  | amove r s =>
    simp only [stepX] at h
    by_cases hk : r < c.K ∧ s < c.K
    · cases hm : m.regs r with
      | none => simp [hk, hm] at h; obtain ⟨rfl, rfl, _⟩ := h; rfl
      | some v =>
        cases hm2 : m.regs s with
        | none => simp [hk, hm, hm2] at h; obtain ⟨rfl, rfl, _⟩ := h; rfl
        | some o =>
          simp only [hk, hm, hm2, decide_true, and_self] at h
          by_cases hrs : r = s
          · simp only [hrs, if_true] at h
            cases h
            simp only [StepReplay, Mach.log, replayG]
          · simp only [hrs, if_false] at h
            obtain ⟨⟨v', o', tr, tt⟩, h1, h2⟩ := bind_ok h
            cases h2
            simp only [StepReplay, Mach.log]
            rw [assignMoveX_replay h1 (occR m.regs) r s hrs (occR_some hm) (occR_some hm2), occR_set_some, occR_set_some]
    · simp [hk] at h; obtain ⟨rfl, rfl, _⟩ := h; rfl

/-- all lifetime events of a history with throw points, in order -/
def runEvX (c : Cfg) : List (Op × Nat) → Mach → Except Fault (Mach × List GEv)
  | [], m => .ok (m, [])
  | (op, b) :: ops, m => do
      let (m', res, _) ← stepX c m op b
      let (m'', evs) ← runEvX c ops m'
      pure (m'', res.getD [] ++ evs)

theorem runEvX_replays {c : Cfg} : ∀ (ops : List (Op × Nat)) (m : Mach) (sp : SpecRegs), MInv c m sp →
    ∃ m' evs, runEvX c ops m = .ok (m', evs) ∧ MInv c m' (specRunX c ops sp) ∧
      replayG evs (occR m.regs) = some (occR m'.regs) := by
  intro ops
  induction ops with
  | nil => intro m sp h; exact ⟨m, [], rfl, h, rfl⟩
  | cons opb ops ih =>
    obtain ⟨op, b⟩ := opb
    intro m sp h
    obtain ⟨m1, res, h1, h2⟩ := stepX_refines h op b
    have hr := stepX_replay h h1
    obtain ⟨m', evs, g1, g2, g3⟩ := ih m1 _ h2
    refine ⟨m', res.getD [] ++ evs, by simp [runEvX, h1, g1, bind, Except.bind, pure, Except.pure], g2, ?_⟩
    rw [replayG_append]
    cases hres : res with
    | none =>
      rw [hres] at hr
      simp only [StepReplay] at hr
      simp only [Option.getD, replayG, Option.bind]
      rw [← hr]; exact g3
    | some ev =>
      rw [hres] at hr
      simp only [StepReplay] at hr
      simp only [Option.getD, hr, Option.bind]
      exact g3

theorem runEvX_runX {c : Cfg} : ∀ (ops : List (Op × Nat)) (m m' : Mach) (evs : List GEv),
    runEvX c ops m = .ok (m', evs) → runX c ops m = .ok m' := by
  intro ops
  induction ops with
  | nil => intro m m' evs h; simp only [runEvX] at h; cases h; rfl
  | cons opb ops ih =>
    obtain ⟨op, b⟩ := opb
    intro m m' evs h
    simp only [runEvX] at h
    obtain ⟨⟨m1, res, t⟩, h1, h⟩ := bind_ok h
    obtain ⟨⟨m2, ev2⟩, h2, h⟩ := bind_ok h
    cases h
    have := ih _ _ _ h2
    simp only [] at this
    simp [runX, h1, this, bind, Except.bind]

end Igris.C14
