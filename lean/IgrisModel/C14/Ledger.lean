/-
  C14 — the lifetime ledger replayed over the EVENT TRACE.

  `replayG` is the check the harness performs on the real code with its
  Tracked element type: it walks the sequence of lifetime events and keeps the
  set of storage locations (register, slot) that hold a live object; a
  constructor event on a live location, a destructor / assignment / move event
  on a dead one is a failure.  Here it is shown that the events the model emits
  always replay successfully and that the replayed live-set is exactly the set
  of occupied slots of the model — so every constructor event is followed by
  exactly one destructor event on the same location before the next
  constructor event there (or before the end, after `finish`).
-/
import IgrisModel.C14.Lemmas

namespace Igris.C14

abbrev GOcc := Nat → Nat → Bool

def setG (g : GOcc) (r : Nat) (o : Nat → Bool) : GOcc := fun q => if q = r then o else g q
def setB (o : Nat → Bool) (i : Nat) (b : Bool) : Nat → Bool := fun p => if p = i then b else o p

def replayG1 (g : GOcc) (e : GEv) : Option GOcc :=
  match e.k with
  | .ctor => if g e.reg e.i then none else some (setG g e.reg (setB (g e.reg) e.i true))
  | .dtor => if g e.reg e.i then some (setG g e.reg (setB (g e.reg) e.i false)) else none
  | .asg => if g e.reg e.i then some g else none
  | .mv => if g e.reg e.i then some g else none

def replayG : List GEv → GOcc → Option GOcc
  | [], g => some g
  | e :: t, g => (replayG1 g e).bind (replayG t)

theorem replayG_append (a b : List GEv) (g : GOcc) : replayG (a ++ b) g = (replayG a g).bind (replayG b) := by
  induction a generalizing g with
  | nil => rfl
  | cons e a ih =>
    simp only [List.cons_append, replayG]
    cases replayG1 g e with
    | none => rfl
    | some g1 => simp [ih]

/-- which slots of a storage hold an object -/
def occOf (s : Slots) : Nat → Bool := fun p =>
  match s[p]? with
  | some (.obj _) => true
  | _ => false

theorem setG_self (g : GOcc) (r : Nat) : setG g r (g r) = g := by
  funext q; simp only [setG]; split
  · next h => rw [h]
  · rfl

theorem setG_setG (g : GOcc) (r : Nat) (a b : Nat → Bool) : setG (setG g r a) r b = setG g r b := by
  funext q; simp only [setG]; split <;> rfl

@[simp] theorem setG_get (g : GOcc) (r : Nat) (a : Nat → Bool) : setG g r a r = a := by simp [setG]
theorem setG_get_ne (g : GOcc) {r q : Nat} (a : Nat → Bool) (h : q ≠ r) : setG g r a q = g q := by simp [setG, h]

theorem setG_comm (g : GOcc) {r s : Nat} (h : r ≠ s) (a b : Nat → Bool) :
    setG (setG g r a) s b = setG (setG g s b) r a := by
  funext q; simp only [setG]
  by_cases h1 : q = s
  · by_cases h2 : q = r
    · exact absurd (h2.symm.trans h1) h
    · rw [if_pos h1, if_neg h2, if_pos h1]
  · by_cases h2 : q = r
    · rw [if_neg h1, if_pos h2, if_pos h2]
    · rw [if_neg h1, if_neg h2, if_neg h2, if_neg h1]

theorem occOf_rawStore (N : Nat) : occOf (rawStore N) = fun _ => false := by
  funext p; simp only [occOf, rawStore_getElem?]; split <;> simp_all

theorem occOf_set_obj {s : Slots} {i : Nat} (h : i < s.length) (e : Elem) :
    occOf (s.set i (.obj e)) = setB (occOf s) i true := by
  funext p; simp only [occOf, setB, List.getElem?_set]
  by_cases hp : p = i
  · subst hp; simp [h]
  · have : ¬ i = p := fun e => hp e.symm
    simp [hp, this]

theorem occOf_set_raw {s : Slots} {i : Nat} (h : i < s.length) :
    occOf (s.set i .raw) = setB (occOf s) i false := by
  funext p; simp only [occOf, setB, List.getElem?_set]
  by_cases hp : p = i
  · subst hp; simp [h]
  · have : ¬ i = p := fun e => hp e.symm
    simp [hp, this]

theorem occOf_set_same {s : Slots} {i : Nat} {e0 : Elem} (h : s[i]? = some (.obj e0)) (e : Elem) :
    occOf (s.set i (.obj e)) = occOf s := by
  rw [occOf_set_obj (lt_of_getElem?_some h)]
  funext p; simp only [setB]; split
  · next hp => subst hp; simp [occOf, h]
  · rfl

/-! ### inversion of the primitives -/

theorem construct_inv {s s' : Slots} {i : Nat} {e : Elem} (h : construct s i e = .ok s') :
    occOf s i = false ∧ occOf s' = setB (occOf s) i true := by
  unfold construct at h
  split at h
  · cases h
  · cases h
  · next hr => cases h; exact ⟨by simp [occOf, hr], occOf_set_obj (lt_of_getElem?_some hr) e⟩

theorem destroy_inv {s s' : Slots} {i : Nat} (h : destroy s i = .ok s') :
    occOf s i = true ∧ occOf s' = setB (occOf s) i false := by
  unfold destroy at h
  split at h
  · cases h
  · cases h
  · next e0 hr => cases h; exact ⟨by simp [occOf, hr], occOf_set_raw (lt_of_getElem?_some hr)⟩

theorem assign_inv {s s' : Slots} {i : Nat} {e : Elem} (h : assign s i e = .ok s') :
    occOf s i = true ∧ occOf s' = occOf s := by
  unfold assign at h
  split at h
  · cases h
  · cases h
  · next e0 hr => cases h; exact ⟨by simp [occOf, hr], occOf_set_same hr e⟩

theorem moveOut_inv {trk : Bool} {s s' : Slots} {i : Nat} {e : Elem} (h : moveOut trk s i = .ok (e, s')) :
    occOf s i = true ∧ occOf s' = occOf s := by
  unfold moveOut at h
  split at h
  · cases h
  · cases h
  · next e0 hr =>
    cases h
    refine ⟨by simp [occOf, hr], ?_⟩
    cases trk
    · rfl
    · exact occOf_set_same hr none

/-- `(do let a ← x; f a) = ok b` -/
theorem bind_ok {α β : Type} {x : Except Fault α} {f : α → Except Fault β} {b : β}
    (h : (x >>= f) = .ok b) : ∃ a, x = .ok a ∧ f a = .ok b := by
  cases x with
  | error e => cases h
  | ok a => exact ⟨a, rfl, h⟩

/-! ### one event -/

theorem replay_ctor {g : GOcc} {r i : Nat} (h : g r i = false) :
    replayG1 g ⟨r, .ctor, i⟩ = some (setG g r (setB (g r) i true)) := by simp [replayG1, h]
theorem replay_dtor {g : GOcc} {r i : Nat} (h : g r i = true) :
    replayG1 g ⟨r, .dtor, i⟩ = some (setG g r (setB (g r) i false)) := by simp [replayG1, h]
theorem replay_asg {g : GOcc} {r i : Nat} (h : g r i = true) : replayG1 g ⟨r, .asg, i⟩ = some g := by simp [replayG1, h]
theorem replay_mv {g : GOcc} {r i : Nat} (h : g r i = true) : replayG1 g ⟨r, .mv, i⟩ = some g := by simp [replayG1, h]

/-! ### loops -/

theorem destroyLoop_replay : ∀ (k pos : Nat) (sl sl' : Slots) (tr : Tr), destroyLoop k pos sl = .ok (sl', tr) →
    ∀ (g : GOcc) (r s : Nat), g r = occOf sl → replayG (glob r s tr) g = some (setG g r (occOf sl')) := by
  intro k
  induction k with
  | zero =>
    intro pos sl sl' tr h g r s hg
    simp only [destroyLoop] at h; cases h
    simp [glob, replayG, ← hg, setG_self]
  | succ k ih =>
    intro pos sl sl' tr h g r s hg
    simp only [destroyLoop] at h
    obtain ⟨s1, h1, h⟩ := bind_ok h
    obtain ⟨⟨s2, tr2⟩, h2, h⟩ := bind_ok h
    cases h
    obtain ⟨a1, a2⟩ := destroy_inv h1
    have := ih (pos + 1) s1 s2 tr2 h2 (setG g r (setB (g r) pos false)) r s (by simp [hg, a2])
    simp only [glob, List.map_cons, replayG, Bool.false_eq_true, if_false]
    rw [replay_dtor (by rw [hg]; exact a1)]
    simp only [Option.bind]
    simp only [glob] at this
    rw [this, setG_setG]

theorem valueInitLoop_replay : ∀ (k pos : Nat) (sl sl' : Slots) (tr : Tr), valueInitLoop k pos sl = .ok (sl', tr) →
    ∀ (g : GOcc) (r s : Nat), g r = occOf sl → replayG (glob r s tr) g = some (setG g r (occOf sl')) := by
  intro k
  induction k with
  | zero =>
    intro pos sl sl' tr h g r s hg
    simp only [valueInitLoop] at h; cases h
    simp [glob, replayG, ← hg, setG_self]
  | succ k ih =>
    intro pos sl sl' tr h g r s hg
    simp only [valueInitLoop] at h
    obtain ⟨s1, h1, h⟩ := bind_ok h
    obtain ⟨⟨s2, tr2⟩, h2, h⟩ := bind_ok h
    cases h
    obtain ⟨a1, a2⟩ := construct_inv h1
    have := ih (pos + 1) s1 s2 tr2 h2 (setG g r (setB (g r) pos true)) r s (by simp [hg, a2])
    simp only [glob, List.map_cons, replayG, Bool.false_eq_true, if_false]
    rw [replay_ctor (by rw [hg]; exact a1)]
    simp only [Option.bind]
    simp only [glob] at this
    rw [this, setG_setG]

theorem copyLoop_replay (src : Slots) : ∀ (k pos : Nat) (sl sl' : Slots) (tr : Tr), copyLoop src k pos sl = .ok (sl', tr) →
    ∀ (g : GOcc) (r s : Nat), g r = occOf sl → replayG (glob r s tr) g = some (setG g r (occOf sl')) := by
  intro k
  induction k with
  | zero =>
    intro pos sl sl' tr h g r s hg
    simp only [copyLoop] at h; cases h
    simp [glob, replayG, ← hg, setG_self]
  | succ k ih =>
    intro pos sl sl' tr h g r s hg
    simp only [copyLoop] at h
    obtain ⟨e, h0, h⟩ := bind_ok h
    obtain ⟨s1, h1, h⟩ := bind_ok h
    obtain ⟨⟨s2, tr2⟩, h2, h⟩ := bind_ok h
    cases h
    obtain ⟨a1, a2⟩ := construct_inv h1
    have := ih (pos + 1) s1 s2 tr2 h2 (setG g r (setB (g r) pos true)) r s (by simp [hg, a2])
    simp only [glob, List.map_cons, replayG, Bool.false_eq_true, if_false]
    rw [replay_ctor (by rw [hg]; exact a1)]
    simp only [Option.bind]
    simp only [glob] at this
    rw [this, setG_setG]

theorem shiftLoop_replay (trk : Bool) : ∀ (k src dst : Nat) (sl sl' : Slots) (tr : Tr),
    shiftLoop trk k src dst sl = .ok (sl', tr) →
    ∀ (g : GOcc) (r s : Nat), g r = occOf sl → replayG (glob r s tr) g = some (setG g r (occOf sl')) := by
  intro k
  induction k with
  | zero =>
    intro src dst sl sl' tr h g r s hg
    simp only [shiftLoop] at h; cases h
    simp [glob, replayG, ← hg, setG_self]
  | succ k ih =>
    intro src dst sl sl' tr h g r s hg
    simp only [shiftLoop] at h
    obtain ⟨⟨e, s0⟩, h0, h⟩ := bind_ok h
    obtain ⟨s1, h1, h⟩ := bind_ok h
    obtain ⟨⟨s2, tr2⟩, h2, h⟩ := bind_ok h
    cases h
    obtain ⟨a1, a2⟩ := moveOut_inv h0
    obtain ⟨b1, b2⟩ := assign_inv h1
    have := ih (src + 1) (dst + 1) s1 s2 tr2 h2 g r s (by rw [hg, b2, a2])
    simp only [glob, List.map_cons, replayG, Bool.false_eq_true, if_false]
    rw [replay_mv (by rw [hg]; exact a1)]
    simp only [Option.bind, replayG]
    rw [replay_asg (by rw [hg, ← a2]; exact b1)]
    simp only [Option.bind]
    simp only [glob] at this
    exact this

theorem moveLoop_replay (trk : Bool) : ∀ (k pos : Nat) (d src d' s' : Slots) (tr : Tr),
    moveLoop trk k pos d src = .ok (d', s', tr) →
    ∀ (g : GOcc) (r s : Nat), r ≠ s → g r = occOf d → g s = occOf src →
      replayG (glob r s tr) g = some (setG (setG g s (occOf s')) r (occOf d')) := by
  intro k
  induction k with
  | zero =>
    intro pos d src d' s' tr h g r s hne hg hs
    simp only [moveLoop] at h; cases h
    simp [glob, replayG, ← hg, ← hs, setG_self]
  | succ k ih =>
    intro pos d src d' s' tr h g r s hne hg hs
    simp only [moveLoop] at h
    obtain ⟨⟨e, s0⟩, h0, h⟩ := bind_ok h
    obtain ⟨d1, h1, h⟩ := bind_ok h
    obtain ⟨⟨d2, s2, tr2⟩, h2, h⟩ := bind_ok h
    cases h
    obtain ⟨a1, a2⟩ := moveOut_inv h0
    obtain ⟨b1, b2⟩ := construct_inv h1
    have hne' : s ≠ r := fun e => hne e.symm
    have := ih (pos + 1) d1 s0 d2 s2 tr2 h2 (setG g r (setB (g r) pos true)) r s hne
      (by simp [hg, b2]) (by rw [setG_get_ne _ _ hne', hs, a2])
    simp only [glob, List.map_cons, replayG, if_true, Bool.false_eq_true, if_false]
    rw [replay_mv (by rw [hs]; exact a1)]
    simp only [Option.bind, replayG]
    rw [replay_ctor (by rw [hg]; exact b1)]
    simp only [Option.bind]
    simp only [glob] at this
    rw [this, setG_comm _ hne, setG_setG, setG_comm _ hne']

/-! ### member functions -/

/-- a member function of one object `v` in register `r` -/
def UReplay (v v' : SVec) (tr : Tr) : Prop :=
  ∀ (g : GOcc) (r s : Nat), g r = occOf v.slots → replayG (glob r s tr) g = some (setG g r (occOf v'.slots))

theorem glob_append (r s : Nat) (a b : Tr) : glob r s (a ++ b) = glob r s a ++ glob r s b := by simp [glob]

theorem glob_flip (r s : Nat) (t : Tr) : glob r s (t.map Ev.flip) = glob s r t := by
  simp only [glob, List.map_map]
  apply List.map_congr_left
  intro e _
  cases h : e.other <;> simp [Ev.flip, h]

theorem ureplay_trans {a b c : SVec} {t1 t2 : Tr} (h1 : UReplay a b t1) (h2 : UReplay b c t2) : UReplay a c (t1 ++ t2) := by
  intro g r s hg
  rw [glob_append, replayG_append, h1 g r s hg]
  simp only [Option.bind]
  rw [h2 _ r s (by simp), setG_setG]

theorem ureplay_nil (v : SVec) : UReplay v v [] := by
  intro g r s hg
  simp [glob, replayG, ← hg, setG_self]

theorem clear_replay {v v' : SVec} {tr : Tr} (h : clear v = .ok (v', tr)) : UReplay v v' tr := by
  simp only [clear] at h
  obtain ⟨⟨s1, tr1⟩, h1, h⟩ := bind_ok h
  cases h
  exact destroyLoop_replay _ _ _ _ _ h1

theorem destructor_replay {v v' : SVec} {tr : Tr} (h : destructor v = .ok (v', tr)) : UReplay v v' tr :=
  clear_replay (by simpa [destructor, clear] using h)

theorem pushBack_replay {N : Nat} {v v' : SVec} {x : Nat} {tr : Tr} (h : pushBack N v x = .ok (v', tr)) : UReplay v v' tr := by
  unfold pushBack at h
  split at h
  · cases h; exact ureplay_nil v
  · obtain ⟨s1, h1, h⟩ := bind_ok h
    cases h
    obtain ⟨a1, a2⟩ := construct_inv h1
    intro g r s hg
    simp only [glob, List.map_cons, List.map_nil, replayG, Bool.false_eq_true, if_false]
    rw [replay_ctor (by rw [hg]; exact a1)]
    simp [Option.bind, hg, a2]

theorem rangeLoop_replay (N : Nat) : ∀ (xs : List Nat) (v v' : SVec) (tr : Tr), rangeLoop N xs v = .ok (v', tr) → UReplay v v' tr := by
  intro xs
  induction xs with
  | nil => intro v v' tr h; simp only [rangeLoop] at h; cases h; exact ureplay_nil v
  | cons x xs ih =>
    intro v v' tr h
    simp only [rangeLoop] at h
    obtain ⟨⟨v1, t1⟩, h1, h⟩ := bind_ok h
    obtain ⟨⟨v2, t2⟩, h2, h⟩ := bind_ok h
    cases h
    exact ureplay_trans (pushBack_replay h1) (ih _ _ _ h2)

theorem ilLoop_replay (N : Nat) : ∀ (xs : List Nat) (v v' : SVec) (tr : Tr), ilLoop N xs v = .ok (v', tr) → UReplay v v' tr := by
  intro xs
  induction xs with
  | nil => intro v v' tr h; simp only [ilLoop] at h; cases h; exact ureplay_nil v
  | cons x xs ih =>
    intro v v' tr h
    simp only [ilLoop] at h
    split at h
    · cases h; exact ureplay_nil v
    · obtain ⟨s1, h1, h⟩ := bind_ok h
      obtain ⟨⟨v2, t2⟩, h2, h⟩ := bind_ok h
      cases h
      obtain ⟨a1, a2⟩ := construct_inv h1
      have hp : UReplay v ⟨s1, v.size + 1⟩ [⟨false, .ctor, v.size⟩] := by
        intro g r s hg
        simp only [glob, List.map_cons, List.map_nil, replayG, Bool.false_eq_true, if_false]
        rw [replay_ctor (by rw [hg]; exact a1)]
        simp [Option.bind, hg, a2]
      exact ureplay_trans hp (ih _ _ _ h2)

theorem resize_replay {N : Nat} {v v' : SVec} {n : Nat} {tr : Tr} (h : resize N v n = .ok (v', tr)) : UReplay v v' tr := by
  simp only [resize] at h
  obtain ⟨⟨s1, t1⟩, h1, h⟩ := bind_ok h
  obtain ⟨⟨s2, t2⟩, h2, h⟩ := bind_ok h
  cases h
  have a : UReplay v ⟨s1, v.size⟩ t1 := valueInitLoop_replay _ _ _ _ _ h1
  have b : UReplay ⟨s1, v.size⟩ ⟨s2, if n ≥ N then N else n⟩ t2 := destroyLoop_replay _ _ _ _ _ h2
  exact ureplay_trans a b

theorem erase_replay {trk : Bool} {v v' : SVec} {i j : Nat} {tr : Tr} (h : erase trk v i j = .ok (v', tr)) : UReplay v v' tr := by
  unfold erase at h
  split at h
  · cases h; exact ureplay_nil v
  · obtain ⟨⟨s1, t1⟩, h1, h⟩ := bind_ok h
    obtain ⟨⟨s2, t2⟩, h2, h⟩ := bind_ok h
    cases h
    have a : UReplay v ⟨s1, v.size⟩ t1 := shiftLoop_replay trk _ _ _ _ _ _ h1
    have b : UReplay ⟨s1, v.size⟩ ⟨s2, v.size - (j - i)⟩ t2 := destroyLoop_replay _ _ _ _ _ h2
    exact ureplay_trans a b

theorem copyCtor_replay {N : Nat} {o v' : SVec} {tr : Tr} (h : copyCtor N o = .ok (v', tr)) :
    UReplay ⟨rawStore N, 0⟩ v' tr := by
  simp only [copyCtor] at h
  obtain ⟨⟨s1, t1⟩, h1, h⟩ := bind_ok h
  cases h
  exact copyLoop_replay _ _ _ _ _ _ h1

theorem assignCopy_replay {v o v' : SVec} {tr : Tr} (h : assignCopy v o = .ok (v', tr)) : UReplay v v' tr := by
  simp only [assignCopy] at h
  obtain ⟨⟨v1, t1⟩, h1, h⟩ := bind_ok h
  obtain ⟨⟨s2, t2⟩, h2, h⟩ := bind_ok h
  cases h
  have b : UReplay v1 ⟨s2, o.size⟩ t2 := copyLoop_replay _ _ _ _ _ _ h2
  exact ureplay_trans (clear_replay h1) b

/-- a member function of `v` (register r) that also changes its argument `o` (register s ≠ r) -/
def BReplay (v o v' o' : SVec) (tr : Tr) : Prop :=
  ∀ (g : GOcc) (r s : Nat), r ≠ s → g r = occOf v.slots → g s = occOf o.slots →
    replayG (glob r s tr) g = some (setG (setG g s (occOf o'.slots)) r (occOf v'.slots))

theorem breplay_of_u_left {v v1 o : SVec} {t : Tr} (h : UReplay v v1 t) : BReplay v o v1 o t := by
  intro g r s hne hg hs
  rw [h g r s hg, ← hs, setG_self]

theorem breplay_of_u_right {v o o1 : SVec} {t : Tr} (h : UReplay o o1 t) : BReplay v o v o1 (t.map Ev.flip) := by
  intro g r s hne hg hs
  rw [glob_flip, h g s r hs, ← hg]
  congr 1
  have hne' : r ≠ s := hne
  funext q
  simp only [setG]
  by_cases h1 : q = r
  · subst h1; simp [hne']
  · simp [h1]

theorem breplay_trans {a b a1 b1 a2 b2 : SVec} {t1 t2 : Tr} (h1 : BReplay a b a1 b1 t1) (h2 : BReplay a1 b1 a2 b2 t2) :
    BReplay a b a2 b2 (t1 ++ t2) := by
  intro g r s hne hg hs
  have hne' : s ≠ r := fun e => hne e.symm
  rw [glob_append, replayG_append, h1 g r s hne hg hs]
  simp only [Option.bind]
  rw [h2 _ r s hne (by simp) (by rw [setG_get_ne _ _ hne']; simp)]
  congr 1
  funext q
  simp only [setG]
  by_cases h1 : q = r <;> by_cases h2 : q = s <;> simp [h1, h2]

theorem moveCtor_replay {port trk : Bool} {N : Nat} {o v' o' : SVec} {tr : Tr}
    (h : moveCtor port trk N o = .ok (v', o', tr)) : BReplay ⟨rawStore N, 0⟩ o v' o' tr := by
  simp only [moveCtor] at h
  obtain ⟨⟨d1, s1, t1⟩, h1, h⟩ := bind_ok h
  have a : BReplay ⟨rawStore N, 0⟩ o ⟨d1, o.size⟩ ⟨s1, o.size⟩ t1 := by
    intro g r s hne hg hs
    exact moveLoop_replay trk _ _ _ _ _ _ _ h1 g r s hne hg hs
  cases port
  · simp only [Bool.false_eq_true, if_false] at h
    obtain ⟨⟨o2, t2⟩, h2, h⟩ := bind_ok h
    cases h
    exact breplay_trans a (breplay_of_u_right (clear_replay h2))
  · simp only [if_true] at h
    cases h
    exact a

theorem assignMove_replay {trk : Bool} {v o v' o' : SVec} {tr : Tr}
    (h : assignMove trk v o = .ok (v', o', tr)) : BReplay v o v' o' tr := by
  simp only [assignMove] at h
  obtain ⟨⟨v1, t1⟩, h1, h⟩ := bind_ok h
  obtain ⟨⟨d2, s2, t2⟩, h2, h⟩ := bind_ok h
  obtain ⟨⟨o3, t3⟩, h3, h⟩ := bind_ok h
  cases h
  have a : BReplay v o v1 o t1 := breplay_of_u_left (clear_replay h1)
  have b : BReplay v1 o ⟨d2, o.size⟩ ⟨s2, o.size⟩ t2 := by
    intro g r s hne hg hs
    exact moveLoop_replay trk _ _ _ _ _ _ _ h2 g r s hne hg hs
  have c : BReplay ⟨d2, o.size⟩ ⟨s2, o.size⟩ ⟨d2, o.size⟩ o3 (t3.map Ev.flip) := breplay_of_u_right (clear_replay h3)
  exact breplay_trans (breplay_trans a b) c

/-! ### the machine -/

/-- the live locations according to the model state -/
def occR (regs : Nat → Option SVec) : GOcc := fun r =>
  match regs r with
  | some v => occOf v.slots
  | none => fun _ => false

theorem occR_set_some (f : Nat → Option SVec) (r : Nat) (v : SVec) :
    occR (setReg f r (some v)) = setG (occR f) r (occOf v.slots) := by
  funext q; by_cases hq : q = r <;> simp [occR, setReg, setG, hq]

theorem occR_set_none (f : Nat → Option SVec) (r : Nat) :
    occR (setReg f r none) = setG (occR f) r (fun _ => false) := by
  funext q; by_cases hq : q = r <;> simp [occR, setReg, setG, hq]

theorem occR_some {f : Nat → Option SVec} {r : Nat} {v : SVec} (h : f r = some v) : occR f r = occOf v.slots := by
  simp [occR, h]
theorem occR_none {f : Nat → Option SVec} {r : Nat} (h : f r = none) : occR f r = fun _ => false := by
  simp [occR, h]

theorem ureplay_fresh {N : Nat} {v' : SVec} {tr : Tr} (h : UReplay ⟨rawStore N, 0⟩ v' tr)
    (g : GOcc) (r s : Nat) (hg : g r = fun _ => false) : replayG (glob r s tr) g = some (setG g r (occOf v'.slots)) :=
  h g r s (by rw [hg, occOf_rawStore])

/-- what an operation's result says about the trace -/
def StepReplay (m m' : Mach) (res : Res) : Prop :=
  match res with
  | none => m' = m
  | some evs => replayG evs (occR m.regs) = some (occR m'.regs)

theorem destructor_all_dead {N : Nat} {v v' : SVec} {es : List Elem} {tr : Tr} (ha : Abs N v es)
    (h : destructor v = .ok (v', tr)) : occOf v'.slots = fun _ => false := by
  obtain ⟨v2, tr2, h2, h3, _⟩ := destructor_raw ha
  rw [h] at h2; cases h2
  rw [h3, occOf_rawStore]

theorem finishLoop_replay {c : Cfg} : ∀ (k : Nat) (m : Mach) (sp : SpecRegs) (acc : List GEv) (m' : Mach) (evs : List GEv),
    MInv c m sp → k ≤ c.K → finishLoop k m acc = .ok (m', evs) →
    ∃ ev2, evs = acc ++ ev2 ∧ replayG ev2 (occR m.regs) = some (occR m'.regs) := by
  intro k
  induction k with
  | zero =>
    intro m sp acc m' evs _ _ h
    simp only [finishLoop] at h; cases h
    exact ⟨[], by simp, rfl⟩
  | succ k ih =>
    intro m sp acc m' evs hinv hk h
    have hrel := hinv.rel k
    cases hm : m.regs k with
    | none =>
      simp only [finishLoop, hm] at h
      exact ih m sp acc m' evs hinv (by omega) h
    | some v =>
      cases hs : sp k with
      | none => rw [hm, hs] at hrel; exact hrel.elim
      | some es =>
        rw [hm, hs] at hrel
        simp only [finishLoop, hm] at h
        obtain ⟨⟨v', tr⟩, h1, h⟩ := bind_ok h
        obtain ⟨_, _, p1, _, p3, p4⟩ := destructor_spec hrel
        rw [h1] at p1; cases p1
        have hinv1 := minv_set1 hinv (show k < c.K by omega) (es' := none) k tr (v' := none) trivial
          (by simp only [szOf_set_none, szOf_of hs]; omega)
        obtain ⟨ev2, e1, e2⟩ := ih _ _ (acc ++ glob k k tr) m' evs hinv1 (by omega) (by simpa [Mach.log] using h)
        refine ⟨glob k k tr ++ ev2, by rw [e1, List.append_assoc], ?_⟩
        rw [replayG_append, destructor_replay h1 (occR m.regs) k k (occR_some hm)]
        simp only [Option.bind]
        rw [destructor_all_dead hrel h1, ← occR_set_none]
        simpa [Mach.log] using e2

theorem step_replay {c : Cfg} {m : Mach} {sp : SpecRegs} (hinv : MInv c m sp) {op : Op} {m' : Mach} {res : Res}
    (h : step c m op = .ok (m', res)) : StepReplay m m' res := by
  cases op with
  | push r x =>
    simp only [step] at h
    by_cases hk : r < c.K
    · cases hm : m.regs r with
      | none => simp [hk, hm] at h; obtain ⟨rfl, rfl⟩ := h; rfl
      | some v =>
        simp only [hk, hm, decide_true] at h
        obtain ⟨⟨v', tr⟩, h1, h2⟩ := bind_ok h
        cases h2
        simp only [StepReplay, Mach.log]
        rw [pushBack_replay h1 (occR m.regs) r r (occR_some hm), occR_set_some]
    · simp [hk] at h; obtain ⟨rfl, rfl⟩ := h; rfl
  | emplace r x =>
    simp only [step] at h
    by_cases hk : r < c.K
    · cases hm : m.regs r with
      | none => simp [hk, hm] at h; obtain ⟨rfl, rfl⟩ := h; rfl
      | some v =>
        simp only [hk, hm, decide_true] at h
        obtain ⟨⟨v', tr⟩, h1, h2⟩ := bind_ok h
        cases h2
        simp only [StepReplay, Mach.log]
        rw [pushBack_replay h1 (occR m.regs) r r (occR_some hm), occR_set_some]
    · simp [hk] at h; obtain ⟨rfl, rfl⟩ := h; rfl
  | resize r n =>
    simp only [step] at h
    by_cases hk : r < c.K
    · cases hm : m.regs r with
      | none => simp [hk, hm] at h; obtain ⟨rfl, rfl⟩ := h; rfl
      | some v =>
        simp only [hk, hm, decide_true] at h
        obtain ⟨⟨v', tr⟩, h1, h2⟩ := bind_ok h
        cases h2
        simp only [StepReplay, Mach.log]
        rw [resize_replay h1 (occR m.regs) r r (occR_some hm), occR_set_some]
    · simp [hk] at h; obtain ⟨rfl, rfl⟩ := h; rfl
  | clear r  =>
    simp only [step] at h
    by_cases hk : r < c.K
    · cases hm : m.regs r with
      | none => simp [hk, hm] at h; obtain ⟨rfl, rfl⟩ := h; rfl
      | some v =>
        simp only [hk, hm, decide_true] at h
        obtain ⟨⟨v', tr⟩, h1, h2⟩ := bind_ok h
        cases h2
        simp only [StepReplay, Mach.log]
        rw [clear_replay h1 (occR m.regs) r r (occR_some hm), occR_set_some]
    · simp [hk] at h; obtain ⟨rfl, rfl⟩ := h; rfl
  | del r =>
    simp only [step] at h
    by_cases hk : r < c.K
    · have hrel := hinv.rel r
      cases hm : m.regs r with
      | none => simp [hk, hm] at h; obtain ⟨rfl, rfl⟩ := h; rfl
      | some v =>
        cases hs : sp r with
        | none => rw [hm, hs] at hrel; exact hrel.elim
        | some es =>
          rw [hm, hs] at hrel
          simp only [hk, hm, decide_true] at h
          obtain ⟨⟨v', tr⟩, h1, h2⟩ := bind_ok h
          cases h2
          simp only [StepReplay, Mach.log]
          rw [destructor_replay h1 (occR m.regs) r r (occR_some hm), occR_set_none, destructor_all_dead hrel h1]
    · simp [hk] at h; obtain ⟨rfl, rfl⟩ := h; rfl
  | new r =>
    simp only [step] at h
    by_cases hk : r < c.K
    · cases hm : m.regs r with
      | some v => simp [hk, hm] at h; obtain ⟨rfl, rfl⟩ := h; rfl
      | none =>
        simp only [hk, hm, decide_true, defaultCtor] at h
        cases h
        simp only [StepReplay, Mach.log, glob, List.map_nil, replayG]
        rw [occR_set_some, occOf_rawStore, ← occR_none hm, setG_self]
    · simp [hk] at h; obtain ⟨rfl, rfl⟩ := h; rfl
  | range r xs =>
    simp only [step] at h
    by_cases hk : r < c.K ∧ c.port = false
    · cases hm : m.regs r with
      | some v => simp [hk, hm] at h; obtain ⟨rfl, rfl⟩ := h; rfl
      | none =>
        simp only [hk, hm, decide_true, and_self] at h
        obtain ⟨⟨v', tr⟩, h1, h2⟩ := bind_ok h
        cases h2
        simp only [StepReplay, Mach.log]
        have hu : UReplay ⟨rawStore c.N, 0⟩ v' tr := rangeLoop_replay c.N xs _ _ _ (by simpa [rangeCtor] using h1)
        rw [ureplay_fresh hu (occR m.regs) r r (occR_none hm), occR_set_some]
    · simp [hk] at h; obtain ⟨rfl, rfl⟩ := h; rfl
  | il r xs =>
    simp only [step] at h
    by_cases hk : r < c.K ∧ c.port = false
    · cases hm : m.regs r with
      | some v => simp [hk, hm] at h; obtain ⟨rfl, rfl⟩ := h; rfl
      | none =>
        simp only [hk, hm, decide_true, and_self] at h
        obtain ⟨⟨v', tr⟩, h1, h2⟩ := bind_ok h
        cases h2
        simp only [StepReplay, Mach.log]
        have hu : UReplay ⟨rawStore c.N, 0⟩ v' tr := ilLoop_replay c.N xs _ _ _ (by simpa [ilCtor] using h1)
        rw [ureplay_fresh hu (occR m.regs) r r (occR_none hm), occR_set_some]
    · simp [hk] at h; obtain ⟨rfl, rfl⟩ := h; rfl
  | erase r i j =>
    simp only [step] at h
    by_cases hk : r < c.K ∧ c.port = false
    · cases hm : m.regs r with
      | none => simp [hk, hm] at h; obtain ⟨rfl, rfl⟩ := h; rfl
      | some v =>
        simp only [hk, hm, decide_true, and_self] at h
        by_cases hij : i ≤ j ∧ j ≤ v.size
        · simp only [hij, and_self, if_true] at h
          obtain ⟨⟨v', tr⟩, h1, h2⟩ := bind_ok h
          cases h2
          simp only [StepReplay, Mach.log]
          rw [erase_replay h1 (occR m.regs) r r (occR_some hm), occR_set_some]
        · simp only [hij, if_false] at h
          cases h; rfl
    · simp [hk] at h; obtain ⟨rfl, rfl⟩ := h; rfl
  | copy r s =>
    simp only [step] at h
    by_cases hk : r < c.K ∧ s < c.K
    · cases hm : m.regs r with
      | some v => simp [hk, hm] at h; obtain ⟨rfl, rfl⟩ := h; rfl
      | none =>
        cases hm2 : m.regs s with
        | none => simp [hk, hm, hm2] at h; obtain ⟨rfl, rfl⟩ := h; rfl
        | some o =>
          simp only [hk, hm, hm2, decide_true, and_self] at h
          obtain ⟨⟨v', tr⟩, h1, h2⟩ := bind_ok h
          cases h2
          simp only [StepReplay, Mach.log]
          rw [ureplay_fresh (copyCtor_replay h1) (occR m.regs) r s (occR_none hm), occR_set_some]
    · simp [hk] at h; obtain ⟨rfl, rfl⟩ := h; rfl
  | move r s =>
    simp only [step] at h
    by_cases hk : r < c.K ∧ s < c.K
    · cases hm : m.regs r with
      | some v => simp [hk, hm] at h; obtain ⟨rfl, rfl⟩ := h; rfl
      | none =>
        cases hm2 : m.regs s with
        | none => simp [hk, hm, hm2] at h; obtain ⟨rfl, rfl⟩ := h; rfl
        | some o =>
          have hne : r ≠ s := by intro e; subst e; rw [hm] at hm2; cases hm2
          simp only [hk, hm, hm2, decide_true, and_self] at h
          obtain ⟨⟨v', o', tr⟩, h1, h2⟩ := bind_ok h
          cases h2
          simp only [StepReplay, Mach.log]
          rw [moveCtor_replay h1 (occR m.regs) r s hne (by rw [occR_none hm, occOf_rawStore]) (occR_some hm2),
            occR_set_some, occR_set_some]
    · simp [hk] at h; obtain ⟨rfl, rfl⟩ := h; rfl
  | acopy r s =>
    simp only [step] at h
    by_cases hk : r < c.K ∧ s < c.K
    · cases hm : m.regs r with
      | none => simp [hk, hm] at h; obtain ⟨rfl, rfl⟩ := h; rfl
      | some v =>
        cases hm2 : m.regs s with
        | none => simp [hk, hm, hm2] at h; obtain ⟨rfl, rfl⟩ := h; rfl
        | some o =>
          simp only [hk, hm, hm2, decide_true, and_self] at h
          by_cases hrs : r = s
          · simp only [hrs, if_true] at h
            cases h
            simp only [StepReplay, Mach.log, replayG]
          · simp only [hrs, if_false] at h
            obtain ⟨⟨v', tr⟩, h1, h2⟩ := bind_ok h
            cases h2
            simp only [StepReplay, Mach.log]
            rw [assignCopy_replay h1 (occR m.regs) r s (occR_some hm), occR_set_some]
    · simp [hk] at h; obtain ⟨rfl, rfl⟩ := h; rfl
  | amove r s =>
    simp only [step] at h
    by_cases hk : r < c.K ∧ s < c.K
    · cases hm : m.regs r with
      | none => simp [hk, hm] at h; obtain ⟨rfl, rfl⟩ := h; rfl
      | some v =>
        cases hm2 : m.regs s with
        | none => simp [hk, hm, hm2] at h; obtain ⟨rfl, rfl⟩ := h; rfl
        | some o =>
          simp only [hk, hm, hm2, decide_true, and_self] at h
          by_cases hrs : r = s
          · simp only [hrs, if_true] at h
            cases h
            simp only [StepReplay, Mach.log, replayG]
          · simp only [hrs, if_false] at h
            obtain ⟨⟨v', o', tr⟩, h1, h2⟩ := bind_ok h
            cases h2
            simp only [StepReplay, Mach.log]
            rw [assignMove_replay h1 (occR m.regs) r s hrs (occR_some hm) (occR_some hm2), occR_set_some, occR_set_some]
    · simp [hk] at h; obtain ⟨rfl, rfl⟩ := h; rfl
  | finish =>
    simp only [step] at h
    obtain ⟨⟨m1, ev⟩, h1, h2⟩ := bind_ok h
    cases h2
    obtain ⟨ev2, e1, e2⟩ := finishLoop_replay c.K m sp [] _ _ hinv (Nat.le_refl _) h1
    simp only [List.nil_append] at e1
    subst e1
    exact e2

/-- all lifetime events of a history, in order (what the driver prints op by op) -/
def runEv (c : Cfg) : List Op → Mach → Except Fault (Mach × List GEv)
  | [], m => .ok (m, [])
  | op :: ops, m => do
      let (m', res) ← step c m op
      let (m'', evs) ← runEv c ops m'
      pure (m'', res.getD [] ++ evs)

theorem runEv_replays {c : Cfg} : ∀ (ops : List Op) (m : Mach) (sp : SpecRegs), MInv c m sp →
    ∃ m' evs, runEv c ops m = .ok (m', evs) ∧ MInv c m' (specRun c ops sp) ∧
      replayG evs (occR m.regs) = some (occR m'.regs) := by
  intro ops
  induction ops with
  | nil => intro m sp h; exact ⟨m, [], rfl, h, rfl⟩
  | cons op ops ih =>
    intro m sp h
    obtain ⟨mr, h1, h2⟩ := step_refines h op
    have hr := step_replay h (m' := mr.1) (res := mr.2) h1
    obtain ⟨m', evs, g1, g2, g3⟩ := ih mr.1 _ h2
    refine ⟨m', mr.2.getD [] ++ evs, by simp [runEv, h1, g1, bind, Except.bind, pure, Except.pure], g2, ?_⟩
    rw [replayG_append]
    cases hres : mr.2 with
    | none =>
      rw [hres] at hr
      simp only [StepReplay] at hr
      simp only [Option.getD, replayG, Option.bind]
      rw [← hr]; exact g3
    | some ev =>
      rw [hres] at hr
      simp only [StepReplay] at hr
      simp only [Option.getD, hr, Option.bind]
      exact g3

/-- `runEv` is `run` that also collects the events -/
theorem runEv_run {c : Cfg} : ∀ (ops : List Op) (m m' : Mach) (evs : List GEv),
    runEv c ops m = .ok (m', evs) → run c ops m = .ok m' := by
  intro ops
  induction ops with
  | nil => intro m m' evs h; simp only [runEv] at h; cases h; rfl
  | cons op ops ih =>
    intro m m' evs h
    simp only [runEv] at h
    obtain ⟨⟨m1, res⟩, h1, h⟩ := bind_ok h
    obtain ⟨⟨m2, ev2⟩, h2, h⟩ := bind_ok h
    cases h
    have := ih _ _ _ h2
    simp only [] at this
    simp [run, h1, this, bind, Except.bind]

theorem occR_init : occR Mach.init.regs = fun _ _ => false := rfl

end Igris.C14
