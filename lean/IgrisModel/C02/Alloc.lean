/-
  C02 — igris::vector when THE ALLOCATION FAILS (round 3).

  `Allocator::allocate` may throw (std::bad_alloc: out of memory, a bounded pool, a request above max_size).
  Every member function that allocates is transcribed once more up to its allocation: the statements the code
  executes before `allocate`, the allocation as a step that can fail, and the unwinding (a temporary that was
  built before is destroyed; a constructor body that is left runs the destructor of the delegated-to object).
  `changeBufferA` makes the ORDER of the field updates around `allocate` explicit:

      size_t oldcapacity = m_capacity;
      auto newbuf = m_alloc.allocate(sz);      // may throw: nothing has been written yet
      m_capacity = sz;

  The variant `capFirst = true` is the tidy-up `oldcapacity = std::exchange(m_capacity, sz)` in front of the
  allocation (seeded change C02-changebuffer-capacity-before-allocate): same values on the normal path, but a
  failed allocation leaves `m_capacity = sz` over the old, smaller block.

  Which allocation fails is an `AF`: the k-th of the call, or every request above a limit (bounded allocator).
  Core Lean only.
-/
import IgrisModel.C02.Exc
namespace Igris.C02

inductive AF where
  | kth (k : Nat)        -- the k-th (from 0) allocation of the call throws
  | above (lim : Nat)    -- every request for more than `lim` elements throws
  deriving DecidableEq, Repr

/-- does the allocation number `idx` of the call, a request for `sz` elements, fail? -/
def AF.hit : AF → Nat → Nat → Bool
  | .kth k, idx, _ => idx == k
  | .above lim, _, sz => decide (lim < sz)

/-- `changeBuffer(sz)` with the allocation (number `idx` of the call) as a step that can fail -/
def changeBufferA (capFirst : Bool) (af : AF) (idx : Nat) (v : Vec) (sz : Nat) (l : Ledger) : Out (Vec × Ledger) :=
  -- size_t oldcapacity = m_capacity;            [variant: oldcapacity = std::exchange(m_capacity, sz);]
  let v1 : Vec := if capFirst then { v with cap := sz } else v
  -- auto newbuf = m_alloc.allocate(sz);
  if af.hit idx sz then .threw (v1, l)
  -- m_capacity = sz; move the elements, destroy the old ones, deallocate(oldbuf, oldcapacity)
  else .ofOption (changeBuffer v sz l)

/-- `reserve(sz)`: `if (sz > m_capacity) return changeBuffer(sz);` -/
def reserveA (capFirst : Bool) (af : AF) (idx : Nat) (v : Vec) (sz : Nat) (l : Ledger) : Out (Vec × Ledger) :=
  if sz > v.cap then changeBufferA capFirst af idx v sz l else .ok (v, l)

/-- emplace_back / push_back: on the growth path `T tmp(args…)` is built first, then `changeBuffer(m_size + 1)`;
    when the allocation throws the unwinding destroys `tmp` -/
def emplaceBackA (capFirst : Bool) (af : AF) (idx : Nat) (v : Vec) (a : Arg) (l : Ledger) : Out (Vec × Ledger) :=
  if v.size + 1 > v.cap then
    match argVal v a with
    | none => .fault
    | some _ =>
      match changeBufferA capFirst af idx v (v.size + 1) (l.addCtor 1) with
      | .threw (v', l') => .threw (v', l'.addDtor 1)
      | .fault => .fault
      | .ok _ => .ofOption (emplaceBack v a l)
  else .ofOption (emplaceBack v a l)

/-- emplace / insert(pos, value): `T tmp(args…); reserve(m_size + 1); …` -/
def emplaceA (capFirst : Bool) (af : AF) (v : Vec) (pos : Nat) (a : Arg) (l : Ledger) : Out (Vec × Ledger) :=
  match argVal v a with
  | none => .fault
  | some _ =>
    match reserveA capFirst af 0 v (v.size + 1) (l.addCtor 1) with
    | .threw (v', l') => .threw (v', l'.addDtor 1)
    | .fault => .fault
    | .ok _ => .ofOption (emplace v pos a l)

/-- insert_sorted: the bisection (reads only), then insert -/
def insertSortedA (capFirst : Bool) (af : AF) (v : Vec) (x : Val) (l : Ledger) : Out (Nat × Vec × Ledger) :=
  let pos : Option Nat :=
    match v.data with
    | none => if v.size = 0 then some 0 else none
    | some b => upperBound b x v.size 0 v.size
  match pos with
  | none => .fault
  | some p =>
    match emplaceA capFirst af v p (.val x) l with
    | .threw (v', l') => .threw (p, v', l')
    | .fault => .fault
    | .ok _ => .ofOption (insertSorted v x l)

/-- insert(pos, first, last): `if (sz == 0) return; … reserve(m_size + sz);` is the first statement that
    changes anything -/
def insertRangeA (capFirst : Bool) (af : AF) (v : Vec) (pos : Nat) (src : Src) (l : Ledger) : Out (Vec × Ledger) :=
  let sz := src.count
  if sz = 0 then .ok (v, l) else
  match reserveA capFirst af 0 v (v.size + sz) l with
  | .threw r => .threw r
  | .fault => .fault
  | .ok _ => .ofOption (insertRange v pos src l)

/-- resize(n): `reserve(n);` first -/
def resizeA (capFirst : Bool) (af : AF) (v : Vec) (n : Nat) (l : Ledger) : Out (Vec × Ledger) :=
  match reserveA capFirst af 0 v n l with
  | .threw r => .threw r
  | .fault => .fault
  | .ok _ => .ofOption (resize v n l)

/-- copy assignment from a different vector: `invalidate(); m_data = m_alloc.allocate(other.m_size);` — the
    right-hand side throws before `m_data` is written: the vector stays as `invalidate` left it (empty) -/
def copyAssignA (af : AF) (v o : Vec) (l : Ledger) : Out (Vec × Ledger) :=
  match invalidate v l with
  | none => .fault
  | some (v0, l0) =>
    if af.hit 0 o.size then .threw (v0, l0) else .ofOption (copyAssign v o l)

/-- copy constructor: `: vector()` then `m_data = m_alloc.allocate(other.m_size)`: the constructor is left, the
    destructor of the (empty) delegated-to object runs, no object remains.  (std_portable.h: early return for
    an empty source, no allocation.) -/
def copyCtorA (portable : Bool) (af : AF) (o : Vec) (l : Ledger) : Out (Vec × Ledger) :=
  if portable && o.size == 0 then .ok (Vec.empty, l)
  else if af.hit 0 o.size then unwindCtor (some (Vec.empty, l))
  else .ofOption (copyCtor portable o l)

/-- `vector(size_t n)` = `resize(n)` on the empty object -/
def sizeCtorA (capFirst : Bool) (af : AF) (n : Nat) (l : Ledger) : Out (Vec × Ledger) :=
  match resizeA capFirst af Vec.empty n l with
  | .ok r => .ok r
  | .fault => .fault
  | .threw (v, l) => unwindCtor (some (v, l))

/-- initializer-list / template range constructor: `reserve(n)` is the only allocation (the push_backs fit) -/
def listCtorA (capFirst : Bool) (af : AF) (xs : List Val) (l : Ledger) : Out (Vec × Ledger) :=
  match reserveA capFirst af 0 Vec.empty xs.length l with
  | .threw (v, l) => unwindCtor (some (v, l))
  | .fault => .fault
  | .ok _ => .ofOption (listCtor xs l)

/-- the push_back loop of `vector(iterator a, const iterator b)` (no reserve: every push_back that finds the
    block full allocates); `idx` = number of allocations made so far -/
def pushAllA (capFirst : Bool) (af : AF) (idx : Nat) (v : Vec) : List Val → Ledger → Out (Vec × Ledger)
  | [], l => .ok (v, l)
  | x :: xs, l =>
    match emplaceBackA capFirst af idx v (.val x) l with
    | .ok (v', l') => pushAllA capFirst af (if v.size + 1 > v.cap then idx + 1 else idx) v' xs l'
    | .threw r => .threw r
    | .fault => .fault

def rangeCtorA (capFirst : Bool) (af : AF) (o : Vec) (f t : Nat) (l : Ledger) : Out (Vec × Ledger) :=
  match readRange o f (t - f) with
  | none => .fault
  | some xs =>
    match pushAllA capFirst af 0 Vec.empty xs l with
    | .ok r => .ok r
    | .fault => .fault
    | .threw (v, l) => unwindCtor (some (v, l))

/-- one operation with an allocation failure armed.  Operations that do not allocate are `step`. -/
def stepA (capFirst portable : Bool) (s : St) (af : AF) : Op → Out (St × Ret)
  | .reserve r n =>
    match reserveA capFirst af 0 (s.regs r) n s.led with
    | .ok (v, l) => .ok (s.set r v l, .unit)
    | .threw (v, l) => .threw (s.set r v l, .throw)
    | .fault => .fault
  | .emplaceBack r a =>
    match emplaceBackA capFirst af 0 (s.regs r) a s.led with
    | .ok (v, l) => .ok (s.set r v l, .unit)
    | .threw (v, l) => .threw (s.set r v l, .throw)
    | .fault => .fault
  | .emplace r pos a =>
    match emplaceA capFirst af (s.regs r) pos a s.led with
    | .ok (v, l) => .ok (s.set r v l, .pos pos)
    | .threw (v, l) => .threw (s.set r v l, .throw)
    | .fault => .fault
  | .insertSorted r x =>
    match insertSortedA capFirst af (s.regs r) x s.led with
    | .ok (p, v, l) => .ok (s.set r v l, .pos p)
    | .threw (_, v, l) => .threw (s.set r v l, .throw)
    | .fault => .fault
  | .insertRange r pos src =>
    match insertRangeA capFirst af (s.regs r) pos src s.led with
    | .ok (v, l) => .ok (s.set r v l, .pos pos)
    | .threw (v, l) => .threw (s.set r v l, .throw)
    | .fault => .fault
  | .resize r n =>
    match resizeA capFirst af (s.regs r) n s.led with
    | .ok (v, l) => .ok (s.set r v l, .unit)
    | .threw (v, l) => .threw (s.set r v l, .throw)
    | .fault => .fault
  | .copyAssign d src =>
    if d = src then .ok (s, .unit) else
    match copyAssignA af (s.regs d) (s.regs src) s.led with
    | .ok (v, l) => .ok (s.set d v l, .unit)
    | .threw (v, l) => .threw (s.set d v l, .throw)
    | .fault => .fault
  | .copyCtor d src =>
    if d = src then .fault else
    match invalidate (s.regs d) s.led with
    | none => .fault
    | some (_, l) =>
      match copyCtorA portable af (s.regs src) l with
      | .ok (v, l) => .ok (s.set d v l, .unit)
      | .threw (v, l) => .threw (s.set d v l, .throw)
      | .fault => .fault
  | .rangeCtor d src f t =>
    if d = src then .fault else
    match invalidate (s.regs d) s.led with
    | none => .fault
    | some (_, l) =>
      match rangeCtorA capFirst af (s.regs src) f t l with
      | .ok (v, l) => .ok (s.set d v l, .unit)
      | .threw (v, l) => .threw (s.set d v l, .throw)
      | .fault => .fault
  | .sizeCtor d n =>
    match invalidate (s.regs d) s.led with
    | none => .fault
    | some (_, l) =>
      match sizeCtorA capFirst af n l with
      | .ok (v, l) => .ok (s.set d v l, .unit)
      | .threw (v, l) => .threw (s.set d v l, .throw)
      | .fault => .fault
  | .listCtor d xs =>
    match invalidate (s.regs d) s.led with
    | none => .fault
    | some (_, l) =>
      match listCtorA capFirst af xs l with
      | .ok (v, l) => .ok (s.set d v l, .unit)
      | .threw (v, l) => .threw (s.set d v l, .throw)
      | .fault => .fault
  | op => .ofOption (step portable s op)

/-- operations that grow the vector in place (the ones std::vector promises "no effects" for when the
    allocation throws) -/
def Op.growsInPlace : Op → Bool
  | .reserve _ _ | .emplaceBack _ _ | .emplace _ _ _ | .insertSorted _ _ | .insertRange _ _ _ | .resize _ _ => true
  | _ => false

/-- the request (in elements) the call hands to `allocate`, read off sizes and capacities; `none` = the call
    does not allocate -/
def allocRequest (s : St) : Op → Option Nat
  | .reserve r n => if (s.regs r).cap < n then some n else none
  | .emplaceBack r _ | .emplace r _ _ | .insertSorted r _ =>
    if (s.regs r).cap < (s.regs r).size + 1 then some ((s.regs r).size + 1) else none
  | .insertRange r _ src =>
    if src.count ≠ 0 ∧ (s.regs r).cap < (s.regs r).size + src.count then some ((s.regs r).size + src.count) else none
  | .resize r n => if (s.regs r).cap < n then some n else none
  | _ => none

/-- does the armed failure strike this call? -/
def allocFails (s : St) (af : AF) (op : Op) : Bool :=
  match allocRequest s op with
  | some q => af.hit 0 q
  | none => false

/-- a history; each operation may have an allocation failure armed; the caller catches std::bad_alloc and goes
    on using the vectors -/
def runA (capFirst portable : Bool) : St → List (Op × Option AF) → Option St
  | s, [] => some s
  | s, (op, none) :: ops =>
    match step portable s op with
    | some (s, _) => runA capFirst portable s ops
    | none => none
  | s, (op, some af) :: ops =>
    match stepA capFirst portable s af op with
    | .ok (s, _) => runA capFirst portable s ops
    | .threw (s, _) => runA capFirst portable s ops
    | .fault => none

/-! ### comparison parametrised by the element relation (round 3)

  `operator==` of the code: `if (size() != oth.size()) return false; for (…) if (*it != *bit) return false;
  return true;` — the ELEMENT TYPE's `!=`, whatever it is (a double's `!=` is not the inequality of the bytes:
  +0.0 / -0.0 compare equal, NaN differs from itself).  `ne` is that relation on the element values. -/

def eqLoopBy (ne : Val → Val → Bool) (a b : Vec) (i : Nat) : Nat → Option Bool
  | 0 => some true
  | n + 1 =>
    match a.data, b.data with
    | some x, some y =>
      match rd x i, rd y i with
      | some p, some q => if ne p q then some false else eqLoopBy ne a b (i + 1) n
      | _, _ => none
    | _, _ => none

def vecEqBy (ne : Val → Val → Bool) (a b : Vec) : Option Bool :=
  if a.size ≠ b.size then some false else eqLoopBy ne a b 0 a.size

/-- `std::lexicographical_compare` with the element type's `<` -/
def lexLoopBy (lt : Val → Val → Bool) (a b : Vec) (i : Nat) : Nat → Option Bool
  | 0 => some (decide (i = a.size ∧ i ≠ b.size))
  | n + 1 =>
    match a.data, b.data with
    | some x, some y =>
      match rd x i, rd y i with
      | some p, some q =>
        if lt p q then some true else if lt q p then some false else lexLoopBy lt a b (i + 1) n
      | _, _ => none
    | _, _ => none

def vecLtBy (lt : Val → Val → Bool) (a b : Vec) : Option Bool := lexLoopBy lt a b 0 (min a.size b.size)

/-- the seeded fast path: equality of the object representations (`memcmp`); `bytes` maps an element value to
    its representation -/
def vecEqBytes (bytes : Val → Nat) (a b : Vec) : Option Bool :=
  vecEqBy (fun p q => bytes p != bytes q) a b

end Igris.C02
