import IgrisModel.C02.Bisect
/-!
  C02 — flat_map / flat_set against std::map / std::set.

  std::map<int,int> is a partial function `Int → Option Int`, std::set<int> a membership predicate
  `Int → Bool`; key order = `<` on `Int` (std::less<int>, a strict linear order — flat_map does not use its
  `Compare` parameter at all: lookup is `==` on keys and `insert` orders by `a.first < b.first`).
  `MRep m f`: the storage vector of the flat_map holds every key once and `f k` is the mapped value stored
  with `k`.  `SRep s S`: the storage vector of the flat_set is strictly increasing and holds exactly the
  members of `S`.
-/
namespace Igris.C02

/-! ### association lists -/

/-- the mapped value of the first entry with key `k` -/
def assoc (k : Int) : List (Int × Int) → Option Int
  | [] => none
  | p :: ps => if p.1 = k then some p.2 else assoc k ps

def keysOf (l : List (Int × Int)) : List Int := l.map (·.1)

theorem assoc_none_iff (k : Int) (l : List (Int × Int)) : assoc k l = none ↔ k ∉ keysOf l := by
  induction l with
  | nil => simp [assoc, keysOf]
  | cons p ps ih =>
    simp only [assoc, keysOf, List.map_cons, List.mem_cons, not_or]
    by_cases h : p.1 = k
    · simp [h]
    · simp only [h, if_false]
      rw [ih]
      exact ⟨fun h2 => ⟨fun h3 => h h3.symm, h2⟩, fun h2 => h2.2⟩

theorem assoc_isSome_iff (k : Int) (l : List (Int × Int)) : (assoc k l).isSome ↔ k ∈ keysOf l := by
  have := assoc_none_iff k l
  cases h : assoc k l with
  | none => simp [h] at this; simp [this]
  | some v =>
    simp only [Option.isSome_some, true_iff]
    rcases Classical.em (k ∈ keysOf l) with h1 | h1
    · exact h1
    · rw [this.mpr h1] at h; cases h

theorem assoc_append (k : Int) (l r : List (Int × Int)) : assoc k (l ++ r) = (assoc k l).or (assoc k r) := by
  induction l with
  | nil => simp [assoc]
  | cons p ps ih =>
    simp only [List.cons_append, assoc]
    by_cases h : p.1 = k <;> simp [h, ih]

/-- `std::find_if(begin, end, key ==)` returns the index of the first entry with the key, `end` if none -/
theorem findIdx_lt_iff (k : Int) (l : List (Int × Int)) : findIdx k l < l.length ↔ (assoc k l).isSome := by
  induction l with
  | nil => simp [findIdx, assoc]
  | cons p ps ih =>
    simp only [findIdx, assoc, List.length_cons]
    by_cases h : p.1 = k
    · simp [h]
    · simp only [h, if_false]; rw [← ih]; omega

theorem find_eq_assoc (m : FMap) (k : Int) : m.find k = assoc k m.st := by
  simp only [FMap.find]
  generalize m.st = l
  induction l with
  | nil => simp [findIdx, assoc]
  | cons p ps ih =>
    simp only [findIdx, assoc]
    by_cases h : p.1 = k
    · simp [h]
    · simpa [h] using ih

/-- `std::count_if(begin, end, key ==)` on a storage with unique keys -/
theorem count_eq (k : Int) (l : List (Int × Int)) (hn : (keysOf l).Nodup) :
    l.countP (·.1 = k) = if (assoc k l).isSome then 1 else 0 := by
  induction l with
  | nil => simp [assoc]
  | cons p ps ih =>
    simp only [keysOf, List.map_cons, List.nodup_cons] at hn
    have ih := ih hn.2
    simp only [List.countP_cons, assoc]
    by_cases h : p.1 = k
    · have hk : assoc k ps = none := (assoc_none_iff k ps).mpr (h ▸ hn.1)
      rw [hk] at ih
      simp [h, ih]
    · simp [h, ih]

theorem mem_listInsert {α : Type} (xs : List α) (i : Nat) (x a : α) : a ∈ listInsert xs i x ↔ a = x ∨ a ∈ xs := by
  have h := List.take_append_drop i xs
  have h2 : a ∈ xs ↔ a ∈ xs.take i ∨ a ∈ xs.drop i := by
    conv => lhs; rw [← h]
    exact List.mem_append
  simp only [listInsert, List.mem_append, List.mem_cons, h2]
  constructor
  · rintro (h | h | h)
    · exact Or.inr (Or.inl h)
    · exact Or.inl h
    · exact Or.inr (Or.inr h)
  · rintro (h | h | h)
    · exact Or.inr (Or.inl h)
    · exact Or.inl h
    · exact Or.inr (Or.inr h)

theorem keysOf_listInsert (l : List (Int × Int)) (i : Nat) (k v : Int) :
    keysOf (listInsert l i (k, v)) = listInsert (keysOf l) i k := by
  simp [keysOf, listInsert, List.map_take, List.map_drop]

theorem nodup_listInsert {l : List Int} (i : Nat) {k : Int} (hn : l.Nodup) (hk : k ∉ l) : (listInsert l i k).Nodup := by
  have hp : (listInsert l i k).Perm (k :: l) := by
    have := List.perm_middle (a := k) (l₁ := l.take i) (l₂ := l.drop i)
    rwa [List.take_append_drop] at this
  exact hp.nodup_iff.mpr (List.nodup_cons.mpr ⟨hk, hn⟩)

theorem assoc_listInsert (l : List (Int × Int)) (i : Nat) (k v j : Int) (hk : assoc k l = none) :
    assoc j (listInsert l i (k, v)) = if j = k then some v else assoc j l := by
  have hsplit : assoc j l = (assoc j (l.take i)).or (assoc j (l.drop i)) := by
    rw [← assoc_append, List.take_append_drop]
  simp only [listInsert, assoc_append, assoc]
  by_cases h : j = k
  · subst h
    have : assoc j (l.take i) = none := by
      rw [assoc_none_iff] at hk ⊢
      intro hm; apply hk
      simp only [keysOf, List.mem_map] at hm ⊢
      obtain ⟨p, hp, e⟩ := hm
      exact ⟨p, List.mem_of_mem_take hp, e⟩
    simp [this]
  · have h' : ¬ k = j := fun e => h e.symm
    simp only [h', if_false, h]
    exact hsplit.symm

/-- `m[k] = v` for a key that is present: the entry found by find_if is overwritten in place -/
theorem set_findIdx (k v : Int) (l : List (Int × Int)) (h : findIdx k l < l.length) :
    keysOf (l.set (findIdx k l) (k, v)) = keysOf l ∧
    ∀ j, assoc j (l.set (findIdx k l) (k, v)) = if j = k then some v else assoc j l := by
  induction l with
  | nil => simp at h
  | cons p ps ih =>
    by_cases hp : p.1 = k
    · simp only [findIdx, hp, if_true, List.set_cons_zero, keysOf, List.map_cons, true_and]
      intro j
      simp only [assoc, hp]
      by_cases hj : j = k
      · simp [hj]
      · have : ¬ k = j := fun e => hj e.symm
        simp [hj, this]
    · simp only [findIdx, hp, if_false, List.length_cons] at h ⊢
      obtain ⟨a, b⟩ := ih (by omega)
      simp only [List.set_cons_succ, keysOf, List.map_cons] at a ⊢
      refine ⟨by rw [a], ?_⟩
      intro j
      simp only [assoc, hp, if_false, b j]
      by_cases hj : j = k
      · subst hj; simp [hp]
      · simp [hj]

/-! ### flat_map -/

structure MRep (m : FMap) (f : Int → Option Int) : Prop where
  /-- invariant: every key is stored once -/
  uniq : (keysOf m.st).Nodup
  /-- abstraction: the map is the partial function `k ↦ value stored with k` -/
  val : ∀ k, f k = assoc k m.st

def upd (f : Int → Option Int) (k v : Int) : Int → Option Int := fun j => if j = k then some v else f j

/-- std::map: how an operation changes the partial function -/
def mapSpecNext (f : Int → Option Int) : MOp → (Int → Option Int)
  | .index k => if (f k).isSome then f else upd f k 0          -- `m[k]` default-inserts T()
  | .assign k v => upd f k v                                    -- `m[k] = v` overwrites
  | .insert k v => if (f k).isSome then f else upd f k v        -- insert does not overwrite
  | .emplace k v => if (f k).isSome then f else upd f k v
  | .clear => fun _ => none
  | .init l => fun k => assoc k l                               -- the first entry of a key wins
  | .find _ | .count _ | .at _ | .size => f

/-- std::map: what an operation answers in the state `f` -/
def mapRetOk (f : Int → Option Int) : MOp → MRet → Prop
  | .index k, r => r = .val ((f k).getD 0)
  | .assign _ _, r => r = .unit
  | .insert k v, r => r = .kv k ((f k).getD v)                 -- iterator to the (old or new) entry
  | .emplace k v, r => r = .flag (f k).isNone ((f k).getD v)
  | .find k, r => r = .opt (f k)
  | .count k, r => r = .nat (if (f k).isSome then 1 else 0)
  | .at k, r => r = (match f k with | some v => .val v | none => .throw)
  | .size, r => ∃ keys : List Int, keys.Nodup ∧ (∀ k, k ∈ keys ↔ (f k).isSome) ∧ r = .nat keys.length
  | .clear, r => r = .unit
  | .init _, r => r = .unit

theorem MRep.empty : MRep ⟨[]⟩ (fun _ => none) := ⟨by simp [keysOf], by simp [assoc]⟩

/-- push_back of an absent key -/
theorem MRep.append {m : FMap} {f : Int → Option Int} (h : MRep m f) {k : Int} (v : Int) (hk : f k = none) :
    MRep ⟨m.st ++ [(k, v)]⟩ (upd f k v) := by
  have hk' : assoc k m.st = none := by rw [← h.val]; exact hk
  refine ⟨?_, ?_⟩
  · simp only [keysOf, List.map_append, List.map_cons, List.map_nil]
    refine List.nodup_append.mpr ⟨h.uniq, by simp, ?_⟩
    intro a ha b hb
    simp only [List.mem_singleton] at hb
    subst hb
    intro e; subst e
    exact (assoc_none_iff _ _).mp hk' ha
  · intro j
    simp only [upd, assoc_append, assoc, h.val]
    by_cases hj : j = k
    · subst hj; simp [hk']
    · have : ¬ k = j := fun e => hj e.symm
      simp [hj, this]

/-- vector::insert of an absent key at any position of the storage -/
theorem MRep.insertAt {m : FMap} {f : Int → Option Int} (h : MRep m f) {k : Int} (v : Int) (i : Nat) (hk : f k = none) :
    MRep ⟨listInsert m.st i (k, v)⟩ (upd f k v) := by
  have hk' : assoc k m.st = none := by rw [← h.val]; exact hk
  refine ⟨?_, ?_⟩
  · simp only [keysOf_listInsert]
    exact nodup_listInsert i h.uniq ((assoc_none_iff _ _).mp hk')
  · intro j
    simp only [upd, h.val]
    exact (assoc_listInsert m.st i k v j hk').symm

theorem MRep.ext {m : FMap} {f g : Int → Option Int} (h : MRep m f) (e : f = g) : MRep m g := e ▸ h

/-- the initializer-list constructor (after the fix): entries are appended unless their key is present -/
theorem ofList_rep (l : List (Int × Int)) {m : FMap} {f : Int → Option Int} (h : MRep m f) :
    MRep (FMap.ofList l m) (fun k => (f k).or (assoc k l)) := by
  induction l generalizing m f with
  | nil => exact h.ext (by funext k; simp [assoc])
  | cons p r ih =>
    obtain ⟨k, v⟩ := p
    simp only [FMap.ofList, find_eq_assoc, ← h.val]
    cases hf : f k with
    | some w =>
      simp only [Option.isSome_some, if_true]
      refine (ih h).ext ?_
      funext j
      simp only [assoc]
      by_cases hj : k = j
      · subst hj; simp [hf]
      · simp [hj]
    | none =>
      simp only [Option.isSome_none, Bool.false_eq_true, if_false]
      refine (ih (h.append v hf)).ext ?_
      funext j
      simp only [assoc, upd]
      by_cases hj : j = k
      · subst hj; simp [hf]
      · have : ¬ k = j := fun e => hj e.symm
        simp [hj, this]

/-- ONE OPERATION of flat_map against std::map -/
theorem mapStep_refines {m : FMap} {f : Int → Option Int} (h : MRep m f) (op : MOp) :
    mapRetOk f op (m.step op).2 ∧ MRep (m.step op).1 (mapSpecNext f op) := by
  cases op with
  | index k =>
    simp only [FMap.step, FMap.index, find_eq_assoc, ← h.val, mapRetOk, mapSpecNext]
    cases hf : f k with
    | some w => simp; exact h
    | none => simp; exact h.append 0 hf
  | assign k v =>
    simp only [FMap.step, FMap.assign, mapRetOk, mapSpecNext, true_and]
    by_cases hlt : findIdx k m.st < m.st.length
    · simp only [hlt, if_true]
      obtain ⟨a, b⟩ := set_findIdx k v m.st hlt
      exact ⟨by rw [a]; exact h.uniq, fun j => by rw [b j, ← h.val]; rfl⟩
    · simp only [hlt, if_false]
      have : f k = none := by
        rw [h.val]
        cases hq : assoc k m.st with
        | none => rfl
        | some w => exact absurd ((findIdx_lt_iff k m.st).mpr (by simp [hq])) hlt
      exact h.append v this
  | insert k v =>
    simp only [FMap.step, FMap.insert, find_eq_assoc, ← h.val, mapRetOk, mapSpecNext]
    cases hf : f k with
    | some w => simp; exact h
    | none => simp; exact h.insertAt v _ hf
  | emplace k v =>
    simp only [FMap.step, FMap.emplace, find_eq_assoc, ← h.val, mapRetOk, mapSpecNext]
    cases hf : f k with
    | some w => simp; exact h
    | none => simp; exact h.append v hf
  | find k => simp only [FMap.step, find_eq_assoc, ← h.val, mapRetOk, mapSpecNext, true_and]; exact h
  | count k =>
    simp only [FMap.step, FMap.count, mapRetOk, mapSpecNext]
    refine ⟨?_, h⟩
    rw [count_eq k m.st h.uniq, h.val]
  | «at» k =>
    simp only [FMap.step, FMap.atKey, find_eq_assoc, ← h.val, mapRetOk, mapSpecNext]; exact ⟨rfl, h⟩
  | size =>
    simp only [FMap.step, FMap.size, mapRetOk, mapSpecNext]
    refine ⟨⟨keysOf m.st, h.uniq, ?_, by simp [keysOf]⟩, h⟩
    intro k; rw [h.val, assoc_isSome_iff]
  | clear => simp only [FMap.step, mapRetOk, mapSpecNext, true_and]; exact MRep.empty
  | init l =>
    simp only [FMap.step, mapRetOk, mapSpecNext, true_and]
    exact (ofList_rep l MRep.empty).ext (by funext k; simp)

/-- a history of std::map answers: `rets` are what std::map answers to `ops` from the state `f` -/
def MapHist : (Int → Option Int) → List MOp → List MRet → Prop
  | _, [], [] => True
  | f, op :: ops, r :: rs => mapRetOk f op r ∧ MapHist (mapSpecNext f op) ops rs
  | _, _, _ => False

def mapSpecRun : (Int → Option Int) → List MOp → (Int → Option Int)
  | f, [] => f
  | f, op :: ops => mapSpecRun (mapSpecNext f op) ops

theorem mapRun_refines {m : FMap} {f : Int → Option Int} (h : MRep m f) (ops : List MOp) :
    MapHist f ops (m.run ops).2 ∧ MRep (m.run ops).1 (mapSpecRun f ops) := by
  induction ops generalizing m f with
  | nil => exact ⟨trivial, h⟩
  | cons op ops ih =>
    obtain ⟨a, b⟩ := mapStep_refines h op
    obtain ⟨c, d⟩ := ih b
    exact ⟨⟨a, c⟩, d⟩

/-! ### flat_map::insert keeps a storage that is sorted by key sorted -/

theorem sorted_insert_ub (k : Int) (xs : List Int) (hs : xs.Pairwise (· < ·)) (hk : k ∉ xs) :
    (listInsert xs (ubSpec k xs) k).Pairwise (· < ·) := by
  induction xs with
  | nil => simp [listInsert, ubSpec]
  | cons y ys ih =>
    simp only [List.pairwise_cons, List.mem_cons, not_or] at hs hk
    by_cases h : k < y
    · simp only [ubSpec, h, if_true, listInsert, List.take_zero, List.drop_zero, List.nil_append,
        List.pairwise_cons, List.mem_cons]
      refine ⟨?_, hs⟩
      rintro a (rfl | ha)
      · exact h
      · exact Int.lt_trans h (hs.1 a ha)
    · simp only [ubSpec, h, if_false]
      have e : listInsert (y :: ys) (ubSpec k ys + 1) k = y :: listInsert ys (ubSpec k ys) k := by
        simp [listInsert]
      rw [e, List.pairwise_cons]
      refine ⟨?_, ih hs.2 hk.2⟩
      intro a ha
      rcases (mem_listInsert ys _ k a).mp ha with rfl | ha
      · have := hk.1; omega
      · exact hs.1 a ha

/-! ### flat_set -/

structure SRep (s : FSet) (S : Int → Bool) : Prop where
  /-- invariant: the storage is strictly increasing -/
  sorted : s.st.Pairwise (· < ·)
  /-- abstraction: it holds exactly the members of the set -/
  mem : ∀ j, j ∈ s.st ↔ S j = true

/-- std::set: how an operation changes the set -/
def setSpecNext (S : Int → Bool) : SOp → (Int → Bool)
  | .insert k => fun j => decide (j = k) || S j
  | .clear => fun _ => false
  | .count _ | .size | .iter => S

/-- std::set: what an operation answers — `count` is membership, iteration visits exactly the members in
    increasing order, `size` is the length of that enumeration -/
def setRetOk (S : Int → Bool) : SOp → SRet → Prop
  | .insert _, r => r = .unit
  | .clear, r => r = .unit
  | .count k, r => r = .nat (if S k then 1 else 0)
  | .size, r => ∃ l : List Int, l.Pairwise (· < ·) ∧ (∀ j, j ∈ l ↔ S j = true) ∧ r = .nat l.length
  | .iter, r => ∃ l : List Int, l.Pairwise (· < ·) ∧ (∀ j, j ∈ l ↔ S j = true) ∧ r = .keys l

theorem sorted_le_of_lt {xs : List Int} (h : xs.Pairwise (· < ·)) : xs.Pairwise (· ≤ ·) :=
  h.imp (fun h => Int.le_of_lt h)

/-- the lower_bound test `it != end() && !(key < *it)` of flat_set::insert / count is membership -/
theorem lb_hit (k : Int) (xs : List Int) (hs : xs.Pairwise (· < ·)) :
    (match xs[lbSpec k xs]? with | some x => ¬ k < x | none => False) ↔ k ∈ xs := by
  induction xs with
  | nil => simp [lbSpec]
  | cons y ys ih =>
    simp only [List.pairwise_cons] at hs
    by_cases h : y < k
    · simp only [lbSpec, h, if_true, List.getElem?_cons_succ, List.mem_cons]
      rw [ih hs.2]
      constructor
      · exact Or.inr
      · rintro (e | e)
        · omega
        · exact e
    · simp only [lbSpec, h, if_false, List.getElem?_cons_zero, List.mem_cons]
      constructor
      · intro h2; left; omega
      · rintro (e | e)
        · omega
        · have := hs.1 k e; omega

theorem sorted_insert_lb (k : Int) (xs : List Int) (hs : xs.Pairwise (· < ·)) (hk : k ∉ xs) :
    (listInsert xs (lbSpec k xs) k).Pairwise (· < ·) := by
  induction xs with
  | nil => simp [listInsert, lbSpec]
  | cons y ys ih =>
    simp only [List.pairwise_cons, List.mem_cons, not_or] at hs hk
    by_cases h : y < k
    · simp only [lbSpec, h, if_true]
      have e : listInsert (y :: ys) (lbSpec k ys + 1) k = y :: listInsert ys (lbSpec k ys) k := by
        simp [listInsert]
      rw [e, List.pairwise_cons]
      refine ⟨?_, ih hs.2 hk.2⟩
      intro a ha
      rcases (mem_listInsert ys _ k a).mp ha with rfl | ha
      · exact h
      · exact hs.1 a ha
    · simp only [lbSpec, h, if_false, listInsert, List.take_zero, List.drop_zero, List.nil_append,
        List.pairwise_cons, List.mem_cons]
      have hky : k < y := by have := hk.1; omega
      refine ⟨?_, hs⟩
      rintro a (rfl | ha)
      · exact hky
      · exact Int.lt_trans hky (hs.1 a ha)

theorem FSet.lb_eq (s : FSet) (k : Int) (hs : s.st.Pairwise (· < ·)) : s.lb k = lbSpec k s.st :=
  lowerBound_sorted s.st k (sorted_le_of_lt hs)

theorem SRep.empty : SRep ⟨[]⟩ (fun _ => false) := ⟨by simp, by simp⟩

theorem count_rep {s : FSet} {S : Int → Bool} (h : SRep s S) (k : Int) : s.count k = if S k then 1 else 0 := by
  have hit := lb_hit k s.st h.sorted
  rw [h.mem] at hit
  simp only [FSet.count, FSet.lb_eq s k h.sorted]
  cases hx : s.st[lbSpec k s.st]? with
  | none =>
    rw [hx] at hit
    have : S k = false := by cases hS : S k <;> simp_all
    simp [this]
  | some x =>
    rw [hx] at hit
    simp only at hit
    by_cases hk : k < x
    · have : S k = false := by cases hS : S k <;> simp_all
      simp [hk, this]
    · have : S k = true := hit.mp hk
      simp [hk, this]

theorem insert_rep {s : FSet} {S : Int → Bool} (h : SRep s S) (k : Int) :
    SRep (s.insert k) (fun j => decide (j = k) || S j) := by
  have hit := lb_hit k s.st h.sorted
  have keep : k ∈ s.st → SRep s (fun j => decide (j = k) || S j) := fun hm =>
    ⟨h.sorted, fun j => by
      simp only [Bool.or_eq_true, decide_eq_true_eq, h.mem]
      exact ⟨Or.inr, fun h2 => h2.elim (fun e => e ▸ (h.mem k).mp hm) id⟩⟩
  have ins : k ∉ s.st → SRep ⟨listInsert s.st (lbSpec k s.st) k⟩ (fun j => decide (j = k) || S j) := fun hm =>
    ⟨sorted_insert_lb k s.st h.sorted hm, fun j => by
      simp only [mem_listInsert, Bool.or_eq_true, decide_eq_true_eq, h.mem]⟩
  simp only [FSet.insert, FSet.lb_eq s k h.sorted]
  cases hx : s.st[lbSpec k s.st]? with
  | none =>
    rw [hx] at hit
    exact ins (fun hm => hit.mpr hm)
  | some x =>
    rw [hx] at hit
    simp only at hit ⊢
    by_cases hk : k < x
    · simp only [hk, not_true_eq_false, if_false]
      exact ins (fun hm => (hit.mpr hm) hk)
    · simp only [hk, not_false_eq_true, if_true]
      exact keep (hit.mp hk)

/-- ONE OPERATION of flat_set against std::set -/
theorem setStep_refines {s : FSet} {S : Int → Bool} (h : SRep s S) (op : SOp) :
    setRetOk S op (s.step op).2 ∧ SRep (s.step op).1 (setSpecNext S op) := by
  cases op with
  | insert k => exact ⟨rfl, insert_rep h k⟩
  | count k => exact ⟨by simp only [FSet.step, setRetOk, count_rep h k], h⟩
  | size => exact ⟨⟨s.st, h.sorted, h.mem, rfl⟩, h⟩
  | clear => exact ⟨rfl, SRep.empty⟩
  | iter => exact ⟨⟨s.st, h.sorted, h.mem, rfl⟩, h⟩

def SetHist : (Int → Bool) → List SOp → List SRet → Prop
  | _, [], [] => True
  | S, op :: ops, r :: rs => setRetOk S op r ∧ SetHist (setSpecNext S op) ops rs
  | _, _, _ => False

def setSpecRun : (Int → Bool) → List SOp → (Int → Bool)
  | S, [] => S
  | S, op :: ops => setSpecRun (setSpecNext S op) ops

theorem setRun_refines {s : FSet} {S : Int → Bool} (h : SRep s S) (ops : List SOp) :
    SetHist S ops (s.run ops).2 ∧ SRep (s.run ops).1 (setSpecRun S ops) := by
  induction ops generalizing s S with
  | nil => exact ⟨trivial, h⟩
  | cons op ops ih =>
    obtain ⟨a, b⟩ := setStep_refines h op
    obtain ⟨c, d⟩ := ih b
    exact ⟨⟨a, c⟩, d⟩

/-- two strictly increasing lists with the same members are equal: the "members in increasing order" of
    `setRetOk` (and hence `size`) is determined by the set -/
theorem sorted_enum_unique (a b : List Int) (ha : a.Pairwise (· < ·)) (hb : b.Pairwise (· < ·))
    (h : ∀ j, j ∈ a ↔ j ∈ b) : a = b := by
  induction a generalizing b with
  | nil =>
    cases b with
    | nil => rfl
    | cons y ys => exact absurd ((h y).mpr (by simp)) (by simp)
  | cons x xs ih =>
    cases b with
    | nil => exact absurd ((h x).mp (by simp)) (by simp)
    | cons y ys =>
      simp only [List.pairwise_cons] at ha hb
      have hxy : x = y := by
        have h1 := (h x).mp (by simp)
        have h2 := (h y).mpr (by simp)
        simp only [List.mem_cons] at h1 h2
        rcases h1 with e | e
        · exact e
        · rcases h2 with e2 | e2
          · exact e2.symm
          · have := hb.1 x e; have := ha.1 y e2; omega
      subst hxy
      congr 1
      refine ih ys ha.2 hb.2 ?_
      intro j
      have hj := h j
      simp only [List.mem_cons] at hj
      constructor
      · intro hm
        rcases hj.mp (Or.inr hm) with e | e
        · subst e; have := ha.1 j hm; omega
        · exact e
      · intro hm
        rcases hj.mpr (Or.inr hm) with e | e
        · subst e; have := hb.1 j hm; omega
        · exact e

end Igris.C02
