import IgrisModel.C02.Bisect
/-!
  C02 — flat_map / flat_set against std::map / std::set, for ANY comparator that is a strict weak order.

  `lt` is the `Compare` object.  `StrictWeak lt` is what the standard requires of it (irreflexive,
  transitive, incomparability transitive); it need not be a linear order: keys that are incomparable
  (`same lt a b`) are ONE key of the map / set, and the container stores the representative it saw first.

  std::map<int,int,Compare> is modelled as a function `f : Int → Option (Int × Int)`: `f k` = the entry
  (stored key, mapped value) whose key is the same key as `k`, if any.  std::set<int,Compare> is a function
  `S : Int → Option Int`: the stored element that is the same key as `k`.
  `MRep lt m f`: no two stored keys are the same key, and `f k` is the entry found for `k`.
  `SRep lt s S`: the storage is strictly increasing under `lt`, and `S k` is the stored element found for `k`.
-/
namespace Igris.C02

/-- the requirements of the standard on `Compare` -/
structure StrictWeak (lt : Int → Int → Bool) : Prop where
  irrefl : ∀ a, lt a a = false
  trans : ∀ a b c, lt a b = true → lt b c = true → lt a c = true
  incomp : ∀ a b c, same lt a b = true → same lt b c = true → same lt a c = true

section
variable {lt : Int → Int → Bool}

theorem same_comm (lt : Int → Int → Bool) (a b : Int) : same lt a b = same lt b a := by
  simp only [same]; exact Bool.and_comm _ _

theorem StrictWeak.refl (h : StrictWeak lt) (a : Int) : same lt a a = true := by simp [same, h.irrefl]

theorem StrictWeak.ltTrans (h : StrictWeak lt) : LtTrans lt := h.trans

/-- `same` is a congruence: equivalent keys are the same key for every third key -/
theorem StrictWeak.congr (h : StrictWeak lt) {a b : Int} (hab : same lt a b = true) (c : Int) :
    same lt c a = same lt c b := by
  cases h1 : same lt c a with
  | true => exact (h.incomp c a b h1 hab).symm
  | false =>
    cases h2 : same lt c b with
    | false => rfl
    | true =>
      have := h.incomp c b a h2 (by rw [same_comm]; exact hab)
      rw [h1] at this; cases this

theorem StrictWeak.not_same_of_lt (h : StrictWeak lt) {a b : Int} (hab : lt a b = true) : same lt a b = false := by
  simp [same, hab]

/-- the comparators the driver instantiates are strict weak orders (non-vacuity of `StrictWeak`) -/
theorem strictWeak_ltInt : StrictWeak ltInt := by
  refine ⟨by simp [ltInt], ?_, ?_⟩
  · intro a b c; simp only [ltInt, decide_eq_true_eq]; omega
  · intro a b c; simp only [same, ltInt, Bool.and_eq_true, Bool.not_eq_true', decide_eq_false_iff_not]; omega

theorem strictWeak_greater : StrictWeak (fun a b => decide (b < a)) := by
  refine ⟨by simp, ?_, ?_⟩
  · intro a b c; simp only [decide_eq_true_eq]; omega
  · intro a b c; simp only [same, Bool.and_eq_true, Bool.not_eq_true', decide_eq_false_iff_not]; omega

/-- "smaller last digit": a strict weak order that is not linear (11 and 21 are the same key) -/
theorem strictWeak_lastDigit : StrictWeak (fun a b => decide (a.tmod 10 < b.tmod 10)) := by
  refine ⟨by simp, ?_, ?_⟩
  · intro a b c; simp only [decide_eq_true_eq]; omega
  · intro a b c; simp only [same, Bool.and_eq_true, Bool.not_eq_true', decide_eq_false_iff_not]; omega

/-! ### lookup of the entry with the same key (generic over the element type: pairs for the map, keys for the set) -/

/-- the first element whose key is the same key as `k` -/
def lookupBy (lt : Int → Int → Bool) {α : Type} (key : α → Int) (k : Int) (l : List α) : Option α :=
  l.find? (fun x => same lt (key x) k)

theorem lookupBy_none_iff {α : Type} (key : α → Int) (k : Int) (l : List α) :
    lookupBy lt key k l = none ↔ ∀ x ∈ l, same lt (key x) k = false := by
  simp [lookupBy, List.find?_eq_none]

theorem lookupBy_isSome_iff {α : Type} (key : α → Int) (k : Int) (l : List α) :
    (lookupBy lt key k l).isSome ↔ ∃ x ∈ l, same lt (key x) k = true := by
  simp [lookupBy, List.find?_isSome]

theorem lookupBy_congr (h : StrictWeak lt) {α : Type} (key : α → Int) {j k : Int} (hjk : same lt j k = true) (l : List α) :
    lookupBy lt key j l = lookupBy lt key k l := by
  simp only [lookupBy]
  congr 1
  funext x
  exact h.congr hjk (key x)

theorem lookupBy_append {α : Type} (key : α → Int) (k : Int) (l r : List α) :
    lookupBy lt key k (l ++ r) = (lookupBy lt key k l).or (lookupBy lt key k r) := by
  simp [lookupBy, List.find?_append]

theorem mem_listInsert {α : Type} (xs : List α) (i : Nat) (x a : α) : a ∈ listInsert xs i x ↔ a = x ∨ a ∈ xs := by
  have h := List.take_append_drop i xs
  have h2 : a ∈ xs ↔ a ∈ xs.take i ∨ a ∈ xs.drop i := by
    conv => lhs; rw [← h]
    exact List.mem_append
  simp only [listInsert, List.mem_append, List.mem_cons, h2]
  constructor
  · rintro (h | h | h)
    · exact Or.inr (Or.inl h)
    · exact Or.inl h
    · exact Or.inr (Or.inr h)
  · rintro (h | h | h)
    · exact Or.inr (Or.inl h)
    · exact Or.inl h
    · exact Or.inr (Or.inr h)

/-- inserting, at ANY position, an element whose key is not yet present -/
theorem lookupBy_listInsert (h : StrictWeak lt) {α : Type} (key : α → Int) (l : List α) (i : Nat) (x : α) (j : Int)
    (hk : lookupBy lt key (key x) l = none) :
    lookupBy lt key j (listInsert l i x) = if same lt j (key x) then some x else lookupBy lt key j l := by
  have hsplit : lookupBy lt key j l = (lookupBy lt key j (l.take i)).or (lookupBy lt key j (l.drop i)) := by
    rw [← lookupBy_append, List.take_append_drop]
  simp only [listInsert, lookupBy_append]
  cases hj : same lt j (key x) with
  | true =>
    have h1 : lookupBy lt key j (l.take i) = none := by
      rw [lookupBy_none_iff]
      intro y hy
      have := (lookupBy_none_iff key (key x) l).mp hk y (List.mem_of_mem_take hy)
      rw [← h.congr hj (key y)] at this
      exact this
    have h2 : same lt (key x) j = true := by rw [same_comm]; exact hj
    simp only [lookupBy] at h1
    simp [lookupBy, List.find?_cons, h2, h1]
  | false =>
    have h2 : same lt (key x) j = false := by rw [same_comm]; exact hj
    simp only [Bool.false_eq_true, if_false]
    rw [hsplit]
    simp [lookupBy, List.find?_cons, h2]

/-- no two elements of the list have the same key -/
def Distinct (lt : Int → Int → Bool) (l : List Int) : Prop := l.Pairwise (fun a b => same lt a b = false)

theorem distinct_listInsert {l : List Int} (i : Nat) {k : Int} (hn : Distinct lt l)
    (hk : ∀ a ∈ l, same lt a k = false) : Distinct lt (listInsert l i k) := by
  have hp : (listInsert l i k).Perm (k :: l) := by
    have := List.perm_middle (a := k) (l₁ := l.take i) (l₂ := l.drop i)
    rwa [List.take_append_drop] at this
  have hsymm : ∀ {x y : Int}, same lt x y = false → same lt y x = false := fun {x y} hxy => by rw [same_comm]; exact hxy
  refine (hp.pairwise_iff hsymm).mpr (List.pairwise_cons.mpr ⟨?_, hn⟩)
  intro a ha
  exact hsymm (hk a ha)

/-! ### association lists -/

def keysOf (l : List (Int × Int)) : List Int := l.map (·.1)

/-- the entry with the same key as `k` -/
abbrev entry (lt : Int → Int → Bool) (k : Int) (l : List (Int × Int)) : Option (Int × Int) := lookupBy lt (·.1) k l

theorem keysOf_listInsert (l : List (Int × Int)) (i : Nat) (k v : Int) :
    keysOf (listInsert l i (k, v)) = listInsert (keysOf l) i k := by
  simp [keysOf, listInsert, List.map_take, List.map_drop]

/-- `std::find_if(begin, end, same key)` finds the entry `entry lt k l` (`end` if there is none) -/
theorem getElem?_findIdx (k : Int) (l : List (Int × Int)) : l[findIdx lt k l]? = entry lt k l := by
  induction l with
  | nil => simp [findIdx, lookupBy]
  | cons p ps ih =>
    simp only [findIdx, lookupBy, List.find?_cons]
    cases h : same lt p.1 k with
    | true => simp
    | false => simpa [lookupBy] using ih

theorem findEntry_eq (m : FMap) (k : Int) : m.findEntry lt k = entry lt k m.st := getElem?_findIdx k m.st

theorem find_eq (m : FMap) (k : Int) : m.find lt k = (entry lt k m.st).map (·.2) := by
  simp only [FMap.find, findEntry_eq]

/-- `std::count_if(begin, end, same key)` on a storage with distinct keys -/
theorem count_eq (h : StrictWeak lt) (k : Int) (l : List (Int × Int)) (hn : Distinct lt (keysOf l)) :
    l.countP (fun p => same lt p.1 k) = if (entry lt k l).isSome then 1 else 0 := by
  induction l with
  | nil => simp [lookupBy]
  | cons p ps ih =>
    simp only [Distinct, keysOf, List.map_cons, List.pairwise_cons] at hn
    have ih := ih hn.2
    simp only [List.countP_cons, lookupBy, List.find?_cons]
    cases hp : same lt p.1 k with
    | true =>
      have hk : entry lt k ps = none := by
        rw [lookupBy_none_iff]
        intro y hy
        have := hn.1 y.1 (List.mem_map.mpr ⟨y, hy, rfl⟩)
        rw [← h.congr hp y.1, same_comm]
        exact this
      rw [hk] at ih
      simp [ih]
    | false =>
      simp only [Bool.false_eq_true, if_false, Nat.add_zero]
      exact ih

/-- `m[k] = v` for a key that is present: the mapped value of the entry found by find_if is overwritten, the
    stored key stays -/
theorem set_findIdx (h : StrictWeak lt) (k v : Int) (l : List (Int × Int)) (p : Int × Int)
    (hp : l[findIdx lt k l]? = some p) :
    keysOf (l.set (findIdx lt k l) (p.1, v)) = keysOf l ∧
    ∀ j, entry lt j (l.set (findIdx lt k l) (p.1, v)) = if same lt j k then some (p.1, v) else entry lt j l := by
  induction l with
  | nil => simp at hp
  | cons q qs ih =>
    cases hq : same lt q.1 k with
    | true =>
      simp only [findIdx, hq, if_true, List.getElem?_cons_zero, Option.some.injEq] at hp ⊢
      subst hp
      simp only [List.set_cons_zero, keysOf, List.map_cons, true_and]
      intro j
      simp only [lookupBy, List.find?_cons]
      have e : same lt q.1 j = same lt j k := by rw [same_comm lt q.1 j]; exact h.congr hq j
      rw [e]
      cases same lt j k <;> simp
    | false =>
      simp only [findIdx, hq, Bool.false_eq_true, if_false, List.getElem?_cons_succ] at hp ⊢
      obtain ⟨a, b⟩ := ih hp
      simp only [List.set_cons_succ, keysOf, List.map_cons] at a ⊢
      refine ⟨by rw [a], ?_⟩
      intro j
      have b := b j
      simp only [lookupBy] at b
      simp only [lookupBy, List.find?_cons, b]
      cases hj : same lt j k with
      | true =>
        have : same lt q.1 j = false := by rw [h.congr hj q.1]; exact hq
        simp [this]
      | false => simp

/-! ### insertion at the bound keeps a strictly increasing storage strictly increasing -/

def Sorted (lt : Int → Int → Bool) (l : List Int) : Prop := l.Pairwise (fun a b => lt a b = true)

instance (lt : Int → Int → Bool) (l : List Int) : Decidable (Sorted lt l) := by unfold Sorted; infer_instance

theorem Sorted.distinct (h : StrictWeak lt) {l : List Int} (hs : Sorted lt l) : Distinct lt l :=
  List.Pairwise.imp (fun hab => h.not_same_of_lt hab) hs

/-- a key that is neither before nor the same as `y` is behind it -/
theorem StrictWeak.lt_of_not (_h : StrictWeak lt) {y k : Int} (h1 : lt y k = false) (h2 : same lt y k = false) :
    lt k y = true := by
  simp only [same, h1, Bool.not_false, Bool.true_and, Bool.not_eq_false'] at h2
  exact h2

theorem sorted_insert_ub (h : StrictWeak lt) (k : Int) (xs : List Int) (hs : Sorted lt xs)
    (hk : ∀ a ∈ xs, same lt a k = false) : Sorted lt (listInsert xs (ubSpecBy lt k xs) k) := by
  induction xs with
  | nil => simp [Sorted, listInsert, ubSpecBy]
  | cons y ys ih =>
    simp only [Sorted, List.pairwise_cons] at hs
    cases hky : lt k y with
    | true =>
      simp only [Sorted, ubSpecBy, hky, if_true, listInsert, List.take_zero, List.drop_zero, List.nil_append,
        List.pairwise_cons, List.mem_cons]
      refine ⟨?_, hs⟩
      rintro a (rfl | ha)
      · exact hky
      · exact h.trans _ _ _ hky (hs.1 a ha)
    | false =>
      simp only [ubSpecBy, hky, Bool.false_eq_true, if_false]
      have e : listInsert (y :: ys) (ubSpecBy lt k ys + 1) k = y :: listInsert ys (ubSpecBy lt k ys) k := by
        simp [listInsert]
      rw [e]
      simp only [Sorted, List.pairwise_cons]
      refine ⟨?_, ih hs.2 (fun a ha => hk a (List.mem_cons_of_mem _ ha))⟩
      intro a ha
      rcases (mem_listInsert ys _ k a).mp ha with rfl | ha
      · have hyk := hk y (List.mem_cons_self ..)
        rw [same_comm] at hyk
        exact h.lt_of_not hky hyk
      · exact hs.1 a ha

theorem sorted_insert_lb (h : StrictWeak lt) (k : Int) (xs : List Int) (hs : Sorted lt xs)
    (hk : ∀ a ∈ xs, same lt a k = false) : Sorted lt (listInsert xs (lbSpec lt k xs) k) := by
  induction xs with
  | nil => simp [Sorted, listInsert, lbSpec]
  | cons y ys ih =>
    simp only [Sorted, List.pairwise_cons] at hs
    cases hyk : lt y k with
    | true =>
      simp only [lbSpec, hyk, if_true]
      have e : listInsert (y :: ys) (lbSpec lt k ys + 1) k = y :: listInsert ys (lbSpec lt k ys) k := by
        simp [listInsert]
      rw [e]
      simp only [Sorted, List.pairwise_cons]
      refine ⟨?_, ih hs.2 (fun a ha => hk a (List.mem_cons_of_mem _ ha))⟩
      intro a ha
      rcases (mem_listInsert ys _ k a).mp ha with rfl | ha
      · exact hyk
      · exact hs.1 a ha
    | false =>
      simp only [Sorted, lbSpec, hyk, Bool.false_eq_true, if_false, listInsert, List.take_zero, List.drop_zero,
        List.nil_append, List.pairwise_cons, List.mem_cons]
      have hky : lt k y = true := h.lt_of_not hyk (hk y (List.mem_cons_self ..))
      refine ⟨?_, hs⟩
      rintro a (rfl | ha)
      · exact hky
      · exact h.trans _ _ _ hky (hs.1 a ha)

/-! ### flat_map -/

structure MRep (lt : Int → Int → Bool) (m : FMap) (f : Int → Option (Int × Int)) : Prop where
  /-- invariant: the storage is strictly increasing by key under the comparator (hence no two stored keys are
      the same key, and iteration visits the entries in std::map's order) -/
  sorted : Sorted lt (keysOf m.st)
  /-- abstraction: `f k` is the stored entry with the same key as `k` -/
  val : ∀ k, f k = entry lt k m.st

/-- no two stored keys are the same key -/
theorem MRep.uniq (h : StrictWeak lt) {m : FMap} {f : Int → Option (Int × Int)} (hm : MRep lt m f) :
    Distinct lt (keysOf m.st) := hm.sorted.distinct h

/-- the entry `(k, v)` for every key that is the same key as `k` -/
def updE (lt : Int → Int → Bool) (f : Int → Option (Int × Int)) (k v : Int) : Int → Option (Int × Int) :=
  fun j => if same lt j k then some (k, v) else f j

/-- std::map: how an operation changes the map -/
def mapSpecNext (lt : Int → Int → Bool) (f : Int → Option (Int × Int)) : MOp → (Int → Option (Int × Int))
  | .index k => if (f k).isSome then f else updE lt f k 0          -- `m[k]` default-inserts T()
  | .assign k v =>                                                  -- `m[k] = v` overwrites the mapped value
    match f k with
    | some p => fun j => if same lt j k then some (p.1, v) else f j
    | none => updE lt f k v
  | .insert k v => if (f k).isSome then f else updE lt f k v        -- insert does not overwrite
  | .emplace k v => if (f k).isSome then f else updE lt f k v
  | .clear => fun _ => none
  | .init l => fun k => entry lt k l                                -- the first entry of a key wins
  | .find _ | .count _ | .at _ | .size | .iter | .cindex _ => f

/-- std::map: what an operation answers in the state `f` -/
def mapRetOk (lt : Int → Int → Bool) (f : Int → Option (Int × Int)) : MOp → MRet → Prop
  | .index k, r => r = .val (((f k).map (·.2)).getD 0)
  | .assign _ _, r => r = .unit
  | .insert k v, r => r = (match f k with | some p => .kv p.1 p.2 | none => .kv k v)  -- `*it`: the old or new entry
  | .emplace k v, r => r = .flag (f k).isNone (((f k).map (·.2)).getD v)
  | .find k, r => r = .opt ((f k).map (·.2))
  | .count k, r => r = .nat (if (f k).isSome then 1 else 0)
  | .at k, r => r = (match f k with | some p => .val p.2 | none => .throw)
  | .size, r => ∃ keys : List Int, Distinct lt keys ∧ (∀ k, (f k).isSome ↔ ∃ j ∈ keys, same lt j k = true) ∧
      r = .nat keys.length                                          -- number of distinct keys
  | .clear, r => r = .unit
  | .init _, r => r = .unit
  -- iteration visits exactly the entries of the map, in increasing key order
  | .iter, r => ∃ l : List (Int × Int), Sorted lt (keysOf l) ∧ (∀ p, p ∈ l ↔ f p.1 = some p) ∧ r = .entries l
  -- const operator[] (igris only): the mapped value or T(); the map is not changed
  | .cindex k, r => r = .val (((f k).map (·.2)).getD 0)

theorem MRep.empty : MRep lt ⟨[]⟩ (fun _ => none) := ⟨by simp [Sorted, keysOf], by simp [lookupBy]⟩

/-- vector::insert of an absent key at `ordered_pos(key)` (the `std::upper_bound` position) -/
theorem MRep.insertUb (h : StrictWeak lt) {m : FMap} {f : Int → Option (Int × Int)} (hm : MRep lt m f) {k : Int}
    (v : Int) (hk : f k = none) : MRep lt ⟨listInsert m.st (m.upos lt k) (k, v)⟩ (updE lt f k v) := by
  have hk' : entry lt k m.st = none := by rw [← hm.val]; exact hk
  have hfar : ∀ a ∈ keysOf m.st, same lt a k = false := by
    intro a ha
    obtain ⟨p, hp, rfl⟩ := List.mem_map.mp ha
    exact (lookupBy_none_iff (·.1) k m.st).mp hk' p hp
  refine ⟨?_, ?_⟩
  · simp only [keysOf_listInsert, FMap.upos]
    have e := mapUpper_sorted lt h.ltTrans m.st k hm.sorted
    simp only [keysOf] at e ⊢
    rw [e]
    exact sorted_insert_ub h k _ hm.sorted hfar
  · intro j
    simp only [updE, hm.val]
    exact (lookupBy_listInsert h (·.1) m.st _ (k, v) j hk').symm

theorem MRep.ext {m : FMap} {f g : Int → Option (Int × Int)} (h : MRep lt m f) (e : f = g) : MRep lt m g := e ▸ h

/-- the initializer-list constructor (after the fix): entries are appended unless their key is present -/
theorem ofList_rep (h : StrictWeak lt) (l : List (Int × Int)) {m : FMap} {f : Int → Option (Int × Int)} (hm : MRep lt m f) :
    MRep lt (FMap.ofList lt l m) (fun k => (f k).or (entry lt k l)) := by
  induction l generalizing m f with
  | nil => exact hm.ext (by funext k; simp [lookupBy])
  | cons p r ih =>
    obtain ⟨k, v⟩ := p
    simp only [FMap.ofList, find_eq, ← hm.val, Option.isSome_map]
    cases hf : f k with
    | some w =>
      simp only [Option.isSome_some, if_true]
      refine (ih hm).ext ?_
      funext j
      simp only [lookupBy, List.find?_cons]
      cases hj : same lt k j with
      | false => rfl
      | true =>
        have : f j = f k := by rw [hm.val, hm.val]; exact lookupBy_congr h (·.1) (by rw [same_comm]; exact hj) m.st
        simp [this, hf]
    | none =>
      simp only [Option.isSome_none, Bool.false_eq_true, if_false]
      refine (ih (hm.insertUb h v hf)).ext ?_
      funext j
      simp only [lookupBy, List.find?_cons, updE]
      cases hj : same lt k j with
      | false =>
        have : same lt j k = false := by rw [same_comm]; exact hj
        simp [this]
      | true =>
        have hj' : same lt j k = true := by rw [same_comm]; exact hj
        have : f j = f k := by rw [hm.val, hm.val]; exact lookupBy_congr h (·.1) hj' m.st
        simp [hj', this, hf]

/-- in a storage strictly increasing by key the entry found for the key of a stored entry is that entry -/
theorem entry_self (h : StrictWeak lt) {l : List (Int × Int)} (hs : Sorted lt (keysOf l)) {p : Int × Int} :
    p ∈ l ↔ entry lt p.1 l = some p := by
  constructor
  · intro hp
    induction l with
    | nil => simp at hp
    | cons y ys ih =>
      simp only [Sorted, keysOf, List.map_cons, List.pairwise_cons] at hs
      simp only [lookupBy, List.find?_cons]
      rcases List.mem_cons.mp hp with rfl | hp
      · simp [h.refl]
      · have : same lt y.1 p.1 = false := h.not_same_of_lt (hs.1 p.1 (List.mem_map.mpr ⟨p, hp, rfl⟩))
        simp only [this]
        exact ih hs.2 hp
  · intro hp
    exact List.mem_of_find?_eq_some hp

/-- ONE OPERATION of flat_map against std::map with the same comparator -/
theorem mapStep_refines (h : StrictWeak lt) {m : FMap} {f : Int → Option (Int × Int)} (hm : MRep lt m f) (op : MOp) :
    mapRetOk lt f op (m.step lt op).2 ∧ MRep lt (m.step lt op).1 (mapSpecNext lt f op) := by
  cases op with
  | index k =>
    simp only [FMap.step, FMap.index, find_eq, ← hm.val, mapRetOk, mapSpecNext]
    cases hf : f k with
    | some w => simp; exact hm
    | none => simp; exact hm.insertUb h 0 hf
  | assign k v =>
    simp only [FMap.step, FMap.assign, mapRetOk, mapSpecNext, true_and]
    have e := getElem?_findIdx (lt := lt) k m.st
    rw [← hm.val] at e
    cases hf : f k with
    | some p =>
      rw [hf] at e
      simp only [e]
      obtain ⟨a, b⟩ := set_findIdx h k v m.st p e
      exact ⟨by rw [a]; exact hm.sorted, fun j => by rw [b j, ← hm.val]⟩
    | none =>
      rw [hf] at e
      simp only [e]
      exact hm.insertUb h v hf
  | insert k v =>
    simp only [FMap.step, FMap.insert, findEntry_eq, ← hm.val, mapRetOk, mapSpecNext]
    cases hf : f k with
    | some w => simp; exact hm
    | none => simp; exact hm.insertUb h v hf
  | emplace k v =>
    simp only [FMap.step, FMap.emplace, find_eq, ← hm.val, mapRetOk, mapSpecNext]
    cases hf : f k with
    | some w => simp; exact hm
    | none => simp; exact hm.insertUb h v hf
  | find k => simp only [FMap.step, find_eq, ← hm.val, mapRetOk, mapSpecNext, true_and]; exact hm
  | count k =>
    simp only [FMap.step, FMap.count, mapRetOk, mapSpecNext]
    refine ⟨?_, hm⟩
    rw [count_eq h k m.st (hm.uniq h), hm.val]
  | «at» k =>
    simp only [FMap.step, FMap.atKey, find_eq, ← hm.val, mapRetOk, mapSpecNext]
    refine ⟨?_, hm⟩
    cases f k <;> rfl
  | size =>
    simp only [FMap.step, FMap.size, mapRetOk, mapSpecNext]
    refine ⟨⟨keysOf m.st, hm.uniq h, ?_, by simp [keysOf]⟩, hm⟩
    intro k
    rw [hm.val, lookupBy_isSome_iff]
    constructor
    · rintro ⟨p, hp, e⟩; exact ⟨p.1, List.mem_map.mpr ⟨p, hp, rfl⟩, e⟩
    · rintro ⟨j, hj, e⟩
      obtain ⟨p, hp, rfl⟩ := List.mem_map.mp hj
      exact ⟨p, hp, e⟩
  | clear => simp only [FMap.step, mapRetOk, mapSpecNext, true_and]; exact MRep.empty
  | init l =>
    simp only [FMap.step, mapRetOk, mapSpecNext, true_and]
    exact (ofList_rep h l MRep.empty).ext (by funext k; simp)
  | iter =>
    simp only [FMap.step, mapRetOk, mapSpecNext]
    exact ⟨⟨m.st, hm.sorted, fun p => by rw [hm.val]; exact entry_self h hm.sorted, rfl⟩, hm⟩
  | cindex k =>
    simp only [FMap.step, FMap.cindex, find_eq, ← hm.val, mapRetOk, mapSpecNext, true_and]; exact hm

/-- a history of std::map answers: `rets` are what std::map answers to `ops` from the state `f` -/
def MapHist (lt : Int → Int → Bool) : (Int → Option (Int × Int)) → List MOp → List MRet → Prop
  | _, [], [] => True
  | f, op :: ops, r :: rs => mapRetOk lt f op r ∧ MapHist lt (mapSpecNext lt f op) ops rs
  | _, _, _ => False

def mapSpecRun (lt : Int → Int → Bool) : (Int → Option (Int × Int)) → List MOp → (Int → Option (Int × Int))
  | f, [] => f
  | f, op :: ops => mapSpecRun lt (mapSpecNext lt f op) ops

theorem mapRun_refines (h : StrictWeak lt) {m : FMap} {f : Int → Option (Int × Int)} (hm : MRep lt m f) (ops : List MOp) :
    MapHist lt f ops (m.run lt ops).2 ∧ MRep lt (m.run lt ops).1 (mapSpecRun lt f ops) := by
  induction ops generalizing m f with
  | nil => exact ⟨trivial, hm⟩
  | cons op ops ih =>
    obtain ⟨a, b⟩ := mapStep_refines h hm op
    obtain ⟨c, d⟩ := ih b
    exact ⟨⟨a, c⟩, d⟩

/-! ### flat_set -/

structure SRep (lt : Int → Int → Bool) (s : FSet) (S : Int → Option Int) : Prop where
  /-- invariant: the storage is strictly increasing under the comparator -/
  sorted : Sorted lt s.st
  /-- abstraction: `S k` is the stored element that is the same key as `k` -/
  val : ∀ k, S k = lookupBy lt id k s.st

/-- std::set: how an operation changes the set -/
def setSpecNext (lt : Int → Int → Bool) (S : Int → Option Int) : SOp → (Int → Option Int)
  | .insert k => if (S k).isSome then S else fun j => if same lt j k then some k else S j
  | .clear => fun _ => none
  | .count _ | .size | .iter => S

/-- std::set: what an operation answers — `count` is presence of the key, iteration visits exactly the stored
    elements in increasing order, `size` is the length of that enumeration -/
def setRetOk (lt : Int → Int → Bool) (S : Int → Option Int) : SOp → SRet → Prop
  | .insert _, r => r = .unit
  | .clear, r => r = .unit
  | .count k, r => r = .nat (if (S k).isSome then 1 else 0)
  | .size, r => ∃ l : List Int, Sorted lt l ∧ (∀ j, j ∈ l ↔ S j = some j) ∧ r = .nat l.length
  | .iter, r => ∃ l : List Int, Sorted lt l ∧ (∀ j, j ∈ l ↔ S j = some j) ∧ r = .keys l

/-- in a strictly increasing list the element found for a stored element is that element -/
theorem lookup_self (h : StrictWeak lt) {l : List Int} (hs : Sorted lt l) {j : Int} :
    j ∈ l ↔ lookupBy lt id j l = some j := by
  constructor
  · intro hj
    induction l with
    | nil => simp at hj
    | cons y ys ih =>
      simp only [Sorted, List.pairwise_cons] at hs
      simp only [lookupBy, List.find?_cons, id]
      rcases List.mem_cons.mp hj with rfl | hj
      · simp [h.refl]
      · have : same lt y j = false := h.not_same_of_lt (hs.1 j hj)
        simp only [this]
        exact ih hs.2 hj
  · intro hj
    exact List.mem_of_find?_eq_some hj

/-- the lower_bound test `it != end() && !_comp(key, *it)` of flat_set::insert / count is presence of the key -/
theorem lb_hit (h : StrictWeak lt) (k : Int) (xs : List Int) (hs : Sorted lt xs) :
    (match xs[lbSpec lt k xs]? with | some x => lt k x = false | none => False) ↔ (lookupBy lt id k xs).isSome := by
  induction xs with
  | nil => simp [lbSpec, lookupBy]
  | cons y ys ih =>
    simp only [Sorted, List.pairwise_cons] at hs
    cases hyk : lt y k with
    | true =>
      have : same lt y k = false := h.not_same_of_lt hyk
      simp only [lbSpec, hyk, if_true, List.getElem?_cons_succ, lookupBy, List.find?_cons, id, this]
      exact ih hs.2
    | false =>
      simp only [lbSpec, hyk, Bool.false_eq_true, if_false, List.getElem?_cons_zero, lookupBy, List.find?_cons, id]
      cases hky : lt k y with
      | false => simp [same, hyk, hky]
      | true =>
        have h1 : same lt y k = false := by simp [same, hky]
        simp only [h1, Bool.true_eq_false, false_iff]
        have : lookupBy lt id k ys = none := by
          rw [lookupBy_none_iff]
          intro a ha
          have := h.trans _ _ _ hky (hs.1 a ha)
          simp [same, this]
        simp only [lookupBy, id] at this
        simp [this]

theorem FSet.lb_eq (h : StrictWeak lt) (s : FSet) (k : Int) (hs : Sorted lt s.st) : s.lb lt k = lbSpec lt k s.st :=
  lowerBound_sorted lt h.ltTrans s.st k hs

theorem SRep.empty : SRep lt ⟨[]⟩ (fun _ => none) := ⟨by simp [Sorted], by simp [lookupBy]⟩

theorem count_rep (h : StrictWeak lt) {s : FSet} {S : Int → Option Int} (hr : SRep lt s S) (k : Int) :
    s.count lt k = if (S k).isSome then 1 else 0 := by
  have hit := lb_hit h k s.st hr.sorted
  rw [← hr.val] at hit
  simp only [FSet.count, FSet.lb_eq h s k hr.sorted]
  cases hx : s.st[lbSpec lt k s.st]? with
  | none =>
    rw [hx] at hit
    have : (S k).isSome = false := by cases hS : (S k).isSome <;> simp_all
    simp [this]
  | some x =>
    rw [hx] at hit
    simp only at hit
    cases hk : lt k x with
    | true =>
      have : (S k).isSome = false := by cases hS : (S k).isSome <;> simp_all
      simp [this, hk]
    | false =>
      have : (S k).isSome = true := hit.mp hk
      simp [this, hk]

theorem insert_rep (h : StrictWeak lt) {s : FSet} {S : Int → Option Int} (hr : SRep lt s S) (k : Int) :
    SRep lt (s.insert lt k) (setSpecNext lt S (.insert k)) := by
  have hit := lb_hit h k s.st hr.sorted
  rw [← hr.val] at hit
  have keep : (S k).isSome = true → SRep lt s (setSpecNext lt S (.insert k)) := fun hm => by
    simp only [setSpecNext, hm, if_true]; exact hr
  have ins : (S k).isSome = false → SRep lt ⟨listInsert s.st (lbSpec lt k s.st) k⟩ (setSpecNext lt S (.insert k)) := fun hm => by
    have hnone : lookupBy lt id k s.st = none := by
      rw [← hr.val]; cases hS : S k with
      | none => rfl
      | some x => simp [hS] at hm
    simp only [setSpecNext, hm, Bool.false_eq_true, if_false]
    refine ⟨sorted_insert_lb h k s.st hr.sorted ((lookupBy_none_iff id k s.st).mp hnone), fun j => ?_⟩
    rw [hr.val]
    exact (lookupBy_listInsert h id s.st _ k j hnone).symm
  simp only [FSet.insert, FSet.lb_eq h s k hr.sorted]
  cases hx : s.st[lbSpec lt k s.st]? with
  | none =>
    rw [hx] at hit
    exact ins (by cases hS : (S k).isSome <;> simp_all)
  | some x =>
    rw [hx] at hit
    simp only at hit ⊢
    cases hk : lt k x with
    | true =>
      simp only [not_true_eq_false, if_false]
      exact ins (by cases hS : (S k).isSome <;> simp_all)
    | false =>
      simp only [Bool.false_eq_true, not_false_eq_true, if_true]
      exact keep (hit.mp hk)

/-- ONE OPERATION of flat_set against std::set with the same comparator -/
theorem setStep_refines (h : StrictWeak lt) {s : FSet} {S : Int → Option Int} (hr : SRep lt s S) (op : SOp) :
    setRetOk lt S op (s.step lt op).2 ∧ SRep lt (s.step lt op).1 (setSpecNext lt S op) := by
  have hmem : ∀ j, j ∈ s.st ↔ S j = some j := fun j => by rw [hr.val]; exact lookup_self h hr.sorted
  cases op with
  | insert k => exact ⟨rfl, insert_rep h hr k⟩
  | count k => exact ⟨by simp only [FSet.step, setRetOk, count_rep h hr k], hr⟩
  | size => exact ⟨⟨s.st, hr.sorted, hmem, rfl⟩, hr⟩
  | clear => exact ⟨rfl, SRep.empty⟩
  | iter => exact ⟨⟨s.st, hr.sorted, hmem, rfl⟩, hr⟩

def SetHist (lt : Int → Int → Bool) : (Int → Option Int) → List SOp → List SRet → Prop
  | _, [], [] => True
  | S, op :: ops, r :: rs => setRetOk lt S op r ∧ SetHist lt (setSpecNext lt S op) ops rs
  | _, _, _ => False

def setSpecRun (lt : Int → Int → Bool) : (Int → Option Int) → List SOp → (Int → Option Int)
  | S, [] => S
  | S, op :: ops => setSpecRun lt (setSpecNext lt S op) ops

theorem setRun_refines (h : StrictWeak lt) {s : FSet} {S : Int → Option Int} (hr : SRep lt s S) (ops : List SOp) :
    SetHist lt S ops (s.run lt ops).2 ∧ SRep lt (s.run lt ops).1 (setSpecRun lt S ops) := by
  induction ops generalizing s S with
  | nil => exact ⟨trivial, hr⟩
  | cons op ops ih =>
    obtain ⟨a, b⟩ := setStep_refines h hr op
    obtain ⟨c, d⟩ := ih b
    exact ⟨⟨a, c⟩, d⟩

/-- two strictly increasing lists with the same elements are equal: the "stored elements in increasing
    order" of `setRetOk` (and hence `size`) is determined by the set -/
theorem sorted_enum_unique (h : StrictWeak lt) (a b : List Int) (ha : Sorted lt a) (hb : Sorted lt b)
    (hab : ∀ j, j ∈ a ↔ j ∈ b) : a = b := by
  have asym : ∀ x y, lt x y = true → lt y x = true → False := fun x y h1 h2 => by
    have := h.trans _ _ _ h1 h2; rw [h.irrefl] at this; cases this
  induction a generalizing b with
  | nil =>
    cases b with
    | nil => rfl
    | cons y ys => exact absurd ((hab y).mpr (by simp)) (by simp)
  | cons x xs ih =>
    cases b with
    | nil => exact absurd ((hab x).mp (by simp)) (by simp)
    | cons y ys =>
      simp only [Sorted, List.pairwise_cons] at ha hb
      have hxy : x = y := by
        have h1 := (hab x).mp (by simp)
        have h2 := (hab y).mpr (by simp)
        simp only [List.mem_cons] at h1 h2
        rcases h1 with e | e
        · exact e
        · rcases h2 with e2 | e2
          · exact e2.symm
          · exact (asym _ _ (hb.1 x e) (ha.1 y e2)).elim
      subst hxy
      congr 1
      refine ih ys ha.2 hb.2 ?_
      intro j
      have hj := hab j
      simp only [List.mem_cons] at hj
      constructor
      · intro hm
        rcases hj.mp (Or.inr hm) with e | e
        · subst e; have := ha.1 j hm; rw [h.irrefl] at this; cases this
        · exact e
      · intro hm
        rcases hj.mpr (Or.inr hm) with e | e
        · subst e; have := hb.1 j hm; rw [h.irrefl] at this; cases this
        · exact e

/-- generic form of `sorted_enum_unique`: two lists that are strictly increasing for an irreflexive, asymmetric
    relation and have the same members are equal -/
theorem pairwise_enum_unique {α : Type} (r : α → α → Prop) (irr : ∀ x, ¬ r x x) (asym : ∀ x y, r x y → r y x → False)
    (a b : List α) (ha : a.Pairwise r) (hb : b.Pairwise r) (hab : ∀ j, j ∈ a ↔ j ∈ b) : a = b := by
  induction a generalizing b with
  | nil =>
    cases b with
    | nil => rfl
    | cons y ys => exact absurd ((hab y).mpr (by simp)) (by simp)
  | cons x xs ih =>
    cases b with
    | nil => exact absurd ((hab x).mp (by simp)) (by simp)
    | cons y ys =>
      simp only [List.pairwise_cons] at ha hb
      have hxy : x = y := by
        have h1 := (hab x).mp (by simp)
        have h2 := (hab y).mpr (by simp)
        simp only [List.mem_cons] at h1 h2
        rcases h1 with e | e
        · exact e
        · rcases h2 with e2 | e2
          · exact e2.symm
          · exact (asym _ _ (hb.1 x e) (ha.1 y e2)).elim
      subst hxy
      congr 1
      refine ih ys ha.2 hb.2 ?_
      intro j
      have hj := hab j
      simp only [List.mem_cons] at hj
      constructor
      · intro hm
        rcases hj.mp (Or.inr hm) with e | e
        · subst e; exact (irr _ (ha.1 j hm)).elim
        · exact e
      · intro hm
        rcases hj.mpr (Or.inr hm) with e | e
        · subst e; exact (irr _ (hb.1 j hm)).elim
        · exact e

/-- `flat_map::operator==` (equality of the storage vectors) on two maps in the invariant = equality of the
    maps as std::map sees them (same entry for every key): the storage is a function of the abstract map -/
theorem storage_eq_iff (h : StrictWeak lt) {m1 m2 : FMap} {f1 f2 : Int → Option (Int × Int)}
    (h1 : MRep lt m1 f1) (h2 : MRep lt m2 f2) : m1.st = m2.st ↔ f1 = f2 := by
  constructor
  · intro e
    funext k
    rw [h1.val, h2.val, e]
  · intro e
    have s1 : m1.st.Pairwise (fun a b => lt a.1 b.1 = true) := by
      have := h1.sorted; simp only [Sorted, keysOf, List.pairwise_map] at this; exact this
    have s2 : m2.st.Pairwise (fun a b => lt a.1 b.1 = true) := by
      have := h2.sorted; simp only [Sorted, keysOf, List.pairwise_map] at this; exact this
    refine pairwise_enum_unique (fun a b : Int × Int => lt a.1 b.1 = true) ?_ ?_ _ _ s1 s2 ?_
    · intro x hx; rw [h.irrefl] at hx; cases hx
    · intro x y hxy hyx
      have := h.trans _ _ _ hxy hyx; rw [h.irrefl] at this; cases this
    · intro p
      rw [entry_self h h1.sorted, entry_self h h2.sorted, ← h1.val, ← h2.val, e]

end

end Igris.C02
