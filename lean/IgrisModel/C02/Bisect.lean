import IgrisModel.C02.Lemmas
/-!
  C02 — the three bisection loops of the model (`upperBound` over a vector block =
  vector::insert_sorted, `mapUpper` = flat_map::insert, `lowerBound` = flat_set::insert / count) are
  the libstdc++ loops `__upper_bound` / `__lower_bound`.  Here: each of them is an instance of one abstract
  bisection `bisect P`, `bisect P` returns the partition point of a monotone predicate, and on a sorted
  sequence the partition point is the specification position (`ubSpec` = first index whose element is
  greater than the key, `lbSpec` = first index whose element is not less than the key).
-/
namespace Igris.C02

/-- the libstdc++ bisection over an abstract predicate: `P i` = "the search continues to the LEFT of
    element `i`" (`value < *middle` for upper_bound, `!(*middle < value)` for lower_bound) -/
def bisect (P : Nat → Bool) : Nat → Nat → Nat → Nat
  | 0, first, _ => first
  | fuel + 1, first, len =>
    if len = 0 then first else
    if P (first + len / 2) then bisect P fuel first (len / 2)
    else bisect P fuel (first + len / 2 + 1) (len - len / 2 - 1)

/-- on a predicate that is monotone on `[first, first+len)` the bisection returns its partition point -/
theorem bisect_spec (P : Nat → Bool) (fuel first len : Nat) (hf : len ≤ fuel)
    (hm : ∀ i j, first ≤ i → i ≤ j → j < first + len → P i = true → P j = true) :
    first ≤ bisect P fuel first len ∧ bisect P fuel first len ≤ first + len ∧
    (∀ i, first ≤ i → i < bisect P fuel first len → P i = false) ∧
    (∀ i, bisect P fuel first len ≤ i → i < first + len → P i = true) := by
  induction fuel generalizing first len with
  | zero =>
    have : len = 0 := by omega
    subst this
    refine ⟨by simp [bisect], by simp [bisect], ?_, ?_⟩
    · intro i h1 h2; simp only [bisect] at h2; omega
    · intro i h1 h2; simp only [bisect] at h1; omega
  | succ n ih =>
    unfold bisect
    by_cases h0 : len = 0
    · subst h0
      simp only [if_true]
      exact ⟨Nat.le_refl _, by omega, fun i h1 h2 => by omega, fun i h1 h2 => by omega⟩
    · simp only [h0, if_false]
      by_cases hp : P (first + len / 2) = true
      · simp only [hp, if_true]
        obtain ⟨a, b, c, d⟩ := ih first (len / 2) (by omega) (fun i j h1 h2 h3 => hm i j h1 h2 (by omega))
        refine ⟨a, by omega, c, ?_⟩
        intro i h1 h2
        by_cases hi : i < first + len / 2
        · exact d i h1 hi
        · exact hm (first + len / 2) i (by omega) (by omega) h2 hp
      · have hp' : P (first + len / 2) = false := by simpa using hp
        simp only [hp', Bool.false_eq_true, if_false]
        obtain ⟨a, b, c, d⟩ := ih (first + len / 2 + 1) (len - len / 2 - 1) (by omega)
          (fun i j h1 h2 h3 => hm i j (by omega) h2 (by omega))
        refine ⟨by omega, by omega, ?_, fun i h1 h2 => d i h1 (by omega)⟩
        intro i h1 h2
        by_cases hi : i ≤ first + len / 2
        · cases hq : P i with
          | false => rfl
          | true => exact absurd (hm i (first + len / 2) h1 hi (by omega) hq) hp
        · exact c i (by omega) h2

/-- the bisection never leaves `[first, first+len]`, whatever the predicate (unsorted storage included) -/
theorem bisect_range (P : Nat → Bool) (fuel first len : Nat) :
    first ≤ bisect P fuel first len ∧ bisect P fuel first len ≤ first + len := by
  induction fuel generalizing first len with
  | zero => simp [bisect]
  | succ n ih =>
    unfold bisect
    by_cases h0 : len = 0
    · simp [h0]
    · simp only [h0, if_false]
      split
      · have := ih first (len / 2); omega
      · have := ih (first + len / 2 + 1) (len - len / 2 - 1); omega

/-- a partition point of `p` over a list is `List.findIdx p` -/
theorem findIdx_unique {α : Type} (p : α → Bool) (xs : List α) (r : Nat) (hr : r ≤ xs.length)
    (h1 : ∀ i (h : i < xs.length), i < r → p xs[i] = false)
    (h2 : ∀ i (h : i < xs.length), r ≤ i → p xs[i] = true) : r = xs.findIdx p := by
  have hle := List.findIdx_le_length (p := p) (xs := xs)
  rcases Nat.lt_trichotomy r (xs.findIdx p) with h | h | h
  · have hlt : r < xs.length := by omega
    have := List.not_of_lt_findIdx h
    rw [h2 r hlt (Nat.le_refl _)] at this
    cases this
  · exact h
  · have hlt : xs.findIdx p < xs.length := by omega
    have := List.findIdx_getElem (w := hlt)
    rw [h1 _ hlt h] at this
    exact absurd this (by simp)

theorem ubSpec_eq_findIdx (x : Val) (xs : List Val) : ubSpec x xs = xs.findIdx (fun y => decide (x < y)) := by
  induction xs with
  | nil => rfl
  | cons y ys ih => simp only [ubSpec, List.findIdx_cons, ih]; by_cases h : x < y <;> simp [h]

theorem lbSpec_eq_findIdx (lt : Int → Int → Bool) (k : Int) (xs : List Int) :
    lbSpec lt k xs = xs.findIdx (fun y => !lt y k) := by
  induction xs with
  | nil => rfl
  | cons y ys ih => simp only [lbSpec, List.findIdx_cons, ih]; cases h : lt y k <;> simp

theorem ubSpecBy_eq_findIdx (lt : Int → Int → Bool) (k : Int) (xs : List Int) :
    ubSpecBy lt k xs = xs.findIdx (fun y => lt k y) := by
  induction xs with
  | nil => rfl
  | cons y ys ih => simp only [ubSpecBy, List.findIdx_cons, ih]; cases h : lt k y <;> simp

theorem ubSpec_le (x : Val) (xs : List Val) : ubSpec x xs ≤ xs.length := by
  rw [ubSpec_eq_findIdx]; exact List.findIdx_le_length

theorem lbSpec_le (lt : Int → Int → Bool) (k : Int) (xs : List Int) : lbSpec lt k xs ≤ xs.length := by
  rw [lbSpec_eq_findIdx]; exact List.findIdx_le_length

theorem ubSpecBy_le (lt : Int → Int → Bool) (k : Int) (xs : List Int) : ubSpecBy lt k xs ≤ xs.length := by
  rw [ubSpecBy_eq_findIdx]; exact List.findIdx_le_length

/-- everything in front of `lbSpec` is less than the key -/
theorem lt_of_lt_lbSpec {lt : Int → Int → Bool} {k : Int} {xs : List Int} {i : Nat} (h : i < lbSpec lt k xs)
    (hi : i < xs.length) : lt xs[i] k = true := by
  rw [lbSpec_eq_findIdx] at h
  have := List.not_of_lt_findIdx h
  simpa using this

/-- the element at `lbSpec` (if any) is not less than the key -/
theorem not_lt_at_lbSpec {lt : Int → Int → Bool} {k : Int} {xs : List Int} (h : lbSpec lt k xs < xs.length) :
    lt xs[lbSpec lt k xs] k = false := by
  have h' : xs.findIdx (fun y => !lt y k) < xs.length := by rw [← lbSpec_eq_findIdx]; exact h
  have := List.findIdx_getElem (w := h')
  simp only [← lbSpec_eq_findIdx] at this
  simpa using this

/-- everything in front of `ubSpec` is not greater than the key -/
theorem not_lt_of_lt_ubSpec {x : Val} {xs : List Val} {i : Nat} (h : i < ubSpec x xs) (hi : i < xs.length) : ¬ x < xs[i] := by
  rw [ubSpec_eq_findIdx] at h
  have := List.not_of_lt_findIdx h
  simpa using this

theorem lt_at_ubSpec {x : Val} {xs : List Val} (h : ubSpec x xs < xs.length) : x < xs[ubSpec x xs] := by
  have h' : xs.findIdx (fun y => decide (x < y)) < xs.length := by rw [← ubSpec_eq_findIdx]; exact h
  have := List.findIdx_getElem (w := h')
  simp only [← ubSpec_eq_findIdx] at this
  simpa using this

/-! ### the three loops of the model are `bisect` -/

theorem upperBound_eq_bisect (b : Buf) (g : Nat → Val) (x : Val) (n : Nat) (hb : ∀ i, i < n → rd b i = some (g i))
    (fuel first len : Nat) (hr : first + len ≤ n) :
    upperBound b x fuel first len = some (bisect (fun i => decide (x < g i)) fuel first len) := by
  induction fuel generalizing first len with
  | zero => rfl
  | succ m ih =>
    unfold upperBound bisect
    by_cases h0 : len = 0
    · simp [h0]
    · simp only [h0, if_false, hb (first + len / 2) (by omega), decide_eq_true_eq]
      split
      · exact ih first (len / 2) (by omega)
      · exact ih (first + len / 2 + 1) (len - len / 2 - 1) (by omega)

theorem mapUpper_eq_bisect (lt : Int → Int → Bool) (m : List (Int × Int)) (k : Int) (fuel first len : Nat)
    (hr : first + len ≤ m.length) :
    mapUpper lt m k fuel first len = bisect (fun i => lt k (m.getD i (0, 0)).1) fuel first len := by
  induction fuel generalizing first len with
  | zero => rfl
  | succ f ih =>
    unfold mapUpper bisect
    by_cases h0 : len = 0
    · simp [h0]
    · have hlt : first + len / 2 < m.length := by omega
      simp only [h0, if_false, List.getElem?_eq_getElem hlt, List.getD_eq_getElem?_getD, Option.getD_some]
      split
      · exact ih first (len / 2) (by omega)
      · exact ih (first + len / 2 + 1) (len - len / 2 - 1) (by omega)

theorem lowerBound_eq_bisect (lt : Int → Int → Bool) (s : List Int) (k : Int) (fuel first len : Nat)
    (hr : first + len ≤ s.length) :
    lowerBound lt s k fuel first len = bisect (fun i => !lt (s.getD i 0) k) fuel first len := by
  induction fuel generalizing first len with
  | zero => rfl
  | succ f ih =>
    unfold lowerBound bisect
    by_cases h0 : len = 0
    · simp [h0]
    · have hlt : first + len / 2 < s.length := by omega
      simp only [h0, if_false, List.getElem?_eq_getElem hlt, List.getD_eq_getElem?_getD, Option.getD_some]
      cases hc : lt s[first + len / 2] k
      · simp only [Bool.false_eq_true, if_false, Bool.not_false, if_true]
        exact ih first (len / 2) (by omega)
      · simp only [if_true, Bool.not_true, Bool.false_eq_true, if_false]
        exact ih (first + len / 2 + 1) (len - len / 2 - 1) (by omega)

/-! ### on sorted input the bisection returns the specification position -/

theorem sorted_get {xs : List Int} (hs : xs.Pairwise (· ≤ ·)) {i j : Nat} (hij : i ≤ j) (hj : j < xs.length) :
    xs[i]'(by omega) ≤ xs[j] := by
  rcases Nat.lt_or_ge i j with h | h
  · exact (List.pairwise_iff_getElem.mp hs) i j (by omega) hj h
  · have : i = j := by omega
    subst this; exact Int.le_refl _

/-- std::upper_bound (the libstdc++ loop) on a sorted sequence = first index whose element is greater than `x` -/
theorem bisect_ub_sorted (xs : List Val) (x : Val) (hs : xs.Pairwise (· ≤ ·)) :
    bisect (fun i => decide (x < xs.getD i 0)) xs.length 0 xs.length = ubSpec x xs := by
  obtain ⟨_, b, c, d⟩ := bisect_spec (fun i => decide (x < xs.getD i 0)) xs.length 0 xs.length (Nat.le_refl _) (by
    intro i j _ hij hj hi
    simp only [Nat.zero_add] at hj
    simp only [decide_eq_true_eq, List.getD_eq_getElem?_getD, List.getElem?_eq_getElem hj,
      List.getElem?_eq_getElem (show i < xs.length by omega), Option.getD_some] at hi ⊢
    exact Int.lt_of_lt_of_le hi (sorted_get hs hij hj))
  rw [ubSpec_eq_findIdx]
  refine findIdx_unique _ xs _ (by omega) ?_ ?_
  · intro i hi hlt
    have := c i (Nat.zero_le _) hlt
    simpa [List.getD_eq_getElem?_getD, List.getElem?_eq_getElem hi] using this
  · intro i hi hge
    have := d i hge (by omega)
    simpa [List.getD_eq_getElem?_getD, List.getElem?_eq_getElem hi] using this

/-- the bisection over a list on which `p` is monotone (false … false true … true) returns `findIdx p` -/
theorem bisect_findIdx (p : Int → Bool) (xs : List Int)
    (hm : ∀ i j (hij : i < j) (hj : j < xs.length), p (xs[i]'(by omega)) = true → p xs[j] = true) :
    bisect (fun i => p (xs.getD i 0)) xs.length 0 xs.length = xs.findIdx p := by
  obtain ⟨_, b, c, d⟩ := bisect_spec (fun i => p (xs.getD i 0)) xs.length 0 xs.length (Nat.le_refl _) (by
    intro i j _ hij hj hi
    simp only [Nat.zero_add] at hj
    simp only [List.getD_eq_getElem?_getD, List.getElem?_eq_getElem hj,
      List.getElem?_eq_getElem (show i < xs.length by omega), Option.getD_some] at hi ⊢
    rcases Nat.lt_or_ge i j with h | h
    · exact hm i j h hj hi
    · have : i = j := by omega
      subst this; exact hi)
  refine findIdx_unique _ xs _ (by omega) ?_ ?_
  · intro i hi hlt
    have := c i (Nat.zero_le _) hlt
    simpa [List.getD_eq_getElem?_getD, List.getElem?_eq_getElem hi] using this
  · intro i hi hge
    have := d i hge (by omega)
    simpa [List.getD_eq_getElem?_getD, List.getElem?_eq_getElem hi] using this

/-- what the theorems need of the comparator for the bisections: transitivity -/
def LtTrans (lt : Int → Int → Bool) : Prop := ∀ a b c, lt a b = true → lt b c = true → lt a c = true

/-- flat_set: `std::lower_bound(_vec.begin(), _vec.end(), key, _comp)` as modelled = `lbSpec` on a storage
    that is strictly increasing under the comparator -/
theorem lowerBound_sorted (lt : Int → Int → Bool) (ht : LtTrans lt) (xs : List Int) (k : Int)
    (hs : xs.Pairwise (fun a b => lt a b = true)) :
    lowerBound lt xs k xs.length 0 xs.length = lbSpec lt k xs := by
  rw [lowerBound_eq_bisect lt xs k _ _ _ (by omega), lbSpec_eq_findIdx]
  refine bisect_findIdx (fun y => !lt y k) xs ?_
  intro i j hij hj hi
  have h1 := (List.pairwise_iff_getElem.mp hs) i j (by omega) hj hij
  cases h2 : lt xs[j] k with
  | false => rfl
  | true => have := ht _ _ _ h1 h2; simp [this] at hi

theorem lowerBound_le (lt : Int → Int → Bool) (xs : List Int) (k : Int) :
    lowerBound lt xs k xs.length 0 xs.length ≤ xs.length := by
  rw [lowerBound_eq_bisect lt xs k _ _ _ (by omega)]
  have := (bisect_range (fun i => !lt (xs.getD i 0) k) xs.length 0 xs.length).2
  omega

/-- flat_map::insert: the position `std::upper_bound` answers lies inside the storage, sorted or not -/
theorem mapUpper_le (lt : Int → Int → Bool) (m : List (Int × Int)) (k : Int) :
    mapUpper lt m k m.length 0 m.length ≤ m.length := by
  rw [mapUpper_eq_bisect lt m k _ _ _ (by omega)]
  have := (bisect_range (fun i => lt k (m.getD i (0, 0)).1) m.length 0 m.length).2
  omega

/-- flat_map::insert on a storage strictly increasing by key: `std::upper_bound` as modelled = `ubSpecBy` of the keys -/
theorem mapUpper_sorted (lt : Int → Int → Bool) (ht : LtTrans lt) (m : List (Int × Int)) (k : Int)
    (hs : (m.map (·.1)).Pairwise (fun a b => lt a b = true)) :
    mapUpper lt m k m.length 0 m.length = ubSpecBy lt k (m.map (·.1)) := by
  rw [mapUpper_eq_bisect lt m k _ _ _ (by omega), ubSpecBy_eq_findIdx]
  have := bisect_findIdx (fun y => lt k y) (m.map (·.1)) (by
    intro i j hij hj hi
    have h1 := (List.pairwise_iff_getElem.mp hs) i j (by omega) hj hij
    exact ht _ _ _ hi h1)
  simp only [List.length_map] at this
  rw [← this]
  congr 1
  funext i
  by_cases hi : i < m.length
  · simp [List.getD_eq_getElem?_getD, List.getElem?_eq_getElem hi]
  · simp [List.getD_eq_getElem?_getD, List.getElem?_eq_none (Nat.le_of_not_lt hi)]

/-- vector::insert_sorted: `std::upper_bound(begin(), end(), item)` over the block of a vector that holds the
    sorted sequence `xs` reads only constructed elements and answers `ubSpec item xs` -/
theorem upperBound_sorted {v : Vec} {xs : List Val} (h : Rep v xs) (hs : xs.Pairwise (· ≤ ·)) (x : Val) {b : Buf}
    (hb : v.data = some b) : upperBound b x v.size 0 v.size = some (ubSpec x xs) := by
  rcases h.cases with ⟨rfl, rfl⟩ | ⟨c, rfl, hc⟩
  · simp [Vec.empty] at hb
  · simp only [vecOf, Option.some.injEq] at hb
    subst hb
    simp only [vecOf]
    rw [upperBound_eq_bisect _ (fun i => xs.getD i 0) x xs.length
      (fun i hi => rd_live (by simp; omega) (cell_live hi)) _ _ _ (by omega)]
    rw [bisect_ub_sorted xs x hs]

theorem insertSorted_good {v : Vec} {xs : List Val} (h : Rep v xs) (hs : xs.Pairwise (· ≤ ·)) (x : Val) (l : Ledger) :
    ∃ v' l', insertSorted v x l = some (ubSpec x xs, v', l') ∧
      Good v xs l v' (insertAt xs (ubSpec x xs) [x]) l' := by
  obtain ⟨v', l', h1, g⟩ := emplace_good (a := .val x) h (ubSpec_le x xs) rfl l
  refine ⟨v', l', ?_, g⟩
  unfold insertSorted
  cases hd : v.data with
  | none =>
    have h0 := (h.none_nil hd).1
    subst h0
    have hsz : v.size = 0 := by simpa using h.size_eq
    simp only [ubSpec] at h1 ⊢
    simp [hsz, h1]
  | some b =>
    simp only [upperBound_sorted h hs x hd, h1]

end Igris.C02
