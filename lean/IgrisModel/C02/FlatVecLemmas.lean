import IgrisModel.C02.Flat
import IgrisModel.C02.FlatVec
/-!
  C02 — flat_set / flat_map over the slot-model vector (`VSet`, `VMap` of FlatVec.lean) simulate the list
  models (`FSet`, `FMap` of Model.lean) step by step, without a fault, for ANY contents of the storage (no
  sortedness or strict-weak-order hypothesis) and ANY comparator.
-/
namespace Igris.C02

/-! ### generalities -/

theorem Good.refl {v : Vec} {xs : List Val} (h : Rep v xs) (l : Ledger) : Good v xs l v xs l :=
  ⟨h, by omega, by omega⟩

/-- the reads of the block of a represented vector -/
theorem rd_vecOf {c : Nat} {xs : List Val} (hc : xs.length ≤ c) {i : Nat} (hi : i < xs.length) :
    rd (⟨c, cell xs⟩ : Buf) i = some (xs.getD i 0) :=
  rd_live (by simp; omega) (cell_live hi)

theorem insertAt_single (xs : List Val) (p : Nat) (x : Val) : insertAt xs p [x] = listInsert xs p x := by
  simp [insertAt, listInsert]

/-! ### flat_set -/

theorem lowerBoundV_eq_bisect (lt : Int → Int → Bool) (b : Buf) (g : Nat → Val) (k : Int) (n : Nat)
    (hb : ∀ i, i < n → rd b i = some (g i)) (fuel first len : Nat) (hr : first + len ≤ n) :
    lowerBoundV lt b k fuel first len = some (bisect (fun i => !lt (g i) k) fuel first len) := by
  induction fuel generalizing first len with
  | zero => rfl
  | succ m ih =>
    unfold lowerBoundV bisect
    by_cases h0 : len = 0
    · simp [h0]
    · simp only [h0, if_false, hb (first + len / 2) (by omega)]
      cases hc : lt (g (first + len / 2)) k
      · simp only [Bool.false_eq_true, if_false, Bool.not_false, if_true]
        exact ih first (len / 2) (by omega)
      · simp only [if_true, Bool.not_true, Bool.false_eq_true, if_false]
        exact ih (first + len / 2 + 1) (len - len / 2 - 1) (by omega)

theorem VSet.lb_ok (lt : Int → Int → Bool) {s : VSet} {xs : List Int} (hr : Rep s.v xs) (k : Int) :
    s.lb lt k = some ((⟨xs⟩ : FSet).lb lt k) := by
  rcases hr.cases with ⟨h1, rfl⟩ | ⟨c, h1, hc⟩
  · simp [VSet.lb, h1, Vec.empty, FSet.lb, lowerBound]
  · simp only [VSet.lb, h1, vecOf, FSet.lb]
    rw [lowerBoundV_eq_bisect lt _ (fun i => xs.getD i 0) k xs.length (fun i hi => rd_vecOf hc hi) _ _ _ (by omega),
      lowerBound_eq_bisect lt xs k _ _ _ (by omega)]

theorem VSet.hit_ok (lt : Int → Int → Bool) {s : VSet} {xs : List Int} (hr : Rep s.v xs) (k : Int) {i : Nat}
    (hi : i ≤ xs.length) :
    s.hit lt k i = some (match xs[i]? with | some x => !lt k x | none => false) := by
  by_cases he : i = xs.length
  · subst he
    simp [VSet.hit, hr.size_eq]
  · have hlt : i < xs.length := by omega
    rcases hr.cases with ⟨_, rfl⟩ | ⟨c, h1, hc⟩
    · simp at hlt
    · simp only [VSet.hit, h1, vecOf, he, if_false, rd_vecOf hc hlt]
      simp [List.getD_eq_getElem?_getD, List.getElem?_eq_getElem hlt]

theorem FSet.lb_le (lt : Int → Int → Bool) (xs : List Int) (k : Int) : (⟨xs⟩ : FSet).lb lt k ≤ xs.length :=
  lowerBound_le lt xs k

theorem vset_step_simulates (lt : Int → Int → Bool) {s : VSet} {xs : List Int} (hr : Rep s.v xs) (l : Ledger) (op : SOp) :
    ∃ s' l', VSet.step lt s l op = some (s', l', ((⟨xs⟩ : FSet).step lt op).2) ∧
      Good s.v xs l s'.v ((⟨xs⟩ : FSet).step lt op).1.st l' := by
  cases op with
  | insert k =>
    have hle := FSet.lb_le lt xs k
    simp only [VSet.step, VSet.insert, VSet.lb_ok lt hr k, VSet.hit_ok lt hr k hle, FSet.step, FSet.insert]
    cases hx : xs[(⟨xs⟩ : FSet).lb lt k]? with
    | none =>
      obtain ⟨v', l', h1, g⟩ := emplace_good (a := .val k) hr hle rfl l
      simp only [h1]
      exact ⟨⟨v'⟩, l', rfl, by simpa [insertAt_single] using g⟩
    | some x =>
      cases hc : lt k x
      · simp [hc]
        exact ⟨s, l, ⟨rfl, rfl⟩, Good.refl hr l⟩
      · obtain ⟨v', l', h1, g⟩ := emplace_good (a := .val k) hr hle rfl l
        simp [hc, h1]
        exact ⟨⟨v'⟩, l', ⟨rfl, rfl⟩, by simpa [insertAt_single] using g⟩
  | count k =>
    have hle := FSet.lb_le lt xs k
    simp only [VSet.step, VSet.count, VSet.lb_ok lt hr k, VSet.hit_ok lt hr k hle, FSet.step, FSet.count]
    refine ⟨s, l, ?_, Good.refl hr l⟩
    cases hx : xs[(⟨xs⟩ : FSet).lb lt k]? with
    | none => simp
    | some x => cases hc : lt k x <;> simp
  | size => exact ⟨s, l, by simp [VSet.step, FSet.step, hr.size_eq], Good.refl hr l⟩
  | clear =>
    obtain ⟨v', l', h1, g⟩ := clear_good hr l
    exact ⟨⟨v'⟩, l', by simp [VSet.step, FSet.step, h1], g⟩
  | iter => exact ⟨s, l, by simp [VSet.step, FSet.step, contents_ok hr], Good.refl hr l⟩

example (lt : Int → Int → Bool) (l : Ledger) (op : SOp) :
    ∃ s' l', VSet.step lt {} l op = some (s', l', ((⟨[]⟩ : FSet).step lt op).2) ∧
      Good ({} : VSet).v [] l s'.v ((⟨[]⟩ : FSet).step lt op).1.st l' :=
  vset_step_simulates lt (s := {}) Rep.nil l op

theorem vset_run_simulates (lt : Int → Int → Bool) {s : VSet} {xs : List Int} (hr : Rep s.v xs) (l : Ledger) (ops : List SOp) :
    ∃ s' l', VSet.run lt s l ops = some (s', l', ((⟨xs⟩ : FSet).run lt ops).2) ∧
      Good s.v xs l s'.v ((⟨xs⟩ : FSet).run lt ops).1.st l' := by
  induction ops generalizing s xs l with
  | nil => exact ⟨s, l, rfl, Good.refl hr l⟩
  | cons op ops ih =>
    obtain ⟨s1, l1, h1, g1⟩ := vset_step_simulates lt hr l op
    obtain ⟨s2, l2, h2, g2⟩ := ih g1.rep l1
    refine ⟨s2, l2, ?_, g1.trans g2⟩
    simp only [VSet.run, h1, h2, FSet.run]

example (lt : Int → Int → Bool) (l : Ledger) (ops : List SOp) :
    ∃ s' l', VSet.run lt {} l ops = some (s', l', ((⟨[]⟩ : FSet).run lt ops).2) ∧
      Good ({} : VSet).v [] l s'.v ((⟨[]⟩ : FSet).run lt ops).1.st l' :=
  vset_run_simulates lt (s := {}) Rep.nil l ops

/-! ### flat_map -/

theorem getD_map_enc (c : Coding) (xs : List (Int × Int)) {i : Nat} (hi : i < xs.length) :
    (xs.map c.enc).getD i 0 = c.enc (xs.getD i (0, 0)) := by
  simp [List.getD_eq_getElem?_getD, List.getElem?_eq_getElem hi]

/-- the reads of the block of a vector that holds the coded entries `xs` -/
theorem rd_vecOf_enc (c : Coding) {cap : Nat} {xs : List (Int × Int)} (hc : xs.length ≤ cap) {i : Nat} (hi : i < xs.length) :
    rd (⟨cap, cell (xs.map c.enc)⟩ : Buf) i = some (c.enc (xs.getD i (0, 0))) := by
  rw [rd_vecOf (by simpa using hc) (by simpa using hi), getD_map_enc c xs hi]

theorem findIdx_le (lt : Int → Int → Bool) (k : Int) (xs : List (Int × Int)) : findIdx lt k xs ≤ xs.length := by
  induction xs with
  | nil => simp [findIdx]
  | cons p ps ih => simp only [findIdx]; split <;> simp <;> omega

theorem findIdx_lt_of_some {lt : Int → Int → Bool} {k : Int} {xs : List (Int × Int)} {p : Int × Int}
    (h : xs[findIdx lt k xs]? = some p) : findIdx lt k xs < xs.length := by
  obtain ⟨h1, _⟩ := List.getElem?_eq_some_iff.mp h
  exact h1

theorem findIdx_eq_of_none {lt : Int → Int → Bool} {k : Int} {xs : List (Int × Int)}
    (h : xs[findIdx lt k xs]? = none) : findIdx lt k xs = xs.length := by
  have h1 := List.getElem?_eq_none_iff.mp h
  have h2 := findIdx_le lt k xs
  omega

theorem findIdxV_ok (c : Coding) (hc : c.ok) (lt : Int → Int → Bool) (b : Buf) (k : Int) (xs : List (Int × Int))
    (hb : ∀ i, i < xs.length → rd b i = some (c.enc (xs.getD i (0, 0)))) (n i : Nat) (hn : i + n = xs.length) :
    findIdxV c lt b k i n = some (i + findIdx lt k (xs.drop i)) := by
  induction n generalizing i with
  | zero =>
    have : xs.drop i = [] := List.drop_eq_nil_of_le (by omega)
    simp [findIdxV, this, findIdx]
  | succ n ih =>
    have hi : i < xs.length := by omega
    have hd : xs.drop i = xs[i] :: xs.drop (i + 1) := List.drop_eq_getElem_cons hi
    have hg : xs.getD i (0, 0) = xs[i] := by simp [List.getD_eq_getElem?_getD, List.getElem?_eq_getElem hi]
    simp only [findIdxV, hb i hi, hd, findIdx, hc _, hg]
    cases hs : same lt xs[i].1 k
    · simp only [Bool.false_eq_true, if_false]
      rw [ih (i + 1) (by omega)]
      congr 1
      omega
    · simp

theorem mapUpperV_eq_bisect (c : Coding) (hc : c.ok) (lt : Int → Int → Bool) (b : Buf) (k : Int) (xs : List (Int × Int))
    (hb : ∀ i, i < xs.length → rd b i = some (c.enc (xs.getD i (0, 0)))) (fuel first len : Nat)
    (hr : first + len ≤ xs.length) :
    mapUpperV c lt b k fuel first len = some (bisect (fun i => lt k (xs.getD i (0, 0)).1) fuel first len) := by
  induction fuel generalizing first len with
  | zero => rfl
  | succ m ih =>
    unfold mapUpperV bisect
    by_cases h0 : len = 0
    · simp [h0]
    · simp only [h0, if_false, hb (first + len / 2) (by omega), hc _]
      split
      · exact ih first (len / 2) (by omega)
      · exact ih (first + len / 2 + 1) (len - len / 2 - 1) (by omega)

theorem countV_ok (c : Coding) (hc : c.ok) (lt : Int → Int → Bool) (b : Buf) (k : Int) (xs : List (Int × Int))
    (hb : ∀ i, i < xs.length → rd b i = some (c.enc (xs.getD i (0, 0)))) (n i acc : Nat) (hn : i + n = xs.length) :
    countV c lt b k i n acc = some (acc + (xs.drop i).countP (fun p => same lt p.1 k)) := by
  induction n generalizing i acc with
  | zero =>
    have : xs.drop i = [] := List.drop_eq_nil_of_le (by omega)
    simp [countV, this]
  | succ n ih =>
    have hi : i < xs.length := by omega
    have hd : xs.drop i = xs[i] :: xs.drop (i + 1) := List.drop_eq_getElem_cons hi
    have hg : xs.getD i (0, 0) = xs[i] := by simp [List.getD_eq_getElem?_getD, List.getElem?_eq_getElem hi]
    simp only [countV, hb i hi, hd, hc _, hg, List.countP_cons]
    rw [ih (i + 1) _ (by omega)]
    congr 1
    split <;> omega

section
variable (c : Coding) (hc : c.ok) (lt : Int → Int → Bool) {m : VMap} {xs : List (Int × Int)}

theorem VMap.size_eq (hr : Rep m.v (xs.map c.enc)) : m.v.size = xs.length := by
  simpa using hr.size_eq

include hc

theorem VMap.findPos_ok (hr : Rep m.v (xs.map c.enc)) (k : Int) : m.findPos c lt k = some (findIdx lt k xs) := by
  rcases hr.cases with ⟨h1, h2⟩ | ⟨cap, h1, hcap⟩
  · have : xs = [] := by simpa using h2
    subst this
    simp [VMap.findPos, h1, Vec.empty, findIdx]
  · simp only [List.length_map] at hcap
    simp only [VMap.findPos, h1, vecOf, List.length_map]
    rw [findIdxV_ok c hc lt _ k xs (fun i hi => rd_vecOf_enc c hcap hi) _ 0 (by omega)]
    simp

theorem VMap.upos_ok (hr : Rep m.v (xs.map c.enc)) (k : Int) : m.upos c lt k = some ((⟨xs⟩ : FMap).upos lt k) := by
  rcases hr.cases with ⟨h1, h2⟩ | ⟨cap, h1, hcap⟩
  · have : xs = [] := by simpa using h2
    subst this
    simp [VMap.upos, h1, Vec.empty, FMap.upos, mapUpper]
  · simp only [List.length_map] at hcap
    simp only [VMap.upos, h1, vecOf, List.length_map, FMap.upos]
    rw [mapUpperV_eq_bisect c hc lt _ k xs (fun i hi => rd_vecOf_enc c hcap hi) _ _ _ (by omega),
      mapUpper_eq_bisect lt xs k _ _ _ (by omega)]

theorem VMap.entryAt_ok (hr : Rep m.v (xs.map c.enc)) {i : Nat} {p : Int × Int} (hp : xs[i]? = some p) :
    m.entryAt c i = some p := by
  obtain ⟨hi, hp⟩ := List.getElem?_eq_some_iff.mp hp
  rcases hr.cases with ⟨_, h2⟩ | ⟨cap, h1, hcap⟩
  · have : xs = [] := by simpa using h2
    subst this
    simp at hi
  · simp only [List.length_map] at hcap
    simp only [VMap.entryAt, h1, vecOf, List.length_map, hi, if_true, rd_vecOf_enc c hcap hi, hc _]
    simp [List.getD_eq_getElem?_getD, List.getElem?_eq_getElem hi, hp]

theorem VMap.count_ok (hr : Rep m.v (xs.map c.enc)) (k : Int) (l : Ledger) :
    VMap.step c lt m l (.count k) = some (m, l, .nat ((⟨xs⟩ : FMap).count lt k)) := by
  rcases hr.cases with ⟨h1, h2⟩ | ⟨cap, h1, hcap⟩
  · have : xs = [] := by simpa using h2
    subst this
    simp [VMap.step, h1, Vec.empty, FMap.count]
  · simp only [List.length_map] at hcap
    simp only [VMap.step, h1, vecOf, List.length_map, FMap.count]
    rw [countV_ok c hc lt _ k xs (fun i hi => rd_vecOf_enc c hcap hi) _ 0 0 (by omega)]
    simp

omit hc in
theorem map_listInsert (xs : List (Int × Int)) (p : Nat) (e : Int × Int) :
    insertAt (xs.map c.enc) p [c.enc e] = (listInsert xs p e).map c.enc := by
  simp [insertAt, listInsert, List.map_take, List.map_drop]

theorem VMap.insertNew_ok (hr : Rep m.v (xs.map c.enc)) (k v : Int) (l : Ledger) :
    ∃ w l', m.insertNew c lt k v l = some (⟨w⟩, l', (⟨xs⟩ : FMap).upos lt k) ∧
      Good m.v (xs.map c.enc) l w ((listInsert xs ((⟨xs⟩ : FMap).upos lt k) (k, v)).map c.enc) l' := by
  have hle : (⟨xs⟩ : FMap).upos lt k ≤ (xs.map c.enc).length := by
    simpa [FMap.upos] using mapUpper_le lt xs k
  obtain ⟨w, l', h1, g⟩ := emplace_good (a := .val (c.enc (k, v))) hr hle rfl l
  refine ⟨w, l', ?_, by simpa [map_listInsert] using g⟩
  simp only [VMap.insertNew, VMap.upos_ok c hc lt hr k, h1]

omit hc in
theorem listInsert_getElem? {α : Type} (xs : List α) {p : Nat} (hp : p ≤ xs.length) (x : α) :
    (listInsert xs p x)[p]? = some x := by
  simp only [listInsert]
  rw [List.getElem?_append_right (by simp; omega)]
  simp [Nat.min_eq_left hp]

omit hc in
theorem listInsert_set {α : Type} (xs : List α) {p : Nat} (hp : p ≤ xs.length) (x y : α) :
    (listInsert xs p x).set p y = listInsert xs p y := by
  simp only [listInsert]
  rw [List.set_append_right _ _ (by simp; omega)]
  simp [Nat.min_eq_left hp]

omit hc in
theorem FMap.upos_le (xs : List (Int × Int)) (k : Int) : (⟨xs⟩ : FMap).upos lt k ≤ xs.length := by
  simpa [FMap.upos] using mapUpper_le lt xs k

/-- `find_if` hits: nothing is inserted -/
theorem VMap.findOrInsert_present (hr : Rep m.v (xs.map c.enc)) (k v : Int) (l : Ledger) {p : Int × Int}
    (hf : xs[findIdx lt k xs]? = some p) :
    m.findOrInsert c lt k v l = some (m, l, findIdx lt k xs, false) := by
  have := findIdx_lt_of_some hf
  simp only [VMap.findOrInsert, VMap.findPos_ok c hc lt hr k, VMap.size_eq c hr]
  rw [if_neg (by omega)]

/-- `find_if` answers end(): the entry goes in at `ordered_pos(key)` -/
theorem VMap.findOrInsert_absent (hr : Rep m.v (xs.map c.enc)) (k v : Int) (l : Ledger)
    (hf : xs[findIdx lt k xs]? = none) :
    ∃ w l', m.findOrInsert c lt k v l = some (⟨w⟩, l', (⟨xs⟩ : FMap).upos lt k, true) ∧
      Good m.v (xs.map c.enc) l w ((listInsert xs ((⟨xs⟩ : FMap).upos lt k) (k, v)).map c.enc) l' := by
  have := findIdx_eq_of_none hf
  obtain ⟨w, l', h1, g⟩ := VMap.insertNew_ok c hc lt hr k v l
  refine ⟨w, l', ?_, g⟩
  simp only [VMap.findOrInsert, VMap.findPos_ok c hc lt hr k, VMap.size_eq c hr, this, if_true, h1]

omit hc in
theorem cell_set_enc (ys : List (Int × Int)) (i : Nat) (e : Int × Int) (hi : i < ys.length) (j : Nat) :
    cell ((ys.set i e).map c.enc) j = if j = i then .live (c.enc e) else cell (ys.map c.enc) j := by
  simp only [cell, List.length_map, List.length_set, List.getD_eq_getElem?_getD, List.getElem?_map, List.getElem?_set]
  by_cases hj : j = i
  · subst hj; simp [hi]
  · have : ¬ i = j := fun h => hj h.symm
    simp [hj, this]

/-- `it->second = v` on a constructed entry -/
theorem VMap.poke_ok {ys : List (Int × Int)} (hr : Rep m.v (ys.map c.enc)) {i : Nat} {p : Int × Int}
    (hp : ys[i]? = some p) (v : Int) :
    ∃ m', m.poke c i v = some m' ∧ Rep m'.v ((ys.set i (p.1, v)).map c.enc) ∧ held m'.v = held m.v := by
  obtain ⟨hi, hp⟩ := List.getElem?_eq_some_iff.mp hp
  rcases hr.cases with ⟨_, h2⟩ | ⟨cap, h1, hcap⟩
  · have : ys = [] := by simpa using h2
    subst this
    simp at hi
  · simp only [List.length_map] at hcap
    have hcell : cell (ys.map c.enc) i = .live (c.enc p) := by
      rw [cell_live (by simpa using hi), getD_map_enc c ys hi]
      simp [List.getD_eq_getElem?_getD, List.getElem?_eq_getElem hi, hp]
    have hget : (⟨cap, cell (ys.map c.enc)⟩ : Buf).get i = some (.live (c.enc p)) := by
      simp only [Buf.get, show i < cap by omega, if_true, hcell]
    simp only [VMap.poke, h1, vecOf, List.length_map, hi, if_true, pokeSecond, hget, hc _]
    refine ⟨_, rfl, ?_, by simp [held]⟩
    refine Rep.of_buf' (by simp) (by simpa using hcap) rfl ?_
    intro j
    simp only [Buf.put, cell_set_enc c ys i (p.1, v) hi j]

end

theorem Good.repoint {v v1 v2 : Vec} {xs ys zs : List Val} {l l1 : Ledger} (g : Good v xs l v1 ys l1)
    (hr : Rep v2 zs) (hl : zs.length = ys.length) (hh : held v2 = held v1) : Good v xs l v2 zs l1 :=
  ⟨hr, by have := g.net; omega, by have := g.blk; omega⟩

theorem VMap.ctorLoop_ok (c : Coding) (hc : c.ok) (lt : Int → Int → Bool) (es : List (Int × Int)) {m : VMap}
    {xs : List (Int × Int)} (hr : Rep m.v (xs.map c.enc)) (l : Ledger) :
    ∃ m' l', VMap.ctorLoop c lt es m l = some (m', l') ∧
      Good m.v (xs.map c.enc) l m'.v ((FMap.ofList lt es ⟨xs⟩).st.map c.enc) l' := by
  induction es generalizing m xs l with
  | nil => exact ⟨m, l, rfl, Good.refl hr l⟩
  | cons e es ih =>
    obtain ⟨k, v⟩ := e
    cases hf : xs[findIdx lt k xs]? with
    | some p =>
      have := findIdx_lt_of_some hf
      simp only [VMap.ctorLoop, VMap.findPos_ok c hc lt hr k, VMap.size_eq c hr, FMap.ofList, FMap.find,
        FMap.findEntry, hf]
      rw [if_neg (by omega)]
      simpa using ih hr l
    | none =>
      have := findIdx_eq_of_none hf
      obtain ⟨w, l1, h1, g1⟩ := VMap.insertNew_ok c hc lt hr k v l
      obtain ⟨m2, l2, h2, g2⟩ := ih (m := ⟨w⟩) g1.rep l1
      simp only [VMap.ctorLoop, VMap.findPos_ok c hc lt hr k, VMap.size_eq c hr, FMap.ofList, FMap.find,
        FMap.findEntry, this, if_true, h1]
      exact ⟨m2, l2, by simpa using h2, by simpa using g1.trans g2⟩

theorem vmap_step_simulates (c : Coding) (hc : c.ok) (lt : Int → Int → Bool) {m : VMap} {xs : List (Int × Int)}
    (hr : Rep m.v (xs.map c.enc)) (l : Ledger) (op : MOp) :
    ∃ m' l', VMap.step c lt m l op = some (m', l', ((⟨xs⟩ : FMap).step lt op).2) ∧
      Good m.v (xs.map c.enc) l m'.v (((⟨xs⟩ : FMap).step lt op).1.st.map c.enc) l' := by
  cases op with
  | index k =>
    simp only [VMap.step, FMap.step, FMap.index, FMap.find, FMap.findEntry]
    cases hf : xs[findIdx lt k xs]? with
    | some p =>
      simp only [VMap.findOrInsert_present c hc lt hr k 0 l hf, VMap.entryAt_ok c hc hr hf]
      exact ⟨m, l, rfl, Good.refl hr l⟩
    | none =>
      obtain ⟨w, l', h1, g⟩ := VMap.findOrInsert_absent c hc lt hr k 0 l hf
      have he := VMap.entryAt_ok c hc (m := ⟨w⟩) g.rep (listInsert_getElem? xs (FMap.upos_le lt xs k) (k, 0))
      simp only [h1, he]
      exact ⟨⟨w⟩, l', rfl, g⟩
  | assign k v =>
    simp only [VMap.step, FMap.step, FMap.assign]
    cases hf : xs[findIdx lt k xs]? with
    | some p =>
      obtain ⟨m', h1, hr', hh⟩ := VMap.poke_ok c hc hr hf v
      simp only [VMap.findOrInsert_present c hc lt hr k 0 l hf, h1]
      exact ⟨m', l, rfl, (Good.refl hr l).repoint hr' (by simp) hh⟩
    | none =>
      obtain ⟨w, l', h1, g⟩ := VMap.findOrInsert_absent c hc lt hr k 0 l hf
      obtain ⟨m', h2, hr', hh⟩ := VMap.poke_ok c hc (m := ⟨w⟩) g.rep
        (listInsert_getElem? xs (FMap.upos_le lt xs k) (k, 0)) v
      simp only [h1, h2]
      rw [listInsert_set xs (FMap.upos_le lt xs k)] at hr'
      exact ⟨m', l', rfl, g.repoint hr' (by simp [listInsert]) hh⟩
  | insert k v =>
    simp only [VMap.step, FMap.step, FMap.insert, FMap.findEntry]
    cases hf : xs[findIdx lt k xs]? with
    | some p =>
      simp only [VMap.findOrInsert_present c hc lt hr k v l hf, VMap.entryAt_ok c hc hr hf]
      exact ⟨m, l, rfl, Good.refl hr l⟩
    | none =>
      obtain ⟨w, l', h1, g⟩ := VMap.findOrInsert_absent c hc lt hr k v l hf
      have he := VMap.entryAt_ok c hc (m := ⟨w⟩) g.rep (listInsert_getElem? xs (FMap.upos_le lt xs k) (k, v))
      simp only [h1, he]
      exact ⟨⟨w⟩, l', rfl, g⟩
  | emplace k v =>
    simp only [VMap.step, FMap.step, FMap.emplace, FMap.find, FMap.findEntry]
    cases hf : xs[findIdx lt k xs]? with
    | some p =>
      simp only [VMap.findOrInsert_present c hc lt hr k v l hf, VMap.entryAt_ok c hc hr hf]
      exact ⟨m, l, rfl, Good.refl hr l⟩
    | none =>
      obtain ⟨w, l', h1, g⟩ := VMap.findOrInsert_absent c hc lt hr k v l hf
      have he := VMap.entryAt_ok c hc (m := ⟨w⟩) g.rep (listInsert_getElem? xs (FMap.upos_le lt xs k) (k, v))
      simp only [h1, he]
      exact ⟨⟨w⟩, l', rfl, g⟩
  | find k =>
    refine ⟨m, l, ?_, Good.refl hr l⟩
    simp only [VMap.step, FMap.step, FMap.find, FMap.findEntry, VMap.findPos_ok c hc lt hr k, VMap.size_eq c hr]
    cases hf : xs[findIdx lt k xs]? with
    | some p =>
      have := findIdx_lt_of_some hf
      rw [if_neg (by omega)]
      simp [VMap.entryAt_ok c hc hr hf]
    | none => simp [findIdx_eq_of_none hf]
  | count k => exact ⟨m, l, VMap.count_ok c hc lt hr k l, Good.refl hr l⟩
  | «at» k =>
    refine ⟨m, l, ?_, Good.refl hr l⟩
    simp only [VMap.step, FMap.step, FMap.atKey, FMap.find, FMap.findEntry, VMap.findPos_ok c hc lt hr k,
      VMap.size_eq c hr]
    cases hf : xs[findIdx lt k xs]? with
    | some p =>
      have := findIdx_lt_of_some hf
      rw [if_neg (by omega)]
      simp [VMap.entryAt_ok c hc hr hf]
    | none => simp [findIdx_eq_of_none hf]
  | size => exact ⟨m, l, by simp [VMap.step, FMap.step, FMap.size, VMap.size_eq c hr], Good.refl hr l⟩
  | clear =>
    obtain ⟨v', l', h1, g⟩ := clear_good hr l
    exact ⟨⟨v'⟩, l', by simp [VMap.step, FMap.step, h1], by simpa [FMap.step] using g⟩
  | init es =>
    obtain ⟨t, l1, h1, g1⟩ := VMap.ctorLoop_ok c hc lt es (m := ⟨Vec.empty⟩) (xs := []) Rep.nil l
    obtain ⟨l2, h2, g2⟩ := invalidate_good hr l1
    refine ⟨⟨t.v⟩, l2, ?_, ?_⟩
    · simp only [VMap.step, h1, moveAssign, h2, FMap.step]
      simp [invalidate, Vec.empty]
    · simp only [FMap.step]
      refine ⟨g1.rep, ?_, ?_⟩
      · have := g1.net; have := g2.net; simp at *; omega
      · have := g1.blk; have := g2.blk; simp at *; omega
  | iter =>
    refine ⟨m, l, ?_, Good.refl hr l⟩
    simp only [VMap.step, FMap.step, contents_ok hr, List.map_map]
    have : c.dec ∘ c.enc = id := funext hc
    simp [this]
  | cindex k =>
    refine ⟨m, l, ?_, Good.refl hr l⟩
    simp only [VMap.step, FMap.step, FMap.cindex, FMap.find, FMap.findEntry, VMap.findPos_ok c hc lt hr k,
      VMap.size_eq c hr]
    cases hf : xs[findIdx lt k xs]? with
    | some p =>
      have := findIdx_lt_of_some hf
      rw [if_neg (by omega)]
      simp [VMap.entryAt_ok c hc hr hf]
    | none => simp [findIdx_eq_of_none hf]

example (c : Coding) (hc : c.ok) (lt : Int → Int → Bool) (l : Ledger) (op : MOp) :
    ∃ m' l', VMap.step c lt {} l op = some (m', l', ((⟨[]⟩ : FMap).step lt op).2) ∧
      Good ({} : VMap).v [] l m'.v (((⟨[]⟩ : FMap).step lt op).1.st.map c.enc) l' :=
  vmap_step_simulates c hc lt (m := {}) (xs := []) Rep.nil l op

theorem vmap_run_simulates (c : Coding) (hc : c.ok) (lt : Int → Int → Bool) {m : VMap} {xs : List (Int × Int)}
    (hr : Rep m.v (xs.map c.enc)) (l : Ledger) (ops : List MOp) :
    ∃ m' l', VMap.run c lt m l ops = some (m', l', ((⟨xs⟩ : FMap).run lt ops).2) ∧
      Good m.v (xs.map c.enc) l m'.v (((⟨xs⟩ : FMap).run lt ops).1.st.map c.enc) l' := by
  induction ops generalizing m xs l with
  | nil => exact ⟨m, l, rfl, Good.refl hr l⟩
  | cons op ops ih =>
    obtain ⟨m1, l1, h1, g1⟩ := vmap_step_simulates c hc lt hr l op
    obtain ⟨m2, l2, h2, g2⟩ := ih g1.rep l1
    refine ⟨m2, l2, ?_, g1.trans g2⟩
    simp only [VMap.run, h1, h2, FMap.run]

example (c : Coding) (hc : c.ok) (lt : Int → Int → Bool) (l : Ledger) (ops : List MOp) :
    ∃ m' l', VMap.run c lt {} l ops = some (m', l', ((⟨[]⟩ : FMap).run lt ops).2) ∧
      Good ({} : VMap).v [] l m'.v (((⟨[]⟩ : FMap).run lt ops).1.st.map c.enc) l' :=
  vmap_run_simulates c hc lt (m := {}) (xs := []) Rep.nil l ops

/-! ### concrete histories (kernel-evaluated) -/

/-- what a run answers, and the ledger it leaves -/
def VSet.answers (r : Option (VSet × Ledger × List SRet)) : Option (Ledger × List SRet) := r.map fun x => (x.2.1, x.2.2)
def VMap.answers (r : Option (VMap × Ledger × List MRet)) : Option (Ledger × List MRet) := r.map fun x => (x.2.1, x.2.2)

example : (VSet.answers (VSet.run ltInt {} {} [.insert 5, .insert 2, .insert 5, .iter])).map (·.2) =
    some [.unit, .unit, .unit, .keys [2, 5]] := by decide

example : (VSet.answers (VSet.run ltInt {} {} [.insert 5, .insert 2, .insert 9, .insert 2, .count 9, .count 4, .size,
    .iter, .clear, .size, .insert 1, .iter])).map (·.2) =
    some [.unit, .unit, .unit, .unit, .nat 1, .nat 0, .nat 3, .keys [2, 5, 9], .unit, .nat 0, .unit, .keys [1]] := by decide

/-- the same history on the list model -/
example : (FSet.run ltInt {} [.insert 5, .insert 2, .insert 5, .iter]).2 = [.unit, .unit, .unit, .keys [2, 5]] := by decide

/-- a concrete coding for tests (NOT injective on all of `Int × Int`; `dec (enc (k, v)) = (k, v)` for `0 ≤ v < 1000`) -/
def testCoding : Coding := ⟨fun p => p.1 * 1000 + p.2, fun x => (x / 1000, x % 1000)⟩

example : (VMap.answers (VMap.run testCoding ltInt {} {} [.assign 5 50, .assign 2 20, .assign 5 51, .index 7, .insert 2 99,
    .emplace 3 30, .find 5, .find 4, .count 2, .at 9, .size, .cindex 8, .iter])).map (·.2) =
    some [.unit, .unit, .unit, .val 0, .kv 2 20, .flag true 30, .opt (some 51), .opt none, .nat 1, .throw, .nat 4,
      .val 0, .entries [(2, 20), (3, 30), (5, 51), (7, 0)]] := by decide

example : (VMap.answers (VMap.run testCoding ltInt {} {} [.assign 5 50, .init [(3, 1), (1, 2), (3, 9)], .iter, .clear, .size])).map (·.2) =
    some [.unit, .unit, .entries [(1, 2), (3, 1)], .unit, .nat 0] := by decide

/-- the same history on the list model -/
example : (FMap.run ltInt {} [.assign 5 50, .init [(3, 1), (1, 2), (3, 9)], .iter, .clear, .size]).2 =
    [.unit, .unit, .entries [(1, 2), (3, 1)], .unit, .nat 0] := by decide

/-- the ledger after `m[5] = 50; m = flat_map{(3,1),(1,2),(3,9)}`: 2 elements alive, 1 block held -/
example : (VMap.answers (VMap.run testCoding ltInt {} {} [.assign 5 50, .init [(3, 1), (1, 2), (3, 9)]])).map
    (fun x => (x.1.net, x.1.blocks)) = some (2, 1) := by decide

/-! ### the hypothesis `c.ok` is satisfiable, and faults are detected (the theorems are not vacuous) -/

private def tri : Nat → Nat
  | 0 => 0
  | n + 1 => tri n + n + 1

private theorem tri_le {s t : Nat} (h : s ≤ t) : tri s + s ≤ tri t + t := by
  induction t with
  | zero => have : s = 0 := by omega
            subst this; exact Nat.le_refl _
  | succ t ih =>
    by_cases hs : s = t + 1
    · subst hs; exact Nat.le_refl _
    · have := ih (by omega); simp only [tri]; omega

private theorem tri_lt {s t : Nat} (h : s < t) : tri s + s < tri t := by
  cases t with
  | zero => omega
  | succ t => have := tri_le (show s ≤ t by omega); simp only [tri]; omega

private theorem pair_inj {a b a' b' : Nat} (h : tri (a + b) + b = tri (a' + b') + b') : a = a' ∧ b = b' := by
  rcases Nat.lt_trichotomy (a + b) (a' + b') with h1 | h1 | h1
  · have := tri_lt h1; omega
  · rw [h1] at h; omega
  · have := tri_lt h1; omega

private def zig (z : Int) : Nat := if 0 ≤ z then 2 * z.toNat else 2 * (-z - 1).toNat + 1

private theorem zig_inj {a b : Int} (h : zig a = zig b) : a = b := by
  unfold zig at h; split at h <;> split at h <;> omega

/-- codings with `dec ∘ enc = id` exist (Cantor pairing of the zig-zag codes; `dec` by choice) -/
theorem Coding.exists_ok : ∃ c : Coding, c.ok := by
  let f : Int × Int → Int := fun p => ((tri (zig p.1 + zig p.2) + zig p.2 : Nat) : Int)
  have finj : ∀ p q, f p = f q → p = q := by
    intro p q h
    have h' : tri (zig p.1 + zig p.2) + zig p.2 = tri (zig q.1 + zig q.2) + zig q.2 := by
      simp only [f] at h; omega
    obtain ⟨h1, h2⟩ := pair_inj h'
    exact Prod.ext (zig_inj h1) (zig_inj h2)
  classical
  refine ⟨⟨f, fun x => if h : ∃ p, f p = x then Classical.choose h else (0, 0)⟩, ?_⟩
  intro p
  have hex : ∃ q, f q = f p := ⟨p, rfl⟩
  show (if h : ∃ q, f q = f p then Classical.choose h else (0, 0)) = p
  rw [dif_pos hex]
  exact finj _ _ (Classical.choose_spec hex)

/-- a storage whose size field lies (`m_size = 1`, no block): the lookup faults -/
example : (VSet.step ltInt ⟨⟨none, 0, 1⟩⟩ {} (.count 3)).isNone = true := by decide
/-- a block whose slot 1 holds no object although `m_size = 3`: the bisection reads it and faults -/
example : (VSet.step ltInt ⟨⟨some ((Buf.fresh 4).put 0 (.live 1) |>.put 2 (.live 5)), 4, 3⟩⟩ {} (.insert 3)).isNone = true := by
  decide
/-- a moved-from pair object in the storage of a map: `find_if` reads it and faults -/
example : (VMap.step testCoding ltInt ⟨⟨some ((Buf.fresh 2).put 0 .moved), 2, 1⟩⟩ {} (.find 3)).isNone = true := by decide

end Igris.C02
