import IgrisModel.C02.Model
namespace Igris.C02
end Igris.C02
