import IgrisModel.C02.Model
/-!
  C02 helper lemmas: exact results of the slot-event loops on buffers described
  pointwise, and the representation relation `Rep v xs`.
-/
namespace Igris.C02

/-! ### ledger bookkeeping -/
namespace Ledger
@[simp] theorem addCtor_addCtor (l : Ledger) (a b : Nat) : (l.addCtor a).addCtor b = l.addCtor (a + b) := by
  simp [addCtor, Nat.add_assoc]
@[simp] theorem addMctor_addMctor (l : Ledger) (a b : Nat) : (l.addMctor a).addMctor b = l.addMctor (a + b) := by
  simp [addMctor, Nat.add_assoc]
@[simp] theorem addDtor_addDtor (l : Ledger) (a b : Nat) : (l.addDtor a).addDtor b = l.addDtor (a + b) := by
  simp [addDtor, Nat.add_assoc]
@[simp] theorem addAsg_addAsg (l : Ledger) (a b : Nat) : (l.addAsg a).addAsg b = l.addAsg (a + b) := by
  simp [addAsg, Nat.add_assoc]
@[simp] theorem addMasg_addMasg (l : Ledger) (a b : Nat) : (l.addMasg a).addMasg b = l.addMasg (a + b) := by
  simp [addMasg, Nat.add_assoc]
@[simp] theorem addCtor_zero (l : Ledger) : l.addCtor 0 = l := by simp [addCtor]
@[simp] theorem addMctor_zero (l : Ledger) : l.addMctor 0 = l := by simp [addMctor]
@[simp] theorem addDtor_zero (l : Ledger) : l.addDtor 0 = l := by simp [addDtor]
@[simp] theorem addAsg_zero (l : Ledger) : l.addAsg 0 = l := by simp [addAsg]
@[simp] theorem addMasg_zero (l : Ledger) : l.addMasg 0 = l := by simp [addMasg]

/-- objects alive according to the ledger: constructed − destroyed (as an Int) -/
def net (l : Ledger) : Int := (l.ctor : Int) + l.mctor - l.dtor
/-- blocks held according to the ledger -/
def blocks (l : Ledger) : Int := (l.alloc : Int) - l.dealloc
@[simp] theorem net_addCtor (l : Ledger) (n : Nat) : (l.addCtor n).net = l.net + n := by simp [net, addCtor]; omega
@[simp] theorem net_addMctor (l : Ledger) (n : Nat) : (l.addMctor n).net = l.net + n := by simp [net, addMctor]; omega
@[simp] theorem net_addDtor (l : Ledger) (n : Nat) : (l.addDtor n).net = l.net - n := by simp [net, addDtor]; omega
@[simp] theorem net_addAsg (l : Ledger) (n : Nat) : (l.addAsg n).net = l.net := by simp [net, addAsg]
@[simp] theorem net_addMasg (l : Ledger) (n : Nat) : (l.addMasg n).net = l.net := by simp [net, addMasg]
@[simp] theorem net_addAlloc (l : Ledger) (n : Nat) : (l.addAlloc n).net = l.net := by simp [net, addAlloc]
@[simp] theorem net_addDealloc (l : Ledger) (n : Nat) : (l.addDealloc n).net = l.net := by simp [net, addDealloc]
@[simp] theorem blocks_addCtor (l : Ledger) (n : Nat) : (l.addCtor n).blocks = l.blocks := by simp [blocks, addCtor]
@[simp] theorem blocks_addMctor (l : Ledger) (n : Nat) : (l.addMctor n).blocks = l.blocks := by simp [blocks, addMctor]
@[simp] theorem blocks_addDtor (l : Ledger) (n : Nat) : (l.addDtor n).blocks = l.blocks := by simp [blocks, addDtor]
@[simp] theorem blocks_addAsg (l : Ledger) (n : Nat) : (l.addAsg n).blocks = l.blocks := by simp [blocks, addAsg]
@[simp] theorem blocks_addMasg (l : Ledger) (n : Nat) : (l.addMasg n).blocks = l.blocks := by simp [blocks, addMasg]
@[simp] theorem blocks_addAlloc (l : Ledger) (n : Nat) : (l.addAlloc n).blocks = l.blocks + n := by simp [blocks, addAlloc]; omega
@[simp] theorem blocks_addDealloc (l : Ledger) (n : Nat) : (l.addDealloc n).blocks = l.blocks - n := by simp [blocks, addDealloc]; omega
end Ledger

/-! ### slot events on known slots -/

theorem construct_raw {b : Buf} {i : Nat} (v : Val) (h : i < b.n) (hs : b.s i = .raw) :
    construct b i v = some (b.put i (.live v)) := by
  simp [construct, Buf.get, h, hs]

theorem destroy_obj {b : Buf} {i : Nat} (h : i < b.n) (hs : b.s i ≠ .raw) :
    destroy b i = some (b.put i .raw) := by
  unfold destroy
  simp only [Buf.get, h, if_true]
  cases hh : b.s i <;> simp_all

theorem assign_obj {b : Buf} {i : Nat} (v : Val) (h : i < b.n) (hs : b.s i ≠ .raw) :
    assign b i v = some (b.put i (.live v)) := by
  unfold assign
  simp only [Buf.get, h, if_true]
  cases hh : b.s i <;> simp_all

theorem rd_live {b : Buf} {i : Nat} {v : Val} (h : i < b.n) (hs : b.s i = .live v) : rd b i = some v := by
  simp [rd, Buf.get, h, hs]

theorem moveOut_live {b : Buf} {i : Nat} {v : Val} (h : i < b.n) (hs : b.s i = .live v) :
    moveOut b i = some (v, b.put i .moved) := by
  simp [moveOut, Buf.get, h, hs]

theorem Buf.ext' {a b : Buf} (hn : a.n = b.n) (hs : ∀ j, a.s j = b.s j) : a = b := by
  cases a; cases b; simp at hn hs ⊢; exact ⟨hn, funext hs⟩

/-! ### loops -/

theorem destroyRange_ok (b : Buf) (i n : Nat) (l : Ledger)
    (h : ∀ j, i ≤ j → j < i + n → j < b.n ∧ b.s j ≠ .raw) :
    destroyRange b i n l =
      some (⟨b.n, fun j => if i ≤ j ∧ j < i + n then .raw else b.s j⟩, l.addDtor n) := by
  induction n generalizing b i l with
  | zero =>
    simp only [destroyRange, Ledger.addDtor_zero]
    congr 2
    apply Buf.ext'
    · rfl
    · intro j; simp; omega
  | succ n ih =>
    have h0 := h i (Nat.le_refl _) (by omega)
    simp only [destroyRange, destroy_obj h0.1 h0.2]
    rw [ih]
    · simp only [Ledger.addDtor_addDtor, Nat.add_comm 1 n]
      congr 2
      apply Buf.ext'
      · rfl
      · intro j; simp only [Buf.put]
        grind
    · intro j h1 h2
      have := h j (by omega) (by omega)
      simp only [Buf.put]
      grind

theorem moveCtorLoop_ok (f : Nat → Val) (ob nb : Buf) (i n : Nat) (l : Ledger)
    (h : ∀ j, i ≤ j → j < i + n → j < ob.n ∧ ob.s j = .live (f j) ∧ j < nb.n ∧ nb.s j = .raw) :
    moveCtorLoop ob nb i n l =
      some (⟨ob.n, fun j => if i ≤ j ∧ j < i + n then .moved else ob.s j⟩,
            ⟨nb.n, fun j => if i ≤ j ∧ j < i + n then .live (f j) else nb.s j⟩, l.addMctor n) := by
  induction n generalizing ob nb i l with
  | zero =>
    simp only [moveCtorLoop, Ledger.addMctor_zero]
    congr 2
    · apply Buf.ext'
      · rfl
      · intro j; simp; omega
    · congr 1
      apply Buf.ext'
      · rfl
      · intro j; simp; omega
  | succ n ih =>
    have h0 := h i (Nat.le_refl _) (by omega)
    simp only [moveCtorLoop, moveOut_live h0.1 h0.2.1, construct_raw (f i) h0.2.2.1 h0.2.2.2]
    rw [ih]
    · simp only [Ledger.addMctor_addMctor, Nat.add_comm 1 n]
      congr 2
      · apply Buf.ext'
        · rfl
        · intro j; simp only [Buf.put]; grind
      · congr 1
        apply Buf.ext'
        · rfl
        · intro j; simp only [Buf.put]; grind
    · intro j h1 h2
      have := h j (by omega) (by omega)
      simp only [Buf.put]
      grind

theorem copyLoop_ok (f : Nat → Val) (o nb : Buf) (i n : Nat) (l : Ledger)
    (h : ∀ j, i ≤ j → j < i + n → j < o.n ∧ o.s j = .live (f j) ∧ j < nb.n ∧ nb.s j = .raw) :
    copyLoop (some o) nb i n l =
      some (⟨nb.n, fun j => if i ≤ j ∧ j < i + n then .live (f j) else nb.s j⟩, l.addCtor n) := by
  induction n generalizing nb i l with
  | zero =>
    simp only [copyLoop, Ledger.addCtor_zero]
    congr 2
    apply Buf.ext'
    · rfl
    · intro j; simp; omega
  | succ n ih =>
    have h0 := h i (Nat.le_refl _) (by omega)
    simp only [copyLoop, rd_live h0.1 h0.2.1, construct_raw (f i) h0.2.2.1 h0.2.2.2]
    rw [ih]
    · simp only [Ledger.addCtor_addCtor, Nat.add_comm 1 n]
      congr 2
      apply Buf.ext'
      · rfl
      · intro j; simp only [Buf.put]; grind
    · intro j h1 h2
      have := h j (by omega) (by omega)
      simp only [Buf.put]
      grind

theorem copyLoop_zero (ob : Option Buf) (nb : Buf) (i : Nat) (l : Ledger) :
    copyLoop ob nb i 0 l = some (nb, l) := by simp [copyLoop]

theorem defaultLoop_ok (b : Buf) (i n : Nat) (l : Ledger)
    (h : ∀ j, i ≤ j → j < i + n → j < b.n ∧ b.s j = .raw) :
    defaultLoop b i n l =
      some (⟨b.n, fun j => if i ≤ j ∧ j < i + n then .live 0 else b.s j⟩, l.addCtor n) := by
  induction n generalizing b i l with
  | zero =>
    simp only [defaultLoop, Ledger.addCtor_zero]
    congr 2
    apply Buf.ext'
    · rfl
    · intro j; simp; omega
  | succ n ih =>
    have h0 := h i (Nat.le_refl _) (by omega)
    simp only [defaultLoop, construct_raw 0 h0.1 h0.2]
    rw [ih]
    · simp only [Ledger.addCtor_addCtor, Nat.add_comm 1 n]
      congr 2
      apply Buf.ext'
      · rfl
      · intro j; simp only [Buf.put]; grind
    · intro j h1 h2
      have := h j (by omega) (by omega)
      simp only [Buf.put]
      grind

/-- the ledger part of `shiftUp` -/
def shiftLed (size pos k : Nat) : Nat → Ledger → Ledger
  | 0, l => l
  | cnt + 1, l => shiftLed size pos k cnt (if pos + cnt + k ≥ size then l.addMctor 1 else l.addMasg 1)

theorem shiftLed_net (size pos k cnt : Nat) (l : Ledger) :
    (shiftLed size pos k cnt l).net = l.net + ((cnt - min cnt (size - pos - k) : Nat) : Int) ∧
    (shiftLed size pos k cnt l).blocks = l.blocks := by
  induction cnt generalizing l with
  | zero => simp [shiftLed]
  | succ n ih =>
    simp only [shiftLed]
    split
    · rw [(ih _).1, (ih _).2]; simp; omega
    · rw [(ih _).1, (ih _).2]; simp; omega

theorem shiftUp_ok (f : Nat → Val) (b : Buf) (size pos k cnt : Nat) (l : Ledger)
    (hk : 0 < k) (hc : pos + cnt ≤ size) (hn : size + k ≤ b.n)
    (hlive : ∀ j, pos ≤ j → j < pos + cnt → b.s j = .live (f j))
    (hgap : ∀ j, pos + cnt ≤ j → j < pos + cnt + k → (j < size → b.s j = .moved) ∧ (size ≤ j → b.s j = .raw)) :
    shiftUp b size pos k cnt l =
      some (⟨b.n, fun j =>
              if pos ≤ j ∧ j < pos + k then (if j < size then .moved else .raw)
              else if pos + k ≤ j ∧ j < pos + cnt + k then .live (f (j - k))
              else b.s j⟩, shiftLed size pos k cnt l) := by
  induction cnt generalizing b l with
  | zero =>
    simp only [shiftUp, shiftLed]
    congr 2
    apply Buf.ext'
    · rfl
    · intro j
      have := hgap j
      simp only
      grind
  | succ n ih =>
    have hl := hlive (pos + n) (by omega) (by omega)
    have hg := hgap (pos + n + k) (by omega) (by omega)
    simp only [shiftUp, moveOut_live (show pos + n < b.n by omega) hl]
    by_cases hd : pos + n + k ≥ size
    · have hraw : (b.put (pos + n) .moved).s (pos + n + k) = .raw := by
        simp only [Buf.put]; rw [if_neg (by omega)]; exact hg.2 hd
      simp only [hd, if_true, construct_raw (f (pos + n)) (show pos + n + k < (b.put (pos + n) .moved).n by simp [Buf.put]; omega) hraw, shiftLed]
      rw [ih]
      · congr 2
        apply Buf.ext'
        · rfl
        · intro j; simp only [Buf.put]; grind
      · omega
      · simp [Buf.put]; omega
      · intro j h1 h2
        have := hlive j h1 (by omega)
        simp only [Buf.put]; grind
      · intro j h1 h2
        have := hgap j
        simp only [Buf.put]; grind
    · have hmv : (b.put (pos + n) .moved).s (pos + n + k) ≠ .raw := by
        simp only [Buf.put]; rw [if_neg (by omega)]; rw [hg.1 (by omega)]; simp
      simp only [hd, if_false, assign_obj (f (pos + n)) (show pos + n + k < (b.put (pos + n) .moved).n by simp [Buf.put]; omega) hmv, shiftLed]
      rw [ih]
      · congr 2
        apply Buf.ext'
        · rfl
        · intro j; simp only [Buf.put]; grind
      · omega
      · simp [Buf.put]; omega
      · intro j h1 h2
        have := hlive j h1 (by omega)
        simp only [Buf.put]; grind
      · intro j h1 h2
        have := hgap j
        simp only [Buf.put]; grind

/-- the ledger part of `fillLoop` -/
def fillLed (pos oldsize : Nat) (k : Nat) : Nat → Ledger → Ledger
  | 0, l => l
  | n + 1, l => fillLed pos oldsize (k + 1) n (if pos + k < oldsize then l.addAsg 1 else l.addCtor 1)

theorem fillLed_net (pos oldsize k n : Nat) (l : Ledger) :
    (fillLed pos oldsize k n l).net = l.net + ((n - min n (oldsize - pos - k) : Nat) : Int) ∧
    (fillLed pos oldsize k n l).blocks = l.blocks := by
  induction n generalizing l k with
  | zero => simp [fillLed]
  | succ n ih =>
    simp only [fillLed]
    split
    · rw [(ih _ _).1, (ih _ _).2]; simp; omega
    · rw [(ih _ _).1, (ih _ _).2]; simp; omega

theorem fillLoop_ok (g : Nat → Val) (b : Buf) (pos oldsize sz : Nat) (src : Src) (k n : Nat) (l : Ledger)
    (hkn : k + n ≤ sz)
    (hsrc : ∀ k', k ≤ k' → k' < k + n → ∀ b' : Buf, b'.n = b.n →
        (∀ j, ¬ (pos ≤ j ∧ j < pos + sz) → b'.s j = b.s j) → srcVal b' pos sz src k' = some (g k'))
    (hdst : ∀ j, pos + k ≤ j → j < pos + k + n →
        j < b.n ∧ (j < oldsize → b.s j ≠ .raw) ∧ (oldsize ≤ j → b.s j = .raw)) :
    fillLoop b pos oldsize sz src k n l =
      some (⟨b.n, fun j => if pos + k ≤ j ∧ j < pos + k + n then .live (g (j - pos)) else b.s j⟩,
            fillLed pos oldsize k n l) := by
  induction n generalizing b k l with
  | zero =>
    simp only [fillLoop, fillLed]
    congr 2
    apply Buf.ext'
    · rfl
    · intro j; simp; omega
  | succ n ih =>
    have hs := hsrc k (Nat.le_refl _) (by omega) b rfl (fun _ _ => rfl)
    have hd := hdst (pos + k) (Nat.le_refl _) (by omega)
    simp only [fillLoop, hs, fillLed]
    by_cases hlt : pos + k < oldsize
    · simp only [hlt, if_true, assign_obj (g k) hd.1 (hd.2.1 hlt)]
      rw [ih]
      · congr 2
        apply Buf.ext'
        · rfl
        · intro j; simp only [Buf.put]; grind
      · omega
      · intro k' h1 h2 b' hb' hag
        apply hsrc k' (by omega) (by omega) b' (by simpa [Buf.put] using hb')
        intro j hj
        rw [hag j hj]; simp only [Buf.put]; rw [if_neg]; omega
      · intro j h1 h2
        have := hdst j (by omega) (by omega)
        simp only [Buf.put]; grind
    · simp only [hlt, if_false, construct_raw (g k) hd.1 (hd.2.2 (by omega))]
      rw [ih]
      · congr 2
        apply Buf.ext'
        · rfl
        · intro j; simp only [Buf.put]; grind
      · omega
      · intro k' h1 h2 b' hb' hag
        apply hsrc k' (by omega) (by omega) b' (by simpa [Buf.put] using hb')
        intro j hj
        rw [hag j hj]; simp only [Buf.put]; rw [if_neg]; omega
      · intro j h1 h2
        have := hdst j (by omega) (by omega)
        simp only [Buf.put]; grind

theorem moveDown_ok (f : Nat → Val) (b : Buf) (src dst n : Nat) (l : Ledger)
    (hds : dst < src)
    (hsrc : ∀ j, src ≤ j → j < src + n → j < b.n ∧ b.s j = .live (f j))
    (hdst : ∀ j, dst ≤ j → j < dst + n → b.s j ≠ .raw) :
    moveDown b src dst n l =
      some (⟨b.n, fun j =>
              if dst ≤ j ∧ j < dst + n then .live (f (j + (src - dst)))
              else if src ≤ j ∧ j < src + n then .moved else b.s j⟩, l.addMasg n) := by
  induction n generalizing b src dst l with
  | zero =>
    simp only [moveDown, Ledger.addMasg_zero]
    congr 2
    apply Buf.ext'
    · rfl
    · intro j; simp only; grind
  | succ n ih =>
    have hs := hsrc src (Nat.le_refl _) (by omega)
    have hd := hdst dst (Nat.le_refl _) (by omega)
    have hd' : (b.put src .moved).s dst ≠ .raw := by
      simp only [Buf.put]; rw [if_neg (by omega)]; exact hd
    simp only [moveDown, moveOut_live hs.1 hs.2,
      assign_obj (f src) (show dst < (b.put src .moved).n by simp [Buf.put]; omega) hd']
    rw [ih]
    · simp only [Ledger.addMasg_addMasg, Nat.add_comm 1 n]
      congr 2
      apply Buf.ext'
      · rfl
      · intro j
        have e : src + 1 - (dst + 1) = src - dst := by omega
        simp only [Buf.put, e]
        have : dst + (src - dst) = src := by omega
        grind
    · omega
    · intro j h1 h2
      have := hsrc j (by omega) (by omega)
      simp only [Buf.put]; grind
    · intro j h1 h2
      by_cases hj : j = src
      · subst hj; simp only [Buf.put]; grind
      · have := hdst j (by omega) (by omega)
        simp only [Buf.put]; grind

/-! ### representation of a `List Val` by a vector -/

/-- slot `i` of a buffer that holds exactly the elements `xs` -/
def cell (xs : List Val) (i : Nat) : Slot := if i < xs.length then .live (xs.getD i 0) else .raw

def Rep (v : Vec) (xs : List Val) : Prop :=
  v.size = xs.length ∧
  match v.data with
  | none => v.cap = 0 ∧ xs = []
  | some b => b.n = v.cap ∧ xs.length ≤ v.cap ∧ ∀ i, b.s i = cell xs i

def held (v : Vec) : Int := if v.data.isSome then 1 else 0

structure Good (v : Vec) (xs : List Val) (l : Ledger) (v' : Vec) (xs' : List Val) (l' : Ledger) : Prop where
  rep : Rep v' xs'
  net : l'.net = l.net + xs'.length - xs.length
  blk : l'.blocks = l.blocks + held v' - held v

theorem cell_nil (i : Nat) : cell [] i = .raw := by simp [cell]

theorem cell_snoc (xs : List Val) (x : Val) (i : Nat) :
    cell (xs ++ [x]) i = if i = xs.length then .live x else cell xs i := by
  simp only [cell, List.length_append, List.length_singleton, List.getD_eq_getElem?_getD, List.getElem?_append]
  grind

theorem cell_dropLast (xs : List Val) (i : Nat) :
    cell xs.dropLast i = if i + 1 < xs.length then cell xs i else .raw := by
  simp only [cell, List.length_dropLast, List.getD_eq_getElem?_getD, List.getElem?_dropLast]
  grind

theorem cell_take (xs : List Val) (k i : Nat) :
    cell (xs.take k) i = if i < k then cell xs i else .raw := by
  simp only [cell, List.length_take, List.getD_eq_getElem?_getD, List.getElem?_take]
  grind

theorem cell_insertAt (xs ys : List Val) (p i : Nat) (hp : p ≤ xs.length) :
    cell (insertAt xs p ys) i =
      if i < p then cell xs i else if i < p + ys.length then .live (ys.getD (i - p) 0) else cell xs (i - ys.length) := by
  simp only [cell, insertAt, List.length_append, List.length_take, List.length_drop,
    List.getD_eq_getElem?_getD, List.getElem?_append, List.getElem?_take, List.getElem?_drop]
  grind

theorem cell_erase (xs : List Val) (a b i : Nat) (hab : a ≤ b) (hb : b ≤ xs.length) :
    cell (xs.take a ++ xs.drop b) i = if i < a then cell xs i else cell xs (i + (b - a)) := by
  simp only [cell, List.length_append, List.length_take, List.length_drop,
    List.getD_eq_getElem?_getD, List.getElem?_append, List.getElem?_take, List.getElem?_drop]
  grind

theorem cell_resize (xs : List Val) (n i : Nat) :
    cell (xs.take n ++ List.replicate (n - xs.length) 0) i =
      if i < n then (if i < xs.length then cell xs i else .live 0) else .raw := by
  simp only [cell, List.length_append, List.length_take, List.length_replicate,
    List.getD_eq_getElem?_getD, List.getElem?_append, List.getElem?_take, List.getElem?_replicate]
  grind

theorem cell_replicate (n i : Nat) : cell (List.replicate n 0) i = if i < n then .live 0 else .raw := by
  simp only [cell, List.length_replicate, List.getD_eq_getElem?_getD, List.getElem?_replicate]
  grind

theorem getD_sub (xs : List Val) (f t k : Nat) (hk : k < t - f) :
    ((xs.drop f).take (t - f)).getD k 0 = xs.getD (f + k) 0 := by
  simp only [List.getD_eq_getElem?_getD, List.getElem?_take, List.getElem?_drop, hk, if_true]

theorem cell_live {xs : List Val} {i : Nat} (h : i < xs.length) : cell xs i = .live (xs.getD i 0) := by
  simp [cell, h]
theorem cell_raw {xs : List Val} {i : Nat} (h : xs.length ≤ i) : cell xs i = .raw := by
  simp [cell]; omega
theorem cell_ne_raw {xs : List Val} {i : Nat} (h : i < xs.length) : cell xs i ≠ .raw := by
  simp [cell, h]

theorem deallocOk_of (b : Buf) (cap : Nat) (hn : b.n = cap) (h : ∀ j, j < b.n → b.s j = .raw) :
    deallocOk b cap = true := by
  simp only [deallocOk, Buf.allRaw, hn, beq_self_eq_true, Bool.true_and, List.all_eq_true, List.mem_range]
  intro j hj
  simp [h j (by omega)]

theorem Rep.nil : Rep Vec.empty [] := by simp [Rep, Vec.empty]

theorem changeBuffer_good {v : Vec} {xs : List Val} (h : Rep v xs) (sz : Nat) (hsz : xs.length ≤ sz) (l : Ledger) :
    ∃ l', changeBuffer v sz l = some (⟨some ⟨sz, cell xs⟩, sz, xs.length⟩, l') ∧
      l'.net = l.net ∧ l'.blocks = l.blocks + 1 - held v := by
  obtain ⟨hs, hr⟩ := h
  unfold changeBuffer
  cases hd : v.data with
  | none =>
    rw [hd] at hr
    obtain ⟨_, rfl⟩ := hr
    refine ⟨l.addAlloc 1, ?_, ?_, ?_⟩
    · simp only [Buf.fresh, hs, List.length_nil]
      congr 3
    · simp
    · simp [held, hd]
  | some b =>
    rw [hd] at hr
    obtain ⟨hn, hle, hc⟩ := hr
    simp only
    rw [moveCtorLoop_ok (fun j => xs.getD j 0)]
    · simp only
      rw [destroyRange_ok]
      · simp only
        rw [deallocOk_of]
        · refine ⟨(((l.addAlloc 1).addMctor v.size).addDtor v.size).addDealloc 1, ?_, ?_, ?_⟩
          · simp only [if_true, Buf.fresh, hs]
            congr 3
            apply congrArg
            apply Buf.ext'
            · rfl
            · intro j; simp only [cell]; grind
          · simp
          · simp [held, hd]
        · exact hn
        · intro j hj
          simp only
          have := hc j
          simp only [cell] at this
          grind
      · intro j h1 h2
        simp only
        grind
    · intro j h1 h2
      have := hc j
      simp only [cell, Buf.fresh] at this ⊢
      grind

/-- a vector with storage is determined by its capacity and its contents -/
def vecOf (c : Nat) (xs : List Val) : Vec := ⟨some ⟨c, cell xs⟩, c, xs.length⟩

theorem Rep.mk {c : Nat} {xs : List Val} (h : xs.length ≤ c) : Rep (vecOf c xs) xs := by
  simp [Rep, vecOf, h]

theorem Rep.of_buf {c : Nat} {xs : List Val} {b : Buf} (h : xs.length ≤ c) (hn : b.n = c) (hs : ∀ i, b.s i = cell xs i) :
    Rep ⟨some b, c, xs.length⟩ xs := by
  simp [Rep, h, hn, hs]

theorem Rep.of_buf' {c sz : Nat} {xs : List Val} {b : Buf} (hsz : sz = xs.length) (h : xs.length ≤ c)
    (hn : b.n = c) (hs : ∀ i, b.s i = cell xs i) : Rep ⟨some b, c, sz⟩ xs := by
  subst hsz; exact Rep.of_buf h hn hs

theorem length_insertAt {xs ys : List Val} {p : Nat} (hp : p ≤ xs.length) :
    (insertAt xs p ys).length = xs.length + ys.length := by
  simp [insertAt]; omega

@[simp] theorem held_some (b : Buf) (c s : Nat) : held ⟨some b, c, s⟩ = 1 := by simp [held]

theorem Rep.eq_mk {v : Vec} {xs : List Val} (h : Rep v xs) (hd : v.data.isSome) : v = vecOf v.cap xs := by
  obtain ⟨hs, hr⟩ := h
  cases v with
  | mk d c sz =>
    cases d with
    | none => simp at hd
    | some b =>
      simp only at hr hs
      obtain ⟨hn, _, hc⟩ := hr
      simp only [vecOf, hs]
      congr 2
      exact Buf.ext' (b := ⟨c, cell xs⟩) hn hc

theorem Rep.len_le {v : Vec} {xs : List Val} (h : Rep v xs) : xs.length ≤ v.cap := by
  obtain ⟨hs, hr⟩ := h
  cases hd : v.data with
  | none => rw [hd] at hr; simp [hr.2]
  | some b => rw [hd] at hr; exact hr.2.1

theorem Rep.size_eq {v : Vec} {xs : List Val} (h : Rep v xs) : v.size = xs.length := h.1

theorem Rep.some_of_cap {v : Vec} {xs : List Val} (h : Rep v xs) (hc : 0 < v.cap) : v.data.isSome := by
  obtain ⟨hs, hr⟩ := h
  cases hd : v.data with
  | none => rw [hd] at hr; omega
  | some b => simp

theorem Rep.none_nil {v : Vec} {xs : List Val} (h : Rep v xs) (hd : v.data = none) : xs = [] ∧ v = Vec.empty := by
  obtain ⟨hs, hr⟩ := h
  rw [hd] at hr
  refine ⟨hr.2, ?_⟩
  cases v
  simp_all [Vec.empty]

@[simp] theorem held_vecOf (c : Nat) (xs : List Val) : held (vecOf c xs) = 1 := by simp [held, vecOf]
@[simp] theorem held_empty : held Vec.empty = 0 := by simp [held, Vec.empty]

theorem reserve_good {v : Vec} {xs : List Val} (h : Rep v xs) (n : Nat) (l : Ledger) :
    ∃ v' l', reserve v n l = some (v', l') ∧ Rep v' xs ∧ n ≤ v'.cap ∧ v.cap ≤ v'.cap ∧
      l'.net = l.net ∧ l'.blocks = l.blocks + held v' - held v := by
  unfold reserve
  by_cases hn : n > v.cap
  · obtain ⟨l', h1, h2, h3⟩ := changeBuffer_good h n (by have := h.len_le; omega) l
    refine ⟨_, l', by simp only [hn, if_true]; exact h1, Rep.mk (by have := h.len_le; omega), ?_, ?_, h2, ?_⟩
    · simp [vecOf]
    · simp [vecOf]; omega
    · rw [h3]; show _ = _ + held (vecOf n xs) - _; simp
  · exact ⟨v, l, by simp [hn], h, by omega, by omega, rfl, by omega⟩

theorem argVal_of_rep {v : Vec} {xs : List Val} (h : Rep v xs) {a : Arg} {x : Val} (ha : argSpec xs a = some x) :
    argVal v a = some x := by
  cases a with
  | val y => simpa [argSpec, argVal] using ha
  | own i =>
    simp only [argSpec] at ha
    have hi : i < xs.length := by
      rcases Nat.lt_or_ge i xs.length with h | h
      · exact h
      · simp [List.getElem?_eq_none h] at ha
    have hx : xs.getD i 0 = x := by simp [List.getD_eq_getElem?_getD, ha]
    obtain ⟨hs, hr⟩ := h
    simp only [argVal]
    cases hd : v.data with
    | none => rw [hd] at hr; rw [hr.2] at hi; simp at hi
    | some b =>
      rw [hd] at hr
      simp only [hs, hi, if_true]
      exact rd_live (by omega) (by rw [hr.2.2 i, cell_live hi, hx])

theorem emplaceBack_good {v : Vec} {xs : List Val} (h : Rep v xs) {a : Arg} {x : Val}
    (ha : argSpec xs a = some x) (l : Ledger) :
    ∃ v' l', emplaceBack v a l = some (v', l') ∧ Good v xs l v' (xs ++ [x]) l' := by
  have hav := argVal_of_rep h ha
  unfold emplaceBack
  by_cases hg : v.size + 1 > v.cap
  · obtain ⟨l', h1, h2, h3⟩ := changeBuffer_good h (v.size + 1) (by rw [h.size_eq]; omega) (l.addCtor 1)
    have hsz := h.size_eq
    simp only [hsz] at h1 hg
    simp only [hsz, hg, if_true, hav, h1]
    rw [construct_raw x (by simp) (by simp [cell_raw])]
    refine ⟨_, _, rfl, ?_, ?_, ?_⟩
    · have := Rep.of_buf (c := xs.length + 1) (xs := xs ++ [x]) (b := (⟨xs.length + 1, cell xs⟩ : Buf).put xs.length (.live x))
        (by simp) (by simp [Buf.put]) (by intro i; simp only [Buf.put, cell_snoc])
      simpa using this
    · simp [h2]; omega
    · simp [h3, held]
  · have hc : 0 < v.cap := by omega
    have hsome := h.some_of_cap hc
    have hv := h.eq_mk hsome
    generalize v.cap = c at *
    subst hv
    simp only [vecOf] at hg hav ⊢
    simp only [hg, if_false, hav]
    rw [construct_raw x (by simp; omega) (by simp [cell_raw])]
    refine ⟨_, _, rfl, ?_, ?_, ?_⟩
    · have := Rep.of_buf (c := c) (xs := xs ++ [x]) (b := (⟨c, cell xs⟩ : Buf).put xs.length (.live x))
        (by simp; omega) (by simp [Buf.put]) (by intro i; simp only [Buf.put, cell_snoc])
      simpa using this
    · simp; omega
    · simp [held]

theorem Rep.cases {v : Vec} {xs : List Val} (h : Rep v xs) :
    (v = Vec.empty ∧ xs = []) ∨ (∃ c, v = vecOf c xs ∧ xs.length ≤ c) := by
  cases hd : v.data with
  | none => left; exact ⟨(h.none_nil hd).2, (h.none_nil hd).1⟩
  | some b => right; exact ⟨v.cap, h.eq_mk (by simp [hd]), h.len_le⟩

theorem popBack_good {v : Vec} {xs : List Val} (h : Rep v xs) (hne : xs ≠ []) (l : Ledger) :
    ∃ v' l', popBack v l = some (v', l') ∧ Good v xs l v' xs.dropLast l' := by
  rcases h.cases with ⟨_, h0⟩ | ⟨c, rfl, hc⟩
  · exact absurd h0 hne
  · have hpos : 0 < xs.length := List.length_pos_iff.mpr hne
    simp only [popBack, vecOf, Nat.ne_of_gt hpos, if_false]
    rw [destroy_obj (by simp; omega) (by simp; exact cell_ne_raw (by omega))]
    refine ⟨_, _, rfl, ?_, ?_, ?_⟩
    · have := Rep.of_buf (c := c) (xs := xs.dropLast) (b := (⟨c, cell xs⟩ : Buf).put (xs.length - 1) .raw)
        (by simp; omega) (by simp [Buf.put]) (by intro i; simp only [Buf.put, cell_dropLast, cell]; grind)
      simpa using this
    · simp; omega
    · simp [held]

theorem emplace_good {v : Vec} {xs : List Val} (h : Rep v xs) {a : Arg} {x : Val} {pos : Nat}
    (hp : pos ≤ xs.length) (ha : argSpec xs a = some x) (l : Ledger) :
    ∃ v' l', emplace v pos a l = some (v', l') ∧ Good v xs l v' (insertAt xs pos [x]) l' := by
  have hav := argVal_of_rep h ha
  obtain ⟨v1, l1, hr, hrep, hcap, _, hnet, hblk⟩ := reserve_good h (v.size + 1) (l.addCtor 1)
  have hv1 := hrep.eq_mk (hrep.some_of_cap (by omega))
  have hsz := h.size_eq
  generalize v1.cap = c at *
  subst hv1
  have hlen := length_insertAt (ys := [x]) hp
  simp only [emplace, hav, hr, vecOf, shiftUpCall]
  rw [if_neg (by omega), shiftUp_ok (fun j => xs.getD j 0)]
  · have hn1 := (shiftLed_net xs.length pos 1 (xs.length - pos) l1).1
    have hn2 := (shiftLed_net xs.length pos 1 (xs.length - pos) l1).2
    by_cases hlt : pos < xs.length
    · simp only [hlt, if_true]
      rw [assign_obj x (by simp; omega) (by simp only; rw [if_pos (by omega), if_pos hlt]; simp)]
      refine ⟨_, _, rfl, ?_, ?_, ?_⟩
      · refine Rep.of_buf' (by simp [hlen]) (by simp [hlen]; omega) (by simp [Buf.put]) ?_
        intro i; rw [cell_insertAt _ _ _ _ hp]
        simp only [Buf.put, cell, List.length_singleton]; grind [List.getD_cons_zero]
      · simp only [Ledger.net_addDtor, Ledger.net_addMasg, hn1, hnet, Ledger.net_addCtor, hlen, List.length_singleton]
        omega
      · simp only [Ledger.blocks_addDtor, Ledger.blocks_addMasg, hn2, hblk, Ledger.blocks_addCtor, held_vecOf, held_some]
    · have hpe : pos = xs.length := by omega
      subst hpe
      simp only [Nat.lt_irrefl, if_false]
      rw [construct_raw x (by simp; omega) (by simp)]
      refine ⟨_, _, rfl, ?_, ?_, ?_⟩
      · refine Rep.of_buf' (by simp [hlen]) (by simp [hlen]; omega) (by simp [Buf.put]) ?_
        intro i; rw [cell_insertAt _ _ _ _ hp]
        simp only [Buf.put, cell, List.length_singleton]; grind [List.getD_cons_zero]
      · simp only [Ledger.net_addDtor, Ledger.net_addMctor, hn1, hnet, Ledger.net_addCtor, hlen, List.length_singleton]
        omega
      · simp only [Ledger.blocks_addDtor, Ledger.blocks_addMctor, hn2, hblk, Ledger.blocks_addCtor, held_vecOf, held_some]
  · omega
  · omega
  · simp; omega
  · intro j h1 h2; exact cell_live (by omega)
  · intro j h1 h2
    exact ⟨fun h3 => by omega, fun _ => cell_raw (by omega)⟩

theorem invalidate_good {v : Vec} {xs : List Val} (h : Rep v xs) (l : Ledger) :
    ∃ l', invalidate v l = some (Vec.empty, l') ∧ Good v xs l Vec.empty [] l' := by
  rcases h.cases with ⟨rfl, rfl⟩ | ⟨c, rfl, hc⟩
  · exact ⟨l, by simp [invalidate, Vec.empty], Rep.nil, by simp, by simp⟩
  · simp only [invalidate, vecOf]
    rw [destroyRange_ok _ _ _ _ (by intro j _ h2; exact ⟨by simp; omega, cell_ne_raw (by omega)⟩)]
    simp only
    rw [deallocOk_of _ _ rfl (by intro j _; simp only [cell]; grind)]
    exact ⟨_, rfl, Rep.nil, by simp, by simp⟩

theorem clear_good {v : Vec} {xs : List Val} (h : Rep v xs) (l : Ledger) :
    ∃ v' l', clear v l = some (v', l') ∧ Good v xs l v' [] l' := by
  rcases h.cases with ⟨rfl, rfl⟩ | ⟨c, rfl, hc⟩
  · exact ⟨_, l, by simp [clear, Vec.empty], Rep.nil, by simp, by simp⟩
  · simp only [clear, vecOf]
    rw [destroyRange_ok _ _ _ _ (by intro j _ h2; exact ⟨by simp; omega, cell_ne_raw (by omega)⟩)]
    refine ⟨_, _, rfl, ?_, by simp, by simp⟩
    exact Rep.of_buf' rfl (by simp) rfl (by intro i; simp only [cell]; grind)

theorem eraseTo_good {v : Vec} {xs : List Val} (h : Rep v xs) {k : Nat} (hk : k ≤ xs.length) (l : Ledger) :
    ∃ v' l', eraseTo v k l = some (v', l') ∧ Good v xs l v' (xs.take k) l' := by
  rcases h.cases with ⟨rfl, rfl⟩ | ⟨c, rfl, hc⟩
  · simp at hk; subst hk
    exact ⟨_, l, by simp [eraseTo, Vec.empty], Rep.nil, by simp, by simp⟩
  · simp only [eraseTo, vecOf]
    simp only [show ¬ (k > xs.length) by omega, if_false]
    rw [destroyRange_ok _ _ _ _ (by intro j _ h2; exact ⟨by simp; omega, cell_ne_raw (by omega)⟩)]
    refine ⟨_, _, rfl, ?_, ?_, by simp⟩
    · refine Rep.of_buf' (by simp; omega) (by simp; omega) rfl ?_
      intro i; rw [cell_take]; simp only [cell]; grind
    · simp; omega

theorem erase_good {v : Vec} {xs : List Val} (h : Rep v xs) {f t : Nat} (hft : f ≤ t) (ht : t ≤ xs.length)
    (l : Ledger) :
    ∃ v' l', erase v f t l = some (v', l') ∧ Good v xs l v' (xs.take f ++ xs.drop t) l' := by
  by_cases h0 : t - f = 0
  · have : f = t := by omega
    subst this
    refine ⟨v, l, by simp [erase], ?_, ?_, by omega⟩
    · simpa using h
    · simp
  rcases h.cases with ⟨rfl, rfl⟩ | ⟨c, rfl, hc⟩
  · simp at ht; omega
  · simp only [erase, vecOf, h0, if_false]
    simp only [show ¬ (t > xs.length) by omega, if_false]
    rw [moveDown_ok (fun j => xs.getD j 0) _ _ _ _ _ (by omega)
      (by intro j h1 h2; exact ⟨by simp; omega, cell_live (by omega)⟩)
      (by intro j h1 h2; exact cell_ne_raw (by omega))]
    simp only
    rw [destroyRange_ok _ _ _ _ (by intro j h1 h2; refine ⟨by simp; omega, ?_⟩; simp only [cell]; grind)]
    refine ⟨_, _, rfl, ?_, ?_, by simp⟩
    · refine Rep.of_buf' (by simp; omega) (by simp; omega) rfl ?_
      intro i; rw [cell_erase _ _ _ _ hft ht]; simp only [cell]; grind
    · simp; omega

theorem resize_good {v : Vec} {xs : List Val} (h : Rep v xs) (n : Nat) (l : Ledger) :
    ∃ v' l', resize v n l = some (v', l') ∧
      Good v xs l v' (xs.take n ++ List.replicate (n - xs.length) 0) l' := by
  obtain ⟨v1, l1, hr, hrep, hcap, _, hnet, hblk⟩ := reserve_good h n l
  simp only [resize, hr]
  rcases hrep.cases with ⟨rfl, rfl⟩ | ⟨c, rfl, hc⟩
  · simp [Vec.empty] at hcap; subst hcap
    exact ⟨Vec.empty, l1, by simp [Vec.empty], by simpa using Rep.nil, by simp [hnet], by simp [hblk]⟩
  · simp only [vecOf] at hcap ⊢
    by_cases hgt : n > xs.length
    · simp only [hgt, if_true]
      rw [defaultLoop_ok _ _ _ _ (by intro j h1 h2; exact ⟨by simp; omega, cell_raw (by omega)⟩)]
      refine ⟨_, _, rfl, ?_, ?_, ?_⟩
      · refine Rep.of_buf' (by simp; omega) (by simp; omega) rfl ?_
        intro i; rw [cell_resize]; simp only [cell]; grind
      · simp [hnet]; omega
      · simp [hblk]
    · simp only [hgt, if_false]
      rw [destroyRange_ok _ _ _ _ (by intro j h1 h2; exact ⟨by simp; omega, cell_ne_raw (by omega)⟩)]
      refine ⟨_, _, rfl, ?_, ?_, ?_⟩
      · refine Rep.of_buf' (by simp; omega) (by simp; omega) rfl ?_
        intro i; rw [cell_resize]; simp only [cell]; grind
      · simp [hnet]; omega
      · simp [hblk]

theorem Good.trans {v v1 v2 : Vec} {xs xs1 xs2 : List Val} {l l1 l2 : Ledger}
    (a : Good v xs l v1 xs1 l1) (b : Good v1 xs1 l1 v2 xs2 l2) : Good v xs l v2 xs2 l2 :=
  ⟨b.rep, by have := a.net; have := b.net; omega, by have := a.blk; have := b.blk; omega⟩

theorem srcSpec_count {xs ys : List Val} {src : Src} (h : srcSpec xs src = some ys) : src.count = ys.length := by
  cases src with
  | own f t =>
    simp only [srcSpec] at h
    split at h
    · cases h; simp [Src.count]; omega
    · cases h
  | ext zs => simp only [srcSpec] at h; cases h; rfl

theorem insertRange_good {v : Vec} {xs ys : List Val} (h : Rep v xs) {src : Src} {pos : Nat}
    (hp : pos ≤ xs.length) (hs : srcSpec xs src = some ys) (l : Ledger) :
    ∃ v' l', insertRange v pos src l = some (v', l') ∧ Good v xs l v' (insertAt xs pos ys) l' := by
  have hcnt := srcSpec_count hs
  by_cases h0 : src.count = 0
  · have : ys = [] := by rw [hcnt] at h0; exact List.eq_nil_of_length_eq_zero h0
    subst this
    refine ⟨v, l, by simp [insertRange, h0], ?_, ?_, by omega⟩
    · simpa [insertAt] using h
    · simp [insertAt]
  obtain ⟨v1, l1, hr, hrep, hcap, _, hnet, hblk⟩ := reserve_good h (v.size + src.count) l
  have hv1 := hrep.eq_mk (hrep.some_of_cap (by omega))
  have hsz := h.size_eq
  generalize v1.cap = c at *
  subst hv1
  have hlen := length_insertAt (ys := ys) hp
  simp only [insertRange, h0, if_false, hr, vecOf, shiftUpCall]
  rw [hcnt] at h0 hcap hr
  simp only [hcnt]
  rw [shiftUp_ok (fun j => xs.getD j 0) _ _ _ _ _ _ (by omega) (by omega) (by simp; omega)
    (by intro j h1 h2; exact cell_live (by omega))
    (by intro j h1 h2; exact ⟨fun h3 => by omega, fun _ => cell_raw (by omega)⟩)]
  simp only
  rw [fillLoop_ok (fun k => ys.getD k 0) _ _ _ _ _ _ _ _ (by omega)]
  · have hn1 := shiftLed_net xs.length pos ys.length (xs.length - pos) l1
    have hn2 := fillLed_net pos xs.length 0 ys.length (shiftLed xs.length pos ys.length (xs.length - pos) l1)
    refine ⟨_, _, rfl, ?_, ?_, ?_⟩
    · refine Rep.of_buf' (by simp [hlen]) (by simp [hlen]; omega) rfl ?_
      intro i; rw [cell_insertAt _ _ _ _ hp]
      simp only [cell]; grind
    · rw [hn2.1, hn1.1, hnet, hlen]; omega
    · rw [hn2.2, hn1.2, hblk]; simp
  · intro k' _ hk' b' hb' hag
    cases src with
    | ext zs =>
      simp only [srcSpec] at hs; cases hs
      have hk2 : k' < ys.length := by omega
      simp only [srcVal]
      simp [List.getD_eq_getElem?_getD, List.getElem?_eq_getElem hk2]
    | own f t =>
      simp only [srcSpec] at hs
      split at hs
      · rename_i hft
        cases hs
        have hyl : ((xs.drop f).take (t - f)).length = t - f := by simp; omega
        simp only [srcVal]
        rw [getD_sub _ _ _ _ (by omega)]
        by_cases hlt : f + k' < pos
        · simp only [hlt, if_true]
          apply rd_live (by simp at hb'; omega)
          rw [hag _ (by omega)]
          simp only; rw [if_neg (by omega), if_neg (by omega)]
          exact cell_live (by omega)
        · simp only [hlt, if_false]
          apply rd_live (by simp at hb'; omega)
          rw [hag _ (by omega)]
          simp only; rw [if_neg (by omega), if_pos (by omega)]
          congr 2; omega
      · cases hs
  · intro j h1 h2
    refine ⟨by simp; omega, ?_, ?_⟩
    · intro h3; simp only; rw [if_pos (by omega), if_pos h3]; simp
    · intro h3; simp only; rw [if_pos (by omega), if_neg (by omega)]

theorem copyCtor_good (portable : Bool) {o : Vec} {ys : List Val} (h : Rep o ys) (l : Ledger) :
    ∃ v' l', copyCtor portable o l = some (v', l') ∧ Good Vec.empty [] l v' ys l' := by
  unfold copyCtor
  by_cases hp : (portable && o.size == 0) = true
  · simp only [hp, if_true]
    have : ys = [] := by
      simp at hp; have := h.size_eq; exact List.eq_nil_of_length_eq_zero (by omega)
    subst this
    exact ⟨_, l, rfl, Rep.nil, by simp, by simp⟩
  · simp only [hp]
    rcases h.cases with ⟨rfl, rfl⟩ | ⟨c, rfl, hc⟩
    · simp only [Vec.empty, copyLoop_zero]
      refine ⟨_, _, rfl, ?_, by simp, by simp [held, Vec.empty]⟩
      exact Rep.of_buf' rfl (by simp) rfl (by intro i; simp [Buf.fresh, cell_nil])
    · simp only [vecOf]
      rw [copyLoop_ok (fun j => ys.getD j 0) _ _ _ _ _
        (by intro j _ h2; exact ⟨by simp; omega, cell_live (by omega), by simp [Buf.fresh]; omega, by simp [Buf.fresh]⟩)]
      refine ⟨_, _, rfl, ?_, by simp, by simp⟩
      refine Rep.of_buf' rfl (by simp) rfl ?_
      intro i; simp only [cell, Buf.fresh]; grind

theorem copyAssign_good {v o : Vec} {xs ys : List Val} (hv : Rep v xs) (h : Rep o ys) (l : Ledger) :
    ∃ v' l', copyAssign v o l = some (v', l') ∧ Good v xs l v' ys l' := by
  obtain ⟨l1, h1, g1⟩ := invalidate_good hv l
  obtain ⟨v2, l2, h2, g2⟩ := copyCtor_good false h l1
  refine ⟨v2, l2, ?_, g1.trans g2⟩
  simp only [copyAssign, h1]
  simpa [copyCtor] using h2

theorem pushAll_good {v : Vec} {xs : List Val} (h : Rep v xs) (ys : List Val) (l : Ledger) :
    ∃ v' l', pushAll v ys l = some (v', l') ∧ Good v xs l v' (xs ++ ys) l' := by
  induction ys generalizing v xs l with
  | nil => exact ⟨v, l, rfl, by simpa using h, by simp, by omega⟩
  | cons y ys ih =>
    obtain ⟨v1, l1, h1, g1⟩ := emplaceBack_good h (a := .val y) (x := y) rfl l
    obtain ⟨v2, l2, h2, g2⟩ := ih g1.rep l1
    refine ⟨v2, l2, by simp [pushAll, h1, h2], ?_⟩
    have := g1.trans g2
    simpa using this

theorem listCtor_good (ys : List Val) (l : Ledger) :
    ∃ v' l', listCtor ys l = some (v', l') ∧ Good Vec.empty [] l v' ys l' := by
  obtain ⟨v1, l1, hr, hrep, _, _, hnet, hblk⟩ := reserve_good Rep.nil ys.length l
  obtain ⟨v2, l2, h2, g2⟩ := pushAll_good hrep ys l1
  refine ⟨v2, l2, by simp [listCtor, hr, h2], ?_⟩
  have g1 : Good Vec.empty [] l v1 [] l1 := ⟨hrep, by simp [hnet], by omega⟩
  simpa using g1.trans g2

theorem readRange_ok {o : Vec} {ys : List Val} (h : Rep o ys) (f n : Nat) (hfn : f + n ≤ ys.length) :
    readRange o f n = some ((ys.drop f).take n) := by
  induction n generalizing f with
  | zero => simp [readRange]
  | succ n ih =>
    rcases h.cases with ⟨rfl, rfl⟩ | ⟨c, rfl, hc⟩
    · simp at hfn
    · have hf : f < ys.length := by omega
      have := ih (f + 1) (by omega)
      simp only [vecOf] at this
      simp only [readRange, vecOf, hf, if_true, this]
      rw [rd_live (by simp; omega) (cell_live hf)]
      simp only [Option.some.injEq]
      rw [List.drop_eq_getElem_cons hf, List.take_succ_cons]
      simp [List.getD_eq_getElem?_getD, List.getElem?_eq_getElem hf]

theorem rangeCtor_good {o : Vec} {ys : List Val} (h : Rep o ys) {f t : Nat} (hft : f ≤ t) (ht : t ≤ ys.length)
    (l : Ledger) :
    ∃ v' l', rangeCtor o f t l = some (v', l') ∧ Good Vec.empty [] l v' ((ys.drop f).take (t - f)) l' := by
  obtain ⟨v2, l2, h2, g2⟩ := pushAll_good Rep.nil ((ys.drop f).take (t - f)) l
  refine ⟨v2, l2, by simp [rangeCtor, readRange_ok h f (t - f) (by omega), h2], by simpa using g2⟩

theorem sizeCtor_good (n : Nat) (l : Ledger) :
    ∃ v' l', sizeCtor n l = some (v', l') ∧ Good Vec.empty [] l v' (List.replicate n 0) l' := by
  obtain ⟨v', l', h1, g⟩ := resize_good Rep.nil n l
  exact ⟨v', l', h1, by simpa using g⟩

/-! ### reads -/

theorem contents_ok {v : Vec} {xs : List Val} (h : Rep v xs) : contents v = some xs := by
  have := readRange_ok h 0 xs.length (by omega)
  simpa [contents, h.size_eq] using this

theorem vecIdx_ok {v : Vec} {xs : List Val} (h : Rep v xs) {i : Nat} (hi : i < xs.length) :
    vecIdx v i = some (xs.getD i 0) := by
  rcases h.cases with ⟨rfl, rfl⟩ | ⟨c, rfl, hc⟩
  · simp at hi
  · simp only [vecIdx, vecOf, show ¬ (i ≥ xs.length) by omega, if_false]
    exact rd_live (by simp; omega) (cell_live hi)

theorem vecAt_ok {v : Vec} {xs : List Val} (h : Rep v xs) (i : Nat) : vecAt v i = some xs[i]? := by
  by_cases hi : i < xs.length
  · rcases h.cases with ⟨rfl, rfl⟩ | ⟨c, rfl, hc⟩
    · simp at hi
    · simp only [vecAt, vecOf, show ¬ (i ≥ xs.length) by omega, if_false]
      rw [rd_live (by simp; omega) (cell_live hi)]
      simp [List.getD_eq_getElem?_getD, List.getElem?_eq_getElem hi]
  · simp only [vecAt, h.size_eq, show i ≥ xs.length by omega, if_true]
    rw [List.getElem?_eq_none (by omega)]

theorem eqLoop_ok {a b : Vec} {xs ys : List Val} (ha : Rep a xs) (hb : Rep b ys) (hl : xs.length = ys.length)
    (i n : Nat) (hin : i + n = xs.length) :
    eqLoop a b i n = some (decide (xs.drop i = ys.drop i)) := by
  induction n generalizing i with
  | zero =>
    have h1 : xs.drop i = [] := List.drop_eq_nil_of_le (by omega)
    have h2 : ys.drop i = [] := List.drop_eq_nil_of_le (by omega)
    simp [eqLoop, h1, h2]
  | succ n ih =>
    have hi : i < xs.length := by omega
    have hi' : i < ys.length := by omega
    rcases ha.cases with ⟨rfl, rfl⟩ | ⟨c, rfl, hc⟩
    · simp at hi
    rcases hb.cases with ⟨rfl, rfl⟩ | ⟨c', rfl, hc'⟩
    · simp at hi'
    have := ih (i + 1) (by omega)
    simp only [vecOf] at this
    simp only [eqLoop, vecOf, rd_live (show i < (⟨c, cell xs⟩ : Buf).n by simp; omega) (cell_live hi),
      rd_live (show i < (⟨c', cell ys⟩ : Buf).n by simp; omega) (cell_live hi'), this]
    have ex : xs.drop i = xs[i] :: xs.drop (i + 1) := List.drop_eq_getElem_cons hi
    have ey : ys.drop i = ys[i] :: ys.drop (i + 1) := List.drop_eq_getElem_cons hi'
    simp only [List.getD_eq_getElem?_getD, List.getElem?_eq_getElem hi, List.getElem?_eq_getElem hi', Option.getD_some,
      ex, ey, List.cons.injEq]
    by_cases he : xs[i] = ys[i]
    · simp [he]
    · simp [he]

theorem vecEq_ok {a b : Vec} {xs ys : List Val} (ha : Rep a xs) (hb : Rep b ys) :
    vecEq a b = some (decide (xs = ys)) := by
  unfold vecEq
  by_cases hl : xs.length = ys.length
  · have := eqLoop_ok ha hb hl 0 xs.length (by omega)
    simpa [ha.size_eq, hb.size_eq, hl] using this
  · have : xs ≠ ys := fun h => hl (by rw [h])
    simp [ha.size_eq, hb.size_eq, hl, this]

theorem lexLoop_ok {a b : Vec} {xs ys : List Val} (ha : Rep a xs) (hb : Rep b ys)
    (i n : Nat) (hin : i + n = min xs.length ys.length) :
    lexLoop a b i n = some (decide (xs.drop i < ys.drop i)) := by
  induction n generalizing i with
  | zero =>
    simp only [lexLoop, ha.size_eq, hb.size_eq]
    by_cases h1 : i = xs.length
    · subst h1
      by_cases h2 : xs.length = ys.length
      · simp [h2]
      · have hlt : xs.length < ys.length := by omega
        have ey : ys.drop xs.length = ys[xs.length] :: ys.drop (xs.length + 1) := List.drop_eq_getElem_cons hlt
        have hnl : ([] : List Val) < ys.drop xs.length := by rw [ey]; exact List.nil_lt_cons _ _
        simp [h2, hnl]
    · have h2 : i = ys.length := by omega
      subst h2
      simp [h1]
  | succ n ih =>
    have hi : i < xs.length := by omega
    have hi' : i < ys.length := by omega
    rcases ha.cases with ⟨rfl, rfl⟩ | ⟨c, rfl, hc⟩
    · simp at hi
    rcases hb.cases with ⟨rfl, rfl⟩ | ⟨c', rfl, hc'⟩
    · simp at hi'
    have := ih (i + 1) (by omega)
    simp only [vecOf] at this
    simp only [lexLoop, vecOf, rd_live (show i < (⟨c, cell xs⟩ : Buf).n by simp; omega) (cell_live hi),
      rd_live (show i < (⟨c', cell ys⟩ : Buf).n by simp; omega) (cell_live hi'), this]
    have ex : xs.drop i = xs[i] :: xs.drop (i + 1) := List.drop_eq_getElem_cons hi
    have ey : ys.drop i = ys[i] :: ys.drop (i + 1) := List.drop_eq_getElem_cons hi'
    simp only [List.getD_eq_getElem?_getD, List.getElem?_eq_getElem hi, List.getElem?_eq_getElem hi', Option.getD_some,
      ex, ey, List.cons_lt_cons_iff]
    by_cases h1 : xs[i] < ys[i]
    · simp [h1]
    · by_cases h2 : ys[i] < xs[i]
      · have h3 : xs[i] ≠ ys[i] := fun h => by rw [h] at h2; exact absurd h2 (Int.lt_irrefl _)
        simp [h1, h2, h3]
      · have h3 : xs[i] = ys[i] := Int.le_antisymm (Int.not_lt.mp h2) (Int.not_lt.mp h1)
        simp [h1, h2, h3]

theorem vecLt_ok {a b : Vec} {xs ys : List Val} (ha : Rep a xs) (hb : Rep b ys) :
    vecLt a b = some (decide (xs < ys)) := by
  have := lexLoop_ok ha hb 0 (min xs.length ys.length) (by omega)
  simpa [vecLt, ha.size_eq, hb.size_eq] using this


/-! ### registers, ledger totals and the state invariant -/

/-- sum of `g 0 .. g (R-1)` -/
def total (g : Nat → Int) : Nat → Int
  | 0 => 0
  | n + 1 => total g n + g n

theorem total_set (g : Nat → Int) (r : Nat) (x : Int) (R : Nat) (hr : r < R) :
    total (fun j => if j = r then x else g j) R = total g R + x - g r := by
  induction R with
  | zero => omega
  | succ n ih =>
    simp only [total]
    by_cases h : r = n
    · subst h
      have : total (fun j => if j = r then x else g j) r = total g r := by
        clear ih hr
        have aux : ∀ m, m ≤ r → total (fun j => if j = r then x else g j) m = total g m := by
          intro m hm
          induction m with
          | zero => rfl
          | succ k ihk => simp only [total]; rw [ihk (by omega), if_neg (by omega)]
        exact aux r (Nat.le_refl _)
      rw [this]; simp; omega
    · rw [ih (by omega), if_neg (by omega)]; omega

/-- the state invariant: every register represents its list, the ledger balances -/
structure SInv (R : Nat) (s : St) (f : Nat → List Val) : Prop where
  rep : ∀ r, Rep (s.regs r) (f r)
  net : s.led.net = total (fun r => ((f r).length : Int)) R
  blk : s.led.blocks = total (fun r => held (s.regs r)) R

theorem total_zero (n : Nat) : total (fun _ => (0 : Int)) n = 0 := by
  induction n with
  | zero => rfl
  | succ k ih => simp [total, ih]

theorem SInv.init (R : Nat) : SInv R St.init (fun _ => []) := by
  refine ⟨fun _ => Rep.nil, ?_, ?_⟩
  · simp [St.init, Ledger.net, total_zero]
  · simp [St.init, Ledger.blocks, total_zero]

theorem SInv.set {R : Nat} {s : St} {f : Nat → List Val} (h : SInv R s f) {r : Nat} (hr : r < R)
    {v' : Vec} {xs' : List Val} {l' : Ledger} (g : Good (s.regs r) (f r) s.led v' xs' l') :
    SInv R (s.set r v' l') (setL f r xs') := by
  refine ⟨?_, ?_, ?_⟩
  · intro j; simp only [St.set, setL]; split
    · exact g.rep
    · exact h.rep j
  · have := total_set (fun r => ((f r).length : Int)) r xs'.length R hr
    have e : (fun j => ((setL f r xs' j).length : Int)) = fun j => if j = r then (xs'.length : Int) else ((f j).length : Int) := by
      funext j; simp only [setL]; split <;> rfl
    show l'.net = total (fun j => ((setL f r xs' j).length : Int)) R
    rw [e, this, g.net, h.net]
  · have := total_set (fun r => held (s.regs r)) r (held v') R hr
    have e : (fun j => held ((s.set r v' l').regs j)) = fun j => if j = r then held v' else held (s.regs j) := by
      funext j; simp only [St.set]; split <;> rfl
    show l'.blocks = total (fun j => held ((s.set r v' l').regs j)) R
    rw [e, this, g.blk, h.blk]


theorem total_zero_of (g : Nat → Int) (R : Nat) (h : ∀ j, j < R → g j = 0) : total g R = 0 := by
  induction R with
  | zero => rfl
  | succ n ih => simp only [total]; rw [ih (fun j hj => h j (by omega)), h n (by omega)]; rfl

theorem destroyAll_ok {R : Nat} {s : St} {f : Nat → List Val} (hI : SInv R s f) (n : Nat) (hn : n ≤ R) :
    ∃ s', destroyAll s n = some s' ∧ SInv R s' (fun j => if j < n then [] else f j) ∧
      (∀ j, j < n → s'.regs j = Vec.empty) := by
  induction n with
  | zero => exact ⟨s, rfl, by simpa using hI, by intro j hj; omega⟩
  | succ n ih =>
    obtain ⟨s1, h1, hI1, hE⟩ := ih (by omega)
    obtain ⟨l', h2, g⟩ := invalidate_good (hI1.rep n) s1.led
    refine ⟨s1.set n Vec.empty l', by simp [destroyAll, h1, h2], ?_, ?_⟩
    · have := hI1.set (show n < R by omega) g
      have e : setL (fun j => if j < n then [] else f j) n [] = fun j => if j < n + 1 then [] else f j := by
        funext j; simp only [setL]
        by_cases hj : j = n
        · simp [hj]
        · by_cases hj2 : j < n
          · simp [hj, hj2]; omega
          · simp [hj, hj2]; omega
      rwa [e] at this
    · intro j hj
      simp only [St.set]
      by_cases hjn : j = n
      · simp [hjn]
      · simp [hjn]; exact hE j (by omega)


end Igris.C02
