import IgrisModel.C02.Model
/-!
  C02 helper lemmas: exact results of the slot-event loops on buffers described
  pointwise, and the representation relation `Rep v xs`.
-/
namespace Igris.C02

/-! ### ledger bookkeeping -/
namespace Ledger
@[simp] theorem addCtor_addCtor (l : Ledger) (a b : Nat) : (l.addCtor a).addCtor b = l.addCtor (a + b) := by
  simp [addCtor, Nat.add_assoc]
@[simp] theorem addMctor_addMctor (l : Ledger) (a b : Nat) : (l.addMctor a).addMctor b = l.addMctor (a + b) := by
  simp [addMctor, Nat.add_assoc]
@[simp] theorem addDtor_addDtor (l : Ledger) (a b : Nat) : (l.addDtor a).addDtor b = l.addDtor (a + b) := by
  simp [addDtor, Nat.add_assoc]
@[simp] theorem addAsg_addAsg (l : Ledger) (a b : Nat) : (l.addAsg a).addAsg b = l.addAsg (a + b) := by
  simp [addAsg, Nat.add_assoc]
@[simp] theorem addMasg_addMasg (l : Ledger) (a b : Nat) : (l.addMasg a).addMasg b = l.addMasg (a + b) := by
  simp [addMasg, Nat.add_assoc]
@[simp] theorem addCtor_zero (l : Ledger) : l.addCtor 0 = l := by simp [addCtor]
@[simp] theorem addMctor_zero (l : Ledger) : l.addMctor 0 = l := by simp [addMctor]
@[simp] theorem addDtor_zero (l : Ledger) : l.addDtor 0 = l := by simp [addDtor]
@[simp] theorem addAsg_zero (l : Ledger) : l.addAsg 0 = l := by simp [addAsg]
@[simp] theorem addMasg_zero (l : Ledger) : l.addMasg 0 = l := by simp [addMasg]

/-- objects alive according to the ledger: constructed − destroyed (as an Int) -/
def net (l : Ledger) : Int := (l.ctor : Int) + l.mctor - l.dtor
/-- blocks held according to the ledger -/
def blocks (l : Ledger) : Int := (l.alloc : Int) - l.dealloc
@[simp] theorem net_addCtor (l : Ledger) (n : Nat) : (l.addCtor n).net = l.net + n := by simp [net, addCtor]; omega
@[simp] theorem net_addMctor (l : Ledger) (n : Nat) : (l.addMctor n).net = l.net + n := by simp [net, addMctor]; omega
@[simp] theorem net_addDtor (l : Ledger) (n : Nat) : (l.addDtor n).net = l.net - n := by simp [net, addDtor]; omega
@[simp] theorem net_addAsg (l : Ledger) (n : Nat) : (l.addAsg n).net = l.net := by simp [net, addAsg]
@[simp] theorem net_addMasg (l : Ledger) (n : Nat) : (l.addMasg n).net = l.net := by simp [net, addMasg]
@[simp] theorem net_addAlloc (l : Ledger) (n : Nat) : (l.addAlloc n).net = l.net := by simp [net, addAlloc]
@[simp] theorem net_addDealloc (l : Ledger) (n : Nat) : (l.addDealloc n).net = l.net := by simp [net, addDealloc]
@[simp] theorem blocks_addCtor (l : Ledger) (n : Nat) : (l.addCtor n).blocks = l.blocks := by simp [blocks, addCtor]
@[simp] theorem blocks_addMctor (l : Ledger) (n : Nat) : (l.addMctor n).blocks = l.blocks := by simp [blocks, addMctor]
@[simp] theorem blocks_addDtor (l : Ledger) (n : Nat) : (l.addDtor n).blocks = l.blocks := by simp [blocks, addDtor]
@[simp] theorem blocks_addAsg (l : Ledger) (n : Nat) : (l.addAsg n).blocks = l.blocks := by simp [blocks, addAsg]
@[simp] theorem blocks_addMasg (l : Ledger) (n : Nat) : (l.addMasg n).blocks = l.blocks := by simp [blocks, addMasg]
@[simp] theorem blocks_addAlloc (l : Ledger) (n : Nat) : (l.addAlloc n).blocks = l.blocks + n := by simp [blocks, addAlloc]; omega
@[simp] theorem blocks_addDealloc (l : Ledger) (n : Nat) : (l.addDealloc n).blocks = l.blocks - n := by simp [blocks, addDealloc]; omega
end Ledger

/-! ### slot events on known slots -/

theorem construct_raw {b : Buf} {i : Nat} (v : Val) (h : i < b.n) (hs : b.s i = .raw) :
    construct b i v = some (b.put i (.live v)) := by
  simp [construct, Buf.get, h, hs]

theorem destroy_obj {b : Buf} {i : Nat} (h : i < b.n) (hs : b.s i ≠ .raw) :
    destroy b i = some (b.put i .raw) := by
  unfold destroy
  simp only [Buf.get, h, if_true]
  cases hh : b.s i <;> simp_all

theorem assign_obj {b : Buf} {i : Nat} (v : Val) (h : i < b.n) (hs : b.s i ≠ .raw) :
    assign b i v = some (b.put i (.live v)) := by
  unfold assign
  simp only [Buf.get, h, if_true]
  cases hh : b.s i <;> simp_all

theorem rd_live {b : Buf} {i : Nat} {v : Val} (h : i < b.n) (hs : b.s i = .live v) : rd b i = some v := by
  simp [rd, Buf.get, h, hs]

theorem moveOut_live {b : Buf} {i : Nat} {v : Val} (h : i < b.n) (hs : b.s i = .live v) :
    moveOut b i = some (v, b.put i .moved) := by
  simp [moveOut, Buf.get, h, hs]

theorem Buf.ext' {a b : Buf} (hn : a.n = b.n) (hs : ∀ j, a.s j = b.s j) : a = b := by
  cases a; cases b; simp at hn hs ⊢; exact ⟨hn, funext hs⟩

/-! ### loops -/

theorem destroyRange_ok (b : Buf) (i n : Nat) (l : Ledger)
    (h : ∀ j, i ≤ j → j < i + n → j < b.n ∧ b.s j ≠ .raw) :
    destroyRange b i n l =
      some (⟨b.n, fun j => if i ≤ j ∧ j < i + n then .raw else b.s j⟩, l.addDtor n) := by
  induction n generalizing b i l with
  | zero =>
    simp only [destroyRange, Ledger.addDtor_zero]
    congr 2
    apply Buf.ext'
    · rfl
    · intro j; simp; omega
  | succ n ih =>
    have h0 := h i (Nat.le_refl _) (by omega)
    simp only [destroyRange, destroy_obj h0.1 h0.2]
    rw [ih]
    · simp only [Ledger.addDtor_addDtor, Nat.add_comm 1 n]
      congr 2
      apply Buf.ext'
      · rfl
      · intro j; simp only [Buf.put]
        grind
    · intro j h1 h2
      have := h j (by omega) (by omega)
      simp only [Buf.put]
      grind

theorem moveCtorLoop_ok (f : Nat → Val) (ob nb : Buf) (i n : Nat) (l : Ledger)
    (h : ∀ j, i ≤ j → j < i + n → j < ob.n ∧ ob.s j = .live (f j) ∧ j < nb.n ∧ nb.s j = .raw) :
    moveCtorLoop ob nb i n l =
      some (⟨ob.n, fun j => if i ≤ j ∧ j < i + n then .moved else ob.s j⟩,
            ⟨nb.n, fun j => if i ≤ j ∧ j < i + n then .live (f j) else nb.s j⟩, l.addMctor n) := by
  induction n generalizing ob nb i l with
  | zero =>
    simp only [moveCtorLoop, Ledger.addMctor_zero]
    congr 2
    · apply Buf.ext'
      · rfl
      · intro j; simp; omega
    · congr 1
      apply Buf.ext'
      · rfl
      · intro j; simp; omega
  | succ n ih =>
    have h0 := h i (Nat.le_refl _) (by omega)
    simp only [moveCtorLoop, moveOut_live h0.1 h0.2.1, construct_raw (f i) h0.2.2.1 h0.2.2.2]
    rw [ih]
    · simp only [Ledger.addMctor_addMctor, Nat.add_comm 1 n]
      congr 2
      · apply Buf.ext'
        · rfl
        · intro j; simp only [Buf.put]; grind
      · congr 1
        apply Buf.ext'
        · rfl
        · intro j; simp only [Buf.put]; grind
    · intro j h1 h2
      have := h j (by omega) (by omega)
      simp only [Buf.put]
      grind

theorem copyLoop_ok (f : Nat → Val) (o nb : Buf) (i n : Nat) (l : Ledger)
    (h : ∀ j, i ≤ j → j < i + n → j < o.n ∧ o.s j = .live (f j) ∧ j < nb.n ∧ nb.s j = .raw) :
    copyLoop (some o) nb i n l =
      some (⟨nb.n, fun j => if i ≤ j ∧ j < i + n then .live (f j) else nb.s j⟩, l.addCtor n) := by
  induction n generalizing nb i l with
  | zero =>
    simp only [copyLoop, Ledger.addCtor_zero]
    congr 2
    apply Buf.ext'
    · rfl
    · intro j; simp; omega
  | succ n ih =>
    have h0 := h i (Nat.le_refl _) (by omega)
    simp only [copyLoop, rd_live h0.1 h0.2.1, construct_raw (f i) h0.2.2.1 h0.2.2.2]
    rw [ih]
    · simp only [Ledger.addCtor_addCtor, Nat.add_comm 1 n]
      congr 2
      apply Buf.ext'
      · rfl
      · intro j; simp only [Buf.put]; grind
    · intro j h1 h2
      have := h j (by omega) (by omega)
      simp only [Buf.put]
      grind

theorem copyLoop_zero (ob : Option Buf) (nb : Buf) (i : Nat) (l : Ledger) :
    copyLoop ob nb i 0 l = some (nb, l) := by simp [copyLoop]

theorem defaultLoop_ok (b : Buf) (i n : Nat) (l : Ledger)
    (h : ∀ j, i ≤ j → j < i + n → j < b.n ∧ b.s j = .raw) :
    defaultLoop b i n l =
      some (⟨b.n, fun j => if i ≤ j ∧ j < i + n then .live 0 else b.s j⟩, l.addCtor n) := by
  induction n generalizing b i l with
  | zero =>
    simp only [defaultLoop, Ledger.addCtor_zero]
    congr 2
    apply Buf.ext'
    · rfl
    · intro j; simp; omega
  | succ n ih =>
    have h0 := h i (Nat.le_refl _) (by omega)
    simp only [defaultLoop, construct_raw 0 h0.1 h0.2]
    rw [ih]
    · simp only [Ledger.addCtor_addCtor, Nat.add_comm 1 n]
      congr 2
      apply Buf.ext'
      · rfl
      · intro j; simp only [Buf.put]; grind
    · intro j h1 h2
      have := h j (by omega) (by omega)
      simp only [Buf.put]
      grind

/-- the ledger part of `shiftUp` -/
def shiftLed (size pos k : Nat) : Nat → Ledger → Ledger
  | 0, l => l
  | cnt + 1, l => shiftLed size pos k cnt (if pos + cnt + k ≥ size then l.addMctor 1 else l.addMasg 1)

theorem shiftLed_net (size pos k cnt : Nat) (l : Ledger) :
    (shiftLed size pos k cnt l).net = l.net + ((cnt - min cnt (size - pos - k) : Nat) : Int) ∧
    (shiftLed size pos k cnt l).blocks = l.blocks := by
  induction cnt generalizing l with
  | zero => simp [shiftLed]
  | succ n ih =>
    simp only [shiftLed]
    split
    · rw [(ih _).1, (ih _).2]; simp; omega
    · rw [(ih _).1, (ih _).2]; simp; omega

theorem shiftUp_ok (f : Nat → Val) (b : Buf) (size pos k cnt : Nat) (l : Ledger)
    (hk : 0 < k) (hc : pos + cnt ≤ size) (hn : size + k ≤ b.n)
    (hlive : ∀ j, pos ≤ j → j < pos + cnt → b.s j = .live (f j))
    (hgap : ∀ j, pos + cnt ≤ j → j < pos + cnt + k → (j < size → b.s j = .moved) ∧ (size ≤ j → b.s j = .raw)) :
    shiftUp b size pos k cnt l =
      some (⟨b.n, fun j =>
              if pos ≤ j ∧ j < pos + k then (if j < size then .moved else .raw)
              else if pos + k ≤ j ∧ j < pos + cnt + k then .live (f (j - k))
              else b.s j⟩, shiftLed size pos k cnt l) := by
  induction cnt generalizing b l with
  | zero =>
    simp only [shiftUp, shiftLed]
    congr 2
    apply Buf.ext'
    · rfl
    · intro j
      have := hgap j
      simp only
      grind
  | succ n ih =>
    have hl := hlive (pos + n) (by omega) (by omega)
    have hg := hgap (pos + n + k) (by omega) (by omega)
    simp only [shiftUp, moveOut_live (show pos + n < b.n by omega) hl]
    by_cases hd : pos + n + k ≥ size
    · have hraw : (b.put (pos + n) .moved).s (pos + n + k) = .raw := by
        simp only [Buf.put]; rw [if_neg (by omega)]; exact hg.2 hd
      simp only [hd, if_true, construct_raw (f (pos + n)) (show pos + n + k < (b.put (pos + n) .moved).n by simp [Buf.put]; omega) hraw, shiftLed]
      rw [ih]
      · congr 2
        apply Buf.ext'
        · rfl
        · intro j; simp only [Buf.put]; grind
      · omega
      · simp [Buf.put]; omega
      · intro j h1 h2
        have := hlive j h1 (by omega)
        simp only [Buf.put]; grind
      · intro j h1 h2
        have := hgap j
        simp only [Buf.put]; grind
    · have hmv : (b.put (pos + n) .moved).s (pos + n + k) ≠ .raw := by
        simp only [Buf.put]; rw [if_neg (by omega)]; rw [hg.1 (by omega)]; simp
      simp only [hd, if_false, assign_obj (f (pos + n)) (show pos + n + k < (b.put (pos + n) .moved).n by simp [Buf.put]; omega) hmv, shiftLed]
      rw [ih]
      · congr 2
        apply Buf.ext'
        · rfl
        · intro j; simp only [Buf.put]; grind
      · omega
      · simp [Buf.put]; omega
      · intro j h1 h2
        have := hlive j h1 (by omega)
        simp only [Buf.put]; grind
      · intro j h1 h2
        have := hgap j
        simp only [Buf.put]; grind

/-- the ledger part of `fillLoop` -/
def fillLed (pos oldsize : Nat) (k : Nat) : Nat → Ledger → Ledger
  | 0, l => l
  | n + 1, l => fillLed pos oldsize (k + 1) n (if pos + k < oldsize then l.addAsg 1 else l.addCtor 1)

theorem fillLed_net (pos oldsize k n : Nat) (l : Ledger) :
    (fillLed pos oldsize k n l).net = l.net + ((n - min n (oldsize - pos - k) : Nat) : Int) ∧
    (fillLed pos oldsize k n l).blocks = l.blocks := by
  induction n generalizing l k with
  | zero => simp [fillLed]
  | succ n ih =>
    simp only [fillLed]
    split
    · rw [(ih _ _).1, (ih _ _).2]; simp; omega
    · rw [(ih _ _).1, (ih _ _).2]; simp; omega

theorem fillLoop_ok (g : Nat → Val) (b : Buf) (pos oldsize sz : Nat) (src : Src) (k n : Nat) (l : Ledger)
    (hkn : k + n ≤ sz)
    (hsrc : ∀ k', k ≤ k' → k' < k + n → ∀ b' : Buf, b'.n = b.n →
        (∀ j, ¬ (pos ≤ j ∧ j < pos + sz) → b'.s j = b.s j) → srcVal b' pos sz src k' = some (g k'))
    (hdst : ∀ j, pos + k ≤ j → j < pos + k + n →
        j < b.n ∧ (j < oldsize → b.s j ≠ .raw) ∧ (oldsize ≤ j → b.s j = .raw)) :
    fillLoop b pos oldsize sz src k n l =
      some (⟨b.n, fun j => if pos + k ≤ j ∧ j < pos + k + n then .live (g (j - pos)) else b.s j⟩,
            fillLed pos oldsize k n l) := by
  induction n generalizing b k l with
  | zero =>
    simp only [fillLoop, fillLed]
    congr 2
    apply Buf.ext'
    · rfl
    · intro j; simp; omega
  | succ n ih =>
    have hs := hsrc k (Nat.le_refl _) (by omega) b rfl (fun _ _ => rfl)
    have hd := hdst (pos + k) (Nat.le_refl _) (by omega)
    simp only [fillLoop, hs, fillLed]
    by_cases hlt : pos + k < oldsize
    · simp only [hlt, if_true, assign_obj (g k) hd.1 (hd.2.1 hlt)]
      rw [ih]
      · congr 2
        apply Buf.ext'
        · rfl
        · intro j; simp only [Buf.put]; grind
      · omega
      · intro k' h1 h2 b' hb' hag
        apply hsrc k' (by omega) (by omega) b' (by simpa [Buf.put] using hb')
        intro j hj
        rw [hag j hj]; simp only [Buf.put]; rw [if_neg]; omega
      · intro j h1 h2
        have := hdst j (by omega) (by omega)
        simp only [Buf.put]; grind
    · simp only [hlt, if_false, construct_raw (g k) hd.1 (hd.2.2 (by omega))]
      rw [ih]
      · congr 2
        apply Buf.ext'
        · rfl
        · intro j; simp only [Buf.put]; grind
      · omega
      · intro k' h1 h2 b' hb' hag
        apply hsrc k' (by omega) (by omega) b' (by simpa [Buf.put] using hb')
        intro j hj
        rw [hag j hj]; simp only [Buf.put]; rw [if_neg]; omega
      · intro j h1 h2
        have := hdst j (by omega) (by omega)
        simp only [Buf.put]; grind

theorem moveDown_ok (f : Nat → Val) (b : Buf) (src dst n : Nat) (l : Ledger)
    (hds : dst < src)
    (hsrc : ∀ j, src ≤ j → j < src + n → j < b.n ∧ b.s j = .live (f j))
    (hdst : ∀ j, dst ≤ j → j < dst + n → b.s j ≠ .raw) :
    moveDown b src dst n l =
      some (⟨b.n, fun j =>
              if dst ≤ j ∧ j < dst + n then .live (f (j + (src - dst)))
              else if src ≤ j ∧ j < src + n then .moved else b.s j⟩, l.addMasg n) := by
  induction n generalizing b src dst l with
  | zero =>
    simp only [moveDown, Ledger.addMasg_zero]
    congr 2
    apply Buf.ext'
    · rfl
    · intro j; simp only; grind
  | succ n ih =>
    have hs := hsrc src (Nat.le_refl _) (by omega)
    have hd := hdst dst (Nat.le_refl _) (by omega)
    have hd' : (b.put src .moved).s dst ≠ .raw := by
      simp only [Buf.put]; rw [if_neg (by omega)]; exact hd
    simp only [moveDown, moveOut_live hs.1 hs.2,
      assign_obj (f src) (show dst < (b.put src .moved).n by simp [Buf.put]; omega) hd']
    rw [ih]
    · simp only [Ledger.addMasg_addMasg, Nat.add_comm 1 n]
      congr 2
      apply Buf.ext'
      · rfl
      · intro j
        have e : src + 1 - (dst + 1) = src - dst := by omega
        simp only [Buf.put, e]
        have : dst + (src - dst) = src := by omega
        grind
    · omega
    · intro j h1 h2
      have := hsrc j (by omega) (by omega)
      simp only [Buf.put]; grind
    · intro j h1 h2
      by_cases hj : j = src
      · subst hj; simp only [Buf.put]; grind
      · have := hdst j (by omega) (by omega)
        simp only [Buf.put]; grind

/-! ### representation of a `List Val` by a vector -/

/-- slot `i` of a buffer that holds exactly the elements `xs` -/
def cell (xs : List Val) (i : Nat) : Slot := if i < xs.length then .live (xs.getD i 0) else .raw

def Rep (v : Vec) (xs : List Val) : Prop :=
  v.size = xs.length ∧
  match v.data with
  | none => v.cap = 0 ∧ xs = []
  | some b => b.n = v.cap ∧ xs.length ≤ v.cap ∧ ∀ i, b.s i = cell xs i

def held (v : Vec) : Int := if v.data.isSome then 1 else 0

structure Good (v : Vec) (xs : List Val) (l : Ledger) (v' : Vec) (xs' : List Val) (l' : Ledger) : Prop where
  rep : Rep v' xs'
  net : l'.net = l.net + xs'.length - xs.length
  blk : l'.blocks = l.blocks + held v' - held v

theorem cell_nil (i : Nat) : cell [] i = .raw := by simp [cell]

theorem cell_snoc (xs : List Val) (x : Val) (i : Nat) :
    cell (xs ++ [x]) i = if i = xs.length then .live x else cell xs i := by
  simp only [cell, List.length_append, List.length_singleton, List.getD_eq_getElem?_getD, List.getElem?_append]
  grind

theorem cell_dropLast (xs : List Val) (i : Nat) :
    cell xs.dropLast i = if i + 1 < xs.length then cell xs i else .raw := by
  simp only [cell, List.length_dropLast, List.getD_eq_getElem?_getD, List.getElem?_dropLast]
  grind

theorem cell_take (xs : List Val) (k i : Nat) :
    cell (xs.take k) i = if i < k then cell xs i else .raw := by
  simp only [cell, List.length_take, List.getD_eq_getElem?_getD, List.getElem?_take]
  grind

theorem cell_insertAt (xs ys : List Val) (p i : Nat) (hp : p ≤ xs.length) :
    cell (insertAt xs p ys) i =
      if i < p then cell xs i else if i < p + ys.length then .live (ys.getD (i - p) 0) else cell xs (i - ys.length) := by
  simp only [cell, insertAt, List.length_append, List.length_take, List.length_drop,
    List.getD_eq_getElem?_getD, List.getElem?_append, List.getElem?_take, List.getElem?_drop]
  grind

theorem cell_erase (xs : List Val) (a b i : Nat) (hab : a ≤ b) (hb : b ≤ xs.length) :
    cell (xs.take a ++ xs.drop b) i = if i < a then cell xs i else cell xs (i + (b - a)) := by
  simp only [cell, List.length_append, List.length_take, List.length_drop,
    List.getD_eq_getElem?_getD, List.getElem?_append, List.getElem?_take, List.getElem?_drop]
  grind

theorem cell_resize (xs : List Val) (n i : Nat) :
    cell (xs.take n ++ List.replicate (n - xs.length) 0) i =
      if i < n then (if i < xs.length then cell xs i else .live 0) else .raw := by
  simp only [cell, List.length_append, List.length_take, List.length_replicate,
    List.getD_eq_getElem?_getD, List.getElem?_append, List.getElem?_take, List.getElem?_replicate]
  grind

theorem cell_replicate (n i : Nat) : cell (List.replicate n 0) i = if i < n then .live 0 else .raw := by
  simp only [cell, List.length_replicate, List.getD_eq_getElem?_getD, List.getElem?_replicate]
  grind

theorem getD_sub (xs : List Val) (f t k : Nat) (hk : k < t - f) :
    ((xs.drop f).take (t - f)).getD k 0 = xs.getD (f + k) 0 := by
  simp only [List.getD_eq_getElem?_getD, List.getElem?_take, List.getElem?_drop, hk, if_true]

theorem cell_live {xs : List Val} {i : Nat} (h : i < xs.length) : cell xs i = .live (xs.getD i 0) := by
  simp [cell, h]
theorem cell_raw {xs : List Val} {i : Nat} (h : xs.length ≤ i) : cell xs i = .raw := by
  simp [cell]; omega
theorem cell_ne_raw {xs : List Val} {i : Nat} (h : i < xs.length) : cell xs i ≠ .raw := by
  simp [cell, h]

theorem deallocOk_of (b : Buf) (cap : Nat) (hn : b.n = cap) (h : ∀ j, j < b.n → b.s j = .raw) :
    deallocOk b cap = true := by
  simp only [deallocOk, Buf.allRaw, hn, beq_self_eq_true, Bool.true_and, List.all_eq_true, List.mem_range]
  intro j hj
  simp [h j (by omega)]

theorem Rep.nil : Rep Vec.empty [] := by simp [Rep, Vec.empty]

theorem changeBuffer_good {v : Vec} {xs : List Val} (h : Rep v xs) (sz : Nat) (hsz : xs.length ≤ sz) (l : Ledger) :
    ∃ l', changeBuffer v sz l = some (⟨some ⟨sz, cell xs⟩, sz, xs.length⟩, l') ∧
      l'.net = l.net ∧ l'.blocks = l.blocks + 1 - held v := by
  obtain ⟨hs, hr⟩ := h
  unfold changeBuffer
  cases hd : v.data with
  | none =>
    rw [hd] at hr
    obtain ⟨_, rfl⟩ := hr
    refine ⟨l.addAlloc 1, ?_, ?_, ?_⟩
    · simp only [Buf.fresh, hs, List.length_nil]
      congr 3
    · simp
    · simp [held, hd]
  | some b =>
    rw [hd] at hr
    obtain ⟨hn, hle, hc⟩ := hr
    simp only
    rw [moveCtorLoop_ok (fun j => xs.getD j 0)]
    · simp only
      rw [destroyRange_ok]
      · simp only
        rw [deallocOk_of]
        · refine ⟨(((l.addAlloc 1).addMctor v.size).addDtor v.size).addDealloc 1, ?_, ?_, ?_⟩
          · simp only [if_true, Buf.fresh, hs]
            congr 3
            apply congrArg
            apply Buf.ext'
            · rfl
            · intro j; simp only [cell]; grind
          · simp
          · simp [held, hd]
        · exact hn
        · intro j hj
          simp only
          have := hc j
          simp only [cell] at this
          grind
      · intro j h1 h2
        simp only
        grind
    · intro j h1 h2
      have := hc j
      simp only [cell, Buf.fresh] at this ⊢
      grind

end Igris.C02
