import IgrisModel.C02.Alloc
import IgrisModel.C02.ExcLemmas
/-!
  C02 — lemmas about allocation failure (Alloc.lean) and about the comparison loops parametrised by the
  element relation.
-/
namespace Igris.C02

theorem set_self_regs (s : St) (r : Nat) (l : Ledger) (j : Nat) : (s.set r (s.regs r) l).regs j = s.regs j := by
  simp only [St.set]; split
  · next h => rw [h]
  · rfl

theorem changeBufferA_eq (af : AF) (idx : Nat) (v : Vec) (sz : Nat) (l : Ledger) :
    changeBufferA false af idx v sz l = if af.hit idx sz then .threw (v, l) else .ofOption (changeBuffer v sz l) := by
  simp [changeBufferA]

theorem changeBufferA_threw {af : AF} {idx : Nat} {v : Vec} {sz : Nat} {l : Ledger} {r : Vec × Ledger}
    (h : changeBufferA false af idx v sz l = .threw r) : r = (v, l) := by
  rw [changeBufferA_eq] at h
  split at h
  · simp at h; exact h.symm
  · cases hc : changeBuffer v sz l <;> simp [hc, Out.ofOption] at h

theorem reserveA_eq (af : AF) (idx : Nat) (v : Vec) (sz : Nat) (l : Ledger) :
    reserveA false af idx v sz l =
      if sz > v.cap ∧ af.hit idx sz = true then .threw (v, l) else .ofOption (reserve v sz l) := by
  unfold reserveA reserve
  by_cases h : sz > v.cap
  · simp only [h, if_true, changeBufferA_eq, true_and]
  · simp [h, Out.ofOption]

/-! the six growing operations: either the failure strikes (`threw`, the vector untouched, the ledger up by one
    temporary built and destroyed at most) or the call is the unarmed one -/

theorem emplaceBackA_eq (af : AF) (v : Vec) (a : Arg) (l : Ledger) :
    emplaceBackA false af 0 v a l =
      if v.size + 1 > v.cap ∧ af.hit 0 (v.size + 1) = true then
        (match argVal v a with
         | none => .fault
         | some _ => .threw (v, (l.addCtor 1).addDtor 1))
      else .ofOption (emplaceBack v a l) := by
  unfold emplaceBackA
  by_cases h : v.size + 1 > v.cap
  · simp only [h, if_true, true_and, changeBufferA_eq]
    cases ha : argVal v a with
    | none => simp [emplaceBack, h, ha, Out.ofOption]
    | some x => by_cases hh : af.hit 0 (v.size + 1) = true <;> simp [hh] <;>
        cases hc : changeBuffer v (v.size + 1) (l.addCtor 1) <;> simp [Out.ofOption, emplaceBack, h, ha, hc]
  · simp [h]

theorem emplaceA_eq (af : AF) (v : Vec) (pos : Nat) (a : Arg) (l : Ledger) :
    emplaceA false af v pos a l =
      if v.size + 1 > v.cap ∧ af.hit 0 (v.size + 1) = true then
        (match argVal v a with
         | none => .fault
         | some _ => .threw (v, (l.addCtor 1).addDtor 1))
      else .ofOption (emplace v pos a l) := by
  unfold emplaceA
  cases ha : argVal v a with
  | none => simp [emplace, ha, Out.ofOption]
  | some x =>
    simp only [reserveA_eq]
    by_cases hh : v.size + 1 > v.cap ∧ af.hit 0 (v.size + 1) = true
    · simp [hh]
    · simp only [hh, if_false]
      cases hr : reserve v (v.size + 1) (l.addCtor 1) <;> simp [Out.ofOption, emplace, ha, hr]

/-- the bisection of insert_sorted (reads only) -/
def sortedPos (v : Vec) (x : Val) : Option Nat :=
  match v.data with
  | none => if v.size = 0 then some 0 else none
  | some b => upperBound b x v.size 0 v.size

theorem insertSorted_pos (v : Vec) (x : Val) (l : Ledger) :
    insertSorted v x l = (match sortedPos v x with
      | none => none
      | some p => match emplace v p (.val x) l with
        | none => none
        | some (v, l) => some (p, v, l)) := rfl

theorem insertSortedA_pos (af : AF) (v : Vec) (x : Val) (l : Ledger) :
    insertSortedA false af v x l = (match sortedPos v x with
      | none => .fault
      | some p => match emplaceA false af v p (.val x) l with
        | .threw (v', l') => .threw (p, v', l')
        | .fault => .fault
        | .ok _ => .ofOption (insertSorted v x l)) := rfl

theorem insertSortedA_eq (af : AF) (v : Vec) (x : Val) (l : Ledger) :
    insertSortedA false af v x l =
      if v.size + 1 > v.cap ∧ af.hit 0 (v.size + 1) = true then
        (match sortedPos v x with
         | none => .fault
         | some p => .threw (p, v, (l.addCtor 1).addDtor 1))
      else .ofOption (insertSorted v x l) := by
  rw [insertSortedA_pos]
  cases hp : sortedPos v x with
  | none => simp [insertSorted_pos, hp, Out.ofOption]
  | some p =>
    simp only [emplaceA_eq, argVal]
    by_cases hh : v.size + 1 > v.cap ∧ af.hit 0 (v.size + 1) = true
    · simp [hh]
    · simp only [hh, if_false]
      cases he : emplace v p (.val x) l <;> simp [Out.ofOption, he, insertSorted_pos, hp]

theorem insertRangeA_eq (af : AF) (v : Vec) (pos : Nat) (src : Src) (l : Ledger) :
    insertRangeA false af v pos src l =
      if src.count ≠ 0 ∧ v.size + src.count > v.cap ∧ af.hit 0 (v.size + src.count) = true then .threw (v, l)
      else .ofOption (insertRange v pos src l) := by
  unfold insertRangeA insertRange
  by_cases h0 : src.count = 0
  · simp [h0, Out.ofOption]
  · simp only [h0, if_false, reserveA_eq, ne_eq, not_false_eq_true, true_and]
    by_cases hh : v.size + src.count > v.cap ∧ af.hit 0 (v.size + src.count) = true
    · simp [hh]
    · simp only [hh, if_false]
      cases hr : reserve v (v.size + src.count) l <;> simp [Out.ofOption, hr]

theorem resizeA_eq (af : AF) (v : Vec) (n : Nat) (l : Ledger) :
    resizeA false af v n l =
      if n > v.cap ∧ af.hit 0 n = true then .threw (v, l) else .ofOption (resize v n l) := by
  unfold resizeA resize
  simp only [reserveA_eq]
  by_cases hh : n > v.cap ∧ af.hit 0 n = true
  · simp [hh]
  · simp only [hh, if_false]
    cases hr : reserve v n l <;> simp [Out.ofOption, hr]

/-- the call is the unarmed one when the failure does not strike -/
theorem stepA_not_failed (portable : Bool) (s : St) (af : AF) (op : Op) (hop : op.growsInPlace = true)
    (h : allocFails s af op = false) : stepA false portable s af op = .ofOption (step portable s op) := by
  cases op <;> simp only [Op.growsInPlace] at hop <;> try (exact absurd hop (by decide))
  all_goals simp only [allocFails, allocRequest] at h
  · -- emplaceBack
    rename_i r a
    simp only [stepA, step, emplaceBackA_eq]
    have : ¬ ((s.regs r).size + 1 > (s.regs r).cap ∧ af.hit 0 ((s.regs r).size + 1) = true) := by
      intro ⟨h1, h2⟩; simp [show (s.regs r).cap < (s.regs r).size + 1 from h1, h2] at h
    simp only [this, if_false]
    cases emplaceBack (s.regs r) a s.led <;> simp [Out.ofOption]
  · -- emplace
    rename_i r pos a
    simp only [stepA, step, emplaceA_eq]
    have : ¬ ((s.regs r).size + 1 > (s.regs r).cap ∧ af.hit 0 ((s.regs r).size + 1) = true) := by
      intro ⟨h1, h2⟩; simp [show (s.regs r).cap < (s.regs r).size + 1 from h1, h2] at h
    simp only [this, if_false]
    cases emplace (s.regs r) pos a s.led <;> simp [Out.ofOption]
  · -- insertRange
    rename_i r pos src
    simp only [stepA, step, insertRangeA_eq]
    have : ¬ (src.count ≠ 0 ∧ (s.regs r).size + src.count > (s.regs r).cap ∧ af.hit 0 ((s.regs r).size + src.count) = true) := by
      intro ⟨h0, h1, h2⟩
      simp [h0, show (s.regs r).cap < (s.regs r).size + src.count from h1, h2] at h
    simp only [this, if_false]
    cases insertRange (s.regs r) pos src s.led <;> simp [Out.ofOption]
  · -- insertSorted
    rename_i r x
    simp only [stepA, step, insertSortedA_eq]
    have : ¬ ((s.regs r).size + 1 > (s.regs r).cap ∧ af.hit 0 ((s.regs r).size + 1) = true) := by
      intro ⟨h1, h2⟩; simp [show (s.regs r).cap < (s.regs r).size + 1 from h1, h2] at h
    simp only [this, if_false]
    cases insertSorted (s.regs r) x s.led <;> simp [Out.ofOption]
  · -- resize
    rename_i r n
    simp only [stepA, step, resizeA_eq]
    have : ¬ (n > (s.regs r).cap ∧ af.hit 0 n = true) := by
      intro ⟨h1, h2⟩; simp [show (s.regs r).cap < n from h1, h2] at h
    simp only [this, if_false]
    cases resize (s.regs r) n s.led <;> simp [Out.ofOption]
  · -- reserve
    rename_i r n
    simp only [stepA, step, reserveA_eq]
    have : ¬ (n > (s.regs r).cap ∧ af.hit 0 n = true) := by
      intro ⟨h1, h2⟩; simp [show (s.regs r).cap < n from h1, h2] at h
    simp only [this, if_false]
    cases reserve (s.regs r) n s.led <;> simp [Out.ofOption]

theorem blocks_ctor_dtor (l : Ledger) : ((l.addCtor 1).addDtor 1).blocks = l.blocks := by
  simp [Ledger.blocks, Ledger.addCtor, Ledger.addDtor]

theorem net_ctor_dtor (l : Ledger) : ((l.addCtor 1).addDtor 1).net = l.net := by simp

theorem emplaceBackA_threw {af : AF} {v : Vec} {a : Arg} {l : Ledger} {v' : Vec} {l' : Ledger}
    (h : emplaceBackA false af 0 v a l = .threw (v', l')) : v' = v ∧ l'.net = l.net ∧ l'.blocks = l.blocks := by
  rw [emplaceBackA_eq] at h
  split at h
  · cases ha : argVal v a <;> simp [ha] at h
    obtain ⟨rfl, rfl⟩ := h
    exact ⟨rfl, net_ctor_dtor l, blocks_ctor_dtor l⟩
  · cases he : emplaceBack v a l <;> simp [he, Out.ofOption] at h

theorem emplaceA_threw {af : AF} {v : Vec} {pos : Nat} {a : Arg} {l : Ledger} {v' : Vec} {l' : Ledger}
    (h : emplaceA false af v pos a l = .threw (v', l')) : v' = v ∧ l'.net = l.net ∧ l'.blocks = l.blocks := by
  rw [emplaceA_eq] at h
  split at h
  · cases ha : argVal v a <;> simp [ha] at h
    obtain ⟨rfl, rfl⟩ := h
    exact ⟨rfl, net_ctor_dtor l, blocks_ctor_dtor l⟩
  · cases he : emplace v pos a l <;> simp [he, Out.ofOption] at h

theorem insertSortedA_threw {af : AF} {v : Vec} {x : Val} {l : Ledger} {p : Nat} {v' : Vec} {l' : Ledger}
    (h : insertSortedA false af v x l = .threw (p, v', l')) : v' = v ∧ l'.net = l.net ∧ l'.blocks = l.blocks := by
  rw [insertSortedA_eq] at h
  split at h
  · cases hp : sortedPos v x <;> simp [hp] at h
    obtain ⟨_, rfl, rfl⟩ := h
    exact ⟨rfl, net_ctor_dtor l, blocks_ctor_dtor l⟩
  · cases he : insertSorted v x l <;> simp [he, Out.ofOption] at h

theorem insertRangeA_threw {af : AF} {v : Vec} {pos : Nat} {src : Src} {l : Ledger} {v' : Vec} {l' : Ledger}
    (h : insertRangeA false af v pos src l = .threw (v', l')) : v' = v ∧ l'.net = l.net ∧ l'.blocks = l.blocks := by
  rw [insertRangeA_eq] at h
  split at h
  · simp at h; obtain ⟨rfl, rfl⟩ := h; exact ⟨rfl, rfl, rfl⟩
  · cases he : insertRange v pos src l <;> simp [he, Out.ofOption] at h

theorem resizeA_threw {af : AF} {v : Vec} {n : Nat} {l : Ledger} {v' : Vec} {l' : Ledger}
    (h : resizeA false af v n l = .threw (v', l')) : v' = v ∧ l'.net = l.net ∧ l'.blocks = l.blocks := by
  rw [resizeA_eq] at h
  split at h
  · simp at h; obtain ⟨rfl, rfl⟩ := h; exact ⟨rfl, rfl, rfl⟩
  · cases he : resize v n l <;> simp [he, Out.ofOption] at h

theorem reserveA_threw {af : AF} {v : Vec} {n : Nat} {l : Ledger} {v' : Vec} {l' : Ledger}
    (h : reserveA false af 0 v n l = .threw (v', l')) : v' = v ∧ l'.net = l.net ∧ l'.blocks = l.blocks := by
  rw [reserveA_eq] at h
  split at h
  · simp at h; obtain ⟨rfl, rfl⟩ := h; exact ⟨rfl, rfl, rfl⟩
  · cases he : reserve v n l <;> simp [he, Out.ofOption] at h

/-- a failed allocation leaves every register exactly as it was (block, capacity, size, contents) and the
    ledger balanced as before -/
theorem stepA_threw_same (portable : Bool) (s : St) (af : AF) (op : Op) (hop : op.growsInPlace = true)
    {s' : St} {r : Ret} (h : stepA false portable s af op = .threw (s', r)) :
    (∀ j, s'.regs j = s.regs j) ∧ s'.led.net = s.led.net ∧ s'.led.blocks = s.led.blocks ∧ r = .throw := by
  cases op <;> simp only [Op.growsInPlace] at hop <;> try (exact absurd hop (by decide))
  · rename_i r0 a
    simp only [stepA] at h
    cases hX : emplaceBackA false af 0 (s.regs r0) a s.led with
    | ok x => simp [hX] at h
    | fault => simp [hX] at h
    | threw x =>
      obtain ⟨v, l⟩ := x
      simp [hX] at h
      obtain ⟨rfl, rfl⟩ := h
      obtain ⟨rfl, hn, hb⟩ := emplaceBackA_threw hX
      exact ⟨set_self_regs s r0 _, hn, hb, rfl⟩
  · rename_i r0 pos a
    simp only [stepA] at h
    cases hX : emplaceA false af (s.regs r0) pos a s.led with
    | ok x => simp [hX] at h
    | fault => simp [hX] at h
    | threw x =>
      obtain ⟨v, l⟩ := x
      simp [hX] at h
      obtain ⟨rfl, rfl⟩ := h
      obtain ⟨rfl, hn, hb⟩ := emplaceA_threw hX
      exact ⟨set_self_regs s r0 _, hn, hb, rfl⟩
  · rename_i r0 pos src
    simp only [stepA] at h
    cases hX : insertRangeA false af (s.regs r0) pos src s.led with
    | ok x => simp [hX] at h
    | fault => simp [hX] at h
    | threw x =>
      obtain ⟨v, l⟩ := x
      simp [hX] at h
      obtain ⟨rfl, rfl⟩ := h
      obtain ⟨rfl, hn, hb⟩ := insertRangeA_threw hX
      exact ⟨set_self_regs s r0 _, hn, hb, rfl⟩
  · rename_i r0 x
    simp only [stepA] at h
    cases hX : insertSortedA false af (s.regs r0) x s.led with
    | ok x => simp [hX] at h
    | fault => simp [hX] at h
    | threw y =>
      obtain ⟨p, v, l⟩ := y
      simp [hX] at h
      obtain ⟨rfl, rfl⟩ := h
      obtain ⟨rfl, hn, hb⟩ := insertSortedA_threw hX
      exact ⟨set_self_regs s r0 _, hn, hb, rfl⟩
  · rename_i r0 n
    simp only [stepA] at h
    cases hX : resizeA false af (s.regs r0) n s.led with
    | ok x => simp [hX] at h
    | fault => simp [hX] at h
    | threw x =>
      obtain ⟨v, l⟩ := x
      simp [hX] at h
      obtain ⟨rfl, rfl⟩ := h
      obtain ⟨rfl, hn, hb⟩ := resizeA_threw hX
      exact ⟨set_self_regs s r0 _, hn, hb, rfl⟩
  · rename_i r0 n
    simp only [stepA] at h
    cases hX : reserveA false af 0 (s.regs r0) n s.led with
    | ok x => simp [hX] at h
    | fault => simp [hX] at h
    | threw x =>
      obtain ⟨v, l⟩ := x
      simp [hX] at h
      obtain ⟨rfl, rfl⟩ := h
      obtain ⟨rfl, hn, hb⟩ := reserveA_threw hX
      exact ⟨set_self_regs s r0 _, hn, hb, rfl⟩

/-- when the failure strikes and the unarmed call would run (no fault), the armed call is left by the exception -/
theorem stepA_failed (portable : Bool) (s : St) (af : AF) (op : Op) (hop : op.growsInPlace = true)
    (h : allocFails s af op = true) (hs : (step portable s op).isSome = true) :
    ∃ s', stepA false portable s af op = .threw (s', .throw) := by
  cases op <;> simp only [Op.growsInPlace] at hop <;> try (exact absurd hop (by decide))
  all_goals simp only [allocFails, allocRequest] at h
  · rename_i r a
    by_cases hc : (s.regs r).cap < (s.regs r).size + 1
    · simp [hc] at h
      simp only [stepA, emplaceBackA_eq]
      have : (s.regs r).size + 1 > (s.regs r).cap ∧ af.hit 0 ((s.regs r).size + 1) = true := ⟨hc, h⟩
      simp only [this, and_self, if_true]
      cases ha : argVal (s.regs r) a with
      | none => simp [step, emplaceBack, ha, this.1] at hs
      | some x => exact ⟨_, rfl⟩
    · simp [hc] at h
  · rename_i r pos a
    by_cases hc : (s.regs r).cap < (s.regs r).size + 1
    · simp [hc] at h
      simp only [stepA, emplaceA_eq]
      have : (s.regs r).size + 1 > (s.regs r).cap ∧ af.hit 0 ((s.regs r).size + 1) = true := ⟨hc, h⟩
      simp only [this, and_self, if_true]
      cases ha : argVal (s.regs r) a with
      | none => simp [step, emplace, ha] at hs
      | some x => exact ⟨_, rfl⟩
    · simp [hc] at h
  · rename_i r pos src
    by_cases hc : src.count ≠ 0 ∧ (s.regs r).cap < (s.regs r).size + src.count
    · simp [hc] at h
      simp only [stepA, insertRangeA_eq]
      have : src.count ≠ 0 ∧ (s.regs r).size + src.count > (s.regs r).cap ∧ af.hit 0 ((s.regs r).size + src.count) = true :=
        ⟨hc.1, hc.2, h⟩
      rw [if_pos this]
      exact ⟨_, rfl⟩
    · simp [hc] at h
  · rename_i r x
    by_cases hc : (s.regs r).cap < (s.regs r).size + 1
    · simp [hc] at h
      simp only [stepA, insertSortedA_eq]
      have : (s.regs r).size + 1 > (s.regs r).cap ∧ af.hit 0 ((s.regs r).size + 1) = true := ⟨hc, h⟩
      rw [if_pos this]
      cases hp : sortedPos (s.regs r) x with
      | none => simp [step, insertSorted_pos, hp] at hs
      | some p => exact ⟨_, rfl⟩
    · simp [hc] at h
  · rename_i r n
    by_cases hc : (s.regs r).cap < n
    · simp [hc] at h
      simp only [stepA, resizeA_eq]
      have : n > (s.regs r).cap ∧ af.hit 0 n = true := ⟨hc, h⟩
      rw [if_pos this]
      exact ⟨_, rfl⟩
    · simp [hc] at h
  · rename_i r n
    by_cases hc : (s.regs r).cap < n
    · simp [hc] at h
      simp only [stepA, reserveA_eq]
      have : n > (s.regs r).cap ∧ af.hit 0 n = true := ⟨hc, h⟩
      rw [if_pos this]
      exact ⟨_, rfl⟩
    · simp [hc] at h

/-- a state whose registers and balances are those of a state in the invariant is in the invariant -/
theorem SInv.of_same {R : Nat} {s s' : St} {f : Nat → List Val} (h : SInv R s f)
    (hr : ∀ j, s'.regs j = s.regs j) (hn : s'.led.net = s.led.net) (hb : s'.led.blocks = s.led.blocks) : SInv R s' f := by
  refine ⟨fun j => by rw [hr j]; exact h.rep j, by rw [hn]; exact h.net, ?_⟩
  rw [hb, h.blk]
  congr 1; funext j; rw [hr j]

/-! ### comparison under an arbitrary element relation -/

/-- the specification: same length and no position where the element type's `!=` holds -/
def listEqBy (ne : Val → Val → Bool) : List Val → List Val → Bool
  | [], [] => true
  | x :: xs, y :: ys => !ne x y && listEqBy ne xs ys
  | _, _ => false

/-- `std::lexicographical_compare` as a function on lists -/
def listLtBy (lt : Val → Val → Bool) : List Val → List Val → Bool
  | _, [] => false
  | [], _ :: _ => true
  | x :: xs, y :: ys => if lt x y then true else if lt y x then false else listLtBy lt xs ys

theorem rd_rep {v : Vec} {xs : List Val} (h : Rep v xs) {b : Buf} (hb : v.data = some b) {i : Nat} (hi : i < xs.length) :
    rd b i = some (xs.getD i 0) := by
  have h2 := h.2; rw [hb] at h2
  obtain ⟨hn, hc, hcell⟩ := h2
  unfold rd Buf.get
  have : i < b.n := by omega
  simp [this, hcell i, cell, hi]

theorem listEqBy_drop (ne : Val → Val → Bool) (xs ys : List Val) (i : Nat) (hx : i < xs.length) (hy : i < ys.length) :
    listEqBy ne (xs.drop i) (ys.drop i) = (!ne (xs.getD i 0) (ys.getD i 0) && listEqBy ne (xs.drop (i + 1)) (ys.drop (i + 1))) := by
  rw [List.drop_eq_getElem_cons hx, List.drop_eq_getElem_cons hy]
  simp [listEqBy, List.getD_eq_getElem?_getD, List.getElem?_eq_getElem hx, List.getElem?_eq_getElem hy]

theorem eqLoopBy_ok (ne : Val → Val → Bool) {a b : Vec} {xs ys : List Val} (ha : Rep a xs) (hb : Rep b ys)
    (hl : xs.length = ys.length) (i n : Nat) (hin : i + n = xs.length) :
    eqLoopBy ne a b i n = some (listEqBy ne (xs.drop i) (ys.drop i)) := by
  induction n generalizing i with
  | zero =>
    have h1 : xs.drop i = [] := List.drop_eq_nil_of_le (by omega)
    have h2 : ys.drop i = [] := List.drop_eq_nil_of_le (by omega)
    simp [eqLoopBy, h1, h2, listEqBy]
  | succ n ih =>
    have hx : i < xs.length := by omega
    have hy : i < ys.length := by omega
    unfold eqLoopBy
    cases hda : a.data with
    | none =>
      have := ha.2; rw [hda] at this; have := this.2; simp [this] at hx
    | some x =>
      cases hdb : b.data with
      | none =>
        have := hb.2; rw [hdb] at this; have := this.2; simp [this] at hy
      | some y =>
        simp only [rd_rep ha hda hx, rd_rep hb hdb hy]
        rw [listEqBy_drop ne xs ys i hx hy]
        cases hne : ne (xs.getD i 0) (ys.getD i 0)
        · simp [ih (i + 1) (by omega)]
        · simp

theorem vecEqBy_ok (ne : Val → Val → Bool) {a b : Vec} {xs ys : List Val} (ha : Rep a xs) (hb : Rep b ys) :
    vecEqBy ne a b = some (listEqBy ne xs ys) := by
  unfold vecEqBy
  by_cases hl : xs.length = ys.length
  · have := eqLoopBy_ok ne ha hb hl 0 xs.length (by omega)
    simpa [ha.1, hb.1, hl] using this
  · have : listEqBy ne xs ys = false := by
      clear ha hb
      induction xs generalizing ys with
      | nil => cases ys <;> simp_all [listEqBy]
      | cons x xs ih => cases ys with
        | nil => simp [listEqBy]
        | cons y ys => simp only [listEqBy]; rw [ih (by simpa using hl)]; simp
    simp [ha.1, hb.1, hl, this]

/-- with the equality of the values as element relation the specification is list equality -/
theorem listEqBy_eq (xs ys : List Val) : listEqBy (fun p q => p != q) xs ys = decide (xs = ys) := by
  induction xs generalizing ys with
  | nil => cases ys <;> simp [listEqBy]
  | cons x xs ih => cases ys with
    | nil => simp [listEqBy]
    | cons y ys => by_cases hxy : x = y <;> simp [listEqBy, ih ys, hxy]

/-- the specification in words: equal lengths and the element `!=` false at every index -/
theorem listEqBy_iff (ne : Val → Val → Bool) (xs ys : List Val) :
    listEqBy ne xs ys = true ↔ xs.length = ys.length ∧ ∀ i, i < xs.length → ne (xs.getD i 0) (ys.getD i 0) = false := by
  induction xs generalizing ys with
  | nil => cases ys <;> simp [listEqBy]
  | cons x xs ih => cases ys with
    | nil => simp [listEqBy]
    | cons y ys =>
      simp only [listEqBy, Bool.and_eq_true, Bool.not_eq_true', ih ys, List.length_cons]
      constructor
      · rintro ⟨h0, hl, hi⟩
        refine ⟨by omega, fun i hi' => ?_⟩
        cases i with
        | zero => simpa using h0
        | succ k => simpa using hi k (by omega)
      · rintro ⟨hl, hi⟩
        refine ⟨by simpa using hi 0 (by omega), by omega, fun i hi' => ?_⟩
        simpa using hi (i + 1) (by omega)

/-! ### a failed copy assignment / constructor (round 3b) -/

/-- the operations that REBUILD the vector in register `d` with one allocation: copy assignment from another
    vector, copy construction, `vector(n)`, the initializer-list / template-range constructor -/
def Op.rebuilds : Op → Option Nat
  | .copyAssign d src => if d = src then none else some d
  | .copyCtor d src => if d = src then none else some d
  | .sizeCtor d _ => some d
  | .listCtor d _ => some d
  | _ => none

theorem invalidate_empty (l : Ledger) : invalidate Vec.empty l = some (Vec.empty, l) := by
  simp [invalidate, Vec.empty]

theorem invalidate_fst {v v0 : Vec} {l l0 : Ledger} (h : invalidate v l = some (v0, l0)) : v0 = Vec.empty := by
  unfold invalidate at h
  split at h
  · simp at h; exact h.1.symm
  · split at h
    · simp at h
    · split at h
      · simp at h; exact h.1.symm
      · simp at h

/-- a rebuilding operation with an allocation failure armed: either the call is the unarmed one, or it is left by
    std::bad_alloc in exactly the state `invalidate()` of the target register produces (what `invalidate()` /
    the delegated-to constructor + destructor leave: the empty vector, the old elements destroyed, the old block
    given back) -/
theorem stepA_rebuild (portable : Bool) (s : St) (af : AF) (op : Op) {d : Nat} (hop : op.rebuilds = some d)
    {v0 : Vec} {l0 : Ledger} (hinv : invalidate (s.regs d) s.led = some (v0, l0)) :
    stepA false portable s af op = .ofOption (step portable s op) ∨
    (stepA false portable s af op = .threw (s.set d Vec.empty l0, .throw) ∧
      step portable s (.invalidate d) = some (s.set d Vec.empty l0, .unit)) := by
  have hv0 := invalidate_fst hinv
  subst hv0
  have hstepI : step portable s (.invalidate d) = some (s.set d Vec.empty l0, .unit) := by
    simp [step, hinv]
  cases op with
  | copyAssign d' src =>
    simp only [Op.rebuilds] at hop
    split at hop
    · simp at hop
    · rename_i hne
      simp only [Option.some.injEq] at hop; subst hop
      simp only [stepA, step, hne, if_false, copyAssignA, hinv]
      by_cases hh : af.hit 0 (s.regs src).size = true
      · right; simp [hh, hstepI]
      · left
        simp only [hh]
        cases hc : copyAssign (s.regs d') (s.regs src) s.led <;> simp [Out.ofOption]
  | copyCtor d' src =>
    simp only [Op.rebuilds] at hop
    split at hop
    · simp at hop
    · rename_i hne
      simp only [Option.some.injEq] at hop; subst hop
      simp only [stepA, step, hne, if_false, hinv, copyCtorA]
      by_cases hp : (portable && (s.regs src).size == 0) = true
      · left
        simp [hp, copyCtor, Out.ofOption]
      · by_cases hh : af.hit 0 (s.regs src).size = true
        · right; simp [hp, hh, unwindCtor, invalidate_empty, hstepI]
        · left
          simp only [hp, hh]
          cases hc : copyCtor portable (s.regs src) l0 <;> simp [Out.ofOption]
  | sizeCtor d' n =>
    simp only [Op.rebuilds, Option.some.injEq] at hop; subst hop
    simp only [stepA, step, hinv, sizeCtorA, resizeA_eq, sizeCtor]
    by_cases hh : n > Vec.empty.cap ∧ af.hit 0 n = true
    · right; simp [hh, unwindCtor, invalidate_empty, hstepI]
    · left
      simp only [hh, if_false]
      cases hc : resize Vec.empty n l0 <;> simp [Out.ofOption]
  | listCtor d' xs =>
    simp only [Op.rebuilds, Option.some.injEq] at hop; subst hop
    simp only [stepA, step, hinv, listCtorA, reserveA_eq]
    by_cases hh : xs.length > Vec.empty.cap ∧ af.hit 0 xs.length = true
    · right; simp [hh, unwindCtor, invalidate_empty, hstepI]
    · left
      simp only [hh, if_false]
      cases hr : reserve Vec.empty xs.length l0 with
      | none => simp [Out.ofOption, listCtor, hr]
      | some r => cases hc : listCtor xs l0 <;> simp [Out.ofOption]
  | _ => simp [Op.rebuilds] at hop

/-! `vector(iterator first, const iterator last)`: one push_back per element, each may allocate (no reserve) -/

theorem emplaceBackA_val_cases (af : AF) (idx : Nat) (v : Vec) (x : Val) (l : Ledger) :
    emplaceBackA false af idx v (.val x) l = .ofOption (emplaceBack v (.val x) l) ∨
    emplaceBackA false af idx v (.val x) l = .threw (v, (l.addCtor 1).addDtor 1) := by
  unfold emplaceBackA
  by_cases h : v.size + 1 > v.cap
  · simp only [h, if_true, argVal, changeBufferA_eq]
    by_cases hh : af.hit idx (v.size + 1) = true
    · right; simp [hh]
    · left
      simp only [hh]
      cases hc : changeBuffer v (v.size + 1) (l.addCtor 1) <;> simp [Out.ofOption, emplaceBack, h, argVal, hc]
  · left; simp [h]

/-- the push_back loop with any allocation failing: it completes like the unarmed loop, or stops at the failing
    push_back with a vector that represents the elements pushed so far (ledger in step) -/
theorem pushAllA_good (af : AF) {v : Vec} {xs : List Val} (h : Rep v xs) (ys : List Val) (idx : Nat) (l : Ledger) :
    (∃ v' l', pushAllA false af idx v ys l = .ok (v', l') ∧ pushAll v ys l = some (v', l')) ∨
    (∃ v' zs l', pushAllA false af idx v ys l = .threw (v', l') ∧ Good v xs l v' zs l') := by
  induction ys generalizing v xs l idx with
  | nil => exact Or.inl ⟨v, l, rfl, rfl⟩
  | cons y ys ih =>
    obtain ⟨v1, l1, h1, g1⟩ := emplaceBack_good h (a := .val y) (x := y) rfl l
    rcases emplaceBackA_val_cases af idx v y l with hc | hc
    · rw [h1] at hc
      rcases ih g1.rep (if v.size + 1 > v.cap then idx + 1 else idx) l1 with ⟨v2, l2, h2, h3⟩ | ⟨v2, zs, l2, h2, g2⟩
      · exact Or.inl ⟨v2, l2, by simp only [pushAllA, hc, Out.ofOption]; exact h2, by simp [pushAll, h1, h3]⟩
      · exact Or.inr ⟨v2, zs, l2, by simp only [pushAllA, hc, Out.ofOption]; exact h2, g1.trans g2⟩
    · refine Or.inr ⟨v, xs, (l.addCtor 1).addDtor 1, by simp only [pushAllA, hc], h, ?_, ?_⟩
      · rw [net_ctor_dtor]; omega
      · rw [blocks_ctor_dtor]; omega

/-! ### `operator<` under an arbitrary element order (round 3b) -/

theorem listLtBy_drop (lt : Val → Val → Bool) (xs ys : List Val) (i : Nat) (hx : i < xs.length) (hy : i < ys.length) :
    listLtBy lt (xs.drop i) (ys.drop i) =
      (if lt (xs.getD i 0) (ys.getD i 0) then true else if lt (ys.getD i 0) (xs.getD i 0) then false
       else listLtBy lt (xs.drop (i + 1)) (ys.drop (i + 1))) := by
  rw [List.drop_eq_getElem_cons hx, List.drop_eq_getElem_cons hy]
  simp [listLtBy, List.getD_eq_getElem?_getD, List.getElem?_eq_getElem hx, List.getElem?_eq_getElem hy]

theorem listLtBy_nil_left (lt : Val → Val → Bool) (ys : List Val) : listLtBy lt [] ys = decide (ys ≠ []) := by
  cases ys <;> simp [listLtBy]

theorem listLtBy_nil_right (lt : Val → Val → Bool) (xs : List Val) : listLtBy lt xs [] = false := by
  cases xs <;> simp [listLtBy]

/-- the `std::lexicographical_compare` loop over two represented vectors: no fault, the list function -/
theorem lexLoopBy_ok (lt : Val → Val → Bool) {a b : Vec} {xs ys : List Val} (ha : Rep a xs) (hb : Rep b ys)
    (i n : Nat) (hin : i + n = min xs.length ys.length) :
    lexLoopBy lt a b i n = some (listLtBy lt (xs.drop i) (ys.drop i)) := by
  induction n generalizing i with
  | zero =>
    unfold lexLoopBy
    rw [ha.1, hb.1]
    by_cases hx : i = xs.length
    · have h1 : xs.drop i = [] := List.drop_eq_nil_of_le (by omega)
      rw [h1, listLtBy_nil_left]
      congr 1
      rw [decide_eq_decide]
      simp only [ne_eq, List.drop_eq_nil_iff]
      omega
    · have hy : i = ys.length := by omega
      have h2 : ys.drop i = [] := List.drop_eq_nil_of_le (by omega)
      rw [h2, listLtBy_nil_right]
      simp [hx]
  | succ n ih =>
    have hx : i < xs.length := by omega
    have hy : i < ys.length := by omega
    unfold lexLoopBy
    cases hda : a.data with
    | none =>
      have := ha.2; rw [hda] at this; have := this.2; simp [this] at hx
    | some x =>
      cases hdb : b.data with
      | none =>
        have := hb.2; rw [hdb] at this; have := this.2; simp [this] at hy
      | some y =>
        simp only [rd_rep ha hda hx, rd_rep hb hdb hy]
        rw [listLtBy_drop lt xs ys i hx hy, ih (i + 1) (by omega)]
        cases lt (xs.getD i 0) (ys.getD i 0) <;> cases lt (ys.getD i 0) (xs.getD i 0) <;> simp

theorem vecLtBy_ok (lt : Val → Val → Bool) {a b : Vec} {xs ys : List Val} (ha : Rep a xs) (hb : Rep b ys) :
    vecLtBy lt a b = some (listLtBy lt xs ys) := by
  unfold vecLtBy
  have := lexLoopBy_ok lt ha hb 0 (min xs.length ys.length) (by omega)
  simpa [ha.1, hb.1] using this

/-- what `std::lexicographical_compare` MEANS, without recursion: there is a position `k` inside `ys`, at most the
    length of `xs`, in front of which the two lists are elementwise equivalent (neither element less than the
    other), and at which `xs` ends or holds the smaller element. -/
theorem listLtBy_iff (lt : Val → Val → Bool) (xs ys : List Val) :
    listLtBy lt xs ys = true ↔
      ∃ k, k ≤ xs.length ∧ k < ys.length ∧
        (∀ i, i < k → lt (xs.getD i 0) (ys.getD i 0) = false ∧ lt (ys.getD i 0) (xs.getD i 0) = false) ∧
        (k = xs.length ∨ lt (xs.getD k 0) (ys.getD k 0) = true) := by
  induction xs generalizing ys with
  | nil =>
    cases ys with
    | nil => simp [listLtBy]
    | cons y ys =>
      simp only [listLtBy, true_iff]
      exact ⟨0, by simp, by simp, fun i hi => by omega, Or.inl rfl⟩
  | cons x xs ih =>
    cases ys with
    | nil => simp [listLtBy]
    | cons y ys =>
      simp only [listLtBy]
      cases hxy : lt x y with
      | true =>
        simp only [if_true, true_iff]
        exact ⟨0, by simp, by simp, fun i hi => by omega, Or.inr (by simpa using hxy)⟩
      | false =>
        cases hyx : lt y x with
        | true =>
          simp only [Bool.false_eq_true, if_false, if_true, false_iff]
          rintro ⟨k, hk1, hk2, hpre, hat⟩
          cases k with
          | zero =>
            rcases hat with h | h
            · simp at h
            · simp [hxy] at h
          | succ k =>
            have := (hpre 0 (by omega)).2
            simp [hyx] at this
        | false =>
          simp only [Bool.false_eq_true, if_false, ih ys]
          constructor
          · rintro ⟨k, hk1, hk2, hpre, hat⟩
            refine ⟨k + 1, by simp; omega, by simp; omega, fun i hi => ?_, ?_⟩
            · cases i with
              | zero => simp [hxy, hyx]
              | succ j => simpa using hpre j (by omega)
            · rcases hat with h | h
              · exact Or.inl (by simp [h])
              · exact Or.inr (by simpa using h)
          · rintro ⟨k, hk1, hk2, hpre, hat⟩
            cases k with
            | zero =>
              rcases hat with h | h
              · simp at h
              · simp [hxy] at h
            | succ k =>
              refine ⟨k, by simp at hk1; omega, by simp at hk2; omega, fun i hi => ?_, ?_⟩
              · simpa using hpre (i + 1) (by omega)
              · rcases hat with h | h
                · exact Or.inl (by simp at h; omega)
                · exact Or.inr (by simpa using h)

end Igris.C02
