import IgrisModel.C02.Lemmas
import IgrisModel.C02.Bisect
import IgrisModel.C02.Flat
import IgrisModel.C02.FlatVecLemmas
import IgrisModel.C02.ExcLemmas
import IgrisModel.C02.AllocLemmas
/-!
  C02 — property theorems.

  `Rep v xs` : the vector object `v` (block, m_capacity, m_size) holds exactly the
  elements `xs`: m_size = |xs| ≤ m_capacity = size of the block, slot i is a
  constructed element with value xs[i] for i < |xs| and unconstructed memory
  behind it; nullptr only with capacity 0 and no elements.
  A `none` of the model is a fault (out-of-block access, construction over an
  object, assignment/destruction/read/move of something that is not an object,
  freeing a block that still holds objects or with a wrong size).
-/
namespace Igris.C02

/-- registers an operation names -/
def Op.regs : Op → List Nat
  | .emplaceBack r _ | .popBack r | .emplace r _ _ | .insertRange r _ _ | .insertSorted r _ | .erase r _ _
  | .eraseTo r _ | .resize r _ | .reserve r _ | .clear r | .invalidate r | .sizeCtor r _ | .listCtor r _
  | .at r _ | .index r _ | .frontBack r | .iter r => [r]
  | .copyCtor d s | .moveCtor d s | .copyAssign d s | .moveAssign d s | .rangeCtor d s _ _
  | .eq d s | .ne d s | .lt d s => [d, s]

/-- ONE OPERATION.  If std::vector accepts the operation in the abstract state `f` (`specStep` is
    defined), the igris code executes it without a fault, returns what std::vector returns, and the new
    state represents std::vector's new contents; the ledger stays balanced. -/
theorem step_refines (portable : Bool) {R : Nat} {s : St} {f : Nat → List Val} (hI : SInv R s f) (op : Op)
    (hR : ∀ r ∈ op.regs, r < R)
    {f' : Nat → List Val} {ret : Ret} (hs : specStep f op = some (f', ret)) :
    ∃ s', step portable s op = some (s', ret) ∧ SInv R s' f' := by
  cases op with
  | emplaceBack r a =>
    simp only [specStep, Option.map_eq_some_iff] at hs
    obtain ⟨x, hx, he⟩ := hs; cases he
    obtain ⟨v', l', h1, g⟩ := emplaceBack_good (hI.rep r) hx s.led
    exact ⟨_, by simp [step, h1], hI.set (hR r (by simp [Op.regs])) g⟩
  | popBack r =>
    simp only [specStep] at hs
    split at hs
    · cases hs
    · rename_i hne; cases hs
      obtain ⟨v', l', h1, g⟩ := popBack_good (hI.rep r) hne s.led
      exact ⟨_, by simp [step, h1], hI.set (hR r (by simp [Op.regs])) g⟩
  | emplace r pos a =>
    simp only [specStep] at hs
    split at hs
    · rename_i hp
      simp only [Option.map_eq_some_iff] at hs
      obtain ⟨x, hx, he⟩ := hs; cases he
      obtain ⟨v', l', h1, g⟩ := emplace_good (hI.rep r) hp hx s.led
      exact ⟨_, by simp [step, h1], hI.set (hR r (by simp [Op.regs])) g⟩
    · cases hs
  | insertRange r pos src =>
    simp only [specStep] at hs
    split at hs
    · rename_i hp
      simp only [Option.map_eq_some_iff] at hs
      obtain ⟨ys, hy, he⟩ := hs; cases he
      obtain ⟨v', l', h1, g⟩ := insertRange_good (hI.rep r) hp hy s.led
      exact ⟨_, by simp [step, h1], hI.set (hR r (by simp [Op.regs])) g⟩
    · cases hs
  | insertSorted r x =>
    -- std::upper_bound = the libstdc++ bisection, equal to `ubSpec` on the sorted contents (Bisect.lean)
    simp only [specStep] at hs
    split at hs
    · rename_i hp; cases hs
      obtain ⟨v', l', h1, g⟩ := insertSorted_good (hI.rep r) hp x s.led
      exact ⟨_, by simp [step, h1], hI.set (hR r (by simp [Op.regs])) g⟩
    · cases hs
  | erase r a b =>
    simp only [specStep] at hs
    split at hs
    · rename_i hp; cases hs
      obtain ⟨v', l', h1, g⟩ := erase_good (hI.rep r) hp.1 hp.2 s.led
      exact ⟨_, by simp [step, h1], hI.set (hR r (by simp [Op.regs])) g⟩
    · cases hs
  | eraseTo r k =>
    simp only [specStep] at hs
    split at hs
    · rename_i hp; cases hs
      obtain ⟨v', l', h1, g⟩ := eraseTo_good (hI.rep r) hp s.led
      exact ⟨_, by simp [step, h1], hI.set (hR r (by simp [Op.regs])) g⟩
    · cases hs
  | resize r n =>
    simp only [specStep] at hs; cases hs
    obtain ⟨v', l', h1, g⟩ := resize_good (hI.rep r) n s.led
    exact ⟨_, by simp [step, h1], hI.set (hR r (by simp [Op.regs])) g⟩
  | reserve r n =>
    simp only [specStep] at hs; cases hs
    obtain ⟨v', l', h1, hrep, _, _, hn, hb⟩ := reserve_good (hI.rep r) n s.led
    refine ⟨s.set r v' l', by simp [step, h1], ?_⟩
    have := hI.set (hR r (by simp [Op.regs])) (v' := v') (xs' := f r) (l' := l') ⟨hrep, by omega, hb⟩
    have e : setL f r (f r) = f := by funext j; simp only [setL]; split <;> simp_all
    rwa [e] at this
  | clear r =>
    simp only [specStep] at hs; cases hs
    obtain ⟨v', l', h1, g⟩ := clear_good (hI.rep r) s.led
    exact ⟨_, by simp [step, h1], hI.set (hR r (by simp [Op.regs])) g⟩
  | invalidate r =>
    simp only [specStep] at hs; cases hs
    obtain ⟨l', h1, g⟩ := invalidate_good (hI.rep r) s.led
    exact ⟨_, by simp [step, h1], hI.set (hR r (by simp [Op.regs])) g⟩
  | copyCtor d src =>
    simp only [specStep] at hs
    split at hs
    · cases hs
    · rename_i hne; cases hs
      obtain ⟨l1, h1, g1⟩ := invalidate_good (hI.rep d) s.led
      obtain ⟨v2, l2, h2, g2⟩ := copyCtor_good portable (hI.rep src) l1
      exact ⟨_, by simp [step, hne, h1, h2], hI.set (hR d (by simp [Op.regs])) (g1.trans g2)⟩
  | moveCtor d src =>
    simp only [specStep] at hs
    split at hs
    · cases hs
    · rename_i hne; cases hs
      obtain ⟨l1, h1, g1⟩ := invalidate_good (hI.rep d) s.led
      refine ⟨(s.set src Vec.empty l1).set d (s.regs src) l1, by simp [step, hne, h1], ?_⟩
      -- first the source register becomes empty (with the ledger unchanged), then d takes its block
      have hs1 : SInv R (s.set d Vec.empty l1) (setL f d []) := hI.set (hR d (by simp [Op.regs])) g1
      have hsrc : (s.set d Vec.empty l1).regs src = s.regs src := by simp [St.set, Ne.symm hne]
      have hfsrc : setL f d [] src = f src := by simp [setL, Ne.symm hne]
      refine ⟨?_, ?_, ?_⟩
      · intro j; simp only [St.set, setL]
        by_cases hj : j = d
        · simp [hj]; exact hI.rep src
        · by_cases hj2 : j = src
          · have hsd : ¬ src = d := fun h => hne h.symm
            simp [hj2, hsd]; exact Rep.nil
          · simp [hj, hj2]; exact hI.rep j
      · have t1 := total_set (fun r => ((f r).length : Int)) src 0 R (hR src (by simp [Op.regs]))
        have t2 := total_set (fun j => if j = src then (0 : Int) else ((f j).length : Int)) d ((f src).length) R (hR d (by simp [Op.regs]))
        have e : (fun j => ((setL (setL f src []) d (f src) j).length : Int)) =
            fun j => if j = d then ((f src).length : Int) else (if j = src then (0 : Int) else ((f j).length : Int)) := by
          funext j; simp only [setL]; split
          · rfl
          · split <;> simp
        simp only [St.set, e, t2, t1, if_neg hne]
        have := g1.net; have := hI.net; simp at *; omega
      · have t1 := total_set (fun r => held (s.regs r)) src 0 R (hR src (by simp [Op.regs]))
        have t2 := total_set (fun j => if j = src then (0 : Int) else held (s.regs j)) d (held (s.regs src)) R (hR d (by simp [Op.regs]))
        have e : (fun j => held (((s.set src Vec.empty l1).set d (s.regs src) l1).regs j)) =
            fun j => if j = d then held (s.regs src) else (if j = src then (0 : Int) else held (s.regs j)) := by
          funext j; simp only [St.set]; split
          · rfl
          · split <;> simp
        show l1.blocks = total (fun j => held (((s.set src Vec.empty l1).set d (s.regs src) l1).regs j)) R
        rw [e, t2, t1, if_neg hne]
        have := g1.blk; have := hI.blk; simp at *; omega
  | copyAssign d src =>
    simp only [specStep] at hs; cases hs
    by_cases he : d = src
    · subst he
      refine ⟨s, by simp [step], ?_⟩
      have e : setL f d (f d) = f := by funext j; simp only [setL]; split <;> simp_all
      rw [e]; exact hI
    · obtain ⟨v', l', h1, g⟩ := copyAssign_good (hI.rep d) (hI.rep src) s.led
      exact ⟨_, by simp [step, he, h1], hI.set (hR d (by simp [Op.regs])) g⟩
  | moveAssign d src =>
    simp only [specStep] at hs
    split at hs
    · rename_i he; cases hs; subst he
      exact ⟨s, by simp [step], hI⟩
    · rename_i hne; cases hs
      obtain ⟨l1, h1, g1⟩ := invalidate_good (hI.rep d) s.led
      refine ⟨(s.set src Vec.empty l1).set d (s.regs src) l1, by simp [step, hne, moveAssign, h1], ?_⟩
      refine ⟨?_, ?_, ?_⟩
      · intro j; simp only [St.set, setL]
        by_cases hj : j = d
        · simp [hj]; exact hI.rep src
        · by_cases hj2 : j = src
          · have hsd : ¬ src = d := fun h => hne h.symm
            simp [hj2, hsd]; exact Rep.nil
          · simp [hj, hj2]; exact hI.rep j
      · have t1 := total_set (fun r => ((f r).length : Int)) src 0 R (hR src (by simp [Op.regs]))
        have t2 := total_set (fun j => if j = src then (0 : Int) else ((f j).length : Int)) d ((f src).length) R (hR d (by simp [Op.regs]))
        have e : (fun j => ((setL (setL f src []) d (f src) j).length : Int)) =
            fun j => if j = d then ((f src).length : Int) else (if j = src then (0 : Int) else ((f j).length : Int)) := by
          funext j; simp only [setL]; split
          · rfl
          · split <;> simp
        simp only [St.set, e, t2, t1, if_neg hne]
        have := g1.net; have := hI.net; simp at *; omega
      · have t1 := total_set (fun r => held (s.regs r)) src 0 R (hR src (by simp [Op.regs]))
        have t2 := total_set (fun j => if j = src then (0 : Int) else held (s.regs j)) d (held (s.regs src)) R (hR d (by simp [Op.regs]))
        have e : (fun j => held (((s.set src Vec.empty l1).set d (s.regs src) l1).regs j)) =
            fun j => if j = d then held (s.regs src) else (if j = src then (0 : Int) else held (s.regs j)) := by
          funext j; simp only [St.set]; split
          · rfl
          · split <;> simp
        show l1.blocks = total (fun j => held (((s.set src Vec.empty l1).set d (s.regs src) l1).regs j)) R
        rw [e, t2, t1, if_neg hne]
        have := g1.blk; have := hI.blk; simp at *; omega
  | rangeCtor d src a b =>
    simp only [specStep] at hs
    split at hs
    · rename_i hp; cases hs
      obtain ⟨l1, h1, g1⟩ := invalidate_good (hI.rep d) s.led
      obtain ⟨v2, l2, h2, g2⟩ := rangeCtor_good (hI.rep src) hp.2.1 hp.2.2 l1
      exact ⟨_, by simp [step, hp.1, h1, h2], hI.set (hR d (by simp [Op.regs])) (g1.trans g2)⟩
    · cases hs
  | sizeCtor d n =>
    simp only [specStep] at hs; cases hs
    obtain ⟨l1, h1, g1⟩ := invalidate_good (hI.rep d) s.led
    obtain ⟨v2, l2, h2, g2⟩ := sizeCtor_good n l1
    exact ⟨_, by simp [step, h1, h2], hI.set (hR d (by simp [Op.regs])) (g1.trans g2)⟩
  | listCtor d xs =>
    simp only [specStep] at hs; cases hs
    obtain ⟨l1, h1, g1⟩ := invalidate_good (hI.rep d) s.led
    obtain ⟨v2, l2, h2, g2⟩ := listCtor_good xs l1
    exact ⟨_, by simp [step, h1, h2], hI.set (hR d (by simp [Op.regs])) (g1.trans g2)⟩
  | eq a b =>
    simp only [specStep] at hs; cases hs
    exact ⟨s, by simp [step, vecEq_ok (hI.rep a) (hI.rep b)], hI⟩
  | ne a b =>
    simp only [specStep] at hs; cases hs
    exact ⟨s, by simp [step, vecEq_ok (hI.rep a) (hI.rep b)], hI⟩
  | lt a b =>
    simp only [specStep] at hs; cases hs
    exact ⟨s, by simp [step, vecLt_ok (hI.rep a) (hI.rep b)], hI⟩
  | «at» r i =>
    simp only [specStep] at hs; cases hs
    exact ⟨s, by simp [step, vecAt_ok (hI.rep r)], hI⟩
  | index r i =>
    simp only [specStep, Option.map_eq_some_iff] at hs
    obtain ⟨x, hx, he⟩ := hs; cases he
    have hi : i < (f r).length := by
      rcases Nat.lt_or_ge i (f r).length with h | h
      · exact h
      · simp [List.getElem?_eq_none h] at hx
    refine ⟨s, ?_, hI⟩
    simp [step, vecIdx_ok (hI.rep r) hi, List.getD_eq_getElem?_getD, hx]
  | frontBack r =>
    simp only [specStep] at hs
    split at hs
    · rename_i x y hx hy; cases hs
      have hne : f r ≠ [] := by intro h; simp [h] at hx
      have hpos : 0 < (f r).length := List.length_pos_iff.mpr hne
      refine ⟨s, ?_, hI⟩
      have h0 := vecIdx_ok (hI.rep r) hpos
      have h1 := vecIdx_ok (hI.rep r) (show (f r).length - 1 < (f r).length by omega)
      have e0 : (f r).getD 0 0 = x := by
        rw [List.head?_eq_getElem?] at hx; simp [List.getD_eq_getElem?_getD, hx]
      have e1 : (f r).getD ((f r).length - 1) 0 = y := by
        rw [List.getLast?_eq_getElem?] at hy; simp [List.getD_eq_getElem?_getD, hy]
      simp only [List.getD_eq_getElem?_getD] at e0 e1
      simp [step, (hI.rep r).size_eq, h0, h1, e0, e1]
    · cases hs
  | iter r =>
    simp only [specStep] at hs; cases hs
    exact ⟨s, by simp [step, contents_ok (hI.rep r)], hI⟩

/-! ### histories -/

/-- std::vector run over a history, collecting the return values -/
def runSpec : (Nat → List Val) → List Op → Option ((Nat → List Val) × List Ret)
  | f, [] => some (f, [])
  | f, op :: ops =>
    match specStep f op with
    | none => none
    | some (f', r) => (runSpec f' ops).map fun (g, rs) => (g, r :: rs)

/-- the igris code run over a history, collecting the return values -/
def runOut (portable : Bool) : St → List Op → Option (St × List Ret)
  | s, [] => some (s, [])
  | s, op :: ops =>
    match step portable s op with
    | none => none
    | some (s', r) => (runOut portable s' ops).map fun (t, rs) => (t, r :: rs)

theorem run_refines_from (portable : Bool) {R : Nat} (ops : List Op) {s : St} {f : Nat → List Val} (hI : SInv R s f)
    (hR : ∀ op ∈ ops, ∀ r ∈ op.regs, r < R)
    {f' : Nat → List Val} {rets : List Ret} (hs : runSpec f ops = some (f', rets)) :
    ∃ s', runOut portable s ops = some (s', rets) ∧ SInv R s' f' := by
  induction ops generalizing s f rets with
  | nil => simp only [runSpec] at hs; cases hs; exact ⟨s, rfl, hI⟩
  | cons op ops ih =>
    simp only [runSpec] at hs
    cases h1 : specStep f op with
    | none => rw [h1] at hs; cases hs
    | some p =>
      obtain ⟨f1, r1⟩ := p
      rw [h1] at hs
      simp only [Option.map_eq_some_iff] at hs
      obtain ⟨⟨g, rs⟩, h2, he⟩ := hs
      cases he
      obtain ⟨s1, hs1, hI1⟩ := step_refines portable hI op (hR op (by simp)) h1
      obtain ⟨s2, hs2, hI2⟩ := ih hI1 (fun o ho => hR o (by simp [ho])) h2
      exact ⟨s2, by simp [runOut, hs1, hs2], hI2⟩

/-- REFINEMENT (clause 1 of C02).  Any history of operations that std::vector accepts — push/emplace
    (also with an argument that refers to an element of the same vector), insert/emplace at any position,
    range insert of own or foreign elements, erase, truncation, pop, resize, reserve, clear, invalidate,
    copy/move construction and assignment (incl. self assignment), the range / size / initializer-list
    constructors, ==, !=, <, at, [], front/back, iteration, insert_sorted on sorted contents (the
    std::upper_bound bisection is part of the model and proved equal to `ubSpec`) — on any number of vector objects runs on the
    igris code (both copies) without a fault, returns exactly what std::vector returns (positions,
    comparison results = list equality / lexicographic order, at() throwing exactly when std's does) and
    leaves every vector with std::vector's size and element sequence.
    ONE EXCEPTION, by design of the reference: `Op.eraseTo` (igris' one-argument `erase(iterator newend)`) is
    specified as TRUNCATION (`take k`), which is what the code does and NOT what std::vector::erase(pos) does —
    finding C02-erase-pos; the comparison with std's erase(pos) is `erase_iterator_partial` /
    `erase_iterator_truncates` / `erase_iterator_witness` below. -/
theorem vector_refines_list (portable : Bool) (R : Nat) (ops : List Op)
    (hR : ∀ op ∈ ops, ∀ r ∈ op.regs, r < R)
    {f' : Nat → List Val} {rets : List Ret} (hs : runSpec (fun _ => []) ops = some (f', rets)) :
    ∃ s', runOut portable St.init ops = some (s', rets) ∧ ∀ r, Rep (s'.regs r) (f' r) := by
  obtain ⟨s', h1, h2⟩ := run_refines_from portable ops (SInv.init R) hR hs
  exact ⟨s', h1, h2.rep⟩

/-- the hypotheses are satisfiable: a history with an aliasing push, an aliasing insert, copy
    assignment, comparisons and insert_sorted (front, back, between equal elements) is accepted by std::vector -/
example : ∃ f rets, runSpec (fun _ => []) [.emplaceBack 0 (.val 5), .emplaceBack 0 (.own 0), .emplace 0 0 (.own 1),
    .copyAssign 1 0, .eq 0 1, .lt 0 1, .erase 0 0 1, .popBack 1, .insertSorted 1 3, .insertSorted 1 9, .insertSorted 1 5]
    = some (f, rets) := ⟨_, _, rfl⟩

/-- size ≤ capacity and capacity = size of the allocated block, in every reachable state -/
theorem size_le_capacity {v : Vec} {xs : List Val} (h : Rep v xs) :
    v.size = xs.length ∧ v.size ≤ v.cap ∧ (∀ b, v.data = some b → b.n = v.cap) := by
  refine ⟨h.size_eq, by rw [h.size_eq]; exact h.len_le, ?_⟩
  intro b hb
  have := h.2; rw [hb] at this; exact this.1

/-- LIFETIMES (clause 2 of C02).  Over any history std::vector accepts, no slot event of the igris code
    faults — nothing is constructed over an object, nothing is assigned to / destroyed / moved from / read
    that is not a (readable) object, no access leaves the allocated block, no block is freed while it
    holds objects or with a wrong size — the destructors of all vectors run without a fault, and after
    them every element object ever constructed (temporaries included) has been destroyed:
    constructions = destructions, allocations = deallocations.  Since construction needs an unconstructed
    slot and destruction a constructed one, no object is destroyed twice. -/
theorem vector_lifetime (portable : Bool) (R : Nat) (ops : List Op)
    (hR : ∀ op ∈ ops, ∀ r ∈ op.regs, r < R)
    {f' : Nat → List Val} {rets : List Ret} (hs : runSpec (fun _ => []) ops = some (f', rets)) :
    ∃ s' s'', runOut portable St.init ops = some (s', rets) ∧ destroyAll s' R = some s'' ∧
      s''.led.made = s''.led.dtor ∧ s''.led.alloc = s''.led.dealloc ∧ ∀ r, r < R → s''.regs r = Vec.empty := by
  obtain ⟨s', h1, hI⟩ := run_refines_from portable ops (SInv.init R) hR hs
  obtain ⟨s'', h2, hI2, hE⟩ := destroyAll_ok hI R (Nat.le_refl _)
  refine ⟨s', s'', h1, h2, ?_, ?_, hE⟩
  · have hn := hI2.net
    rw [total_zero_of _ R (by intro j hj; simp [hj])] at hn
    simp only [Ledger.net, Ledger.made] at hn ⊢; omega
  · have hb := hI2.blk
    rw [total_zero_of _ R (by intro j hj; rw [hE j hj]; simp)] at hb
    simp only [Ledger.blocks] at hb; omega

/-- in every reachable state the ledger says: objects alive = elements held, blocks = vectors with storage -/
theorem ledger_balance (portable : Bool) (R : Nat) (ops : List Op)
    (hR : ∀ op ∈ ops, ∀ r ∈ op.regs, r < R)
    {f' : Nat → List Val} {rets : List Ret} (hs : runSpec (fun _ => []) ops = some (f', rets)) :
    ∃ s', runOut portable St.init ops = some (s', rets) ∧
      s'.led.net = total (fun r => ((f' r).length : Int)) R ∧
      s'.led.blocks = total (fun r => held (s'.regs r)) R := by
  obtain ⟨s', h1, hI⟩ := run_refines_from portable ops (SInv.init R) hR hs
  exact ⟨s', h1, hI.net, hI.blk⟩

/-! ### findings on the model / spec level -/

/-- FINDING C02-erase-pos: `erase(iterator)` of igris::vector is `take k` (see `eraseTo_good`), whereas
    std::vector::erase(pos) removes the single element at `k`. -/
theorem erase_pos_witness : ([1, 2, 3] : List Val).take 0 ≠ ([1, 2, 3] : List Val).eraseIdx 0 := by decide

/-- FINDING C02-erase-pos on the MODEL.  The full statement — "`erase(pos)` removes exactly the element at
    `pos`, like std::vector::erase(pos)":
      `Rep v xs → k < xs.length → ∃ v' l', eraseTo v k l = some (v', l') ∧ Rep v' (xs.eraseIdx k)`
    — is FALSE for the code (witness below): igris' `erase(iterator newend)` truncates.  What holds is the
    partial statement: the two agree exactly when `pos` is the LAST element. -/
theorem erase_iterator_partial {v : Vec} {xs : List Val} (h : Rep v xs) {k : Nat} (hk : k + 1 = xs.length) (l : Ledger) :
    ∃ v' l', eraseTo v k l = some (v', l') ∧ Rep v' (xs.eraseIdx k) := by
  obtain ⟨v', l', h1, g⟩ := eraseTo_good h (show k ≤ xs.length by omega) l
  refine ⟨v', l', h1, ?_⟩
  have e : xs.eraseIdx k = xs.take k := by
    rw [List.eraseIdx_eq_take_drop_succ, List.drop_eq_nil_of_le (by omega), List.append_nil]
  rw [e]; exact g.rep

example : ∃ v xs k, Rep v xs ∧ k + 1 = xs.length := ⟨vecOf 3 [1, 2, 3], [1, 2, 3], 2, Rep.mk (by decide), rfl⟩

/-- … and for every other valid position the igris code (without a fault) leaves `xs.take k`, which is NOT
    std::vector's `xs.eraseIdx k`: the elements behind `pos` are lost -/
theorem erase_iterator_truncates {v : Vec} {xs : List Val} (h : Rep v xs) {k : Nat} (hk : k + 1 < xs.length) (l : Ledger) :
    ∃ v' l', eraseTo v k l = some (v', l') ∧ Rep v' (xs.take k) ∧ xs.take k ≠ xs.eraseIdx k := by
  obtain ⟨v', l', h1, g⟩ := eraseTo_good h (show k ≤ xs.length by omega) l
  refine ⟨v', l', h1, g.rep, ?_⟩
  intro e
  have := congrArg List.length e
  rw [List.length_take, List.length_eraseIdx] at this
  split at this <;> omega

/-- the witness on the model: `v = {1,2,3}; v.erase(v.begin());` — the model (= the code) runs it without a
    fault and leaves the EMPTY vector, std::vector leaves {2,3} -/
theorem erase_iterator_witness :
    ((runOut false St.init [.listCtor 0 [1, 2, 3], .eraseTo 0 0]).bind fun p => contents (p.1.regs 0)) = some [] ∧
    ([1, 2, 3] : List Val).eraseIdx 0 = [2, 3] := by decide

/-- VALUE-INITIALISATION.  `resize(n)` (and `vector(n)`, which calls it) appends elements with the value 0 — like
    std::vector — whatever the slot memory held before: the slots behind `size` are `raw` in a represented
    vector, i.e. memory of arbitrary contents (never written, left behind by a destroyed element after a
    shrink, or part of a recycled block), and the result holds `live 0` there. -/
theorem resize_value_initialises {v : Vec} {xs : List Val} (h : Rep v xs) (n : Nat) (l : Ledger) :
    ∃ v' l', resize v n l = some (v', l') ∧ Rep v' (xs.take n ++ List.replicate (n - xs.length) 0) := by
  obtain ⟨v', l', h1, g⟩ := resize_good h n l
  exact ⟨v', l', h1, g.rep⟩

/-- the slot discipline catches what the unrepaired insert did: assigning to the unconstructed slot at
    the old end is a fault of the model -/
theorem assign_to_raw_faults : assign (Buf.fresh 2) 1 7 = none := by
  simp [assign, Buf.get, Buf.fresh]

/-- … and constructing over a (moved-from) object, which the unrepaired emplace did, is one as well -/
theorem construct_over_object_faults : construct ((Buf.fresh 2).put 0 .moved) 0 7 = none := by
  simp [construct, Buf.get, Buf.fresh, Buf.put]

/-- … as is freeing a block that still holds an object (the unrepaired erase(newend) dropped elements
    without destroying them) -/
theorem dealloc_with_object_faults : deallocOk ((Buf.fresh 1).put 0 (.live 3)) 1 = false := by
  simp [deallocOk, Buf.allRaw, Buf.fresh, Buf.put]

/-! ### witnesses for the repaired defects

  For every `fix:` commit of branch fix-C02 that concerns igris::vector: a history that std::vector accepts
  (`runSpec` is defined) and the repaired code runs to the end, destructors included (`runFixed`), on which
  the code with the ORIGINAL body of that one member function put back (`runOrig`, bodies `…Orig` in
  Model.lean) faults in the slot model.  Kernel evaluation of the model (`decide`). -/

/-- what a witness states -/
def OrigFaults (o : Orig) (ops : List Op) : Prop :=
  (runSpec (fun _ => []) ops).isSome = true ∧ (runFixed St.init ops).isSome = true ∧ (runOrig o St.init ops).isNone = true

instance (o : Orig) (ops : List Op) : Decidable (OrigFaults o ops) := by unfold OrigFaults; infer_instance

/-- the seeded change C02-resize-default-init (`new (ptr) T` instead of `new (ptr) T()`) on the model: the
    appended element exists but has an indeterminate value; `v.resize(1); v[0]` — accepted by std::vector, run by
    the code — reads it: fault.  So the refinement theorem is false for that variant: the catch does not rest on
    the oracle alone. -/
theorem resize_default_init_witness :
    OrigFaults .resizeDefault [.resize 0 1, .index 0 0] ∧
    OrigFaults .resizeDefault [.emplaceBack 0 (.val 7), .popBack 0, .resize 0 1, .eq 0 0] ∧
    OrigFaults .resizeDefault [.sizeCtor 1 2, .iter 1] := by decide

/-- 37ab9b2 (copy assignment allocated `m_size` = 0 slots and constructed `other.size()` elements behind the
    block): `a = {4,5}; b = a;` constructs outside the allocation -/
theorem copy_assign_orig_witness :
    OrigFaults .copyAssign [.emplaceBack 0 (.val 4), .emplaceBack 0 (.val 5), .copyAssign 1 0] := by decide

/-- db40834 (erase(first,last) destroyed the erased range, then move-assigned the tail into the destroyed
    slots): `{1,2,3,4}.erase(begin()+1, begin()+2)` assigns to a slot that holds no object -/
theorem erase_range_orig_witness :
    OrigFaults .eraseRange [.listCtor 0 [1, 2, 3, 4], .erase 0 1 2] := by decide

/-- 5125225 (erase(newend) only lowered m_size): `{1}.erase(begin())` then the destructor frees a block that
    still holds a constructed element (the leak) … -/
theorem erase_newend_orig_witness :
    OrigFaults .eraseTo [.emplaceBack 0 (.val 1), .eraseTo 0 0] := by decide

/-- … and a following push_back constructs over the object that was never destroyed -/
theorem erase_newend_orig_witness_push :
    OrigFaults .eraseTo [.reserve 0 2, .emplaceBack 0 (.val 1), .eraseTo 0 0, .emplaceBack 0 (.val 2)] := by decide

/-- ebcd133 (push_back took the reference, replaced the buffer, then copy-constructed from the reference):
    `v.reserve(1); v.push_back(3); v.push_back(v[0]);` reads the freed block -/
theorem push_back_alias_orig_witness :
    OrigFaults .pushBack [.reserve 0 1, .emplaceBack 0 (.val 3), .emplaceBack 0 (.own 0)] := by decide

/-- f1b29cb (insert: move_backward assigned into the unconstructed slot at the old end): `{7}.insert(begin(), 8)` -/
theorem insert_orig_witness :
    OrigFaults .insert [.reserve 0 2, .emplaceBack 0 (.val 7), .emplace 0 0 (.val 8)] := by decide

/-- f1b29cb, insert at end(): `*first = value` on the unconstructed slot — `v.insert(v.begin(), 7)` on an empty vector -/
theorem insert_end_orig_witness : OrigFaults .insert [.emplace 0 0 (.val 7)] := by decide

/-- f1b29cb (emplace: the same move_backward, then placement-new over the moved-from object):
    `{4}.emplace(begin(), 7)` -/
theorem emplace_orig_witness :
    OrigFaults .emplace [.reserve 0 2, .emplaceBack 0 (.val 4), .emplace 0 0 (.val 7)] := by decide

/-- a60ae02 (insert(pos, first, last): move_backward and std::copy assigned into the unconstructed slots
    behind the old end): `{1}.insert(begin(), a, a + 2)` with room for three -/
theorem insert_range_orig_witness :
    OrigFaults .insertRange [.reserve 0 4, .emplaceBack 0 (.val 1), .insertRange 0 0 (.ext [7, 8])] := by decide

/-- a60ae02, a foreign range after a reallocation was re-based on the new buffer (read of unrelated memory) -/
theorem insert_range_realloc_orig_witness :
    OrigFaults .insertRange [.reserve 0 1, .insertRange 0 0 (.ext [7, 8, 9, 6])] := by decide

/-- 7c36ffc (const at() asserted before the range test): `{1}.at(1)` aborts where std::vector throws -/
theorem const_at_orig_witness : OrigFaults .constAt [.listCtor 0 [1], .at 0 1, .at 0 0] := by decide

/-- the original bodies are not faults by construction: each runs the paths that were right (erase of a
    tail range, copy assignment from an empty vector, truncation to the current size, push_back of a value,
    emplace at end(), an empty range insert, at() inside the range); the original insert(pos, value)
    alone has no such path — it assigned to an unconstructed slot on every call -/
example :
    (runOrig .eraseRange St.init [.listCtor 0 [1, 2, 3], .erase 0 1 3]).isSome = true ∧
    (runOrig .copyAssign St.init [.emplaceBack 1 (.val 4), .copyAssign 1 0]).isSome = true ∧
    (runOrig .eraseTo St.init [.emplaceBack 0 (.val 1), .eraseTo 0 1]).isSome = true ∧
    (runOrig .pushBack St.init [.emplaceBack 0 (.val 3), .emplaceBack 0 (.val 4)]).isSome = true ∧
    (runOrig .emplace St.init [.emplace 0 0 (.val 7), .emplace 0 1 (.val 8)]).isSome = true ∧
    (runOrig .insertRange St.init [.emplaceBack 0 (.val 1), .insertRange 0 0 (.ext [])]).isSome = true ∧
    (runOrig .constAt St.init [.listCtor 0 [1], .at 0 0]).isSome = true := by decide

/-! ### the bisection routines (std::upper_bound / std::lower_bound as written in libstdc++) -/

/-- vector::insert_sorted: over the block of a vector holding the sorted sequence `xs`, the modelled
    `std::upper_bound` loop reads only constructed elements (no fault) and returns the first index whose
    element is greater than the item (`ubSpec`, = `xs.length` if there is none) -/
theorem upper_bound_is_spec {v : Vec} {xs : List Val} (h : Rep v xs) (hs : xs.Pairwise (· ≤ ·)) (x : Val) {b : Buf}
    (hb : v.data = some b) :
    upperBound b x v.size 0 v.size = some (ubSpec x xs) ∧ ubSpec x xs ≤ xs.length ∧
    (∀ i (hi : i < xs.length), i < ubSpec x xs → ¬ x < xs[i]) ∧
    (∀ hi : ubSpec x xs < xs.length, x < xs[ubSpec x xs]) :=
  ⟨upperBound_sorted h hs x hb, ubSpec_le x xs, fun _ hi hlt => not_lt_of_lt_ubSpec hlt hi, fun hi => lt_at_ubSpec hi⟩

example : ∃ v xs b, Rep v xs ∧ xs.Pairwise (· ≤ ·) ∧ v.data = some b ∧ xs = [1, 3, 3, 7] :=
  ⟨vecOf 4 [1, 3, 3, 7], _, _, Rep.mk (by decide), by decide, rfl, rfl⟩

/-- flat_set::insert / count: on a storage that is strictly increasing under the comparator `lt` (any
    transitive `lt`) the modelled `std::lower_bound` loop returns the first index whose element is not less
    than the key (`lbSpec`) -/
theorem lower_bound_is_spec (lt : Int → Int → Bool) (ht : LtTrans lt) (xs : List Int) (k : Int) (hs : Sorted lt xs) :
    lowerBound lt xs k xs.length 0 xs.length = lbSpec lt k xs ∧ lbSpec lt k xs ≤ xs.length ∧
    (∀ i (hi : i < xs.length), i < lbSpec lt k xs → lt xs[i] k = true) ∧
    (∀ hi : lbSpec lt k xs < xs.length, lt xs[lbSpec lt k xs] k = false) :=
  ⟨lowerBound_sorted lt ht xs k hs, lbSpec_le lt k xs, fun _ hi hlt => lt_of_lt_lbSpec hlt hi, fun hi => not_lt_at_lbSpec hi⟩

example : LtTrans ltInt ∧ Sorted ltInt [1, 3, 4, 7] ∧ lowerBound ltInt [1, 3, 4, 7] 3 4 0 4 = 1 ∧
    lowerBound ltInt [1, 3, 4, 7] 8 4 0 4 = 4 := ⟨strictWeak_ltInt.trans, by decide, by decide, by decide⟩

/-- flat_map::insert: on a storage strictly increasing by key the modelled `std::upper_bound` loop returns
    `ubSpecBy` of the keys (first index whose key is greater); on any storage (operator[] and emplace append
    at the end, so it need not be sorted) the position stays inside `[0, size]` -/
theorem map_upper_bound_is_spec (lt : Int → Int → Bool) (m : List (Int × Int)) (k : Int) :
    mapUpper lt m k m.length 0 m.length ≤ m.length ∧
    (LtTrans lt → Sorted lt (keysOf m) → mapUpper lt m k m.length 0 m.length = ubSpecBy lt k (keysOf m)) :=
  ⟨mapUpper_le lt m k, fun ht hs => mapUpper_sorted lt ht m k hs⟩

example : Sorted ltInt (keysOf [(1, 10), (4, 40)]) := by decide

/-! ### flat_map against std::map, flat_set against std::set — for every comparator

  `lt` is the `Compare` object of the container and of std::map / std::set; the theorems hold for every
  STRICT WEAK ORDER (`StrictWeak lt`: irreflexive, transitive, incomparability transitive — what the standard
  requires; a linear order is not needed: "smaller last digit" makes 11 and 21 one key).  Two keys are the
  same key when neither is before the other.  std::map = a function from keys to the stored entry with the
  same key (`mapSpecNext` / `mapRetOk` in Flat.lean), std::set = a function from keys to the stored element
  with the same key (`setSpecNext` / `setRetOk`).  These theorems are about the element LISTS of the storage; that
  the storage — an igris::vector in the compat build — behaves like that list, without a lifetime fault, is composed
  formally in `flat_set_over_vector_refines` / `flat_map_over_vector_refines` further down.  The driver / harness instantiate std::less<int>,
  std::greater<int>, "smaller last digit" and std::greater<std::string> on the decimal text. -/

/-- the hypothesis `StrictWeak lt` is satisfiable, also by an order that is not linear -/
example : StrictWeak ltInt ∧ StrictWeak (fun a b => decide (b < a)) ∧ StrictWeak (fun a b => decide (a.tmod 10 < b.tmod 10)) :=
  ⟨strictWeak_ltInt, strictWeak_greater, strictWeak_lastDigit⟩

/-- ONE OPERATION of flat_map.  If no two stored keys are the same key and `f` maps every key to the stored
    entry with the same key, then the operation answers what std::map answers in state `f` (operator[]
    default-inserts 0 and returns the mapped value, `m[k] = v` overwrites the mapped value, insert/emplace do
    NOT overwrite and report the entry that is in the map afterwards, find = the mapped value or end(),
    count ∈ {0,1}, at throws iff the key is absent, size = number of distinct keys) and the new storage again
    holds every key once and stores std::map's new state. -/
theorem flat_map_step_refines {lt : Int → Int → Bool} (h : StrictWeak lt) {m : FMap} {f : Int → Option (Int × Int)}
    (hm : MRep lt m f) (op : MOp) :
    mapRetOk lt f op (m.step lt op).2 ∧ MRep lt (m.step lt op).1 (mapSpecNext lt f op) := mapStep_refines h hm op

example : MRep ltInt {} (fun _ => none) := MRep.empty

/-- REFINEMENT (clause 3 of C02, flat_map).  For every strict weak order, every initializer list `init`
    (duplicates allowed; `[]` = the default-constructed map) and every history of operator[] (read and
    write), insert, emplace, find, count, at, size, clear and re-initialisation, the answers of flat_map are
    the answers of std::map with the same comparator constructed from the same list, and the final storage
    holds every key once with std::map's entries. -/
theorem flat_map_refines {lt : Int → Int → Bool} (h : StrictWeak lt) (init : List (Int × Int)) (ops : List MOp) :
    MapHist lt (fun k => entry lt k init) ops ((FMap.ofList lt init {}).run lt ops).2 ∧
    MRep lt ((FMap.ofList lt init {}).run lt ops).1 (mapSpecRun lt (fun k => entry lt k init) ops) :=
  mapRun_refines h ((ofList_rep h init MRep.empty).ext (by funext k; simp)) ops

/-- the same from any state that satisfies the invariant -/
theorem flat_map_refines_from {lt : Int → Int → Bool} (h : StrictWeak lt) {m : FMap} {f : Int → Option (Int × Int)}
    (hm : MRep lt m f) (ops : List MOp) :
    MapHist lt f ops (m.run lt ops).2 ∧ MRep lt (m.run lt ops).1 (mapSpecRun lt f ops) := mapRun_refines h hm ops

/-- what the model answers on a concrete history (the answers `flat_map_refines` speaks about) -/
example : ((FMap.ofList ltInt [(1, 10), (1, 20), (3, 30)] {}).run ltInt
      [.size, .insert 1 99, .index 2, .assign 2 7, .emplace 2 8, .emplace 0 5, .count 1, .at 4, .find 2, .size]).2 =
    [.nat 2, .kv 1 10, .val 0, .unit, .flag false 7, .flag true 5, .nat 1, .throw, .opt (some 7), .nat 4] := by decide

/-- … and with the comparator "smaller last digit": 11 and 21 are one key, the stored key stays 11 -/
example : ((FMap.ofList (fun a b => decide (a.tmod 10 < b.tmod 10)) [(11, 1), (21, 2), (5, 3)] {}).run
      (fun a b => decide (a.tmod 10 < b.tmod 10))
      [.size, .insert 31 9, .assign 41 7, .find 1, .count 21, .emplace 15 0, .at 2, .insert 2 4, .size]).2 =
    [.nat 2, .kv 11 1, .unit, .opt (some 7), .nat 1, .flag false 3, .throw, .kv 2 4, .nat 3] := by decide

/-- INVARIANT: in every reachable state no two stored keys are the same key, hence `count(k) ≤ 1` and
    `size()` = number of distinct keys -/
theorem flat_map_keys_unique {lt : Int → Int → Bool} (h : StrictWeak lt) (init : List (Int × Int)) (ops : List MOp) (k : Int) :
    Distinct lt (keysOf ((FMap.ofList lt init {}).run lt ops).1.st) ∧
    ((FMap.ofList lt init {}).run lt ops).1.count lt k ≤ 1 := by
  have hm := (flat_map_refines h init ops).2
  refine ⟨hm.uniq h, ?_⟩
  rw [FMap.count, count_eq h k _ (hm.uniq h)]
  split <;> omega

/-- flat_map::insert keeps a storage that is strictly increasing by key strictly increasing (since the fix
    'flat_map iterates in key order' operator[] / emplace / the initializer-list constructor insert at the same
    `std::upper_bound` position, see `flat_map_iterates_in_key_order`) -/
theorem flat_map_insert_keeps_sorted {lt : Int → Int → Bool} (h : StrictWeak lt) (m : FMap) (k v : Int)
    (hs : Sorted lt (keysOf m.st)) : Sorted lt (keysOf (m.insert lt k v).1.st) := by
  simp only [FMap.insert, findEntry_eq]
  cases hf : entry lt k m.st with
  | some w => exact hs
  | none =>
    simp only [keysOf_listInsert]
    have e := mapUpper_sorted lt h.ltTrans m.st k hs
    simp only [keysOf] at e ⊢
    rw [e]
    refine sorted_insert_ub h k _ hs ?_
    intro a ha
    obtain ⟨p, hp, rfl⟩ := List.mem_map.mp ha
    exact (lookupBy_none_iff (·.1) k m.st).mp hf p hp

example : Sorted ltInt (keysOf (FMap.ofList ltInt [(1, 10), (4, 40)] {}).st) := by decide

/-- ITERATION ORDER (flat_map vs std::map).  In every reachable state — any initializer list, any history of
    operator[] (read / write), insert, emplace, clear, re-initialisation and the read-only operations — the
    storage is strictly increasing by key under the comparator, so `for (it = begin(); it != end(); ++it)` visits
    the entries in std::map's order; the `iter` answer of `flat_map_refines` is exactly this list. -/
theorem flat_map_iterates_in_key_order {lt : Int → Int → Bool} (h : StrictWeak lt) (init : List (Int × Int)) (ops : List MOp) :
    Sorted lt (keysOf ((FMap.ofList lt init {}).run lt ops).1.st) ∧
    ∀ p, p ∈ ((FMap.ofList lt init {}).run lt ops).1.st ↔
      mapSpecRun lt (fun k => entry lt k init) ops p.1 = some p := by
  have hm := (flat_map_refines h init ops).2
  exact ⟨hm.sorted, fun p => by rw [hm.val]; exact entry_self h hm.sorted⟩

example : ((FMap.ofList ltInt [(7, 1), (3, 2)] {}).run ltInt [.assign 5 50, .emplace 1 9, .index 4, .iter]).2.getLast? =
    some (.entries [(1, 9), (3, 2), (4, 0), (5, 50), (7, 1)]) := by decide

/-- before the fix operator[] / emplace / the initializer list appended at the end: `m[5] = 50; m[2] = 20;`
    iterated 5, 2 (std::map: 2, 5), and `operator==` (comparison of the storage vectors) called two maps with the
    same entries different when they were filled in a different order -/
theorem flat_map_order_orig_witness :
    (FMap.runOrig ltInt {} [.assign 5 50, .assign 2 20, .iter]).2 = [.unit, .unit, .entries [(5, 50), (2, 20)]] ∧
    (FMap.run ltInt {} [.assign 5 50, .assign 2 20, .iter]).2 = [.unit, .unit, .entries [(2, 20), (5, 50)]] ∧
    (FMap.runOrig ltInt {} [.assign 5 50, .assign 2 20]).1.eqStorage (FMap.runOrig ltInt {} [.assign 2 20, .assign 5 50]).1 = false ∧
    (FMap.run ltInt {} [.assign 5 50, .assign 2 20]).1.eqStorage (FMap.run ltInt {} [.assign 2 20, .assign 5 50]).1 = true := by
  decide

/-- `flat_map::operator==` (it compares the storage vectors) is std::map's `==` on maps in the invariant: the
    storages are equal exactly when both maps hold the same entry for every key — whatever the histories that
    built them (std::map's == compares the entry sequences in key order, which are the storages) -/
theorem flat_map_eq_is_map_eq {lt : Int → Int → Bool} (h : StrictWeak lt) {m1 m2 : FMap} {f1 f2 : Int → Option (Int × Int)}
    (h1 : MRep lt m1 f1) (h2 : MRep lt m2 f2) : m1.eqStorage m2 = true ↔ f1 = f2 := by
  simp only [FMap.eqStorage, beq_iff_eq]
  exact storage_eq_iff h h1 h2

example : MRep ltInt (FMap.run ltInt {} [.assign 5 50, .assign 2 20]).1 (mapSpecRun ltInt (fun _ => none) [.assign 5 50, .assign 2 20]) :=
  (flat_map_refines_from strictWeak_ltInt MRep.empty _).2

/-- before the fix `flat_map{{1,10},{1,20}}.count(1)` was 2 -/
theorem flat_map_init_dup_orig_witness : (FMap.ofListOrig [(1, 10), (1, 20)]).count ltInt 1 = 2 := by decide

/-- after the fix the first entry of a key wins, like std::map -/
theorem flat_map_init_dup_fixed :
    (FMap.ofList ltInt [(1, 10), (1, 20)] {}).count ltInt 1 = 1 ∧ (FMap.ofList ltInt [(1, 10), (1, 20)] {}).find ltInt 1 = some 10 := by
  decide

/-- 6ba4c7a (flat_map ignored its Compare parameter: lookup with ==, insert ordered with <, i.e. the model
    run with std::less whatever the comparator): `flat_map<int,int,ByLastDigit>{{0,10},{10,30}}` kept both
    entries and did not find 20; with the fix the answers are std::map's (`flat_map_refines`) -/
theorem flat_map_ignores_compare_orig_witness :
    ((FMap.ofList ltInt [(0, 10), (10, 30)] {}).run ltInt [.find 20, .count 10, .size]).2 =
      [.opt none, .nat 1, .nat 2] ∧
    ((FMap.ofList (fun a b => decide (a.tmod 10 < b.tmod 10)) [(0, 10), (10, 30)] {}).run
      (fun a b => decide (a.tmod 10 < b.tmod 10)) [.find 20, .count 10, .size]).2 =
      [.opt (some 10), .nat 1, .nat 1] := by decide

/-- ONE OPERATION of flat_set.  If the storage is strictly increasing under the comparator and `S` maps every
    key to the stored element with the same key, the operation answers what std::set answers (count =
    presence of the key, iteration = the stored elements in increasing order, size = their number) and the
    new storage is again strictly increasing and represents std::set's new state. -/
theorem flat_set_step_refines {lt : Int → Int → Bool} (h : StrictWeak lt) {s : FSet} {S : Int → Option Int}
    (hr : SRep lt s S) (op : SOp) :
    setRetOk lt S op (s.step lt op).2 ∧ SRep lt (s.step lt op).1 (setSpecNext lt S op) := setStep_refines h hr op

example : SRep ltInt {} (fun _ => none) := SRep.empty

/-- REFINEMENT (clause 3 of C02, flat_set).  For every strict weak order and every history of insert, count,
    size, clear and iteration from the empty set the answers of flat_set are the answers of std::set with the
    same comparator, and the storage is strictly increasing (invariant) with exactly std::set's elements. -/
theorem flat_set_refines {lt : Int → Int → Bool} (h : StrictWeak lt) (ops : List SOp) :
    SetHist lt (fun _ => none) ops (FSet.run lt {} ops).2 ∧
    SRep lt (FSet.run lt {} ops).1 (setSpecRun lt (fun _ => none) ops) := setRun_refines h SRep.empty ops

theorem flat_set_refines_from {lt : Int → Int → Bool} (h : StrictWeak lt) {s : FSet} {S : Int → Option Int}
    (hr : SRep lt s S) (ops : List SOp) :
    SetHist lt S ops (s.run lt ops).2 ∧ SRep lt (s.run lt ops).1 (setSpecRun lt S ops) := setRun_refines h hr ops

example : (FSet.run ltInt {} [.insert 5, .insert 2, .insert 5, .insert 9, .count 5, .count 4, .size, .iter, .clear, .size]).2 =
    [.unit, .unit, .unit, .unit, .nat 1, .nat 0, .nat 3, .keys [2, 5, 9], .unit, .nat 0] := by decide

/-- std::greater<int>: `insert 5, insert 1, count(1)` is 1 (a `count` that bisects with operator< instead of
    the comparator — the seeded change C02-flat-set-count-ignores-comp — answers 0 here) -/
example : (FSet.run (fun a b => decide (b < a)) {} [.insert 5, .insert 1, .count 1, .insert 7, .iter]).2 =
    [.unit, .unit, .nat 1, .unit, .keys [7, 5, 1]] := by decide

/-- df076d8 (`flat_set(const Compare &comp)` dropped `comp`: the set ordered by a default-constructed
    comparator = the model run with the default direction): with the stateful comparator `Dir`,
    `flat_set<int, Dir> s(Dir(true)); insert 1; insert 2` iterated 1, 2; std::set (and the fixed code, by
    `flat_set_refines` with the descending order) iterates 2, 1 -/
theorem flat_set_comparator_object_orig_witness :
    (FSet.run ltInt {} [.insert 1, .insert 2, .iter]).2 = [.unit, .unit, .keys [1, 2]] ∧
    (FSet.run (fun a b => decide (b < a)) {} [.insert 1, .insert 2, .iter]).2 = [.unit, .unit, .keys [2, 1]] := by decide

/-- "the stored elements in increasing order" is a function of the set: two strictly increasing lists with
    the same elements are equal (so `setRetOk` fixes the answer of `iter` and `size` uniquely) -/
theorem flat_set_enumeration_unique {lt : Int → Int → Bool} (h : StrictWeak lt) (a b : List Int)
    (ha : Sorted lt a) (hb : Sorted lt b) (hab : ∀ j, j ∈ a ↔ j ∈ b) : a = b := sorted_enum_unique h a b ha hb hab

example : Sorted ltInt [2, 5, 9] := by decide

/-! ### flat_set / flat_map OVER THE VECTOR (the storage `_vec` / `storage` is an igris::vector in the compat build)

  `VSet` / `VMap` (FlatVec.lean) are the two containers written on top of the slot model of igris::vector: the
  bisections and the `find_if` / `count_if` loops read the slots of the block (`rd`: a read of memory that holds
  no readable object is a fault), a new entry goes in through the modelled `vector::insert(pos, value)`
  (`emplace`), `clear` / the destruction of the old storage are the modelled member functions.  A `std::pair`
  element is stored as its code under an arbitrary `Coding` with `dec ∘ enc = id` (`Coding.exists_ok`).  The
  simulation lemmas (`vset_run_simulates`, `vmap_run_simulates`) compose the list-level refinement theorems with
  the vector theorems: the statements below are about the containers on the real storage model. -/

/-- COMPOSITION, flat_set.  For every strict weak order and every history from the empty set, flat_set running
    on the slot model of igris::vector never faults (no read of an unconstructed / moved-from element, no access
    outside the block, no construction over an object …), answers exactly what std::set answers (`SetHist`),
    its storage vector represents the strictly increasing list of std::set's elements, and the ledger is
    balanced: constructed − destroyed element objects = number of elements, allocated − freed blocks = 1 if the
    vector holds a block. -/
theorem flat_set_over_vector_refines {lt : Int → Int → Bool} (h : StrictWeak lt) (ops : List SOp) :
    ∃ s' l' rets, VSet.run lt {} {} ops = some (s', l', rets) ∧
      SetHist lt (fun _ => none) ops rets ∧
      ∃ xs, Rep s'.v xs ∧ SRep lt ⟨xs⟩ (setSpecRun lt (fun _ => none) ops) ∧
        l'.net = xs.length ∧ l'.blocks = held s'.v := by
  obtain ⟨s', l', hrun, g⟩ := vset_run_simulates lt (s := {}) (xs := []) Rep.nil {} ops
  obtain ⟨a, b⟩ := flat_set_refines h ops
  refine ⟨s', l', _, hrun, a, _, g.rep, b, ?_, ?_⟩
  · have := g.net; simp [Ledger.net] at this ⊢; omega
  · have := g.blk; simp [Ledger.blocks, held] at this ⊢; omega

/-- COMPOSITION, flat_map.  The same for flat_map over a vector of (coded) pairs, for every initializer list and
    every history of operator[] (read / write / const), insert, emplace, find, count, at, size, clear,
    re-initialisation and iteration: no fault of the slot model, std::map's answers, the storage vector
    represents the entries in increasing key order, ledger balanced. -/
theorem flat_map_over_vector_refines {lt : Int → Int → Bool} (h : StrictWeak lt) (c : Coding) (hc : c.ok)
    (init : List (Int × Int)) (ops : List MOp) :
    ∃ m' l' rets, VMap.run c lt {} {} (.init init :: ops) = some (m', l', .unit :: rets) ∧
      MapHist lt (fun k => entry lt k init) ops rets ∧
      ∃ xs, Rep m'.v (xs.map c.enc) ∧ MRep lt ⟨xs⟩ (mapSpecRun lt (fun k => entry lt k init) ops) ∧
        l'.net = xs.length ∧ l'.blocks = held m'.v := by
  obtain ⟨m', l', hrun, g⟩ := vmap_run_simulates c hc lt (m := {}) (xs := []) Rep.nil {} (.init init :: ops)
  obtain ⟨a, b⟩ := flat_map_refines h init ops
  have e1 : ((⟨[]⟩ : FMap).run lt (.init init :: ops)).2 = .unit :: ((FMap.ofList lt init {}).run lt ops).2 := by
    simp [FMap.run, FMap.step]
  have e2 : ((⟨[]⟩ : FMap).run lt (.init init :: ops)).1 = ((FMap.ofList lt init {}).run lt ops).1 := by
    simp [FMap.run, FMap.step]
  rw [e1] at hrun
  rw [e2] at g
  refine ⟨m', l', _, hrun, a, _, g.rep, b, ?_, ?_⟩
  · have := g.net; simp [Ledger.net] at this ⊢; omega
  · have := g.blk; simp [Ledger.blocks, held] at this ⊢; omega

example : ∃ c : Coding, c.ok := Coding.exists_ok

/-! ### exceptions thrown by element operations (Exc.lean)

  The element operations that may throw are default / value / copy construction and copy assignment (moves and
  the destructor are `noexcept`, as std::vector itself needs for its strong guarantee).  `stepX portable s fz op`
  is the member function with the fuse `fz`: `some k` = the k-th throwing-capable element operation it executes
  throws.  `throwPoints f op` is the number of such operations (the fuse fires iff `k < throwPoints f op`),
  `specThrow f k op` the contents afterwards.  The theorems are about the code after the fixes 93cf379 (copy
  assignment), 04aed91 (constructors), 6f9cb41 (resize), 54e3cd5 (range insert); the unrepaired bodies are
  shown as VIOLATIONs by the check (corpus `exc_*.ops`). -/

theorem opRegs_eq (op : Op) : opRegs op = op.regs := by cases op <;> rfl

/-- no fuse: the exception-aware model IS the model of the other theorems -/
theorem no_fuse_is_step (portable : Bool) (s : St) (op : Op) :
    stepX portable s none op = Out.ofOption (step portable s op) := stepX_none portable s op

/-- THE FUSE IS NOT REACHED (it is larger than the number of throwing-capable operations the call executes):
    the operation completes, returns std::vector's return value and leaves std::vector's contents -/
theorem exception_not_fired (portable : Bool) {R : Nat} {s : St} {f : Nat → List Val} (hI : SInv R s f) (op : Op)
    (hR : ∀ r ∈ op.regs, r < R) {f' : Nat → List Val} {ret : Ret} (hs : specStep f op = some (f', ret))
    (fz : Option Nat) (hf : ∀ k, fz = some k → throwPoints f op ≤ k) :
    ∃ s', stepX portable s fz op = .ok (s', ret) ∧ SInv R s' f' :=
  stepX_not_fired portable
    (fun {_ _} hI op hR {_ _} hs => step_refines portable hI op (by rw [← opRegs_eq]; exact hR) hs)
    hI op (by rw [opRegs_eq]; exact hR) hs fz hf

/-- BASIC GUARANTEE for every member function, STRONG GUARANTEE where std::vector gives it.  Whatever
    throwing-capable element operation of the call throws (`k < throwPoints f op`), the member function is left by
    the exception WITHOUT A FAULT of the slot model (no construction over an object, no destruction / assignment /
    read of memory that holds no object, nothing outside the block) and the state satisfies the full invariant
    again: every vector has size ≤ capacity = block size, exactly the slots below size hold constructed, readable
    (not moved-from) elements, every slot behind is unconstructed; constructed − destroyed objects = Σ sizes
    (nothing leaked, nothing destroyed twice), allocated − freed blocks = vectors holding a block.  The contents
    are `specThrow f k op`: UNCHANGED for push_back / emplace_back / insert(pos, value) / emplace / insert_sorted
    (also with an argument aliasing an element, also at capacity: the reallocation happens after the only
    throwing operation) and resize — the strong guarantee; NO OBJECT for the constructors (the old object of the
    register was destroyed before, the new one never came to exist: no leak); the `k` copies made for copy
    assignment; the elements in front of `pos` followed by the `k` copies made for insert(pos, first, last). -/
theorem exception_safety (portable : Bool) {R : Nat} {s : St} {f : Nat → List Val} (hI : SInv R s f) (op : Op)
    (hR : ∀ r ∈ op.regs, r < R) {f' : Nat → List Val} {ret : Ret} (hs : specStep f op = some (f', ret))
    {k : Nat} (hk : k < throwPoints f op) :
    ∃ s', stepX portable s (some k) op = .threw (s', .throw) ∧ SInv R s' (specThrow f k op) :=
  stepX_fired portable hI op (by rw [opRegs_eq]; exact hR) hs hk

/-- the strong guarantee spelled out: for these operations `specThrow` is the identity -/
theorem strong_guarantee_ops (f : Nat → List Val) (k : Nat) (op : Op)
    (h : (∃ r a, op = .emplaceBack r a) ∨ (∃ r p a, op = .emplace r p a) ∨ (∃ r x, op = .insertSorted r x) ∨
      (∃ r n, op = .resize r n)) : specThrow f k op = f := by
  rcases h with ⟨r, a, rfl⟩ | ⟨r, p, a, rfl⟩ | ⟨r, x, rfl⟩ | ⟨r, n, rfl⟩ <;> rfl

example : ∃ (s : St) (f : Nat → List Val) (f' : Nat → List Val) (ret : Ret), SInv 1 s f ∧
    specStep f (.listCtor 0 [1, 2, 3]) = some (f', ret) ∧ 1 < throwPoints f (.listCtor 0 [1, 2, 3]) :=
  ⟨St.init, fun _ => [], _, _, SInv.init 1, rfl, by decide⟩

/-- HISTORIES WITH EXCEPTIONS.  Any history std::vector accepts, each operation with its own fuse (the caller
    catches the exception and goes on using the vectors): no fault anywhere, every intermediate state satisfies the
    invariant with the contents `runSpecX` predicts — the vectors stay usable — … -/
theorem exception_histories_safe (portable : Bool) {R : Nat} (ops : List (Op × Option Nat))
    (hR : ∀ p ∈ ops, ∀ r ∈ p.1.regs, r < R) {f' : Nat → List Val} (hs : runSpecX (fun _ => []) ops = some f') :
    ∃ s', runX portable St.init ops = some s' ∧ SInv R s' f' :=
  runX_safe portable
    (fun {_ _} hI op hR {_ _} hs => step_refines portable hI op (by rw [← opRegs_eq]; exact hR) hs)
    ops (SInv.init R) (by intro p hp; rw [opRegs_eq]; exact hR p hp) hs

/-- … and destructible: after the destructors every element object ever constructed has been destroyed exactly
    once and every block freed, WHATEVER threw on the way (no leak) -/
theorem exception_no_leak (portable : Bool) (R : Nat) (ops : List (Op × Option Nat))
    (hR : ∀ p ∈ ops, ∀ r ∈ p.1.regs, r < R) {f' : Nat → List Val} (hs : runSpecX (fun _ => []) ops = some f') :
    ∃ s' s'', runX portable St.init ops = some s' ∧ destroyAll s' R = some s'' ∧
      s''.led.made = s''.led.dtor ∧ s''.led.alloc = s''.led.dealloc ∧ ∀ r, r < R → s''.regs r = Vec.empty :=
  runX_no_leak portable R
    (fun {_ _} hI op hR {_ _} hs => step_refines portable hI op (by rw [← opRegs_eq]; exact hR) hs)
    ops (by intro p hp; rw [opRegs_eq]; exact hR p hp) hs

example : (runSpecX (fun _ => []) [(.listCtor 0 [1, 2, 3], none), (.insertRange 0 1 (.ext [7, 8, 9]), some 1),
    (.emplaceBack 0 (.own 0), some 0), (.copyAssign 1 0, some 1), (.resize 1 4, some 2)]).isSome = true := by decide


/-! ## Round 3 — allocation failure (Alloc.lean) and comparison under the element's own `==` -/

/-- THE ALLOCATION STEP OF changeBuffer.  `oldcapacity = m_capacity; newbuf = allocate(sz); m_capacity = sz;` in
    this order: when `allocate` throws, the exception leaves changeBuffer with the vector and the ledger exactly
    as they were (nothing has been written yet). -/
theorem changeBuffer_alloc_failure_no_effect (af : AF) (idx : Nat) (v : Vec) (sz : Nat) (l : Ledger)
    {r : Vec × Ledger} (h : changeBufferA false af idx v sz l = .threw r) : r = (v, l) :=
  changeBufferA_threw h

example : changeBufferA false (.kth 0) 0 (vecOf 3 [1, 2, 3]) 4 {} = .threw (vecOf 3 [1, 2, 3], {}) := rfl

/-- … and when it does not throw, the call is the unarmed changeBuffer -/
theorem changeBuffer_alloc_granted (af : AF) (idx : Nat) (v : Vec) (sz : Nat) (l : Ledger)
    (h : af.hit idx sz = false) : changeBufferA false af idx v sz l = .ofOption (changeBuffer v sz l) := by
  rw [changeBufferA_eq]; simp [h]

/-- A FAILED GROWTH HAS NO EFFECT — for every growing operation (reserve, push_back / emplace_back, insert /
    emplace, insert_sorted, insert(pos, first, last), resize), whatever failure is armed, in ANY state (no
    hypothesis): if the call is left by std::bad_alloc, every register is the very record it was — block,
    m_capacity, m_size, all slots — and constructed - destroyed objects and allocated - freed blocks are unchanged
    (the temporary `T tmp(args…)` built before the allocation has been destroyed). -/
theorem alloc_failure_no_effect (portable : Bool) (s : St) (af : AF) (op : Op) (hop : op.growsInPlace = true)
    {s' : St} {r : Ret} (h : stepA false portable s af op = .threw (s', r)) :
    (∀ j, s'.regs j = s.regs j) ∧ s'.led.net = s.led.net ∧ s'.led.blocks = s.led.blocks :=
  let ⟨h1, h2, h3, _⟩ := stepA_threw_same portable s af op hop h
  ⟨h1, h2, h3⟩

/-- EXACTLY WHEN, AND WHAT ELSE.  In a state of the invariant, for an operation std::vector accepts: the armed
    failure strikes iff the call allocates — the required size exceeds the capacity — and the request is one the
    allocator refuses (`allocFails`, read off sizes and capacities).  If it strikes, the call is left by the
    exception WITHOUT a fault of the slot model, the state still represents the same lists (strong guarantee) and
    is register for register the old one; if it does not, the call IS the unarmed one (to which `step_refines`
    applies). -/
theorem alloc_failure_exact (portable : Bool) {R : Nat} {s : St} {f : Nat → List Val} (hI : SInv R s f) (af : AF)
    (op : Op) (hop : op.growsInPlace = true) (hR : ∀ r ∈ op.regs, r < R)
    {f' : Nat → List Val} {ret : Ret} (hs : specStep f op = some (f', ret)) :
    (allocFails s af op = true →
      ∃ s', stepA false portable s af op = .threw (s', .throw) ∧ SInv R s' f ∧ ∀ j, s'.regs j = s.regs j) ∧
    (allocFails s af op = false → stepA false portable s af op = .ofOption (step portable s op)) := by
  refine ⟨fun h => ?_, fun h => stepA_not_failed portable s af op hop h⟩
  obtain ⟨s1, h1, _⟩ := step_refines portable hI op hR hs
  obtain ⟨s', h2⟩ := stepA_failed portable s af op hop h (by rw [h1]; rfl)
  obtain ⟨e1, e2, e3, _⟩ := stepA_threw_same portable s af op hop h2
  exact ⟨s', h2, hI.of_same e1 e2 e3, e1⟩

/-- both regions of `alloc_failure_exact` are inhabited: a full vector refuses to grow, one with room does not
    allocate -/
example : allocFails ⟨fun _ => vecOf 2 [1, 2], {}⟩ (.kth 0) (.emplaceBack 0 (.val 5)) = true ∧
    allocFails ⟨fun _ => vecOf 3 [1, 2], {}⟩ (.kth 0) (.emplaceBack 0 (.val 5)) = false ∧
    allocFails ⟨fun _ => vecOf 2 [1, 2], {}⟩ (.above 4) (.reserve 0 4) = false ∧
    allocFails ⟨fun _ => vecOf 2 [1, 2], {}⟩ (.above 4) (.reserve 0 5) = true := by decide

/-- std::vector accepts the history whichever of the armed allocations fail: a failed operation leaves the
    abstract state as it was, the caller goes on -/
def AcceptsA (f : Nat → List Val) : List (Op × Option AF) → Prop
  | [] => True
  | (op, af) :: rest =>
    ∃ f' ret, specStep f op = some (f', ret) ∧ AcceptsA f' rest ∧ (af.isSome = true → AcceptsA f rest)

/-- HISTORIES WITH ALLOCATION FAILURES.  Any history of operations, any of the growing ones armed with an
    allocation failure (k-th allocation of the call, or a bounded allocator), the caller catching std::bad_alloc
    and using the vectors further: no fault anywhere and the final state is in the invariant (size <= capacity =
    block size, exactly the slots below size constructed, ledger balanced) — … -/
theorem alloc_failure_histories_safe (portable : Bool) {R : Nat} (ops : List (Op × Option AF))
    (hA : ∀ p ∈ ops, p.2.isSome = true → p.1.growsInPlace = true) (hR : ∀ p ∈ ops, ∀ r ∈ p.1.regs, r < R)
    {s : St} {f : Nat → List Val} (hI : SInv R s f) (hs : AcceptsA f ops) :
    ∃ s' f', runA false portable s ops = some s' ∧ SInv R s' f' := by
  induction ops generalizing s f with
  | nil => exact ⟨s, f, rfl, hI⟩
  | cons p rest ih =>
    obtain ⟨op, oaf⟩ := p
    obtain ⟨f1, ret, h1, hacc, hfail⟩ := hs
    have hR' : ∀ r ∈ op.regs, r < R := hR (op, oaf) (by simp)
    have ihr := fun {s : St} {f : Nat → List Val} (hI : SInv R s f) (hs : AcceptsA f rest) =>
      ih (fun p hp => hA p (by simp [hp])) (fun p hp => hR p (by simp [hp])) hI hs
    obtain ⟨s1, hs1, hI1⟩ := step_refines portable hI op hR' h1
    cases oaf with
    | none =>
      obtain ⟨s', f', h2, hI2⟩ := ihr hI1 hacc
      exact ⟨s', f', by simp [runA, hs1, h2], hI2⟩
    | some af =>
      have hop : op.growsInPlace = true := hA (op, some af) (by simp) rfl
      obtain ⟨hyes, hno⟩ := alloc_failure_exact portable hI af op hop hR' h1
      cases hf : allocFails s af op with
      | true =>
        obtain ⟨s2, h2, hI2, _⟩ := hyes hf
        obtain ⟨s', f', h3, hI3⟩ := ihr hI2 (hfail rfl)
        exact ⟨s', f', by simp [runA, h2, h3], hI3⟩
      | false =>
        obtain ⟨s', f', h3, hI3⟩ := ihr hI1 hacc
        exact ⟨s', f', by simp [runA, hno hf, hs1, Out.ofOption, h3], hI3⟩

/-- … and after the destructors every element object ever constructed has been destroyed exactly once and every
    block freed, whichever allocations failed on the way -/
theorem alloc_failure_no_leak (portable : Bool) (R : Nat) (ops : List (Op × Option AF))
    (hA : ∀ p ∈ ops, p.2.isSome = true → p.1.growsInPlace = true) (hR : ∀ p ∈ ops, ∀ r ∈ p.1.regs, r < R)
    (hs : AcceptsA (fun _ => []) ops) :
    ∃ s' s'', runA false portable St.init ops = some s' ∧ destroyAll s' R = some s'' ∧
      s''.led.made = s''.led.dtor ∧ s''.led.alloc = s''.led.dealloc ∧ ∀ r, r < R → s''.regs r = Vec.empty := by
  obtain ⟨s', f', h1, hI⟩ := alloc_failure_histories_safe portable ops hA hR (SInv.init R) hs
  obtain ⟨s'', h2, hI2, hE⟩ := destroyAll_ok hI R (Nat.le_refl _)
  refine ⟨s', s'', h1, h2, ?_, ?_, hE⟩
  · have hn := hI2.net
    rw [total_zero_of _ R (by intro j hj; simp [hj])] at hn
    simp only [Ledger.net, Ledger.made] at hn ⊢; omega
  · have hb := hI2.blk
    rw [total_zero_of _ R (by intro j hj; rw [hE j hj]; simp)] at hb
    simp only [Ledger.blocks] at hb; omega

/-- the hypotheses are satisfiable: push three, a reserve that is refused, push on, insert refused, resize -/
example : AcceptsA (fun _ => []) [(.listCtor 0 [1, 2, 3], none), (.reserve 0 1001, some (.above 1000)),
    (.emplaceBack 0 (.val 4), some (.kth 0)), (.emplace 0 1 (.own 0), some (.kth 0)), (.resize 0 9, none)] := by
  simp [AcceptsA, specStep, argSpec, setL, insertAt]

/-- WITNESS for the seeded tidy-up `oldcapacity = std::exchange(m_capacity, sz)` in front of the allocation
    (`capFirst = true`): push three elements, a reserve the allocator refuses, one more push_back — std::vector
    accepts the history and the code as it is runs it (incl. the destructors), the variant faults: the failed
    reserve left m_capacity = 1001 over the 3-slot block, so push_back takes the "enough room" path and constructs
    behind the block. -/
theorem changeBuffer_capacity_first_witness :
    let ops : List (Op × Option AF) :=
      [(.listCtor 0 [1, 2, 3], none), (.reserve 0 1001, some (.above 1000)), (.emplaceBack 0 (.val 4), none)]
    AcceptsA (fun _ => []) ops ∧
    (runA true false St.init ops).isNone = true ∧
    ((runA false false St.init ops).bind fun s => destroyAll s 1).isSome = true := by
  refine ⟨by simp [AcceptsA, specStep, argSpec, setL], by decide, by decide⟩

/-- the capacity the variant reports after the failed reserve is not the size of the block it owns -/
theorem changeBuffer_capacity_first_breaks_rep :
    changeBufferA true (.above 1000) 0 (vecOf 3 [1, 2, 3]) 1001 {} = .threw ({ vecOf 3 [1, 2, 3] with cap := 1001 }, {}) ∧
    ¬ Rep { vecOf 3 [1, 2, 3] with cap := 1001 } [1, 2, 3] := by
  refine ⟨rfl, ?_⟩
  intro h
  have := h.2
  simp [vecOf] at this

/-- COMPARISON UNDER THE ELEMENT TYPE'S OWN RELATION.  `operator==` of the code (size test, then the loop with the
    element's `!=`) over two represented vectors runs without a fault and answers `listEqBy ne`: equal lengths and
    the element `!=` false at every index — for ANY relation `ne` (not the negation of an equivalence, not even
    irreflexive: a NaN differs from itself, so a vector holding one is unequal to its own copy). -/
theorem vec_eq_is_elementwise (ne : Val → Val → Bool) {a b : Vec} {xs ys : List Val} (ha : Rep a xs) (hb : Rep b ys) :
    vecEqBy ne a b = some (listEqBy ne xs ys) ∧
    (listEqBy ne xs ys = true ↔ xs.length = ys.length ∧ ∀ i, i < xs.length → ne (xs.getD i 0) (ys.getD i 0) = false) :=
  ⟨vecEqBy_ok ne ha hb, listEqBy_iff ne xs ys⟩

/-- with the value inequality as element relation this is the `operator==` of `step_refines` (list equality) -/
theorem vec_eq_by_value_is_list_eq {a b : Vec} {xs ys : List Val} (ha : Rep a xs) (hb : Rep b ys) :
    vecEqBy (fun p q => p != q) a b = some (decide (xs = ys)) := by
  rw [vecEqBy_ok _ ha hb, listEqBy_eq]

/-- WITNESS for the seeded bytewise fast path (`memcmp` for trivially copyable T): with doubles coded 0 = +0.0,
    1 = -0.0, 2 = NaN the element relation says [+0.0] == [-0.0] and [NaN] != [NaN]; the comparison of the
    representations says the opposite both times -/
theorem equality_memcmp_witness :
    let ne : Val → Val → Bool := fun a b => a == 2 || b == 2 || (if a ≤ 1 then 0 else a - 2) != (if b ≤ 1 then 0 else b - 2)
    vecEqBy ne (vecOf 1 [0]) (vecOf 1 [1]) = some true ∧ vecEqBytes Int.toNat (vecOf 1 [0]) (vecOf 1 [1]) = some false ∧
    vecEqBy ne (vecOf 1 [2]) (vecOf 1 [2]) = some false ∧ vecEqBytes Int.toNat (vecOf 1 [2]) (vecOf 1 [2]) = some true := by
  decide

/-- ROUND 3b. `operator<` UNDER THE ELEMENT TYPE'S OWN `<`.  The `std::lexicographical_compare` loop of the code over
    two represented vectors runs without a fault and answers, for ANY relation `lt` (in particular every strict weak
    order; a double's `<`, which is false whenever a NaN is involved, too): there is a position `k` inside `ys` and not
    behind the end of `xs` in front of which the elements are pairwise equivalent (neither less than the other) and
    at which `xs` ends or holds the smaller element.  The right-hand side is stated on the two lists alone. -/
theorem vec_lt_is_lexicographic (lt : Val → Val → Bool) {a b : Vec} {xs ys : List Val} (ha : Rep a xs) (hb : Rep b ys) :
    ∃ r, vecLtBy lt a b = some r ∧
      (r = true ↔ ∃ k, k ≤ xs.length ∧ k < ys.length ∧
        (∀ i, i < k → lt (xs.getD i 0) (ys.getD i 0) = false ∧ lt (ys.getD i 0) (xs.getD i 0) = false) ∧
        (k = xs.length ∨ lt (xs.getD k 0) (ys.getD k 0) = true)) :=
  ⟨listLtBy lt xs ys, vecLtBy_ok lt ha hb, listLtBy_iff lt xs ys⟩

example : vecLtBy ltInt (vecOf 2 [1, 2]) (vecOf 3 [1, 2, 0]) = some true ∧ vecLtBy ltInt (vecOf 2 [1, 3]) (vecOf 3 [1, 2, 0]) = some false := by
  decide

/-- with the value order of the model's element type this is the `<` of `step_refines` (`List`'s lexicographic order) -/
theorem vec_lt_by_value_is_list_lt {a b : Vec} {xs ys : List Val} (ha : Rep a xs) (hb : Rep b ys) :
    vecLtBy (fun p q => decide (p < q)) a b = some (decide (xs < ys)) := by
  rw [vecLtBy_ok _ ha hb]
  congr 1
  clear ha hb
  induction xs generalizing ys with
  | nil => cases ys <;> simp [listLtBy]
  | cons x xs ih =>
    cases ys with
    | nil => simp [listLtBy]
    | cons y ys =>
      simp only [listLtBy, ih, List.cons_lt_cons_iff]
      by_cases h1 : x < y
      · simp [h1]
      · by_cases h2 : y < x
        · have : x ≠ y := (Int.ne_of_lt h2).symm
          simp [h1, h2, this]
        · have : x = y := Int.le_antisymm (Int.not_lt.mp h2) (Int.not_lt.mp h1)
          subst this
          simp

/-- ROUND 3b. A FAILED COPY ASSIGNMENT / CONSTRUCTOR.  The operations that rebuild a vector with one allocation — copy
    assignment from another vector, copy construction, `vector(n)`, the initializer-list / template-range constructor
    (the object in register `d` is destroyed and built anew) — with ANY allocation failure armed, in a state of the
    invariant, for an operation std::vector accepts: the call either completes exactly like the unarmed one (std's
    return value, std's contents), or is left by std::bad_alloc WITHOUT A FAULT in a state that satisfies the full
    invariant again in which register `d` is the EMPTY vector and every other register is the very record it was
    (basic guarantee for copy assignment — `invalidate()` has run, `m_data` / `m_size` / `m_capacity` were not yet
    written —; no object and no leak for a constructor: the delegated-to empty object is destroyed). -/
theorem alloc_failure_rebuild_safe (portable : Bool) {R : Nat} {s : St} {f : Nat → List Val} (hI : SInv R s f) (af : AF)
    (op : Op) {d : Nat} (hop : op.rebuilds = some d) (hR : ∀ r ∈ op.regs, r < R)
    {f' : Nat → List Val} {ret : Ret} (hs : specStep f op = some (f', ret)) :
    (∃ s', stepA false portable s af op = .ok (s', ret) ∧ SInv R s' f') ∨
    (∃ s', stepA false portable s af op = .threw (s', .throw) ∧ SInv R s' (fun j => if j = d then [] else f j) ∧
      s'.regs d = Vec.empty ∧ ∀ j, j ≠ d → s'.regs j = s.regs j) := by
  have hd : d < R := by
    apply hR
    cases op <;> simp [Op.rebuilds] at hop <;> simp [Op.regs] <;> try (split at hop <;> simp_all)
    all_goals simp_all
  obtain ⟨l0, hinv, _⟩ := invalidate_good (hI.rep d) s.led
  rcases stepA_rebuild portable s af op hop hinv with h | ⟨h1, h2⟩
  · obtain ⟨s1, h3, hI1⟩ := step_refines portable hI op hR hs
    exact Or.inl ⟨s1, by rw [h, h3]; rfl, hI1⟩
  · have hs2 : specStep f (.invalidate d) = some (setL f d [], .unit) := rfl
    obtain ⟨s1, h3, hI1⟩ := step_refines portable hI (.invalidate d) (by intro r hr; simp [Op.regs] at hr; omega) hs2
    rw [h2] at h3; cases h3
    refine Or.inr ⟨_, h1, hI1, by simp [St.set], fun j hj => by simp [St.set, hj]⟩

/-- both outcomes of `alloc_failure_rebuild_safe` occur: `b = a` with the allocation refused leaves `b` empty and `a`
    untouched; with the allocation granted it is the copy -/
example :
    (match stepA false false ⟨fun j => if j = 0 then vecOf 2 [1, 2] else vecOf 1 [7], {}⟩ (.kth 0) (.copyAssign 1 0) with
      | .threw (s', _) => (s'.regs 1).size == 0 && (s'.regs 1).cap == 0 && (s'.regs 1).data.isNone && (s'.regs 0).size == 2
      | _ => false) = true ∧
    (match stepA false false ⟨fun j => if j = 0 then vecOf 2 [1, 2] else vecOf 1 [7], {}⟩ (.kth 1) (.copyAssign 1 0) with
      | .ok (s', _) => (s'.regs 1).size == 2
      | _ => false) = true := by
  decide

/-- ROUND 3b. `vector(iterator first, const iterator last)` allocates once per push_back that finds the block full: with
    ANY of these allocations failing (the k-th of the call, or a bounded allocator) the constructor either completes
    like the unarmed one or is left by std::bad_alloc without a fault, the partially built vector destroyed and its
    block given back: the state is in the invariant with register `d` empty and every other register untouched. -/
theorem alloc_failure_range_ctor_safe (portable : Bool) {R : Nat} {s : St} {f : Nat → List Val} (hI : SInv R s f) (af : AF)
    (d src a b : Nat) (hd : d < R) (hsrc : src < R)
    {f' : Nat → List Val} {ret : Ret} (hs : specStep f (.rangeCtor d src a b) = some (f', ret)) :
    (∃ s', stepA false portable s af (.rangeCtor d src a b) = .ok (s', ret) ∧ SInv R s' f') ∨
    (∃ s', stepA false portable s af (.rangeCtor d src a b) = .threw (s', .throw) ∧
      SInv R s' (fun j => if j = d then [] else f j) ∧ s'.regs d = Vec.empty ∧ ∀ j, j ≠ d → s'.regs j = s.regs j) := by
  have hs0 := hs
  simp only [specStep] at hs
  split at hs
  · rename_i hc
    obtain ⟨hne, hab, hb⟩ := hc
    obtain ⟨l0, hinv, g0⟩ := invalidate_good (hI.rep d) s.led
    have hread := readRange_ok (hI.rep src) a (b - a) (by omega)
    rcases pushAllA_good af Rep.nil (((f src).drop a).take (b - a)) 0 l0 with ⟨v', l', h2, h3⟩ | ⟨v', zs, l', h2, g2⟩
    · left
      have hstep : step portable s (.rangeCtor d src a b) = some (s.set d v' l', .unit) := by
        simp [step, hne, hinv, rangeCtor, hread, h3]
      obtain ⟨s1, h4, hI1⟩ := step_refines portable hI (.rangeCtor d src a b) (by intro r hr; simp [Op.regs] at hr; omega) hs0
      rw [hstep] at h4
      simp only [Option.some.injEq, Prod.mk.injEq] at h4
      obtain ⟨rfl, rfl⟩ := h4
      exact ⟨_, by simp [stepA, hne, hinv, rangeCtorA, hread, h2], hI1⟩
    · right
      obtain ⟨l2, hinv2, g3⟩ := invalidate_good g2.rep l'
      refine ⟨s.set d Vec.empty l2, by simp [stepA, hne, hinv, rangeCtorA, hread, h2, unwindCtor, hinv2], ?_, by simp [St.set], fun j hj => by simp [St.set, hj]⟩
      exact hI.set hd (g0.trans (g2.trans g3))
  · simp at hs

end Igris.C02
