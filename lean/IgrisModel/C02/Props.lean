import IgrisModel.C02.Lemmas
namespace Igris.C02
end Igris.C02
