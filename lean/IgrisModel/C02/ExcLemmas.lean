import IgrisModel.C02.Lemmas
import IgrisModel.C02.Bisect
import IgrisModel.C02.Exc
/-!
  C02 — igris::vector when element operations throw: the exception-aware step `stepX` of Exc.lean
  * is the step of Model.lean when no fuse is set or the fuse is not reached,
  * leaves the operation WITHOUT A FAULT and in a state that satisfies the full invariant `SInv` again, with the
    contents `specThrow f k op`, when the fuse fires.
-/
namespace Igris.C02

/-- registers an operation names (the clauses of `Op.regs` in Props.lean) -/
def opRegs : Op → List Nat
  | .emplaceBack r _ | .popBack r | .emplace r _ _ | .insertRange r _ _ | .insertSorted r _ | .erase r _ _
  | .eraseTo r _ | .resize r _ | .reserve r _ | .clear r | .invalidate r | .sizeCtor r _ | .listCtor r _
  | .at r _ | .index r _ | .frontBack r | .iter r => [r]
  | .copyCtor d s | .moveCtor d s | .copyAssign d s | .moveAssign d s | .rangeCtor d s _ _
  | .eq d s | .ne d s | .lt d s => [d, s]

/-! ### no fuse / fuse not reached -/

theorem Out.match_ofOption2 {β : Type} (o : Option (Vec × Ledger)) (g h : Vec → Ledger → β) :
    (match Out.ofOption o with
      | .ok (v, l) => Out.ok (g v l)
      | .threw (v, l) => Out.threw (h v l)
      | .fault => Out.fault) = Out.ofOption (o.map fun (v, l) => g v l) := by
  cases o with
  | none => rfl
  | some p => obtain ⟨v, l⟩ := p; rfl

theorem Out.match_ofOption3 {β : Type} (o : Option (Nat × Vec × Ledger)) (g h : Nat → Vec → Ledger → β) :
    (match Out.ofOption o with
      | .ok (p, v, l) => Out.ok (g p v l)
      | .threw (p, v, l) => Out.threw (h p v l)
      | .fault => Out.fault) = Out.ofOption (o.map fun (p, v, l) => g p v l) := by
  cases o with
  | none => rfl
  | some p => obtain ⟨p, v, l⟩ := p; rfl

/-- the constructor ops: `invalidate`, then the constructor -/
theorem Out.match_inv {β : Type} (i : Option (Vec × Ledger)) (c : Ledger → Option (Vec × Ledger))
    (g h : Vec → Ledger → β) :
    (match i with
      | none => Out.fault
      | some (_, l) =>
        match Out.ofOption (c l) with
        | .ok (v, l) => Out.ok (g v l)
        | .threw (v, l) => Out.threw (h v l)
        | .fault => Out.fault) =
    Out.ofOption (match i with
      | none => none
      | some (_, l) => (c l).map fun (v, l) => g v l) := by
  cases i with
  | none => rfl
  | some p => obtain ⟨v, l⟩ := p; exact Out.match_ofOption2 _ _ _

theorem emplaceBackX_not (v : Vec) (a : Arg) (fz : Option Nat) (l : Ledger) (h : fz ≠ some 0) :
    emplaceBackX v a fz l = .ofOption (emplaceBack v a l) := by
  simp [emplaceBackX, h]

theorem emplaceX_not (v : Vec) (pos : Nat) (a : Arg) (fz : Option Nat) (l : Ledger) (h : fz ≠ some 0) :
    emplaceX v pos a fz l = .ofOption (emplace v pos a l) := by
  simp [emplaceX, h]

theorem insertSortedX_not (v : Vec) (x : Val) (fz : Option Nat) (l : Ledger) (h : fz ≠ some 0) :
    insertSortedX v x fz l = .ofOption (insertSorted v x l) := by
  simp [insertSortedX, h]

theorem resizeX_not (v : Vec) (n : Nat) (fz : Option Nat) (l : Ledger) (h : ∀ k, fz = some k → n - v.size ≤ k) :
    resizeX v n fz l = .ofOption (resize v n l) := by
  cases fz with
  | none => rfl
  | some k =>
    have := h k rfl
    simp only [resizeX]
    rw [if_neg (by omega)]

theorem copyAssignX_not (v o : Vec) (fz : Option Nat) (l : Ledger) (h : ∀ k, fz = some k → o.size ≤ k) :
    copyAssignX v o fz l = .ofOption (copyAssign v o l) := by
  cases fz with
  | none => rfl
  | some k =>
    have := h k rfl
    simp only [copyAssignX]
    rw [if_neg (by omega)]

theorem copyCtorX_not (portable : Bool) (o : Vec) (fz : Option Nat) (l : Ledger) (h : ∀ k, fz = some k → o.size ≤ k) :
    copyCtorX portable o fz l = .ofOption (copyCtor portable o l) := by
  cases fz with
  | none => rfl
  | some k =>
    have := h k rfl
    simp only [copyCtorX]
    rw [if_neg (by omega)]

theorem sizeCtorX_not (n : Nat) (fz : Option Nat) (l : Ledger) (h : ∀ k, fz = some k → n ≤ k) :
    sizeCtorX n fz l = .ofOption (sizeCtor n l) := by
  have := resizeX_not Vec.empty n fz l (by intro k hk; have := h k hk; omega)
  simp only [sizeCtorX, this, sizeCtor]
  cases resize Vec.empty n l <;> rfl

theorem listCtorX_not (xs : List Val) (fz : Option Nat) (l : Ledger) (h : ∀ k, fz = some k → xs.length ≤ k) :
    listCtorX xs fz l = .ofOption (listCtor xs l) := by
  cases fz with
  | none => rfl
  | some k =>
    have := h k rfl
    simp only [listCtorX]
    rw [if_neg (by omega)]

theorem rangeCtorX_not (o : Vec) (f t : Nat) (fz : Option Nat) (l : Ledger) (h : ∀ k, fz = some k → t - f ≤ k) :
    rangeCtorX o f t fz l = .ofOption (rangeCtor o f t l) := by
  cases fz with
  | none => rfl
  | some k =>
    have := h k rfl
    simp only [rangeCtorX]
    rw [if_neg (by omega)]

theorem insertRangeX_not (v : Vec) (pos : Nat) (src : Src) (fz : Option Nat) (l : Ledger)
    (h : ∀ k, fz = some k → src.count ≤ k) :
    insertRangeX v pos src fz l = .ofOption (insertRange v pos src l) := by
  cases fz with
  | none => rfl
  | some k =>
    have := h k rfl
    simp only [insertRangeX]
    rw [if_neg (by omega)]

/-- the exception-aware step is the step of Model.lean whenever every member function it calls is not reached by
    the fuse (stated on the concrete state) -/
theorem stepX_eq_of (portable : Bool) (s : St) (fz : Option Nat) (op : Op)
    (h1 : (∃ r a, op = .emplaceBack r a) ∨ (∃ r p a, op = .emplace r p a) ∨ (∃ r x, op = .insertSorted r x) →
      fz ≠ some 0)
    (h2 : ∀ r pos src, op = .insertRange r pos src → ∀ k, fz = some k → src.count ≤ k)
    (h3 : ∀ r n, op = .resize r n → ∀ k, fz = some k → n - (s.regs r).size ≤ k)
    (h4 : ∀ d src, op = .copyAssign d src ∨ op = .copyCtor d src → d ≠ src → ∀ k, fz = some k → (s.regs src).size ≤ k)
    (h5 : ∀ d src a b, op = .rangeCtor d src a b → ∀ k, fz = some k → b - a ≤ k)
    (h6 : ∀ d n, op = .sizeCtor d n → ∀ k, fz = some k → n ≤ k)
    (h7 : ∀ d xs, op = .listCtor d xs → ∀ k, fz = some k → xs.length ≤ k) :
    stepX portable s fz op = Out.ofOption (step portable s op) := by
  cases op with
  | emplaceBack r a =>
    simp only [stepX, step, emplaceBackX_not _ _ _ _ (h1 (Or.inl ⟨r, a, rfl⟩))]
    exact Out.match_ofOption2 _ _ _
  | emplace r pos a =>
    simp only [stepX, step, emplaceX_not _ _ _ _ _ (h1 (Or.inr (Or.inl ⟨r, pos, a, rfl⟩)))]
    exact Out.match_ofOption2 _ _ _
  | insertSorted r x =>
    simp only [stepX, step, insertSortedX_not _ _ _ _ (h1 (Or.inr (Or.inr ⟨r, x, rfl⟩)))]
    exact Out.match_ofOption3 _ _ _
  | insertRange r pos src =>
    simp only [stepX, step, insertRangeX_not _ _ _ _ _ (h2 r pos src rfl)]
    exact Out.match_ofOption2 _ _ _
  | resize r n =>
    simp only [stepX, step, resizeX_not _ _ _ _ (h3 r n rfl)]
    exact Out.match_ofOption2 _ _ _
  | copyAssign d src =>
    simp only [stepX, step]
    by_cases he : d = src
    · simp only [he, if_true]; rfl
    · simp only [he, if_false, copyAssignX_not _ _ _ _ (h4 d src (Or.inl rfl) he)]
      exact Out.match_ofOption2 _ _ _
  | copyCtor d src =>
    simp only [stepX, step]
    by_cases he : d = src
    · simp only [he, if_true]; rfl
    · simp only [he, if_false, copyCtorX_not _ _ _ _ (h4 d src (Or.inr rfl) he)]
      exact Out.match_inv _ _ _ _
  | rangeCtor d src a b =>
    simp only [stepX, step]
    by_cases he : d = src
    · simp only [he, if_true]; rfl
    · simp only [he, if_false, rangeCtorX_not _ _ _ _ _ (h5 d src a b rfl)]
      exact Out.match_inv _ _ _ _
  | sizeCtor d n =>
    simp only [stepX, step, sizeCtorX_not _ _ _ (h6 d n rfl)]
    exact Out.match_inv _ _ _ _
  | listCtor d xs =>
    simp only [stepX, step, listCtorX_not _ _ _ (h7 d xs rfl)]
    exact Out.match_inv _ _ _ _
  | popBack r => rfl
  | erase r a b => rfl
  | eraseTo r k => rfl
  | reserve r n => rfl
  | clear r => rfl
  | invalidate r => rfl
  | moveCtor d src => rfl
  | moveAssign d src => rfl
  | eq a b => rfl
  | ne a b => rfl
  | lt a b => rfl
  | «at» r i => rfl
  | index r i => rfl
  | frontBack r => rfl
  | iter r => rfl

/-- without a fuse nothing throws: the exception-aware step is the step of Model.lean -/
theorem stepX_none (portable : Bool) (s : St) (op : Op) :
    stepX portable s none op = Out.ofOption (step portable s op) := by
  apply stepX_eq_of <;> simp

/-- the fuse is not reached: the operation runs exactly as without a fuse -/
theorem stepX_not_fired_eq (portable : Bool) {R : Nat} {s : St} {f : Nat → List Val} (hI : SInv R s f) (op : Op)
    (fz : Option Nat) (hf : ∀ k, fz = some k → throwPoints f op ≤ k) :
    stepX portable s fz op = Out.ofOption (step portable s op) := by
  apply stepX_eq_of
  · rintro (⟨r, a, rfl⟩ | ⟨r, p, a, rfl⟩ | ⟨r, x, rfl⟩) h0 <;>
      · have := hf 0 h0; simp [throwPoints] at this
  · rintro r pos src rfl k hk; simpa [throwPoints] using hf k hk
  · rintro r n rfl k hk; simpa [throwPoints, (hI.rep r).size_eq] using hf k hk
  · rintro d src (rfl | rfl) hne k hk
    · simpa [throwPoints, hne, (hI.rep src).size_eq] using hf k hk
    · simpa [throwPoints, (hI.rep src).size_eq] using hf k hk
  · rintro d src a b rfl k hk; simpa [throwPoints] using hf k hk
  · rintro d n rfl k hk; simpa [throwPoints] using hf k hk
  · rintro d xs rfl k hk; simpa [throwPoints] using hf k hk

/-! ### the fuse fires: exact results of the handlers -/

theorem setL_self (f : Nat → List Val) (r : Nat) : setL f r (f r) = f := by
  funext j; simp only [setL]; split <;> simp_all

theorem Good.refl {v : Vec} {xs : List Val} (h : Rep v xs) (l : Ledger) : Good v xs l v xs l :=
  ⟨h, by omega, by omega⟩

/-- writing a register and the ledger back unchanged keeps the invariant -/
theorem SInv.set_self {R : Nat} {s : St} {f : Nat → List Val} (hI : SInv R s f) {r : Nat} (hr : r < R) :
    SInv R (s.set r (s.regs r) s.led) f := by
  have := hI.set hr (Good.refl (hI.rep r) s.led)
  rwa [setL_self] at this

theorem insertSortedX_fired {v : Vec} {xs : List Val} (h : Rep v xs) (hs : xs.Pairwise (· ≤ ·)) (x : Val) (l : Ledger) :
    insertSortedX v x (some 0) l = .threw (ubSpec x xs, v, l) := by
  simp only [insertSortedX, if_true]
  cases hd : v.data with
  | none =>
    have h0 := (h.none_nil hd).1
    subst h0
    have hsz : v.size = 0 := by simpa using h.size_eq
    simp [hsz, ubSpec]
  | some b =>
    simp only [upperBound_sorted h hs x hd]

/-- the handler of resize destroys exactly the `k` slots `[base, base + k)` -/
theorem destroyDown_ok (b : Buf) (base k : Nat) (l : Ledger)
    (h : ∀ j, base ≤ j → j < base + k → j < b.n ∧ b.s j ≠ .raw) :
    destroyDown b base k l =
      some (⟨b.n, fun j => if base ≤ j ∧ j < base + k then .raw else b.s j⟩, l.addDtor k) := by
  induction k generalizing b l with
  | zero =>
    simp only [destroyDown, Ledger.addDtor_zero]
    congr 2
    apply Buf.ext'
    · rfl
    · intro j; simp; omega
  | succ n ih =>
    have h0 := h (base + n) (by omega) (by omega)
    simp only [destroyDown, destroy_obj h0.1 h0.2]
    rw [ih]
    · simp only [Ledger.addDtor_addDtor, Nat.add_comm 1 n]
      congr 2
      apply Buf.ext'
      · rfl
      · intro j; simp only [Buf.put]; grind
    · intro j h1 h2
      have := h j (by omega) (by omega)
      simp only [Buf.put]
      grind

/-- resize whose k-th default construction throws: reserve, k constructions, the handler destroys them again;
    same contents (the capacity may have grown) -/
theorem resizeX_fired {v : Vec} {xs : List Val} (h : Rep v xs) {n k : Nat} (hk : k < n - xs.length) (l : Ledger) :
    ∃ v' l', resizeX v n (some k) l = .threw (v', l') ∧ Good v xs l v' xs l' := by
  obtain ⟨v1, l1, hr, hrep, hcap, _, hnet, hblk⟩ := reserve_good h n l
  have hsz := h.size_eq
  have hv1 := hrep.eq_mk (hrep.some_of_cap (by omega))
  generalize v1.cap = c at *
  subst hv1
  simp only [resizeX, hsz]
  rw [if_pos (by omega)]
  simp only [hr, vecOf]
  rw [defaultLoop_ok _ _ _ _ (by intro j h1 h2; exact ⟨by simp; omega, cell_raw (by omega)⟩)]
  simp only
  rw [destroyDown_ok _ _ _ _ (by
    intro j h1 h2; refine ⟨by simp; omega, ?_⟩; simp only; rw [if_pos ⟨h1, h2⟩]; simp)]
  refine ⟨_, _, rfl, ?_, ?_, ?_⟩
  · refine Rep.of_buf' rfl (by omega) rfl ?_
    intro i; simp only [cell]; grind
  · simp [hnet]
  · simp [hblk]

/-- `k` copies of the elements of `o` into a fresh block of `o.size` slots -/
theorem copyPartial_good {o : Vec} {ys : List Val} (h : Rep o ys) {k : Nat} (hk : k < ys.length) (l : Ledger) :
    ∃ b l', copyLoop o.data (Buf.fresh o.size) 0 k (l.addAlloc 1) = some (b, l') ∧
      Good Vec.empty [] l ⟨some b, o.size, k⟩ (ys.take k) l' := by
  rcases h.cases with ⟨rfl, rfl⟩ | ⟨c, rfl, hc⟩
  · simp at hk
  · simp only [vecOf]
    rw [copyLoop_ok (fun j => ys.getD j 0) _ _ _ _ _
      (by intro j _ h2; exact ⟨by simp; omega, cell_live (by omega), by simp [Buf.fresh]; omega, by simp [Buf.fresh]⟩)]
    refine ⟨_, _, rfl, ?_, by simp; omega, by simp⟩
    refine Rep.of_buf' (by simp; omega) (by simp; omega) rfl ?_
    intro i; rw [cell_take]; simp only [cell, Buf.fresh]; grind

theorem copyAssignX_fired {v o : Vec} {xs ys : List Val} (hv : Rep v xs) (h : Rep o ys) {k : Nat}
    (hk : k < ys.length) (l : Ledger) :
    ∃ v' l', copyAssignX v o (some k) l = .threw (v', l') ∧ Good v xs l v' (ys.take k) l' := by
  obtain ⟨l1, h1, g1⟩ := invalidate_good hv l
  obtain ⟨b, l2, h2, g2⟩ := copyPartial_good h hk l1
  have hs := h.size_eq
  refine ⟨_, l2, ?_, g1.trans g2⟩
  simp only [copyAssignX]
  rw [if_pos (by omega)]
  simp only [h1, h2]

/-- a constructor left by an exception: whatever was built is destroyed and freed by the destructor -/
theorem unwindCtor_good {v : Vec} {xs : List Val} {l l1 : Ledger} (g : Good Vec.empty [] l v xs l1) :
    ∃ l2, unwindCtor (some (v, l1)) = .threw (Vec.empty, l2) ∧ Good Vec.empty [] l Vec.empty [] l2 := by
  obtain ⟨l2, h2, g2⟩ := invalidate_good g.rep l1
  exact ⟨l2, by simp [unwindCtor, h2], g.trans g2⟩

theorem copyCtorX_fired (portable : Bool) {o : Vec} {ys : List Val} (h : Rep o ys) {k : Nat}
    (hk : k < ys.length) (l : Ledger) :
    ∃ l2, copyCtorX portable o (some k) l = .threw (Vec.empty, l2) ∧ Good Vec.empty [] l Vec.empty [] l2 := by
  obtain ⟨b, l1, h1, g1⟩ := copyPartial_good h hk l
  obtain ⟨l2, h2, g2⟩ := unwindCtor_good g1
  have hs := h.size_eq
  refine ⟨l2, ?_, g2⟩
  simp only [copyCtorX]
  rw [if_pos (by omega), h1]
  exact h2

theorem sizeCtorX_fired {n k : Nat} (hk : k < n) (l : Ledger) :
    ∃ l2, sizeCtorX n (some k) l = .threw (Vec.empty, l2) ∧ Good Vec.empty [] l Vec.empty [] l2 := by
  obtain ⟨v1, l1, h1, g1⟩ := resizeX_fired Rep.nil (n := n) (k := k) (by simpa using hk) l
  obtain ⟨l2, h2, g2⟩ := unwindCtor_good g1
  refine ⟨l2, ?_, g2⟩
  simp only [sizeCtorX, h1]
  exact h2

theorem listCtorX_fired {xs : List Val} {k : Nat} (hk : k < xs.length) (l : Ledger) :
    ∃ l2, listCtorX xs (some k) l = .threw (Vec.empty, l2) ∧ Good Vec.empty [] l Vec.empty [] l2 := by
  obtain ⟨v1, l1, hr, hrep, _, _, hnet, hblk⟩ := reserve_good Rep.nil xs.length l
  obtain ⟨v2, l2, h2, g2⟩ := pushAll_good hrep (xs.take k) l1
  have g1 : Good Vec.empty [] l v1 [] l1 := ⟨hrep, by simp [hnet], by omega⟩
  have g := g1.trans g2
  obtain ⟨l3, h3, g3⟩ := unwindCtor_good g
  refine ⟨l3, ?_, g3⟩
  simp only [listCtorX]
  rw [if_pos hk]
  simp only [hr, h2]
  exact h3

theorem rangeCtorX_fired {o : Vec} {ys : List Val} (h : Rep o ys) {f t k : Nat} (hft : f ≤ t) (ht : t ≤ ys.length)
    (hk : k < t - f) (l : Ledger) :
    ∃ l2, rangeCtorX o f t (some k) l = .threw (Vec.empty, l2) ∧ Good Vec.empty [] l Vec.empty [] l2 := by
  obtain ⟨v2, l2, h2, g2⟩ := pushAll_good Rep.nil (((ys.drop f).take (t - f)).take k) l
  obtain ⟨l3, h3, g3⟩ := unwindCtor_good g2
  refine ⟨l3, ?_, g3⟩
  simp only [rangeCtorX]
  rw [if_pos hk]
  simp only [readRange_ok h f (t - f) (by omega), h2]
  exact h3

/-! ### the handler of the range insert -/

/-- the ledger part of `unwindFill` -/
def unwindLed (oldsize pos sz : Nat) (i : Nat) : Nat → Ledger → Ledger
  | 0, l => l
  | n + 1, l => unwindLed oldsize pos sz (i + 1) n (if i < oldsize ∨ i ≥ pos + sz then l.addDtor 1 else l)

theorem unwindLed_net (oldsize pos sz i n : Nat) (l : Ledger) :
    (unwindLed oldsize pos sz i n l).net =
      l.net - ((n - (min (i + n) (pos + sz) - max i oldsize) : Nat) : Int) ∧
    (unwindLed oldsize pos sz i n l).blocks = l.blocks := by
  induction n generalizing i l with
  | zero => simp [unwindLed]
  | succ n ih =>
    simp only [unwindLed]
    split
    · rw [(ih _ _).1, (ih _ _).2]; simp; omega
    · rw [(ih _ _).1, (ih _ _).2]; simp; omega

/-- the handler destroys exactly the objects at the indices `[i, i + n)` outside `[oldsize, pos + sz)` -/
theorem unwindFill_ok (b : Buf) (oldsize pos sz i n : Nat) (l : Ledger)
    (h : ∀ j, i ≤ j → j < i + n → (j < oldsize ∨ j ≥ pos + sz) → j < b.n ∧ b.s j ≠ .raw) :
    unwindFill b oldsize pos sz i n l =
      some (⟨b.n, fun j => if i ≤ j ∧ j < i + n ∧ (j < oldsize ∨ j ≥ pos + sz) then .raw else b.s j⟩,
            unwindLed oldsize pos sz i n l) := by
  induction n generalizing b i l with
  | zero =>
    simp only [unwindFill, unwindLed]
    congr 2
    apply Buf.ext'
    · rfl
    · intro j; simp; omega
  | succ n ih =>
    by_cases hc : i < oldsize ∨ i ≥ pos + sz
    · have h0 := h i (Nat.le_refl _) (by omega) hc
      simp only [unwindFill, unwindLed]
      rw [if_pos hc, if_pos hc]
      simp only [destroy_obj h0.1 h0.2]
      rw [ih]
      · congr 2
        apply Buf.ext'
        · rfl
        · intro j; simp only [Buf.put]; grind
      · intro j h1 h2 h3
        have := h j (by omega) (by omega) h3
        simp only [Buf.put]
        grind
    · simp only [unwindFill, unwindLed]
      rw [if_neg hc, if_neg hc]
      rw [ih]
      · congr 2
        apply Buf.ext'
        · rfl
        · intro j; simp only; grind
      · intro j h1 h2 h3
        exact h j (by omega) (by omega) h3

theorem cell_take_append_take (xs ys : List Val) (p k i : Nat) (hp : p ≤ xs.length) (hk : k ≤ ys.length) :
    cell (xs.take p ++ ys.take k) i =
      if i < p then cell xs i else if i < p + k then .live (ys.getD (i - p) 0) else .raw := by
  simp only [cell, List.length_append, List.length_take, List.getD_eq_getElem?_getD, List.getElem?_append,
    List.getElem?_take]
  grind

/-- insert(pos, first, last) whose k-th copy throws: reserve, shift_up, k copies, the handler; the vector holds
    the elements in front of `pos` and the `k` copies -/
theorem insertRangeX_fired {v : Vec} {xs ys : List Val} (h : Rep v xs) {src : Src} {pos k : Nat}
    (hp : pos ≤ xs.length) (hs : srcSpec xs src = some ys) (hk : k < ys.length) (l : Ledger) :
    ∃ v' l', insertRangeX v pos src (some k) l = .threw (v', l') ∧
      Good v xs l v' (xs.take pos ++ ys.take k) l' := by
  have hcnt := srcSpec_count hs
  have h0 : ¬ src.count = 0 := by omega
  obtain ⟨v1, l1, hr, hrep, hcap, _, hnet, hblk⟩ := reserve_good h (v.size + src.count) l
  have hv1 := hrep.eq_mk (hrep.some_of_cap (by omega))
  have hsz := h.size_eq
  generalize v1.cap = c at *
  subst hv1
  simp only [insertRangeX]
  rw [if_pos (by omega)]
  simp only [h0, if_false, hr, vecOf, shiftUpCall]
  rw [hcnt] at h0 hcap hr
  simp only [hcnt]
  rw [shiftUp_ok (fun j => xs.getD j 0) _ _ _ _ _ _ (by omega) (by omega) (by simp; omega)
    (by intro j h1 h2; exact cell_live (by omega))
    (by intro j h1 h2; exact ⟨fun h3 => by omega, fun _ => cell_raw (by omega)⟩)]
  simp only
  rw [fillLoop_ok (fun k => ys.getD k 0) _ _ _ _ _ 0 k _ (by omega)]
  · simp only
    rw [unwindFill_ok]
    · have hn1 := shiftLed_net xs.length pos ys.length (xs.length - pos) l1
      have hn2 := fillLed_net pos xs.length 0 k (shiftLed xs.length pos ys.length (xs.length - pos) l1)
      have hn3 := unwindLed_net xs.length pos ys.length (pos + k) (xs.length + ys.length - (pos + k))
        (fillLed pos xs.length 0 k (shiftLed xs.length pos ys.length (xs.length - pos) l1))
      have hlen : (xs.take pos ++ ys.take k).length = pos + k := by simp; omega
      refine ⟨_, _, rfl, ?_, ?_, ?_⟩
      · refine Rep.of_buf' (by simp [hlen]) (by simp only [hlen]; omega) rfl ?_
        intro i; rw [cell_take_append_take _ _ _ _ _ hp (by omega)]
        simp only [cell]; grind
      · rw [hn3.1, hn2.1, hn1.1, hnet, hlen]; omega
      · rw [hn3.2, hn2.2, hn1.2, hblk]; simp
    · intro j h1 h2 h3
      refine ⟨by simp; omega, ?_⟩
      simp only
      rw [if_neg (by omega)]
      by_cases h4 : j < pos + ys.length
      · rw [if_pos (by omega), if_pos (by omega)]; simp
      · rw [if_neg (by omega), if_pos (by omega)]; simp
  · intro k' _ hk' b' hb' hag
    cases src with
    | ext zs =>
      simp only [srcSpec] at hs; cases hs
      have hk2 : k' < ys.length := by omega
      simp only [srcVal]
      simp [List.getD_eq_getElem?_getD, List.getElem?_eq_getElem hk2]
    | own f t =>
      simp only [srcSpec] at hs
      split at hs
      · rename_i hft
        cases hs
        have hyl : ((xs.drop f).take (t - f)).length = t - f := by simp; omega
        simp only [srcVal]
        rw [getD_sub _ _ _ _ (by omega)]
        by_cases hlt : f + k' < pos
        · simp only [hlt, if_true]
          apply rd_live (by simp at hb'; omega)
          rw [hag _ (by omega)]
          simp only; rw [if_neg (by omega), if_neg (by omega)]
          exact cell_live (by omega)
        · simp only [hlt, if_false]
          apply rd_live (by simp at hb'; omega)
          rw [hag _ (by omega)]
          simp only; rw [if_neg (by omega), if_pos (by omega)]
          congr 2; omega
      · cases hs
  · intro j h1 h2
    refine ⟨by simp; omega, ?_, ?_⟩
    · intro h3; simp only; rw [if_pos (by omega), if_pos h3]; simp
    · intro h3; simp only; rw [if_pos (by omega), if_neg (by omega)]

/-! ### one operation whose fuse fires -/

/-- the fuse fires: the operation is left by the exception WITHOUT A FAULT and in a state that satisfies the full
    invariant again (every register represents a list: size ≤ capacity, exactly the slots below size hold
    constructed, readable elements; constructed − destroyed objects = Σ sizes: nothing leaked, nothing destroyed
    twice; blocks balanced) with the contents `specThrow f k op` -/
theorem stepX_fired (portable : Bool) {R : Nat} {s : St} {f : Nat → List Val} (hI : SInv R s f) (op : Op)
    (hR : ∀ r ∈ opRegs op, r < R) {f' : Nat → List Val} {ret : Ret} (hs : specStep f op = some (f', ret))
    {k : Nat} (hk : k < throwPoints f op) :
    ∃ s', stepX portable s (some k) op = .threw (s', .throw) ∧ SInv R s' (specThrow f k op) := by
  cases op with
  | emplaceBack r a =>
    have hk0 : k = 0 := by simp only [throwPoints] at hk; omega
    subst hk0
    exact ⟨s.set r (s.regs r) s.led, by simp [stepX, emplaceBackX], hI.set_self (hR r (by simp [opRegs]))⟩
  | emplace r pos a =>
    have hk0 : k = 0 := by simp only [throwPoints] at hk; omega
    subst hk0
    exact ⟨s.set r (s.regs r) s.led, by simp [stepX, emplaceX], hI.set_self (hR r (by simp [opRegs]))⟩
  | insertSorted r x =>
    have hk0 : k = 0 := by simp only [throwPoints] at hk; omega
    subst hk0
    simp only [specStep] at hs
    split at hs
    · rename_i hp
      exact ⟨s.set r (s.regs r) s.led, by simp [stepX, insertSortedX_fired (hI.rep r) hp x s.led],
        hI.set_self (hR r (by simp [opRegs]))⟩
    · cases hs
  | insertRange r pos src =>
    simp only [specStep] at hs
    split at hs
    · rename_i hp
      simp only [Option.map_eq_some_iff] at hs
      obtain ⟨ys, hy, he⟩ := hs; cases he
      have hcnt := srcSpec_count hy
      simp only [throwPoints, hcnt] at hk
      obtain ⟨v', l', h1, g⟩ := insertRangeX_fired (hI.rep r) hp hy hk s.led
      refine ⟨s.set r v' l', by simp [stepX, h1], ?_⟩
      simp only [specThrow, hy]
      exact hI.set (hR r (by simp [opRegs])) g
    · cases hs
  | resize r n =>
    simp only [throwPoints] at hk
    obtain ⟨v', l', h1, g⟩ := resizeX_fired (hI.rep r) hk s.led
    refine ⟨s.set r v' l', by simp [stepX, h1], ?_⟩
    have := hI.set (hR r (by simp [opRegs])) g
    rwa [setL_self] at this
  | copyAssign d src =>
    by_cases he : d = src
    · simp [throwPoints, he] at hk
    · simp only [throwPoints, he, if_false] at hk
      obtain ⟨v', l', h1, g⟩ := copyAssignX_fired (hI.rep d) (hI.rep src) hk s.led
      exact ⟨s.set d v' l', by simp [stepX, he, h1], hI.set (hR d (by simp [opRegs])) g⟩
  | copyCtor d src =>
    simp only [specStep] at hs
    split at hs
    · cases hs
    · rename_i hne
      simp only [throwPoints] at hk
      obtain ⟨l1, h1, g1⟩ := invalidate_good (hI.rep d) s.led
      obtain ⟨l2, h2, g2⟩ := copyCtorX_fired portable (hI.rep src) hk l1
      exact ⟨s.set d Vec.empty l2, by simp [stepX, hne, h1, h2], hI.set (hR d (by simp [opRegs])) (g1.trans g2)⟩
  | rangeCtor d src a b =>
    simp only [specStep] at hs
    split at hs
    · rename_i hp
      simp only [throwPoints] at hk
      obtain ⟨l1, h1, g1⟩ := invalidate_good (hI.rep d) s.led
      obtain ⟨l2, h2, g2⟩ := rangeCtorX_fired (hI.rep src) hp.2.1 hp.2.2 hk l1
      exact ⟨s.set d Vec.empty l2, by simp [stepX, hp.1, h1, h2], hI.set (hR d (by simp [opRegs])) (g1.trans g2)⟩
    · cases hs
  | sizeCtor d n =>
    simp only [throwPoints] at hk
    obtain ⟨l1, h1, g1⟩ := invalidate_good (hI.rep d) s.led
    obtain ⟨l2, h2, g2⟩ := sizeCtorX_fired hk l1
    exact ⟨s.set d Vec.empty l2, by simp [stepX, h1, h2], hI.set (hR d (by simp [opRegs])) (g1.trans g2)⟩
  | listCtor d xs =>
    simp only [throwPoints] at hk
    obtain ⟨l1, h1, g1⟩ := invalidate_good (hI.rep d) s.led
    obtain ⟨l2, h2, g2⟩ := listCtorX_fired hk l1
    exact ⟨s.set d Vec.empty l2, by simp [stepX, h1, h2], hI.set (hR d (by simp [opRegs])) (g1.trans g2)⟩
  | popBack r => simp [throwPoints] at hk
  | erase r a b => simp [throwPoints] at hk
  | eraseTo r k => simp [throwPoints] at hk
  | reserve r n => simp [throwPoints] at hk
  | clear r => simp [throwPoints] at hk
  | invalidate r => simp [throwPoints] at hk
  | moveCtor d src => simp [throwPoints] at hk
  | moveAssign d src => simp [throwPoints] at hk
  | eq a b => simp [throwPoints] at hk
  | ne a b => simp [throwPoints] at hk
  | lt a b => simp [throwPoints] at hk
  | «at» r i => simp [throwPoints] at hk
  | index r i => simp [throwPoints] at hk
  | frontBack r => simp [throwPoints] at hk
  | iter r => simp [throwPoints] at hk

/-! ### histories with fuses -/

/-- std::vector run over a history with fuses -/
def runSpecX : (Nat → List Val) → List (Op × Option Nat) → Option (Nat → List Val)
  | f, [] => some f
  | f, (op, fz) :: ops =>
    match specStep f op with
    | none => none
    | some (f', _) =>
      match fz with
      | some k => if k < throwPoints f op then runSpecX (specThrow f k op) ops else runSpecX f' ops
      | none => runSpecX f' ops

/-- the fuse is not reached: the operation completes exactly as without a fuse -/
theorem stepX_not_fired (portable : Bool) {R : Nat} (hstep : ∀ {s : St} {f : Nat → List Val} (_ : SInv R s f) (op : Op) (_ : ∀ r ∈ opRegs op, r < R)
      {f' : Nat → List Val} {ret : Ret}, specStep f op = some (f', ret) →
      ∃ s', step portable s op = some (s', ret) ∧ SInv R s' f')
    {s : St} {f : Nat → List Val} (hI : SInv R s f) (op : Op)
    (hR : ∀ r ∈ opRegs op, r < R) {f' : Nat → List Val} {ret : Ret} (hs : specStep f op = some (f', ret))
    (fz : Option Nat) (hf : ∀ k, fz = some k → throwPoints f op ≤ k) :
    ∃ s', stepX portable s fz op = .ok (s', ret) ∧ SInv R s' f' := by
  obtain ⟨s', h1, hI'⟩ := hstep hI op hR hs
  exact ⟨s', by rw [stepX_not_fired_eq portable hI op fz hf, h1]; rfl, hI'⟩

theorem runX_safe (portable : Bool) {R : Nat} (hstep : ∀ {s : St} {f : Nat → List Val} (_ : SInv R s f) (op : Op) (_ : ∀ r ∈ opRegs op, r < R)
      {f' : Nat → List Val} {ret : Ret}, specStep f op = some (f', ret) →
      ∃ s', step portable s op = some (s', ret) ∧ SInv R s' f')
    (ops : List (Op × Option Nat)) {s : St} {f : Nat → List Val} (hI : SInv R s f)
    (hR : ∀ p ∈ ops, ∀ r ∈ opRegs p.1, r < R) {f' : Nat → List Val} (hs : runSpecX f ops = some f') :
    ∃ s', runX portable s ops = some s' ∧ SInv R s' f' := by
  induction ops generalizing s f with
  | nil => simp only [runSpecX] at hs; cases hs; exact ⟨s, rfl, hI⟩
  | cons p ops ih =>
    obtain ⟨op, fz⟩ := p
    simp only [runSpecX] at hs
    have hRop : ∀ r ∈ opRegs op, r < R := hR (op, fz) (by simp)
    have hRops : ∀ p ∈ ops, ∀ r ∈ opRegs p.1, r < R := fun p hp => hR p (by simp [hp])
    cases h1 : specStep f op with
    | none => rw [h1] at hs; cases hs
    | some q =>
      obtain ⟨f1, r1⟩ := q
      rw [h1] at hs
      simp only at hs
      by_cases hfire : ∃ k, fz = some k ∧ k < throwPoints f op
      · obtain ⟨k, rfl, hk⟩ := hfire
        simp only [hk, if_true] at hs
        obtain ⟨s1, hs1, hI1⟩ := stepX_fired portable hI op hRop h1 hk
        obtain ⟨s2, hs2, hI2⟩ := ih hI1 hRops hs
        exact ⟨s2, by simp only [runX, hs1]; exact hs2, hI2⟩
      · have hf : ∀ k, fz = some k → throwPoints f op ≤ k := by
          intro k hk; rcases Nat.lt_or_ge k (throwPoints f op) with h | h
          · exact absurd ⟨k, hk, h⟩ hfire
          · exact h
        have hs' : runSpecX f1 ops = some f' := by
          cases fz with
          | none => exact hs
          | some k => simp only [show ¬ k < throwPoints f op from Nat.not_lt.mpr (hf k rfl), if_false] at hs; exact hs
        obtain ⟨s1, hs1, hI1⟩ := stepX_not_fired portable hstep hI op hRop h1 fz hf
        obtain ⟨s2, hs2, hI2⟩ := ih hI1 hRops hs'
        exact ⟨s2, by simp only [runX, hs1]; exact hs2, hI2⟩

/-- whatever throws: after the history and the destructors nothing is leaked -/
theorem runX_no_leak (portable : Bool) (R : Nat) (hstep : ∀ {s : St} {f : Nat → List Val} (_ : SInv R s f) (op : Op) (_ : ∀ r ∈ opRegs op, r < R)
      {f' : Nat → List Val} {ret : Ret}, specStep f op = some (f', ret) →
      ∃ s', step portable s op = some (s', ret) ∧ SInv R s' f') (ops : List (Op × Option Nat))
    (hR : ∀ p ∈ ops, ∀ r ∈ opRegs p.1, r < R) {f' : Nat → List Val} (hs : runSpecX (fun _ => []) ops = some f') :
    ∃ s' s'', runX portable St.init ops = some s' ∧ destroyAll s' R = some s'' ∧
      s''.led.made = s''.led.dtor ∧ s''.led.alloc = s''.led.dealloc ∧ ∀ r, r < R → s''.regs r = Vec.empty := by
  obtain ⟨s', h1, hI⟩ := runX_safe portable hstep ops (SInv.init R) hR hs
  obtain ⟨s'', h2, hI2, hE⟩ := destroyAll_ok hI R (Nat.le_refl _)
  refine ⟨s', s'', h1, h2, ?_, ?_, hE⟩
  · have hn := hI2.net
    rw [total_zero_of _ R (by intro j hj; simp [hj])] at hn
    simp only [Ledger.net, Ledger.made] at hn ⊢; omega
  · have hb := hI2.blk
    rw [total_zero_of _ R (by intro j hj; rw [hE j hj]; simp)] at hb
    simp only [Ledger.blocks] at hb; omega

/-! ### the hypotheses are satisfiable; concrete runs -/

/-- `stepX_not_fired_eq`: a fuse that is set but not reached (emplace_back has one throwing-capable operation, the
    fuse waits for the second) -/
example : stepX false St.init (some 1) (.emplaceBack 0 (.val 5)) =
    Out.ofOption (step false St.init (.emplaceBack 0 (.val 5))) :=
  stepX_not_fired_eq false (SInv.init 1) _ _ (by intro k hk; cases hk; simp [throwPoints])

/-- `stepX_fired` on the initial state: the second push_back of an initializer-list constructor throws -/
example : ∃ s', stepX false St.init (some 1) (.listCtor 0 [1, 2, 3]) = .threw (s', .throw) ∧
    SInv 1 s' (specThrow (fun _ => []) 1 (.listCtor 0 [1, 2, 3])) :=
  stepX_fired false (SInv.init 1) _ (by simp [opRegs]) rfl (by simp [throwPoints])

/-- `stepX_fired` with `k = 0` for a strong-guarantee operation -/
example : ∃ s', stepX true St.init (some 0) (.resize 0 3) = .threw (s', .throw) ∧ SInv 1 s' (fun _ => []) :=
  stepX_fired true (SInv.init 1) (.resize 0 3) (by simp [opRegs]) rfl (by simp [throwPoints])

/-- `stepX_fired` in a state that holds elements (any state with the invariant; here given by the hypotheses
    `hI`, `h0`): the third copy of a range insert into `[1, 2, 3]` throws, the vector holds `[1, 7, 8]` -/
example {s : St} {f : Nat → List Val} (hI : SInv 1 s f) (h0 : f 0 = [1, 2, 3]) :
    ∃ s', stepX false s (some 2) (.insertRange 0 1 (.ext [7, 8, 9])) = .threw (s', .throw) ∧
      SInv 1 s' (setL f 0 [1, 7, 8]) := by
  have := stepX_fired false hI (.insertRange 0 1 (.ext [7, 8, 9])) (by simp [opRegs])
    (f' := setL f 0 (insertAt (f 0) 1 [7, 8, 9])) (ret := .pos 1) (k := 2)
    (by simp [specStep, srcSpec, h0]) (by simp [throwPoints, Src.count])
  simpa [specThrow, srcSpec, h0] using this

/-- the hypothesis `runSpecX … = some _` of `runX_safe` / `runX_no_leak` is satisfiable with fuses that fire (the
    hypothesis `hstep` is `step_refines` of Props.lean) -/
example : ∃ f', runSpecX (fun _ => [])
    [(.listCtor 0 [1, 2, 3], none), (.insertRange 0 1 (.ext [7, 8, 9]), some 1), (.copyAssign 1 0, some 1),
     (.resize 0 5, some 2), (.emplaceBack 1 (.own 0), some 0), (.sizeCtor 2 4, some 3)] = some f' := ⟨_, rfl⟩

/-- … and the contents std::vector + the exception contract predict for that history -/
example : (runSpecX (fun _ => [])
    [(.listCtor 0 [1, 2, 3], none), (.insertRange 0 1 (.ext [7, 8, 9]), some 1), (.copyAssign 1 0, some 1),
     (.resize 0 5, some 2), (.emplaceBack 1 (.own 0), some 0), (.sizeCtor 2 4, some 3)]).map
      (fun f => (f 0, f 1, f 2)) = some ([1, 7], [1], []) := by decide

/-- range insert left at its second copy: the elements in front of `pos` and one copy -/
example : (runX false St.init [(.listCtor 0 [1, 2, 3], none), (.insertRange 0 1 (.ext [7, 8, 9]), some 1)]).bind
    (fun s => contents (s.regs 0)) = some [1, 7] := by decide

/-- range insert of own elements behind the old end, left at its third copy -/
example : (runX false St.init [(.listCtor 0 [1, 2, 3, 4], none), (.insertRange 0 3 (.own 0 4), some 2)]).bind
    (fun s => contents (s.regs 0)) = some [1, 2, 3, 1, 2] := by decide

/-- resize: strong guarantee (contents unchanged), the capacity has grown -/
example : (runX false St.init [(.listCtor 0 [1, 2], none), (.resize 0 6, some 3)]).bind
    (fun s => (contents (s.regs 0)).map fun xs => (xs, (s.regs 0).cap)) = some ([1, 2], 6) := by decide

/-- copy assignment left at its second copy keeps one element; the source is untouched -/
example : (runX false St.init [(.listCtor 0 [4, 5, 6], none), (.listCtor 1 [9], none), (.copyAssign 1 0, some 1)]).bind
    (fun s => (contents (s.regs 1)).bind fun a => (contents (s.regs 0)).map fun b => (a, b)) =
    some ([4], [4, 5, 6]) := by decide

/-- a constructor left by an exception leaves no object and no block; the history goes on -/
example : (runX true St.init [(.listCtor 0 [4, 5, 6], none), (.copyCtor 1 0, some 2), (.rangeCtor 2 0 0 3, some 1),
      (.sizeCtor 3 2, some 1), (.emplaceBack 1 (.val 8), none)]).map
    (fun s => ((s.regs 1).size, (s.regs 2).data.isSome, (s.regs 3).data.isSome, s.led.alloc, s.led.dealloc)) =
    some (1, false, false, 5, 3) := by decide

/-- after a history with five fired fuses and the destructors: constructions = destructions, allocations =
    deallocations -/
example : ((runX false St.init
    [(.listCtor 0 [1, 2, 3], none), (.insertRange 0 1 (.ext [7, 8, 9]), some 1), (.copyAssign 1 0, some 1),
     (.resize 0 5, some 2), (.emplaceBack 1 (.own 0), some 0), (.sizeCtor 2 4, some 3)]).bind
      (fun s => destroyAll s 3)).map
    (fun s => decide (s.led.made = s.led.dtor ∧ s.led.alloc = s.led.dealloc)) = some true := by decide

/-- a fuse beyond the last throwing-capable operation does not fire: the same state as without a fuse -/
example : (runX false St.init [(.listCtor 0 [1, 2, 3], some 3)]).bind (fun s => contents (s.regs 0)) =
    some [1, 2, 3] := by decide

end Igris.C02
