/-
  C02 — igris::vector when ELEMENT OPERATIONS THROW.

  The element operations that may throw are the ones a copyable, default-constructible element type is allowed
  to throw from: default / value / copy construction and copy assignment (ledger events `ctor` and `asg`).
  Move construction, move assignment and the destructor are `noexcept` (what std::vector needs for its own
  strong guarantee as well).  A FUSE `fz : Option Nat` selects the run: `none` = nothing throws; `some k` = the
  k-th (from 0) throwing-capable element operation executed by the member function throws, BEFORE it changes
  anything (this is what the instrumented element type of the harness does for `x k <op>`).

  Every member function that contains such an operation is transcribed once more with its exception path: the
  statements executed up to the throw, then the handlers / the unwinding of the code as written in
  igris/container/vector.h after the `fix:` commits 93cf379 (copy assignment), 04aed91 (constructors),
  6f9cb41 (resize), 54e3cd5 (range insert).  The normal path is the function of Model.lean itself.

  Core Lean only.
-/
import IgrisModel.C02.Model
namespace Igris.C02

/-- result of a member function: returned normally, left by an exception (state after unwinding), or a
    lifetime / bounds fault of the slot model -/
inductive Out (α : Type) where
  | ok (a : α)
  | threw (a : α)
  | fault
  deriving Repr

def Out.ofOption {α : Type} : Option α → Out α
  | some a => .ok a
  | none => .fault

/-- push_back / emplace_back: ONE throwing-capable operation — `T tmp(args…)` on the growth path,
    `constructor(m_data + m_size, args…)` otherwise — and it is the first thing that touches the vector -/
def emplaceBackX (v : Vec) (a : Arg) (fz : Option Nat) (l : Ledger) : Out (Vec × Ledger) :=
  if fz = some 0 then .threw (v, l) else .ofOption (emplaceBack v a l)

/-- emplace / insert(pos, value) / insert(int, value): `T tmp(args…)` is the first statement and the only
    throwing-capable operation (everything behind it moves) -/
def emplaceX (v : Vec) (pos : Nat) (a : Arg) (fz : Option Nat) (l : Ledger) : Out (Vec × Ledger) :=
  if fz = some 0 then .threw (v, l) else .ofOption (emplace v pos a l)

/-- insert_sorted: the bisection, then insert -/
def insertSortedX (v : Vec) (x : Val) (fz : Option Nat) (l : Ledger) : Out (Nat × Vec × Ledger) :=
  if fz = some 0 then
    -- the position is computed first (reads only), then `T tmp(item)` throws
    match (match v.data with
      | none => if v.size = 0 then some 0 else none
      | some b => upperBound b x v.size 0 v.size) with
    | none => .fault
    | some p => .threw (p, v, l)
  else .ofOption (insertSorted v x l)

/-- the handler of resize: `while (i > oldsize) destructor(m_data + --i)` — destroys `k` slots downwards,
    the next one is `base + k - 1` -/
def destroyDown (b : Buf) (base : Nat) : Nat → Ledger → Option (Buf × Ledger)
  | 0, l => some (b, l)
  | k + 1, l =>
    match destroy b (base + k) with
    | none => none
    | some b => destroyDown b base k (l.addDtor 1)

/-- resize(n): `reserve(n)` (moves only); growing, the loop `constructor(m_data + i)` may throw at its k-th
    iteration: the handler destroys the k elements appended so far and rethrows (m_size untouched) -/
def resizeX (v : Vec) (n : Nat) (fz : Option Nat) (l : Ledger) : Out (Vec × Ledger) :=
  match fz with
  | none => .ofOption (resize v n l)
  | some k =>
    if v.size < n ∧ k < n - v.size then
      match reserve v n l with
      | none => .fault
      | some (v, l) =>
        match v.data with
        | none => .fault
        | some b =>
          match defaultLoop b v.size k l with
          | none => .fault
          | some (b, l) =>
            match destroyDown b v.size k l with
            | none => .fault
            | some (b, l) => .threw ({ v with data := some b }, l)
    else .ofOption (resize v n l)

/-- copy assignment from a different vector: `invalidate(); m_data = allocate(other.m_size); m_capacity = …;`
    then per element `constructor(op, *ip); m_size++` — a throw at the k-th copy leaves k elements -/
def copyAssignX (v o : Vec) (fz : Option Nat) (l : Ledger) : Out (Vec × Ledger) :=
  match fz with
  | none => .ofOption (copyAssign v o l)
  | some k =>
    if k < o.size then
      match invalidate v l with
      | none => .fault
      | some (_, l) =>
        match copyLoop o.data (Buf.fresh o.size) 0 k (l.addAlloc 1) with
        | none => .fault
        | some (b, l) => .threw ({ data := some b, cap := o.size, size := k }, l)
    else .ofOption (copyAssign v o l)

/-- a constructor body left by an exception: the constructors delegate to `vector()`, so the object exists and
    its destructor (`invalidate`) runs during unwinding; the register then holds no object (`Vec.empty`) -/
def unwindCtor (r : Option (Vec × Ledger)) : Out (Vec × Ledger) :=
  match r with
  | none => .fault
  | some (v, l) =>
    match invalidate v l with
    | none => .fault
    | some (_, l) => .threw (Vec.empty, l)

/-- copy constructor (vector.h; the early return of the std_portable.h copy for an empty source is kept) -/
def copyCtorX (portable : Bool) (o : Vec) (fz : Option Nat) (l : Ledger) : Out (Vec × Ledger) :=
  match fz with
  | none => .ofOption (copyCtor portable o l)
  | some k =>
    if k < o.size then
      unwindCtor ((copyLoop o.data (Buf.fresh o.size) 0 k (l.addAlloc 1)).map
        fun (b, l) => ({ data := some b, cap := o.size, size := k }, l))
    else .ofOption (copyCtor portable o l)

/-- `vector(size_t)`: resize on the empty object; a throw leaves resize (which has cleaned up) and the
    constructor, the destructor frees the block -/
def sizeCtorX (n : Nat) (fz : Option Nat) (l : Ledger) : Out (Vec × Ledger) :=
  match resizeX Vec.empty n fz l with
  | .ok r => .ok r
  | .fault => .fault
  | .threw (v, l) => unwindCtor (some (v, l))

/-- `reserve(n); for (a : xs) push_back(a)` (template range constructor, initializer lists): every push_back has
    one throwing-capable operation, so the k-th push_back throws after k elements were pushed -/
def listCtorX (xs : List Val) (fz : Option Nat) (l : Ledger) : Out (Vec × Ledger) :=
  match fz with
  | none => .ofOption (listCtor xs l)
  | some k =>
    if k < xs.length then
      unwindCtor (match reserve Vec.empty xs.length l with
        | none => none
        | some (v, l) => pushAll v (xs.take k) l)
    else .ofOption (listCtor xs l)

/-- `vector(iterator a, const iterator b)`: push_back one by one, no reserve -/
def rangeCtorX (o : Vec) (f t : Nat) (fz : Option Nat) (l : Ledger) : Out (Vec × Ledger) :=
  match fz with
  | none => .ofOption (rangeCtor o f t l)
  | some k =>
    if k < t - f then
      unwindCtor (match readRange o f (t - f) with
        | none => none
        | some xs => pushAll Vec.empty (xs.take k) l)
    else .ofOption (rangeCtor o f t l)

/-- the handler of insert(pos, first, last): `for (i = _pos + k; i < oldsize + sz; ++i)
    if (i < oldsize || i >= _pos + sz) destructor(m_data + i);` — `n` iterations left, the next index is `i` -/
def unwindFill (b : Buf) (oldsize pos sz : Nat) (i : Nat) : Nat → Ledger → Option (Buf × Ledger)
  | 0, l => some (b, l)
  | n + 1, l =>
    if i < oldsize ∨ i ≥ pos + sz then
      match destroy b i with
      | none => none
      | some b => unwindFill b oldsize pos sz (i + 1) n (l.addDtor 1)
    else unwindFill b oldsize pos sz (i + 1) n l

/-- insert(pos, first, last): reserve and shift_up move; the fill loop copies (assignment below the old end,
    construction behind it) and may throw at its k-th iteration: the handler keeps `[0, pos + k)`, destroys
    every other object and sets `m_size = pos + k` -/
def insertRangeX (v : Vec) (pos : Nat) (src : Src) (fz : Option Nat) (l : Ledger) : Out (Vec × Ledger) :=
  match fz with
  | none => .ofOption (insertRange v pos src l)
  | some k =>
    let sz := src.count
    if k < sz then
      match reserve v (v.size + sz) l with
      | none => .fault
      | some (v, l) =>
        match v.data with
        | none => .fault
        | some b =>
          match shiftUpCall b v.size pos sz l with
          | none => .fault
          | some (b, l) =>
            match fillLoop b pos v.size sz src 0 k l with
            | none => .fault
            | some (b, l) =>
              match unwindFill b v.size pos sz (pos + k) (v.size + sz - (pos + k)) l with
              | none => .fault
              | some (b, l) => .threw ({ v with data := some b, size := pos + k }, l)
    else .ofOption (insertRange v pos src l)

/-- one operation with a fuse.  Operations without a throwing-capable element operation (pop, erase, clear,
    reserve, move construction / assignment, comparisons, accessors …) cannot throw: they are `step`. -/
def stepX (portable : Bool) (s : St) (fz : Option Nat) : Op → Out (St × Ret)
  | .emplaceBack r a =>
    match emplaceBackX (s.regs r) a fz s.led with
    | .ok (v, l) => .ok (s.set r v l, .unit)
    | .threw (v, l) => .threw (s.set r v l, .throw)
    | .fault => .fault
  | .emplace r pos a =>
    match emplaceX (s.regs r) pos a fz s.led with
    | .ok (v, l) => .ok (s.set r v l, .pos pos)
    | .threw (v, l) => .threw (s.set r v l, .throw)
    | .fault => .fault
  | .insertSorted r x =>
    match insertSortedX (s.regs r) x fz s.led with
    | .ok (p, v, l) => .ok (s.set r v l, .pos p)
    | .threw (_, v, l) => .threw (s.set r v l, .throw)
    | .fault => .fault
  | .insertRange r pos src =>
    match insertRangeX (s.regs r) pos src fz s.led with
    | .ok (v, l) => .ok (s.set r v l, .pos pos)
    | .threw (v, l) => .threw (s.set r v l, .throw)
    | .fault => .fault
  | .resize r n =>
    match resizeX (s.regs r) n fz s.led with
    | .ok (v, l) => .ok (s.set r v l, .unit)
    | .threw (v, l) => .threw (s.set r v l, .throw)
    | .fault => .fault
  | .copyAssign d src =>
    if d = src then .ok (s, .unit) else
    match copyAssignX (s.regs d) (s.regs src) fz s.led with
    | .ok (v, l) => .ok (s.set d v l, .unit)
    | .threw (v, l) => .threw (s.set d v l, .throw)
    | .fault => .fault
  | .copyCtor d src =>
    if d = src then .fault else
    match invalidate (s.regs d) s.led with
    | none => .fault
    | some (_, l) =>
      match copyCtorX portable (s.regs src) fz l with
      | .ok (v, l) => .ok (s.set d v l, .unit)
      | .threw (v, l) => .threw (s.set d v l, .throw)
      | .fault => .fault
  | .rangeCtor d src f t =>
    if d = src then .fault else
    match invalidate (s.regs d) s.led with
    | none => .fault
    | some (_, l) =>
      match rangeCtorX (s.regs src) f t fz l with
      | .ok (v, l) => .ok (s.set d v l, .unit)
      | .threw (v, l) => .threw (s.set d v l, .throw)
      | .fault => .fault
  | .sizeCtor d n =>
    match invalidate (s.regs d) s.led with
    | none => .fault
    | some (_, l) =>
      match sizeCtorX n fz l with
      | .ok (v, l) => .ok (s.set d v l, .unit)
      | .threw (v, l) => .threw (s.set d v l, .throw)
      | .fault => .fault
  | .listCtor d xs =>
    match invalidate (s.regs d) s.led with
    | none => .fault
    | some (_, l) =>
      match listCtorX xs fz l with
      | .ok (v, l) => .ok (s.set d v l, .unit)
      | .threw (v, l) => .threw (s.set d v l, .throw)
      | .fault => .fault
  | op => .ofOption (step portable s op)

/-- a history of operations, each with its own fuse; an exception ends the operation, not the history (the
    caller catches it and goes on using the vectors) -/
def runX (portable : Bool) : St → List (Op × Option Nat) → Option St
  | s, [] => some s
  | s, (op, fz) :: ops =>
    match stepX portable s fz op with
    | .ok (s, _) => runX portable s ops
    | .threw (s, _) => runX portable s ops
    | .fault => none

/-! ### the std::vector meaning of an operation that is left by an exception -/

/-- number of throwing-capable element operations the operation executes in the abstract state `f`
    (the fuse fires iff it is smaller) -/
def throwPoints (f : Nat → List Val) : Op → Nat
  | .emplaceBack _ _ | .emplace _ _ _ | .insertSorted _ _ => 1
  | .insertRange _ _ src => src.count
  | .resize r n => n - (f r).length
  | .copyAssign d s => if d = s then 0 else (f s).length
  | .copyCtor _ s => (f s).length
  | .rangeCtor _ _ a b => b - a
  | .sizeCtor _ n => n
  | .listCtor _ xs => xs.length
  | _ => 0

/-- contents after the exception.  STRONG guarantee (nothing changed) for the single-element insertions and
    resize, as std::vector gives it; the constructors leave no object; copy assignment keeps the `k` copies made,
    the range insert keeps the elements in front of `pos` and the `k` copies made (BASIC guarantee, the exact
    contents are what the code after the fixes leaves) -/
def specThrow (f : Nat → List Val) (k : Nat) : Op → (Nat → List Val)
  | .insertRange r pos src =>
    match srcSpec (f r) src with
    | some ys => setL f r ((f r).take pos ++ ys.take k)
    | none => f
  | .copyAssign d s => setL f d ((f s).take k)
  | .copyCtor d _ | .rangeCtor d _ _ _ | .sizeCtor d _ | .listCtor d _ => setL f d []
  | _ => f

end Igris.C02
