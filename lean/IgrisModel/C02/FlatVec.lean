import IgrisModel.C02.Model
/-!
  C02 — igris::flat_set and igris::flat_map OVER THE SLOT-MODEL VECTOR.

  `FSet` / `FMap` of Model.lean model the storage of flat_set / flat_map by its element LIST.  In the code the
  storage is an `igris::vector` (`_vec` / `storage`).  Here the two containers are written on top of the slot /
  ledger model of igris::vector: the storage is a `Vec`, every element access of `std::lower_bound`,
  `std::upper_bound`, `std::find_if`, `std::count_if`, `*it`, `it->second` is a read (`rd`) of a slot of the
  vector's block (`none` = fault when the slot holds no readable object or lies outside the block), and every
  insertion is `igris::vector::insert(pos, value)` = `emplace` of Model.lean with its slot events.
  FlatVecLemmas.lean proves that these containers simulate the list models step by step without a fault.

  Core Lean only.
-/
namespace Igris.C02

/-! ### flat_set -/

/-- libstdc++ `std::lower_bound(first, last, key, _comp)` over the slots of a block: `lowerBound` of Model.lean
    with `*middle` a read of slot `first + half` -/
def lowerBoundV (lt : Int → Int → Bool) (b : Buf) (k : Int) : Nat → Nat → Nat → Option Nat
  | 0, first, _ => some first
  | fuel + 1, first, len =>
    if len = 0 then some first else
    let half := len / 2
    match rd b (first + half) with
    | none => none
    | some m =>
      if lt m k then lowerBoundV lt b k fuel (first + half + 1) (len - half - 1)
      else lowerBoundV lt b k fuel first half

/-- `igris::flat_set<int, Compare>`: `std::vector<Key> _vec` -/
structure VSet where
  v : Vec := {}

namespace VSet
variable (lt : Int → Int → Bool)

/-- `std::lower_bound(_vec.begin(), _vec.end(), key, _comp)` as an index; a `nullptr` storage has
    `begin() == end()`: nothing is read -/
def lb (s : VSet) (k : Int) : Option Nat :=
  match s.v.data with
  | none => if s.v.size = 0 then some 0 else none
  | some b => lowerBoundV lt b k s.v.size 0 s.v.size

/-- `it != _vec.end() && !_comp(key, *it)` for `it = begin() + i` -/
def hit (s : VSet) (k : Int) (i : Nat) : Option Bool :=
  if i = s.v.size then some false else
  match s.v.data with
  | none => none
  | some b =>
    match rd b i with
    | none => none
    | some x => some (!lt k x)

/-- `insert(key)`: `_vec.insert(it, key)` is `igris::vector::emplace(it, key)` -/
def insert (s : VSet) (k : Int) (l : Ledger) : Option (VSet × Ledger) :=
  match s.lb lt k with
  | none => none
  | some i =>
    match s.hit lt k i with
    | none => none
    | some true => some (s, l)
    | some false =>
      match emplace s.v i (.val k) l with
      | none => none
      | some (v, l) => some (⟨v⟩, l)

def count (s : VSet) (k : Int) : Option Nat :=
  match s.lb lt k with
  | none => none
  | some i =>
    match s.hit lt k i with
    | none => none
    | some h => some (if h then 1 else 0)

def step (s : VSet) (l : Ledger) : SOp → Option (VSet × Ledger × SRet)
  | .insert k =>
    match s.insert lt k l with
    | none => none
    | some (s, l) => some (s, l, .unit)
  | .count k =>
    match s.count lt k with
    | none => none
    | some n => some (s, l, .nat n)
  | .size => some (s, l, .nat s.v.size)
  | .clear =>
    match clear s.v l with
    | none => none
    | some (v, l) => some (⟨v⟩, l, .unit)
  | .iter =>
    match contents s.v with
    | none => none
    | some xs => some (s, l, .keys xs)

def run : VSet → Ledger → List SOp → Option (VSet × Ledger × List SRet)
  | s, l, [] => some (s, l, [])
  | s, l, op :: ops =>
    match step lt s l op with
    | none => none
    | some (s1, l1, r) =>
      match run s1 l1 ops with
      | none => none
      | some (s2, l2, rs) => some (s2, l2, r :: rs)
end VSet

/-! ### flat_map -/

/-- the element object of the map's storage is a `std::pair<Key, T>`; the value type of the slot model is
    `Val = Int`, so a pair is stored as its code.  Everything is proved for EVERY coding with `dec ∘ enc = id`. -/
structure Coding where
  enc : Int × Int → Val
  dec : Val → Int × Int

def Coding.ok (c : Coding) : Prop := ∀ p, c.dec (c.enc p) = p

/-- `std::find_if(begin, end, same key)` over the slots `i, i+1, …` (`n` slots left): the index of the first
    entry whose key is the same key, or the end index -/
def findIdxV (c : Coding) (lt : Int → Int → Bool) (b : Buf) (k : Int) (i : Nat) : Nat → Option Nat
  | 0 => some i
  | n + 1 =>
    match rd b i with
    | none => none
    | some x => if same lt (c.dec x).1 k then some i else findIdxV c lt b k (i + 1) n

/-- libstdc++ `std::upper_bound(first, last, key, _comp(key, p.first))` over the slots of a block -/
def mapUpperV (c : Coding) (lt : Int → Int → Bool) (b : Buf) (k : Int) : Nat → Nat → Nat → Option Nat
  | 0, first, _ => some first
  | fuel + 1, first, len =>
    if len = 0 then some first else
    let half := len / 2
    match rd b (first + half) with
    | none => none
    | some x =>
      if lt k (c.dec x).1 then mapUpperV c lt b k fuel first half
      else mapUpperV c lt b k fuel (first + half + 1) (len - half - 1)

/-- `std::count_if(begin, end, same key)`: slot `i` next, `n` slots left, `acc` counted so far -/
def countV (c : Coding) (lt : Int → Int → Bool) (b : Buf) (k : Int) (i : Nat) : Nat → Nat → Option Nat
  | 0, acc => some acc
  | n + 1, acc =>
    match rd b i with
    | none => none
    | some x => countV c lt b k (i + 1) n (if same lt (c.dec x).1 k then acc + 1 else acc)

/-- `it->second = v`: a write into the `second` member of the pair object in slot `i` (no constructor,
    destructor or assignment of the pair object: no ledger event) -/
def pokeSecond (c : Coding) (b : Buf) (i : Nat) (v : Int) : Option Buf :=
  match b.get i with
  | some (.live x) => some (b.put i (.live (c.enc ((c.dec x).1, v))))
  | _ => none

/-- `igris::flat_map<int, int, Compare>`: `std::vector<std::pair<Key, T>> storage` -/
structure VMap where
  v : Vec := {}

namespace VMap
variable (c : Coding) (lt : Int → Int → Bool)

/-- `std::find_if(storage.begin(), storage.end(), same_key)` as an index (`size` = end()) -/
def findPos (m : VMap) (k : Int) : Option Nat :=
  match m.v.data with
  | none => if m.v.size = 0 then some 0 else none
  | some b => findIdxV c lt b k 0 m.v.size

/-- `ordered_pos(key)` -/
def upos (m : VMap) (k : Int) : Option Nat :=
  match m.v.data with
  | none => if m.v.size = 0 then some 0 else none
  | some b => mapUpperV c lt b k m.v.size 0 m.v.size

/-- `*it` for `it = begin() + i`, `it != end()` -/
def entryAt (m : VMap) (i : Nat) : Option (Int × Int) :=
  if i < m.v.size then
    match m.v.data with
    | none => none
    | some b =>
      match rd b i with
      | none => none
      | some x => some (c.dec x)
  else none

/-- `storage.insert(ordered_pos(key), value_type(key, v))`: the new vector and the returned iterator -/
def insertNew (m : VMap) (k v : Int) (l : Ledger) : Option (VMap × Ledger × Nat) :=
  match m.upos c lt k with
  | none => none
  | some p =>
    match emplace m.v p (.val (c.enc (k, v))) l with
    | none => none
    | some (w, l) => some (⟨w⟩, l, p)

/-- `find_if`; `if (it == end) it = storage.insert(ordered_pos(key), value_type(key, v))`: the iterator and
    whether an entry was inserted (the common part of operator[], emplace, insert) -/
def findOrInsert (m : VMap) (k v : Int) (l : Ledger) : Option (VMap × Ledger × Nat × Bool) :=
  match m.findPos c lt k with
  | none => none
  | some i =>
    if i = m.v.size then
      match m.insertNew c lt k v l with
      | none => none
      | some (m, l, p) => some (m, l, p, true)
    else some (m, l, i, false)

/-- the loop of `flat_map(std::initializer_list<value_type>)` -/
def ctorLoop : List (Int × Int) → VMap → Ledger → Option (VMap × Ledger)
  | [], m, l => some (m, l)
  | (k, v) :: r, m, l =>
    match m.findPos c lt k with
    | none => none
    | some i =>
      if i = m.v.size then
        match m.insertNew c lt k v l with
        | none => none
        | some (m, l, _) => ctorLoop r m l
      else ctorLoop r m l

/-- `it->second = v` -/
def poke (m : VMap) (i : Nat) (v : Int) : Option VMap :=
  if i < m.v.size then
    match m.v.data with
    | none => none
    | some b =>
      match pokeSecond c b i v with
      | none => none
      | some b => some ⟨{ m.v with data := some b }⟩
  else none

def step (m : VMap) (l : Ledger) : MOp → Option (VMap × Ledger × MRet)
  | .index k =>            -- `m[k]`, read through the returned reference
    match m.findOrInsert c lt k 0 l with
    | none => none
    | some (m, l, i, _) =>
      match m.entryAt c i with
      | none => none
      | some e => some (m, l, .val e.2)
  | .assign k v =>         -- `m[k] = v`
    match m.findOrInsert c lt k 0 l with
    | none => none
    | some (m, l, i, _) =>
      match m.poke c i v with
      | none => none
      | some m => some (m, l, .unit)
  | .insert k v =>         -- `*m.insert({k, v})`
    match m.findOrInsert c lt k v l with
    | none => none
    | some (m, l, i, _) =>
      match m.entryAt c i with
      | none => none
      | some e => some (m, l, .kv e.1 e.2)
  | .emplace k v =>        -- `r = m.emplace(k, v)`: `r.second`, `r.first->second`
    match m.findOrInsert c lt k v l with
    | none => none
    | some (m, l, i, ins) =>
      match m.entryAt c i with
      | none => none
      | some e => some (m, l, .flag ins e.2)
  | .find k =>
    match m.findPos c lt k with
    | none => none
    | some i =>
      if i = m.v.size then some (m, l, .opt none) else
      match m.entryAt c i with
      | none => none
      | some e => some (m, l, .opt (some e.2))
  | .count k =>
    match m.v.data with
    | none => if m.v.size = 0 then some (m, l, .nat 0) else none
    | some b =>
      match countV c lt b k 0 m.v.size 0 with
      | none => none
      | some n => some (m, l, .nat n)
  | .at k =>
    match m.findPos c lt k with
    | none => none
    | some i =>
      if i = m.v.size then some (m, l, .throw) else
      match m.entryAt c i with
      | none => none
      | some e => some (m, l, .val e.2)
  | .size => some (m, l, .nat m.v.size)
  | .clear =>
    match clear m.v l with
    | none => none
    | some (w, l) => some (⟨w⟩, l, .unit)
  | .init es =>
    -- `m = flat_map{es}`: the temporary is built from an empty storage, the implicit move assignment of
    -- flat_map move-assigns the storage vector (`moveAssign` of Model.lean: `invalidate()` of the old block,
    -- the temporary's block is taken over), then the temporary (now holding `nullptr`) is destroyed
    match ctorLoop c lt es ⟨Vec.empty⟩ l with
    | none => none
    | some (t, l) =>
      match moveAssign m.v t.v l with
      | none => none
      | some (w, t', l) =>
        match invalidate t' l with
        | none => none
        | some (_, l) => some (⟨w⟩, l, .unit)
  | .iter =>
    match contents m.v with
    | none => none
    | some xs => some (m, l, .entries (xs.map c.dec))
  | .cindex k =>           -- const operator[]: `static T()` for an absent key
    match m.findPos c lt k with
    | none => none
    | some i =>
      if i = m.v.size then some (m, l, .val 0) else
      match m.entryAt c i with
      | none => none
      | some e => some (m, l, .val e.2)

def run : VMap → Ledger → List MOp → Option (VMap × Ledger × List MRet)
  | m, l, [] => some (m, l, [])
  | m, l, op :: ops =>
    match step c lt m l op with
    | none => none
    | some (m1, l1, r) =>
      match run m1 l1 ops with
      | none => none
      | some (m2, l2, rs) => some (m2, l2, r :: rs)
end VMap

end Igris.C02
