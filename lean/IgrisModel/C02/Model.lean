/-
  C02 — igris::vector (igris/container/vector.h and its second copy in
  igris/container/std_portable.h), igris::flat_map, igris::flat_set and the
  compat/std/{vector,map,set} shims.

  The model is a slot / ledger model of the code AFTER the `fix:` commits of
  branch fix-C02.  A buffer is `n` slots; a slot is `raw` (no object),
  `live v` (a constructed element with value `v`) or `moved` (a constructed
  element in the moved-from state).  Every member function is the code's own
  sequence of slot events; each event is checked against the slot state and
  the run stops with `none` (= fault) on
    * an access outside the allocation,
    * construction over a constructed object,
    * assignment to / destruction of / move from / read of a slot without a
      (readable) object,
    * deallocation of a block that still holds constructed objects or whose
      recorded capacity is not the allocated size.
  The ledger counts the events (this is what the instrumented element type and
  the tracking allocator of the harness count on the real code).

  Core Lean only.
-/
namespace Igris.C02

abbrev Val := Int

inductive Slot where
  | raw
  | live (v : Val)
  | moved
  deriving DecidableEq, Repr, Inhabited

/-- event counters: constructions (value/copy/default), move constructions,
    destructions, copy assignments, move assignments, allocate, deallocate -/
structure Ledger where
  ctor : Nat := 0
  mctor : Nat := 0
  dtor : Nat := 0
  asg : Nat := 0
  masg : Nat := 0
  alloc : Nat := 0
  dealloc : Nat := 0
  deriving DecidableEq, Repr, Inhabited

namespace Ledger
def addCtor (l : Ledger) (n : Nat) : Ledger := { l with ctor := l.ctor + n }
def addMctor (l : Ledger) (n : Nat) : Ledger := { l with mctor := l.mctor + n }
def addDtor (l : Ledger) (n : Nat) : Ledger := { l with dtor := l.dtor + n }
def addAsg (l : Ledger) (n : Nat) : Ledger := { l with asg := l.asg + n }
def addMasg (l : Ledger) (n : Nat) : Ledger := { l with masg := l.masg + n }
def addAlloc (l : Ledger) (n : Nat) : Ledger := { l with alloc := l.alloc + n }
def addDealloc (l : Ledger) (n : Nat) : Ledger := { l with dealloc := l.dealloc + n }
/-- objects constructed so far -/
def made (l : Ledger) : Nat := l.ctor + l.mctor
end Ledger

/-- a heap block of `n` element slots (`m_alloc.allocate(n)`) -/
structure Buf where
  n : Nat
  s : Nat → Slot

namespace Buf
def fresh (n : Nat) : Buf := ⟨n, fun _ => .raw⟩
def get (b : Buf) (i : Nat) : Option Slot := if i < b.n then some (b.s i) else none
def put (b : Buf) (i : Nat) (x : Slot) : Buf := { b with s := fun j => if j = i then x else b.s j }
def toList (b : Buf) : List Slot := (List.range b.n).map b.s
def allRaw (b : Buf) : Bool := (List.range b.n).all fun i => b.s i == .raw
end Buf

/-! ### slot events -/

/-- placement new of a value into slot `i` -/
def construct (b : Buf) (i : Nat) (v : Val) : Option Buf :=
  match b.get i with
  | some .raw => some (b.put i (.live v))
  | _ => none

/-- `ptr->~T()` -/
def destroy (b : Buf) (i : Nat) : Option Buf :=
  match b.get i with
  | some (.live _) => some (b.put i .raw)
  | some .moved => some (b.put i .raw)
  | _ => none

/-- `m_data[i] = value` (copy or move assignment: the target must be an object) -/
def assign (b : Buf) (i : Nat) (v : Val) : Option Buf :=
  match b.get i with
  | some (.live _) => some (b.put i (.live v))
  | some .moved => some (b.put i (.live v))
  | _ => none

/-- read the value of element `i` -/
def rd (b : Buf) (i : Nat) : Option Val :=
  match b.get i with
  | some (.live v) => some v
  | _ => none

/-- `std::move(m_data[i])` consumed by a constructor / assignment -/
def moveOut (b : Buf) (i : Nat) : Option (Val × Buf) :=
  match b.get i with
  | some (.live v) => some (v, b.put i .moved)
  | _ => none

/-- `m_alloc.deallocate(p, cap)` -/
def deallocOk (b : Buf) (cap : Nat) : Bool := b.n == cap && b.allRaw

/-! ### the vector object -/

structure Vec where
  data : Option Buf := none    -- m_data (none = nullptr)
  cap : Nat := 0               -- m_capacity
  size : Nat := 0              -- m_size

def Vec.empty : Vec := {}

/-- argument of emplace / push_back / insert: a value, or a reference to an element of the vector itself -/
inductive Arg where
  | val (x : Val)
  | own (i : Nat)
  deriving DecidableEq, Repr

/-- source of `insert(pos, first, last)`: a range of the vector's own elements or a foreign array -/
inductive Src where
  | own (f l : Nat)
  | ext (xs : List Val)
  deriving DecidableEq, Repr

def Src.count : Src → Nat
  | .own f l => l - f
  | .ext xs => xs.length

/-- `igris::array_destructor(p + i, p + i + n)` and the destroy loops of clear / resize -/
def destroyRange (b : Buf) (i : Nat) : Nat → Ledger → Option (Buf × Ledger)
  | 0, l => some (b, l)
  | n + 1, l =>
    match destroy b i with
    | none => none
    | some b => destroyRange b (i + 1) n (l.addDtor 1)

/-- changeBuffer: `for (ip = begin(), op = newbuf; ip != ie; op++, ip++) move_constructor(op, move(*ip))` -/
def moveCtorLoop (ob nb : Buf) (i : Nat) : Nat → Ledger → Option (Buf × Buf × Ledger)
  | 0, l => some (ob, nb, l)
  | n + 1, l =>
    match moveOut ob i with
    | none => none
    | some (v, ob) =>
      match construct nb i v with
      | none => none
      | some nb => moveCtorLoop ob nb (i + 1) n (l.addMctor 1)

def changeBuffer (v : Vec) (sz : Nat) (l : Ledger) : Option (Vec × Ledger) :=
  let nb := Buf.fresh sz
  let l := l.addAlloc 1
  match v.data with
  | none => some ({ data := some nb, cap := sz, size := v.size }, l)
  | some ob =>
    match moveCtorLoop ob nb 0 v.size l with
    | none => none
    | some (ob, nb, l) =>
      match destroyRange ob 0 v.size l with
      | none => none
      | some (ob, l) =>
        if deallocOk ob v.cap then some ({ data := some nb, cap := sz, size := v.size }, l.addDealloc 1)
        else none

def reserve (v : Vec) (sz : Nat) (l : Ledger) : Option (Vec × Ledger) :=
  if sz > v.cap then changeBuffer v sz l else some (v, l)

/-- `invalidate()` (also the destructor) -/
def invalidate (v : Vec) (l : Ledger) : Option (Vec × Ledger) :=
  match v.data with
  | none => some (Vec.empty, l)
  | some b =>
    match destroyRange b 0 v.size l with
    | none => none
    | some (b, l) => if deallocOk b v.cap then some (Vec.empty, l.addDealloc 1) else none

def clear (v : Vec) (l : Ledger) : Option (Vec × Ledger) :=
  match v.data with
  | none => if v.size = 0 then some (v, l) else none
  | some b =>
    match destroyRange b 0 v.size l with
    | none => none
    | some (b, l) => some ({ v with data := some b, size := 0 }, l)

/-- evaluation of the argument at the moment the code reads it -/
def argVal (v : Vec) : Arg → Option Val
  | .val x => some x
  | .own i => match v.data with
    | none => none
    | some b => if i < v.size then rd b i else none

/-- emplace_back (push_back forwards to it) -/
def emplaceBack (v : Vec) (a : Arg) (l : Ledger) : Option (Vec × Ledger) :=
  if v.size + 1 > v.cap then
    -- T tmp(args...); changeBuffer; move_constructor(m_data + m_size, move(tmp)); ~tmp
    match argVal v a with
    | none => none
    | some x =>
      match changeBuffer v (v.size + 1) (l.addCtor 1) with
      | none => none
      | some (v, l) =>
        match v.data with
        | none => none
        | some b =>
          match construct b v.size x with
          | none => none
          | some b => some ({ v with data := some b, size := v.size + 1 }, (l.addMctor 1).addDtor 1)
  else
    match argVal v a, v.data with
    | some x, some b =>
      match construct b v.size x with
      | none => none
      | some b => some ({ v with data := some b, size := v.size + 1 }, l.addCtor 1)
    | _, _ => none

def popBack (v : Vec) (l : Ledger) : Option (Vec × Ledger) :=
  match v.data with
  | none => none
  | some b =>
    if v.size = 0 then none else
    match destroy b (v.size - 1) with
    | none => none
    | some b => some ({ v with data := some b, size := v.size - 1 }, l.addDtor 1)

/-- `shift_up(pos, k)`: `for (i = m_size; i > pos; --i)`; `cnt` = iterations left, the
    source index of the next iteration is `pos + cnt - 1` -/
def shiftUp (b : Buf) (size pos k : Nat) : Nat → Ledger → Option (Buf × Ledger)
  | 0, l => some (b, l)
  | cnt + 1, l =>
    match moveOut b (pos + cnt) with
    | none => none
    | some (x, b) =>
      if pos + cnt + k ≥ size then
        match construct b (pos + cnt + k) x with
        | none => none
        | some b => shiftUp b size pos k cnt (l.addMctor 1)
      else
        match assign b (pos + cnt + k) x with
        | none => none
        | some b => shiftUp b size pos k cnt (l.addMasg 1)

def shiftUpCall (b : Buf) (size pos k : Nat) (l : Ledger) : Option (Buf × Ledger) :=
  if k = 0 then some (b, l) else shiftUp b size pos k (size - pos) l

/-- emplace(pos, args...) (insert(pos, value), insert(int, value) forward to it) -/
def emplace (v : Vec) (pos : Nat) (a : Arg) (l : Ledger) : Option (Vec × Ledger) :=
  match argVal v a with            -- T tmp(args...)
  | none => none
  | some x =>
    match reserve v (v.size + 1) (l.addCtor 1) with
    | none => none
    | some (v, l) =>
      match v.data with
      | none => none
      | some b =>
        match shiftUpCall b v.size pos 1 l with
        | none => none
        | some (b, l) =>
          if pos < v.size then
            match assign b pos x with
            | none => none
            | some b => some ({ v with data := some b, size := v.size + 1 }, (l.addMasg 1).addDtor 1)
          else
            match construct b pos x with
            | none => none
            | some b => some ({ v with data := some b, size := v.size + 1 }, (l.addMctor 1).addDtor 1)

/-- the element `first[k]` of insert(pos, first, last) as the fill loop reads it: an own element
    that stood at or behind `pos` has been moved up by `sz` -/
def srcVal (b : Buf) (pos sz : Nat) (src : Src) (k : Nat) : Option Val :=
  match src with
  | .own f _ => rd b (if f + k < pos then f + k else f + k + sz)
  | .ext xs => xs[k]?

/-- the fill loop of insert(pos, first, last); `k` counts up, `n` iterations left -/
def fillLoop (b : Buf) (pos oldsize sz : Nat) (src : Src) (k : Nat) : Nat → Ledger → Option (Buf × Ledger)
  | 0, l => some (b, l)
  | n + 1, l =>
    match srcVal b pos sz src k with
    | none => none
    | some x =>
      if pos + k < oldsize then
        match assign b (pos + k) x with
        | none => none
        | some b => fillLoop b pos oldsize sz src (k + 1) n (l.addAsg 1)
      else
        match construct b (pos + k) x with
        | none => none
        | some b => fillLoop b pos oldsize sz src (k + 1) n (l.addCtor 1)

def insertRange (v : Vec) (pos : Nat) (src : Src) (l : Ledger) : Option (Vec × Ledger) :=
  let sz := src.count
  if sz = 0 then some (v, l) else
  match reserve v (v.size + sz) l with
  | none => none
  | some (v, l) =>
    match v.data with
    | none => none
    | some b =>
      match shiftUpCall b v.size pos sz l with
      | none => none
      | some (b, l) =>
        match fillLoop b pos v.size sz src 0 sz l with
        | none => none
        | some (b, l) => some ({ v with data := some b, size := v.size + sz }, l)

/-- erase(first,last): `for (src = last; src != stop; ++src, ++dst) *dst = move(*src)` -/
def moveDown (b : Buf) (src dst : Nat) : Nat → Ledger → Option (Buf × Ledger)
  | 0, l => some (b, l)
  | n + 1, l =>
    match moveOut b src with
    | none => none
    | some (x, b) =>
      match assign b dst x with
      | none => none
      | some b => moveDown b (src + 1) (dst + 1) n (l.addMasg 1)

def erase (v : Vec) (f t : Nat) (l : Ledger) : Option (Vec × Ledger) :=
  if t - f = 0 then some (v, l) else
  match v.data with
  | none => none
  | some b =>
    if t > v.size then none else
    match moveDown b t f (v.size - t) l with
    | none => none
    | some (b, l) =>
      match destroyRange b (f + (v.size - t)) (t - f) l with
      | none => none
      | some (b, l) => some ({ v with data := some b, size := v.size - (t - f) }, l)

/-- erase(iterator newend): truncation -/
def eraseTo (v : Vec) (k : Nat) (l : Ledger) : Option (Vec × Ledger) :=
  if k > v.size then none else
  match v.data with
  | none => if v.size = 0 then some (v, l) else none
  | some b =>
    match destroyRange b k (v.size - k) l with
    | none => none
    | some (b, l) => some ({ v with data := some b, size := k }, l)

/-- `for (i = oldsize; i < n; ++i) constructor(m_data + i)` -/
def defaultLoop (b : Buf) (i : Nat) : Nat → Ledger → Option (Buf × Ledger)
  | 0, l => some (b, l)
  | n + 1, l =>
    match construct b i 0 with
    | none => none
    | some b => defaultLoop b (i + 1) n (l.addCtor 1)

def resize (v : Vec) (n : Nat) (l : Ledger) : Option (Vec × Ledger) :=
  match reserve v n l with
  | none => none
  | some (v, l) =>
    match v.data with
    | none => if n = 0 ∧ v.size = 0 then some (v, l) else none
    | some b =>
      if n > v.size then
        match defaultLoop b v.size (n - v.size) l with
        | none => none
        | some (b, l) => some ({ v with data := some b, size := n }, l)
      else
        match destroyRange b n (v.size - n) l with
        | none => none
        | some (b, l) => some ({ v with data := some b, size := n }, l)

/-- `for (ip = other.m_data, op = m_data; ip != other.m_data + other.m_size; ip++, op++) constructor(op, *ip)` -/
def copyLoop (ob : Option Buf) (nb : Buf) (i : Nat) : Nat → Ledger → Option (Buf × Ledger)
  | 0, l => some (nb, l)
  | n + 1, l =>
    match ob with
    | none => none
    | some o =>
      match rd o i with
      | none => none
      | some x =>
        match construct nb i x with
        | none => none
        | some nb => copyLoop ob nb (i + 1) n (l.addCtor 1)

/-- copy constructor; `portable` = the copy in std_portable.h, which returns early for an empty source -/
def copyCtor (portable : Bool) (o : Vec) (l : Ledger) : Option (Vec × Ledger) :=
  if portable && o.size == 0 then some (Vec.empty, l) else
  match copyLoop o.data (Buf.fresh o.size) 0 o.size (l.addAlloc 1) with
  | none => none
  | some (b, l) => some ({ data := some b, cap := o.size, size := o.size }, l)

/-- copy assignment from a different vector -/
def copyAssign (v o : Vec) (l : Ledger) : Option (Vec × Ledger) :=
  match invalidate v l with
  | none => none
  | some (_, l) =>
    match copyLoop o.data (Buf.fresh o.size) 0 o.size (l.addAlloc 1) with
    | none => none
    | some (b, l) => some ({ data := some b, cap := o.size, size := o.size }, l)

/-- move assignment from a different vector: returns (this, other) -/
def moveAssign (v o : Vec) (l : Ledger) : Option (Vec × Vec × Ledger) :=
  match invalidate v l with
  | none => none
  | some (_, l) => some (o, Vec.empty, l)

/-- `reserve(n); for (a : xs) push_back(a)` (initializer list / template range constructor) and the
    push_back loop of `vector(iterator a, const iterator b)` -/
def pushAll (v : Vec) : List Val → Ledger → Option (Vec × Ledger)
  | [], l => some (v, l)
  | x :: xs, l =>
    match emplaceBack v (.val x) l with
    | none => none
    | some (v, l) => pushAll v xs l

def listCtor (xs : List Val) (l : Ledger) : Option (Vec × Ledger) :=
  match reserve Vec.empty xs.length l with
  | none => none
  | some (v, l) => pushAll v xs l

/-- read the elements `[f, f+n)` of another vector (`*a++`) -/
def readRange (o : Vec) (f : Nat) : Nat → Option (List Val)
  | 0 => some []
  | n + 1 =>
    match o.data with
    | none => none
    | some b =>
      if f < o.size then
        match rd b f, readRange o (f + 1) n with
        | some x, some r => some (x :: r)
        | _, _ => none
      else none

/-- `vector(iterator a, const iterator b)`: no reserve, push_back one by one -/
def rangeCtor (o : Vec) (f t : Nat) (l : Ledger) : Option (Vec × Ledger) :=
  match readRange o f (t - f) with
  | none => none
  | some xs => pushAll Vec.empty xs l

def sizeCtor (n : Nat) (l : Ledger) : Option (Vec × Ledger) := resize Vec.empty n l

/-- libstdc++ `std::upper_bound` over the elements (bisection; `fuel` ≥ len) -/
def upperBound (b : Buf) (x : Val) : Nat → Nat → Nat → Option Nat
  | 0, first, _ => some first
  | fuel + 1, first, len =>
    if len = 0 then some first else
    let half := len / 2
    match rd b (first + half) with
    | none => none
    | some m =>
      if x < m then upperBound b x fuel first half
      else upperBound b x fuel (first + half + 1) (len - half - 1)

def insertSorted (v : Vec) (x : Val) (l : Ledger) : Option (Nat × Vec × Ledger) :=
  let pos : Option Nat :=
    match v.data with
    | none => if v.size = 0 then some 0 else none
    | some b => upperBound b x v.size 0 v.size
  match pos with
  | none => none
  | some p =>
    match emplace v p (.val x) l with
    | none => none
    | some (v, l) => some (p, v, l)

/-- read all elements -/
def contents (v : Vec) : Option (List Val) := readRange v 0 v.size

/-- operator== : sizes, then the element loop -/
def eqLoop (a b : Vec) (i : Nat) : Nat → Option Bool
  | 0 => some true
  | n + 1 =>
    match a.data, b.data with
    | some x, some y =>
      match rd x i, rd y i with
      | some p, some q => if p ≠ q then some false else eqLoop a b (i + 1) n
      | _, _ => none
    | _, _ => none

def vecEq (a b : Vec) : Option Bool :=
  if a.size ≠ b.size then some false else eqLoop a b 0 a.size

/-- std::lexicographical_compare over min(size) elements, then the length test -/
def lexLoop (a b : Vec) (i : Nat) : Nat → Option Bool
  | 0 => some (decide (i = a.size ∧ i ≠ b.size))
  | n + 1 =>
    match a.data, b.data with
    | some x, some y =>
      match rd x i, rd y i with
      | some p, some q =>
        if p < q then some true else if q < p then some false else lexLoop a b (i + 1) n
      | _, _ => none
    | _, _ => none

def vecLt (a b : Vec) : Option Bool := lexLoop a b 0 (min a.size b.size)

/-- at(): `none` inside = throws std::out_of_range -/
def vecAt (v : Vec) (i : Nat) : Option (Option Val) :=
  if i ≥ v.size then some none else
  match v.data with
  | none => none
  | some b => (rd b i).map some

def vecIdx (v : Vec) (i : Nat) : Option Val :=
  if i ≥ v.size then none else
  match v.data with
  | none => none
  | some b => rd b i

/-! ### the operation language (what the driver executes and the theorems quantify over) -/

inductive Op where
  | emplaceBack (r : Nat) (a : Arg)
  | popBack (r : Nat)
  | emplace (r pos : Nat) (a : Arg)
  | insertRange (r pos : Nat) (s : Src)
  | insertSorted (r : Nat) (x : Val)
  | erase (r f t : Nat)
  | eraseTo (r k : Nat)
  | resize (r n : Nat)
  | reserve (r n : Nat)
  | clear (r : Nat)
  | invalidate (r : Nat)
  | copyCtor (d s : Nat)
  | moveCtor (d s : Nat)
  | copyAssign (d s : Nat)
  | moveAssign (d s : Nat)
  | rangeCtor (d s f t : Nat)
  | sizeCtor (d n : Nat)
  | listCtor (d : Nat) (xs : List Val)
  | eq (a b : Nat)
  | ne (a b : Nat)
  | lt (a b : Nat)
  | at (r i : Nat)
  | index (r i : Nat)
  | frontBack (r : Nat)
  | iter (r : Nat)
  deriving Repr

inductive Ret where
  | unit
  | pos (n : Nat)
  | bool (b : Bool)
  | val (x : Val)
  | throw
  | pair (x y : Val)
  deriving DecidableEq, Repr

structure St where
  regs : Nat → Vec
  led : Ledger

def St.init : St := ⟨fun _ => Vec.empty, {}⟩

def St.set (s : St) (r : Nat) (v : Vec) (l : Ledger) : St :=
  ⟨fun j => if j = r then v else s.regs j, l⟩

/-- one operation; `portable` selects the std_portable.h copy -/
def step (portable : Bool) (s : St) : Op → Option (St × Ret)
  | .emplaceBack r a => (emplaceBack (s.regs r) a s.led).map fun (v, l) => (s.set r v l, .unit)
  | .popBack r => (popBack (s.regs r) s.led).map fun (v, l) => (s.set r v l, .unit)
  | .emplace r pos a => (emplace (s.regs r) pos a s.led).map fun (v, l) => (s.set r v l, .pos pos)
  | .insertRange r pos src => (insertRange (s.regs r) pos src s.led).map fun (v, l) => (s.set r v l, .pos pos)
  | .insertSorted r x => (insertSorted (s.regs r) x s.led).map fun (p, v, l) => (s.set r v l, .pos p)
  | .erase r f t => (erase (s.regs r) f t s.led).map fun (v, l) => (s.set r v l, .unit)
  | .eraseTo r k => (eraseTo (s.regs r) k s.led).map fun (v, l) => (s.set r v l, .unit)
  | .resize r n => (resize (s.regs r) n s.led).map fun (v, l) => (s.set r v l, .unit)
  | .reserve r n => (reserve (s.regs r) n s.led).map fun (v, l) => (s.set r v l, .unit)
  | .clear r => (clear (s.regs r) s.led).map fun (v, l) => (s.set r v l, .unit)
  | .invalidate r => (invalidate (s.regs r) s.led).map fun (v, l) => (s.set r v l, .unit)
  | .copyCtor d src =>
    if d = src then none else
    -- the old object in register d is destroyed, a new one is copy-constructed in its place
    match invalidate (s.regs d) s.led with
    | none => none
    | some (_, l) => (copyCtor portable (s.regs src) l).map fun (v, l) => (s.set d v l, .unit)
  | .moveCtor d src =>
    if d = src then none else
    match invalidate (s.regs d) s.led with
    | none => none
    | some (_, l) => some ((s.set src Vec.empty l).set d (s.regs src) l, .unit)
  | .copyAssign d src =>
    if d = src then some (s, .unit) else
    (copyAssign (s.regs d) (s.regs src) s.led).map fun (v, l) => (s.set d v l, .unit)
  | .moveAssign d src =>
    if d = src then some (s, .unit) else
    (moveAssign (s.regs d) (s.regs src) s.led).map fun (v, o, l) => ((s.set src o l).set d v l, .unit)
  | .rangeCtor d src f t =>
    if d = src then none else
    match invalidate (s.regs d) s.led with
    | none => none
    | some (_, l) => (rangeCtor (s.regs src) f t l).map fun (v, l) => (s.set d v l, .unit)
  | .sizeCtor d n =>
    match invalidate (s.regs d) s.led with
    | none => none
    | some (_, l) => (sizeCtor n l).map fun (v, l) => (s.set d v l, .unit)
  | .listCtor d xs =>
    match invalidate (s.regs d) s.led with
    | none => none
    | some (_, l) => (listCtor xs l).map fun (v, l) => (s.set d v l, .unit)
  | .eq a b => (vecEq (s.regs a) (s.regs b)).map fun r => (s, .bool r)
  | .ne a b => (vecEq (s.regs a) (s.regs b)).map fun r => (s, .bool (!r))
  | .lt a b => (vecLt (s.regs a) (s.regs b)).map fun r => (s, .bool r)
  | .at r i => (vecAt (s.regs r) i).map fun x => (s, match x with | some v => .val v | none => .throw)
  | .index r i => (vecIdx (s.regs r) i).map fun x => (s, .val x)
  | .frontBack r =>
    match vecIdx (s.regs r) 0, vecIdx (s.regs r) ((s.regs r).size - 1) with
    | some x, some y => some (s, .pair x y)
    | _, _ => none
  | .iter r => (contents (s.regs r)).map fun xs => (s, .pos xs.length)

def run (portable : Bool) : St → List Op → Option St
  | s, [] => some s
  | s, op :: ops =>
    match step portable s op with
    | none => none
    | some (s, _) => run portable s ops

/-- the destructors of the registers `0 .. n-1` -/
def destroyAll (s : St) : Nat → Option St
  | 0 => some s
  | n + 1 =>
    match destroyAll s n with
    | none => none
    | some s =>
      match invalidate (s.regs n) s.led with
      | none => none
      | some (v, l) => some (s.set n v l)

/-! ### the std::vector meaning of the operations -/

/-- value an `Arg` denotes for a vector holding `xs` -/
def argSpec (xs : List Val) : Arg → Option Val
  | .val x => some x
  | .own i => xs[i]?

def srcSpec (xs : List Val) : Src → Option (List Val)
  | .own f t => if f ≤ t ∧ t ≤ xs.length then some ((xs.drop f).take (t - f)) else none
  | .ext ys => some ys

def insertAt (xs : List Val) (pos : Nat) (ys : List Val) : List Val := xs.take pos ++ ys ++ xs.drop pos

/-- first index whose element is greater than `x` (what std::upper_bound returns on a sorted vector) -/
def ubSpec (x : Val) : List Val → Nat
  | [] => 0
  | y :: ys => if x < y then 0 else ubSpec x ys + 1

def setL (f : Nat → List Val) (r : Nat) (xs : List Val) : Nat → List Val := fun j => if j = r then xs else f j

/-- `none` = the operation is outside the contract of std::vector for this state -/
def specStep (f : Nat → List Val) : Op → Option ((Nat → List Val) × Ret)
  | .emplaceBack r a => (argSpec (f r) a).map fun x => (setL f r (f r ++ [x]), .unit)
  | .popBack r => if f r = [] then none else some (setL f r (f r).dropLast, .unit)
  | .emplace r pos a =>
    if pos ≤ (f r).length then (argSpec (f r) a).map fun x => (setL f r (insertAt (f r) pos [x]), .pos pos) else none
  | .insertRange r pos src =>
    if pos ≤ (f r).length then (srcSpec (f r) src).map fun ys => (setL f r (insertAt (f r) pos ys), .pos pos) else none
  | .insertSorted r x =>
    if (f r).Pairwise (· ≤ ·) then some (setL f r (insertAt (f r) (ubSpec x (f r)) [x]), .pos (ubSpec x (f r))) else none
  | .erase r a b =>
    if a ≤ b ∧ b ≤ (f r).length then some (setL f r ((f r).take a ++ (f r).drop b), .unit) else none
  | .eraseTo r k => if k ≤ (f r).length then some (setL f r ((f r).take k), .unit) else none
  | .resize r n => some (setL f r ((f r).take n ++ List.replicate (n - (f r).length) 0), .unit)
  | .reserve _ _ => some (f, .unit)
  | .clear r => some (setL f r [], .unit)
  | .invalidate r => some (setL f r [], .unit)
  | .copyCtor d s => if d = s then none else some (setL f d (f s), .unit)
  | .moveCtor d s => if d = s then none else some (setL (setL f s []) d (f s), .unit)
  | .copyAssign d s => some (setL f d (f s), .unit)
  | .moveAssign d s => if d = s then some (f, .unit) else some (setL (setL f s []) d (f s), .unit)
  | .rangeCtor d s a b =>
    if d ≠ s ∧ a ≤ b ∧ b ≤ (f s).length then some (setL f d (((f s).drop a).take (b - a)), .unit) else none
  | .sizeCtor d n => some (setL f d (List.replicate n 0), .unit)
  | .listCtor d xs => some (setL f d xs, .unit)
  | .eq a b => some (f, .bool (decide (f a = f b)))
  | .ne a b => some (f, .bool (!decide (f a = f b)))
  | .lt a b => some (f, .bool (decide (f a < f b)))
  | .at r i => some (f, match (f r)[i]? with | some v => .val v | none => .throw)
  | .index r i => (f r)[i]?.map fun v => (f, .val v)
  | .frontBack r =>
    match (f r).head?, (f r).getLast? with
    | some x, some y => some (f, .pair x y)
    | _, _ => none
  | .iter r => some (f, .pos (f r).length)

/-! ### flat_map / flat_set (storage = a vector, modelled by its element list)

  `lt` is the `Compare` object (`_comp(a, b)`): std::less<int> = `ltInt`, but any comparator can be plugged in
  (the driver knows std::greater<int>, "smaller last digit" and std::greater<std::string> on the decimal
  text).  Two keys are THE SAME KEY when neither orders before the other (`same`), as in std::map / std::set. -/

/-- std::less<int> -/
def ltInt (a b : Int) : Bool := decide (a < b)

/-- `!_comp(a, b) && !_comp(b, a)` -/
def same (lt : Int → Int → Bool) (a b : Int) : Bool := !lt a b && !lt b a

/-- `std::find_if(begin, end, same key)` as an index -/
def findIdx (lt : Int → Int → Bool) (k : Int) : List (Int × Int) → Nat
  | [] => 0
  | p :: ps => if same lt p.1 k then 0 else findIdx lt k ps + 1

/-- libstdc++ `std::upper_bound(first, last, value, _comp(a.first, b.first))` on a possibly unsorted vector -/
def mapUpper (lt : Int → Int → Bool) (m : List (Int × Int)) (k : Int) : Nat → Nat → Nat → Nat
  | 0, first, _ => first
  | fuel + 1, first, len =>
    if len = 0 then first else
    let half := len / 2
    match m[first + half]? with
    | none => first
    | some p =>
      if lt k p.1 then mapUpper lt m k fuel first half
      else mapUpper lt m k fuel (first + half + 1) (len - half - 1)

def listInsert {α} (xs : List α) (pos : Nat) (x : α) : List α := xs.take pos ++ x :: xs.drop pos

structure FMap where
  st : List (Int × Int) := []

namespace FMap
variable (lt : Int → Int → Bool)
/-- find(): the entry `*it` found by find_if, `none` = end() -/
def findEntry (m : FMap) (k : Int) : Option (Int × Int) := m.st[findIdx lt k m.st]?
def find (m : FMap) (k : Int) : Option Int := (m.findEntry lt k).map (·.2)
def count (m : FMap) (k : Int) : Nat := m.st.countP (fun p => same lt p.1 k)
/-- `ordered_pos(key)`: `std::upper_bound(begin, end, key, _comp(key, p.first))`, the position that keeps the
    storage ordered by key (every insertion path uses it since the fix 'flat_map iterates in key order') -/
def upos (m : FMap) (k : Int) : Nat := mapUpper lt m.st k m.st.length 0 m.st.length
/-- operator[]: a reference to the mapped value, default-inserted at `ordered_pos(key)` if absent -/
def index (m : FMap) (k : Int) : FMap × Int :=
  match m.find lt k with
  | some v => (m, v)
  | none => (⟨listInsert m.st (m.upos lt k) (k, 0)⟩, 0)
/-- `m[k] = v` (a present entry keeps its stored key) -/
def assign (m : FMap) (k v : Int) : FMap :=
  let i := findIdx lt k m.st
  match m.st[i]? with
  | some p => ⟨m.st.set i (p.1, v)⟩
  | none => ⟨listInsert m.st (m.upos lt k) (k, v)⟩
/-- insert(value): the entry the returned iterator points to -/
def insert (m : FMap) (k v : Int) : FMap × Int × Int :=
  match m.findEntry lt k with
  | some p => (m, p.1, p.2)
  | none => (⟨listInsert m.st (mapUpper lt m.st k m.st.length 0 m.st.length) (k, v)⟩, k, v)
def emplace (m : FMap) (k v : Int) : FMap × Bool × Int :=
  match m.find lt k with
  | some w => (m, false, w)
  | none => (⟨listInsert m.st (m.upos lt k) (k, v)⟩, true, v)
/-- initializer-list constructor (after the fixes): first entry of a key wins, entries are put at `ordered_pos` -/
def ofList : List (Int × Int) → FMap → FMap
  | [], m => m
  | (k, v) :: r, m => ofList r (if (m.find lt k).isSome then m else ⟨listInsert m.st (m.upos lt k) (k, v)⟩)
/-- const operator[]: the mapped value, `T()` for an absent key; nothing is inserted -/
def cindex (m : FMap) (k : Int) : Int := (m.find lt k).getD 0
/-- BEFORE the fix 'flat_map iterates in key order': operator[] / `m[k] = v` / emplace / the initializer-list
    constructor appended a new entry at the END of the storage (`storage.push_back`) -/
def indexOrig (m : FMap) (k : Int) : FMap × Int :=
  match m.find lt k with
  | some v => (m, v)
  | none => (⟨m.st ++ [(k, 0)]⟩, 0)
def assignOrig (m : FMap) (k v : Int) : FMap :=
  let i := findIdx lt k m.st
  match m.st[i]? with
  | some p => ⟨m.st.set i (p.1, v)⟩
  | none => ⟨m.st ++ [(k, v)]⟩
def emplaceOrig (m : FMap) (k v : Int) : FMap × Bool × Int :=
  match m.find lt k with
  | some w => (m, false, w)
  | none => (⟨m.st ++ [(k, v)]⟩, true, v)
/-- the constructor before the fix: `storage(init)` -/
def ofListOrig (l : List (Int × Int)) : FMap := ⟨l⟩
end FMap

/-- libstdc++ `std::lower_bound(first, last, key, _comp)` -/
def lowerBound (lt : Int → Int → Bool) (s : List Int) (k : Int) : Nat → Nat → Nat → Nat
  | 0, first, _ => first
  | fuel + 1, first, len =>
    if len = 0 then first else
    let half := len / 2
    match s[first + half]? with
    | none => first
    | some m =>
      if lt m k then lowerBound lt s k fuel (first + half + 1) (len - half - 1)
      else lowerBound lt s k fuel first half

structure FSet where
  st : List Int := []

namespace FSet
variable (lt : Int → Int → Bool)
def lb (s : FSet) (k : Int) : Nat := lowerBound lt s.st k s.st.length 0 s.st.length
def insert (s : FSet) (k : Int) : FSet :=
  let i := s.lb lt k
  match s.st[i]? with
  | some x => if ¬ (lt k x) then s else ⟨listInsert s.st i k⟩
  | none => ⟨listInsert s.st i k⟩
def count (s : FSet) (k : Int) : Nat :=
  match s.st[s.lb lt k]? with
  | some x => if ¬ (lt k x) then 1 else 0
  | none => 0
end FSet

/-! ### operation languages of flat_map / flat_set (what the driver executes for `reset flat …` cases and
    what the refinement theorems quantify over) -/

namespace FMap
/-- at(): the same find_if loop as find; `none` = throws std::out_of_range -/
def atKey (lt : Int → Int → Bool) (m : FMap) (k : Int) : Option Int := m.find lt k
def size (m : FMap) : Nat := m.st.length
end FMap

inductive MOp where
  | index (k : Int)              -- `m[k]` (read through the reference)
  | assign (k v : Int)           -- `m[k] = v`
  | insert (k v : Int)           -- `m.insert({k, v})`
  | emplace (k v : Int)          -- `m.emplace(k, v)`
  | find (k : Int)
  | count (k : Int)
  | at (k : Int)
  | size
  | clear
  | init (l : List (Int × Int))  -- `m = flat_map{…}` (initializer list)
  | iter                         -- `for (it = begin(); it != end(); ++it)`
  | cindex (k : Int)             -- `const flat_map &c = m; c[k]`
  deriving Repr

inductive MRet where
  | unit
  | val (v : Int)                -- a mapped value
  | kv (k v : Int)               -- `*it` of the returned iterator
  | flag (b : Bool) (v : Int)    -- `.second`, `.first->second` of emplace
  | opt (o : Option Int)         -- find: the mapped value or end()
  | nat (n : Nat)
  | throw
  | entries (l : List (Int × Int))   -- the entries in iteration order
  deriving DecidableEq, Repr

def FMap.step (lt : Int → Int → Bool) (m : FMap) : MOp → FMap × MRet
  | .index k => let (m, v) := m.index lt k; (m, .val v)
  | .assign k v => (m.assign lt k v, .unit)
  | .insert k v => let (m, a, b) := m.insert lt k v; (m, .kv a b)
  | .emplace k v => let (m, b, w) := m.emplace lt k v; (m, .flag b w)
  | .find k => (m, .opt (m.find lt k))
  | .count k => (m, .nat (m.count lt k))
  | .at k => (m, match m.atKey lt k with | some v => .val v | none => .throw)
  | .size => (m, .nat m.size)
  | .clear => (⟨[]⟩, .unit)
  | .init l => (FMap.ofList lt l ⟨[]⟩, .unit)
  | .iter => (m, .entries m.st)
  | .cindex k => (m, .val (m.cindex lt k))

def FMap.run (lt : Int → Int → Bool) : FMap → List MOp → FMap × List MRet
  | m, [] => (m, [])
  | m, op :: ops =>
    let (m1, r) := m.step lt op
    let (m2, rs) := FMap.run lt m1 ops
    (m2, r :: rs)

/-- `flat_map::operator==` compares the storage vectors (`storage == other.storage`) -/
def FMap.eqStorage (a b : FMap) : Bool := a.st == b.st

/-- a second map with the same entries put in through `c[key] = value` in REVERSE iteration order (driver op `meq`) -/
def FMap.rebuiltRev (lt : Int → Int → Bool) (m : FMap) : FMap :=
  m.st.reverse.foldl (fun c p => c.assign lt p.1 p.2) ⟨[]⟩

/-- the flat_map operation step with the insertion paths as they were before the key-order fix -/
def FMap.stepOrig (lt : Int → Int → Bool) (m : FMap) : MOp → FMap × MRet
  | .index k => let (m, v) := m.indexOrig lt k; (m, .val v)
  | .assign k v => (m.assignOrig lt k v, .unit)
  | .emplace k v => let (m, b, w) := m.emplaceOrig lt k v; (m, .flag b w)
  | op => m.step lt op

def FMap.runOrig (lt : Int → Int → Bool) : FMap → List MOp → FMap × List MRet
  | m, [] => (m, [])
  | m, op :: ops =>
    let (m1, r) := m.stepOrig lt op
    let (m2, rs) := FMap.runOrig lt m1 ops
    (m2, r :: rs)

inductive SOp where
  | insert (k : Int)
  | count (k : Int)
  | size
  | clear
  | iter                         -- `for (it = begin(); it != end(); ++it)`
  deriving Repr

inductive SRet where
  | unit
  | nat (n : Nat)
  | keys (l : List Int)
  deriving DecidableEq, Repr

def FSet.step (lt : Int → Int → Bool) (s : FSet) : SOp → FSet × SRet
  | .insert k => (s.insert lt k, .unit)
  | .count k => (s, .nat (s.count lt k))
  | .size => (s, .nat s.st.length)
  | .clear => (⟨[]⟩, .unit)
  | .iter => (s, .keys s.st)

def FSet.run (lt : Int → Int → Bool) : FSet → List SOp → FSet × List SRet
  | s, [] => (s, [])
  | s, op :: ops =>
    let (s1, r) := s.step lt op
    let (s2, rs) := FSet.run lt s1 ops
    (s2, r :: rs)

/-- first index whose element is not less than `k` (what std::lower_bound returns on a sorted vector) -/
def lbSpec (lt : Int → Int → Bool) (k : Int) : List Int → Nat
  | [] => 0
  | y :: ys => if lt y k then lbSpec lt k ys + 1 else 0

/-- first index whose key is greater than `k` under the comparator -/
def ubSpecBy (lt : Int → Int → Bool) (k : Int) : List Int → Nat
  | [] => 0
  | y :: ys => if lt k y then 0 else ubSpecBy lt k ys + 1

/-! ### the member functions as they were BEFORE the `fix:` commits of branch fix-C02

  Kept so that every repaired defect has a kernel-checked witness: a short history that std::vector accepts
  and the repaired code runs, on which the original body faults in the slot model.  Transcribed from
  `git show db40834^:igris/container/vector.h` (the tree before the first fix). -/

/-- `std::move_backward(first, last, d_last)` of the original insert / emplace / range insert: EVERY
    element is move-ASSIGNED `k` slots up (the repaired `shift_up` move-constructs into the slots behind the
    old end); `cnt` iterations left, the next source is `pos + cnt - 1` -/
def moveBackwardOrig (b : Buf) (pos k : Nat) : Nat → Ledger → Option (Buf × Ledger)
  | 0, l => some (b, l)
  | cnt + 1, l =>
    match moveOut b (pos + cnt) with
    | none => none
    | some (x, b) =>
      match assign b (pos + cnt + k) x with
      | none => none
      | some b => moveBackwardOrig b pos k cnt (l.addMasg 1)

/-- a `const T &` / forwarded argument read AFTER `reserve`: a reference to an own element dangles when the
    buffer was replaced (read of a freed block = fault) -/
def argValLate (realloc : Bool) (v : Vec) : Arg → Option Val
  | .val x => some x
  | .own i => if realloc then none else argVal v (.own i)

/-- 37ab9b2^: `invalidate(); m_data = m_alloc.allocate(m_size); m_size = other.m_size; m_capacity = m_size;`
    then the copy loop — `m_size` is 0 after invalidate(), so the block has 0 slots -/
def copyAssignOrig (v o : Vec) (l : Ledger) : Option (Vec × Ledger) :=
  match invalidate v l with
  | none => none
  | some (v0, l) =>
    match copyLoop o.data (Buf.fresh v0.size) 0 o.size (l.addAlloc 1) with
    | none => none
    | some (b, l) => some ({ data := some b, cap := o.size, size := o.size }, l)

/-- db40834^: `for (i < sz) destructor(first + i); std::move(last, end(), first); m_size -= sz;` -/
def eraseOrig (v : Vec) (f t : Nat) (l : Ledger) : Option (Vec × Ledger) :=
  match v.data with
  | none => if t - f = 0 ∧ v.size - t = 0 then some (v, l) else none
  | some b =>
    match destroyRange b f (t - f) l with
    | none => none
    | some (b, l) =>
      match moveDown b t f (v.size - t) l with
      | none => none
      | some (b, l) => some ({ v with data := some b, size := v.size - (t - f) }, l)

/-- 5125225^: `void erase(iterator newend) { m_size = newend - m_data; }` -/
def eraseToOrig (v : Vec) (k : Nat) (l : Ledger) : Option (Vec × Ledger) :=
  if k > v.size then none else some ({ v with size := k }, l)

/-- ebcd133^: `reserve(m_size + 1); constructor(m_data + m_size, ref); m_size++;` -/
def emplaceBackOrig (v : Vec) (a : Arg) (l : Ledger) : Option (Vec × Ledger) :=
  let realloc := decide (v.size + 1 > v.cap)
  match reserve v (v.size + 1) l with
  | none => none
  | some (v, l) =>
    match argValLate realloc v a, v.data with
    | some x, some b =>
      match construct b v.size x with
      | none => none
      | some b => some ({ v with data := some b, size := v.size + 1 }, l.addCtor 1)
    | _, _ => none

/-- f1b29cb^, insert(pos, value): `reserve(m_size + 1); m_size++; move_backward(first, prev(end()), end());
    *first = value;` -/
def insertOrig (v : Vec) (pos : Nat) (a : Arg) (l : Ledger) : Option (Vec × Ledger) :=
  let realloc := decide (v.size + 1 > v.cap)
  match reserve v (v.size + 1) l with
  | none => none
  | some (v, l) =>
    match v.data with
    | none => none
    | some b =>
      match moveBackwardOrig b pos 1 (v.size - pos) l with
      | none => none
      | some (b, l) =>
        match argValLate realloc { v with data := some b } a with
        | none => none
        | some x =>
          match assign b pos x with
          | none => none
          | some b => some ({ v with data := some b, size := v.size + 1 }, l.addAsg 1)

/-- f1b29cb^, emplace(pos, args…): the same with `new (first) T(args…)` over the slot at `pos` -/
def emplaceOrig (v : Vec) (pos : Nat) (a : Arg) (l : Ledger) : Option (Vec × Ledger) :=
  let realloc := decide (v.size + 1 > v.cap)
  match reserve v (v.size + 1) l with
  | none => none
  | some (v, l) =>
    match v.data with
    | none => none
    | some b =>
      match moveBackwardOrig b pos 1 (v.size - pos) l with
      | none => none
      | some (b, l) =>
        match argValLate realloc { v with data := some b } a with
        | none => none
        | some x =>
          match construct b pos x with
          | none => none
          | some b => some ({ v with data := some b, size := v.size + 1 }, l.addCtor 1)

/-- `std::copy(m_data + _first, m_data + _last, first_it)` of the original range insert: the source offsets
    were taken before `reserve` and are used unchanged afterwards (no correction for the shift; a foreign
    range re-based on a replaced buffer points into unrelated memory = fault) -/
def copyInOrig (b : Buf) (realloc : Bool) (pos : Nat) (src : Src) (k : Nat) : Nat → Ledger → Option (Buf × Ledger)
  | 0, l => some (b, l)
  | n + 1, l =>
    let x : Option Val :=
      match src with
      | .own f _ => rd b (f + k)
      | .ext xs => if realloc then none else xs[k]?
    match x with
    | none => none
    | some x =>
      match assign b (pos + k) x with
      | none => none
      | some b => copyInOrig b realloc pos src (k + 1) n (l.addAsg 1)

/-- a60ae02^: `sz = _last - _first; reserve(m_size + sz); m_size += sz; move_backward(first_it,
    prev(end(), sz), end()); std::copy(m_data + _first, m_data + _last, first_it);` -/
def insertRangeOrig (v : Vec) (pos : Nat) (src : Src) (l : Ledger) : Option (Vec × Ledger) :=
  let sz := src.count
  let realloc := decide (v.size + sz > v.cap)
  match reserve v (v.size + sz) l with
  | none => none
  | some (v, l) =>
    match v.data with
    | none => if sz = 0 then some (v, l) else none
    | some b =>
      match moveBackwardOrig b pos sz (v.size - pos) l with
      | none => none
      | some (b, l) =>
        match copyInOrig b realloc pos src 0 sz l with
        | none => none
        | some (b, l) => some ({ v with data := some b, size := v.size + sz }, l)

/-- 7c36ffc^, const at(): `assert(num < m_size);` in front of the range test — `none` = abort -/
def vecAtConstOrig (v : Vec) (i : Nat) : Option (Option Val) :=
  if i ≥ v.size then none else vecAt v i

/-! ### default- versus value-initialisation

  `igris::constructor(m_data + i)` (ctrdtr.h) is `new (ptr) T()` with an empty argument pack:
  VALUE-initialisation, an `int` becomes 0 whatever bytes the slot memory held (`construct b i 0` in
  `defaultLoop`; a `raw` slot of the model carries no value: it stands for memory with arbitrary contents, be
  it never written, left behind by a destroyed element or part of a recycled block).  `new (ptr) T` —
  DEFAULT-initialisation, what the seeded change C02-resize-default-init turns resize into — creates an object
  of a trivially constructible T WITHOUT giving it a value: the value is indeterminate and reading it is a
  fault.  In the slot model that is an object whose value must not be read, the state `moved`. -/

/-- `new (ptr) T` for a trivially default-constructible T: an object with an indeterminate value -/
def constructDefault (b : Buf) (i : Nat) : Option Buf :=
  match b.get i with
  | some .raw => some (b.put i .moved)
  | _ => none

/-- the growth loop of resize with default-initialisation -/
def defaultLoopIndet (b : Buf) (i : Nat) : Nat → Ledger → Option (Buf × Ledger)
  | 0, l => some (b, l)
  | n + 1, l =>
    match constructDefault b i with
    | none => none
    | some b => defaultLoopIndet b (i + 1) n (l.addCtor 1)

/-- resize as it would be with `new (ptr) T` (seeded change C02-resize-default-init) -/
def resizeDefaultInit (v : Vec) (n : Nat) (l : Ledger) : Option (Vec × Ledger) :=
  match reserve v n l with
  | none => none
  | some (v, l) =>
    match v.data with
    | none => if n = 0 ∧ v.size = 0 then some (v, l) else none
    | some b =>
      if n > v.size then
        match defaultLoopIndet b v.size (n - v.size) l with
        | none => none
        | some (b, l) => some ({ v with data := some b, size := n }, l)
      else
        match destroyRange b n (v.size - n) l with
        | none => none
        | some (b, l) => some ({ v with data := some b, size := n }, l)

/-- which original body is put back (one defect at a time; everything else is the repaired code);
    `resizeDefault` is not an original body but the seeded change C02-resize-default-init -/
inductive Orig where
  | copyAssign | eraseRange | eraseTo | pushBack | insert | emplace | insertRange | constAt | resizeDefault
  deriving DecidableEq, Repr

def stepOrig (o : Orig) (s : St) (op : Op) : Option (St × Ret) :=
  match o, op with
  | .copyAssign, .copyAssign d src =>
    if d = src then some (s, .unit) else
    (copyAssignOrig (s.regs d) (s.regs src) s.led).map fun (v, l) => (s.set d v l, .unit)
  | .eraseRange, .erase r f t => (eraseOrig (s.regs r) f t s.led).map fun (v, l) => (s.set r v l, .unit)
  | .eraseTo, .eraseTo r k => (eraseToOrig (s.regs r) k s.led).map fun (v, l) => (s.set r v l, .unit)
  | .pushBack, .emplaceBack r a => (emplaceBackOrig (s.regs r) a s.led).map fun (v, l) => (s.set r v l, .unit)
  | .insert, .emplace r pos a => (insertOrig (s.regs r) pos a s.led).map fun (v, l) => (s.set r v l, .pos pos)
  | .emplace, .emplace r pos a => (emplaceOrig (s.regs r) pos a s.led).map fun (v, l) => (s.set r v l, .pos pos)
  | .insertRange, .insertRange r pos src =>
    (insertRangeOrig (s.regs r) pos src s.led).map fun (v, l) => (s.set r v l, .pos pos)
  | .constAt, .at r i => (vecAtConstOrig (s.regs r) i).map fun x => (s, match x with | some v => .val v | none => .throw)
  | .resizeDefault, .resize r n => (resizeDefaultInit (s.regs r) n s.led).map fun (v, l) => (s.set r v l, .unit)
  | .resizeDefault, .sizeCtor d n =>
    match invalidate (s.regs d) s.led with
    | none => none
    | some (_, l) => (resizeDefaultInit Vec.empty n l).map fun (v, l) => (s.set d v l, .unit)
  | _, op => step false s op

/-- a history on the code with ONE original body put back, followed by the destructors of registers 0..2 -/
def runOrig (o : Orig) : St → List Op → Option St
  | s, [] => destroyAll s 3
  | s, op :: ops =>
    match stepOrig o s op with
    | none => none
    | some (s, _) => runOrig o s ops

/-- the same history on the repaired code -/
def runFixed : St → List Op → Option St
  | s, [] => destroyAll s 3
  | s, op :: ops =>
    match step false s op with
    | none => none
    | some (s, _) => runFixed s ops

end Igris.C02
