import IgrisModel.Common.Proto
import IgrisModel.C02.Model
import IgrisModel.C02.FlatVec
import IgrisModel.C02.Exc
import IgrisModel.C02.Alloc
open Igris.Proto Igris.C02

inductive Mode where
  | idle
  | vec (portable tracked : Bool) (s : St)
  | faulted
  | eqx (ty : String)   -- comparison with an element type whose == is not the equality of the bytes
  | flat (ltM ltS : Int → Int → Bool) (m : FMap) (s : FSet)   -- comparator of the map, of the set
      (vm : Option (VMap × Ledger)) (vs : Option (VSet × Ledger)) -- the same containers OVER THE SLOT-MODEL VECTOR (none = faulted)

def nat? (s : String) : Option Nat := s.toNat?
def int? (s : String) : Option Int := s.toInt?

def ints? (ws : List String) : Option (List Int) := ws.mapM int?

def showVec (v : Vec) : String :=
  let body :=
    match v.data with
    | none => []
    | some b => (List.range v.size).map fun i =>
        match b.get i with
        | some (.live x) => toString x
        | some .moved => "moved"
        | some .raw => "raw"
        | none => "oob"
  -- round 3: the raw capacity is not part of the compared line (see `capVerdict`)
  s!"{v.size}:" ++ (if body.isEmpty then "-" else ",".intercalate body)

/-- what std::vector's contract fixes about capacity, evaluated on the model's own state before / after the
    operation (the harness evaluates the same on the real object): capacity >= size; an operation that grows in
    place never shrinks the capacity, reallocates only when the required size exceeds the old capacity, and
    reserve(n) ends with capacity >= n; an operation that does not grow leaves the block alone -/
def capVerdict (s s' : St) (op : Op) (threw : Bool) : String :=
  if !([0, 1, 2].all fun i => decide ((s'.regs i).size ≤ (s'.regs i).cap)) then "BAD-capacity<size"
  else if threw then "ok"
  else
    let grow (r need : Nat) (resv : Option Nat) : String :=
      let v := s.regs r; let v' := s'.regs r
      if v'.cap < v.cap then "BAD-shrunk"
      else if (match resv with | some n => decide (v'.cap < n) | none => false) then "BAD-reserve-too-small"
      else if need ≤ v.cap && (s'.led.alloc != s.led.alloc || s'.led.dealloc != s.led.dealloc) then "BAD-reallocated-inside-capacity"
      else "ok"
    let same (r : Nat) : String :=
      if (s'.regs r).cap != (s.regs r).cap || s'.led.alloc != s.led.alloc || s'.led.dealloc != s.led.dealloc then "BAD-block-changed" else "ok"
    match op with
    | .emplaceBack r _ | .emplace r _ _ | .insertSorted r _ | .insertRange r _ _ => grow r (s'.regs r).size none
    | .resize r n => grow r n none
    | .reserve r n => grow r n (some n)
    | .popBack r | .erase r _ _ | .eraseTo r _ | .clear r | .eq r _ | .ne r _ | .lt r _ | .at r _ | .index r _
    | .frontBack r | .iter r => same r
    | _ => "ok"

/-- constructed - destroyed objects of the operation = change of the number of elements -/
def ledVerdict (tracked : Bool) (s s' : St) : String :=
  let tot (x : St) : Nat := (x.regs 0).size + (x.regs 1).size + (x.regs 2).size
  if !tracked then "ok"
  else if ((s'.led.made : Int) - s.led.made) - ((s'.led.dtor : Int) - s.led.dtor) == (tot s' : Int) - tot s then "ok" else "BAD"

def showState (t : Bool) (s s' : St) (op : Op) (threw : Bool) : String :=
  s!"{showVec (s'.regs 0)} {showVec (s'.regs 1)} {showVec (s'.regs 2)} cap={capVerdict s s' op threw} led={ledVerdict t s s'}"

/-- after a failed allocation: the registers an in-place operation leaves must be the ones it found (strong
    guarantee: block, capacity, size, contents); copy assignment / the constructors leave an empty vector -/
def sameVec (a b : Vec) : Bool :=
  a.size == b.size && a.cap == b.cap && a.data.isSome == b.data.isSome &&
    (match a.data, b.data with
     | some x, some y => x.n == y.n && (List.range x.n).all fun i => x.s i == y.s i
     | _, _ => true)

def afterFailureOk (s s' : St) (op : Op) : Bool :=
  match op with
  | .copyAssign d _ | .copyCtor d _ | .rangeCtor d _ _ _ | .sizeCtor d _ | .listCtor d _ =>
    (s'.regs d).size == 0 && (s'.regs d).cap == 0 && (s'.regs d).data.isNone &&
      [0, 1, 2].all fun i => i == d || sameVec (s.regs i) (s'.regs i)
  | _ => [0, 1, 2].all fun i => sameVec (s.regs i) (s'.regs i)

/-- element relations of the `eqx` cases on the element CODES the harness decodes (`ne` = the type's !=,
    `lt` = its <) -/
def relOf : String → Option ((Int → Int → Bool) × (Int → Int → Bool))
  -- double / float: 0 = +0.0, 1 = -0.0, 2 = NaN, c >= 3 = c - 2
  | "dbl" | "flt" =>
    let value (c : Int) : Int := if c ≤ 1 then 0 else c - 2
    some (fun a b => a == 2 || b == 2 || value a != value b,
          fun a b => a != 2 && b != 2 && decide (value a < value b))
  -- records: the code is 10 * id + note, == / < look at the id only (Pad: the low digit selects the padding bytes)
  | "rec" | "pad" => some (fun a b => a / 10 != b / 10, fun a b => decide (a / 10 < b / 10))
  -- a bool-like byte: every non-zero byte is "set"
  | "flag" => some (fun a b => (a != 0) != (b != 0), fun a b => a == 0 && b != 0)
  | _ => none

def splitBar : List String → List String × List String
  | [] => ([], [])
  | "|" :: r => ([], r)
  | x :: r => let (a, b) := splitBar r; (x :: a, b)

def bit (b : Bool) : String := if b then "1" else "0"

/-- `cmpx a… | b…` on the slot model: the two vectors are built by the range constructor, compared by the
    transcribed loops with the element type's relations -/
def cmpx (ty : String) (ws : List String) : String :=
  match relOf ty, splitBar ws with
  | some (ne, lt), (wa, wb) =>
    match ints? wa, ints? wb with
    | some xa, some xb =>
      match listCtor xa {}, listCtor xb {} with
      | some (a, _), some (b, _) =>
        match copyCtor false a {} with
        | some (ca, _) =>
          match vecEqBy ne a b, vecLtBy lt a b, vecEqBy ne a a, vecEqBy ne ca a, vecEqBy ne b a with
          | some e, some l, some sf, some cp, some rv => bit e ++ bit (!e) ++ bit l ++ bit sf ++ bit cp ++ bit rv
          | _, _, _, _, _ => "fault"
        | none => "fault"
      | _, _ => "fault"
    | _, _ => "bad-op"
  | _, _ => "bad-op"

def showEv (tracked : Bool) (a b : Ledger) : String :=
  if tracked then
    s!"{b.ctor - a.ctor},{b.mctor - a.mctor},{b.dtor - a.dtor},{b.asg - a.asg},{b.masg - a.masg},{b.alloc - a.alloc},{b.dealloc - a.dealloc}"
  else s!"-,-,-,-,-,{b.alloc - a.alloc},{b.dealloc - a.dealloc}"

def showRet : Ret → String
  | .unit => "-"
  | .pos n => toString n
  | .bool b => if b then "1" else "0"
  | .val x => toString x
  | .throw => "throw"
  | .pair x y => s!"{x},{y}"

def parseOp : List String → Option (Op × Nat)   -- (operation, harness temporaries of an initializer list)
  | ["push", r, x] | ["eback", r, x] => do pure (.emplaceBack (← nat? r) (.val (← int? x)), 0)
  | ["pushself", r, i] | ["ebackself", r, i] => do pure (.emplaceBack (← nat? r) (.own (← nat? i)), 0)
  | ["pop", r] => do pure (.popBack (← nat? r), 0)
  | ["ins", r, p, x] | ["insi", r, p, x] | ["empl", r, p, x] => do pure (.emplace (← nat? r) (← nat? p) (.val (← int? x)), 0)
  | ["insself", r, p, i] | ["emplself", r, p, i] => do pure (.emplace (← nat? r) (← nat? p) (.own (← nat? i)), 0)
  | ["insr", r, p, f, l] => do pure (.insertRange (← nat? r) (← nat? p) (.own (← nat? f) (← nat? l)), 0)
  | "insx" :: r :: p :: xs => do pure (.insertRange (← nat? r) (← nat? p) (.ext (← ints? xs)), 0)
  | ["inss", r, x] => do pure (.insertSorted (← nat? r) (← int? x), 0)
  | ["erase", r, f, l] => do pure (.erase (← nat? r) (← nat? f) (← nat? l), 0)
  | ["eraseto", r, k] | ["erase1", r, k] => do pure (.eraseTo (← nat? r) (← nat? k), 0)
  | ["resize", r, n] => do pure (.resize (← nat? r) (← nat? n), 0)
  | ["reserve", r, n] => do pure (.reserve (← nat? r) (← nat? n), 0)
  | ["clear", r] => do pure (.clear (← nat? r), 0)
  | ["inval", r] => do pure (.invalidate (← nat? r), 0)
  | ["cctor", d, s] => do pure (.copyCtor (← nat? d) (← nat? s), 0)
  | ["mctor", d, s] => do pure (.moveCtor (← nat? d) (← nat? s), 0)
  | ["cas", d, s] => do pure (.copyAssign (← nat? d) (← nat? s), 0)
  | ["mas", d, s] => do pure (.moveAssign (← nat? d) (← nat? s), 0)
  | ["rctor", d, s, f, l] => do pure (.rangeCtor (← nat? d) (← nat? s) (← nat? f) (← nat? l), 0)
  | ["szctor", d, n] => do pure (.sizeCtor (← nat? d) (← nat? n), 0)
  | "tctor" :: d :: xs => do pure (.listCtor (← nat? d) (← ints? xs), 0)
  | "ilist" :: d :: xs => do
      let ys ← ints? (xs.take 4)
      pure (.listCtor (← nat? d) ys, ys.length)
  | ["eq", a, b] => do pure (.eq (← nat? a) (← nat? b), 0)
  | ["ne", a, b] => do pure (.ne (← nat? a) (← nat? b), 0)
  | ["lt", a, b] => do pure (.lt (← nat? a) (← nat? b), 0)
  | ["at", r, i] | ["cat", r, i] => do pure (.at (← nat? r) (← nat? i), 0)
  | ["idx", r, i] => do pure (.index (← nat? r) (← nat? i), 0)
  | ["fb", r] => do pure (.frontBack (← nat? r), 0)
  | ["iter", r] | ["riter", r] => do pure (.iter (← nat? r), 0)
  | _ => none

def insertByKey (x : Int × Int) : List (Int × Int) → List (Int × Int)
  | [] => [x]
  | y :: r => if x.1 < y.1 then x :: y :: r else y :: insertByKey x r

def flatDump (m : FMap) (s : FSet) : String :=
  let sorted := m.st.foldl (fun acc x => insertByKey x acc) []
  let ms := sorted.map fun (k, v) => s!"{k}>{v}"
  let ss := s.st.map fun k => toString k
  s!" m={m.st.length}:" ++ (if ms.isEmpty then "-" else ",".intercalate ms) ++
  s!" s={s.st.length}:" ++ (if ss.isEmpty then "-" else ",".intercalate ss)

def pairs : List Int → List (Int × Int)
  | a :: b :: r => (a, b) :: pairs r
  | _ => []

def showMRet : MRet → String
  | .unit => "-"
  | .val v => toString v
  | .kv k v => s!"{k}>{v}"
  | .flag b w => s!"{if b then 1 else 0},{w}"
  | .opt (some v) => toString v
  | .opt none => "end"
  | .nat n => toString n
  | .throw => "throw"
  | .entries l => if l.isEmpty then "-" else ",".intercalate (l.map fun (k, v) => s!"{k}>{v}")

def showSRet : SRet → String
  | .unit => "-"
  | .nat n => toString n
  | .keys l => if l.isEmpty then "-" else ",".intercalate (l.map toString)

/-- the flat_map operation language of the model (`MOp`, what `flat_map_refines` quantifies over) -/
def parseMOp : List String → Option MOp
  | ["mset", k, v] => do pure (.assign (← int? k) (← int? v))
  | ["mget", k] => do pure (.index (← int? k))
  | ["mins", k, v] => do pure (.insert (← int? k) (← int? v))
  | ["mempl", k, v] => do pure (.emplace (← int? k) (← int? v))
  | ["mfind", k] => do pure (.find (← int? k))
  | ["mcount", k] => do pure (.count (← int? k))
  | ["mat", k] => do pure (.at (← int? k))
  | ["msize"] => some .size
  | ["miter"] => some .iter
  | ["mcget", k] => do pure (.cindex (← int? k))
  | ["mclear"] => some .clear
  | "minit" :: xs => do let l ← ints? xs; pure (.init ((pairs l).take 4))
  | _ => none

/-- the flat_set operation language (`SOp`, what `flat_set_refines` quantifies over) -/
def parseSOp : List String → Option SOp
  | ["sins", k] => do pure (.insert (← int? k))
  | ["scount", k] => do pure (.count (← int? k))
  | ["ssize"] => some .size
  | ["sclear"] => some .clear
  | ["siter"] => some .iter
  | _ => none

/-- the comparators the harness instantiates (`Compare` of flat_map / flat_set, handed to the model as `lt`) -/
def cmpOf : String → Option ((Int → Int → Bool) × (Int → Int → Bool))
  | "less" => some (ltInt, ltInt)                                   -- std::less<int>
  | "greater" => some (fun a b => decide (b < a), fun a b => decide (b < a))   -- std::greater<int>
  | "lastdigit" =>                                                   -- a % 10 < b % 10 (C++ truncating %)
    some (fun a b => decide (a.tmod 10 < b.tmod 10), fun a b => decide (a.tmod 10 < b.tmod 10))
  | "sgreater" =>                                                    -- std::greater<std::string> on std::to_string
    some (fun a b => decide (toString b < toString a), fun a b => decide (toString b < toString a))
  -- a stateful comparator type `Dir`: the set is built from the object Dir(true) (descending), the map has no
  -- such constructor and uses the default-constructed Dir (ascending)
  | "dirdesc" => some (ltInt, fun a b => decide (b < a))
  | _ => none

/-- the pair code the driver uses for the map over the slot vector (injective on the harness' ranges:
    mapped values 0..99; the theorems hold for every coding with `dec ∘ enc = id`) -/
def drvCoding : Coding := ⟨fun p => p.1 * 1000 + p.2, fun x => (x / 1000, x % 1000)⟩

/-- run the operation on flat_map / flat_set over the slot-model vector as well; the answer must be the one of
    the list model and the contents of the vector must be the list (what `vmap_step_simulates` /
    `vset_step_simulates` prove); anything else is reported in the result line -/
def composedCheck (ltM ltS : Int → Int → Bool) (m' : FMap) (s' : FSet) (ws : List String)
    (vm : Option (VMap × Ledger)) (vs : Option (VSet × Ledger)) (rm : Option MRet) (rs : Option SRet) :
    Option (VMap × Ledger) × Option (VSet × Ledger) × String :=
  match parseMOp ws, parseSOp ws with
  | some op, _ =>
    match vm with
    | none => (none, vs, " composed-map-faulted")
    | some (v, l) =>
      match VMap.step drvCoding ltM v l op with
      | none => (none, vs, " composed-map-fault")
      | some (v', l', r) =>
        let okc := (contents v'.v) == some (m'.st.map drvCoding.enc)
        (some (v', l'), vs, if some r == rm && okc && l'.made - l'.dtor == m'.st.length then "" else " composed-map-mismatch")
  | none, some op =>
    match vs with
    | none => (vm, none, " composed-set-faulted")
    | some (v, l) =>
      match VSet.step ltS v l op with
      | none => (vm, none, " composed-set-fault")
      | some (v', l', r) =>
        let okc := (contents v'.v) == some s'.st
        (vm, some (v', l'), if some r == rs && okc && l'.made - l'.dtor == s'.st.length then "" else " composed-set-mismatch")
  | none, none => (vm, vs, "")

def flatStep (ltM ltS : Int → Int → Bool) (m : FMap) (s : FSet) (ws : List String) :
    Option (FMap × FSet × String × Option MRet × Option SRet) :=
  match parseMOp ws with
  | some op => let (m', r) := m.step ltM op; some (m', s, showMRet r, some r, none)
  | none =>
    match parseSOp ws with
    | some op => let (s', r) := s.step ltS op; some (m, s', showSRet r, none, some r)
    | none =>
      -- copy construction / copy assignment / move of the whole map (defaulted members): the map is unchanged
      if ws = ["mcopy"] then some (m, s, "10", none, none)
      -- operator== / != against a map rebuilt through operator[] in reverse order
      -- the remaining interface of flat_map / flat_set / flat_map_view / ctrdtr.h (correspondence only):
      -- forward | reverse iteration | consistency flag
      else if ws = ["mmisc"] then
        let sh := fun (l : List (Int × Int)) => if l.isEmpty then "-" else ",".intercalate (l.map fun (k, v) => s!"{k}>{v}")
        some (m, s, sh m.st ++ "|" ++ sh m.st.reverse ++ "|1", none, none)
      else if ws = ["smisc"] then some (m, s, s!"{s.st.length},{s.st.length}", none, none)
      else if ws.head? = some "ctrdtr" then
        match ws with
        | [_, x] => some (m, s, s!"{x},{x},{x},1", none, none)
        | _ => none
      else if ws.head? = some "mview" then
        match ws with
        | [_, x] =>
          -- flat_map_view over {1>0, 4>10, 7>20, 10>30}: linear find with KeyEqual
          let arr : List (Int × Int) := [(1, 0), (4, 10), (7, 20), (10, 30)]
          match x.toInt? with
          | none => none
          | some k =>
            let i := arr.findIdx (fun p => p.1 == k)
            some (m, s, (match arr[i]? with | some p => s!"{i}>{p.2}" | none => "end") ++ ",4,4", none, none)
        | _ => none
      else if ws = ["meq"] then
        let c := m.rebuiltRev ltM
        some (m, s, (if c.eqStorage m then "1" else "0") ++ (if c.eqStorage m then "0" else "1"), none, none)
      else none

def stepLine (st : Mode) (line : String) : Mode × String :=
  match words line with
  | ["reset", "flat", _] => (.flat ltInt ltInt {} {} (some ({}, {})) (some ({}, {})), "ok")
  | ["reset", "flat", _, c] =>
    match cmpOf c with
    | some (ltM, ltS) => (.flat ltM ltS {} {} (some ({}, {})) (some ({}, {})), "ok")
    | none => (.idle, "bad-op")
  | ["reset", "eqx", ty, var] =>
    if (relOf ty).isSome ∧ (var = "v" ∨ var = "p") then (.eqx ty, "ok") else (.idle, "bad-op")
  | ["reset", ty, var] =>
    if (ty = "int" ∨ ty = "trk") ∧ (var = "v" ∨ var = "p") then
      (.vec (var = "p") (ty = "trk") St.init, "ok")
    else (.idle, "bad-op")
  | ["premain"] => (st, "4:0,99,9,12 eq=1 cget=0,10 it=1>10;2>20; set=102")
  | ["long", _, n] =>
    -- closed form of the std::vector meaning of the long history (the slot model is not run on 80 000 elements):
    -- values 7 i + 1, one insert of -5 at n/2, erase [10, n/4), 500 value-initialised elements appended
    match n.toNat? with
    | none => (st, "bad-op")
    | some n =>
      let full : Int := (List.range n).foldl (fun (a : Int) (i : Nat) => a + (7 * (i : Int) + 1)) 0
      let cut : Int := ((List.range (n / 4)).drop 10).foldl (fun (a : Int) (i : Nat) => a + (7 * (i : Int) + 1)) 0
      (st, s!"{n + 1 - (n / 4 - 10) + 500} {full - 5 - cut} 1")
  | ws =>
    match st with
    | .idle => (st, "bad-op")
    | .faulted => (st, "fault")
    | .eqx ty =>
      match ws with
      | "cmpx" :: rest => (st, cmpx ty rest)
      | _ => (st, "bad-op")
    | .flat ltM ltS m s vm vs =>
      -- round 3b: `afail <k> <op …>` = the operation with an allocation of the storage vector refused first (no
      -- effect), then run again: the compared line is the one of the operation
      let ws := match ws with
        | "afail" :: _ :: rest => rest
        | _ => ws
      match flatStep ltM ltS m s ws with
      | some (m, s, r, rm, rs) =>
        let (vm, vs, note) := composedCheck ltM ltS m s ws vm vs rm rs
        (.flat ltM ltS m s vm vs, r ++ flatDump m s ++ note)
      | none => (st, "bad-op")
    | .vec p t s =>
      if ws = ["end"] then
        match destroyAll s 3 with
        | none => (.faulted, "fault")
        | some s' =>
          let l := s'.led
          -- round 3: the balance, not the totals (they depend on the growth policy)
          let bal := l.made == l.dtor && l.alloc == l.dealloc
          (.vec p t St.init, s!"end bal={if bal then "ok" else "BAD"}")
      else if ws = ["widths", "0"] then
        -- the counters of the model are unbounded naturals; the code's are size_t (8 bytes), the object is
        -- pointer + capacity + size (+ an empty allocator, padded to one more word)
        -- (the std_portable.h copy declares `difference_type = int`)
        -- round 3b: difference_type / size_type / the object size are not fixed by the property: the harness
        -- reports them as tags (diff4|8, idx8, obj4), the compared result is the width of size() / capacity()
        (st, "size=8 cap=8")
      else
        -- `a <k> <op …>` / `al <n> <op …>`: the operation runs with an allocation failure armed (Alloc.lean); after
        -- a failure the state must be the one the strong guarantee demands and the operation is run again unarmed
        let ws0 := ws
        let (af, ws) : Option AF × List String :=
          match ws with
          | "a" :: k :: rest => (k.toNat?.map AF.kth, rest)
          | "al" :: k :: rest => (k.toNat?.map AF.above, rest)
          | "alx" :: k :: rest => (k.toNat?.map AF.above, rest)
          | _ => (none, ws)
        let noRetry := ws0.head? == some "alx"
        -- `x <k> <op …>`: the operation runs with the exception fuse k (Exc.lean)
        let (fz, ws) : Option Nat × List String :=
          match ws with
          | "x" :: k :: rest => (k.toNat?, rest)
          | _ => (none, ws)
        match parseOp ws with
        | none => (st, "bad-op")
        | some (op, temps) =>
          let s0 := s
          let (s, afnote, dead) : St × String × Bool :=
            match af with
            | none => (s, "", false)
            | some af =>
              match stepA false p s af op with
              | .fault => (s, "", true)
              | .ok _ => (s, " af=ok", false)
              | .threw (s1, _) => (s1, if afterFailureOk s s1 op then " af=ok" else " af=BAD", false)
          if dead then (.faulted, "fault") else
          if noRetry then
            -- a request no allocator grants: refused, nothing changed, no retry
            (.vec p t s, (if afnote == " af=ok" && (match af with | some af => allocFails s0 af op | none => false)
              then s!"badalloc {showState t s0 s op true}" else "not-refused"))
          else
          match stepX p s fz op with
          | .fault => (.faulted, "fault")
          | .threw (s', _) =>
            (.vec p t s', s!"threw {showState t s s' op true}" ++ afnote)
          | .ok (s', r) =>
            -- the backing array of an initializer list: `temps` constructions and destructions by the caller
            let s' : St := ⟨s'.regs, (s'.led.addCtor temps).addDtor temps⟩
            (.vec p t s', s!"{showRet r} {showState t s s' op false}" ++ afnote)

def main : IO Unit := run Mode.idle stepLine
