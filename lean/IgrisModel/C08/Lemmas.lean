import IgrisModel.C08.Spec
namespace Igris.C08
open Igris.Proto

/-! ## memory basics -/

@[simp] theorem rd_eq (m : Mem) (a : Ptr) : rd m a = m a := rfl

theorem wr_some {m : Mem} {a : Ptr} {v : Byte} (h : (m a).isSome) :
    wr m a v = some (fun j => if j = a then some v else m j) := by
  unfold wr
  cases hm : m a with
  | none => simp [hm] at h
  | some x => rfl

theorem wr_eq_some {m m' : Mem} {a : Ptr} {v : Byte} (h : wr m a v = some m') :
    (m a).isSome ∧ m' = fun j => if j = a then some v else m j := by
  unfold wr at h
  cases hm : m a with
  | none => simp [hm] at h
  | some x => simp [hm] at h; simp [h]

theorem Holds.nil (m : Mem) (a : Ptr) : Holds m a [] := by
  intro i h; simp at h

theorem holds_cons {m : Mem} {a : Ptr} {b : Byte} {l : List Byte} :
    Holds m a (b :: l) ↔ m a = some b ∧ Holds m (a + 1) l := by
  constructor
  · intro h
    refine ⟨by simpa using h 0 (by simp), ?_⟩
    intro i hi
    have := h (i + 1) (by simp; omega)
    simpa [Nat.add_assoc, Nat.add_comm 1 i] using this
  · rintro ⟨h0, h1⟩ i hi
    cases i with
    | zero => simpa using h0
    | succ i =>
      have := h1 i (by simp at hi; omega)
      simpa [Nat.add_assoc, Nat.add_comm 1 i] using this

theorem holds_append {m : Mem} {a : Ptr} {l1 l2 : List Byte} :
    Holds m a (l1 ++ l2) ↔ Holds m a l1 ∧ Holds m (a + l1.length) l2 := by
  induction l1 generalizing a with
  | nil => simp [Holds.nil]
  | cons b l ih =>
    simp only [List.cons_append, holds_cons, ih, List.length_cons]
    have e : a + 1 + l.length = a + (l.length + 1) := by omega
    rw [e]; exact and_assoc.symm

theorem Holds.mapped {m : Mem} {a : Ptr} {l : List Byte} (h : Holds m a l) : Mapped m a l.length := by
  intro i hi; rw [h i hi]; simp [hi]

theorem mapped_succ {m : Mem} {a : Ptr} {n : Nat} :
    Mapped m a (n + 1) ↔ (m a).isSome ∧ Mapped m (a + 1) n := by
  constructor
  · intro h
    refine ⟨by simpa using h 0 (by omega), ?_⟩
    intro i hi
    have := h (i + 1) (by omega)
    simpa [Nat.add_assoc, Nat.add_comm 1 i] using this
  · rintro ⟨h0, h1⟩ i hi
    cases i with
    | zero => simpa using h0
    | succ i =>
      have := h1 i (by omega)
      simpa [Nat.add_assoc, Nat.add_comm 1 i] using this

theorem SameOutside.refl (m : Mem) (a n : Nat) : SameOutside m m a n := fun _ _ => rfl

/-! ## writes -/

def upd (m : Mem) (a : Nat) (v : Byte) : Mem := fun j => if j = a then some v else m j

theorem wr_upd {m : Mem} {a : Nat} {v : Byte} (h : (m a).isSome) : wr m a v = some (upd m a v) := wr_some h

theorem mapped_upd {m : Mem} {a : Nat} {v : Byte} {p n : Nat} (h : Mapped m p n) : Mapped (upd m a v) p n := by
  intro i hi
  unfold upd
  split
  · rfl
  · exact h i hi

theorem memsetLoop_spec (v : Byte) (n : Nat) (m : Mem) (p : Nat) (h : Mapped m p n) :
    ∃ m', memsetLoop v n m p = some m' ∧ Holds m' p (List.replicate n v) ∧ SameOutside m m' p n
      ∧ SameMapping m m' := by
  induction n generalizing m p with
  | zero => exact ⟨m, rfl, Holds.nil _ _, SameOutside.refl _ _ _, fun _ => rfl⟩
  | succ n ih =>
    rw [mapped_succ] at h
    obtain ⟨m', e, hh, ho, hm⟩ := ih (upd m p v) (p + 1) (mapped_upd h.2)
    refine ⟨m', ?_, ?_, ?_, ?_⟩
    · simp [memsetLoop, wr_upd h.1, e]
    · rw [List.replicate_succ, holds_cons]
      refine ⟨?_, hh⟩
      rw [ho p (by omega)]; simp [upd]
    · intro j hj
      rw [ho j (by omega)]
      simp only [upd]
      rw [if_neg (by omega)]
    · intro j
      rw [hm j]; unfold upd; split
      · subst_vars; simp [h.1]
      · rfl


@[simp] theorem upd_same (m : Mem) (a : Nat) (v : Byte) : upd m a v a = some v := by simp [upd]
theorem upd_other (m : Mem) {a j : Nat} (v : Byte) (h : j ≠ a) : upd m a v j = m j := by simp [upd, h]

/-! ## memchr -/

theorem memchrLoop_absent (m : Mem) (d : Byte) (l : List Byte) (s : Nat) (hl : Holds m s l) (hd : d ∉ l) :
    memchrLoop m d l.length s = some none := by
  induction l generalizing s with
  | nil => rfl
  | cons b l ih =>
    rw [holds_cons] at hl
    simp only [List.mem_cons, not_or] at hd
    have hb : ¬ b = d := fun e => hd.1 e.symm
    simp [memchrLoop, hl.1, hb, ih (s + 1) hl.2 hd.2]

theorem memchrLoop_found (m : Mem) (d : Byte) (p : List Byte) (s n : Nat) (hl : Holds m s (p ++ [d]))
    (hd : d ∉ p) (hn : p.length < n) :
    memchrLoop m d n s = some (some (s + p.length)) := by
  induction p generalizing s n with
  | nil =>
    obtain ⟨n, rfl⟩ : ∃ k, n = k + 1 := ⟨n - 1, by simp at hn; omega⟩
    simp only [List.nil_append, holds_cons] at hl
    simp [memchrLoop, hl.1]
  | cons b l ih =>
    obtain ⟨n, rfl⟩ : ∃ k, n = k + 1 := ⟨n - 1, by simp at hn; omega⟩
    simp only [List.cons_append, holds_cons] at hl
    simp only [List.mem_cons, not_or] at hd
    have hb : ¬ b = d := fun e => hd.1 e.symm
    simp only [List.length_cons] at hn ⊢
    simp [memchrLoop, hl.1, hb, ih (s + 1) n hl.2 hd.2 (by omega)]
    omega

/-! ## memrchr -/

theorem memrchrLoop_absent (m : Mem) (d : Byte) (l : List Byte) (s : Nat) (hl : Holds m s l) (k : Nat)
    (hk : k ≤ l.length) (hd : ∀ i, i < k → l[i]? ≠ some d) :
    memrchrLoop m d k (s + k) = some none := by
  induction k with
  | zero => rfl
  | succ k ih =>
    have h1 := hl k (by omega)
    have h2 := hd k (by omega)
    have e : s + (k + 1) - 1 = s + k := by omega
    simp only [memrchrLoop, e, rd_eq, h1]
    cases hx : l[k]? with
    | none => simp at hx; omega
    | some x =>
      have : ¬ x = d := by intro e; subst e; exact h2 hx
      simp [this, ih (by omega) (fun i hi => hd i (by omega))]

theorem memrchrLoop_found (m : Mem) (d : Byte) (l : List Byte) (s : Nat) (hl : Holds m s l) (j k : Nat)
    (hj : l[j]? = some d) (hk : j + 1 + k ≤ l.length) (hd : ∀ i, j < i → i < j + 1 + k → l[i]? ≠ some d) :
    memrchrLoop m d (j + 1 + k) (s + (j + 1 + k)) = some (some (s + j)) := by
  induction k with
  | zero =>
    have h1 := hl j (by omega)
    have e : s + (j + 1 + 0) - 1 = s + j := by omega
    simp [memrchrLoop, e, h1, hj]
  | succ k ih =>
    have h1 := hl (j + 1 + k) (by omega)
    have h2 := hd (j + 1 + k) (by omega) (by omega)
    have e : s + (j + 1 + (k + 1)) - 1 = s + (j + 1 + k) := by omega
    have e' : j + 1 + (k + 1) = (j + 1 + k) + 1 := by omega
    rw [e']
    simp only [memrchrLoop]
    rw [show s + (j + 1 + k + 1) - 1 = s + (j + 1 + k) by omega]
    simp only [rd_eq, h1]
    cases hx : l[j + 1 + k]? with
    | none => simp at hx; omega
    | some x =>
      have : ¬ x = d := by intro e; subst e; exact h2 hx
      simp [this, ih (by omega) (fun i hi hi' => hd i hi (by omega))]

/-! ## memcmp -/

theorem diffAt_eq (m : Mem) (d s : Nat) (x y : Byte) (h1 : m d = some x) (h2 : m s = some y) :
    diffAt m d s = some (ucInt x - ucInt y) := by
  simp [diffAt, h1, h2]

theorem memcmpLoop_same (m : Mem) (l : List Byte) (k d s : Nat) (hk : l.length = k + 1)
    (hd : Holds m d l) (hs : Holds m s l) : memcmpLoop m k d s = some 0 := by
  induction k generalizing l d s with
  | zero =>
    match l, hk with
    | [x], _ =>
      rw [holds_cons] at hd hs
      simp [memcmpLoop, diffAt_eq m d s x x hd.1 hs.1]
  | succ k ih =>
    match l, hk with
    | x :: l, hk =>
      rw [holds_cons] at hd hs
      simp [memcmpLoop, hd.1, hs.1, ih l (d + 1) (s + 1) (by simpa using hk) hd.2 hs.2]

theorem memcmpLoop_diff (m : Mem) (p : List Byte) (x y : Byte) (k d s : Nat) (hk : p.length ≤ k)
    (hd : Holds m d (p ++ [x])) (hs : Holds m s (p ++ [y])) (hxy : x ≠ y) :
    memcmpLoop m k d s = some (ucInt x - ucInt y) := by
  induction p generalizing k d s with
  | nil =>
    simp only [List.nil_append, holds_cons] at hd hs
    cases k with
    | zero => simp [memcmpLoop, diffAt_eq m d s x y hd.1 hs.1]
    | succ k => simp [memcmpLoop, hd.1, hs.1, hxy, diffAt_eq m d s x y hd.1 hs.1]
  | cons b p ih =>
    simp only [List.cons_append, holds_cons] at hd hs
    obtain ⟨k, rfl⟩ : ∃ j, k = j + 1 := ⟨k - 1, by simp at hk; omega⟩
    simp [memcmpLoop, hd.1, hs.1, ih k (d + 1) (s + 1) (by simpa using hk) hd.2 hs.2]


/-! ## loadN / storeL -/

theorem loadN_spec (m : Mem) (c a : Nat) (h : Mapped m a c) :
    ∃ w, loadN m c a = some w ∧ w.length = c ∧ ∀ i, i < c → w[i]? = m (a + i) := by
  induction c generalizing a with
  | zero => exact ⟨[], rfl, rfl, fun i hi => by omega⟩
  | succ c ih =>
    rw [mapped_succ] at h
    obtain ⟨w, e, hl, hw⟩ := ih (a + 1) h.2
    obtain ⟨b, hb⟩ := Option.isSome_iff_exists.mp h.1
    refine ⟨b :: w, by simp [loadN, hb, e], by simp [hl], ?_⟩
    intro i hi
    cases i with
    | zero => simp [hb]
    | succ i =>
      have := hw i (by omega)
      simp only [List.getElem?_cons_succ, this]
      congr 1; omega

theorem storeL_spec (w : List Byte) (m : Mem) (a : Nat) (h : Mapped m a w.length) :
    ∃ m', storeL w m a = some m' ∧ Holds m' a w ∧ SameOutside m m' a w.length ∧ SameMapping m m' := by
  induction w generalizing m a with
  | nil => exact ⟨m, rfl, Holds.nil _ _, SameOutside.refl _ _ _, fun _ => rfl⟩
  | cons b w ih =>
    simp only [List.length_cons] at h
    rw [mapped_succ] at h
    obtain ⟨m', e, hh, ho, hm⟩ := ih (upd m a b) (a + 1) (mapped_upd h.2)
    refine ⟨m', by simp [storeL, wr_upd h.1, e], ?_, ?_, ?_⟩
    · rw [holds_cons]
      refine ⟨?_, hh⟩
      rw [ho a (by omega)]; simp
    · intro j hj
      simp only [List.length_cons] at hj
      rw [ho j (by omega), upd_other _ _ (by omega)]
    · intro j
      rw [hm j]; unfold upd; split
      · subst_vars; simp [h.1]
      · rfl

/-! ## forward copy: the invariant shared by the byte loop and the word loops -/

/-- the first `k` bytes have been copied from `s` to `d`; nothing else changed -/
def CopiedFwd (m0 m : Mem) (d s k : Nat) : Prop :=
  (∀ i, i < k → m (d + i) = m0 (s + i)) ∧ (∀ j, ¬(d ≤ j ∧ j < d + k) → m j = m0 j)

theorem CopiedFwd.zero (m0 : Mem) (d s : Nat) : CopiedFwd m0 m0 d s 0 :=
  ⟨fun i hi => by omega, fun _ _ => rfl⟩

/-- copying the next chunk of `c` bytes — all loaded first, then all stored —
keeps the invariant, provided the destination is not above the source inside
the source range (`d ≤ s`) or the ranges are disjoint -/
theorem copyChunk_fwd {m0 m : Mem} {d s n k : Nat} (c : Nat) (hov : d ≤ s ∨ s + n ≤ d)
    (hms : Mapped m0 s n) (hmd : Mapped m0 d n) (inv : CopiedFwd m0 m d s k) (hk : k + c ≤ n) :
    ∃ w m', loadN m c (s + k) = some w ∧ storeL w m (d + k) = some m' ∧ CopiedFwd m0 m' d s (k + c) := by
  have hsrc : ∀ i, i < c → m (s + k + i) = m0 (s + k + i) := by
    intro i hi; apply inv.2; omega
  have hmap : Mapped m (s + k) c := by
    intro i hi; rw [hsrc i hi]
    have := hms (k + i) (by omega); rwa [← Nat.add_assoc] at this
  obtain ⟨w, e, hl, hw⟩ := loadN_spec m c (s + k) hmap
  have hmapd : Mapped m (d + k) w.length := by
    intro i hi; rw [hl] at hi
    rw [inv.2 (d + k + i) (by omega)]
    have := hmd (k + i) (by omega); rwa [← Nat.add_assoc] at this
  obtain ⟨m', e', hh, ho, _⟩ := storeL_spec w m (d + k) hmapd
  refine ⟨w, m', e, e', ?_, ?_⟩
  · intro i hi
    by_cases hik : i < k
    · rw [ho (d + i) (by omega)]; exact inv.1 i hik
    · have h1 := hh (i - k) (by omega)
      have e1 : d + k + (i - k) = d + i := by omega
      rw [e1] at h1
      rw [h1, hw (i - k) (by omega), hsrc (i - k) (by omega)]
      congr 1; omega
  · intro j hj
    rw [ho j (by omega)]; apply inv.2; omega

theorem copyWord_fwd {m0 m : Mem} {d s n k : Nat} (hov : d ≤ s ∨ s + n ≤ d)
    (hms : Mapped m0 s n) (hmd : Mapped m0 d n) (inv : CopiedFwd m0 m d s k) (hk : k + 8 ≤ n) :
    ∃ m', copyWord m (d + k) (s + k) = some m' ∧ CopiedFwd m0 m' d s (k + 8) := by
  obtain ⟨w, m', e, e', h⟩ := copyChunk_fwd 8 hov hms hmd inv hk
  exact ⟨m', by simp [copyWord, BLOCK_SZ, e, e'], h⟩

theorem copyByte_fwd {m0 m : Mem} {d s n k : Nat} (hov : d ≤ s ∨ s + n ≤ d)
    (hms : Mapped m0 s n) (hmd : Mapped m0 d n) (inv : CopiedFwd m0 m d s k) (hk : k + 1 ≤ n) :
    ∃ b m', m (s + k) = some b ∧ wr m (d + k) b = some m' ∧ CopiedFwd m0 m' d s (k + 1) := by
  obtain ⟨w, m', e, e', h⟩ := copyChunk_fwd 1 hov hms hmd inv hk
  simp only [loadN, rd_eq] at e
  cases hb : m (s + k) with
  | none => simp [hb] at e
  | some b =>
    simp [hb] at e; subst e
    simp only [storeL] at e'
    cases hw : wr m (d + k) b with
    | none => simp [hw] at e'
    | some m1 => simp [hw] at e'; subst e'; exact ⟨b, m1, rfl, hw, h⟩

theorem memcpyBytes_fwd {m0 : Mem} {d s n : Nat} (hov : d ≤ s ∨ s + n ≤ d)
    (hms : Mapped m0 s n) (hmd : Mapped m0 d n) (r : Nat) (m : Mem) (k : Nat)
    (inv : CopiedFwd m0 m d s k) (hk : k + r = n) :
    ∃ m', memcpyBytes r m (d + k) (s + k) = some m' ∧ CopiedFwd m0 m' d s n := by
  induction r generalizing m k with
  | zero => exact ⟨m, rfl, by rw [← hk]; exact inv⟩
  | succ r ih =>
    obtain ⟨b, m1, hb, hw, inv1⟩ := copyByte_fwd hov hms hmd inv (by omega)
    obtain ⟨m', e, h⟩ := ih m1 (k + 1) inv1 (by omega)
    exact ⟨m', by simp [memcpyBytes, hb, hw]; simpa [Nat.add_assoc] using e, h⟩

theorem memcpyLoop4_fwd {m0 : Mem} {d s n : Nat} (hov : d ≤ s ∨ s + n ≤ d)
    (hms : Mapped m0 s n) (hmd : Mapped m0 d n) (fuel : Nat) (m : Mem) (r k : Nat)
    (inv : CopiedFwd m0 m d s k) (hk : k + r = n) (hf : r < fuel) :
    ∃ m' r' k', memcpyLoop4 fuel m r (d + k) (s + k) = some (m', r', d + k', s + k') ∧
      CopiedFwd m0 m' d s k' ∧ k' + r' = n ∧ r' < 32 := by
  induction fuel generalizing m r k with
  | zero => omega
  | succ f ih =>
    by_cases h32 : r ≥ 32
    · obtain ⟨m1, e1, i1⟩ := copyWord_fwd hov hms hmd inv (by omega)
      obtain ⟨m2, e2, i2⟩ := copyWord_fwd hov hms hmd i1 (by omega)
      obtain ⟨m3, e3, i3⟩ := copyWord_fwd hov hms hmd i2 (by omega)
      obtain ⟨m4, e4, i4⟩ := copyWord_fwd hov hms hmd i3 (by omega)
      obtain ⟨m', r', k', e, h⟩ := ih m4 (r - 32) (k + 8 + 8 + 8 + 8) i4 (by omega) (by omega)
      refine ⟨m', r', k', ?_, h⟩
      simp only [Nat.add_assoc] at e1 e2 e3 e4 e
      simp [memcpyLoop4, BLOCK_SZ, h32, e1, e2, e3, e4, Nat.add_assoc, e]
    · exact ⟨m, r, k, by simp [memcpyLoop4, BLOCK_SZ, h32], inv, hk, by omega⟩

theorem memcpyLoop1_fwd {m0 : Mem} {d s n : Nat} (hov : d ≤ s ∨ s + n ≤ d)
    (hms : Mapped m0 s n) (hmd : Mapped m0 d n) (fuel : Nat) (m : Mem) (r k : Nat)
    (inv : CopiedFwd m0 m d s k) (hk : k + r = n) (hf : r < fuel) :
    ∃ m' r' k', memcpyLoop1 fuel m r (d + k) (s + k) = some (m', r', d + k', s + k') ∧
      CopiedFwd m0 m' d s k' ∧ k' + r' = n ∧ r' < 8 := by
  induction fuel generalizing m r k with
  | zero => omega
  | succ f ih =>
    by_cases h8 : r ≥ 8
    · obtain ⟨m1, e1, i1⟩ := copyWord_fwd hov hms hmd inv (by omega)
      obtain ⟨m', r', k', e, h⟩ := ih m1 (r - 8) (k + 8) i1 (by omega) (by omega)
      refine ⟨m', r', k', ?_, h⟩
      simp [memcpyLoop1, BLOCK_SZ, h8, e1, Nat.add_assoc, e]
    · exact ⟨m, r, k, by simp [memcpyLoop1, BLOCK_SZ, h8], inv, hk, by omega⟩

/-- memcpy copies correctly whenever the destination does not start inside the
source above its beginning: disjoint ranges (ISO C) **and** `d ≤ s` with any
overlap (what memmove relies on) -/
theorem memcpy_fwd (m0 : Mem) (d s n : Nat) (hov : d ≤ s ∨ s + n ≤ d)
    (hms : Mapped m0 s n) (hmd : Mapped m0 d n) :
    ∃ m', memcpy m0 d s n = some (m', d) ∧ CopiedFwd m0 m' d s n := by
  unfold memcpy
  split
  · obtain ⟨m1, r1, k1, e1, i1, hk1, _⟩ :=
      memcpyLoop4_fwd hov hms hmd (n + 1) m0 n 0 (CopiedFwd.zero m0 d s) (by omega) (by omega)
    obtain ⟨m2, r2, k2, e2, i2, hk2, _⟩ :=
      memcpyLoop1_fwd hov hms hmd (r1 + 1) m1 r1 k1 i1 hk1 (by omega)
    obtain ⟨m3, e3, i3⟩ := memcpyBytes_fwd hov hms hmd r2 m2 k2 i2 hk2
    simp only [Nat.add_zero] at e1
    exact ⟨m3, by simp [e1, e2, e3], i3⟩
  · obtain ⟨m3, e3, i3⟩ := memcpyBytes_fwd hov hms hmd n m0 0 (CopiedFwd.zero m0 d s) (by omega)
    simp only [Nat.add_zero] at e3
    exact ⟨m3, by simp [e3], i3⟩


/-! ## backward copy (memmove) -/

/-- the last `k` of `n` bytes have been copied; nothing else changed -/
def CopiedBwd (m0 m : Mem) (d s n k : Nat) : Prop :=
  (∀ i, n - k ≤ i → i < n → m (d + i) = m0 (s + i)) ∧
  (∀ j, ¬(d + (n - k) ≤ j ∧ j < d + n) → m j = m0 j)

theorem memmoveBack_spec {m0 : Mem} {d s n : Nat} (hsd : s ≤ d)
    (hms : Mapped m0 s n) (hmd : Mapped m0 d n) (r : Nat) (m : Mem) (k : Nat)
    (inv : CopiedBwd m0 m d s n k) (hk : k + r = n) :
    ∃ m', memmoveBack r m (d + r) (s + r) = some m' ∧ CopiedBwd m0 m' d s n n := by
  induction r generalizing m k with
  | zero =>
    have : k = n := by omega
    subst this; exact ⟨m, rfl, inv⟩
  | succ r ih =>
    have hs : m (s + r) = m0 (s + r) := inv.2 _ (by omega)
    have hd : m (d + r) = m0 (d + r) := inv.2 _ (by omega)
    obtain ⟨b, hb⟩ := Option.isSome_iff_exists.mp (hms r (by omega))
    have hdm : (m (d + r)).isSome := by rw [hd]; exact hmd r (by omega)
    have inv1 : CopiedBwd m0 (upd m (d + r) b) d s n (k + 1) := by
      constructor
      · intro i h1 h2
        by_cases hi : i = r
        · subst hi; simp [hb]
        · rw [upd_other _ _ (by omega)]; exact inv.1 i (by omega) h2
      · intro j hj
        rw [upd_other _ _ (by omega)]; exact inv.2 j (by omega)
    obtain ⟨m', e, h⟩ := ih (upd m (d + r) b) (k + 1) inv1 (by omega)
    refine ⟨m', ?_, h⟩
    have e1 : s + (r + 1) - 1 = s + r := by omega
    have e2 : d + (r + 1) - 1 = d + r := by omega
    simp [memmoveBack, e1, e2, hs, hb, wr_upd hdm, e]

theorem CopiedBwd.zero (m0 : Mem) (d s n : Nat) : CopiedBwd m0 m0 d s n 0 :=
  ⟨fun i h1 h2 => by omega, fun _ _ => rfl⟩

/-- what every copy routine must establish: destination = old source, rest untouched -/
def CopyDone (m0 m' : Mem) (d s n : Nat) : Prop :=
  (∀ i, i < n → m' (d + i) = m0 (s + i)) ∧ SameOutside m0 m' d n

theorem CopiedFwd.done {m0 m' : Mem} {d s n : Nat} (h : CopiedFwd m0 m' d s n) : CopyDone m0 m' d s n := h

theorem CopiedBwd.done {m0 m' : Mem} {d s n : Nat} (h : CopiedBwd m0 m' d s n n) : CopyDone m0 m' d s n := by
  refine ⟨fun i hi => h.1 i (by omega) hi, fun j hj => h.2 j (by omega)⟩

theorem CopyDone.holds {m0 m' : Mem} {d s : Nat} {src : List Byte} (h : CopyDone m0 m' d s src.length)
    (hs : Holds m0 s src) : Holds m' d src := by
  intro i hi; rw [h.1 i hi]; exact hs i hi

theorem memmove_done (m0 : Mem) (d s n : Nat) (hms : Mapped m0 s n) (hmd : Mapped m0 d n) :
    ∃ m', memmove m0 d s n = some (m', d) ∧ CopyDone m0 m' d s n := by
  unfold memmove
  split
  · next h =>
    obtain ⟨m', e, hh⟩ := memmoveBack_spec (by omega) hms hmd n m0 0 (CopiedBwd.zero m0 d s n) (by omega)
    exact ⟨m', by simp [e], hh.done⟩
  · next h =>
    obtain ⟨m', e, hh⟩ := memcpy_fwd m0 d s n (by omega) hms hmd
    exact ⟨m', e, hh.done⟩


/-! ## C strings: scanning -/

theorem cstr_nil {m : Mem} {a : Nat} : CStr m a [] ↔ m a = some 0#8 := by
  simp [CStr, holds_cons, Holds.nil]

theorem cstr_cons {m : Mem} {a : Nat} {b : Byte} {l : List Byte} :
    CStr m a (b :: l) ↔ m a = some b ∧ b ≠ 0#8 ∧ CStr m (a + 1) l := by
  simp only [CStr, List.cons_append, holds_cons, List.mem_cons, not_or]
  constructor
  · rintro ⟨⟨h1, h2⟩, h3, h4⟩; exact ⟨h1, fun e => h3 e.symm, h2, h4⟩
  · rintro ⟨h1, h2, h3, h4⟩; exact ⟨⟨h1, h3⟩, fun e => h2 e.symm, h4⟩

theorem scanNul_spec (m : Mem) (l : List Byte) (s fuel : Nat) (h : CStr m s l) (hf : l.length < fuel) :
    scanNul m fuel s = some (s + l.length + 1) := by
  induction l generalizing s fuel with
  | nil =>
    obtain ⟨f, rfl⟩ : ∃ f, fuel = f + 1 := ⟨fuel - 1, by simp at hf; omega⟩
    simp [scanNul, cstr_nil.mp h]
  | cons b l ih =>
    obtain ⟨f, rfl⟩ : ∃ f, fuel = f + 1 := ⟨fuel - 1, by simp at hf; omega⟩
    obtain ⟨h1, h2, h3⟩ := cstr_cons.mp h
    simp only [List.length_cons] at hf
    simp [scanNul, h1, h2, ih (s + 1) f h3 (by omega)]
    omega

theorem strlen_eq (m : Mem) (l : List Byte) (s fuel : Nat) (h : CStr m s l) (hf : l.length < fuel) :
    strlen m s fuel = some l.length := by
  simp [strlen, scanNul_spec m l s fuel h hf]
  omega

theorem strnlenLoop_long (m : Mem) (l : List Byte) (s r len : Nat) (h : Holds m s l) (h0 : 0#8 ∉ l)
    (hr : r ≤ l.length) : strnlenLoop m r len s = some (len + r) := by
  induction l generalizing s r len with
  | nil => simp at hr; subst hr; rfl
  | cons b l ih =>
    cases r with
    | zero => rfl
    | succ r =>
      rw [holds_cons] at h
      simp only [List.mem_cons, not_or] at h0
      have hb : ¬ b = 0#8 := fun e => h0.1 e.symm
      simp [strnlenLoop, h.1, hb, ih (s + 1) r (len + 1) h.2 h0.2 (by simpa using hr)]
      omega

theorem strnlenLoop_cstr (m : Mem) (l : List Byte) (s r len : Nat) (h : CStr m s l) :
    strnlenLoop m r len s = some (len + min l.length r) := by
  induction l generalizing s r len with
  | nil =>
    cases r with
    | zero => rfl
    | succ r => simp [strnlenLoop, cstr_nil.mp h]
  | cons b l ih =>
    cases r with
    | zero => simp [strnlenLoop]
    | succ r =>
      obtain ⟨h1, h2, h3⟩ := cstr_cons.mp h
      simp [strnlenLoop, h1, h2, ih (s + 1) r (len + 1) h3]
      omega

/-! ## strchrnul / strchr / strrchr -/

/-- scanning stops at the first byte that is NUL or `c` -/
theorem strchrnulLoop_spec (m : Mem) (c : Byte) (p : List Byte) (x : Byte) (s fuel : Nat)
    (h : Holds m s (p ++ [x])) (h0 : 0#8 ∉ p) (hc : c ∉ p) (hx : x = 0#8 ∨ x = c)
    (hf : p.length < fuel) : strchrnulLoop m c fuel s = some (s + p.length) := by
  induction p generalizing s fuel with
  | nil =>
    obtain ⟨f, rfl⟩ : ∃ f, fuel = f + 1 := ⟨fuel - 1, by simp at hf; omega⟩
    simp only [List.nil_append, holds_cons] at h
    rcases hx with hx | hx <;> simp [strchrnulLoop, h.1, hx]
  | cons b p ih =>
    obtain ⟨f, rfl⟩ : ∃ f, fuel = f + 1 := ⟨fuel - 1, by simp at hf; omega⟩
    simp only [List.cons_append, holds_cons] at h
    simp only [List.mem_cons, not_or] at h0 hc
    have hb0 : ¬ b = 0#8 := fun e => h0.1 e.symm
    have hbc : ¬ b = c := fun e => hc.1 e.symm
    simp only [List.length_cons] at hf
    simp [strchrnulLoop, h.1, hb0, hbc, ih (s + 1) f h.2 h0.2 hc.2 (by omega)]
    omega

theorem first_split {c : Byte} {l : List Byte} (h : c ∈ l) : ∃ p r, l = p ++ c :: r ∧ c ∉ p := by
  induction l with
  | nil => simp at h
  | cons b l ih =>
    by_cases hb : b = c
    · exact ⟨[], l, by simp [hb], by simp⟩
    · have : c ∈ l := by
        rcases List.mem_cons.mp h with e | e
        · exact absurd e.symm hb
        · exact e
      obtain ⟨p, r, e, hp⟩ := ih this
      exact ⟨b :: p, r, by simp [e], by simp [hp]; exact fun e => hb e.symm⟩

/-- strchr on a C string: the terminator for `c = 0` -/
theorem strchr_nul (m : Mem) (l : List Byte) (s : Nat) (ch : Int) (fuel : Nat) (h : CStr m s l)
    (hc : toChar ch = 0#8) (hf : l.length < fuel) : strchr m s ch fuel = some (some (s + l.length)) := by
  have e := strchrnulLoop_spec m (toChar ch) l 0#8 s fuel h.1 h.2 (by rw [hc]; exact h.2) (Or.inl rfl) hf
  have hx : m (s + l.length) = some 0#8 := by
    have := (holds_append.mp h.1).2; rw [holds_cons] at this; exact this.1
  simp only [strchr, strchrnul, e, bind, Option.bind, rd_eq, hx]
  simp [hc]

theorem strchr_first (m : Mem) (p : List Byte) (s : Nat) (ch : Int) (fuel : Nat)
    (h : Holds m s (p ++ [toChar ch])) (h0 : 0#8 ∉ p) (hp : toChar ch ∉ p)
    (hf : p.length < fuel) : strchr m s ch fuel = some (some (s + p.length)) := by
  have e := strchrnulLoop_spec m (toChar ch) p (toChar ch) s fuel h h0 hp (Or.inr rfl) hf
  have hx : m (s + p.length) = some (toChar ch) := by
    have := (holds_append.mp h).2; rw [holds_cons] at this; exact this.1
  simp only [strchr, strchrnul, e, bind, Option.bind, rd_eq, hx]
  by_cases hz : toChar ch = 0#8 <;> simp [hz]

theorem strchr_none (m : Mem) (l : List Byte) (s : Nat) (ch : Int) (fuel : Nat) (h : CStr m s l)
    (hc : toChar ch ∉ l) (hz : toChar ch ≠ 0#8) (hf : l.length < fuel) :
    strchr m s ch fuel = some none := by
  have e := strchrnulLoop_spec m (toChar ch) l 0#8 s fuel h.1 h.2 hc (Or.inl rfl) hf
  have hx : m (s + l.length) = some 0#8 := by
    have := (holds_append.mp h.1).2; rw [holds_cons] at this; exact this.1
  simp only [strchr, strchrnul, e, bind, Option.bind, rd_eq, hx]
  simp [hz]

theorem cstr_suffix {m : Mem} {s : Nat} {p r : List Byte} (h : CStr m s (p ++ r)) :
    CStr m (s + p.length) r := by
  obtain ⟨h1, h2⟩ := h
  rw [List.append_assoc, holds_append] at h1
  exact ⟨h1.2, fun e => h2 (List.mem_append_right _ e)⟩

theorem cstr_prefix_holds {m : Mem} {s : Nat} {p r : List Byte} (h : CStr m s (p ++ r)) :
    Holds m s p ∧ 0#8 ∉ p := by
  obtain ⟨h1, h2⟩ := h
  rw [List.append_assoc, holds_append] at h1
  exact ⟨h1.1, fun e => h2 (List.mem_append_left _ e)⟩

theorem strrchrLoop_none (m : Mem) (l : List Byte) (s : Nat) (ch : Int) (fuel g : Nat) (found : Option Nat)
    (h : CStr m s l) (hc : toChar ch ∉ l) (hz : toChar ch ≠ 0#8) (hf : l.length < fuel) (hg : 0 < g) :
    strrchrLoop m ch fuel g s found = some found := by
  obtain ⟨g, rfl⟩ : ∃ k, g = k + 1 := ⟨g - 1, by omega⟩
  simp [strrchrLoop, strchr_none m l s ch fuel h hc hz hf]

theorem strrchrLoop_last (m : Mem) (p r : List Byte) (s : Nat) (ch : Int) (fuel g : Nat) (found : Option Nat)
    (h : CStr m s (p ++ toChar ch :: r)) (hr : toChar ch ∉ r) (hz : toChar ch ≠ 0#8)
    (hf : (p ++ toChar ch :: r).length < fuel) (hg : p.length + 1 < g) :
    strrchrLoop m ch fuel g s found = some (some (s + p.length)) := by
  induction hn : p.length using Nat.strongRecOn generalizing p s g found with
  | _ n ih =>
    obtain ⟨g, rfl⟩ : ∃ k, g = k + 1 := ⟨g - 1, by omega⟩
    by_cases hp : toChar ch ∈ p
    · obtain ⟨p1, p2, e, hp1⟩ := first_split hp
      subst e
      have hs1 : Holds m s (p1 ++ [toChar ch]) ∧ 0#8 ∉ p1 ++ [toChar ch] := by
        have : (p1 ++ toChar ch :: p2) ++ toChar ch :: r = (p1 ++ [toChar ch]) ++ (p2 ++ toChar ch :: r) := by simp
        rw [this] at h; exact cstr_prefix_holds h
      have e1 := strchr_first m p1 s ch fuel hs1.1 (fun e => hs1.2 (List.mem_append_left _ e)) hp1
        (by simp at hf ⊢; omega)
      have hsuf : CStr m (s + p1.length + 1) (p2 ++ toChar ch :: r) := by
        have : (p1 ++ toChar ch :: p2) ++ toChar ch :: r = (p1 ++ [toChar ch]) ++ (p2 ++ toChar ch :: r) := by simp
        rw [this] at h
        have := cstr_suffix h
        simpa [Nat.add_assoc] using this
      have := ih p2.length (by subst hn; simp; omega) p2 (s + p1.length + 1) g (some (s + p1.length)) hsuf
        (by simp at hf ⊢; omega) (by subst hn; simp at hg; omega) rfl
      simp only [strrchrLoop, e1]
      simp only [bind, Option.bind]
      rw [this]
      simp only [List.length_append, List.length_cons] at hn
      simp only [Option.some.injEq]; omega
    · have hs1 : Holds m s (p ++ [toChar ch]) ∧ 0#8 ∉ p ++ [toChar ch] := by
        have : p ++ toChar ch :: r = (p ++ [toChar ch]) ++ r := by simp
        rw [this] at h; exact cstr_prefix_holds h
      have e1 := strchr_first m p s ch fuel hs1.1 (fun e => hs1.2 (List.mem_append_left _ e)) hp
        (by simp at hf ⊢; omega)
      have hsuf : CStr m (s + p.length + 1) r := by
        have : p ++ toChar ch :: r = (p ++ [toChar ch]) ++ r := by simp
        rw [this] at h
        have := cstr_suffix h
        simpa [Nat.add_assoc] using this
      have := strrchrLoop_none m r (s + p.length + 1) ch fuel g (some (s + p.length)) hsuf hr hz
        (by simp at hf ⊢; omega) (by omega)
      simp only [strrchrLoop, e1]
      simp only [bind, Option.bind]
      rw [this, hn]


/-! ## frame lemmas: a write outside a region does not disturb it -/

theorem holds_upd_outside {m : Mem} {a x : Nat} {l : List Byte} (v : Byte) (h : Holds m a l)
    (hx : x < a ∨ a + l.length ≤ x) : Holds (upd m x v) a l := by
  intro i hi; rw [upd_other _ _ (by omega)]; exact h i hi

theorem cstr_upd_outside {m : Mem} {a x : Nat} {l : List Byte} (v : Byte) (h : CStr m a l)
    (hx : x < a ∨ a + l.length + 1 ≤ x) : CStr (upd m x v) a l :=
  ⟨holds_upd_outside v h.1 (by simp; omega), h.2⟩

theorem holds_of_sameOutside {m m' : Mem} {a d n : Nat} {l : List Byte} (h : Holds m a l)
    (ho : SameOutside m m' d n) (hd : a + l.length ≤ d ∨ d + n ≤ a) : Holds m' a l := by
  intro i hi; rw [ho (a + i) (by omega)]; exact h i hi

theorem cstr_of_sameOutside {m m' : Mem} {a d n : Nat} {l : List Byte} (h : CStr m a l)
    (ho : SameOutside m m' d n) (hd : a + l.length + 1 ≤ d ∨ d + n ≤ a) : CStr m' a l :=
  ⟨holds_of_sameOutside h.1 ho (by simp; omega), h.2⟩

theorem sameOutside_upd_cons {m m' : Mem} {d n : Nat} {v : Byte} (ho : SameOutside (upd m d v) m' (d + 1) n) :
    SameOutside m m' d (n + 1) := by
  intro j hj; rw [ho j (by omega), upd_other _ _ (by omega)]

theorem holds_cons_of_upd {m m' : Mem} {d n : Nat} {v : Byte} {l : List Byte}
    (ho : SameOutside (upd m d v) m' (d + 1) n) (hh : Holds m' (d + 1) l) : Holds m' d (v :: l) := by
  rw [holds_cons]; refine ⟨?_, hh⟩; rw [ho d (by omega)]; simp

/-! ## strcpy -/

theorem strcpyLoop_spec (l : List Byte) (m : Mem) (d s fuel : Nat) (hs : CStr m s l)
    (hd : Mapped m d (l.length + 1)) (hdis : Disjoint d (l.length + 1) s (l.length + 1))
    (hf : l.length < fuel) :
    ∃ m', strcpyLoop fuel m d s = some m' ∧ Holds m' d (l ++ [0#8]) ∧ SameOutside m m' d (l.length + 1) := by
  induction l generalizing m d s fuel with
  | nil =>
    obtain ⟨f, rfl⟩ : ∃ f, fuel = f + 1 := ⟨fuel - 1, by simp at hf; omega⟩
    have hd0 : (m d).isSome := by simpa using hd 0 (by omega)
    refine ⟨upd m d 0#8, by simp [strcpyLoop, cstr_nil.mp hs, wr_upd hd0], ?_, ?_⟩
    · simp [holds_cons, Holds.nil]
    · intro j hj; simp at hj; exact upd_other _ _ (by omega)
  | cons b l ih =>
    obtain ⟨f, rfl⟩ : ∃ f, fuel = f + 1 := ⟨fuel - 1, by simp at hf; omega⟩
    obtain ⟨h1, h2, h3⟩ := cstr_cons.mp hs
    simp only [List.length_cons] at hd hdis hf
    rw [mapped_succ] at hd
    unfold Disjoint at hdis
    obtain ⟨m', e, hh, ho⟩ := ih (upd m d b) (d + 1) (s + 1) f
      (cstr_upd_outside b h3 (by omega)) (mapped_upd hd.2) (by unfold Disjoint; omega) (by omega)
    refine ⟨m', by simp [strcpyLoop, h1, h2, wr_upd hd.1, e], ?_, sameOutside_upd_cons ho⟩
    simpa using holds_cons_of_upd ho hh

/-! ## strncpy -/

/-- the source has at least `n` characters before any NUL: exactly they are copied -/
theorem strncpyLoop_long (p : List Byte) (m : Mem) (d s : Nat) (hs : Holds m s p) (h0 : 0#8 ∉ p)
    (hd : Mapped m d p.length) (hdis : Disjoint d p.length s p.length) :
    ∃ m', strncpyLoop p.length m d s = some m' ∧ Holds m' d p ∧ SameOutside m m' d p.length := by
  induction p generalizing m d s with
  | nil => exact ⟨m, rfl, Holds.nil _ _, SameOutside.refl _ _ _⟩
  | cons b p ih =>
    rw [holds_cons] at hs
    simp only [List.mem_cons, not_or] at h0
    have hb : ¬ b = 0#8 := fun e => h0.1 e.symm
    simp only [List.length_cons] at hd hdis
    rw [mapped_succ] at hd
    unfold Disjoint at hdis
    obtain ⟨m', e, hh, ho⟩ := ih (upd m d b) (d + 1) (s + 1)
      (holds_upd_outside b hs.2 (by omega)) h0.2 (mapped_upd hd.2) (by unfold Disjoint; omega)
    exact ⟨m', by simp [strncpyLoop, hs.1, hb, wr_upd hd.1, e], holds_cons_of_upd ho hh, sameOutside_upd_cons ho⟩

/-- the source string is shorter than `n`: it is copied and padded with NULs up to `n` -/
theorem strncpyLoop_short (l : List Byte) (m : Mem) (d s n : Nat) (hs : CStr m s l) (hn : l.length < n)
    (hd : Mapped m d n) (hdis : Disjoint d n s (l.length + 1)) :
    ∃ m', strncpyLoop n m d s = some m' ∧ Holds m' d (l ++ List.replicate (n - l.length) 0#8) ∧
      SameOutside m m' d n := by
  induction l generalizing m d s n with
  | nil =>
    obtain ⟨k, rfl⟩ : ∃ k, n = k + 1 := ⟨n - 1, by simp at hn; omega⟩
    rw [mapped_succ] at hd
    obtain ⟨m', e, hh, ho, _⟩ := memsetLoop_spec 0#8 k (upd m d 0#8) (d + 1) (mapped_upd hd.2)
    refine ⟨m', by simp [strncpyLoop, cstr_nil.mp hs, wr_upd hd.1, e], ?_, sameOutside_upd_cons ho⟩
    simpa [List.replicate_succ] using holds_cons_of_upd ho hh
  | cons b l ih =>
    obtain ⟨k, rfl⟩ : ∃ k, n = k + 1 := ⟨n - 1, by simp at hn; omega⟩
    obtain ⟨h1, h2, h3⟩ := cstr_cons.mp hs
    simp only [List.length_cons] at hn hdis
    rw [mapped_succ] at hd
    unfold Disjoint at hdis
    obtain ⟨m', e, hh, ho⟩ := ih (upd m d b) (d + 1) (s + 1) k
      (cstr_upd_outside b h3 (by omega)) (by omega) (mapped_upd hd.2) (by unfold Disjoint; omega)
    refine ⟨m', by simp [strncpyLoop, h1, h2, wr_upd hd.1, e], ?_, sameOutside_upd_cons ho⟩
    have := holds_cons_of_upd ho hh
    simpa using this

/-! ## strlcpy -/

theorem strlcpyLoop_spec (l : List Byte) (m : Mem) (d s n : Nat) (hs : CStr m s l) (hn : 0 < n)
    (hd : Mapped m d (min l.length (n - 1)))
    (hdis : Disjoint d (min l.length (n - 1)) s (l.length + 1)) :
    ∃ m', strlcpyLoop n m d s = some (m', d + min l.length (n - 1), s + min l.length (n - 1)) ∧
      Holds m' d (l.take (n - 1)) ∧ SameOutside m m' d (min l.length (n - 1)) := by
  induction l generalizing m d s n with
  | nil =>
    match n, hn with
    | 1, _ => exact ⟨m, rfl, by simp [Holds.nil], SameOutside.refl _ _ _⟩
    | k + 2, _ => exact ⟨m, by simp [strlcpyLoop, cstr_nil.mp hs], by simp [Holds.nil], SameOutside.refl _ _ _⟩
  | cons b l ih =>
    match n, hn with
    | 1, _ => exact ⟨m, rfl, by simp [Holds.nil], SameOutside.refl _ _ _⟩
    | k + 2, _ =>
      obtain ⟨h1, h2, h3⟩ := cstr_cons.mp hs
      have e1 : min (b :: l).length (k + 2 - 1) = min l.length k + 1 := by simp
      rw [e1] at hd hdis ⊢
      rw [mapped_succ] at hd
      simp only [List.length_cons] at hdis
      unfold Disjoint at hdis
      obtain ⟨m', e, hh, ho⟩ := ih (upd m d b) (d + 1) (s + 1) (k + 1)
        (cstr_upd_outside b h3 (by omega)) (by omega) (by simpa using mapped_upd hd.2)
        (by unfold Disjoint; simp; omega)
      simp only [Nat.add_sub_cancel] at e hh ho
      refine ⟨m', ?_, ?_, sameOutside_upd_cons ho⟩
      · simp [strlcpyLoop, h1, h2, wr_upd hd.1, e]; omega
      · have := holds_cons_of_upd ho hh
        simpa using this


/-! ## strcmp / strncmp / strcasecmp / strncasecmp -/

/-- two characters compare equal in the loop: `f(*s1) == f(*s2)` on `unsigned char` -/
def EqF (f : Int → Int) (a b : Byte) : Prop := f (ucInt a) = f (ucInt b)

/-- pointwise relation between two byte lists of the same length -/
inductive Rel2 (R : Byte → Byte → Prop) : List Byte → List Byte → Prop
  | nil : Rel2 R [] []
  | cons {a b : Byte} {l1 l2 : List Byte} : R a b → Rel2 R l1 l2 → Rel2 R (a :: l1) (b :: l2)

theorem diffAtF_eq (f : Int → Int) (m : Mem) (s1 s2 : Nat) (x y : Byte) (h1 : m s1 = some x) (h2 : m s2 = some y) :
    diffAtF f m s1 s2 = some (f (ucInt x) - f (ucInt y)) := by
  simp [diffAtF, h1, h2]

theorem strcmpLoop_spec (f : Int → Int) (m : Mem) (p1 p2 : List Byte) (x y : Byte) (s1 s2 fuel : Nat)
    (h1 : Holds m s1 (p1 ++ [x])) (h2 : Holds m s2 (p2 ++ [y])) (hp : Rel2 (EqF f) p1 p2)
    (h0 : 0#8 ∉ p1) (hxy : x = 0#8 ∨ ¬ EqF f x y) (hf : p1.length < fuel) :
    strcmpLoop f m fuel s1 s2 = some (f (ucInt x) - f (ucInt y)) := by
  induction hp generalizing s1 s2 fuel with
  | nil =>
    obtain ⟨g, rfl⟩ : ∃ g, fuel = g + 1 := ⟨fuel - 1, by simp at hf; omega⟩
    simp only [List.nil_append, holds_cons] at h1 h2
    have hd := diffAtF_eq f m s1 s2 x y h1.1 h2.1
    rcases hxy with hx | hx
    · simp [strcmpLoop, h1.1, hx]; simpa [hx] using hd
    · unfold EqF at hx
      by_cases hz : x = 0#8
      · simp [strcmpLoop, h1.1, hz]; simpa [hz] using hd
      · simp [strcmpLoop, h1.1, h2.1, hz, hx, hd]
  | @cons a b l1 l2 hab _ ih =>
    obtain ⟨g, rfl⟩ : ∃ g, fuel = g + 1 := ⟨fuel - 1, by simp at hf; omega⟩
    simp only [List.cons_append, holds_cons] at h1 h2
    simp only [List.mem_cons, not_or] at h0
    have ha : ¬ a = 0#8 := fun e => h0.1 e.symm
    unfold EqF at hab
    simp only [List.length_cons] at hf
    simp [strcmpLoop, h1.1, h2.1, ha, hab, ih (s1 + 1) (s2 + 1) g h1.2 h2.2 h0.2 (by omega)]

theorem strncmpLoop_spec (f : Int → Int) (m : Mem) (p1 p2 : List Byte) (x y : Byte) (s1 s2 k : Nat)
    (h1 : Holds m s1 (p1 ++ [x])) (h2 : Holds m s2 (p2 ++ [y])) (hp : Rel2 (EqF f) p1 p2)
    (h0 : 0#8 ∉ p1) (hxy : p1.length = k ∨ x = 0#8 ∨ ¬ EqF f x y) (hk : p1.length ≤ k) :
    strncmpLoop f m k s1 s2 = some (f (ucInt x) - f (ucInt y)) := by
  induction hp generalizing s1 s2 k with
  | nil =>
    simp only [List.nil_append, holds_cons] at h1 h2
    have hd := diffAtF_eq f m s1 s2 x y h1.1 h2.1
    cases k with
    | zero => simpa [strncmpLoop] using hd
    | succ k =>
      rcases hxy with hx | hx | hx
      · simp at hx
      · simp [strncmpLoop, h1.1, hx]; simpa [hx] using hd
      · unfold EqF at hx
        by_cases hz : x = 0#8
        · simp [strncmpLoop, h1.1, hz]; simpa [hz] using hd
        · simp [strncmpLoop, h1.1, h2.1, hz, hx, hd]
  | @cons a b l1 l2 hab _ ih =>
    obtain ⟨k, rfl⟩ : ∃ g, k = g + 1 := ⟨k - 1, by simp at hk; omega⟩
    simp only [List.cons_append, holds_cons] at h1 h2
    simp only [List.mem_cons, not_or] at h0
    have ha : ¬ a = 0#8 := fun e => h0.1 e.symm
    unfold EqF at hab
    simp only [List.length_cons] at hk hxy
    simp [strncmpLoop, h1.1, h2.1, ha, hab,
      ih (s1 + 1) (s2 + 1) k h1.2 h2.2 h0.2
        (by rcases hxy with h | h | h
            · exact Or.inl (by omega)
            · exact Or.inr (Or.inl h)
            · exact Or.inr (Or.inr h)) (by omega)]

theorem forall2_eqF_refl (f : Int → Int) (l : List Byte) : Rel2 (EqF f) l l := by
  induction l with
  | nil => exact .nil
  | cons a l ih => exact .cons rfl ih

theorem ucInt_inj {a b : Byte} (h : ucInt a = ucInt b) : a = b := by
  unfold ucInt at h; exact BitVec.eq_of_toNat_eq (by omega)

theorem eqF_id {a b : Byte} : EqF id a b ↔ a = b :=
  ⟨fun h => ucInt_inj h, fun h => by subst h; rfl⟩

theorem tolowerI_ucInt (a : Byte) : tolowerI (ucInt a) = ucInt (lowerB a) := by
  unfold tolowerI ucInt lowerB
  have := a.isLt
  by_cases h : 65 ≤ a.toNat ∧ a.toNat ≤ 90
  · rw [if_pos (by omega), if_pos h, BitVec.toNat_add]
    simp; omega
  · rw [if_neg (by omega), if_neg h]

theorem eqF_lower {a b : Byte} : EqF tolowerI a b ↔ lowerB a = lowerB b := by
  unfold EqF; rw [tolowerI_ucInt, tolowerI_ucInt]
  exact ⟨ucInt_inj, fun h => by rw [h]⟩

theorem forall2_lower {l1 l2 : List Byte} (h : l1.map lowerB = l2.map lowerB) :
    Rel2 (EqF tolowerI) l1 l2 := by
  induction l1 generalizing l2 with
  | nil => cases l2 with
    | nil => exact .nil
    | cons b l2 => simp at h
  | cons a l1 ih => cases l2 with
    | nil => simp at h
    | cons b l2 =>
      simp only [List.map_cons, List.cons.injEq] at h
      exact .cons (eqF_lower.mpr h.1) (ih h.2)

theorem lowerB_eq_zero {a : Byte} : lowerB a = 0#8 ↔ a = 0#8 := by
  unfold lowerB
  constructor
  · intro h
    by_cases c : 65 ≤ a.toNat ∧ a.toNat ≤ 90
    · rw [if_pos c] at h
      have := congrArg BitVec.toNat h
      rw [BitVec.toNat_add] at this; simp at this; omega
    · rwa [if_neg c] at h
  · intro h; subst h; decide


/-! ## strlwr / strupr -/

theorem scInt_range (b : Byte) (lo hi : Int) (hlo : 0 ≤ lo) (hhi : hi < 128) :
    (lo ≤ scInt b ∧ scInt b ≤ hi) ↔ (lo ≤ (b.toNat : Int) ∧ (b.toNat : Int) ≤ hi) := by
  unfold scInt
  rw [BitVec.toInt_eq_toNat_cond]
  have := b.isLt
  split <;> omega

theorem caseLoop_spec (lo hi : Int) (delta : Byte) (g : Byte → Byte)
    (hg : ∀ b, g b = if lo ≤ scInt b ∧ scInt b ≤ hi then b + delta else b)
    (l : List Byte) (m : Mem) (s fuel : Nat) (h : CStr m s l) (hf : l.length < fuel) :
    ∃ m', caseLoop lo hi delta fuel m s = some m' ∧ Holds m' s (l.map g ++ [0#8]) ∧
      SameOutside m m' s l.length := by
  induction l generalizing m s fuel with
  | nil =>
    obtain ⟨f, rfl⟩ : ∃ f, fuel = f + 1 := ⟨fuel - 1, by simp at hf; omega⟩
    refine ⟨m, by simp [caseLoop, cstr_nil.mp h], ?_, SameOutside.refl _ _ _⟩
    simpa [holds_cons, Holds.nil] using cstr_nil.mp h
  | cons b l ih =>
    obtain ⟨f, rfl⟩ : ∃ f, fuel = f + 1 := ⟨fuel - 1, by simp at hf; omega⟩
    obtain ⟨h1, h2, h3⟩ := cstr_cons.mp h
    simp only [List.length_cons] at hf
    have hmap : (m s).isSome := by simp [h1]
    by_cases hc : lo ≤ scInt b ∧ scInt b ≤ hi
    · obtain ⟨m', e, hh, ho⟩ := ih (upd m s (b + delta)) (s + 1) f (cstr_upd_outside _ h3 (by omega)) (by omega)
      refine ⟨m', by simp [caseLoop, h1, h2, hc, wr_upd hmap, e], ?_, sameOutside_upd_cons ho⟩
      have := holds_cons_of_upd ho hh
      simpa [hg b, hc] using this
    · obtain ⟨m', e, hh, ho⟩ := ih m (s + 1) f h3 (by omega)
      refine ⟨m', by simp [caseLoop, h1, h2, hc, e], ?_, ?_⟩
      · simp only [List.map_cons, List.cons_append, holds_cons]
        refine ⟨?_, hh⟩
        rw [ho s (by omega), h1, hg b, if_neg hc]
      · intro j hj; simp only [List.length_cons] at hj; exact ho j (by omega)

theorem lowerB_eq (b : Byte) : lowerB b = if (65 : Int) ≤ scInt b ∧ scInt b ≤ 90 then b + 32#8 else b := by
  unfold lowerB
  have := scInt_range b 65 90 (by omega) (by omega)
  by_cases h : 65 ≤ b.toNat ∧ b.toNat ≤ 90
  · rw [if_pos h, if_pos (this.mpr (by omega))]
  · rw [if_neg h, if_neg (fun c => h (by have := this.mp c; omega))]

theorem upperB_eq (b : Byte) : upperB b = if (97 : Int) ≤ scInt b ∧ scInt b ≤ 122 then b + (-32#8) else b := by
  unfold upperB
  have := scInt_range b 97 122 (by omega) (by omega)
  by_cases h : 97 ≤ b.toNat ∧ b.toNat ≤ 122
  · rw [if_pos h, if_pos (this.mpr (by omega)), BitVec.sub_eq_add_neg]
  · rw [if_neg h, if_neg (fun c => h (by have := this.mp c; omega))]

/-! ## strcat -/

/-- `do { c = *s2++; *++s1 = c; } while (c);` copies the string at `s2` to `s1 + 1` -/
theorem strcatCopy_spec (l : List Byte) (m : Mem) (s1 s2 fuel : Nat) (hs : CStr m s2 l)
    (hd : Mapped m (s1 + 1) (l.length + 1)) (hdis : Disjoint (s1 + 1) (l.length + 1) s2 (l.length + 1))
    (hf : l.length < fuel) :
    ∃ m', strcatCopy fuel m s1 s2 = some m' ∧ Holds m' (s1 + 1) (l ++ [0#8]) ∧
      SameOutside m m' (s1 + 1) (l.length + 1) := by
  induction l generalizing m s1 s2 fuel with
  | nil =>
    obtain ⟨f, rfl⟩ : ∃ f, fuel = f + 1 := ⟨fuel - 1, by simp at hf; omega⟩
    have hd0 : (m (s1 + 1)).isSome := by simpa using hd 0 (by omega)
    refine ⟨upd m (s1 + 1) 0#8, by simp [strcatCopy, cstr_nil.mp hs, wr_upd hd0], ?_, ?_⟩
    · simp [holds_cons, Holds.nil]
    · intro j hj; simp at hj; exact upd_other _ _ (by omega)
  | cons b l ih =>
    obtain ⟨f, rfl⟩ : ∃ f, fuel = f + 1 := ⟨fuel - 1, by simp at hf; omega⟩
    obtain ⟨h1, h2, h3⟩ := cstr_cons.mp hs
    simp only [List.length_cons] at hd hdis hf
    rw [mapped_succ] at hd
    unfold Disjoint at hdis
    obtain ⟨m', e, hh, ho⟩ := ih (upd m (s1 + 1) b) (s1 + 1) (s2 + 1) f
      (cstr_upd_outside b h3 (by omega)) (mapped_upd hd.2) (by unfold Disjoint; omega) (by omega)
    refine ⟨m', by simp [strcatCopy, h1, h2, wr_upd hd.1, e], ?_, sameOutside_upd_cons ho⟩
    simpa using holds_cons_of_upd ho hh


/-! ## strspn / strcspn / strpbrk -/

theorem spnInner_mem (m : Mem) (c : Byte) (A : List Byte) (a fuel : Nat) (hA : CStr m a A) (hc : c ∈ A)
    (hf : A.length < fuel) : spnInner m c fuel a = some c := by
  induction A generalizing a fuel with
  | nil => simp at hc
  | cons b A ih =>
    obtain ⟨f, rfl⟩ : ∃ f, fuel = f + 1 := ⟨fuel - 1, by simp at hf; omega⟩
    obtain ⟨h1, h2, h3⟩ := cstr_cons.mp hA
    simp only [List.length_cons] at hf
    by_cases hb : c = b
    · subst hb; simp [spnInner, h1, h2]
    · have : c ∈ A := by
        rcases List.mem_cons.mp hc with e | e
        · exact absurd e hb
        · exact e
      simp [spnInner, h1, h2, hb, ih (a + 1) f h3 this (by omega)]

theorem spnInner_not_mem (m : Mem) (c : Byte) (A : List Byte) (a fuel : Nat) (hA : CStr m a A) (hc : c ∉ A)
    (hf : A.length < fuel) : spnInner m c fuel a = some 0#8 := by
  induction A generalizing a fuel with
  | nil =>
    obtain ⟨f, rfl⟩ : ∃ f, fuel = f + 1 := ⟨fuel - 1, by simp at hf; omega⟩
    simp [spnInner, cstr_nil.mp hA]
  | cons b A ih =>
    obtain ⟨f, rfl⟩ : ∃ f, fuel = f + 1 := ⟨fuel - 1, by simp at hf; omega⟩
    obtain ⟨h1, h2, h3⟩ := cstr_cons.mp hA
    simp only [List.length_cons] at hf
    simp only [List.mem_cons, not_or] at hc
    simp [spnInner, h1, h2, hc.1, ih (a + 1) f h3 hc.2 (by omega)]

theorem strspnLoop_spec (m : Mem) (A : List Byte) (accept fuel : Nat) (hA : CStr m accept A)
    (hf : A.length < fuel) (q : List Byte) (x : Byte) (p g count : Nat)
    (h : Holds m p (q ++ [x])) (h0 : 0#8 ∉ q) (hq : ∀ y ∈ q, y ∈ A) (hx : x = 0#8 ∨ x ∉ A)
    (hg : q.length < g) : strspnLoop m accept fuel g p count = some (count + q.length) := by
  induction q generalizing p g count with
  | nil =>
    obtain ⟨g, rfl⟩ : ∃ k, g = k + 1 := ⟨g - 1, by simp at hg; omega⟩
    simp only [List.nil_append, holds_cons] at h
    by_cases hz : x = 0#8
    · simp [strspnLoop, h.1, hz]
    · have hx' : x ∉ A := by rcases hx with e | e; exact absurd e hz; exact e
      simp [strspnLoop, h.1, hz, spnInner_not_mem m x A accept fuel hA hx' hf]
  | cons b q ih =>
    obtain ⟨g, rfl⟩ : ∃ k, g = k + 1 := ⟨g - 1, by simp at hg; omega⟩
    simp only [List.cons_append, holds_cons] at h
    simp only [List.mem_cons, not_or] at h0
    have hb0 : ¬ b = 0#8 := fun e => h0.1 e.symm
    have hbA : b ∈ A := hq b (by simp)
    simp only [List.length_cons] at hg
    simp [strspnLoop, h.1, hb0, spnInner_mem m b A accept fuel hA hbA hf,
      ih (p + 1) g (count + 1) h.2 h0.2 (fun y hy => hq y (by simp [hy])) (by omega)]
    omega

theorem toChar_scInt (b : Byte) : toChar (scInt b) = b := by
  unfold toChar scInt; exact BitVec.ofInt_toInt

/-- strchr as a membership test (what strcspn and strtok_r use it for) -/
theorem strchr_mem (m : Mem) (c : Byte) (R : List Byte) (a fuel : Nat) (hR : CStr m a R) (hc : c ∈ R)
    (hf : R.length < fuel) : ∃ q, strchr m a (scInt c) fuel = some (some q) := by
  obtain ⟨p, r, e, hp⟩ := first_split hc
  subst e
  have hs : Holds m a (p ++ [c]) ∧ 0#8 ∉ p ++ [c] := by
    have : p ++ c :: r = (p ++ [c]) ++ r := by simp
    rw [this] at hR; exact cstr_prefix_holds hR
  refine ⟨a + p.length, ?_⟩
  have := strchr_first m p a (scInt c) fuel (by rw [toChar_scInt]; exact hs.1)
    (fun e => hs.2 (List.mem_append_left _ e)) (by rw [toChar_scInt]; exact hp) (by simp at hf; omega)
  exact this

theorem strchr_not_mem (m : Mem) (c : Byte) (R : List Byte) (a fuel : Nat) (hR : CStr m a R) (hc : c ∉ R)
    (hz : c ≠ 0#8) (hf : R.length < fuel) : strchr m a (scInt c) fuel = some none :=
  strchr_none m R a (scInt c) fuel hR (by rw [toChar_scInt]; exact hc) (by rw [toChar_scInt]; exact hz) hf

theorem strcspnLoop_spec (m : Mem) (R : List Byte) (reject fuel : Nat) (hR : CStr m reject R)
    (hf : R.length < fuel) (q : List Byte) (x : Byte) (s g count : Nat)
    (h : Holds m s (q ++ [x])) (h0 : 0#8 ∉ q) (hq : ∀ y ∈ q, y ∉ R) (hx : x = 0#8 ∨ x ∈ R)
    (hg : q.length < g) : strcspnLoop m reject fuel g s count = some (count + q.length) := by
  induction q generalizing s g count with
  | nil =>
    obtain ⟨g, rfl⟩ : ∃ k, g = k + 1 := ⟨g - 1, by simp at hg; omega⟩
    simp only [List.nil_append, holds_cons] at h
    by_cases hz : x = 0#8
    · simp [strcspnLoop, h.1, hz]
    · have hx' : x ∈ R := by rcases hx with e | e; exact absurd e hz; exact e
      obtain ⟨w, e⟩ := strchr_mem m x R reject fuel hR hx' hf
      simp [strcspnLoop, h.1, hz, e]
  | cons b q ih =>
    obtain ⟨g, rfl⟩ : ∃ k, g = k + 1 := ⟨g - 1, by simp at hg; omega⟩
    simp only [List.cons_append, holds_cons] at h
    simp only [List.mem_cons, not_or] at h0
    have hb0 : b ≠ 0#8 := fun e => h0.1 e.symm
    have hbR : b ∉ R := hq b (by simp)
    simp only [List.length_cons] at hg
    simp [strcspnLoop, h.1, hb0, strchr_not_mem m b R reject fuel hR hbR hb0 hf,
      ih (s + 1) g (count + 1) h.2 h0.2 (fun y hy => hq y (by simp [hy])) (by omega)]
    omega

theorem pbrkInner_mem (m : Mem) (x : Byte) (A : List Byte) (a fuel : Nat) (hA : CStr m a A) (hx : x ∈ A)
    (hf : A.length < fuel) : ∃ c, pbrkInner m x fuel a = some c ∧ m c = some x := by
  induction A generalizing a fuel with
  | nil => simp at hx
  | cons b A ih =>
    obtain ⟨f, rfl⟩ : ∃ f, fuel = f + 1 := ⟨fuel - 1, by simp at hf; omega⟩
    obtain ⟨h1, h2, h3⟩ := cstr_cons.mp hA
    simp only [List.length_cons] at hf
    by_cases hb : x = b
    · subst hb; exact ⟨a, by simp [pbrkInner, h1, h2], h1⟩
    · have : x ∈ A := by
        rcases List.mem_cons.mp hx with e | e
        · exact absurd e hb
        · exact e
      obtain ⟨c, e, hc⟩ := ih (a + 1) f h3 this (by omega)
      exact ⟨c, by simp [pbrkInner, h1, h2, hb, e], hc⟩

theorem pbrkInner_not_mem (m : Mem) (x : Byte) (A : List Byte) (a fuel : Nat) (hA : CStr m a A) (hx : x ∉ A)
    (hf : A.length < fuel) : ∃ c, pbrkInner m x fuel a = some c ∧ m c = some 0#8 := by
  induction A generalizing a fuel with
  | nil =>
    obtain ⟨f, rfl⟩ : ∃ f, fuel = f + 1 := ⟨fuel - 1, by simp at hf; omega⟩
    exact ⟨a, by simp [pbrkInner, cstr_nil.mp hA], cstr_nil.mp hA⟩
  | cons b A ih =>
    obtain ⟨f, rfl⟩ : ∃ f, fuel = f + 1 := ⟨fuel - 1, by simp at hf; omega⟩
    obtain ⟨h1, h2, h3⟩ := cstr_cons.mp hA
    simp only [List.length_cons] at hf
    simp only [List.mem_cons, not_or] at hx
    obtain ⟨c, e, hc⟩ := ih (a + 1) f h3 hx.2 (by omega)
    exact ⟨c, by simp [pbrkInner, h1, h2, hx.1, e], hc⟩

theorem pbrkOuter_spec (m : Mem) (A : List Byte) (s2 fuel : Nat) (hA : CStr m s2 A) (hf : A.length < fuel)
    (q : List Byte) (x : Byte) (s1 g c0 : Nat) (h : Holds m s1 (q ++ [x])) (h0 : 0#8 ∉ q)
    (hq : ∀ y ∈ q, y ∉ A) (hx : x = 0#8 ∨ x ∈ A) (hc0 : m c0 = some 0#8) (hg : q.length < g) :
    ∃ c, pbrkOuter m s2 fuel g s1 c0 = some (s1 + q.length, c) ∧
      m c = some (if x ∈ A then x else 0#8) := by
  induction q generalizing s1 g c0 with
  | nil =>
    obtain ⟨g, rfl⟩ : ∃ k, g = k + 1 := ⟨g - 1, by simp at hg; omega⟩
    simp only [List.nil_append, holds_cons] at h
    by_cases hz : x = 0#8
    · have hxA : x ∉ A := by rw [hz]; exact hA.2
      exact ⟨c0, by simp [pbrkOuter, h.1, hz], by rw [if_neg hxA]; exact hc0⟩
    · have hx' : x ∈ A := by rcases hx with e | e; exact absurd e hz; exact e
      obtain ⟨c, e, hc⟩ := pbrkInner_mem m x A s2 fuel hA hx' hf
      exact ⟨c, by simp [pbrkOuter, h.1, hz, e, hc], by rw [if_pos hx']; exact hc⟩
  | cons b q ih =>
    obtain ⟨g, rfl⟩ : ∃ k, g = k + 1 := ⟨g - 1, by simp at hg; omega⟩
    simp only [List.cons_append, holds_cons] at h
    simp only [List.mem_cons, not_or] at h0
    have hb0 : ¬ b = 0#8 := fun e => h0.1 e.symm
    have hbA : b ∉ A := hq b (by simp)
    simp only [List.length_cons] at hg
    obtain ⟨c1, e1, hc1⟩ := pbrkInner_not_mem m b A s2 fuel hA hbA hf
    obtain ⟨c, e, hc⟩ := ih (s1 + 1) g c1 h.2 h0.2 (fun y hy => hq y (by simp [hy])) hc1 (by omega)
    refine ⟨c, ?_, hc⟩
    simp [pbrkOuter, h.1, hb0, e1, hc1, e]
    omega


/-! ## strtok_r -/

theorem tokSkip_spec (m : Mem) (D : List Byte) (delim fuel : Nat) (hD : CStr m delim D)
    (hf : D.length < fuel) (q : List Byte) (x : Byte) (str g : Nat)
    (h : Holds m str (q ++ [x])) (h0 : 0#8 ∉ q) (hq : ∀ y ∈ q, y ∈ D) (hx : x = 0#8 ∨ x ∉ D)
    (hg : q.length < g) :
    tokSkip m delim fuel g str =
      some (if x = 0#8 then .inl (str + q.length) else .inr (str + q.length + 1)) := by
  induction q generalizing str g with
  | nil =>
    obtain ⟨g, rfl⟩ : ∃ k, g = k + 1 := ⟨g - 1, by simp at hg; omega⟩
    simp only [List.nil_append, holds_cons] at h
    by_cases hz : x = 0#8
    · simp [tokSkip, h.1, hz]
    · have hx' : x ∉ D := by rcases hx with e | e; exact absurd e hz; exact e
      simp [tokSkip, h.1, hz, strchr_not_mem m x D delim fuel hD hx' hz hf]
  | cons b q ih =>
    obtain ⟨g, rfl⟩ : ∃ k, g = k + 1 := ⟨g - 1, by simp at hg; omega⟩
    simp only [List.cons_append, holds_cons] at h
    simp only [List.mem_cons, not_or] at h0
    have hb0 : ¬ b = 0#8 := fun e => h0.1 e.symm
    have hbD : b ∈ D := hq b (by simp)
    obtain ⟨w, e⟩ := strchr_mem m b D delim fuel hD hbD hf
    simp only [List.length_cons] at hg
    have e2 := ih (str + 1) g h.2 h0.2 (fun y hy => hq y (by simp [hy])) (by omega)
    simp [tokSkip, h.1, hb0, e, e2]
    have a1 : str + 1 + q.length = str + (q.length + 1) := by omega
    rw [a1]


/-! ## strstr / strcasestr -/

/-- two plain `char`s compare equal in the inner loop: `f(*h) == f(*n)` -/
def EqS (f : Int → Int) (a b : Byte) : Prop := f (scInt a) = f (scInt b)

theorem strstrInner_spec (f : Int → Int) (hf0 : ∀ a, f (scInt a) = f (scInt 0#8) → a = 0#8) (m : Mem)
    (nd hl : List Byte) (h n fuel : Nat) (hH : CStr m h hl) (hN : CStr m n nd) (hfu : hl.length < fuel) :
    ∃ n' b, strstrInner f m fuel h n = some n' ∧ m n' = some b ∧ (b = 0#8 ↔ MatchAt (EqS f) nd hl) := by
  induction nd generalizing hl h n fuel with
  | nil =>
    obtain ⟨g, rfl⟩ : ∃ k, fuel = k + 1 := ⟨fuel - 1, by omega⟩
    have hn := cstr_nil.mp hN
    refine ⟨n, 0#8, ?_, hn, by simp [MatchAt]⟩
    cases hl with
    | nil => simp [strstrInner, cstr_nil.mp hH]
    | cons a hl =>
      obtain ⟨h1, h2, _⟩ := cstr_cons.mp hH
      have : ¬ f (scInt a) = f (scInt 0#8) := fun e => h2 (hf0 a e)
      simp [strstrInner, h1, h2, hn, this]
  | cons b nd ih =>
    obtain ⟨g, rfl⟩ : ∃ k, fuel = k + 1 := ⟨fuel - 1, by omega⟩
    obtain ⟨n1, n2, n3⟩ := cstr_cons.mp hN
    cases hl with
    | nil =>
      exact ⟨n, b, by simp [strstrInner, cstr_nil.mp hH], n1, by simp [MatchAt, n2]⟩
    | cons a hl =>
      obtain ⟨h1, h2, h3⟩ := cstr_cons.mp hH
      simp only [List.length_cons] at hfu
      by_cases hab : f (scInt a) = f (scInt b)
      · obtain ⟨n', b', e, hb', hiff⟩ := ih hl (h + 1) (n + 1) g h3 n3 (by omega)
        refine ⟨n', b', by simp [strstrInner, h1, h2, n1, hab, e], hb', ?_⟩
        simp only [MatchAt, EqS, hab, true_and]; exact hiff
      · exact ⟨n, b, by simp [strstrInner, h1, h2, n1, hab], n1, by simp [MatchAt, EqS, hab, n2]⟩

theorem matchAt_cons_nil {R : Byte → Byte → Prop} {b : Byte} {nd : List Byte} : ¬ MatchAt R (b :: nd) [] := by
  simp [MatchAt]

theorem strstrOuter_found (f : Int → Int) (hf0 : ∀ a, f (scInt a) = f (scInt 0#8) → a = 0#8) (m : Mem)
    (nd : List Byte) (needle fuel : Nat) (hN : CStr m needle nd) (hne : nd ≠ [])
    (p rest : List Byte) (hs g : Nat) (hH : CStr m hs (p ++ rest)) (hm : MatchAt (EqS f) nd rest)
    (hno : ∀ i, i < p.length → ¬ MatchAt (EqS f) nd ((p ++ rest).drop i))
    (hfu : (p ++ rest).length < fuel) (hg : p.length < g) :
    strstrOuter f m needle fuel g hs = some (some (hs + p.length)) := by
  induction p generalizing hs g with
  | nil =>
    obtain ⟨g, rfl⟩ : ∃ k, g = k + 1 := ⟨g - 1, by simp at hg; omega⟩
    simp only [List.nil_append] at hH hfu
    obtain ⟨n', b, e, hb, hiff⟩ := strstrInner_spec f hf0 m nd rest hs needle fuel hH hN hfu
    have hb0 : b = 0#8 := hiff.mpr hm
    cases rest with
    | nil =>
      cases nd with
      | nil => exact absurd rfl hne
      | cons _ _ => exact absurd hm matchAt_cons_nil
    | cons a rest =>
      obtain ⟨h1, h2, _⟩ := cstr_cons.mp hH
      simp [strstrOuter, h1, h2, e, hb, hb0]
  | cons a p ih =>
    obtain ⟨g, rfl⟩ : ∃ k, g = k + 1 := ⟨g - 1, by simp at hg; omega⟩
    simp only [List.cons_append] at hH hfu
    obtain ⟨h1, h2, h3⟩ := cstr_cons.mp hH
    obtain ⟨n', b, e, hb, hiff⟩ := strstrInner_spec f hf0 m nd (a :: (p ++ rest)) hs needle fuel hH hN hfu
    have hb0 : ¬ b = 0#8 := fun e => (hno 0 (by simp)) (by simpa using hiff.mp e)
    have := ih (hs + 1) g h3 (fun i hi => by simpa using hno (i + 1) (by simp; omega))
      (by simp at hfu ⊢; omega) (by simp at hg; omega)
    simp [strstrOuter, h1, h2, e, hb, hb0, this]
    omega

theorem strstrOuter_none (f : Int → Int) (hf0 : ∀ a, f (scInt a) = f (scInt 0#8) → a = 0#8) (m : Mem)
    (nd : List Byte) (needle fuel : Nat) (hN : CStr m needle nd)
    (hl : List Byte) (hs g : Nat) (hH : CStr m hs hl)
    (hno : ∀ i, i < hl.length → ¬ MatchAt (EqS f) nd (hl.drop i))
    (hfu : hl.length < fuel) (hg : hl.length < g) :
    strstrOuter f m needle fuel g hs = some none := by
  induction hl generalizing hs g with
  | nil =>
    obtain ⟨g, rfl⟩ : ∃ k, g = k + 1 := ⟨g - 1, by simp at hg; omega⟩
    simp [strstrOuter, cstr_nil.mp hH]
  | cons a hl ih =>
    obtain ⟨g, rfl⟩ : ∃ k, g = k + 1 := ⟨g - 1, by simp at hg; omega⟩
    obtain ⟨h1, h2, h3⟩ := cstr_cons.mp hH
    obtain ⟨n', b, e, hb, hiff⟩ := strstrInner_spec f hf0 m nd (a :: hl) hs needle fuel hH hN hfu
    have hb0 : ¬ b = 0#8 := fun e => (hno 0 (by simp)) (by simpa using hiff.mp e)
    have := ih (hs + 1) g h3 (fun i hi => by simpa using hno (i + 1) (by simp; omega))
      (by simp at hfu; omega) (by simp at hg; omega)
    simp [strstrOuter, h1, h2, e, hb, hb0, this]

theorem scInt_inj {a b : Byte} (h : scInt a = scInt b) : a = b := by
  unfold scInt at h; exact BitVec.eq_of_toInt_eq h

theorem hf0_id : ∀ a : Byte, id (scInt a) = id (scInt 0#8) → a = 0#8 := fun _ h => scInt_inj h

theorem tolowerI_scInt : ∀ a : Byte, tolowerI (scInt a) = scInt (lowerB a) := by
  decide +kernel

theorem eqS_lower {a b : Byte} : EqS tolowerI a b ↔ lowerB a = lowerB b := by
  unfold EqS; rw [tolowerI_scInt, tolowerI_scInt]
  exact ⟨scInt_inj, fun h => by rw [h]⟩

theorem eqS_id {a b : Byte} : EqS id a b ↔ a = b := ⟨fun h => scInt_inj h, fun h => by subst h; rfl⟩

theorem hf0_lower : ∀ a : Byte, tolowerI (scInt a) = tolowerI (scInt 0#8) → a = 0#8 := by
  intro a h
  have := eqS_lower.mp h
  rw [show lowerB 0#8 = 0#8 by decide] at this
  exact lowerB_eq_zero.mp this

theorem matchAt_id_iff (nd hay : List Byte) : MatchAt (EqS id) nd hay ↔ nd <+: hay := by
  induction nd generalizing hay with
  | nil => simp [MatchAt]
  | cons b nd ih =>
    cases hay with
    | nil => simp [MatchAt]
    | cons a hay =>
      simp only [MatchAt, eqS_id, ih, List.cons_prefix_cons]
      constructor
      · rintro ⟨h1, h2⟩; exact ⟨h1.symm, h2⟩
      · rintro ⟨h1, h2⟩; exact ⟨h1.symm, h2⟩

theorem matchAt_lower_iff (nd hay : List Byte) :
    MatchAt (EqS tolowerI) nd hay ↔ nd.map lowerB <+: hay.map lowerB := by
  induction nd generalizing hay with
  | nil => simp [MatchAt]
  | cons b nd ih =>
    cases hay with
    | nil => simp [MatchAt]
    | cons a hay =>
      simp only [MatchAt, eqS_lower, ih, List.map_cons, List.cons_prefix_cons]
      constructor
      · rintro ⟨h1, h2⟩; exact ⟨h1.symm, h2⟩
      · rintro ⟨h1, h2⟩; exact ⟨h1.symm, h2⟩


/-! ## strncat: the 4× unrolled loop is the simple loop -/

theorem strncatTail_succ (n : Nat) (m : Mem) (s1 s2 : Nat) (c0 : Byte) :
    strncatTail (n + 1) m s1 s2 c0 =
      (catStep m s1 s2).bind fun r => if r.2 = 0 then some r.1 else strncatTail n r.1 (s1 + 1) (s2 + 1) r.2 := by
  simp only [strncatTail, bind, Option.bind]
  cases catStep m s1 s2 with
  | none => rfl
  | some r => obtain ⟨m', c⟩ := r; rfl

theorem tail_unroll4 (n : Nat) (m : Mem) (s1 s2 : Nat) (c0 : Byte) :
    strncatTail (n + 4) m s1 s2 c0 =
      (cat4Body m s1 s2).bind fun r =>
        match r.2 with
        | none => some r.1
        | some c => strncatTail n r.1 (s1 + 4) (s2 + 4) c := by
  rw [show n + 4 = n + 3 + 1 by omega, strncatTail_succ]
  unfold cat4Body
  simp only [bind, Option.bind, pure]
  cases h1 : catStep m s1 s2 with
  | none => rfl
  | some r1 =>
    obtain ⟨m1, c1⟩ := r1
    simp only
    by_cases z1 : c1 = 0
    · simp [z1]
    · simp only [z1, if_false]
      rw [show n + 3 = n + 2 + 1 by omega, strncatTail_succ]
      simp only [Option.bind]
      cases h2 : catStep m1 (s1 + 1) (s2 + 1) with
      | none => rfl
      | some r2 =>
        obtain ⟨m2, c2⟩ := r2
        simp only
        by_cases z2 : c2 = 0
        · simp [z2]
        · simp only [z2, if_false]
          rw [show n + 2 = n + 1 + 1 by omega, strncatTail_succ]
          simp only [Option.bind]
          rw [show s1 + 1 + 1 = s1 + 2 by omega, show s2 + 1 + 1 = s2 + 2 by omega]
          cases h3 : catStep m2 (s1 + 2) (s2 + 2) with
          | none => rfl
          | some r3 =>
            obtain ⟨m3, c3⟩ := r3
            simp only
            by_cases z3 : c3 = 0
            · simp [z3]
            · simp only [z3, if_false]
              rw [strncatTail_succ]
              simp only [Option.bind]
              rw [show s1 + 2 + 1 = s1 + 3 by omega, show s2 + 2 + 1 = s2 + 3 by omega]
              cases h4 : catStep m3 (s1 + 3) (s2 + 3) with
              | none => rfl
              | some r4 =>
                obtain ⟨m4, c4⟩ := r4
                simp only
                by_cases z4 : c4 = 0
                · simp [z4]
                · simp only [z4, if_false]

theorem strncat4_eq_tail (k r : Nat) (m : Mem) (s1 s2 : Nat) (c0 : Byte) :
    strncatTail (4 * (k + 1) + r) m s1 s2 c0 =
      (strncat4 k m s1 s2).bind fun x =>
        match x.2 with
        | none => some x.1
        | some (s1', s2', c) => strncatTail r x.1 s1' s2' c := by
  induction k generalizing m s1 s2 c0 with
  | zero =>
    rw [show 4 * (0 + 1) + r = r + 4 by omega, tail_unroll4]
    simp only [strncat4, bind, Option.bind, pure]
    cases cat4Body m s1 s2 with
    | none => rfl
    | some x =>
      obtain ⟨m', res⟩ := x
      cases res <;> rfl
  | succ k ih =>
    rw [show 4 * (k + 1 + 1) + r = (4 * (k + 1) + r) + 4 by omega, tail_unroll4]
    simp only [strncat4, bind, Option.bind, pure]
    cases cat4Body m s1 s2 with
    | none => rfl
    | some x =>
      obtain ⟨m', res⟩ := x
      cases res with
      | none => rfl
      | some c => simp only; rw [ih]; rfl

/-! ## the simple loop -/

theorem strncatTail_spec (c : List Byte) (n : Nat) (m : Mem) (s1 s2 : Nat) (c0 : Byte)
    (hs : Holds m s2 c) (h0 : 0#8 ∉ c) (hn : c.length ≤ n)
    (hend : c.length < n → m (s2 + c.length) = some 0#8)
    (hc0 : c0 ≠ 0#8 ∨ m (s1 + 1) = some 0#8)
    (hd : Mapped m (s1 + 1) (c.length + 1)) (hdis : Disjoint (s1 + 1) (c.length + 1) s2 (c.length + 1)) :
    ∃ m', strncatTail n m s1 s2 c0 = some m' ∧ Holds m' (s1 + 1) (c ++ [0#8]) ∧
      SameOutside m m' (s1 + 1) (c.length + 1) := by
  induction c generalizing n m s1 s2 c0 with
  | nil =>
    have hd0 : (m (s1 + 1)).isSome := by simpa using hd 0 (by omega)
    cases n with
    | zero =>
      by_cases hz : c0 = 0#8
      · have hm : m (s1 + 1) = some 0#8 := by rcases hc0 with e | e; exact absurd hz e; exact e
        refine ⟨m, by simp [strncatTail, hz], ?_, SameOutside.refl _ _ _⟩
        simpa [holds_cons, Holds.nil] using hm
      · refine ⟨upd m (s1 + 1) 0#8, by simp [strncatTail, hz, wr_upd hd0], ?_, ?_⟩
        · simp [holds_cons, Holds.nil]
        · intro j hj; simp at hj; exact upd_other _ _ (by omega)
    | succ n =>
      have he := hend (by simp)
      simp only [List.length_nil, Nat.add_zero] at he
      refine ⟨upd m (s1 + 1) 0#8, ?_, ?_, ?_⟩
      · simp [strncatTail_succ, catStep, he, wr_upd hd0]
      · simp [holds_cons, Holds.nil]
      · intro j hj; simp at hj; exact upd_other _ _ (by omega)
  | cons x c ih =>
    obtain ⟨n, rfl⟩ : ∃ k, n = k + 1 := ⟨n - 1, by simp at hn; omega⟩
    rw [holds_cons] at hs
    simp only [List.mem_cons, not_or] at h0
    have hx : ¬ x = 0#8 := fun e => h0.1 e.symm
    simp only [List.length_cons] at hd hdis hn hend
    rw [mapped_succ] at hd
    unfold Disjoint at hdis
    obtain ⟨m', e, hh, ho⟩ := ih n (upd m (s1 + 1) x) (s1 + 1) (s2 + 1) x
      (holds_upd_outside x hs.2 (by omega)) h0.2 (by omega)
      (fun hl => by
        rw [upd_other _ _ (by omega)]
        have := hend (by omega)
        rwa [show s2 + (c.length + 1) = s2 + 1 + c.length by omega] at this)
      (Or.inl hx) (mapped_upd hd.2) (by unfold Disjoint; omega)
    refine ⟨m', ?_, ?_, sameOutside_upd_cons ho⟩
    · simp [strncatTail_succ, catStep, hs.1, wr_upd hd.1, hx, e]
    · simpa using holds_cons_of_upd ho hh

/-! ### round 3: strtok histories -/

/-- `takeWhile` / `dropWhile` split a list; the first part satisfies `p`, the head of the second does not -/
theorem span_spec (p : Byte → Bool) : ∀ l : List Byte,
    l = l.takeWhile p ++ l.dropWhile p ∧ (∀ y ∈ l.takeWhile p, p y = true) ∧
    (∀ x r', l.dropWhile p = x :: r' → p x = false)
  | [] => by simp
  | a :: l => by
    have ih := span_spec p l
    by_cases h : p a = true
    · simp only [List.takeWhile_cons, List.dropWhile_cons, h, if_true]
      refine ⟨by simpa using ih.1, ?_, ih.2.2⟩
      intro y hy
      simp only [List.mem_cons] at hy
      rcases hy with rfl | hy
      · exact h
      · exact ih.2.1 y hy
    · have h' : p a = false := by simpa using h
      simp only [List.takeWhile_cons, List.dropWhile_cons, h']
      simp
      exact h'

theorem DelimsOk.transport {m m' : Mem} {fuel lo hi x : Nat} (ho : SameOutside m m' x 1) (hx : lo ≤ x ∧ x < hi) :
    ∀ {ds : List Nat} {Ds : List (List Byte)}, DelimsOk m fuel lo hi ds Ds → DelimsOk m' fuel lo hi ds Ds
  | [], [], _ => trivial
  | _ :: _, _ :: _, h => ⟨⟨cstr_of_sameOutside h.1.1 ho (by have := h.1.2.2; omega), h.1.2.1, h.1.2.2⟩, DelimsOk.transport ho hx h.2⟩
  | [], _ :: _, h => h.elim
  | _ :: _, [], h => h.elim


/-! ### round 3: first differences (totality theorems) -/

/-- two lists of the same length are equal or have a first differing pair -/
theorem first_diff : ∀ (l1 l2 : List Byte), l1.length = l2.length →
    l1 = l2 ∨ ∃ p x y r1 r2, l1 = p ++ x :: r1 ∧ l2 = p ++ y :: r2 ∧ x ≠ y
  | [], [], _ => Or.inl rfl
  | [], _ :: _, h => by simp at h
  | _ :: _, [], h => by simp at h
  | a :: l1, b :: l2, h => by
    by_cases hab : a = b
    · subst hab
      rcases first_diff l1 l2 (by simpa using h) with e | ⟨p, x, y, r1, r2, e1, e2, hxy⟩
      · exact Or.inl (by rw [e])
      · exact Or.inr ⟨a :: p, x, y, r1, r2, by simp [e1], by simp [e2], hxy⟩
    · exact Or.inr ⟨[], a, b, l1, l2, rfl, rfl, hab⟩

/-- two C strings are equal or differ first at some position; the differing "characters" may be a terminator -/
theorem first_diff_cstr : ∀ (l1 l2 : List Byte), 0#8 ∉ l1 → 0#8 ∉ l2 →
    l1 = l2 ∨ ∃ p x y r1 r2, l1 ++ [0#8] = p ++ x :: r1 ∧ l2 ++ [0#8] = p ++ y :: r2 ∧ x ≠ y ∧ 0#8 ∉ p
  | [], [], _, _ => Or.inl rfl
  | [], b :: l2, _, h2 => Or.inr ⟨[], 0#8, b, [], l2 ++ [0#8], rfl, rfl, fun e => h2 (by simp [e]), by simp⟩
  | a :: l1, [], h1, _ => Or.inr ⟨[], a, 0#8, l1 ++ [0#8], [], rfl, rfl, fun e => h1 (by simp [e]), by simp⟩
  | a :: l1, b :: l2, h1, h2 => by
    by_cases hab : a = b
    · subst hab
      rcases first_diff_cstr l1 l2 (fun e => h1 (by simp [e])) (fun e => h2 (by simp [e])) with e | ⟨p, x, y, r1, r2, e1, e2, hxy, hp⟩
      · exact Or.inl (by rw [e])
      · refine Or.inr ⟨a :: p, x, y, r1, r2, by simp [e1], by simp [e2], hxy, ?_⟩
        intro hm; simp only [List.mem_cons] at hm
        rcases hm with hm | hm
        · exact h1 (by simp [hm])
        · exact hp hm
    · exact Or.inr ⟨[], a, b, l1 ++ [0#8], l2 ++ [0#8], rfl, rfl, hab, by simp⟩


/-- a satisfiable predicate on ℕ has a least witness -/
theorem exists_least (P : Nat → Prop) : ∀ n, P n → ∃ k, P k ∧ ∀ i, i < k → ¬ P i := by
  intro n
  induction n using Nat.strongRecOn with
  | _ n ih =>
    intro hn
    by_cases h : ∃ i, i < n ∧ P i
    · obtain ⟨i, hi, hp⟩ := h; exact ih i hi hp
    · exact ⟨n, hn, fun i hi hp => h ⟨i, hi, hp⟩⟩


/-- the LAST occurrence of a member: `l = p ++ c :: r` with `c ∉ r` -/
theorem last_split {c : Byte} : ∀ {l : List Byte}, c ∈ l → ∃ p r, l = p ++ c :: r ∧ c ∉ r
  | [], h => by simp at h
  | a :: l, h => by
    by_cases hin : c ∈ l
    · obtain ⟨p, r, e, hr⟩ := last_split hin
      exact ⟨a :: p, r, by rw [e]; rfl, hr⟩
    · have : c = a := by
        simp only [List.mem_cons] at h
        rcases h with h | h
        · exact h
        · exact absurd h hin
      subst this
      exact ⟨[], l, rfl, hin⟩


/-- two C strings agree up to case or have a first pair that differs after `lowerB` (a terminator may be one of the two) -/
theorem first_diff_cstr_lower : ∀ (l1 l2 : List Byte), 0#8 ∉ l1 → 0#8 ∉ l2 →
    l1.map lowerB = l2.map lowerB ∨ ∃ p1 p2 x y r1 r2, l1 ++ [0#8] = p1 ++ x :: r1 ∧ l2 ++ [0#8] = p2 ++ y :: r2 ∧
      p1.map lowerB = p2.map lowerB ∧ lowerB x ≠ lowerB y ∧ 0#8 ∉ p1
  | [], [], _, _ => Or.inl rfl
  | [], b :: l2, _, h2 => Or.inr ⟨[], [], 0#8, b, [], l2 ++ [0#8], rfl, rfl, rfl,
      fun e => h2 (by have := (lowerB_eq_zero (a := b)).mp (by rw [← e]; decide); simp [this]), by simp⟩
  | a :: l1, [], h1, _ => Or.inr ⟨[], [], a, 0#8, l1 ++ [0#8], [], rfl, rfl, rfl,
      fun e => h1 (by have := (lowerB_eq_zero (a := a)).mp (by rw [e]; decide); simp [this]), by simp⟩
  | a :: l1, b :: l2, h1, h2 => by
    by_cases hab : lowerB a = lowerB b
    · rcases first_diff_cstr_lower l1 l2 (fun e => h1 (by simp [e])) (fun e => h2 (by simp [e])) with e | ⟨p1, p2, x, y, r1, r2, e1, e2, hp, hxy, h0⟩
      · exact Or.inl (by simp [hab, e])
      · refine Or.inr ⟨a :: p1, b :: p2, x, y, r1, r2, by simp [e1], by simp [e2], by simp [hab, hp], hxy, ?_⟩
        intro hm; simp only [List.mem_cons] at hm
        rcases hm with hm | hm
        · exact h1 (by simp [hm])
        · exact h0 hm
    · exact Or.inr ⟨[], [], a, b, l1 ++ [0#8], l2 ++ [0#8], rfl, rfl, rfl, hab, by simp⟩


end Igris.C08
