import IgrisModel.C08.Model
namespace Igris.C08
open Igris.Proto

end Igris.C08
