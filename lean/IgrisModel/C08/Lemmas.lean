import IgrisModel.C08.Spec
namespace Igris.C08
open Igris.Proto

/-! ## memory basics -/

@[simp] theorem rd_eq (m : Mem) (a : Ptr) : rd m a = m a := rfl

theorem wr_some {m : Mem} {a : Ptr} {v : Byte} (h : (m a).isSome) :
    wr m a v = some (fun j => if j = a then some v else m j) := by
  unfold wr
  cases hm : m a with
  | none => simp [hm] at h
  | some x => rfl

theorem wr_eq_some {m m' : Mem} {a : Ptr} {v : Byte} (h : wr m a v = some m') :
    (m a).isSome ∧ m' = fun j => if j = a then some v else m j := by
  unfold wr at h
  cases hm : m a with
  | none => simp [hm] at h
  | some x => simp [hm] at h; simp [h]

theorem Holds.nil (m : Mem) (a : Ptr) : Holds m a [] := by
  intro i h; simp at h

theorem holds_cons {m : Mem} {a : Ptr} {b : Byte} {l : List Byte} :
    Holds m a (b :: l) ↔ m a = some b ∧ Holds m (a + 1) l := by
  constructor
  · intro h
    refine ⟨by simpa using h 0 (by simp), ?_⟩
    intro i hi
    have := h (i + 1) (by simp; omega)
    simpa [Nat.add_assoc, Nat.add_comm 1 i] using this
  · rintro ⟨h0, h1⟩ i hi
    cases i with
    | zero => simpa using h0
    | succ i =>
      have := h1 i (by simp at hi; omega)
      simpa [Nat.add_assoc, Nat.add_comm 1 i] using this

theorem holds_append {m : Mem} {a : Ptr} {l1 l2 : List Byte} :
    Holds m a (l1 ++ l2) ↔ Holds m a l1 ∧ Holds m (a + l1.length) l2 := by
  induction l1 generalizing a with
  | nil => simp [Holds.nil]
  | cons b l ih =>
    simp only [List.cons_append, holds_cons, ih, List.length_cons]
    have e : a + 1 + l.length = a + (l.length + 1) := by omega
    rw [e]; exact and_assoc.symm

theorem Holds.mapped {m : Mem} {a : Ptr} {l : List Byte} (h : Holds m a l) : Mapped m a l.length := by
  intro i hi; rw [h i hi]; simp [hi]

theorem mapped_succ {m : Mem} {a : Ptr} {n : Nat} :
    Mapped m a (n + 1) ↔ (m a).isSome ∧ Mapped m (a + 1) n := by
  constructor
  · intro h
    refine ⟨by simpa using h 0 (by omega), ?_⟩
    intro i hi
    have := h (i + 1) (by omega)
    simpa [Nat.add_assoc, Nat.add_comm 1 i] using this
  · rintro ⟨h0, h1⟩ i hi
    cases i with
    | zero => simpa using h0
    | succ i =>
      have := h1 i (by omega)
      simpa [Nat.add_assoc, Nat.add_comm 1 i] using this

theorem SameOutside.refl (m : Mem) (a n : Nat) : SameOutside m m a n := fun _ _ => rfl

/-! ## writes -/

def upd (m : Mem) (a : Nat) (v : Byte) : Mem := fun j => if j = a then some v else m j

theorem wr_upd {m : Mem} {a : Nat} {v : Byte} (h : (m a).isSome) : wr m a v = some (upd m a v) := wr_some h

theorem mapped_upd {m : Mem} {a : Nat} {v : Byte} {p n : Nat} (h : Mapped m p n) : Mapped (upd m a v) p n := by
  intro i hi
  unfold upd
  split
  · rfl
  · exact h i hi

theorem memsetLoop_spec (v : Byte) (n : Nat) (m : Mem) (p : Nat) (h : Mapped m p n) :
    ∃ m', memsetLoop v n m p = some m' ∧ Holds m' p (List.replicate n v) ∧ SameOutside m m' p n
      ∧ SameMapping m m' := by
  induction n generalizing m p with
  | zero => exact ⟨m, rfl, Holds.nil _ _, SameOutside.refl _ _ _, fun _ => rfl⟩
  | succ n ih =>
    rw [mapped_succ] at h
    obtain ⟨m', e, hh, ho, hm⟩ := ih (upd m p v) (p + 1) (mapped_upd h.2)
    refine ⟨m', ?_, ?_, ?_, ?_⟩
    · simp [memsetLoop, wr_upd h.1, e]
    · rw [List.replicate_succ, holds_cons]
      refine ⟨?_, hh⟩
      rw [ho p (by omega)]; simp [upd]
    · intro j hj
      rw [ho j (by omega)]
      simp only [upd]
      rw [if_neg (by omega)]
    · intro j
      rw [hm j]; unfold upd; split
      · subst_vars; simp [h.1]
      · rfl


@[simp] theorem upd_same (m : Mem) (a : Nat) (v : Byte) : upd m a v a = some v := by simp [upd]
theorem upd_other (m : Mem) {a j : Nat} (v : Byte) (h : j ≠ a) : upd m a v j = m j := by simp [upd, h]

/-! ## memchr -/

theorem memchrLoop_absent (m : Mem) (d : Byte) (l : List Byte) (s : Nat) (hl : Holds m s l) (hd : d ∉ l) :
    memchrLoop m d l.length s = some none := by
  induction l generalizing s with
  | nil => rfl
  | cons b l ih =>
    rw [holds_cons] at hl
    simp only [List.mem_cons, not_or] at hd
    have hb : ¬ b = d := fun e => hd.1 e.symm
    simp [memchrLoop, hl.1, hb, ih (s + 1) hl.2 hd.2]

theorem memchrLoop_found (m : Mem) (d : Byte) (p : List Byte) (s n : Nat) (hl : Holds m s (p ++ [d]))
    (hd : d ∉ p) (hn : p.length < n) :
    memchrLoop m d n s = some (some (s + p.length)) := by
  induction p generalizing s n with
  | nil =>
    obtain ⟨n, rfl⟩ : ∃ k, n = k + 1 := ⟨n - 1, by simp at hn; omega⟩
    simp only [List.nil_append, holds_cons] at hl
    simp [memchrLoop, hl.1]
  | cons b l ih =>
    obtain ⟨n, rfl⟩ : ∃ k, n = k + 1 := ⟨n - 1, by simp at hn; omega⟩
    simp only [List.cons_append, holds_cons] at hl
    simp only [List.mem_cons, not_or] at hd
    have hb : ¬ b = d := fun e => hd.1 e.symm
    simp only [List.length_cons] at hn ⊢
    simp [memchrLoop, hl.1, hb, ih (s + 1) n hl.2 hd.2 (by omega)]
    omega

/-! ## memrchr -/

theorem memrchrLoop_absent (m : Mem) (d : Byte) (l : List Byte) (s : Nat) (hl : Holds m s l) (k : Nat)
    (hk : k ≤ l.length) (hd : ∀ i, i < k → l[i]? ≠ some d) :
    memrchrLoop m d k (s + k) = some none := by
  induction k with
  | zero => rfl
  | succ k ih =>
    have h1 := hl k (by omega)
    have h2 := hd k (by omega)
    have e : s + (k + 1) - 1 = s + k := by omega
    simp only [memrchrLoop, e, rd_eq, h1]
    cases hx : l[k]? with
    | none => simp [List.getElem?_eq_none_iff] at hx; omega
    | some x =>
      have : ¬ x = d := by intro e; subst e; exact h2 hx
      simp [this, ih (by omega) (fun i hi => hd i (by omega))]

theorem memrchrLoop_found (m : Mem) (d : Byte) (l : List Byte) (s : Nat) (hl : Holds m s l) (j k : Nat)
    (hj : l[j]? = some d) (hk : j + 1 + k ≤ l.length) (hd : ∀ i, j < i → i < j + 1 + k → l[i]? ≠ some d) :
    memrchrLoop m d (j + 1 + k) (s + (j + 1 + k)) = some (some (s + j)) := by
  induction k with
  | zero =>
    have h1 := hl j (by omega)
    have e : s + (j + 1 + 0) - 1 = s + j := by omega
    simp [memrchrLoop, e, h1, hj]
  | succ k ih =>
    have h1 := hl (j + 1 + k) (by omega)
    have h2 := hd (j + 1 + k) (by omega) (by omega)
    have e : s + (j + 1 + (k + 1)) - 1 = s + (j + 1 + k) := by omega
    have e' : j + 1 + (k + 1) = (j + 1 + k) + 1 := by omega
    rw [e']
    simp only [memrchrLoop]
    rw [show s + (j + 1 + k + 1) - 1 = s + (j + 1 + k) by omega]
    simp only [rd_eq, h1]
    cases hx : l[j + 1 + k]? with
    | none => simp [List.getElem?_eq_none_iff] at hx; omega
    | some x =>
      have : ¬ x = d := by intro e; subst e; exact h2 hx
      simp [this, ih (by omega) (fun i hi hi' => hd i hi (by omega))]

/-! ## memcmp -/

theorem diffAt_eq (m : Mem) (d s : Nat) (x y : Byte) (h1 : m d = some x) (h2 : m s = some y) :
    diffAt m d s = some (ucInt x - ucInt y) := by
  simp [diffAt, h1, h2]

theorem memcmpLoop_same (m : Mem) (l : List Byte) (k d s : Nat) (hk : l.length = k + 1)
    (hd : Holds m d l) (hs : Holds m s l) : memcmpLoop m k d s = some 0 := by
  induction k generalizing l d s with
  | zero =>
    match l, hk with
    | [x], _ =>
      rw [holds_cons] at hd hs
      simp [memcmpLoop, diffAt_eq m d s x x hd.1 hs.1]
  | succ k ih =>
    match l, hk with
    | x :: l, hk =>
      rw [holds_cons] at hd hs
      simp [memcmpLoop, hd.1, hs.1, ih l (d + 1) (s + 1) (by simpa using hk) hd.2 hs.2]

theorem memcmpLoop_diff (m : Mem) (p : List Byte) (x y : Byte) (k d s : Nat) (hk : p.length ≤ k)
    (hd : Holds m d (p ++ [x])) (hs : Holds m s (p ++ [y])) (hxy : x ≠ y) :
    memcmpLoop m k d s = some (ucInt x - ucInt y) := by
  induction p generalizing k d s with
  | nil =>
    simp only [List.nil_append, holds_cons] at hd hs
    cases k with
    | zero => simp [memcmpLoop, diffAt_eq m d s x y hd.1 hs.1]
    | succ k => simp [memcmpLoop, hd.1, hs.1, hxy, diffAt_eq m d s x y hd.1 hs.1]
  | cons b p ih =>
    simp only [List.cons_append, holds_cons] at hd hs
    obtain ⟨k, rfl⟩ : ∃ j, k = j + 1 := ⟨k - 1, by simp at hk; omega⟩
    simp [memcmpLoop, hd.1, hs.1, ih k (d + 1) (s + 1) (by simpa using hk) hd.2 hs.2]


/-! ## loadN / storeL -/

theorem loadN_spec (m : Mem) (c a : Nat) (h : Mapped m a c) :
    ∃ w, loadN m c a = some w ∧ w.length = c ∧ ∀ i, i < c → w[i]? = m (a + i) := by
  induction c generalizing a with
  | zero => exact ⟨[], rfl, rfl, fun i hi => by omega⟩
  | succ c ih =>
    rw [mapped_succ] at h
    obtain ⟨w, e, hl, hw⟩ := ih (a + 1) h.2
    obtain ⟨b, hb⟩ := Option.isSome_iff_exists.mp h.1
    refine ⟨b :: w, by simp [loadN, hb, e], by simp [hl], ?_⟩
    intro i hi
    cases i with
    | zero => simp [hb]
    | succ i =>
      have := hw i (by omega)
      simp only [List.getElem?_cons_succ, this]
      congr 1; omega

theorem storeL_spec (w : List Byte) (m : Mem) (a : Nat) (h : Mapped m a w.length) :
    ∃ m', storeL w m a = some m' ∧ Holds m' a w ∧ SameOutside m m' a w.length ∧ SameMapping m m' := by
  induction w generalizing m a with
  | nil => exact ⟨m, rfl, Holds.nil _ _, SameOutside.refl _ _ _, fun _ => rfl⟩
  | cons b w ih =>
    simp only [List.length_cons] at h
    rw [mapped_succ] at h
    obtain ⟨m', e, hh, ho, hm⟩ := ih (upd m a b) (a + 1) (mapped_upd h.2)
    refine ⟨m', by simp [storeL, wr_upd h.1, e], ?_, ?_, ?_⟩
    · rw [holds_cons]
      refine ⟨?_, hh⟩
      rw [ho a (by omega)]; simp
    · intro j hj
      simp only [List.length_cons] at hj
      rw [ho j (by omega), upd_other _ _ (by omega)]
    · intro j
      rw [hm j]; unfold upd; split
      · subst_vars; simp [h.1]
      · rfl

/-! ## forward copy: the invariant shared by the byte loop and the word loops -/

/-- the first `k` bytes have been copied from `s` to `d`; nothing else changed -/
def CopiedFwd (m0 m : Mem) (d s k : Nat) : Prop :=
  (∀ i, i < k → m (d + i) = m0 (s + i)) ∧ (∀ j, ¬(d ≤ j ∧ j < d + k) → m j = m0 j)

theorem CopiedFwd.zero (m0 : Mem) (d s : Nat) : CopiedFwd m0 m0 d s 0 :=
  ⟨fun i hi => by omega, fun _ _ => rfl⟩

/-- copying the next chunk of `c` bytes — all loaded first, then all stored —
keeps the invariant, provided the destination is not above the source inside
the source range (`d ≤ s`) or the ranges are disjoint -/
theorem copyChunk_fwd {m0 m : Mem} {d s n k : Nat} (c : Nat) (hov : d ≤ s ∨ s + n ≤ d)
    (hms : Mapped m0 s n) (hmd : Mapped m0 d n) (inv : CopiedFwd m0 m d s k) (hk : k + c ≤ n) :
    ∃ w m', loadN m c (s + k) = some w ∧ storeL w m (d + k) = some m' ∧ CopiedFwd m0 m' d s (k + c) := by
  have hsrc : ∀ i, i < c → m (s + k + i) = m0 (s + k + i) := by
    intro i hi; apply inv.2; omega
  have hmap : Mapped m (s + k) c := by
    intro i hi; rw [hsrc i hi]
    have := hms (k + i) (by omega); rwa [← Nat.add_assoc] at this
  obtain ⟨w, e, hl, hw⟩ := loadN_spec m c (s + k) hmap
  have hmapd : Mapped m (d + k) w.length := by
    intro i hi; rw [hl] at hi
    rw [inv.2 (d + k + i) (by omega)]
    have := hmd (k + i) (by omega); rwa [← Nat.add_assoc] at this
  obtain ⟨m', e', hh, ho, _⟩ := storeL_spec w m (d + k) hmapd
  refine ⟨w, m', e, e', ?_, ?_⟩
  · intro i hi
    by_cases hik : i < k
    · rw [ho (d + i) (by omega)]; exact inv.1 i hik
    · have h1 := hh (i - k) (by omega)
      have e1 : d + k + (i - k) = d + i := by omega
      rw [e1] at h1
      rw [h1, hw (i - k) (by omega), hsrc (i - k) (by omega)]
      congr 1; omega
  · intro j hj
    rw [ho j (by omega)]; apply inv.2; omega

theorem copyWord_fwd {m0 m : Mem} {d s n k : Nat} (hov : d ≤ s ∨ s + n ≤ d)
    (hms : Mapped m0 s n) (hmd : Mapped m0 d n) (inv : CopiedFwd m0 m d s k) (hk : k + 8 ≤ n) :
    ∃ m', copyWord m (d + k) (s + k) = some m' ∧ CopiedFwd m0 m' d s (k + 8) := by
  obtain ⟨w, m', e, e', h⟩ := copyChunk_fwd 8 hov hms hmd inv hk
  exact ⟨m', by simp [copyWord, BLOCK_SZ, e, e'], h⟩

theorem copyByte_fwd {m0 m : Mem} {d s n k : Nat} (hov : d ≤ s ∨ s + n ≤ d)
    (hms : Mapped m0 s n) (hmd : Mapped m0 d n) (inv : CopiedFwd m0 m d s k) (hk : k + 1 ≤ n) :
    ∃ b m', m (s + k) = some b ∧ wr m (d + k) b = some m' ∧ CopiedFwd m0 m' d s (k + 1) := by
  obtain ⟨w, m', e, e', h⟩ := copyChunk_fwd 1 hov hms hmd inv hk
  simp only [loadN, rd_eq] at e
  cases hb : m (s + k) with
  | none => simp [hb] at e
  | some b =>
    simp [hb] at e; subst e
    simp only [storeL] at e'
    cases hw : wr m (d + k) b with
    | none => simp [hw] at e'
    | some m1 => simp [hw] at e'; subst e'; exact ⟨b, m1, rfl, hw, h⟩

theorem memcpyBytes_fwd {m0 : Mem} {d s n : Nat} (hov : d ≤ s ∨ s + n ≤ d)
    (hms : Mapped m0 s n) (hmd : Mapped m0 d n) (r : Nat) (m : Mem) (k : Nat)
    (inv : CopiedFwd m0 m d s k) (hk : k + r = n) :
    ∃ m', memcpyBytes r m (d + k) (s + k) = some m' ∧ CopiedFwd m0 m' d s n := by
  induction r generalizing m k with
  | zero => exact ⟨m, rfl, by rw [← hk]; exact inv⟩
  | succ r ih =>
    obtain ⟨b, m1, hb, hw, inv1⟩ := copyByte_fwd hov hms hmd inv (by omega)
    obtain ⟨m', e, h⟩ := ih m1 (k + 1) inv1 (by omega)
    exact ⟨m', by simp [memcpyBytes, hb, hw]; simpa [Nat.add_assoc] using e, h⟩

theorem memcpyLoop4_fwd {m0 : Mem} {d s n : Nat} (hov : d ≤ s ∨ s + n ≤ d)
    (hms : Mapped m0 s n) (hmd : Mapped m0 d n) (fuel : Nat) (m : Mem) (r k : Nat)
    (inv : CopiedFwd m0 m d s k) (hk : k + r = n) (hf : r < fuel) :
    ∃ m' r' k', memcpyLoop4 fuel m r (d + k) (s + k) = some (m', r', d + k', s + k') ∧
      CopiedFwd m0 m' d s k' ∧ k' + r' = n ∧ r' < 32 := by
  induction fuel generalizing m r k with
  | zero => omega
  | succ f ih =>
    by_cases h32 : r ≥ 32
    · obtain ⟨m1, e1, i1⟩ := copyWord_fwd hov hms hmd inv (by omega)
      obtain ⟨m2, e2, i2⟩ := copyWord_fwd hov hms hmd i1 (by omega)
      obtain ⟨m3, e3, i3⟩ := copyWord_fwd hov hms hmd i2 (by omega)
      obtain ⟨m4, e4, i4⟩ := copyWord_fwd hov hms hmd i3 (by omega)
      obtain ⟨m', r', k', e, h⟩ := ih m4 (r - 32) (k + 8 + 8 + 8 + 8) i4 (by omega) (by omega)
      refine ⟨m', r', k', ?_, h⟩
      simp only [Nat.add_assoc] at e1 e2 e3 e4 e
      simp [memcpyLoop4, BLOCK_SZ, h32, e1, e2, e3, e4, Nat.add_assoc, e]
    · exact ⟨m, r, k, by simp [memcpyLoop4, BLOCK_SZ, h32], inv, hk, by omega⟩

theorem memcpyLoop1_fwd {m0 : Mem} {d s n : Nat} (hov : d ≤ s ∨ s + n ≤ d)
    (hms : Mapped m0 s n) (hmd : Mapped m0 d n) (fuel : Nat) (m : Mem) (r k : Nat)
    (inv : CopiedFwd m0 m d s k) (hk : k + r = n) (hf : r < fuel) :
    ∃ m' r' k', memcpyLoop1 fuel m r (d + k) (s + k) = some (m', r', d + k', s + k') ∧
      CopiedFwd m0 m' d s k' ∧ k' + r' = n ∧ r' < 8 := by
  induction fuel generalizing m r k with
  | zero => omega
  | succ f ih =>
    by_cases h8 : r ≥ 8
    · obtain ⟨m1, e1, i1⟩ := copyWord_fwd hov hms hmd inv (by omega)
      obtain ⟨m', r', k', e, h⟩ := ih m1 (r - 8) (k + 8) i1 (by omega) (by omega)
      refine ⟨m', r', k', ?_, h⟩
      simp [memcpyLoop1, BLOCK_SZ, h8, e1, Nat.add_assoc, e]
    · exact ⟨m, r, k, by simp [memcpyLoop1, BLOCK_SZ, h8], inv, hk, by omega⟩

/-- memcpy copies correctly whenever the destination does not start inside the
source above its beginning: disjoint ranges (ISO C) **and** `d ≤ s` with any
overlap (what memmove relies on) -/
theorem memcpy_fwd (m0 : Mem) (d s n : Nat) (hov : d ≤ s ∨ s + n ≤ d)
    (hms : Mapped m0 s n) (hmd : Mapped m0 d n) :
    ∃ m', memcpy m0 d s n = some (m', d) ∧ CopiedFwd m0 m' d s n := by
  unfold memcpy
  split
  · obtain ⟨m1, r1, k1, e1, i1, hk1, _⟩ :=
      memcpyLoop4_fwd hov hms hmd (n + 1) m0 n 0 (CopiedFwd.zero m0 d s) (by omega) (by omega)
    obtain ⟨m2, r2, k2, e2, i2, hk2, _⟩ :=
      memcpyLoop1_fwd hov hms hmd (r1 + 1) m1 r1 k1 i1 hk1 (by omega)
    obtain ⟨m3, e3, i3⟩ := memcpyBytes_fwd hov hms hmd r2 m2 k2 i2 hk2
    simp only [Nat.add_zero] at e1
    exact ⟨m3, by simp [e1, e2, e3], i3⟩
  · obtain ⟨m3, e3, i3⟩ := memcpyBytes_fwd hov hms hmd n m0 0 (CopiedFwd.zero m0 d s) (by omega)
    simp only [Nat.add_zero] at e3
    exact ⟨m3, by simp [e3], i3⟩


/-! ## backward copy (memmove) -/

/-- the last `k` of `n` bytes have been copied; nothing else changed -/
def CopiedBwd (m0 m : Mem) (d s n k : Nat) : Prop :=
  (∀ i, n - k ≤ i → i < n → m (d + i) = m0 (s + i)) ∧
  (∀ j, ¬(d + (n - k) ≤ j ∧ j < d + n) → m j = m0 j)

theorem memmoveBack_spec {m0 : Mem} {d s n : Nat} (hsd : s ≤ d)
    (hms : Mapped m0 s n) (hmd : Mapped m0 d n) (r : Nat) (m : Mem) (k : Nat)
    (inv : CopiedBwd m0 m d s n k) (hk : k + r = n) :
    ∃ m', memmoveBack r m (d + r) (s + r) = some m' ∧ CopiedBwd m0 m' d s n n := by
  induction r generalizing m k with
  | zero =>
    have : k = n := by omega
    subst this; exact ⟨m, rfl, inv⟩
  | succ r ih =>
    have hs : m (s + r) = m0 (s + r) := inv.2 _ (by omega)
    have hd : m (d + r) = m0 (d + r) := inv.2 _ (by omega)
    obtain ⟨b, hb⟩ := Option.isSome_iff_exists.mp (hms r (by omega))
    have hdm : (m (d + r)).isSome := by rw [hd]; exact hmd r (by omega)
    have inv1 : CopiedBwd m0 (upd m (d + r) b) d s n (k + 1) := by
      constructor
      · intro i h1 h2
        by_cases hi : i = r
        · subst hi; simp [hb]
        · rw [upd_other _ _ (by omega)]; exact inv.1 i (by omega) h2
      · intro j hj
        rw [upd_other _ _ (by omega)]; exact inv.2 j (by omega)
    obtain ⟨m', e, h⟩ := ih (upd m (d + r) b) (k + 1) inv1 (by omega)
    refine ⟨m', ?_, h⟩
    have e1 : s + (r + 1) - 1 = s + r := by omega
    have e2 : d + (r + 1) - 1 = d + r := by omega
    simp [memmoveBack, e1, e2, hs, hb, wr_upd hdm, e]

theorem CopiedBwd.zero (m0 : Mem) (d s n : Nat) : CopiedBwd m0 m0 d s n 0 :=
  ⟨fun i h1 h2 => by omega, fun _ _ => rfl⟩

/-- what every copy routine must establish: destination = old source, rest untouched -/
def CopyDone (m0 m' : Mem) (d s n : Nat) : Prop :=
  (∀ i, i < n → m' (d + i) = m0 (s + i)) ∧ SameOutside m0 m' d n

theorem CopiedFwd.done {m0 m' : Mem} {d s n : Nat} (h : CopiedFwd m0 m' d s n) : CopyDone m0 m' d s n := h

theorem CopiedBwd.done {m0 m' : Mem} {d s n : Nat} (h : CopiedBwd m0 m' d s n n) : CopyDone m0 m' d s n := by
  refine ⟨fun i hi => h.1 i (by omega) hi, fun j hj => h.2 j (by omega)⟩

theorem CopyDone.holds {m0 m' : Mem} {d s : Nat} {src : List Byte} (h : CopyDone m0 m' d s src.length)
    (hs : Holds m0 s src) : Holds m' d src := by
  intro i hi; rw [h.1 i hi]; exact hs i hi

theorem memmove_done (m0 : Mem) (d s n : Nat) (hms : Mapped m0 s n) (hmd : Mapped m0 d n) :
    ∃ m', memmove m0 d s n = some (m', d) ∧ CopyDone m0 m' d s n := by
  unfold memmove
  split
  · next h =>
    obtain ⟨m', e, hh⟩ := memmoveBack_spec (by omega) hms hmd n m0 0 (CopiedBwd.zero m0 d s n) (by omega)
    exact ⟨m', by simp [e], hh.done⟩
  · next h =>
    obtain ⟨m', e, hh⟩ := memcpy_fwd m0 d s n (by omega) hms hmd
    exact ⟨m', e, hh.done⟩

end Igris.C08
