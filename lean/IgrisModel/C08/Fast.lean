/-
  C08 round 3b - LINEAR-TIME FORM of the memory model, for the long (64 KiB / 300 KiB) inputs of the
  functions that write O(n) bytes.

  `Mem` is a function; every `wr` wraps it in one more closure, so a call that writes n bytes costs O(n^2)
  in the executable model.  `AMem` is an array of cells (cell a = address a, `none` = not mapped), `rdA` /
  `wrA` are O(1) and in place.  The definitions below are the definitions of Model.lean with `rd`/`wr`
  replaced by `rdA`/`wrA` - generated textually from Model.lean, statement for statement - and Props.lean
  proves for each of them that it computes exactly what the literal model computes on the memory the
  array stands for (`absA`): `(fA c args).map abs = f (absA c) args` (theorems `*_linear_form`).  The driver
  runs these on the `L:` ops of the writers; by the theorems that IS a run of the literal model.
  Core Lean only (the driver imports this file).
-/
import IgrisModel.C08.Model
namespace Igris.C08
open Igris.Proto

/-- linear-time memory: cell `a` is address `a`; `none` = not mapped; everything beyond the array is not mapped -/
abbrev AMem := Array (Option Byte)

/-- the memory an array stands for -/
def absA (c : AMem) : Mem := fun a => c.getD a none

@[inline] def rdA (m : AMem) (a : Ptr) : Option Byte := m.getD a none

/-- `*a = v`: faults on an unmapped cell, otherwise O(1), in place when the array is not shared -/
def wrA (m : AMem) (a : Ptr) (v : Byte) : Option AMem :=
  match m.getD a none with
  | some _ => some (m.setIfInBounds a (some v))
  | none => none

/-! ### the writers of Model.lean over `AMem` (generated from Model.lean: same text, `rd`/`wr` -> `rdA`/`wrA`) -/

def memsetLoopA (v : Byte) : Nat → AMem → Ptr → Option AMem
  | 0, m, _ => some m
  | n + 1, m, p => do
      let m ← wrA m p v
      memsetLoopA v n m (p + 1)

def memsetA (m : AMem) (dest : Ptr) (c : Int) (n : Nat) : Option (AMem × Ptr) := do
  let m ← memsetLoopA (toChar c) n m dest
  pure (m, dest)

def loadNA (m : AMem) : Nat → Ptr → Option (List Byte)
  | 0, _ => some []
  | k + 1, a => do
      let b ← rdA m a
      let tl ← loadNA m k (a + 1)
      pure (b :: tl)

def storeLA : List Byte → AMem → Ptr → Option AMem
  | [], m, _ => some m
  | b :: tl, m, a => do
      let m ← wrA m a b
      storeLA tl m (a + 1)

def copyWordA (m : AMem) (d s : Ptr) : Option AMem := do
  let w ← loadNA m BLOCK_SZ s
  storeLA w m d

def memcpyLoop4A : Nat → AMem → Nat → Ptr → Ptr → Option (AMem × Nat × Ptr × Ptr)
  | 0, _, _, _, _ => none
  | f + 1, m, n, d, s =>
      if n ≥ BLOCK_SZ * 4 then do
        let m ← copyWordA m d s
        let m ← copyWordA m (d + 8) (s + 8)
        let m ← copyWordA m (d + 16) (s + 16)
        let m ← copyWordA m (d + 24) (s + 24)
        memcpyLoop4A f m (n - BLOCK_SZ * 4) (d + 32) (s + 32)
      else some (m, n, d, s)

def memcpyLoop1A : Nat → AMem → Nat → Ptr → Ptr → Option (AMem × Nat × Ptr × Ptr)
  | 0, _, _, _, _ => none
  | f + 1, m, n, d, s =>
      if n ≥ BLOCK_SZ then do
        let m ← copyWordA m d s
        memcpyLoop1A f m (n - BLOCK_SZ) (d + 8) (s + 8)
      else some (m, n, d, s)

def memcpyBytesA : Nat → AMem → Ptr → Ptr → Option AMem
  | 0, m, _, _ => some m
  | n + 1, m, d, s => do
      let b ← rdA m s
      let m ← wrA m d b
      memcpyBytesA n m (d + 1) (s + 1)

def memcpyA (m : AMem) (dst src : Ptr) (n : Nat) : Option (AMem × Ptr) := do
  if n ≥ BLOCK_SZ * 4 ∧ !unaligned src dst then
    -- the loops run at most n/32 + 1 resp. 4 times; `n + 1` is ample fuel
    let (m, n, d, s) ← memcpyLoop4A (n + 1) m n dst src
    let (m, n, d, s) ← memcpyLoop1A (n + 1) m n d s
    let m ← memcpyBytesA n m d s
    pure (m, dst)
  else
    let m ← memcpyBytesA n m dst src
    pure (m, dst)

def memmoveBackA : Nat → AMem → Ptr → Ptr → Option AMem
  | 0, m, _, _ => some m
  | n + 1, m, d, s => do
      let b ← rdA m (s - 1)
      let m ← wrA m (d - 1) b
      memmoveBackA n m (d - 1) (s - 1)

def memmoveA (m : AMem) (dst src : Ptr) (n : Nat) : Option (AMem × Ptr) :=
  if src < dst ∧ dst < src + n then do
    let m ← memmoveBackA n m (dst + n) (src + n)
    pure (m, dst)
  else memcpyA m dst src n

def scanNulA (m : AMem) : Nat → Ptr → Option Ptr
  | 0, _ => none
  | f + 1, s => do
      let b ← rdA m s
      if b ≠ 0 then scanNulA m f (s + 1) else pure (s + 1)

def strlenA (m : AMem) (str : Ptr) (fuel : Nat) : Option Nat := do
  let s ← scanNulA m fuel str
  pure (s - str - 1)

def strnlenLoopA (m : AMem) : Nat → Nat → Ptr → Option Nat
  | 0, len, _ => some len
  | r + 1, len, s => do
      let b ← rdA m s
      if b = 0 then pure len else strnlenLoopA m r (len + 1) (s + 1)

def strnlenA (m : AMem) (str : Ptr) (maxlen : Nat) : Option Nat := strnlenLoopA m maxlen 0 str

def strcpyLoopA : Nat → AMem → Ptr → Ptr → Option AMem
  | 0, _, _, _ => none
  | f + 1, m, cp, src => do
      let b ← rdA m src
      let m ← wrA m cp b
      if b ≠ 0 then strcpyLoopA f m (cp + 1) (src + 1) else pure m

def strcpyA (m : AMem) (dest src : Ptr) (fuel : Nat) : Option (AMem × Ptr) := do
  let m ← strcpyLoopA fuel m dest src
  pure (m, dest)

def strncpyLoopA : Nat → AMem → Ptr → Ptr → Option AMem
  | 0, m, _, _ => some m
  | n + 1, m, dst, src => do
      let b ← rdA m src
      let m ← wrA m dst b
      if b ≠ 0 then strncpyLoopA n m (dst + 1) (src + 1)
      else memsetLoopA 0 n m (dst + 1)

def strncpyA (m : AMem) (dst src : Ptr) (n : Nat) : Option (AMem × Ptr) := do
  let m ← strncpyLoopA n m dst src
  pure (m, dst)

def strlcpyLoopA : Nat → AMem → Ptr → Ptr → Option (AMem × Ptr × Ptr)
  | 0, _, _, _ => none
  | 1, m, dst, s => some (m, dst, s)
  | n + 2, m, dst, s => do
      let b ← rdA m s
      if b = 0 then pure (m, dst, s) else do
        let m ← wrA m dst b
        strlcpyLoopA (n + 1) m (dst + 1) (s + 1)

def strlcpyA (m : AMem) (dst src : Ptr) (size : Nat) (fuel : Nat) : Option (AMem × Nat) := do
  if size = 0 then
    let l ← strlenA m src fuel
    pure (m, l)
  else
    let (m, dst, s) ← strlcpyLoopA size m dst src
    let m ← wrA m dst 0
    -- return (s - src) + strlenA(s);
    let l ← strlenA m s fuel
    pure (m, (s - src) + l)

def strcatCopyA : Nat → AMem → Ptr → Ptr → Option AMem
  | 0, _, _, _ => none
  | f + 1, m, s1, s2 => do
      let c ← rdA m s2
      let m ← wrA m (s1 + 1) c
      if c ≠ 0 then strcatCopyA f m (s1 + 1) (s2 + 1) else pure m

def strcatA (m : AMem) (dest src : Ptr) (fuel : Nat) : Option (AMem × Ptr) := do
  let s1 ← scanNulA m fuel dest          -- do { c = *s1++; } while (c != '\0');
  let s1 := s1 - 2                      -- s1 -= 2;
  let m ← strcatCopyA fuel m s1 src
  pure (m, dest)

def catStepA (m : AMem) (s1 s2 : Ptr) : Option (AMem × Byte) := do
  let c ← rdA m s2
  let m ← wrA m (s1 + 1) c
  pure (m, c)

def cat4BodyA (m : AMem) (s1 s2 : Ptr) : Option (AMem × Option Byte) := do
  let (m, c) ← catStepA m s1 s2
  if c = 0 then pure (m, none) else
  let (m, c) ← catStepA m (s1 + 1) (s2 + 1)
  if c = 0 then pure (m, none) else
  let (m, c) ← catStepA m (s1 + 2) (s2 + 2)
  if c = 0 then pure (m, none) else
  let (m, c) ← catStepA m (s1 + 3) (s2 + 3)
  if c = 0 then pure (m, none) else
  pure (m, some c)

def strncat4A : Nat → AMem → Ptr → Ptr → Option (AMem × Option (Ptr × Ptr × Byte))
  | 0, m, s1, s2 => do
      let (m, r) ← cat4BodyA m s1 s2
      match r with
      | none => pure (m, none)
      | some c => pure (m, some (s1 + 4, s2 + 4, c))
  | k + 1, m, s1, s2 => do
      let (m, r) ← cat4BodyA m s1 s2
      match r with
      | none => pure (m, none)
      | some _ => strncat4A k m (s1 + 4) (s2 + 4)

def strncatTailA : Nat → AMem → Ptr → Ptr → Byte → Option AMem
  | 0, m, s1, _, c => if c ≠ 0 then wrA m (s1 + 1) 0 else some m
  | n + 1, m, s1, s2, _ => do
      let (m, c) ← catStepA m s1 s2
      if c = 0 then pure m else strncatTailA n m (s1 + 1) (s2 + 1) c

def strncatA (m : AMem) (s1 s2 : Ptr) (n : Nat) (fuel : Nat) : Option (AMem × Ptr) := do
  let s := s1
  let e ← scanNulA m fuel s1             -- do c = *s1++; while (c != '\0');   (c = 0 now)
  let s1 := e - 2
  if n ≥ 4 then
    let (m, r) ← strncat4A (n / 4 - 1) m s1 s2
    match r with
    | none => pure (m, s)
    | some (s1, s2, c) =>
        let m ← strncatTailA (n % 4) m s1 s2 c
        pure (m, s)
  else
    let m ← strncatTailA n m s1 s2 0
    pure (m, s)

abbrev AllocA := AMem → Nat → Option (AMem × Ptr)

def strdupA (malloc : AllocA) (m : AMem) (s : Ptr) (fuel : Nat) : Option (AMem × Option Ptr) := do
  let l ← strlenA m s fuel
  match malloc m (l + 1) with
  | none => pure (m, none)
  | some (m, ret) =>
    let (m, _) ← strcpyA m ret s fuel
    pure (m, some ret)

def strndupA (malloc : AllocA) (m : AMem) (s : Ptr) (size : Nat) : Option (AMem × Option Ptr) := do
  let len ← strnlenA m s size
  match malloc m (len + 1) with
  | none => pure (m, none)
  | some (m, ret) =>
    let (m, _) ← memcpyA m ret s len
    let m ← wrA m (ret + len) 0
    pure (m, some ret)

/-! ### the driver's allocator, in both forms: a fresh block of `n` cells filled with 0xA5 at address `base` -/

def mallocFn (fail : Bool) (base : Nat) : Alloc := fun m n =>
  if fail then none else
  some ((fun a => if base ≤ a ∧ a < base + n then some 0xA5#8 else m a), base)

/-- map the `n` cells from `a` on -/
def fillA : Nat → AMem → Ptr → AMem
  | 0, c, _ => c
  | n + 1, c, a => fillA n (c.setIfInBounds a (some 0xA5#8)) (a + 1)

/-- the array is extended by unmapped cells when it is too short for the block -/
def growA (c : AMem) (k : Nat) : AMem := if c.size < k then c ++ Array.replicate (k - c.size) none else c

def mallocArr (fail : Bool) (base : Nat) : AllocA := fun c n =>
  if fail then none else some (fillA n (growA c (base + n)) base, base)

end Igris.C08
