/-
  C08 round 3b — ACCESS MONOTONICITY (audit item 3).

  The theorems of Props.lean carry the "reads and writes no byte outside the
  allowed ranges" clause by the reading "the call does not fault on the memory
  in which only those ranges are mapped".  What was missing is the other half
  of that reading: a run on a LARGER memory does the same thing.  `MemLe m m'`
  says that `m'` extends `m` (every mapped cell of `m` is mapped in `m'` with
  the same content).  For every function of the model: if the call succeeds on
  `m` it succeeds on every extension `m'` with the SAME result, and for the
  writers the resulting memories are again related by `MemLe` (so the cells
  `m'` has in addition are neither needed nor - by the frame theorems -
  modified).  A fault is the only way the model can observe that a cell is not
  mapped; these lemmas are the proof of that remark, function by function.
-/
import IgrisModel.C08.Lemmas
namespace Igris.C08
open Igris.Proto

/-- `m'` extends `m` -/
def MemLe (m m' : Mem) : Prop := ∀ a v, m a = some v → m' a = some v

theorem MemLe.refl (m : Mem) : MemLe m m := fun _ _ h => h
theorem MemLe.trans {a b c : Mem} (h1 : MemLe a b) (h2 : MemLe b c) : MemLe a c :=
  fun x v h => h2 x v (h1 x v h)

/-- success of `x` implies success of `y` with `R`-related results -/
def OLe {α β : Type} (R : α → β → Prop) (x : Option α) (y : Option β) : Prop :=
  ∀ a, x = some a → ∃ b, y = some b ∧ R a b

section
variable {α β γ δ : Type}

theorem OLe.fail {R : α → β → Prop} {y : Option β} : OLe R (none : Option α) y := fun _ h => by cases h

theorem OLe.pure {R : α → β → Prop} {a : α} {b : β} (h : R a b) : OLe R (pure a : Option α) (pure b) :=
  fun _ e => by cases e; exact ⟨b, rfl, h⟩

theorem OLe.val {R : α → β → Prop} {a : α} {b : β} (h : R a b) : OLe R (some a) (some b) :=
  fun _ e => by cases e; exact ⟨b, rfl, h⟩

theorem OLe.bind {R : α → β → Prop} {S : γ → δ → Prop} {x : Option α} {y : Option β}
    {f : α → Option γ} {g : β → Option δ}
    (h : OLe R x y) (hf : ∀ a b, R a b → OLe S (f a) (g b)) : OLe S (x >>= f) (y >>= g) := by
  intro c hc
  cases x with
  | none => simp at hc
  | some a =>
    obtain ⟨b, hb, r⟩ := h a rfl
    subst hb
    exact hf a b r c (by simpa using hc)

theorem OLe.ite {R : α → β → Prop} {c : Prop} [Decidable c] {a a' : Option α} {b b' : Option β}
    (ht : c → OLe R a b) (he : ¬c → OLe R a' b') : OLe R (if c then a else a') (if c then b else b') := by
  by_cases hc : c
  · simpa [hc] using ht hc
  · simpa [hc] using he hc

theorem OLe.eq {x y : Option α} (h : OLe Eq x y) {r : α} (e : x = some r) : y = some r := by
  obtain ⟨b, hb, rfl⟩ := h r e; exact hb

theorem OLe.map {R : α → β → Prop} {S : γ → δ → Prop} {x : Option α} {y : Option β} {f : α → γ} {g : β → δ}
    (h : OLe R x y) (hf : ∀ a b, R a b → S (f a) (g b)) : OLe S (x.map f) (y.map g) := by
  intro c hc
  cases x with
  | none => simp at hc
  | some a =>
    obtain ⟨b, hb, r⟩ := h a rfl
    subst hb
    simp at hc; subst hc
    exact ⟨g b, rfl, hf a b r⟩
end

/-- memory and a value: the memories are related, the values equal -/
def MV {α : Type} (p q : Mem × α) : Prop := MemLe p.1 q.1 ∧ p.2 = q.2

theorem rd_le {m m' : Mem} (h : MemLe m m') (a : Ptr) : OLe Eq (rd m a) (rd m' a) :=
  fun b e => ⟨b, h a b e, rfl⟩

theorem wr_le {m m' : Mem} (h : MemLe m m') (a : Ptr) (v : Byte) : OLe MemLe (wr m a v) (wr m' a v) := by
  intro m1 e
  cases hm : m a with
  | none => simp [wr, hm] at e
  | some b =>
    have hm' := h a b hm
    simp [wr, hm] at e
    refine ⟨fun j => if j = a then some v else m' j, by simp [wr, hm'], ?_⟩
    subst e
    intro j w hj
    by_cases hja : j = a
    · simpa [hja] using hj
    · simp [hja] at hj ⊢; exact h j w hj

/-! ### the readers -/

theorem memchrLoop_le {m m' : Mem} (h : MemLe m m') (d : Byte) :
    ∀ n s, OLe Eq (memchrLoop m d n s) (memchrLoop m' d n s)
  | 0, _ => OLe.val rfl
  | n + 1, s => by
    simp only [memchrLoop]
    refine OLe.bind (rd_le h _) fun b _ e => ?_
    subst e
    exact OLe.ite (fun _ => OLe.pure rfl) (fun _ => memchrLoop_le h d n _)

theorem memrchrLoop_le {m m' : Mem} (h : MemLe m m') (d : Byte) :
    ∀ n s, OLe Eq (memrchrLoop m d n s) (memrchrLoop m' d n s)
  | 0, _ => OLe.val rfl
  | n + 1, s => by
    simp only [memrchrLoop]
    refine OLe.bind (rd_le h _) fun b _ e => ?_
    subst e
    exact OLe.ite (fun _ => OLe.pure rfl) (fun _ => memrchrLoop_le h d n _)

theorem diffAt_le {m m' : Mem} (h : MemLe m m') (d s : Ptr) : OLe Eq (diffAt m d s) (diffAt m' d s) := by
  simp only [diffAt]
  refine OLe.bind (rd_le h _) fun a _ e => ?_
  subst e
  refine OLe.bind (rd_le h _) fun b _ e => ?_
  subst e
  exact OLe.pure rfl

theorem memcmpLoop_le {m m' : Mem} (h : MemLe m m') :
    ∀ k d s, OLe Eq (memcmpLoop m k d s) (memcmpLoop m' k d s)
  | 0, d, s => by simp only [memcmpLoop]; exact diffAt_le h d s
  | k + 1, d, s => by
    simp only [memcmpLoop]
    refine OLe.bind (rd_le h _) fun a _ e => ?_
    subst e
    refine OLe.bind (rd_le h _) fun b _ e => ?_
    subst e
    exact OLe.ite (fun _ => memcmpLoop_le h k _ _) (fun _ => diffAt_le h d s)

macro "rdb " h:term : tactic => `(tactic| (refine OLe.bind (rd_le $h _) fun _ _ e => ?_; subst e))

theorem memchr_le {m m' : Mem} (h : MemLe m m') (s : Ptr) (c : Int) (n : Nat) :
    OLe Eq (memchr m s c n) (memchr m' s c n) := memchrLoop_le h _ _ _
theorem memrchr_le {m m' : Mem} (h : MemLe m m') (s : Ptr) (c : Int) (n : Nat) :
    OLe Eq (memrchr m s c n) (memrchr m' s c n) := memrchrLoop_le h _ _ _
theorem memcmp_le {m m' : Mem} (h : MemLe m m') (d s : Ptr) (n : Nat) :
    OLe Eq (memcmp m d s n) (memcmp m' d s n) := by
  simp only [memcmp]
  exact OLe.ite (fun _ => OLe.val rfl) (fun _ => memcmpLoop_le h _ _ _)

theorem scanNul_le {m m' : Mem} (h : MemLe m m') : ∀ f s, OLe Eq (scanNul m f s) (scanNul m' f s)
  | 0, _ => by simp only [scanNul]; exact OLe.fail
  | f + 1, s => by
    simp only [scanNul]
    rdb h
    exact OLe.ite (fun _ => scanNul_le h f _) (fun _ => OLe.val rfl)

theorem strlen_le {m m' : Mem} (h : MemLe m m') (s fuel : Nat) : OLe Eq (strlen m s fuel) (strlen m' s fuel) := by
  simp only [strlen]
  refine OLe.bind (scanNul_le h _ _) fun _ _ e => ?_
  subst e; exact OLe.val rfl

theorem strnlenLoop_le {m m' : Mem} (h : MemLe m m') : ∀ r len s, OLe Eq (strnlenLoop m r len s) (strnlenLoop m' r len s)
  | 0, _, _ => OLe.val rfl
  | r + 1, len, s => by
    simp only [strnlenLoop]
    rdb h
    exact OLe.ite (fun _ => OLe.val rfl) (fun _ => strnlenLoop_le h r _ _)

theorem strnlen_le {m m' : Mem} (h : MemLe m m') (s n : Nat) : OLe Eq (strnlen m s n) (strnlen m' s n) :=
  strnlenLoop_le h _ _ _

theorem diffAtF_le {m m' : Mem} (h : MemLe m m') (f : Int → Int) (a b : Ptr) :
    OLe Eq (diffAtF f m a b) (diffAtF f m' a b) := by
  simp only [diffAtF]
  rdb h
  rdb h
  exact OLe.val rfl

theorem strcmpLoop_le {m m' : Mem} (h : MemLe m m') (f : Int → Int) :
    ∀ fuel a b, OLe Eq (strcmpLoop f m fuel a b) (strcmpLoop f m' fuel a b)
  | 0, _, _ => by simp only [strcmpLoop]; exact OLe.fail
  | fuel + 1, a, b => by
    simp only [strcmpLoop]
    rdb h
    refine OLe.ite (fun _ => ?_) (fun _ => diffAtF_le h f _ _)
    rdb h
    exact OLe.ite (fun _ => strcmpLoop_le h f fuel _ _) (fun _ => diffAtF_le h f _ _)

theorem strncmpLoop_le {m m' : Mem} (h : MemLe m m') (f : Int → Int) :
    ∀ k a b, OLe Eq (strncmpLoop f m k a b) (strncmpLoop f m' k a b)
  | 0, _, _ => by simp only [strncmpLoop]; exact diffAtF_le h f _ _
  | k + 1, a, b => by
    simp only [strncmpLoop]
    rdb h
    refine OLe.ite (fun _ => ?_) (fun _ => diffAtF_le h f _ _)
    rdb h
    exact OLe.ite (fun _ => strncmpLoop_le h f k _ _) (fun _ => diffAtF_le h f _ _)

theorem strchrnulLoop_le {m m' : Mem} (h : MemLe m m') (c : Byte) :
    ∀ f s, OLe Eq (strchrnulLoop m c f s) (strchrnulLoop m' c f s)
  | 0, _ => by simp only [strchrnulLoop]; exact OLe.fail
  | f + 1, s => by
    simp only [strchrnulLoop]
    rdb h
    exact OLe.ite (fun _ => strchrnulLoop_le h c f _) (fun _ => OLe.val rfl)

theorem strchr_le {m m' : Mem} (h : MemLe m m') (s : Ptr) (ch : Int) (fuel : Nat) :
    OLe Eq (strchr m s ch fuel) (strchr m' s ch fuel) := by
  simp only [strchr, strchrnul]
  refine OLe.bind (strchrnulLoop_le h _ _ _) fun _ _ e => ?_
  subst e
  rdb h
  exact OLe.ite (fun _ => OLe.val rfl) (fun _ => OLe.val rfl)

theorem strrchrLoop_le {m m' : Mem} (h : MemLe m m') (ch : Int) (fuel : Nat) :
    ∀ g s found, OLe Eq (strrchrLoop m ch fuel g s found) (strrchrLoop m' ch fuel g s found)
  | 0, _, _ => by simp only [strrchrLoop]; exact OLe.fail
  | g + 1, s, found => by
    simp only [strrchrLoop]
    refine OLe.bind (strchr_le h _ _ _) fun x _ e => ?_
    subst e
    cases x with
    | none => exact OLe.val rfl
    | some p => exact strrchrLoop_le h ch fuel g _ _

theorem strrchr_le {m m' : Mem} (h : MemLe m m') (s : Ptr) (ch : Int) (fuel : Nat) :
    OLe Eq (strrchr m s ch fuel) (strrchr m' s ch fuel) := by
  simp only [strrchr]
  refine OLe.ite (fun _ => ?_) (fun _ => strrchrLoop_le h _ _ _ _ _)
  refine OLe.bind (strlen_le h _ _) fun _ _ e => ?_
  subst e; exact OLe.val rfl

theorem strstrInner_le {m m' : Mem} (h : MemLe m m') (f : Int → Int) :
    ∀ fuel a n, OLe Eq (strstrInner f m fuel a n) (strstrInner f m' fuel a n)
  | 0, _, _ => by simp only [strstrInner]; exact OLe.fail
  | fuel + 1, a, n => by
    simp only [strstrInner]
    rdb h
    refine OLe.ite (fun _ => ?_) (fun _ => OLe.val rfl)
    rdb h
    exact OLe.ite (fun _ => strstrInner_le h f fuel _ _) (fun _ => OLe.val rfl)

theorem strstrOuter_le {m m' : Mem} (h : MemLe m m') (f : Int → Int) (needle fuel : Nat) :
    ∀ g hs, OLe Eq (strstrOuter f m needle fuel g hs) (strstrOuter f m' needle fuel g hs)
  | 0, _ => by simp only [strstrOuter]; exact OLe.fail
  | g + 1, hs => by
    simp only [strstrOuter]
    rdb h
    refine OLe.ite (fun _ => ?_) (fun _ => OLe.val rfl)
    refine OLe.bind (strstrInner_le h f _ _ _) fun _ _ e => ?_
    subst e
    rdb h
    exact OLe.ite (fun _ => OLe.val rfl) (fun _ => strstrOuter_le h f needle fuel g _)

theorem strstrF_le {m m' : Mem} (h : MemLe m m') (f : Int → Int) (hs nd fuel : Nat) :
    OLe Eq (strstrF f m hs nd fuel) (strstrF f m' hs nd fuel) := by
  simp only [strstrF]
  rdb h
  exact OLe.ite (fun _ => OLe.val rfl) (fun _ => strstrOuter_le h f _ _ _ _)

theorem spnInner_le {m m' : Mem} (h : MemLe m m') (c : Byte) :
    ∀ f a, OLe Eq (spnInner m c f a) (spnInner m' c f a)
  | 0, _ => by simp only [spnInner]; exact OLe.fail
  | f + 1, a => by
    simp only [spnInner]
    rdb h
    refine OLe.ite (fun _ => ?_) (fun _ => OLe.val rfl)
    exact OLe.ite (fun _ => OLe.val rfl) (fun _ => spnInner_le h c f _)

theorem strspnLoop_le {m m' : Mem} (h : MemLe m m') (accept fuel : Nat) :
    ∀ g p count, OLe Eq (strspnLoop m accept fuel g p count) (strspnLoop m' accept fuel g p count)
  | 0, _, _ => by simp only [strspnLoop]; exact OLe.fail
  | g + 1, p, count => by
    simp only [strspnLoop]
    rdb h
    refine OLe.ite (fun _ => ?_) (fun _ => OLe.val rfl)
    refine OLe.bind (spnInner_le h _ _ _) fun _ _ e => ?_
    subst e
    exact OLe.ite (fun _ => OLe.val rfl) (fun _ => strspnLoop_le h accept fuel g _ _)

theorem strcspnLoop_le {m m' : Mem} (h : MemLe m m') (reject fuel : Nat) :
    ∀ g s count, OLe Eq (strcspnLoop m reject fuel g s count) (strcspnLoop m' reject fuel g s count)
  | 0, _, _ => by simp only [strcspnLoop]; exact OLe.fail
  | g + 1, s, count => by
    simp only [strcspnLoop]
    rdb h
    refine OLe.ite (fun _ => ?_) (fun _ => OLe.val rfl)
    refine OLe.bind (strchr_le h _ _ _) fun x _ e => ?_
    subst e
    cases x with
    | none => exact strcspnLoop_le h reject fuel g _ _
    | some p => exact OLe.val rfl

theorem pbrkInner_le {m m' : Mem} (h : MemLe m m') (x : Byte) :
    ∀ f c, OLe Eq (pbrkInner m x f c) (pbrkInner m' x f c)
  | 0, _ => by simp only [pbrkInner]; exact OLe.fail
  | f + 1, c => by
    simp only [pbrkInner]
    rdb h
    refine OLe.ite (fun _ => ?_) (fun _ => OLe.val rfl)
    exact OLe.ite (fun _ => OLe.val rfl) (fun _ => pbrkInner_le h x f _)

theorem pbrkOuter_le {m m' : Mem} (h : MemLe m m') (s2 fuel : Nat) :
    ∀ g s1 c, OLe Eq (pbrkOuter m s2 fuel g s1 c) (pbrkOuter m' s2 fuel g s1 c)
  | 0, _, _ => by simp only [pbrkOuter]; exact OLe.fail
  | g + 1, s1, c => by
    simp only [pbrkOuter]
    rdb h
    refine OLe.ite (fun _ => ?_) (fun _ => OLe.val rfl)
    refine OLe.bind (pbrkInner_le h _ _ _) fun _ _ e => ?_
    subst e
    rdb h
    exact OLe.ite (fun _ => OLe.val rfl) (fun _ => pbrkOuter_le h s2 fuel g _ _)

theorem strpbrk_le {m m' : Mem} (h : MemLe m m') (s1 s2 fuel : Nat) :
    OLe Eq (strpbrk m s1 s2 fuel) (strpbrk m' s1 s2 fuel) := by
  simp only [strpbrk]
  rdb h
  refine OLe.ite (fun _ => OLe.val rfl) (fun _ => ?_)
  refine OLe.bind (pbrkOuter_le h _ _ _ _ _) fun x _ e => ?_
  subst e
  obtain ⟨p, c⟩ := x
  dsimp only
  rdb h
  exact OLe.ite (fun _ => OLe.val rfl) (fun _ => OLe.val rfl)

/-! ### the writers: the resulting memories are related again -/

theorem memsetLoop_le (v : Byte) : ∀ n {m m' : Mem} (_ : MemLe m m') p,
    OLe MemLe (memsetLoop v n m p) (memsetLoop v n m' p)
  | 0, _, _, h, _ => OLe.val h
  | n + 1, _, _, h, p => by
    simp only [memsetLoop]
    exact OLe.bind (wr_le h _ _) fun _ _ h1 => memsetLoop_le v n h1 _

theorem memset_le {m m' : Mem} (h : MemLe m m') (d : Ptr) (c : Int) (n : Nat) :
    OLe MV (memset m d c n) (memset m' d c n) := by
  simp only [memset]
  exact OLe.bind (memsetLoop_le _ _ h _) fun _ _ h1 => OLe.val ⟨h1, rfl⟩

theorem loadN_le {m m' : Mem} (h : MemLe m m') : ∀ k a, OLe Eq (loadN m k a) (loadN m' k a)
  | 0, _ => OLe.val rfl
  | k + 1, a => by
    simp only [loadN]
    rdb h
    refine OLe.bind (loadN_le h k _) fun _ _ e => ?_
    subst e; exact OLe.val rfl

theorem storeL_le : ∀ (w : List Byte) {m m' : Mem} (_ : MemLe m m') a, OLe MemLe (storeL w m a) (storeL w m' a)
  | [], _, _, h, _ => OLe.val h
  | b :: tl, _, _, h, a => by
    simp only [storeL]
    exact OLe.bind (wr_le h _ _) fun _ _ h1 => storeL_le tl h1 _

theorem copyWord_le {m m' : Mem} (h : MemLe m m') (d s : Ptr) : OLe MemLe (copyWord m d s) (copyWord m' d s) := by
  simp only [copyWord]
  refine OLe.bind (loadN_le h _ _) fun _ _ e => ?_
  subst e; exact storeL_le _ h _

theorem memcpyLoop4_le : ∀ f {m m' : Mem} (_ : MemLe m m') n d s,
    OLe MV (memcpyLoop4 f m n d s) (memcpyLoop4 f m' n d s)
  | 0, _, _, _, _, _, _ => by simp only [memcpyLoop4]; exact OLe.fail
  | f + 1, _, _, h, n, d, s => by
    simp only [memcpyLoop4]
    refine OLe.ite (fun _ => ?_) (fun _ => OLe.val ⟨h, rfl⟩)
    refine OLe.bind (copyWord_le h _ _) fun _ _ h1 => ?_
    refine OLe.bind (copyWord_le h1 _ _) fun _ _ h2 => ?_
    refine OLe.bind (copyWord_le h2 _ _) fun _ _ h3 => ?_
    refine OLe.bind (copyWord_le h3 _ _) fun _ _ h4 => ?_
    exact memcpyLoop4_le f h4 _ _ _

theorem memcpyLoop1_le : ∀ f {m m' : Mem} (_ : MemLe m m') n d s,
    OLe MV (memcpyLoop1 f m n d s) (memcpyLoop1 f m' n d s)
  | 0, _, _, _, _, _, _ => by simp only [memcpyLoop1]; exact OLe.fail
  | f + 1, _, _, h, n, d, s => by
    simp only [memcpyLoop1]
    refine OLe.ite (fun _ => ?_) (fun _ => OLe.val ⟨h, rfl⟩)
    refine OLe.bind (copyWord_le h _ _) fun _ _ h1 => ?_
    exact memcpyLoop1_le f h1 _ _ _

theorem memcpyBytes_le : ∀ n {m m' : Mem} (_ : MemLe m m') d s,
    OLe MemLe (memcpyBytes n m d s) (memcpyBytes n m' d s)
  | 0, _, _, h, _, _ => OLe.val h
  | n + 1, _, _, h, d, s => by
    simp only [memcpyBytes]
    rdb h
    exact OLe.bind (wr_le h _ _) fun _ _ h1 => memcpyBytes_le n h1 _ _

theorem memcpy_le {m m' : Mem} (h : MemLe m m') (dst src : Ptr) (n : Nat) :
    OLe MV (memcpy m dst src n) (memcpy m' dst src n) := by
  simp only [memcpy]
  refine OLe.ite (fun _ => ?_) (fun _ => ?_)
  · refine OLe.bind (memcpyLoop4_le _ h _ _ _) fun a b r => ?_
    obtain ⟨m1, n1, d1, s1⟩ := a
    obtain ⟨m2, n2, d2, s2⟩ := b
    obtain ⟨r1, r2⟩ := r
    simp only at r1 r2
    cases r2
    dsimp only
    refine OLe.bind (memcpyLoop1_le _ r1 _ _ _) fun a b r => ?_
    obtain ⟨m3, n3, d3, s3⟩ := a
    obtain ⟨m4, n4, d4, s4⟩ := b
    obtain ⟨r3, r4⟩ := r
    simp only at r3 r4
    cases r4
    dsimp only
    exact OLe.bind (memcpyBytes_le _ r3 _ _) fun _ _ h1 => OLe.val ⟨h1, rfl⟩
  · exact OLe.bind (memcpyBytes_le _ h _ _) fun _ _ h1 => OLe.val ⟨h1, rfl⟩

theorem memmoveBack_le : ∀ n {m m' : Mem} (_ : MemLe m m') d s,
    OLe MemLe (memmoveBack n m d s) (memmoveBack n m' d s)
  | 0, _, _, h, _, _ => OLe.val h
  | n + 1, _, _, h, d, s => by
    simp only [memmoveBack]
    rdb h
    exact OLe.bind (wr_le h _ _) fun _ _ h1 => memmoveBack_le n h1 _ _

theorem memmove_le {m m' : Mem} (h : MemLe m m') (dst src : Ptr) (n : Nat) :
    OLe MV (memmove m dst src n) (memmove m' dst src n) := by
  simp only [memmove]
  refine OLe.ite (fun _ => ?_) (fun _ => memcpy_le h _ _ _)
  exact OLe.bind (memmoveBack_le _ h _ _) fun _ _ h1 => OLe.val ⟨h1, rfl⟩

theorem strcpyLoop_le : ∀ f {m m' : Mem} (_ : MemLe m m') cp src,
    OLe MemLe (strcpyLoop f m cp src) (strcpyLoop f m' cp src)
  | 0, _, _, _, _, _ => by simp only [strcpyLoop]; exact OLe.fail
  | f + 1, _, _, h, cp, src => by
    simp only [strcpyLoop]
    rdb h
    refine OLe.bind (wr_le h _ _) fun _ _ h1 => ?_
    exact OLe.ite (fun _ => strcpyLoop_le f h1 _ _) (fun _ => OLe.val h1)

theorem strcpy_le {m m' : Mem} (h : MemLe m m') (d s fuel : Nat) :
    OLe MV (strcpy m d s fuel) (strcpy m' d s fuel) := by
  simp only [strcpy]
  exact OLe.bind (strcpyLoop_le _ h _ _) fun _ _ h1 => OLe.val ⟨h1, rfl⟩

theorem strncpyLoop_le : ∀ n {m m' : Mem} (_ : MemLe m m') dst src,
    OLe MemLe (strncpyLoop n m dst src) (strncpyLoop n m' dst src)
  | 0, _, _, h, _, _ => OLe.val h
  | n + 1, _, _, h, dst, src => by
    simp only [strncpyLoop]
    rdb h
    refine OLe.bind (wr_le h _ _) fun _ _ h1 => ?_
    exact OLe.ite (fun _ => strncpyLoop_le n h1 _ _) (fun _ => memsetLoop_le _ _ h1 _)

theorem strncpy_le {m m' : Mem} (h : MemLe m m') (d s n : Nat) :
    OLe MV (strncpy m d s n) (strncpy m' d s n) := by
  simp only [strncpy]
  exact OLe.bind (strncpyLoop_le _ h _ _) fun _ _ h1 => OLe.val ⟨h1, rfl⟩

theorem strlcpyLoop_le : ∀ n {m m' : Mem} (_ : MemLe m m') dst s,
    OLe MV (strlcpyLoop n m dst s) (strlcpyLoop n m' dst s)
  | 0, _, _, _, _, _ => by simp only [strlcpyLoop]; exact OLe.fail
  | 1, _, _, h, _, _ => by simp only [strlcpyLoop]; exact OLe.val ⟨h, rfl⟩
  | n + 2, _, _, h, dst, s => by
    simp only [strlcpyLoop]
    rdb h
    refine OLe.ite (fun _ => OLe.val ⟨h, rfl⟩) (fun _ => ?_)
    exact OLe.bind (wr_le h _ _) fun _ _ h1 => strlcpyLoop_le (n + 1) h1 _ _

theorem strlcpy_le {m m' : Mem} (h : MemLe m m') (d s size fuel : Nat) :
    OLe MV (strlcpy m d s size fuel) (strlcpy m' d s size fuel) := by
  simp only [strlcpy]
  refine OLe.ite (fun _ => ?_) (fun _ => ?_)
  · refine OLe.bind (strlen_le h _ _) fun _ _ e => ?_
    subst e; exact OLe.val ⟨h, rfl⟩
  · refine OLe.bind (strlcpyLoop_le _ h _ _) fun a b r => ?_
    obtain ⟨m1, d1, s1⟩ := a
    obtain ⟨m2, d2, s2⟩ := b
    obtain ⟨r1, r2⟩ := r
    simp only at r1 r2
    cases r2
    dsimp only
    refine OLe.bind (wr_le r1 _ _) fun _ _ h1 => ?_
    refine OLe.bind (strlen_le h1 _ _) fun _ _ e => ?_
    subst e; exact OLe.val ⟨h1, rfl⟩

theorem strcatCopy_le : ∀ f {m m' : Mem} (_ : MemLe m m') s1 s2,
    OLe MemLe (strcatCopy f m s1 s2) (strcatCopy f m' s1 s2)
  | 0, _, _, _, _, _ => by simp only [strcatCopy]; exact OLe.fail
  | f + 1, _, _, h, s1, s2 => by
    simp only [strcatCopy]
    rdb h
    refine OLe.bind (wr_le h _ _) fun _ _ h1 => ?_
    exact OLe.ite (fun _ => strcatCopy_le f h1 _ _) (fun _ => OLe.val h1)

theorem strcat_le {m m' : Mem} (h : MemLe m m') (d s fuel : Nat) :
    OLe MV (strcat m d s fuel) (strcat m' d s fuel) := by
  simp only [strcat]
  refine OLe.bind (scanNul_le h _ _) fun _ _ e => ?_
  subst e
  exact OLe.bind (strcatCopy_le _ h _ _) fun _ _ h1 => OLe.val ⟨h1, rfl⟩

theorem caseLoop_le (lo hi : Int) (delta : Byte) : ∀ f {m m' : Mem} (_ : MemLe m m') cp,
    OLe MemLe (caseLoop lo hi delta f m cp) (caseLoop lo hi delta f m' cp)
  | 0, _, _, _, _ => by simp only [caseLoop]; exact OLe.fail
  | f + 1, _, _, h, cp => by
    simp only [caseLoop]
    rdb h
    refine OLe.ite (fun _ => ?_) (fun _ => OLe.val h)
    refine OLe.ite (fun _ => ?_) (fun _ => caseLoop_le lo hi delta f h _)
    exact OLe.bind (wr_le h _ _) fun _ _ h1 => caseLoop_le lo hi delta f h1 _

theorem strlwr_le {m m' : Mem} (h : MemLe m m') (s fuel : Nat) : OLe MV (strlwr m s fuel) (strlwr m' s fuel) := by
  simp only [strlwr]
  exact OLe.bind (caseLoop_le _ _ _ _ h _) fun _ _ h1 => OLe.val ⟨h1, rfl⟩

theorem strupr_le {m m' : Mem} (h : MemLe m m') (s fuel : Nat) : OLe MV (strupr m s fuel) (strupr m' s fuel) := by
  simp only [strupr]
  exact OLe.bind (caseLoop_le _ _ _ _ h _) fun _ _ h1 => OLe.val ⟨h1, rfl⟩

/-- memory, and a value that is equal on both sides (pairs nested further to the right included) -/
theorem catStep_le {m m' : Mem} (h : MemLe m m') (s1 s2 : Ptr) : OLe MV (catStep m s1 s2) (catStep m' s1 s2) := by
  simp only [catStep]
  rdb h
  exact OLe.bind (wr_le h _ _) fun _ _ h1 => OLe.val ⟨h1, rfl⟩

theorem cat4Body_le {m m' : Mem} (h : MemLe m m') (s1 s2 : Ptr) : OLe MV (cat4Body m s1 s2) (cat4Body m' s1 s2) := by
  simp only [cat4Body]
  refine OLe.bind (catStep_le h _ _) fun a b r => ?_
  obtain ⟨m1, c1⟩ := a; obtain ⟨m2, c2⟩ := b; obtain ⟨r1, r2⟩ := r
  simp only at r1 r2; subst r2; dsimp only
  refine OLe.ite (fun _ => OLe.val ⟨r1, rfl⟩) (fun _ => ?_)
  refine OLe.bind (catStep_le r1 _ _) fun a b r => ?_
  obtain ⟨m3, c3⟩ := a; obtain ⟨m4, c4⟩ := b; obtain ⟨r3, r4⟩ := r
  simp only at r3 r4; subst r4; dsimp only
  refine OLe.ite (fun _ => OLe.val ⟨r3, rfl⟩) (fun _ => ?_)
  refine OLe.bind (catStep_le r3 _ _) fun a b r => ?_
  obtain ⟨m5, c5⟩ := a; obtain ⟨m6, c6⟩ := b; obtain ⟨r5, r6⟩ := r
  simp only at r5 r6; subst r6; dsimp only
  refine OLe.ite (fun _ => OLe.val ⟨r5, rfl⟩) (fun _ => ?_)
  refine OLe.bind (catStep_le r5 _ _) fun a b r => ?_
  obtain ⟨m7, c7⟩ := a; obtain ⟨m8, c8⟩ := b; obtain ⟨r7, r8⟩ := r
  simp only at r7 r8; subst r8; dsimp only
  exact OLe.ite (fun _ => OLe.val ⟨r7, rfl⟩) (fun _ => OLe.val ⟨r7, rfl⟩)

theorem strncat4_le : ∀ k {m m' : Mem} (_ : MemLe m m') s1 s2,
    OLe MV (strncat4 k m s1 s2) (strncat4 k m' s1 s2)
  | 0, _, _, h, s1, s2 => by
    simp only [strncat4]
    refine OLe.bind (cat4Body_le h _ _) fun a b r => ?_
    obtain ⟨m1, c1⟩ := a; obtain ⟨m2, c2⟩ := b; obtain ⟨r1, r2⟩ := r
    simp only at r1 r2; subst r2; dsimp only
    cases c1 with
    | none => exact OLe.val ⟨r1, rfl⟩
    | some c => exact OLe.val ⟨r1, rfl⟩
  | k + 1, _, _, h, s1, s2 => by
    simp only [strncat4]
    refine OLe.bind (cat4Body_le h _ _) fun a b r => ?_
    obtain ⟨m1, c1⟩ := a; obtain ⟨m2, c2⟩ := b; obtain ⟨r1, r2⟩ := r
    simp only at r1 r2; subst r2; dsimp only
    cases c1 with
    | none => exact OLe.val ⟨r1, rfl⟩
    | some c => exact strncat4_le k r1 _ _

theorem strncatTail_le : ∀ n {m m' : Mem} (_ : MemLe m m') s1 s2 c,
    OLe MemLe (strncatTail n m s1 s2 c) (strncatTail n m' s1 s2 c)
  | 0, _, _, h, s1, _, c => by
    simp only [strncatTail]
    exact OLe.ite (fun _ => wr_le h _ _) (fun _ => OLe.val h)
  | n + 1, _, _, h, s1, s2, _ => by
    simp only [strncatTail]
    refine OLe.bind (catStep_le h _ _) fun a b r => ?_
    obtain ⟨m1, c1⟩ := a; obtain ⟨m2, c2⟩ := b; obtain ⟨r1, r2⟩ := r
    simp only at r1 r2; subst r2; dsimp only
    exact OLe.ite (fun _ => OLe.val r1) (fun _ => strncatTail_le n r1 _ _ _)

theorem strncat_le {m m' : Mem} (h : MemLe m m') (s1 s2 n fuel : Nat) :
    OLe MV (strncat m s1 s2 n fuel) (strncat m' s1 s2 n fuel) := by
  simp only [strncat]
  refine OLe.bind (scanNul_le h _ _) fun _ _ e => ?_
  subst e
  refine OLe.ite (fun _ => ?_) (fun _ => ?_)
  · refine OLe.bind (strncat4_le _ h _ _) fun a b r => ?_
    obtain ⟨m1, c1⟩ := a; obtain ⟨m2, c2⟩ := b; obtain ⟨r1, r2⟩ := r
    simp only at r1 r2; subst r2; dsimp only
    cases c1 with
    | none => exact OLe.val ⟨r1, rfl⟩
    | some t =>
      obtain ⟨x, y, c⟩ := t
      dsimp only
      exact OLe.bind (strncatTail_le _ r1 _ _ _) fun _ _ h1 => OLe.val ⟨h1, rfl⟩
  · exact OLe.bind (strncatTail_le _ h _ _ _) fun _ _ h1 => OLe.val ⟨h1, rfl⟩

theorem strcspn_le {m m' : Mem} (h : MemLe m m') (s r fuel : Nat) :
    OLe Eq (strcspn m s r fuel) (strcspn m' s r fuel) := strcspnLoop_le h _ _ _ _ _
theorem strspn_le {m m' : Mem} (h : MemLe m m') (s a fuel : Nat) :
    OLe Eq (strspn m s a fuel) (strspn m' s a fuel) := strspnLoop_le h _ _ _ _ _

theorem tokSkip_le {m m' : Mem} (h : MemLe m m') (delim fuel : Nat) :
    ∀ g str, OLe Eq (tokSkip m delim fuel g str) (tokSkip m' delim fuel g str)
  | 0, _ => by simp only [tokSkip]; exact OLe.fail
  | g + 1, str => by
    simp only [tokSkip]
    rdb h
    refine OLe.ite (fun _ => OLe.val rfl) (fun _ => ?_)
    refine OLe.bind (strchr_le h _ _ _) fun x _ e => ?_
    subst e
    cases x with
    | none => exact OLe.val rfl
    | some p => exact tokSkip_le h delim fuel g _

/-- memory related, the rest (save pointer, result) equal -/
theorem strtok_r_le {m m' : Mem} (h : MemLe m m') (str : Option Ptr) (delim : Ptr) (save : Option Ptr) (fuel : Nat) :
    OLe MV (strtok_r m str delim save fuel) (strtok_r m' str delim save fuel) := by
  simp only [strtok_r]
  cases tokStart str save with
  | none => exact OLe.val ⟨h, rfl⟩
  | some p =>
    dsimp only
    refine OLe.bind (tokSkip_le h _ _ _ _) fun x _ e => ?_
    subst e
    cases x with
    | inl e0 => exact OLe.val ⟨h, rfl⟩
    | inr q =>
      dsimp only
      refine OLe.bind (strcspn_le h _ _ _) fun _ _ e => ?_
      subst e
      rdb h
      refine OLe.ite (fun _ => ?_) (fun _ => OLe.val ⟨h, rfl⟩)
      exact OLe.bind (wr_le h _ _) fun _ _ h1 => OLe.val ⟨h1, rfl⟩

theorem strtokCalls_le (fuel : Nat) : ∀ (ds : List Ptr) {m m' : Mem} (_ : MemLe m m') (str save : Option Ptr),
    OLe MV (strtokCalls m fuel ds str save) (strtokCalls m' fuel ds str save)
  | [], _, _, h, _, _ => by simp only [strtokCalls]; exact OLe.val ⟨h, rfl⟩
  | d :: ds, _, _, h, str, save => by
    simp only [strtokCalls]
    refine OLe.bind (strtok_r_le h _ _ _ _) fun a b r => ?_
    obtain ⟨m1, sv1, r1⟩ := a; obtain ⟨m2, sv2, r2⟩ := b; obtain ⟨q1, q2⟩ := r
    simp only at q1 q2; cases q2; dsimp only
    refine OLe.bind (strtokCalls_le fuel ds q1 _ _) fun a b r => ?_
    obtain ⟨m3, sv3, r3⟩ := a; obtain ⟨m4, sv4, r4⟩ := b; obtain ⟨q3, q4⟩ := r
    simp only at q3 q4; cases q4; dsimp only
    exact OLe.val ⟨q3, rfl⟩

/-- what monotonicity of strdup/strndup assumes of the allocator parameter: on a larger memory it makes
the same decision, returns the same address, and the new memories are related again -/
def AllocMono (malloc : Alloc) : Prop :=
  ∀ m m' n, MemLe m m' →
    (malloc m n = none → malloc m' n = none) ∧
    (∀ m1 p, malloc m n = some (m1, p) → ∃ m1', malloc m' n = some (m1', p) ∧ MemLe m1 m1')

theorem strdup_le {malloc : Alloc} (ha : AllocMono malloc) {m m' : Mem} (h : MemLe m m') (s fuel : Nat) :
    OLe MV (strdup malloc m s fuel) (strdup malloc m' s fuel) := by
  simp only [strdup]
  refine OLe.bind (strlen_le h _ _) fun l _ e => ?_
  subst e
  obtain ⟨hn, hs⟩ := ha m m' (l + 1) h
  cases hm : malloc m (l + 1) with
  | none => rw [hn hm]; exact OLe.val ⟨h, rfl⟩
  | some x =>
    obtain ⟨m1, p⟩ := x
    obtain ⟨m1', e', h1⟩ := hs m1 p hm
    rw [e']
    dsimp only
    refine OLe.bind (strcpy_le h1 _ _ _) fun a b r => ?_
    obtain ⟨m3, x3⟩ := a; obtain ⟨m4, x4⟩ := b
    exact OLe.val ⟨r.1, rfl⟩

theorem strndup_le {malloc : Alloc} (ha : AllocMono malloc) {m m' : Mem} (h : MemLe m m') (s size : Nat) :
    OLe MV (strndup malloc m s size) (strndup malloc m' s size) := by
  simp only [strndup]
  refine OLe.bind (strnlen_le h _ _) fun l _ e => ?_
  subst e
  obtain ⟨hn, hs⟩ := ha m m' (l + 1) h
  cases hm : malloc m (l + 1) with
  | none => rw [hn hm]; exact OLe.val ⟨h, rfl⟩
  | some x =>
    obtain ⟨m1, p⟩ := x
    obtain ⟨m1', e', h1⟩ := hs m1 p hm
    rw [e']
    dsimp only
    refine OLe.bind (memcpy_le h1 _ _ _) fun a b r => ?_
    obtain ⟨m3, x3⟩ := a; obtain ⟨m4, x4⟩ := b
    dsimp only
    exact OLe.bind (wr_le r.1 _ _) fun _ _ h2 => OLe.val ⟨h2, rfl⟩

theorem strncmpF_le {m m' : Mem} (h : MemLe m m') (f : Int → Int) (a b n : Nat) :
    OLe Eq (if n = 0 then some 0 else strncmpLoop f m (n - 1) a b)
      (if n = 0 then some 0 else strncmpLoop f m' (n - 1) a b) :=
  OLe.ite (fun _ => OLe.val rfl) (fun _ => strncmpLoop_le h f _ _ _)

/-- unpack `OLe MV` -/
theorem OLe.mv {α : Type} {x y : Option (Mem × α)} (h : OLe MV x y) {m1 : Mem} {r : α} (e : x = some (m1, r)) :
    ∃ m1', y = some (m1', r) ∧ MemLe m1 m1' := by
  obtain ⟨⟨m2, r2⟩, e2, hle, hr⟩ := h (m1, r) e
  simp only at hle hr
  subst hr
  exact ⟨m2, e2, hle⟩

/-- pure list facts used by `strncasecmp_total` -/
theorem take_append_of_le' {α : Type} (q r : List α) {n : Nat} (h : n ≤ q.length) : (q ++ r).take n = q.take n := by
  rw [List.take_append]; simp [Nat.sub_eq_zero_of_le h]

theorem take_append_cons_ne {α : Type} (q : List α) {a b : α} (ra rb : List α) {n : Nat} (hab : a ≠ b)
    (h : q.length < n) : (q ++ a :: ra).take n ≠ (q ++ b :: rb).take n := by
  intro ht
  have := congrArg (fun l => l[q.length]?) ht
  simp [h] at this
  exact hab this

end Igris.C08
