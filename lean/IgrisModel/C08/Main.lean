/-
  C08 driver.  Op line:   <fn> <buffer>* <arg>*
    buffer  `A=<align>:<hex>`   buffers are named A, B, C … in this order; buffer
                                number i (A = 0) lives at address 1024*(i+1)+align
                                and nothing else is mapped
    arg     `A+<off>` pointer, `N` null pointer, `#<int>` integer,
            `A+<off>,B+<off>` / `N,B+<off>`  one strtok call (str, delim)
  Result:   <ret> <hex of every buffer afterwards>
    ret     `+k` pointer as offset from the first pointer argument, `N` NULL,
            a decimal number, `<`/`=`/`>` for comparison functions,
            for strdup/strndup the hex of the new block
-/
import IgrisModel.C08.Model
import IgrisModel.C08.Fast
open Igris.Proto Igris.C08

structure Buf where
  addr : Nat
  data : Array Byte

inductive Arg
  | ptr (p : Option Nat)
  | int (i : Int)
  | call (s : Option Nat) (d : Nat)

def memOf (bufs : Array Buf) : Mem := fun a =>
  let i := a / 1024 - 1
  if 1024 ≤ a then
    match bufs[i]? with
    | some b => if b.addr ≤ a then b.data[a - b.addr]? else none
    | none => none
  else none

def parseBuf? (idx : Nat) (tok : String) : Option Buf := do
  -- X=<align>:<hex>
  match (tok.drop 2).toString.splitOn ":" with
  | [al, hx] =>
      let a ← al.toNat?
      let bs ← parseBytes? hx
      pure { addr := 1024 * (idx + 1) + a, data := bs.toArray }
  | _ => none

/-! ### long inputs (`L:<fn>` ops, round 3): buffers are 2^24 apart, contents may
  be given as `@<len>,<mul>,<add>[,<pos>=<hh>]*` (byte i = 1 + (i*mul+add) % 251,
  then the patches), results show `<length>:<FNV-1a 64>` instead of hex -/

def BIG : Nat := 16777216

def memOfBig (bufs : Array Buf) : Mem := fun a =>
  let i := a / BIG - 1
  if BIG ≤ a then
    match bufs[i]? with
    | some b => if b.addr ≤ a then b.data[a - b.addr]? else none
    | none => none
  else none

def parseData? (hx : String) : Option (Array Byte) :=
  if hx.startsWith "@" then do
    match (hx.drop 1).toString.splitOn "," with
    | ls :: ms :: as :: patches =>
        let len ← ls.toNat?
        let mul ← ms.toNat?
        let add ← as.toNat?
        let base : Array Byte := (Array.range len).map fun i => BitVec.ofNat 8 (1 + (i * mul + add) % 251)
        patches.foldlM (fun (arr : Array Byte) (pt : String) => do
          match pt.splitOn "=" with
          | [ps, vs] =>
              let pos ← ps.toNat?
              let v ← parseBytes? vs
              match v with
              | [b] => pure (if pos < arr.size then arr.set! pos b else arr)
              | _ => none
          | _ => none) base
    | _ => none
  else (parseBytes? hx).map (·.toArray)

def parseBufBig? (spacing : Nat) (idx : Nat) (tok : String) : Option Buf := do
  match (tok.drop 2).toString.splitOn ":" with
  | [al, hx] =>
      let a ← al.toNat?
      let bs ← parseData? hx
      pure { addr := spacing * (idx + 1) + a, data := bs }
  | _ => none

def fnvStep (h : UInt64) (b : Byte) : UInt64 := (h ^^^ b.toNat.toUInt64) * 0x100000001b3
def FNV0 : UInt64 := 0xcbf29ce484222325

def hex16 (h : UInt64) : String :=
  let d := (Nat.toDigits 16 h.toNat)
  String.ofList (List.replicate (16 - d.length) '0' ++ d)

def hashedArr (bs : Array Byte) : String :=
  toString bs.size ++ ":" ++ hex16 (bs.foldl fnvStep FNV0)

/-- hash of the `n` cells of the memory from `p` on (`none`: one of them is unmapped) -/
def hashMem (m : Mem) : Nat → Nat → UInt64 → Option UInt64
  | 0, _, h => some h
  | n + 1, p, h => match m p with
    | some b => hashMem m n (p + 1) (fnvStep h b)
    | none => none

def dumpBufsBig (m : Mem) (bufs : Array Buf) : Option String :=
  bufs.foldl (fun acc b => do
    let s ← acc
    let h ← hashMem m b.data.size b.addr FNV0
    pure (s ++ " " ++ toString b.data.size ++ ":" ++ hex16 h)) (some "")

def isBufTok (tok : String) : Bool :=
  match tok.toList with
  | c :: '=' :: _ => c.isUpper
  | _ => false

def parsePtr? (bufs : Array Buf) (tok : String) : Option (Option Nat) :=
  if tok = "N" then some none else
  match tok.toList with
  | c :: '+' :: rest => do
      let i := c.toNat - 'A'.toNat
      let b ← bufs[i]?
      let off ← (String.ofList rest).toNat?
      pure (some (b.addr + off))
  | _ => none

def parseArg? (bufs : Array Buf) (tok : String) : Option Arg :=
  if tok.startsWith "#" then (tok.drop 1).toString.toInt?.map Arg.int
  else match tok.splitOn "," with
    | [s, d] => do
        let s ← parsePtr? bufs s
        let d ← parsePtr? bufs d
        pure (Arg.call s (← d))
    | _ => (parsePtr? bufs tok).map Arg.ptr

def FUEL : Nat := 100000
def LFUEL : Nat := 4000000

def showPtr (base : Nat) : Option Nat → String
  | none => "N"
  | some p => if base ≤ p then "+" ++ toString (p - base) else "-" ++ toString (base - p)

def showSign (i : Int) : String := if i < 0 then "<" else if i = 0 then "=" else ">"

def dumpBufs (m : Mem) (bufs : Array Buf) : Option String :=
  bufs.foldl (fun acc b => do
    let s ← acc
    let bs ← readOut m b.addr b.data.size
    pure (s ++ " " ++ bytesHex bs)) (some "")

/-- the driver's `malloc`: a fresh block at address 16384 (or NULL) -/
def mallocAt (fail : Bool) : Alloc := fun m n =>
  if fail then none else
  some ((fun a => if 16384 ≤ a ∧ a < 16384 + n then some 0xA5#8 else m a), 16384)

/-- the mapped cells from `p` on (the whole block `mallocAt` mapped) -/
def readBlock (m : Mem) : Nat → Nat → List Byte
  | 0, _ => []
  | f + 1, p => match m p with
    | some b => b :: readBlock m f (p + 1)
    | none => []

def finish (bufs : Array Buf) (r : Option (Mem × String)) : String :=
  match r with
  | none => "fault"
  | some (m, ret) =>
    match dumpBufs m bufs with
    | none => "fault"
    | some d => ret ++ d

def finishBig (bufs : Array Buf) (r : Option (Mem × String)) : String :=
  match r with
  | none => "fault"
  | some (m, ret) =>
    match dumpBufsBig m bufs with
    | none => "fault"
    | some d => ret ++ d

def strtokSeq (FUEL : Nat) (reent : Bool) (m : Mem) (base : Nat) :
    List Arg → Option Nat → List String → Option (Mem × String)
  | [], _, acc => some (m, String.intercalate "," acc.reverse)
  | Arg.call s d :: rest, save, acc =>
      match (if reent then strtok_r m s d save FUEL else strtok m s d save FUEL) with
      | none => none
      | some (m, save, r) => strtokSeq FUEL reent m base rest save (showPtr base r :: acc)
  | _ :: _, _, _ => none

/-- `big = false`: the op format of rounds 1-2 (buffers 1024 apart, hex dump);
`big = true`: an `L:` op (buffers 2^24 apart, hashed dump, more fuel) -/
def runOpG (big : Bool) (fn : String) (bufs : Array Buf) (args : List Arg) : String :=
  let m := if big then memOfBig bufs else memOf bufs
  let FUEL := if big then LFUEL else FUEL
  let finish := if big then finishBig else finish
  let base : Nat := match args with
    | Arg.ptr (some p) :: _ => p
    | Arg.call (some p) _ :: _ => p
    | _ => (bufs[0]?.map (·.addr)).getD 0
  let wp (r : Option (Mem × Nat)) : Option (Mem × String) := r.map fun (m, p) => (m, showPtr base (some p))
  let rp (r : Option (Option Nat)) : Option (Mem × String) := r.map fun p => (m, showPtr base p)
  let rn (r : Option Nat) : Option (Mem × String) := r.map fun k => (m, toString k)
  let rs (r : Option Int) : Option (Mem × String) := r.map fun k => (m, showSign k)
  let res : Option (Option (Mem × String)) :=
    match fn, args with
    | "memcpy", [.ptr (some d), .ptr (some s), .int n] => some (wp (memcpy m d s n.toNat))
    | "memmove", [.ptr (some d), .ptr (some s), .int n] => some (wp (memmove m d s n.toNat))
    | "memset", [.ptr (some d), .int c, .int n] => some (wp (memset m d c n.toNat))
    | "memcmp", [.ptr (some d), .ptr (some s), .int n] => some (rs (memcmp m d s n.toNat))
    | "memchr", [.ptr (some s), .int c, .int n] => some (rp (memchr m s c n.toNat))
    | "memrchr", [.ptr (some s), .int c, .int n] => some (rp (memrchr m s c n.toNat))
    | "strlen", [.ptr (some s)] => some (rn (strlen m s FUEL))
    | "strnlen", [.ptr (some s), .int n] => some (rn (strnlen m s n.toNat))
    | "strcpy", [.ptr (some d), .ptr (some s)] => some (wp (strcpy m d s FUEL))
    | "strncpy", [.ptr (some d), .ptr (some s), .int n] => some (wp (strncpy m d s n.toNat))
    | "strlcpy", [.ptr (some d), .ptr (some s), .int n] =>
        some ((strlcpy m d s n.toNat FUEL).map fun (m, k) => (m, toString k))
    | "strcat", [.ptr (some d), .ptr (some s)] => some (wp (strcat m d s FUEL))
    | "strncat", [.ptr (some d), .ptr (some s), .int n] => some (wp (strncat m d s n.toNat FUEL))
    | "strcmp", [.ptr (some a), .ptr (some b)] => some (rs (strcmp m a b FUEL))
    | "strncmp", [.ptr (some a), .ptr (some b), .int n] => some (rs (strncmp m a b n.toNat))
    | "strcasecmp", [.ptr (some a), .ptr (some b)] => some (rs (strcasecmp m a b FUEL))
    | "strncasecmp", [.ptr (some a), .ptr (some b), .int n] => some (rs (strncasecmp m a b n.toNat))
    | "strchr", [.ptr (some s), .int c] => some (rp (strchr m s c FUEL))
    | "strrchr", [.ptr (some s), .int c] => some (rp (strrchr m s c FUEL))
    | "strchrnul", [.ptr (some s), .int c] => some (rp ((strchrnul m s c FUEL).map some))
    | "strstr", [.ptr (some h), .ptr (some n)] => some (rp (strstr m h n FUEL))
    | "strcasestr", [.ptr (some h), .ptr (some n)] => some (rp (strcasestr m h n FUEL))
    | "strspn", [.ptr (some s), .ptr (some a)] => some (rn (strspn m s a FUEL))
    | "strcspn", [.ptr (some s), .ptr (some a)] => some (rn (strcspn m s a FUEL))
    | "strpbrk", [.ptr (some s), .ptr (some a)] => some (rp (strpbrk m s a FUEL))
    | "strlwr", [.ptr (some s)] => some (wp (strlwr m s FUEL))
    | "strupr", [.ptr (some s)] => some (wp (strupr m s FUEL))
    | "strdup", [.ptr (some s), .int fail] =>
        some ((strdup (mallocAt (fail ≠ 0)) m s FUEL).bind fun (m, r) =>
          match r with
          | none => some (m, "N")
          | some p => some (m, bytesHex (readBlock m 4096 p)))
    | "strndup", [.ptr (some s), .int n, .int fail] =>
        some ((strndup (mallocAt (fail ≠ 0)) m s n.toNat).bind fun (m, r) =>
          match r with
          | none => some (m, "N")
          | some p => some (m, bytesHex (readBlock m 4096 p)))
    | "strtok", calls => some (strtokSeq FUEL false m base calls none [])
    | "strtok_r", calls => some (strtokSeq FUEL true m base calls none [])
    | _, _ => none
  match res with
  | none => "bad-op"
  | some r => finish bufs r

def runOp (fn : String) (bufs : Array Buf) (args : List Arg) : String := runOpG false fn bufs args

/-! ### long WRITERS.  The memory of the model is a function; every `wr` wraps it
  in one more closure, so a call that writes n bytes costs O(n^2) to run and to
  read back: 300 KiB are out of reach.  For the ten functions that write O(n)
  bytes the `L:` ops therefore print the RIGHT-HAND SIDE of the theorems of
  Props.lean (`memcpy_spec`, `memmove_spec`, `memset_spec`, `strcpy_spec`,
  `strncpy_short/_long`, `strlcpy_spec`, `strcat_spec`, `strncat_spec`,
  `strdup_spec`, `strndup_string/_array`) evaluated on arrays: destination =
  the list the theorem names, everything else unchanged, `fault` when a byte the
  definition needs does not exist.  All other `L:` ops (the readers, strtok_r,
  strlwr/strupr with a handful of letters) run the model itself. -/

/-- spacing of the buffers of the long WRITER ops (round 3b) and the address of their malloc block -/
def FBIG : Nat := 524288

def decodePtr (bufs : Array Buf) (a : Nat) : Option (Nat × Nat) := do
  -- the buffers are in increasing address order: the last one that starts at or below `a`
  let k := (bufs.filter fun b => b.addr ≤ a).size
  if k = 0 then none else
  let b ← bufs[k - 1]?
  pure (k - 1, a - b.addr)

def sliceA (b : Array Byte) (off n : Nat) : Option (Array Byte) :=
  if off + n ≤ b.size then some (b.extract off (off + n)) else none

def blitA (d : Array Byte) (off : Nat) (src : Array Byte) : Option (Array Byte) :=
  if off + src.size ≤ d.size then
    some ((d.extract 0 off) ++ src ++ (d.extract (off + src.size) d.size))
  else none

/-- index of the first NUL at or after `off`, relative to `off`, looking at no more than `n` bytes;
`some (k, true)` found at k, `some (n, false)` none in the first n, `none` the array ends first -/
def scanA (b : Array Byte) (off : Nat) : Nat → Nat → Option (Nat × Bool)
  | 0, k => some (k, false)
  | n + 1, k => match b[off + k]? with
    | none => none
    | some x => if x = 0 then some (k, true) else scanA b off n (k + 1)

def cstrLenA (b : Array Byte) (off : Nat) : Option Nat := do
  let (k, found) ← scanA b off (b.size + 1) 0
  if found then pure k else none

def specLong (fn : String) (bufs : Array Buf) (args : List Arg) : Option String := do
  let dump (bs : Array (Array Byte)) : String := bs.foldl (fun s b => s ++ " " ++ hashedArr b) ""
  let datas := bufs.map (·.data)
  match fn, args with
  | "memcpy", [.ptr (some d), .ptr (some s), .int n] | "memmove", [.ptr (some d), .ptr (some s), .int n] =>
      let (di, doff) ← decodePtr bufs d
      let (si, soff) ← decodePtr bufs s
      let data ← sliceA (← datas[si]?) soff n.toNat
      let nd ← blitA (← datas[di]?) doff data
      pure ("+0" ++ dump (datas.set! di nd))
  | "memset", [.ptr (some d), .int c, .int n] =>
      let (di, doff) ← decodePtr bufs d
      let nd ← blitA (← datas[di]?) doff (Array.replicate n.toNat (toChar c))
      pure ("+0" ++ dump (datas.set! di nd))
  | "strcpy", [.ptr (some d), .ptr (some s)] =>
      let (di, doff) ← decodePtr bufs d
      let (si, soff) ← decodePtr bufs s
      let l ← cstrLenA (← datas[si]?) soff
      let data ← sliceA (← datas[si]?) soff (l + 1)
      let nd ← blitA (← datas[di]?) doff data
      pure ("+0" ++ dump (datas.set! di nd))
  | "strncpy", [.ptr (some d), .ptr (some s), .int n] =>
      let (di, doff) ← decodePtr bufs d
      let (si, soff) ← decodePtr bufs s
      let (k, _) ← scanA (← datas[si]?) soff n.toNat 0
      let data ← sliceA (← datas[si]?) soff k
      let nd ← blitA (← datas[di]?) doff (data ++ Array.replicate (n.toNat - k) 0)
      pure ("+0" ++ dump (datas.set! di nd))
  | "strlcpy", [.ptr (some d), .ptr (some s), .int n] =>
      let (di, doff) ← decodePtr bufs d
      let (si, soff) ← decodePtr bufs s
      let l ← cstrLenA (← datas[si]?) soff
      if n.toNat = 0 then pure (toString l ++ dump datas) else
      let data ← sliceA (← datas[si]?) soff (min l (n.toNat - 1))
      let nd ← blitA (← datas[di]?) doff (data.push 0)
      pure (toString l ++ dump (datas.set! di nd))
  | "strcat", [.ptr (some d), .ptr (some s)] =>
      let (di, doff) ← decodePtr bufs d
      let (si, soff) ← decodePtr bufs s
      let dl ← cstrLenA (← datas[di]?) doff
      let l ← cstrLenA (← datas[si]?) soff
      let data ← sliceA (← datas[si]?) soff (l + 1)
      let nd ← blitA (← datas[di]?) (doff + dl) data
      pure ("+0" ++ dump (datas.set! di nd))
  | "strncat", [.ptr (some d), .ptr (some s), .int n] =>
      let (di, doff) ← decodePtr bufs d
      let (si, soff) ← decodePtr bufs s
      let dl ← cstrLenA (← datas[di]?) doff
      let (k, _) ← scanA (← datas[si]?) soff n.toNat 0
      let data ← sliceA (← datas[si]?) soff k
      let nd ← blitA (← datas[di]?) (doff + dl) (data.push 0)
      pure ("+0" ++ dump (datas.set! di nd))
  | "strdup", [.ptr (some s), .int fail] =>
      let (si, soff) ← decodePtr bufs s
      let l ← cstrLenA (← datas[si]?) soff
      if fail ≠ 0 then pure ("N" ++ dump datas) else
      let data ← sliceA (← datas[si]?) soff (l + 1)
      pure (hashedArr data ++ dump datas)
  | "strndup", [.ptr (some s), .int n, .int fail] =>
      let (si, soff) ← decodePtr bufs s
      let (k, _) ← scanA (← datas[si]?) soff n.toNat 0
      if fail ≠ 0 then pure ("N" ++ dump datas) else
      let data ← sliceA (← datas[si]?) soff k
      pure (hashedArr (data.push 0) ++ dump datas)
  | _, _ => none

/-! ### round 3b: the long WRITERS run the LITERAL model in its linear-time form (Fast.lean: the definitions of
  Model.lean over an array of cells; Props.lean `*_linear_form`: they compute exactly what the model computes on
  the memory the array stands for).  Buffers are `spacing` apart here (a multiple of 2^19 that exceeds the longest
  buffer, chosen per op in `opLine`), the malloc block of strdup/strndup lies behind the last buffer's slot;
  `specLong` above (the right-hand sides of the specification theorems on arrays) is kept as a cross-check: when it
  disagrees with the model the line gets the suffix ` !spec` and so differs from the implementation's. -/


def mkCells (spacing : Nat) (bufs : Array Buf) : AMem := Id.run do
  let mut c : AMem := Array.replicate (spacing * (bufs.size + 1)) none
  for b in bufs do
    for i in [0:b.data.size] do
      c := c.setIfInBounds (b.addr + i) (some b.data[i]!)
  return c

def hashCells (c : AMem) (p n : Nat) : Option UInt64 := Id.run do
  let mut h := FNV0
  for i in [0:n] do
    match c.getD (p + i) none with
    | some b => h := fnvStep h b
    | none => return none
  return some h

def dumpCells (c : AMem) (bufs : Array Buf) : Option String :=
  bufs.foldl (fun acc b => do
    let s ← acc
    let h ← hashCells c b.addr b.data.size
    pure (s ++ " " ++ toString b.data.size ++ ":" ++ hex16 h)) (some "")

/-- the mapped cells from `p` on (the block `mallocArr` mapped) -/
def blockOf (c : AMem) (p : Nat) : Array Byte := Id.run do
  let mut out : Array Byte := #[]
  let mut i := p
  while true do
    match c.getD i none with
    | some b => out := out.push b; i := i + 1
    | none => break
  return out

def runFast (spacing : Nat) (fn : String) (bufs : Array Buf) (args : List Arg) : Option String :=
  let c := mkCells spacing bufs
  let FBLK := spacing * (bufs.size + 1)
  let base : Nat := match args with
    | Arg.ptr (some p) :: _ => p
    | _ => (bufs[0]?.map (·.addr)).getD 0
  let wp (r : Option (AMem × Nat)) : Option (AMem × String) := r.map fun (c, p) => (c, showPtr base (some p))
  let dup (r : Option (AMem × Option Nat)) : Option (AMem × String) := r.map fun (c, r) =>
    match r with
    | none => (c, "N")
    | some p => (c, hashedArr (blockOf c p))
  let res : Option (Option (AMem × String)) :=
    match fn, args with
    | "memcpy", [.ptr (some d), .ptr (some s), .int n] => some (wp (memcpyA c d s n.toNat))
    | "memmove", [.ptr (some d), .ptr (some s), .int n] => some (wp (memmoveA c d s n.toNat))
    | "memset", [.ptr (some d), .int x, .int n] => some (wp (memsetA c d x n.toNat))
    | "strcpy", [.ptr (some d), .ptr (some s)] => some (wp (strcpyA c d s LFUEL))
    | "strncpy", [.ptr (some d), .ptr (some s), .int n] => some (wp (strncpyA c d s n.toNat))
    | "strlcpy", [.ptr (some d), .ptr (some s), .int n] =>
        some ((strlcpyA c d s n.toNat LFUEL).map fun (c, k) => (c, toString k))
    | "strcat", [.ptr (some d), .ptr (some s)] => some (wp (strcatA c d s LFUEL))
    | "strncat", [.ptr (some d), .ptr (some s), .int n] => some (wp (strncatA c d s n.toNat LFUEL))
    | "strdup", [.ptr (some s), .int fail] => some (dup (strdupA (mallocArr (fail ≠ 0) FBLK) c s LFUEL))
    | "strndup", [.ptr (some s), .int n, .int fail] => some (dup (strndupA (mallocArr (fail ≠ 0) FBLK) c s n.toNat))
    | _, _ => none
  match res with
  | none => none
  | some none => some "fault"
  | some (some (c, ret)) =>
    match dumpCells c bufs with
    | none => some "fault"
    | some d => some (ret ++ d)

def longWriters : List String :=
  ["memcpy", "memmove", "memset", "strcpy", "strncpy", "strlcpy", "strcat", "strncat", "strdup", "strndup"]

def runOpLong (spacing : Nat) (fn : String) (bufs : Array Buf) (args : List Arg) : String :=
  if longWriters.contains fn then
    let r := (runFast spacing fn bufs args).getD "bad-op"
    -- cross-check with the right-hand side of the specification theorems
    if bufs.any (fun b => b.data.size > 400000) then r else
    let sp := (specLong fn bufs args).getD "fault"
    if sp = r then r else r ++ " !spec"
  else runOpG true fn bufs args

/-! ### ctype ops (round 3) -/

def ctFns : List (String × (Int → Int) × Bool) :=
  [("isalnum", isalnumI, true), ("isalpha", isalphaI, true), ("isblank", isblankI, true),
   ("isdigit", isdigitI, true), ("islower", islowerI, true), ("isprint", isprintI, true),
   ("isspace", isspaceI, true), ("isupper", isupperI, true), ("isxdigit", isxdigitI, true),
   ("tolower", tolowerC, false), ("toupper", toupperC, false), ("isascii", isasciiI, true),
   ("toascii", toasciiI, false)]

def ctArgs : List Int := (List.range 257).map fun (i : Nat) => Int.ofNat i - 1

def cttab (name : String) : Option String := do
  let (_, f, cls) ← ctFns.find? (·.1 == name)
  if cls then pure (String.ofList (ctArgs.map fun c => if f c ≠ 0 then '1' else '0'))
  else pure (String.intercalate "," (ctArgs.map fun c => toString (f c)))

def ctypeLine (c : Int) : String :=
  String.intercalate " " (ctFns.map fun (_, f, cls) => toString (if cls then (if f c ≠ 0 then 1 else 0) else f c))

def platNames : List String := ["long", "size_t", "int", "A", "Z", "a", "z", "delta"]

def opLine (ws : List String) : Option String :=
  match ws with
  | fn :: rest => do
      let big := fn.startsWith "L:"
      let fn := if big then (fn.drop 2).toString else fn
      let btoks := rest.takeWhile isBufTok
      let atoks := rest.dropWhile isBufTok
      -- long ops: the contents are parsed first (address = alignment), then the buffers are laid out `spacing` apart
      let bufs ← (btoks.zipIdx).mapM fun (t, i) => if big then parseBufBig? 0 i t else parseBuf? i t
      let bufs := bufs.toArray
      let longest := bufs.foldl (fun mx b => max mx (b.addr + b.data.size)) 0
      let spacing := if longWriters.contains fn then FBIG * ((longest + 64) / FBIG + 1) else BIG
      let bufs := if big then bufs.mapIdx fun i b => { b with addr := spacing * (i + 1) + b.addr } else bufs
      let args ← atoks.mapM (parseArg? bufs)
      pure (if big then runOpLong spacing fn bufs args else runOp fn bufs args)
  | _ => none

def stepLine (_ : Unit) (line : String) : Unit × String :=
  let r : Option String :=
    match words line with
    | ["reset"] => some "ok"
    -- round 3b: only what the property depends on is compared (CHAR_BIT; the width of `int` and the ASCII
    -- codes); sizeof(long), sizeof(size_t), memcpy.c's BLOCK_SZ and the signedness of char are tags of the harness
    | ["plat"] => some "char_bit=8"
    | ["plat2"] => some (String.intercalate " " (((platNames.zip platConsts).drop 2).map fun (n, v) => n ++ "=" ++ toString v))
    | ["cttab", name, _] => cttab name
    | ["ctype", c] => if c.startsWith "#" then (c.drop 1).toString.toInt?.map ctypeLine else none
    | "premain" :: _ :: "cttab" :: name :: _ => cttab name
    | "premain" :: _ :: rest => opLine rest
    | ws => opLine ws
  ((), r.getD "bad-op")

def main : IO Unit := run () stepLine
