/-
  C08 driver.  Op line:   <fn> <buffer>* <arg>*
    buffer  `A=<align>:<hex>`   buffers are named A, B, C … in this order; buffer
                                number i (A = 0) lives at address 1024*(i+1)+align
                                and nothing else is mapped
    arg     `A+<off>` pointer, `N` null pointer, `#<int>` integer,
            `A+<off>,B+<off>` / `N,B+<off>`  one strtok call (str, delim)
  Result:   <ret> <hex of every buffer afterwards>
    ret     `+k` pointer as offset from the first pointer argument, `N` NULL,
            a decimal number, `<`/`=`/`>` for comparison functions,
            for strdup/strndup the hex of the new block
-/
import IgrisModel.C08.Model
open Igris.Proto Igris.C08

structure Buf where
  addr : Nat
  data : Array Byte

inductive Arg
  | ptr (p : Option Nat)
  | int (i : Int)
  | call (s : Option Nat) (d : Nat)

def memOf (bufs : Array Buf) : Mem := fun a =>
  let i := a / 1024 - 1
  if 1024 ≤ a then
    match bufs[i]? with
    | some b => if b.addr ≤ a then b.data[a - b.addr]? else none
    | none => none
  else none

def parseBuf? (idx : Nat) (tok : String) : Option Buf := do
  -- X=<align>:<hex>
  match (tok.drop 2).toString.splitOn ":" with
  | [al, hx] =>
      let a ← al.toNat?
      let bs ← parseBytes? hx
      pure { addr := 1024 * (idx + 1) + a, data := bs.toArray }
  | _ => none

def isBufTok (tok : String) : Bool :=
  match tok.toList with
  | c :: '=' :: _ => c.isUpper
  | _ => false

def parsePtr? (bufs : Array Buf) (tok : String) : Option (Option Nat) :=
  if tok = "N" then some none else
  match tok.toList with
  | c :: '+' :: rest => do
      let i := c.toNat - 'A'.toNat
      let b ← bufs[i]?
      let off ← (String.ofList rest).toNat?
      pure (some (b.addr + off))
  | _ => none

def parseArg? (bufs : Array Buf) (tok : String) : Option Arg :=
  if tok.startsWith "#" then (tok.drop 1).toString.toInt?.map Arg.int
  else match tok.splitOn "," with
    | [s, d] => do
        let s ← parsePtr? bufs s
        let d ← parsePtr? bufs d
        pure (Arg.call s (← d))
    | _ => (parsePtr? bufs tok).map Arg.ptr

def FUEL : Nat := 100000

def showPtr (base : Nat) : Option Nat → String
  | none => "N"
  | some p => if base ≤ p then "+" ++ toString (p - base) else "-" ++ toString (base - p)

def showSign (i : Int) : String := if i < 0 then "<" else if i = 0 then "=" else ">"

def dumpBufs (m : Mem) (bufs : Array Buf) : Option String :=
  bufs.foldl (fun acc b => do
    let s ← acc
    let bs ← readOut m b.addr b.data.size
    pure (s ++ " " ++ bytesHex bs)) (some "")

/-- the driver's `malloc`: a fresh block at address 16384 (or NULL) -/
def mallocAt (fail : Bool) : Alloc := fun m n =>
  if fail then none else
  some ((fun a => if 16384 ≤ a ∧ a < 16384 + n then some 0xA5#8 else m a), 16384)

/-- the mapped cells from `p` on (the whole block `mallocAt` mapped) -/
def readBlock (m : Mem) : Nat → Nat → List Byte
  | 0, _ => []
  | f + 1, p => match m p with
    | some b => b :: readBlock m f (p + 1)
    | none => []

def finish (bufs : Array Buf) (r : Option (Mem × String)) : String :=
  match r with
  | none => "fault"
  | some (m, ret) =>
    match dumpBufs m bufs with
    | none => "fault"
    | some d => ret ++ d

def strtokSeq (reent : Bool) (m : Mem) (base : Nat) :
    List Arg → Option Nat → List String → Option (Mem × String)
  | [], _, acc => some (m, String.intercalate "," acc.reverse)
  | Arg.call s d :: rest, save, acc =>
      match (if reent then strtok_r m s d save FUEL else strtok m s d save FUEL) with
      | none => none
      | some (m, save, r) => strtokSeq reent m base rest save (showPtr base r :: acc)
  | _ :: _, _, _ => none

def runOp (fn : String) (bufs : Array Buf) (args : List Arg) : String :=
  let m := memOf bufs
  let base : Nat := match args with
    | Arg.ptr (some p) :: _ => p
    | Arg.call (some p) _ :: _ => p
    | _ => (bufs[0]?.map (·.addr)).getD 0
  let wp (r : Option (Mem × Nat)) : Option (Mem × String) := r.map fun (m, p) => (m, showPtr base (some p))
  let rp (r : Option (Option Nat)) : Option (Mem × String) := r.map fun p => (m, showPtr base p)
  let rn (r : Option Nat) : Option (Mem × String) := r.map fun k => (m, toString k)
  let rs (r : Option Int) : Option (Mem × String) := r.map fun k => (m, showSign k)
  let res : Option (Option (Mem × String)) :=
    match fn, args with
    | "memcpy", [.ptr (some d), .ptr (some s), .int n] => some (wp (memcpy m d s n.toNat))
    | "memmove", [.ptr (some d), .ptr (some s), .int n] => some (wp (memmove m d s n.toNat))
    | "memset", [.ptr (some d), .int c, .int n] => some (wp (memset m d c n.toNat))
    | "memcmp", [.ptr (some d), .ptr (some s), .int n] => some (rs (memcmp m d s n.toNat))
    | "memchr", [.ptr (some s), .int c, .int n] => some (rp (memchr m s c n.toNat))
    | "memrchr", [.ptr (some s), .int c, .int n] => some (rp (memrchr m s c n.toNat))
    | "strlen", [.ptr (some s)] => some (rn (strlen m s FUEL))
    | "strnlen", [.ptr (some s), .int n] => some (rn (strnlen m s n.toNat))
    | "strcpy", [.ptr (some d), .ptr (some s)] => some (wp (strcpy m d s FUEL))
    | "strncpy", [.ptr (some d), .ptr (some s), .int n] => some (wp (strncpy m d s n.toNat))
    | "strlcpy", [.ptr (some d), .ptr (some s), .int n] =>
        some ((strlcpy m d s n.toNat FUEL).map fun (m, k) => (m, toString k))
    | "strcat", [.ptr (some d), .ptr (some s)] => some (wp (strcat m d s FUEL))
    | "strncat", [.ptr (some d), .ptr (some s), .int n] => some (wp (strncat m d s n.toNat FUEL))
    | "strcmp", [.ptr (some a), .ptr (some b)] => some (rs (strcmp m a b FUEL))
    | "strncmp", [.ptr (some a), .ptr (some b), .int n] => some (rs (strncmp m a b n.toNat))
    | "strcasecmp", [.ptr (some a), .ptr (some b)] => some (rs (strcasecmp m a b FUEL))
    | "strncasecmp", [.ptr (some a), .ptr (some b), .int n] => some (rs (strncasecmp m a b n.toNat))
    | "strchr", [.ptr (some s), .int c] => some (rp (strchr m s c FUEL))
    | "strrchr", [.ptr (some s), .int c] => some (rp (strrchr m s c FUEL))
    | "strchrnul", [.ptr (some s), .int c] => some (rp ((strchrnul m s c FUEL).map some))
    | "strstr", [.ptr (some h), .ptr (some n)] => some (rp (strstr m h n FUEL))
    | "strcasestr", [.ptr (some h), .ptr (some n)] => some (rp (strcasestr m h n FUEL))
    | "strspn", [.ptr (some s), .ptr (some a)] => some (rn (strspn m s a FUEL))
    | "strcspn", [.ptr (some s), .ptr (some a)] => some (rn (strcspn m s a FUEL))
    | "strpbrk", [.ptr (some s), .ptr (some a)] => some (rp (strpbrk m s a FUEL))
    | "strlwr", [.ptr (some s)] => some (wp (strlwr m s FUEL))
    | "strupr", [.ptr (some s)] => some (wp (strupr m s FUEL))
    | "strdup", [.ptr (some s), .int fail] =>
        some ((strdup (mallocAt (fail ≠ 0)) m s FUEL).bind fun (m, r) =>
          match r with
          | none => some (m, "N")
          | some p => some (m, bytesHex (readBlock m 4096 p)))
    | "strndup", [.ptr (some s), .int n, .int fail] =>
        some ((strndup (mallocAt (fail ≠ 0)) m s n.toNat).bind fun (m, r) =>
          match r with
          | none => some (m, "N")
          | some p => some (m, bytesHex (readBlock m 4096 p)))
    | "strtok", calls => some (strtokSeq false m base calls none [])
    | "strtok_r", calls => some (strtokSeq true m base calls none [])
    | _, _ => none
  match res with
  | none => "bad-op"
  | some r => finish bufs r

def stepLine (_ : Unit) (line : String) : Unit × String :=
  let r : Option String :=
    match words line with
    | ["reset"] => some "ok"
    | ["plat"] => some ("long=" ++ toString BLOCK_SZ ++ " char=signed")
    | fn :: rest => do
        let btoks := rest.takeWhile isBufTok
        let atoks := rest.dropWhile isBufTok
        let bufs ← (btoks.zipIdx).mapM fun (t, i) => parseBuf? i t
        let bufs := bufs.toArray
        let args ← atoks.mapM (parseArg? bufs)
        pure (runOp fn bufs args)
    | _ => none
  ((), r.getD "bad-op")

def main : IO Unit := run () stepLine
