/-
  C08 round 3b - the linear-time form (Fast.lean) computes what the literal model computes.
  `absA c` is the memory the array `c` stands for.  For every definition `fA` of Fast.lean:
      (fA c args).map <abs on the memory component> = f (absA c) args
  i.e. the same fault / no-fault behaviour, the same return value, and the resulting array stands for
  the resulting memory of the literal model.
-/
import IgrisModel.C08.Fast
namespace Igris.C08
open Igris.Proto

/-- abstraction on a result that carries a memory -/
def absP {α : Type} (p : AMem × α) : Mem × α := (absA p.1, p.2)

@[simp] theorem rd_absA (c : AMem) (a : Ptr) : rd (absA c) a = rdA c a := rfl

theorem absA_set (c : AMem) (a : Ptr) (v : Byte) (h : a < c.size) :
    absA (c.setIfInBounds a (some v)) = fun j => if j = a then some v else absA c j := by
  funext j
  simp only [absA, Array.getD_eq_getD_getElem?, Array.getElem?_setIfInBounds]
  by_cases hj : j = a
  · subst hj; simp [h]
  · have : ¬ a = j := fun e => hj e.symm
    simp [hj, this]

@[simp] theorem wr_absA (c : AMem) (a : Ptr) (v : Byte) : wr (absA c) a v = (wrA c a v).map absA := by
  unfold wr wrA
  have e : absA c a = c.getD a none := rfl
  rw [e]
  cases h : c.getD a none with
  | none => rfl
  | some b =>
    have hlt : a < c.size := by
      by_cases hlt : a < c.size
      · exact hlt
      · simp [Array.getD_eq_getD_getElem?, Array.getElem?_eq_none (Nat.le_of_not_lt hlt)] at h
    simp [absA_set c a v hlt]


section
variable {α β γ : Type}

theorem bind_sim (x : Option AMem) (f : AMem → Option β) (g : Mem → Option γ) (φ : β → γ)
    (h : ∀ c, g (absA c) = (f c).map φ) : (x.map absA) >>= g = (x >>= f).map φ := by
  cases x <;> simp [h]

theorem bind_simP (x : Option (AMem × α)) (f : AMem × α → Option β) (g : Mem × α → Option γ) (φ : β → γ)
    (h : ∀ c a, g (absA c, a) = (f (c, a)).map φ) : (x.map absP) >>= g = (x >>= f).map φ := by
  cases x with
  | none => rfl
  | some p => obtain ⟨c, a⟩ := p; simp [absP, h]

theorem bind_same (x : Option α) (f : α → Option β) (g : α → Option γ) (φ : β → γ)
    (h : ∀ a, g a = (f a).map φ) : x >>= g = (x >>= f).map φ := by
  cases x <;> simp [h]

theorem ite_sim {c : Prop} [Decidable c] {a a' : Option β} {b b' : Option γ} {φ : β → γ}
    (ht : c → b = a.map φ) (he : ¬c → b' = a'.map φ) : (if c then b else b') = (if c then a else a').map φ := by
  by_cases hc : c
  · simpa [hc] using ht hc
  · simpa [hc] using he hc
end

macro "wstep" : tactic => `(tactic| (rw [wr_absA]; refine bind_sim _ _ _ _ fun _ => ?_))
macro "rstep" : tactic => `(tactic| (rw [rd_absA]; refine bind_same _ _ _ _ fun _ => ?_))

/-! ### readers -/

theorem loadN_absA (c : AMem) : ∀ k a, loadN (absA c) k a = loadNA c k a
  | 0, _ => rfl
  | k + 1, a => by simp only [loadN, loadNA, rd_absA, loadN_absA c k]

theorem scanNul_absA (c : AMem) : ∀ f s, scanNul (absA c) f s = scanNulA c f s
  | 0, _ => rfl
  | f + 1, s => by simp only [scanNul, scanNulA, rd_absA, scanNul_absA c f]

theorem strlen_absA (c : AMem) (s fuel : Nat) : strlen (absA c) s fuel = strlenA c s fuel := by
  simp only [strlen, strlenA, scanNul_absA]

theorem strnlenLoop_absA (c : AMem) : ∀ r len s, strnlenLoop (absA c) r len s = strnlenLoopA c r len s
  | 0, _, _ => rfl
  | r + 1, len, s => by simp only [strnlenLoop, strnlenLoopA, rd_absA, strnlenLoop_absA c r]

theorem strnlen_absA (c : AMem) (s n : Nat) : strnlen (absA c) s n = strnlenA c s n := strnlenLoop_absA c _ _ _

/-! ### writers -/

theorem memsetLoop_absA (v : Byte) : ∀ n (c : AMem) p,
    memsetLoop v n (absA c) p = (memsetLoopA v n c p).map absA
  | 0, _, _ => rfl
  | n + 1, c, p => by
    simp only [memsetLoopA, memsetLoop]
    wstep
    exact memsetLoop_absA v n _ _

theorem memset_absA (c : AMem) (d : Ptr) (x : Int) (n : Nat) :
    memset (absA c) d x n = (memsetA c d x n).map absP := by
  simp only [memset, memsetA]
  rw [memsetLoop_absA]
  refine bind_sim _ _ _ _ fun _ => ?_
  rfl

theorem storeL_absA : ∀ (w : List Byte) (c : AMem) a, storeL w (absA c) a = (storeLA w c a).map absA
  | [], _, _ => rfl
  | b :: tl, c, a => by
    simp only [storeL, storeLA]
    wstep
    exact storeL_absA tl _ _

theorem copyWord_absA (c : AMem) (d s : Ptr) : copyWord (absA c) d s = (copyWordA c d s).map absA := by
  simp only [copyWord, copyWordA, loadN_absA]
  refine bind_same _ _ _ _ fun _ => ?_
  exact storeL_absA _ _ _

macro "cwstep" : tactic => `(tactic| (rw [copyWord_absA]; refine bind_sim _ _ _ _ fun _ => ?_))

theorem memcpyLoop4_absA : ∀ f (c : AMem) n d s,
    memcpyLoop4 f (absA c) n d s = (memcpyLoop4A f c n d s).map absP
  | 0, _, _, _, _ => rfl
  | f + 1, c, n, d, s => by
    simp only [memcpyLoop4, memcpyLoop4A]
    refine ite_sim (fun _ => ?_) (fun _ => rfl)
    cwstep
    cwstep
    cwstep
    cwstep
    exact memcpyLoop4_absA f _ _ _ _

theorem memcpyLoop1_absA : ∀ f (c : AMem) n d s,
    memcpyLoop1 f (absA c) n d s = (memcpyLoop1A f c n d s).map absP
  | 0, _, _, _, _ => rfl
  | f + 1, c, n, d, s => by
    simp only [memcpyLoop1, memcpyLoop1A]
    refine ite_sim (fun _ => ?_) (fun _ => rfl)
    cwstep
    exact memcpyLoop1_absA f _ _ _ _

theorem memcpyBytes_absA : ∀ n (c : AMem) d s,
    memcpyBytes n (absA c) d s = (memcpyBytesA n c d s).map absA
  | 0, _, _, _ => rfl
  | n + 1, c, d, s => by
    simp only [memcpyBytes, memcpyBytesA]
    rstep
    wstep
    exact memcpyBytes_absA n _ _ _

theorem memcpy_absA (c : AMem) (dst src : Ptr) (n : Nat) :
    memcpy (absA c) dst src n = (memcpyA c dst src n).map absP := by
  simp only [memcpy, memcpyA]
  refine ite_sim (fun _ => ?_) (fun _ => ?_)
  · rw [memcpyLoop4_absA]
    refine bind_simP _ _ _ _ fun c1 a1 => ?_
    obtain ⟨n1, d1, s1⟩ := a1
    dsimp only
    rw [memcpyLoop1_absA]
    refine bind_simP _ _ _ _ fun c2 a2 => ?_
    obtain ⟨n2, d2, s2⟩ := a2
    dsimp only
    rw [memcpyBytes_absA]
    refine bind_sim _ _ _ _ fun _ => ?_
    rfl
  · rw [memcpyBytes_absA]
    refine bind_sim _ _ _ _ fun _ => ?_
    rfl

theorem memmoveBack_absA : ∀ n (c : AMem) d s,
    memmoveBack n (absA c) d s = (memmoveBackA n c d s).map absA
  | 0, _, _, _ => rfl
  | n + 1, c, d, s => by
    simp only [memmoveBack, memmoveBackA]
    rstep
    wstep
    exact memmoveBack_absA n _ _ _

theorem memmove_absA (c : AMem) (dst src : Ptr) (n : Nat) :
    memmove (absA c) dst src n = (memmoveA c dst src n).map absP := by
  simp only [memmove, memmoveA]
  refine ite_sim (fun _ => ?_) (fun _ => memcpy_absA _ _ _ _)
  rw [memmoveBack_absA]
  refine bind_sim _ _ _ _ fun _ => ?_
  rfl

theorem strcpyLoop_absA : ∀ f (c : AMem) cp src,
    strcpyLoop f (absA c) cp src = (strcpyLoopA f c cp src).map absA
  | 0, _, _, _ => rfl
  | f + 1, c, cp, src => by
    simp only [strcpyLoop, strcpyLoopA]
    rstep
    wstep
    exact ite_sim (fun _ => strcpyLoop_absA f _ _ _) (fun _ => rfl)

theorem strcpy_absA (c : AMem) (d s fuel : Nat) : strcpy (absA c) d s fuel = (strcpyA c d s fuel).map absP := by
  simp only [strcpy, strcpyA]
  rw [strcpyLoop_absA]
  refine bind_sim _ _ _ _ fun _ => ?_
  rfl

theorem strncpyLoop_absA : ∀ n (c : AMem) dst src,
    strncpyLoop n (absA c) dst src = (strncpyLoopA n c dst src).map absA
  | 0, _, _, _ => rfl
  | n + 1, c, dst, src => by
    simp only [strncpyLoop, strncpyLoopA]
    rstep
    wstep
    exact ite_sim (fun _ => strncpyLoop_absA n _ _ _) (fun _ => memsetLoop_absA _ _ _ _)

theorem strncpy_absA (c : AMem) (d s n : Nat) : strncpy (absA c) d s n = (strncpyA c d s n).map absP := by
  simp only [strncpy, strncpyA]
  rw [strncpyLoop_absA]
  refine bind_sim _ _ _ _ fun _ => ?_
  rfl

theorem strlcpyLoop_absA : ∀ n (c : AMem) dst s,
    strlcpyLoop n (absA c) dst s = (strlcpyLoopA n c dst s).map absP
  | 0, _, _, _ => rfl
  | 1, _, _, _ => rfl
  | n + 2, c, dst, s => by
    simp only [strlcpyLoop, strlcpyLoopA]
    rstep
    refine ite_sim (fun _ => rfl) (fun _ => ?_)
    wstep
    exact strlcpyLoop_absA (n + 1) _ _ _

theorem strlcpy_absA (c : AMem) (d s size fuel : Nat) :
    strlcpy (absA c) d s size fuel = (strlcpyA c d s size fuel).map absP := by
  simp only [strlcpy, strlcpyA]
  refine ite_sim (fun _ => ?_) (fun _ => ?_)
  · rw [strlen_absA]
    refine bind_same _ _ _ _ fun _ => ?_
    rfl
  · rw [strlcpyLoop_absA]
    refine bind_simP _ _ _ _ fun c1 a1 => ?_
    obtain ⟨d1, s1⟩ := a1
    dsimp only
    wstep
    rw [strlen_absA]
    refine bind_same _ _ _ _ fun _ => ?_
    rfl

theorem strcatCopy_absA : ∀ f (c : AMem) s1 s2,
    strcatCopy f (absA c) s1 s2 = (strcatCopyA f c s1 s2).map absA
  | 0, _, _, _ => rfl
  | f + 1, c, s1, s2 => by
    simp only [strcatCopy, strcatCopyA]
    rstep
    wstep
    exact ite_sim (fun _ => strcatCopy_absA f _ _ _) (fun _ => rfl)

theorem strcat_absA (c : AMem) (d s fuel : Nat) : strcat (absA c) d s fuel = (strcatA c d s fuel).map absP := by
  simp only [strcat, strcatA, scanNul_absA]
  refine bind_same _ _ _ _ fun _ => ?_
  rw [strcatCopy_absA]
  refine bind_sim _ _ _ _ fun _ => ?_
  rfl

theorem catStep_absA (c : AMem) (s1 s2 : Ptr) : catStep (absA c) s1 s2 = (catStepA c s1 s2).map absP := by
  simp only [catStep, catStepA]
  rstep
  wstep
  rfl

macro "catstep" : tactic => `(tactic| (rw [catStep_absA]; refine bind_simP _ _ _ _ fun _ _ => ?_; dsimp only))

theorem cat4Body_absA (c : AMem) (s1 s2 : Ptr) : cat4Body (absA c) s1 s2 = (cat4BodyA c s1 s2).map absP := by
  simp only [cat4Body, cat4BodyA]
  catstep
  refine ite_sim (fun _ => rfl) (fun _ => ?_)
  catstep
  refine ite_sim (fun _ => rfl) (fun _ => ?_)
  catstep
  refine ite_sim (fun _ => rfl) (fun _ => ?_)
  catstep
  exact ite_sim (fun _ => rfl) (fun _ => rfl)

theorem strncat4_absA : ∀ k (c : AMem) s1 s2,
    strncat4 k (absA c) s1 s2 = (strncat4A k c s1 s2).map absP
  | 0, c, s1, s2 => by
    simp only [strncat4, strncat4A]
    rw [cat4Body_absA]
    refine bind_simP _ _ _ _ fun c1 r => ?_
    cases r <;> rfl
  | k + 1, c, s1, s2 => by
    simp only [strncat4, strncat4A]
    rw [cat4Body_absA]
    refine bind_simP _ _ _ _ fun c1 r => ?_
    cases r with
    | none => rfl
    | some x => exact strncat4_absA k _ _ _

theorem strncatTail_absA : ∀ n (c : AMem) s1 s2 x,
    strncatTail n (absA c) s1 s2 x = (strncatTailA n c s1 s2 x).map absA
  | 0, c, s1, s2, x => by
    simp only [strncatTail, strncatTailA]
    exact ite_sim (fun _ => wr_absA _ _ _) (fun _ => rfl)
  | n + 1, c, s1, s2, x => by
    simp only [strncatTail, strncatTailA]
    catstep
    exact ite_sim (fun _ => rfl) (fun _ => strncatTail_absA n _ _ _ _)

theorem strncat_absA (c : AMem) (s1 s2 n fuel : Nat) :
    strncat (absA c) s1 s2 n fuel = (strncatA c s1 s2 n fuel).map absP := by
  simp only [strncat, strncatA, scanNul_absA]
  refine bind_same _ _ _ _ fun _ => ?_
  refine ite_sim (fun _ => ?_) (fun _ => ?_)
  · rw [strncat4_absA]
    refine bind_simP _ _ _ _ fun c1 r => ?_
    cases r with
    | none => rfl
    | some t =>
      obtain ⟨x, y, z⟩ := t
      dsimp only
      rw [strncatTail_absA]
      refine bind_sim _ _ _ _ fun _ => ?_
      rfl
  · rw [strncatTail_absA]
    refine bind_sim _ _ _ _ fun _ => ?_
    rfl

/-! ### strdup / strndup: the allocator is a parameter in both forms; `AllocSim` says the two forms agree -/

def AllocSim (malloc : Alloc) (mallocA : AllocA) : Prop :=
  ∀ c n, malloc (absA c) n = (mallocA c n).map absP

theorem strdup_absA {malloc : Alloc} {mallocA : AllocA} (hm : AllocSim malloc mallocA) (c : AMem) (s fuel : Nat) :
    strdup malloc (absA c) s fuel = (strdupA mallocA c s fuel).map absP := by
  simp only [strdup, strdupA, strlen_absA]
  refine bind_same _ _ _ _ fun l => ?_
  rw [hm c (l + 1)]
  cases mallocA c (l + 1) with
  | none => rfl
  | some x =>
    obtain ⟨c1, p⟩ := x
    simp only [Option.map_some, absP]
    rw [strcpy_absA]
    refine bind_simP _ _ _ _ fun c2 a2 => ?_
    rfl

theorem strndup_absA {malloc : Alloc} {mallocA : AllocA} (hm : AllocSim malloc mallocA) (c : AMem) (s size : Nat) :
    strndup malloc (absA c) s size = (strndupA mallocA c s size).map absP := by
  simp only [strndup, strndupA, strnlen_absA]
  refine bind_same _ _ _ _ fun l => ?_
  rw [hm c (l + 1)]
  cases mallocA c (l + 1) with
  | none => rfl
  | some x =>
    obtain ⟨c1, p⟩ := x
    simp only [Option.map_some, absP]
    rw [memcpy_absA]
    refine bind_simP _ _ _ _ fun c2 a2 => ?_
    dsimp only
    wstep
    rfl

theorem absA_grow (c : AMem) (k : Nat) : absA (growA c k) = absA c := by
  unfold growA
  split
  · funext j
    simp only [absA, Array.getD_eq_getD_getElem?, Array.getElem?_append]
    by_cases hj : j < c.size
    · simp [hj]
    · simp only [hj, if_false]
      rw [Array.getElem?_eq_none (Nat.le_of_not_lt hj)]
      by_cases hk : j - c.size < k - c.size
      · simp [hk]
      · simp [hk]
  · rfl

theorem size_grow (c : AMem) (k : Nat) : k ≤ (growA c k).size := by
  unfold growA
  split
  · simp; omega
  · omega

theorem absA_fill : ∀ n (c : AMem) a, a + n ≤ c.size →
    absA (fillA n c a) = fun j => if a ≤ j ∧ j < a + n then some 0xA5#8 else absA c j
  | 0, c, a, _ => by
    funext j
    have : ¬(a ≤ j ∧ j < a + 0) := by omega
    simp only [fillA, if_neg this]
  | n + 1, c, a, h => by
    rw [fillA, absA_fill n _ (a + 1) (by simp; omega), absA_set c a _ (by omega)]
    funext j
    by_cases h1 : a + 1 ≤ j ∧ j < a + 1 + n
    · have h2 : a ≤ j ∧ j < a + (n + 1) := by omega
      simp [h1, h2]
    · by_cases hja : j = a
      · have h2 : a ≤ j ∧ j < a + (n + 1) := by omega
        simp [h2, hja]
      · have h2 : ¬(a ≤ j ∧ j < a + (n + 1)) := by omega
        simp [h1, h2, hja]

/-- the driver's allocator: the array form stands for the function form -/
theorem mallocArr_sim (fail : Bool) (base : Nat) : AllocSim (mallocFn fail base) (mallocArr fail base) := by
  intro c n
  unfold mallocFn mallocArr
  cases fail with
  | true => rfl
  | false =>
    simp only [Bool.false_eq_true, if_false, Option.map_some, absP]
    rw [absA_fill n _ base (size_grow c (base + n)), absA_grow]

end Igris.C08
